(* Proofs for C17: the denotation of coordinate data, faithfulness of every input form,
   rejection of malformed input by the constructor, and the two record importers. *)
From Coq Require Import List Arith ZArith Lia Bool Sorted.
From BiomV Require Import Base.Tree Base.ListUtil Base.Matrix Base.Dict Model.Table Model.Err
  Proofs.ErrProofs Model.Construct.
Import ListNotations.

(* ================================================================== A. coordinate data *)
Lemma cell_sum_app a b i j : cell_sum (a ++ b) i j = (cell_sum a i j + cell_sum b i j)%Z.
Proof. unfold cell_sum. rewrite filter_app, map_app, zsum_app. reflexivity. Qed.

Lemma cell_sum_cons e es i j :
  cell_sum (e :: es) i j = ((if at_cell i j e then e_val e else 0) + cell_sum es i j)%Z.
Proof. unfold cell_sum. simpl. destruct (at_cell i j e); simpl; lia. Qed.

Lemma cell_sum_nil i j : cell_sum [] i j = 0%Z.
Proof. reflexivity. Qed.

Lemma coo_dense_length nr nc es : length (coo_dense nr nc es) = nr.
Proof. unfold coo_dense. rewrite map_length, seq_length. reflexivity. Qed.

Lemma coo_dense_rect nr nc es : rect nc (coo_dense nr nc es).
Proof.
  apply Forall_forall. intros r Hr. unfold coo_dense in Hr. apply in_map_iff in Hr.
  destruct Hr as [i [Hi _]]. subst. rewrite map_length, seq_length. reflexivity.
Qed.

Lemma get_coo_dense nr nc es i j : i < nr -> j < nc -> get (coo_dense nr nc es) i j = cell_sum es i j.
Proof.
  intros Hi Hj. unfold get, coo_dense.
  rewrite (nth_indep _ [] (map (fun j => cell_sum es 0 j) (seq 0 nc))) by (rewrite map_length, seq_length; exact Hi).
  rewrite (map_nth (fun i => map (fun j => cell_sum es i j) (seq 0 nc))). rewrite seq_nth by exact Hi. simpl.
  rewrite (nth_indep _ 0%Z (cell_sum es i 0)) by (rewrite map_length, seq_length; exact Hj).
  rewrite (map_nth (fun j => cell_sum es i j)). rewrite seq_nth by exact Hj. reflexivity.
Qed.

Lemma coo_dense_is m r c es : length m = r -> rect c m ->
  (forall i j, i < r -> j < c -> cell_sum es i j = get m i j) -> coo_dense r c es = m.
Proof.
  intros Hl R H. apply (mat_ext c).
  - rewrite coo_dense_length. symmetry. exact Hl.
  - apply coo_dense_rect.
  - exact R.
  - intros i j Hi Hj. rewrite coo_dense_length in Hi. rewrite get_coo_dense by assumption. apply H; assumption.
Qed.

Lemma cell_sum_filter_nz es i j : cell_sum (filter nz3 es) i j = cell_sum es i j.
Proof.
  induction es as [|e es IH]; [reflexivity|]. simpl. destruct (nz3 e) eqn:E.
  - rewrite !cell_sum_cons, IH. reflexivity.
  - rewrite cell_sum_cons, IH. unfold nz3 in E. apply negb_false_iff in E. apply Z.eqb_eq in E.
    rewrite E. destruct (at_cell i j e); lia.
Qed.

Definition row_sum (r : row_entries) (j : nat) : Z := zsum (map snd (filter (fun cv => Nat.eqb (fst cv) j) r)).

Lemma cell_sum_row base r i j :
  cell_sum (map (fun cv : nat * Z => (base, fst cv, snd cv)) r) i j = if Nat.eqb base i then row_sum r j else 0%Z.
Proof.
  induction r as [|[c v] r IH]; simpl.
  - destruct (Nat.eqb base i); reflexivity.
  - rewrite cell_sum_cons, IH. unfold at_cell, e_row, e_col, e_val, row_sum. simpl.
    destruct (Nat.eqb base i); simpl; [|reflexivity]. destruct (Nat.eqb c j); simpl; lia.
Qed.

Lemma cell_sum_flatten base rows i j :
  cell_sum (flatten_from base rows) i j =
  if Nat.leb base i && Nat.ltb i (base + length rows) then row_sum (nth (i - base) rows []) j else 0%Z.
Proof.
  revert base. induction rows as [|r rows IH]; intros base; simpl.
  - rewrite cell_sum_nil. destruct (Nat.leb base i && Nat.ltb i (base + 0)) eqn:E; [|reflexivity].
    apply andb_true_iff in E. destruct E as [E1 E2]. apply Nat.leb_le in E1. apply Nat.ltb_lt in E2. lia.
  - rewrite cell_sum_app, cell_sum_row, IH.
    destruct (Nat.eqb base i) eqn:E.
    + apply Nat.eqb_eq in E. subst i. rewrite Nat.sub_diag.
      replace (Nat.leb (S base) base) with false by (symmetry; apply Nat.leb_gt; lia).
      replace (Nat.leb base base && Nat.ltb base (base + S (length rows))) with true
        by (symmetry; apply andb_true_iff; split; [apply Nat.leb_le|apply Nat.ltb_lt]; lia).
      simpl. lia.
    + apply Nat.eqb_neq in E.
      destruct (Nat.leb (S base) i && Nat.ltb i (S base + length rows)) eqn:E2.
      * apply andb_true_iff in E2. destruct E2 as [A B]. apply Nat.leb_le in A. apply Nat.ltb_lt in B.
        replace (Nat.leb base i && Nat.ltb i (base + S (length rows))) with true
          by (symmetry; apply andb_true_iff; split; [apply Nat.leb_le|apply Nat.ltb_lt]; lia).
        replace (i - base) with (S (i - S base)) by lia. simpl. lia.
      * replace (Nat.leb base i && Nat.ltb i (base + S (length rows))) with false; [lia|].
        symmetry. apply andb_false_iff. apply andb_false_iff in E2. destruct E2 as [A|B].
        -- left. apply Nat.leb_gt. apply Nat.leb_gt in A. lia.
        -- right. apply Nat.ltb_ge. apply Nat.ltb_ge in B. lia.
Qed.

Lemma row_sum_enum s row j :
  row_sum (enum_from s row) j = if Nat.leb s j && Nat.ltb j (s + length row) then nth (j - s) row 0%Z else 0%Z.
Proof.
  revert s. induction row as [|v row IH]; intros s; simpl.
  - destruct (Nat.leb s j && Nat.ltb j (s + 0)) eqn:E; [|reflexivity].
    apply andb_true_iff in E. destruct E as [E1 E2]. apply Nat.leb_le in E1. apply Nat.ltb_lt in E2. lia.
  - unfold row_sum in *. simpl. destruct (Nat.eqb s j) eqn:E; simpl.
    + apply Nat.eqb_eq in E. subst j. rewrite IH. rewrite Nat.sub_diag.
      replace (Nat.leb (S s) s) with false by (symmetry; apply Nat.leb_gt; lia).
      replace (Nat.leb s s && Nat.ltb s (s + S (length row))) with true
        by (symmetry; apply andb_true_iff; split; [apply Nat.leb_le|apply Nat.ltb_lt]; lia).
      simpl. lia.
    + apply Nat.eqb_neq in E. rewrite IH.
      destruct (Nat.leb (S s) j && Nat.ltb j (S s + length row)) eqn:E2.
      * apply andb_true_iff in E2. destruct E2 as [A B]. apply Nat.leb_le in A. apply Nat.ltb_lt in B.
        replace (Nat.leb s j && Nat.ltb j (s + S (length row))) with true
          by (symmetry; apply andb_true_iff; split; [apply Nat.leb_le|apply Nat.ltb_lt]; lia).
        replace (j - s) with (S (j - S s)) by lia. reflexivity.
      * replace (Nat.leb s j && Nat.ltb j (s + S (length row))) with false; [reflexivity|].
        symmetry. apply andb_false_iff. apply andb_false_iff in E2. destruct E2 as [A|B].
        -- left. apply Nat.leb_gt. apply Nat.leb_gt in A. lia.
        -- right. apply Nat.ltb_ge. apply Nat.ltb_ge in B. lia.
Qed.

(* the full row-major scan describes the matrix *)
Lemma cell_sum_full m c i j : rect c m -> i < length m -> j < c ->
  cell_sum (flatten (full_rows m)) i j = get m i j.
Proof.
  intros R Hi Hj. unfold flatten, full_rows. rewrite cell_sum_flatten, map_length.
  replace (Nat.leb 0 i && Nat.ltb i (0 + length m)) with true
    by (symmetry; apply andb_true_iff; split; [apply Nat.leb_le|apply Nat.ltb_lt]; lia).
  rewrite Nat.sub_0_r.
  rewrite (nth_indep _ [] (enum_from 0 [])) by (rewrite map_length; exact Hi).
  rewrite (map_nth (enum_from 0)). rewrite row_sum_enum.
  rewrite (rect_nth_length c m i R Hi).
  replace (Nat.leb 0 j && Nat.ltb j (0 + c)) with true
    by (symmetry; apply andb_true_iff; split; [apply Nat.leb_le|apply Nat.ltb_lt]; lia).
  rewrite Nat.sub_0_r. reflexivity.
Qed.

Lemma in_range_flatten base rows nr nc :
  base + length rows <= nr -> Forall (fun r => Forall (fun cv : nat * Z => fst cv < nc) r) rows ->
  forallb (in_range nr nc) (flatten_from base rows) = true.
Proof.
  revert base. induction rows as [|r rows IH]; intros base Hb F; simpl; [reflexivity|].
  inversion F as [|? ? Fr Frows]; subst. rewrite forallb_app. apply andb_true_iff. split.
  - apply forallb_forall. intros e He. apply in_map_iff in He. destruct He as [[c v] [E Hin]]. subst e.
    rewrite Forall_forall in Fr. specialize (Fr _ Hin). simpl in *.
    unfold in_range, e_row, e_col. simpl. apply andb_true_iff. split; apply Nat.ltb_lt; lia.
  - apply IH; [simpl in Hb; lia|exact Frows].
Qed.

Lemma enum_from_bound s row : Forall (fun cv : nat * Z => fst cv < s + length row) (enum_from s row).
Proof.
  revert s. induction row as [|v row IH]; intros s; simpl; constructor.
  - simpl. lia.
  - eapply Forall_impl; [|apply IH]. intros cv H. simpl in H. lia.
Qed.

Lemma full_rows_bound c m : rect c m -> Forall (fun r => Forall (fun cv : nat * Z => fst cv < c) r) (full_rows m).
Proof.
  intros R. unfold full_rows. apply Forall_forall. intros r Hr. apply in_map_iff in Hr.
  destruct Hr as [row [E Hin]]. subst r. unfold rect in R. rewrite Forall_forall in R.
  pose proof (enum_from_bound 0 row) as B. rewrite (R row Hin) in B. exact B.
Qed.

Lemma forallb_filter {A} (p q : A -> bool) l : forallb p l = true -> forallb p (filter q l) = true.
Proof.
  rewrite !forallb_forall. intros H x Hx. apply filter_In in Hx. apply H. tauto.
Qed.

Theorem full_represents m c : rect c m -> represents (flatten (full_rows m)) (length m) c m.
Proof.
  intros R. split.
  - apply in_range_flatten; [unfold full_rows; rewrite map_length; lia|apply full_rows_bound; exact R].
  - intros i j Hi Hj. apply (cell_sum_full m c); assumption.
Qed.

Theorem scan_represents m c : rect c m -> represents (scan m) (length m) c m.
Proof.
  intros R. destruct (full_represents m c R) as [A B]. split.
  - unfold scan. apply forallb_filter. exact A.
  - intros i j Hi Hj. unfold scan. rewrite cell_sum_filter_nz. apply B; assumption.
Qed.

Lemma represents_dense es r c m : length m = r -> rect c m -> represents es r c m -> coo_dense r c es = m.
Proof. intros Hl R [_ H]. apply coo_dense_is; assumption. Qed.

(* rows whose zeros are dropped flatten to the scan *)
Lemma flatten_nz base rows :
  flatten_from base (map nz_row rows) = filter nz3 (flatten_from base rows).
Proof.
  revert base. induction rows as [|r rows IH]; intros base; simpl; [reflexivity|].
  rewrite filter_app, IH. f_equal. unfold nz_row. induction r as [|[c v] r IHr]; [reflexivity|]. simpl.
  unfold nz3 at 1. unfold e_val. simpl. destruct (negb (Z.eqb v 0)); simpl; rewrite IHr; reflexivity.
Qed.

(* ================================================================== B. every form is faithful *)
Lemma to_dense_checked nr nc es m : length m = nr -> rect nc m -> represents es nr nc m ->
  match coo_checked nr nc es with
  | ROk (a, b, es') => ROk (a, b, coo_dense a b es')
  | RErr c => RErr c
  end = ROk (nr, nc, m).
Proof.
  intros Hl R Rep. unfold coo_checked. destruct Rep as [A B]. rewrite A.
  rewrite (coo_dense_is m nr nc es Hl R B). reflexivity.
Qed.

Lemma rectb_true c m : rect c m -> rectb c m = true.
Proof. apply rectb_rect. Qed.

(* the general statements: ANY entry list describing m (any order, explicit zeros, values split
   over repeated cells) *)
Theorem faithful_triples_gen es m c : rect c m -> represents es (length m) c m ->
  to_dense (InTriples es) (length m, c) = ROk (length m, c, m).
Proof.
  intros R Rep. unfold to_dense, to_coo. destruct es as [|e es].
  - simpl. rewrite (represents_dense [] (length m) c m eq_refl R Rep). reflexivity.
  - apply to_dense_checked; [reflexivity|exact R|exact Rep].
Qed.

Theorem faithful_dict_gen es m c : rect c m -> represents es (length m) c m ->
  to_dense (InDict es) (length m, c) = ROk (length m, c, m).
Proof. intros R Rep. unfold to_dense, to_coo. apply to_dense_checked; [reflexivity|exact R|exact Rep]. Qed.

Theorem faithful_sparse_gen es m c shape : rect c m -> represents es (length m) c m ->
  to_dense (InSparse (length m) c es) shape = ROk (length m, c, m).
Proof. intros R Rep. unfold to_dense, to_coo. apply to_dense_checked; [reflexivity|exact R|exact Rep]. Qed.

(* the canonical encodings *)
Theorem faithful_array m c shape : rect c m -> (length m * c = 0 -> shape = (length m, c)) ->
  to_dense (enc_array c m) shape = ROk (length m, c, m).
Proof.
  intros R Hs. unfold to_dense, enc_array, to_coo.
  destruct (Nat.eqb (length m * c) 0) eqn:E.
  - apply Nat.eqb_eq in E. rewrite (Hs E). simpl.
    rewrite (coo_dense_is m (length m) c [] eq_refl R); [reflexivity|].
    intros i j Hi Hj. exfalso. destruct (length m); [lia|]. destruct c; simpl in E; lia.
  - rewrite (represents_dense _ _ _ _ eq_refl R (scan_represents m c R)). reflexivity.
Qed.

Theorem faithful_lists m c shape : rect c m -> (m = [] -> shape = (0, c)) ->
  to_dense (enc_lists m) shape = ROk (length m, c, m).
Proof.
  intros R Hs. unfold to_dense, enc_lists, to_coo. destruct m as [|r m'].
  - rewrite (Hs eq_refl). reflexivity.
  - assert (Hr : length r = c) by (inversion R; assumption). rewrite Hr.
    rewrite (rectb_true c _ R).
    rewrite (represents_dense _ _ _ _ eq_refl R (scan_represents (r :: m') c R)). reflexivity.
Qed.

Theorem faithful_rowarrays m c shape : rect c m -> (m = [] -> shape = (0, c)) ->
  to_dense (enc_rowarrays m) shape = ROk (length m, c, m).
Proof.
  intros R Hs. unfold to_dense, enc_rowarrays, to_coo. destruct m as [|r m'].
  - rewrite (Hs eq_refl). reflexivity.
  - assert (Hr : length r = c) by (inversion R; assumption). rewrite Hr.
    rewrite (rectb_true c _ R).
    rewrite (represents_dense _ _ _ _ eq_refl R (scan_represents (r :: m') c R)). reflexivity.
Qed.

Theorem faithful_triples m c : rect c m -> to_dense (enc_triples m) (length m, c) = ROk (length m, c, m).
Proof. intros R. apply faithful_triples_gen; [exact R|apply scan_represents; exact R]. Qed.

Theorem faithful_triples_zeros m c : rect c m ->
  to_dense (enc_triples_zeros m) (length m, c) = ROk (length m, c, m).
Proof. intros R. apply faithful_triples_gen; [exact R|apply full_represents; exact R]. Qed.

Theorem faithful_dict m c : rect c m -> to_dense (enc_dict m) (length m, c) = ROk (length m, c, m).
Proof. intros R. apply faithful_dict_gen; [exact R|apply scan_represents; exact R]. Qed.

Theorem faithful_sparse m c shape : rect c m -> to_dense (enc_sparse c m) shape = ROk (length m, c, m).
Proof. intros R. apply faithful_sparse_gen; [exact R|apply scan_represents; exact R]. Qed.

Lemma flatten_nz_rows m : flatten (map (fun r => nz_row (enum_from 0 r)) m) = scan m.
Proof.
  unfold scan, flatten, full_rows. rewrite <- flatten_nz. rewrite map_map. reflexivity.
Qed.

Lemma sparserows_to_coo c (l : list row_entries) shape : l <> [] ->
  to_coo (InSparseRows (map (fun e => (c, e)) l)) shape = coo_checked (length l) c (flatten l).
Proof.
  intros Hne. destruct l as [|e l]; [contradiction|].
  assert (W : forallb (fun r0 : nat * row_entries => Nat.eqb (fst r0) c) (map (fun e => (c, e)) (e :: l)) = true).
  { apply forallb_forall. intros x Hx. apply in_map_iff in Hx. destruct Hx as [y [<- _]]. apply Nat.eqb_refl. }
  assert (S : map snd (map (fun e : row_entries => (c, e)) (e :: l)) = e :: l).
  { rewrite map_map. simpl. f_equal. induction l as [|x l IH]; [reflexivity|]. simpl. f_equal. exact IH. }
  unfold to_coo. change (map (fun e0 : row_entries => (c, e0)) (e :: l))
    with ((c, e) :: map (fun e0 : row_entries => (c, e0)) l) at 1.
  cbv iota beta. rewrite W, S. rewrite map_length. reflexivity.
Qed.

Theorem faithful_sparserows m c shape : rect c m -> (m = [] -> shape = (0, c)) ->
  to_dense (enc_sparserows c m) shape = ROk (length m, c, m).
Proof.
  intros R Hs. unfold to_dense, enc_sparserows. destruct m as [|r m'] eqn:Em.
  - rewrite (Hs eq_refl). reflexivity.
  - rewrite <- Em in *.
    replace (map (fun r0 : list Z => (c, nz_row (enum_from 0 r0))) m)
      with (map (fun e : row_entries => (c, e)) (map (fun r0 => nz_row (enum_from 0 r0)) m))
      by (rewrite map_map; reflexivity).
    rewrite sparserows_to_coo by (rewrite Em; discriminate).
    rewrite flatten_nz_rows, map_length.
    apply to_dense_checked; [reflexivity|exact R|apply scan_represents; exact R].
Qed.

(* ---- list of row dicts: general statement for dicts keyed (0, column) *)
Lemma nmax_ge x l : In x l -> x <= nmax l.
Proof.
  induction l as [|y l IH]; simpl; intros H; [destruct H|]. destruct H as [->|H]; [lia|]. specialize (IH H). lia.
Qed.
Lemma nmax_le b l : (forall x, In x l -> x <= b) -> nmax l <= b.
Proof.
  induction l as [|y l IH]; simpl; intros H; [lia|].
  assert (y <= b) by (apply H; left; reflexivity).
  assert (nmax l <= b) by (apply IH; intros x Hx; apply H; right; exact Hx). lia.
Qed.

Definition strip (row : list entry3) : row_entries := map (fun e => (e_col e, e_val e)) row.

Theorem faithful_rowdicts_gen rows m c :
  rect c m -> length rows = length m -> concat rows <> [] ->
  (forall e, In e (concat rows) -> e_row e = 0 /\ e_col e < c) ->
  (forall i j, i < length m -> j < c -> row_sum (strip (nth i rows [])) j = get m i j) ->
  to_dense (InRowDicts rows) (length m, c) = ROk (length m, c, m).
Proof.
  intros R Hl Hne Hk Hs. unfold to_dense, to_coo.
  destruct rows as [|r0 rows'] eqn:Er; [exfalso; apply Hne; reflexivity|]. rewrite <- Er in *.
  destruct (concat rows) as [|k0 ks] eqn:Ek; [exfalso; apply Hne; reflexivity|]. rewrite <- Ek in *.
  assert (Hrow0 : nmax (map e_row (concat rows)) = 0).
  { apply Nat.le_0_r. apply nmax_le. intros x Hx. apply in_map_iff in Hx. destruct Hx as [e [<- He]].
    destruct (Hk e He) as [A _]. lia. }
  assert (Hc : c > 0).
  { assert (In k0 (concat rows)) by (rewrite Ek; left; reflexivity). destruct (Hk k0 H). lia. }
  assert (Hcol : S (nmax (map e_col (concat rows))) <= c).
  { assert (nmax (map e_col (concat rows)) <= c - 1); [|lia]. apply nmax_le. intros x Hx.
    apply in_map_iff in Hx. destruct Hx as [e [<- He]]. destruct (Hk e He). lia. }
  rewrite Hrow0.
  replace (Nat.ltb (S (nmax (map e_col (concat rows)))) 1) with false by (symmetry; apply Nat.ltb_ge; lia).
  cbn [fst snd]. rewrite (Nat.max_r _ c Hcol). rewrite Hl.
  apply to_dense_checked; [reflexivity|exact R|]. split.
  - unfold flatten. apply in_range_flatten; [rewrite map_length; lia|].
    apply Forall_forall. intros r Hr. apply in_map_iff in Hr. destruct Hr as [row [<- Hrow]].
    apply Forall_forall. intros cv Hcv. apply in_map_iff in Hcv. destruct Hcv as [e [<- He]]. simpl.
    apply (Hk e). apply in_concat. exists row. tauto.
  - intros i j Hi Hj. unfold flatten. rewrite cell_sum_flatten, map_length, Hl.
    replace (Nat.leb 0 i && Nat.ltb i (0 + length m)) with true
      by (symmetry; apply andb_true_iff; split; [apply Nat.leb_le|apply Nat.ltb_lt]; lia).
    rewrite Nat.sub_0_r.
    rewrite (nth_indep _ [] (map (fun e => (e_col e, e_val e)) [])) by (rewrite map_length; lia).
    rewrite (map_nth (map (fun e => (e_col e, e_val e)))). apply Hs; assumption.
Qed.

Lemma row_sum_nz r j : row_sum (nz_row r) j = row_sum r j.
Proof.
  unfold row_sum, nz_row. induction r as [|[c v] r IH]; [reflexivity|]. simpl.
  destruct (negb (Z.eqb v 0)) eqn:E; simpl.
  - destruct (Nat.eqb c j); simpl; rewrite IH; reflexivity.
  - apply negb_false_iff in E. apply Z.eqb_eq in E. subst v. rewrite IH.
    destruct (Nat.eqb c j); simpl; lia.
Qed.

Lemma strip_keyed (l : row_entries) : strip (map (fun cv : nat * Z => (0, fst cv, snd cv)) l) = l.
Proof. unfold strip. rewrite map_map. induction l as [|[c v] l IH]; [reflexivity|]. simpl. rewrite IH. reflexivity. Qed.

Definition has_nonzero (m : matrix) : Prop := exists i j, get m i j <> 0%Z.

Lemma nz_row_in r cv : In cv (nz_row r) -> In cv r /\ snd cv <> 0%Z.
Proof.
  unfold nz_row. intros H. apply filter_In in H. destruct H as [A B]. split; [exact A|].
  apply negb_true_iff in B. apply Z.eqb_neq in B. exact B.
Qed.

Lemma enum_from_nth s row j : j < length row -> In (s + j, nth j row 0%Z) (enum_from s row).
Proof.
  revert s j. induction row as [|v row IH]; intros s j Hj; simpl in Hj; [lia|].
  destruct j as [|j]; simpl.
  - left. f_equal. lia.
  - right. replace (s + S j) with (S s + j) by lia. apply IH. lia.
Qed.

Theorem faithful_rowdicts m c : rect c m -> has_nonzero m ->
  to_dense (enc_rowdicts m) (length m, c) = ROk (length m, c, m).
Proof.
  intros R (i & j & Hnz). unfold enc_rowdicts.
  assert (Hi : i < length m).
  { destruct (Nat.lt_ge_cases i (length m)) as [H|H]; [exact H|]. exfalso. apply Hnz. unfold get.
    rewrite (nth_overflow m) by exact H. destruct j; reflexivity. }
  assert (Hj : j < c).
  { destruct (Nat.lt_ge_cases j c) as [H|H]; [exact H|]. exfalso. apply Hnz. unfold get.
    apply nth_overflow. rewrite (rect_nth_length c m i R Hi). exact H. }
  set (f := fun r : list Z => map (fun cv : nat * Z => (0, fst cv, snd cv)) (nz_row (enum_from 0 r))).
  apply faithful_rowdicts_gen.
  - exact R.
  - apply map_length.
  - intros E.
    assert (Hin : In (0, j, get m i j) (concat (map f m))).
    { apply in_concat. exists (f (nth i m [])). split; [apply in_map; apply nth_In; exact Hi|].
      unfold f. apply in_map_iff. exists (j, get m i j). split; [reflexivity|].
      unfold nz_row. apply filter_In. split.
      - pose proof (enum_from_nth 0 (nth i m []) j) as H. simpl in H. apply H.
        rewrite (rect_nth_length c m i R Hi). exact Hj.
      - simpl. apply negb_true_iff. apply Z.eqb_neq. exact Hnz. }
    rewrite E in Hin. destruct Hin.
  - intros e He. apply in_concat in He. destruct He as [l [Hl He]]. apply in_map_iff in Hl.
    destruct Hl as [row [<- Hrow]]. unfold f in He. apply in_map_iff in He. destruct He as [cv [<- Hcv]].
    apply nz_row_in in Hcv. destruct Hcv as [Hcv _]. unfold e_row, e_col. simpl. split; [reflexivity|].
    pose proof (enum_from_bound 0 row) as B. rewrite Forall_forall in B. specialize (B cv Hcv).
    unfold rect in R. rewrite Forall_forall in R. rewrite (R row Hrow) in B. exact B.
  - intros i' j' Hi' Hj'.
    rewrite (nth_indep _ [] (f [])) by (rewrite map_length; exact Hi').
    rewrite (map_nth f). unfold f. rewrite strip_keyed, row_sum_nz, row_sum_enum.
    rewrite (rect_nth_length c m i' R Hi').
    replace (Nat.leb 0 j' && Nat.ltb j' (0 + c)) with true
      by (symmetry; apply andb_true_iff; split; [apply Nat.leb_le|apply Nat.ltb_lt]; lia).
    rewrite Nat.sub_0_r. reflexivity.
Qed.
