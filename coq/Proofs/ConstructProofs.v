(* Proofs for C17: the denotation of coordinate data, faithfulness of every input form,
   rejection of malformed input by the constructor, and the two record importers. *)
From Coq Require Import List Arith ZArith Lia Bool Sorted.
From BiomV Require Import Base.Tree Base.ListUtil Base.Matrix Base.Dict Model.Table Model.Err
  Model.Construct.
Import ListNotations.

(* ================================================================== A. coordinate data *)
Lemma cell_sum_app a b i j : cell_sum (a ++ b) i j = (cell_sum a i j + cell_sum b i j)%Z.
Proof. unfold cell_sum. rewrite filter_app, map_app, zsum_app. reflexivity. Qed.

Lemma cell_sum_cons e es i j :
  cell_sum (e :: es) i j = ((if at_cell i j e then e_val e else 0) + cell_sum es i j)%Z.
Proof. unfold cell_sum. simpl. destruct (at_cell i j e); simpl; lia. Qed.

Lemma cell_sum_nil i j : cell_sum [] i j = 0%Z.
Proof. reflexivity. Qed.

Lemma coo_dense_length nr nc es : length (coo_dense nr nc es) = nr.
Proof. unfold coo_dense. rewrite map_length, seq_length. reflexivity. Qed.

Lemma coo_dense_rect nr nc es : rect nc (coo_dense nr nc es).
Proof.
  apply Forall_forall. intros r Hr. unfold coo_dense in Hr. apply in_map_iff in Hr.
  destruct Hr as [i [Hi _]]. subst. rewrite map_length, seq_length. reflexivity.
Qed.

Lemma get_coo_dense nr nc es i j : i < nr -> j < nc -> get (coo_dense nr nc es) i j = cell_sum es i j.
Proof.
  intros Hi Hj. unfold get, coo_dense.
  rewrite (nth_indep _ [] (map (fun j => cell_sum es 0 j) (seq 0 nc))) by (rewrite map_length, seq_length; exact Hi).
  rewrite (map_nth (fun i => map (fun j => cell_sum es i j) (seq 0 nc))). rewrite seq_nth by exact Hi. simpl.
  rewrite (nth_indep _ 0%Z (cell_sum es i 0)) by (rewrite map_length, seq_length; exact Hj).
  rewrite (map_nth (fun j => cell_sum es i j)). rewrite seq_nth by exact Hj. reflexivity.
Qed.

Lemma coo_dense_is m r c es : length m = r -> rect c m ->
  (forall i j, i < r -> j < c -> cell_sum es i j = get m i j) -> coo_dense r c es = m.
Proof.
  intros Hl R H. apply (mat_ext c).
  - rewrite coo_dense_length. symmetry. exact Hl.
  - apply coo_dense_rect.
  - exact R.
  - intros i j Hi Hj. rewrite coo_dense_length in Hi. rewrite get_coo_dense by assumption. apply H; assumption.
Qed.

Lemma cell_sum_filter_nz es i j : cell_sum (filter nz3 es) i j = cell_sum es i j.
Proof.
  induction es as [|e es IH]; [reflexivity|]. simpl. destruct (nz3 e) eqn:E.
  - rewrite !cell_sum_cons, IH. reflexivity.
  - rewrite cell_sum_cons, IH. unfold nz3 in E. apply negb_false_iff in E. apply Z.eqb_eq in E.
    rewrite E. destruct (at_cell i j e); lia.
Qed.

Definition row_sum (r : row_entries) (j : nat) : Z := zsum (map snd (filter (fun cv => Nat.eqb (fst cv) j) r)).

Lemma cell_sum_row base r i j :
  cell_sum (map (fun cv : nat * Z => (base, fst cv, snd cv)) r) i j = if Nat.eqb base i then row_sum r j else 0%Z.
Proof.
  induction r as [|[c v] r IH]; simpl.
  - destruct (Nat.eqb base i); reflexivity.
  - rewrite cell_sum_cons, IH. unfold at_cell, e_row, e_col, e_val, row_sum. simpl.
    destruct (Nat.eqb base i); simpl; [|reflexivity]. destruct (Nat.eqb c j); simpl; lia.
Qed.

Lemma cell_sum_flatten base rows i j :
  cell_sum (flatten_from base rows) i j =
  if Nat.leb base i && Nat.ltb i (base + length rows) then row_sum (nth (i - base) rows []) j else 0%Z.
Proof.
  revert base. induction rows as [|r rows IH]; intros base; simpl.
  - rewrite cell_sum_nil. destruct (Nat.leb base i && Nat.ltb i (base + 0)) eqn:E; [|reflexivity].
    apply andb_true_iff in E. destruct E as [E1 E2]. apply Nat.leb_le in E1. apply Nat.ltb_lt in E2. lia.
  - rewrite cell_sum_app, cell_sum_row, IH.
    destruct (Nat.eqb base i) eqn:E.
    + apply Nat.eqb_eq in E. subst i. rewrite Nat.sub_diag.
      replace (Nat.leb (S base) base) with false by (symmetry; apply Nat.leb_gt; lia).
      replace (Nat.leb base base && Nat.ltb base (base + S (length rows))) with true
        by (symmetry; apply andb_true_iff; split; [apply Nat.leb_le|apply Nat.ltb_lt]; lia).
      simpl. lia.
    + apply Nat.eqb_neq in E.
      destruct (Nat.leb (S base) i && Nat.ltb i (S base + length rows)) eqn:E2.
      * apply andb_true_iff in E2. destruct E2 as [A B]. apply Nat.leb_le in A. apply Nat.ltb_lt in B.
        replace (Nat.leb base i && Nat.ltb i (base + S (length rows))) with true
          by (symmetry; apply andb_true_iff; split; [apply Nat.leb_le|apply Nat.ltb_lt]; lia).
        replace (i - base) with (S (i - S base)) by lia. simpl. lia.
      * replace (Nat.leb base i && Nat.ltb i (base + S (length rows))) with false; [lia|].
        symmetry. apply andb_false_iff. apply andb_false_iff in E2. destruct E2 as [A|B].
        -- left. apply Nat.leb_gt. apply Nat.leb_gt in A. lia.
        -- right. apply Nat.ltb_ge. apply Nat.ltb_ge in B. lia.
Qed.

Lemma row_sum_enum s row j :
  row_sum (enum_from s row) j = if Nat.leb s j && Nat.ltb j (s + length row) then nth (j - s) row 0%Z else 0%Z.
Proof.
  revert s. induction row as [|v row IH]; intros s; simpl.
  - destruct (Nat.leb s j && Nat.ltb j (s + 0)) eqn:E; [|reflexivity].
    apply andb_true_iff in E. destruct E as [E1 E2]. apply Nat.leb_le in E1. apply Nat.ltb_lt in E2. lia.
  - unfold row_sum in *. simpl. destruct (Nat.eqb s j) eqn:E; simpl.
    + apply Nat.eqb_eq in E. subst j. rewrite IH. rewrite Nat.sub_diag.
      replace (Nat.leb (S s) s) with false by (symmetry; apply Nat.leb_gt; lia).
      replace (Nat.leb s s && Nat.ltb s (s + S (length row))) with true
        by (symmetry; apply andb_true_iff; split; [apply Nat.leb_le|apply Nat.ltb_lt]; lia).
      simpl. lia.
    + apply Nat.eqb_neq in E. rewrite IH.
      destruct (Nat.leb (S s) j && Nat.ltb j (S s + length row)) eqn:E2.
      * apply andb_true_iff in E2. destruct E2 as [A B]. apply Nat.leb_le in A. apply Nat.ltb_lt in B.
        replace (Nat.leb s j && Nat.ltb j (s + S (length row))) with true
          by (symmetry; apply andb_true_iff; split; [apply Nat.leb_le|apply Nat.ltb_lt]; lia).
        replace (j - s) with (S (j - S s)) by lia. reflexivity.
      * replace (Nat.leb s j && Nat.ltb j (s + S (length row))) with false; [reflexivity|].
        symmetry. apply andb_false_iff. apply andb_false_iff in E2. destruct E2 as [A|B].
        -- left. apply Nat.leb_gt. apply Nat.leb_gt in A. lia.
        -- right. apply Nat.ltb_ge. apply Nat.ltb_ge in B. lia.
Qed.

(* the full row-major scan describes the matrix *)
Lemma cell_sum_full m c i j : rect c m -> i < length m -> j < c ->
  cell_sum (flatten (full_rows m)) i j = get m i j.
Proof.
  intros R Hi Hj. unfold flatten, full_rows. rewrite cell_sum_flatten, map_length.
  replace (Nat.leb 0 i && Nat.ltb i (0 + length m)) with true
    by (symmetry; apply andb_true_iff; split; [apply Nat.leb_le|apply Nat.ltb_lt]; lia).
  rewrite Nat.sub_0_r.
  rewrite (nth_indep _ [] (enum_from 0 [])) by (rewrite map_length; exact Hi).
  rewrite (map_nth (enum_from 0)). rewrite row_sum_enum.
  rewrite (rect_nth_length c m i R Hi).
  replace (Nat.leb 0 j && Nat.ltb j (0 + c)) with true
    by (symmetry; apply andb_true_iff; split; [apply Nat.leb_le|apply Nat.ltb_lt]; lia).
  rewrite Nat.sub_0_r. reflexivity.
Qed.

Lemma in_range_flatten base rows nr nc :
  base + length rows <= nr -> Forall (fun r => Forall (fun cv : nat * Z => fst cv < nc) r) rows ->
  forallb (in_range nr nc) (flatten_from base rows) = true.
Proof.
  revert base. induction rows as [|r rows IH]; intros base Hb F; simpl; [reflexivity|].
  inversion F as [|? ? Fr Frows]; subst. rewrite forallb_app. apply andb_true_iff. split.
  - apply forallb_forall. intros e He. apply in_map_iff in He. destruct He as [[c v] [E Hin]]. subst e.
    rewrite Forall_forall in Fr. specialize (Fr _ Hin). simpl in *.
    unfold in_range, e_row, e_col. simpl. apply andb_true_iff. split; apply Nat.ltb_lt; lia.
  - apply IH; [simpl in Hb; lia|exact Frows].
Qed.

Lemma enum_from_bound s row : Forall (fun cv : nat * Z => fst cv < s + length row) (enum_from s row).
Proof.
  revert s. induction row as [|v row IH]; intros s; simpl; constructor.
  - simpl. lia.
  - eapply Forall_impl; [|apply IH]. intros cv H. simpl in H. lia.
Qed.

Lemma full_rows_bound c m : rect c m -> Forall (fun r => Forall (fun cv : nat * Z => fst cv < c) r) (full_rows m).
Proof.
  intros R. unfold full_rows. apply Forall_forall. intros r Hr. apply in_map_iff in Hr.
  destruct Hr as [row [E Hin]]. subst r. unfold rect in R. rewrite Forall_forall in R.
  pose proof (enum_from_bound 0 row) as B. rewrite (R row Hin) in B. exact B.
Qed.

Lemma forallb_filter {A} (p q : A -> bool) l : forallb p l = true -> forallb p (filter q l) = true.
Proof.
  rewrite !forallb_forall. intros H x Hx. apply filter_In in Hx. apply H. tauto.
Qed.

Theorem full_represents m c : rect c m -> represents (flatten (full_rows m)) (length m) c m.
Proof.
  intros R. split.
  - apply in_range_flatten; [unfold full_rows; rewrite map_length; lia|apply full_rows_bound; exact R].
  - intros i j Hi Hj. apply (cell_sum_full m c); assumption.
Qed.

Theorem scan_represents m c : rect c m -> represents (scan m) (length m) c m.
Proof.
  intros R. destruct (full_represents m c R) as [A B]. split.
  - unfold scan. apply forallb_filter. exact A.
  - intros i j Hi Hj. unfold scan. rewrite cell_sum_filter_nz. apply B; assumption.
Qed.

Lemma represents_dense es r c m : length m = r -> rect c m -> represents es r c m -> coo_dense r c es = m.
Proof. intros Hl R [_ H]. apply coo_dense_is; assumption. Qed.

(* rows whose zeros are dropped flatten to the scan *)
Lemma flatten_nz base rows :
  flatten_from base (map nz_row rows) = filter nz3 (flatten_from base rows).
Proof.
  revert base. induction rows as [|r rows IH]; intros base; simpl; [reflexivity|].
  rewrite filter_app, IH. f_equal. unfold nz_row. induction r as [|[c v] r IHr]; [reflexivity|]. simpl.
  unfold nz3 at 1. unfold e_val. simpl. destruct (negb (Z.eqb v 0)); simpl; rewrite IHr; reflexivity.
Qed.

(* ================================================================== B. every form is faithful *)
Lemma to_dense_checked nr nc es m : length m = nr -> rect nc m -> represents es nr nc m ->
  match coo_checked nr nc es with
  | ROk (a, b, es') => ROk (a, b, coo_dense a b es')
  | RErr c => RErr c
  end = ROk (nr, nc, m).
Proof.
  intros Hl R Rep. unfold coo_checked. destruct Rep as [A B]. rewrite A.
  rewrite (coo_dense_is m nr nc es Hl R B). reflexivity.
Qed.

Lemma to_dense_checked_ids nr nc es m : length m = nr -> rect nc m -> represents es nr nc m ->
  match coo_checked_ids nr nc es with
  | ROk (a, b, es') => ROk (a, b, coo_dense a b es')
  | RErr c => RErr c
  end = ROk (nr, nc, m).
Proof.
  intros Hl R Rep. unfold coo_checked_ids. destruct Rep as [A B]. rewrite A.
  rewrite (coo_dense_is m nr nc es Hl R B). reflexivity.
Qed.

Lemma rectb_true c m : rect c m -> rectb c m = true.
Proof. apply rectb_rect. Qed.

(* the general statements: ANY entry list describing m (any order, explicit zeros, values split
   over repeated cells) *)
Theorem faithful_triples_gen es m c : rect c m -> represents es (length m) c m ->
  to_dense (InTriples es) (length m, c) = ROk (length m, c, m).
Proof.
  intros R Rep. unfold to_dense, to_coo. destruct es as [|e es].
  - simpl. rewrite (represents_dense [] (length m) c m eq_refl R Rep). reflexivity.
  - apply to_dense_checked_ids; [reflexivity|exact R|exact Rep].
Qed.

Theorem faithful_dict_gen es m c : rect c m -> represents es (length m) c m ->
  to_dense (InDict es) (length m, c) = ROk (length m, c, m).
Proof. intros R Rep. unfold to_dense, to_coo. apply to_dense_checked_ids; [reflexivity|exact R|exact Rep]. Qed.

Theorem faithful_sparse_gen es m c shape : rect c m -> represents es (length m) c m ->
  to_dense (InSparse (length m) c es) shape = ROk (length m, c, m).
Proof. intros R Rep. unfold to_dense, to_coo. apply to_dense_checked; [reflexivity|exact R|exact Rep]. Qed.

(* the canonical encodings *)
Theorem faithful_array m c shape : rect c m -> (length m * c = 0 -> shape = (length m, c)) ->
  to_dense (enc_array c m) shape = ROk (length m, c, m).
Proof.
  intros R Hs. unfold to_dense, enc_array, to_coo.
  destruct (Nat.eqb (length m * c) 0) eqn:E.
  - apply Nat.eqb_eq in E. rewrite (Hs E). simpl.
    rewrite (coo_dense_is m (length m) c [] eq_refl R); [reflexivity|].
    intros i j Hi Hj. exfalso. destruct (length m); [lia|]. destruct c; simpl in E; lia.
  - rewrite (represents_dense _ _ _ _ eq_refl R (scan_represents m c R)). reflexivity.
Qed.

Theorem faithful_lists m c shape : rect c m -> (m = [] -> shape = (0, c)) ->
  to_dense (enc_lists m) shape = ROk (length m, c, m).
Proof.
  intros R Hs. unfold to_dense, enc_lists, to_coo. destruct m as [|r m'].
  - rewrite (Hs eq_refl). reflexivity.
  - assert (Hr : length r = c) by (inversion R; assumption). rewrite Hr.
    rewrite (rectb_true c _ R).
    rewrite (represents_dense _ _ _ _ eq_refl R (scan_represents (r :: m') c R)). reflexivity.
Qed.

Theorem faithful_rowarrays m c shape : rect c m -> (m = [] -> shape = (0, c)) ->
  to_dense (enc_rowarrays m) shape = ROk (length m, c, m).
Proof.
  intros R Hs. unfold to_dense, enc_rowarrays, to_coo. destruct m as [|r m'].
  - rewrite (Hs eq_refl). reflexivity.
  - assert (Hr : length r = c) by (inversion R; assumption). rewrite Hr.
    rewrite (rectb_true c _ R).
    rewrite (represents_dense _ _ _ _ eq_refl R (scan_represents (r :: m') c R)). reflexivity.
Qed.

Theorem faithful_triples m c : rect c m -> to_dense (enc_triples m) (length m, c) = ROk (length m, c, m).
Proof. intros R. apply faithful_triples_gen; [exact R|apply scan_represents; exact R]. Qed.

Theorem faithful_triples_zeros m c : rect c m ->
  to_dense (enc_triples_zeros m) (length m, c) = ROk (length m, c, m).
Proof. intros R. apply faithful_triples_gen; [exact R|apply full_represents; exact R]. Qed.

Theorem faithful_dict m c : rect c m -> to_dense (enc_dict m) (length m, c) = ROk (length m, c, m).
Proof. intros R. apply faithful_dict_gen; [exact R|apply scan_represents; exact R]. Qed.

Theorem faithful_sparse m c shape : rect c m -> to_dense (enc_sparse c m) shape = ROk (length m, c, m).
Proof. intros R. apply faithful_sparse_gen; [exact R|apply scan_represents; exact R]. Qed.

Lemma flatten_nz_rows m : flatten (map (fun r => nz_row (enum_from 0 r)) m) = scan m.
Proof.
  unfold scan, flatten, full_rows. rewrite <- flatten_nz. rewrite map_map. reflexivity.
Qed.

Lemma sparserows_to_coo c (l : list row_entries) shape : l <> [] ->
  to_coo (InSparseRows (map (fun e => (c, e)) l)) shape = coo_checked (length l) c (flatten l).
Proof.
  intros Hne. destruct l as [|e l]; [contradiction|].
  assert (W : forallb (fun r0 : nat * row_entries => Nat.eqb (fst r0) c) (map (fun e => (c, e)) (e :: l)) = true).
  { apply forallb_forall. intros x Hx. apply in_map_iff in Hx. destruct Hx as [y [<- _]]. apply Nat.eqb_refl. }
  assert (S : map snd (map (fun e : row_entries => (c, e)) (e :: l)) = e :: l).
  { rewrite map_map. simpl. f_equal. apply map_id. }
  unfold to_coo. change (map (fun e0 : row_entries => (c, e0)) (e :: l))
    with ((c, e) :: map (fun e0 : row_entries => (c, e0)) l) at 1.
  cbv iota beta. rewrite W, S. rewrite map_length. reflexivity.
Qed.

Theorem faithful_sparserows m c shape : rect c m -> (m = [] -> shape = (0, c)) ->
  to_dense (enc_sparserows c m) shape = ROk (length m, c, m).
Proof.
  intros R Hs. unfold to_dense, enc_sparserows. destruct m as [|r m'] eqn:Em.
  - rewrite (Hs eq_refl). reflexivity.
  - rewrite <- Em in *.
    replace (map (fun r0 : list Z => (c, nz_row (enum_from 0 r0))) m)
      with (map (fun e : row_entries => (c, e)) (map (fun r0 => nz_row (enum_from 0 r0)) m))
      by (rewrite map_map; reflexivity).
    rewrite sparserows_to_coo by (rewrite Em; discriminate).
    rewrite flatten_nz_rows, map_length.
    apply to_dense_checked; [reflexivity|exact R|apply scan_represents; exact R].
Qed.

Lemma dokrows_to_coo c (l : list row_entries) shape : l <> [] -> 0 < c ->
  to_coo (InDokRows (map (fun e => (c, e)) l)) shape = coo_checked (length l) c (flatten l).
Proof.
  intros Hne Hc. destruct l as [|e l]; [contradiction|].
  assert (S : map snd (map (fun e : row_entries => (c, e)) (e :: l)) = e :: l).
  { rewrite map_map. simpl. f_equal. apply map_id. }
  unfold to_coo. change (map (fun e0 : row_entries => (c, e0)) (e :: l))
    with ((c, e) :: map (fun e0 : row_entries => (c, e0)) l) at 1.
  cbv iota beta. replace (Nat.ltb c 1) with false by (symmetry; apply Nat.ltb_ge; lia).
  rewrite S, map_length. reflexivity.
Qed.

(* a list of dok rows (a dok_matrix is a dict: list_dict_to_sparse): the rows state the width *)
Theorem faithful_dokrows m c shape : rect c m -> 0 < c -> (m = [] -> shape = (0, c)) ->
  to_dense (enc_dokrows c m) shape = ROk (length m, c, m).
Proof.
  intros R Hc Hs. unfold to_dense, enc_dokrows. destruct m as [|r m'] eqn:Em.
  - rewrite (Hs eq_refl). reflexivity.
  - rewrite <- Em in *.
    replace (map (fun r0 : list Z => (c, nz_row (enum_from 0 r0))) m)
      with (map (fun e : row_entries => (c, e)) (map (fun r0 => nz_row (enum_from 0 r0)) m))
      by (rewrite map_map; reflexivity).
    rewrite dokrows_to_coo by (try (rewrite Em; discriminate); exact Hc).
    rewrite flatten_nz_rows, map_length.
    apply to_dense_checked; [reflexivity|exact R|apply scan_represents; exact R].
Qed.

(* ---- list of row dicts: general statement for dicts keyed (0, column) *)
Lemma nmax_ge x l : In x l -> x <= nmax l.
Proof.
  induction l as [|y l IH]; simpl; intros H; [destruct H|]. destruct H as [->|H]; [lia|]. specialize (IH H). lia.
Qed.
Lemma nmax_le b l : (forall x, In x l -> x <= b) -> nmax l <= b.
Proof.
  induction l as [|y l IH]; simpl; intros H; [lia|].
  assert (y <= b) by (apply H; left; reflexivity).
  assert (nmax l <= b) by (apply IH; intros x Hx; apply H; right; exact Hx). lia.
Qed.

Definition strip (row : list entry3) : row_entries := map (fun e => (e_col e, e_val e)) row.

Lemma dim_of_zero l : (forall x, In x l -> x = 0) -> dim_of l <= 1.
Proof.
  intros H. destruct l as [|y l]; [simpl; lia|].
  change (dim_of (y :: l)) with (S (nmax (y :: l))).
  assert (nmax (y :: l) <= 0); [|lia]. apply nmax_le. intros x Hx. rewrite (H x Hx). lia.
Qed.
Lemma dim_of_le b l : (forall x, In x l -> x < b) -> dim_of l <= b.
Proof.
  intros H. destruct l as [|y l]; [simpl; lia|].
  change (dim_of (y :: l)) with (S (nmax (y :: l))).
  assert (Hb : y < b) by (apply H; left; reflexivity).
  assert (nmax (y :: l) <= b - 1); [|lia]. apply nmax_le. intros x Hx. specialize (H x Hx). lia.
Qed.
Lemma dim_of_pos l : l <> [] -> 1 <= dim_of l.
Proof. destruct l; [contradiction|]. intros _. change (dim_of (n :: l)) with (S (nmax (n :: l))). lia. Qed.

Theorem faithful_rowdicts_gen rows m c :
  rect c m -> length rows = length m ->
  (forall e, In e (concat rows) -> e_row e = 0 /\ e_col e < c) ->
  (forall i j, i < length m -> j < c -> row_sum (strip (nth i rows [])) j = get m i j) ->
  to_dense (InRowDicts rows) (length m, c) = ROk (length m, c, m).
Proof.
  intros R Hl Hk Hs. unfold to_dense, to_coo.
  destruct rows as [|r0 rows'] eqn:Er.
  - simpl in Hl. destruct m; [|discriminate]. reflexivity.
  - rewrite <- Er in *.
    assert (Hcol : dim_of (map e_col (concat rows)) <= c).
    { apply dim_of_le. intros x Hx. apply in_map_iff in Hx. destruct Hx as [e [<- He]]. destruct (Hk e He). assumption. }
    assert (Hlt : Nat.ltb (dim_of (map e_col (concat rows))) (dim_of (map e_row (concat rows))) = false).
    { apply Nat.ltb_ge. destruct (concat rows) as [|k0 ks] eqn:Ek; [simpl; lia|]. rewrite <- Ek in *.
      assert (dim_of (map e_row (concat rows)) <= 1).
      { apply dim_of_zero. intros x Hx. apply in_map_iff in Hx. destruct Hx as [e [<- He]]. destruct (Hk e He). assumption. }
      assert (1 <= dim_of (map e_col (concat rows))) by (apply dim_of_pos; rewrite Ek; discriminate). lia. }
    rewrite Hlt. cbn [fst snd]. rewrite (Nat.max_r _ c Hcol). rewrite Hl.
    apply to_dense_checked; [reflexivity|exact R|]. split.
    + unfold flatten. apply in_range_flatten; [rewrite map_length; lia|].
      apply Forall_forall. intros r Hr. apply in_map_iff in Hr. destruct Hr as [row [<- Hrow]].
      apply Forall_forall. intros cv Hcv. apply in_map_iff in Hcv. destruct Hcv as [e [<- He]]. simpl.
      apply (Hk e). apply in_concat. exists row. tauto.
    + intros i j Hi Hj. unfold flatten. rewrite cell_sum_flatten, map_length, Hl.
      replace (Nat.leb 0 i && Nat.ltb i (0 + length m)) with true
        by (symmetry; apply andb_true_iff; split; [apply Nat.leb_le|apply Nat.ltb_lt]; lia).
      rewrite Nat.sub_0_r.
      rewrite (nth_indep _ [] (map (fun e => (e_col e, e_val e)) [])) by (rewrite map_length; lia).
      rewrite (map_nth (map (fun e => (e_col e, e_val e)))). apply Hs; assumption.
Qed.

Lemma row_sum_nz r j : row_sum (nz_row r) j = row_sum r j.
Proof.
  unfold row_sum, nz_row. induction r as [|[c v] r IH]; [reflexivity|]. simpl.
  destruct (negb (Z.eqb v 0)) eqn:E; simpl.
  - destruct (Nat.eqb c j); simpl; rewrite IH; reflexivity.
  - apply negb_false_iff in E. apply Z.eqb_eq in E. subst v. rewrite IH.
    destruct (Nat.eqb c j); simpl; lia.
Qed.

Lemma strip_keyed (l : row_entries) : strip (map (fun cv : nat * Z => (0, fst cv, snd cv)) l) = l.
Proof. unfold strip. rewrite map_map. rewrite <- (map_id l) at 2. apply map_ext. intros [c v]. reflexivity. Qed.

Definition has_nonzero (m : matrix) : Prop := exists i j, get m i j <> 0%Z.

Lemma nz_row_in r cv : In cv (nz_row r) -> In cv r /\ snd cv <> 0%Z.
Proof.
  unfold nz_row. intros H. apply filter_In in H. destruct H as [A B]. split; [exact A|].
  apply negb_true_iff in B. apply Z.eqb_neq in B. exact B.
Qed.

Lemma enum_from_nth s row j : j < length row -> In (s + j, nth j row 0%Z) (enum_from s row).
Proof.
  revert s j. induction row as [|v row IH]; intros s j Hj; simpl in Hj; [lia|].
  destruct j as [|j]; simpl.
  - left. f_equal. lia.
  - right. replace (s + S j) with (S s + j) by lia. apply IH. lia.
Qed.

Theorem faithful_rowdicts m c : rect c m ->
  to_dense (enc_rowdicts m) (length m, c) = ROk (length m, c, m).
Proof.
  intros R. unfold enc_rowdicts.
  set (f := fun r : list Z => map (fun cv : nat * Z => (0, fst cv, snd cv)) (nz_row (enum_from 0 r))).
  apply faithful_rowdicts_gen.
  - exact R.
  - apply map_length.
  - intros e He. apply in_concat in He. destruct He as [l [Hl He]]. apply in_map_iff in Hl.
    destruct Hl as [row [<- Hrow]]. apply in_map_iff in He. destruct He as [cv [<- Hcv]].
    apply nz_row_in in Hcv. destruct Hcv as [Hcv _]. unfold e_row, e_col. simpl. split; [reflexivity|].
    pose proof (enum_from_bound 0 row) as B. rewrite Forall_forall in B. specialize (B cv Hcv).
    unfold rect in R. rewrite Forall_forall in R. rewrite (R row Hrow) in B. exact B.
  - intros i' j' Hi' Hj'.
    rewrite (nth_indep _ [] (f [])) by (rewrite map_length; exact Hi').
    rewrite (map_nth f). unfold f. rewrite strip_keyed, row_sum_nz, row_sum_enum.
    rewrite (rect_nth_length c m i' R Hi').
    replace (Nat.leb 0 j' && Nat.ltb j' (0 + c)) with true
      by (symmetry; apply andb_true_iff; split; [apply Nat.leb_le|apply Nat.ltb_lt]; lia).
    rewrite Nat.sub_0_r. reflexivity.
Qed.

(* ================================================================== C. the constructor *)
(* errcheck under the default profile: 'empty' is ignored and skipped, the other six kinds
   raise, in sorted order of their names *)
Module ErrDefault.
Import String.
Local Open Scope string_scope.
(* sorted(self._test.keys()) *)
Lemma sorted_kinds :
  ssorted (dkeys registry) = ["empty";"obsdup";"obsmdsize";"obssize";"sampdup";"sampmdsize";"sampsize"].
Proof. vm_compute. reflexivity. Qed.

(* written against the generated shape of ErrorProfile.test (Gen/ErrGen.v): a fold over the
   sorted kinds that skips an ignored kind and stops at the first one that reacts *)
Lemma errcheck_default v :
  errcheck default_profile v [] =
    if test_obsdup v then Ok (EvRaise "obsdup")
    else if test_obsmdsize v then Ok (EvRaise "obsmdsize")
    else if test_obssize v then Ok (EvRaise "obssize")
    else if test_sampdup v then Ok (EvRaise "sampdup")
    else if test_sampmdsize v then Ok (EvRaise "sampmdsize")
    else if test_sampsize v then Ok (EvRaise "sampsize")
    else Ok EvNone.
Proof.
  unfold errcheck, test_loop. cbn [lnull]. rewrite sorted_kinds.
  cbn [fold_left]. unfold test_body. cbn [dget registry String.eqb Ascii.eqb Bool.eqb].
  repeat match goal with
  | |- context [dget (st default_profile) ?k] =>
      let r := eval vm_compute in (dget (st default_profile) k) in
      change (dget (st default_profile) k) with r
  | |- context [handle_error default_profile ?k v] =>
      let r := eval vm_compute in (handle_error default_profile k v) in
      change (handle_error default_profile k v) with r
  end.
  cbn [String.eqb Ascii.eqb Bool.eqb].
  destruct (test_empty v), (test_obsdup v), (test_obsmdsize v), (test_obssize v), (test_sampdup v),
    (test_sampmdsize v), (test_sampsize v); reflexivity.
Qed.
End ErrDefault.

(* what the constructor makes of errcheck's answer under the default profile *)
Definition any_test (v : view) : bool :=
  test_obsdup v || test_obsmdsize v || test_obssize v || test_sampdup v || test_sampmdsize v || test_sampsize v.

Lemma errcheck_default_cases v :
  (any_test v = true /\ exists k, errcheck default_profile v [] = Ok (EvRaise k)) \/
  (any_test v = false /\ errcheck default_profile v [] = Ok EvNone).
Proof.
  rewrite ErrDefault.errcheck_default. unfold any_test.
  destruct (test_obsdup v); [left; split; [reflexivity|eexists; reflexivity]|].
  destruct (test_obsmdsize v); [left; split; [reflexivity|eexists; reflexivity]|].
  destruct (test_obssize v); [left; split; [reflexivity|eexists; reflexivity]|].
  destruct (test_sampdup v); [left; split; [reflexivity|eexists; reflexivity]|].
  destruct (test_sampmdsize v); [left; split; [reflexivity|eexists; reflexivity]|].
  destruct (test_sampsize v); [left; split; [reflexivity|eexists; reflexivity]|].
  right. split; reflexivity.
Qed.

Lemma distinct_NoDup l : NoDup l -> distinct l = l.
Proof.
  induction l as [|x l IH]; intros H; simpl; [reflexivity|].
  inversion H as [|? ? Hx Hl]; subst. destruct (zmem x l) eqn:E.
  - apply zmem_In in E. contradiction.
  - rewrite IH by exact Hl. reflexivity.
Qed.

Lemma distinct_le l : length (distinct l) <= length l.
Proof.
  induction l as [|x l IH]; simpl; [lia|]. destruct (zmem x l); simpl; lia.
Qed.

Lemma distinct_dup l : zdup l = true -> length (distinct l) < length l.
Proof.
  induction l as [|x l IH]; simpl; [discriminate|]. intros H.
  destruct (zmem x l) eqn:E; simpl.
  - pose proof (distinct_le l). lia.
  - simpl in H. specialize (IH H). lia.
Qed.

Lemma dup_test_true l : zdup l = true -> negb (Nat.eqb (length l) (length (distinct l))) = true.
Proof.
  intros H. apply negb_true_iff. apply Nat.eqb_neq. pose proof (distinct_dup l H). lia.
Qed.

Lemma nodup_test_false l : NoDup l -> negb (Nat.eqb (length l) (length (distinct l))) = false.
Proof. intros H. rewrite (distinct_NoDup l H), Nat.eqb_refl. reflexivity. Qed.

Lemma norm_md_keeps md n l : md = Some l -> length l <> n -> norm_md md n = Some l.
Proof.
  intros -> H. unfold norm_md. replace (Nat.eqb (length l) n) with false by (symmetry; apply Nat.eqb_neq; exact H).
  rewrite andb_false_r. reflexivity.
Qed.

(* the condition of the property: duplicated ids, an id count that differs from the matrix
   dimension, or a metadata count that differs from the id count *)
Definition malformed (nr nc : nat) (oids sids : list Z) (omd smd : option (list mdin)) : Prop :=
  zdup oids = true \/ zdup sids = true \/ length oids <> nr \/ length sids <> nc
  \/ (exists l, omd = Some l /\ length l <> length oids) \/ (exists l, smd = Some l /\ length l <> length sids).

Lemma malformed_triggers nr nc oids sids omd smd : malformed nr nc oids sids omd smd ->
  any_test (view_of nr nc oids sids (norm_md omd (length oids)) (norm_md smd (length sids))) = true.
Proof.
  unfold any_test, test_obsdup, test_obsmdsize, test_obssize, test_sampdup, test_sampmdsize, test_sampsize, view_of.
  cbn [v_rows v_cols v_oids v_sids v_omd v_smd].
  intros [H|[H|[H|[H|[(l & E & H)|(l & E & H)]]]]].
  - rewrite (dup_test_true _ H). reflexivity.
  - rewrite (dup_test_true _ H). rewrite !orb_true_r. reflexivity.
  - replace (Nat.eqb nr (length oids)) with false by (symmetry; apply Nat.eqb_neq; lia).
    simpl. rewrite !orb_true_r. reflexivity.
  - replace (Nat.eqb nc (length sids)) with false by (symmetry; apply Nat.eqb_neq; lia).
    simpl. rewrite !orb_true_r. reflexivity.
  - rewrite (norm_md_keeps omd (length oids) l E H). simpl.
    destruct (Nat.eqb nr (length l)) eqn:E1; simpl.
    + apply Nat.eqb_eq in E1. replace (Nat.eqb nr (length oids)) with false by (symmetry; apply Nat.eqb_neq; lia).
      simpl. rewrite !orb_true_r. reflexivity.
    + rewrite !orb_true_r. reflexivity.
  - rewrite (norm_md_keeps smd (length sids) l E H). simpl.
    destruct (Nat.eqb nc (length l)) eqn:E1; simpl.
    + apply Nat.eqb_eq in E1. replace (Nat.eqb nc (length sids)) with false by (symmetry; apply Nat.eqb_neq; lia).
      simpl. rewrite !orb_true_r. reflexivity.
    + rewrite !orb_true_r. reflexivity.
Qed.

Theorem malformed_rejected_lemma inp oids sids omd smd ty nr nc m :
  to_dense inp (length oids, length sids) = ROk (nr, nc, m) ->
  malformed nr nc oids sids omd smd ->
  construct default_profile inp oids sids omd smd ty = RErr E_TABLE.
Proof.
  intros D M. unfold construct. rewrite D.
  destruct (errcheck_default_cases (view_of nr nc oids sids (norm_md omd (length oids)) (norm_md smd (length sids))))
    as [[_ [k Hk]]|[Hf _]].
  - rewrite Hk. reflexivity.
  - rewrite (malformed_triggers _ _ _ _ _ _ M) in Hf. discriminate.
Qed.

(* well-formed input is accepted and yields exactly the described table *)
Definition md_valid (md : option (list mdin)) (n : nat) : Prop :=
  match md with None => True | Some l => length l = n /\ existsb is_other l = false end.

Lemma cast_md_valid md n : md_valid md n -> exists o, cast_md (norm_md md n) = ROk o.
Proof.
  destruct md as [l|]; simpl; [|intros _; exists None; reflexivity].
  intros (Hl & Ho).
  destruct (forallb is_blank l && Nat.eqb (length l) n); [exists None; reflexivity|].
  unfold cast_md. destruct (forallb is_blank l); [exists None; reflexivity|]. rewrite Ho. eexists. reflexivity.
Qed.

Lemma wellformed_quiet nr nc oids sids omd smd :
  NoDup oids -> NoDup sids -> length oids = nr -> length sids = nc ->
  md_valid omd (length oids) -> md_valid smd (length sids) ->
  any_test (view_of nr nc oids sids (norm_md omd (length oids)) (norm_md smd (length sids))) = false.
Proof.
  intros No Ns Ho Hs Vo Vs.
  unfold any_test, test_obsdup, test_obsmdsize, test_obssize, test_sampdup, test_sampmdsize, test_sampsize, view_of.
  cbn [v_rows v_cols v_oids v_sids v_omd v_smd].
  rewrite (nodup_test_false _ No), (nodup_test_false _ Ns). subst nr nc. rewrite !Nat.eqb_refl. simpl.
  assert (A : forall md n, md_valid md n ->
              match option_map (@length mdin) (norm_md md n) with Some k => negb (Nat.eqb n k) | None => false end = false).
  { intros md n V. destruct md as [l|]; [|reflexivity]. destruct V as (Hl & _). simpl.
    destruct (forallb is_blank l && Nat.eqb (length l) n); [reflexivity|].
    simpl. rewrite Hl, Nat.eqb_refl. reflexivity. }
  rewrite (A omd _ Vo), (A smd _ Vs). reflexivity.
Qed.

Theorem wellformed_accepted_lemma inp oids sids omd smd ty m :
  to_dense inp (length oids, length sids) = ROk (length oids, length sids, m) ->
  NoDup oids -> NoDup sids -> md_valid omd (length oids) -> md_valid smd (length sids) ->
  exists o s, cast_md (norm_md omd (length oids)) = ROk o /\ cast_md (norm_md smd (length sids)) = ROk s /\
    construct default_profile inp oids sids omd smd ty = ROk (mkT oids sids m o s ty).
Proof.
  intros D No Ns Vo Vs. destruct (cast_md_valid _ _ Vo) as [o Eo]. destruct (cast_md_valid _ _ Vs) as [s Es].
  exists o, s. split; [exact Eo|]. split; [exact Es|].
  unfold construct. rewrite D.
  destruct (errcheck_default_cases (view_of (length oids) (length sids) oids sids
              (norm_md omd (length oids)) (norm_md smd (length sids)))) as [[Ht _]|[_ Hq]].
  - rewrite (wellformed_quiet _ _ _ _ _ _ No Ns eq_refl eq_refl Vo Vs) in Ht. discriminate.
  - rewrite Hq, Es, Eo. reflexivity.
Qed.

(* a metadata entry that is neither a mapping nor None: rejected, unless every entry is falsy *)
Lemma other_not_blank l : existsb is_other l = true -> forallb is_blank l = false.
Proof.
  intros H. apply existsb_exists in H. destruct H as [e [He Ho]]. apply not_true_is_false. intros F.
  rewrite forallb_forall in F. specialize (F e He). destruct e; discriminate.
Qed.

Lemma cast_md_other l : existsb is_other l = true -> cast_md (Some l) = RErr E_TABLE.
Proof. intros H. unfold cast_md. rewrite (other_not_blank l H), H. reflexivity. Qed.

Lemma norm_md_other l n : existsb is_other l = true -> norm_md (Some l) n = Some l.
Proof. intros H. unfold norm_md. rewrite (other_not_blank l H). reflexivity. Qed.

Theorem nonmapping_rejected_lemma p inp oids sids omd smd ty l :
  (omd = Some l \/ smd = Some l) -> existsb is_other l = true ->
  (exists c, construct p inp oids sids omd smd ty = RErr c) /\
  (forall nr nc m, to_dense inp (length oids, length sids) = ROk (nr, nc, m) ->
     construct default_profile inp oids sids omd smd ty = RErr E_TABLE).
Proof.
  intros Hmd Ho.
  assert (Core : forall q, (exists c, construct q inp oids sids omd smd ty = RErr c) /\
     (forall nr nc m, to_dense inp (length oids, length sids) = ROk (nr, nc, m) ->
        (forall k, errcheck q (view_of nr nc oids sids (norm_md omd (length oids)) (norm_md smd (length sids))) [] <> Raise k) ->
        construct q inp oids sids omd smd ty = RErr E_TABLE)).
  { intros q. unfold construct.
    destruct (to_dense inp (length oids, length sids)) as [[[nr nc] m]|c] eqn:D; [|split; [eexists; reflexivity|discriminate]].
    assert (X : match cast_md (norm_md smd (length sids)), cast_md (norm_md omd (length oids)) with
                | ROk s, ROk o => ROk (mkT oids sids m o s ty)
                | RErr c, _ => RErr c
                | _, RErr c => RErr c
                end = RErr E_TABLE).
    { destruct Hmd as [E|E]; subst.
      - rewrite (norm_md_other l _ Ho), (cast_md_other l Ho).
        destruct (cast_md (norm_md smd (length sids))) as [s|c] eqn:Es; [reflexivity|].
        destruct (norm_md smd (length sids)) as [l'|]; [|discriminate]. unfold cast_md in Es.
        destruct (forallb is_blank l'); [discriminate|]. destruct (existsb is_other l'); [|discriminate].
        inversion Es. reflexivity.
      - rewrite (norm_md_other l _ Ho), (cast_md_other l Ho). reflexivity. }
    destruct (errcheck q _ []) as [[| | | |]|e] eqn:Ee.
    - rewrite X. split; [eexists; reflexivity|]. intros ? ? ? H _. reflexivity.
    - rewrite X. split; [eexists; reflexivity|]. intros ? ? ? H _. reflexivity.
    - rewrite X. split; [eexists; reflexivity|]. intros ? ? ? H _. reflexivity.
    - rewrite X. split; [eexists; reflexivity|]. intros ? ? ? H _. reflexivity.
    - split; [eexists; reflexivity|]. intros ? ? ? H _. reflexivity.
    - split; [eexists; reflexivity|]. intros nr' nc' m' H N. inversion H; subst. exfalso. exact (N e Ee). }
  split; [apply (Core p)|]. intros nr nc m D. apply (proj2 (Core default_profile) nr nc m D).
  intros k E. destruct (errcheck_default_cases (view_of nr nc oids sids (norm_md omd (length oids)) (norm_md smd (length sids))))
    as [[_ [k' Hk]]|[_ Hk]]; rewrite Hk in E; discriminate.
Qed.

(* the forms that take their shape from the ids: a coordinate beyond the ids is the library's
   table error, under every profile (it is raised before the error check runs) *)
Theorem coordinate_beyond_ids_lemma p es oids sids omd smd ty :
  forallb (in_range (length oids) (length sids)) es = false ->
  construct p (InTriples es) oids sids omd smd ty = RErr E_TABLE /\
  construct p (InDict es) oids sids omd smd ty = RErr E_TABLE.
Proof.
  intros H. unfold construct, to_dense, to_coo, coo_checked_ids. cbn [fst snd]. rewrite H.
  destruct es as [|e es]; [discriminate|]. split; reflexivity.
Qed.

(* ================================================================== D. adjacency list *)
Lemma zins_In x y l : In y (zins x l) <-> x = y \/ In y l.
Proof.
  induction l as [|z l IH]; simpl; [tauto|].
  destruct (Z.ltb x z) eqn:E1; simpl; [tauto|].
  destruct (Z.eqb x z) eqn:E2; simpl.
  - apply Z.eqb_eq in E2. subst. tauto.
  - rewrite IH. tauto.
Qed.

Lemma sort_uniq_In y l : In y (sort_uniq l) <-> In y l.
Proof.
  induction l as [|x l IH]; simpl; [tauto|]. rewrite zins_In, IH. split; intros [H|H]; auto.
Qed.

Lemma zins_sorted x l : StronglySorted Z.lt l -> StronglySorted Z.lt (zins x l).
Proof.
  induction l as [|z l IH]; intros S; simpl.
  - constructor; constructor.
  - inversion S as [|? ? Sl Fl]; subst.
    destruct (Z.ltb x z) eqn:E1.
    + apply Z.ltb_lt in E1. constructor; [exact S|]. constructor; [exact E1|].
      eapply Forall_impl; [|exact Fl]. intros a Ha. lia.
    + destruct (Z.eqb x z) eqn:E2; [exact S|].
      apply Z.ltb_ge in E1. apply Z.eqb_neq in E2.
      constructor; [apply IH; exact Sl|].
      apply Forall_forall. intros a Ha. apply zins_In in Ha. destruct Ha as [<-|Ha]; [lia|].
      rewrite Forall_forall in Fl. apply Fl. exact Ha.
Qed.

Lemma sort_uniq_sorted l : StronglySorted Z.lt (sort_uniq l).
Proof. induction l as [|x l IH]; simpl; [constructor|apply zins_sorted; exact IH]. Qed.

Lemma sorted_NoDup l : StronglySorted Z.lt l -> NoDup l.
Proof.
  induction l as [|x l IH]; intros S; [constructor|]. inversion S as [|? ? Sl Fl]; subst.
  constructor; [|apply IH; exact Sl]. intros Hin. rewrite Forall_forall in Fl. specialize (Fl x Hin). lia.
Qed.

Lemma sort_uniq_NoDup l : NoDup (sort_uniq l).
Proof. apply sorted_NoDup. apply sort_uniq_sorted. Qed.

Lemma posn_spec x l : In x l -> posn x l < length l /\ nth (posn x l) l 0%Z = x /\ pos x l = Some (posn x l).
Proof.
  intros H. unfold posn. destruct (pos x l) as [i|] eqn:E.
  - destruct (pos_Some x l i E) as [A B]. tauto.
  - apply pos_None in E. contradiction.
Qed.

Lemma posn_inj x y l : In x l -> In y l -> posn x l = posn y l -> x = y.
Proof.
  intros Hx Hy E. destruct (posn_spec x l Hx) as (_ & A & _). destruct (posn_spec y l Hy) as (_ & B & _).
  rewrite E in A. congruence.
Qed.

Lemma nmax_posn (xs : list Z) l : l <> [] -> NoDup l -> (forall x, In x l <-> In x xs) ->
  S (nmax (map (fun x => posn x l) xs)) = length l.
Proof.
  intros Hne Nd Hiff.
  assert (Hle : nmax (map (fun x => posn x l) xs) <= length l - 1).
  { apply nmax_le. intros p Hp. apply in_map_iff in Hp. destruct Hp as [x [<- Hx]].
    apply Hiff in Hx. destruct (posn_spec x l Hx). lia. }
  assert (Hge : length l - 1 <= nmax (map (fun x => posn x l) xs)).
  { apply nmax_ge. apply in_map_iff. exists (nth (length l - 1) l 0%Z).
    assert (Hl : length l - 1 < length l) by (destruct l; [contradiction|simpl; lia]).
    split.
    - unfold posn. rewrite (pos_nth_NoDup l (length l - 1) Nd Hl). reflexivity.
    - apply Hiff. apply nth_In. exact Hl. }
  destruct l; [contradiction|]. simpl in *. lia.
Qed.

(* the sum of the values of the records naming a pair *)
Definition pair_sum (recs : list (Z * Z * Z)) (o s : Z) : Z :=
  zsum (map snd (filter (fun r => Z.eqb (fst (fst r)) o && Z.eqb (snd (fst r)) s) recs)).

Lemma cell_sum_recs (recs : list (Z * Z * Z)) oo so o s :
  (forall r, In r recs -> In (fst (fst r)) oo /\ In (snd (fst r)) so) -> In o oo -> In s so ->
  cell_sum (map (fun r => (posn (fst (fst r)) oo, posn (snd (fst r)) so, snd r)) recs) (posn o oo) (posn s so)
  = pair_sum recs o s.
Proof.
  intros H Ho Hs. induction recs as [|[[o' s'] v] recs IH]; [reflexivity|].
  cbn [map]. rewrite cell_sum_cons. unfold pair_sum in *. cbn [filter fst snd].
  rewrite IH by (intros r Hr; apply H; right; exact Hr).
  destruct (H (o', s', v) (or_introl eq_refl)) as [Ho' Hs']. simpl in Ho', Hs'.
  unfold at_cell, e_row, e_col, e_val. cbn [fst snd].
  destruct (Z.eqb o' o) eqn:E1.
  - apply Z.eqb_eq in E1. subst o'. rewrite Nat.eqb_refl. simpl.
    destruct (Z.eqb s' s) eqn:E2.
    + apply Z.eqb_eq in E2. subst s'. rewrite Nat.eqb_refl. simpl. reflexivity.
    + replace (Nat.eqb (posn s' so) (posn s so)) with false; [reflexivity|].
      symmetry. apply Nat.eqb_neq. intros E. apply Z.eqb_neq in E2. apply E2. apply (posn_inj _ _ so); assumption.
  - replace (Nat.eqb (posn o' oo) (posn o oo)) with false; [reflexivity|].
    symmetry. apply Nat.eqb_neq. intros E. apply Z.eqb_neq in E1. apply E1. apply (posn_inj _ _ oo); assumption.
Qed.

Lemma adj_table_unfold p recs : recs <> [] ->
  adj_table p recs =
    let obs := map (fun r : Z * Z * Z => fst (fst r)) recs in
    let smp := map (fun r : Z * Z * Z => snd (fst r)) recs in
    let oo := sort_uniq obs in let so := sort_uniq smp in
    construct p (InSparse (S (nmax (map (fun o => posn o oo) obs))) (S (nmax (map (fun s => posn s so) smp)))
                          (map (fun r : Z * Z * Z => (posn (fst (fst r)) oo, posn (snd (fst r)) so, snd r)) recs))
              oo so None None 0%Z.
Proof. intros H. destruct recs; [contradiction|reflexivity]. Qed.

Theorem adj_table_spec recs : recs <> [] ->
  exists t, adj_table default_profile recs = ROk t /\
    oids t = sort_uniq (map (fun r => fst (fst r)) recs) /\
    sids t = sort_uniq (map (fun r => snd (fst r)) recs) /\
    omd t = None /\ smd t = None /\ wf t /\
    forall o s, In o (oids t) -> In s (sids t) -> cell t o s = Some (pair_sum recs o s).
Proof.
  intros Hne.
  set (obs := map (fun r : Z * Z * Z => fst (fst r)) recs).
  set (smp := map (fun r : Z * Z * Z => snd (fst r)) recs).
  set (oo := sort_uniq obs). set (so := sort_uniq smp).
  set (es := map (fun r : Z * Z * Z => (posn (fst (fst r)) oo, posn (snd (fst r)) so, snd r)) recs).
  assert (Hoo : oo <> []).
  { destruct recs as [|r recs]; [contradiction|]. intros E.
    assert (In (fst (fst r)) oo) by (apply sort_uniq_In; left; reflexivity). rewrite E in H. destruct H. }
  assert (Hso : so <> []).
  { destruct recs as [|r recs]; [contradiction|]. intros E.
    assert (In (snd (fst r)) so) by (apply sort_uniq_In; left; reflexivity). rewrite E in H. destruct H. }
  assert (Hr : S (nmax (map (fun o => posn o oo) obs)) = length oo)
    by (apply nmax_posn; [exact Hoo|apply sort_uniq_NoDup|intros x; apply sort_uniq_In]).
  assert (Hc : S (nmax (map (fun s => posn s so) smp)) = length so)
    by (apply nmax_posn; [exact Hso|apply sort_uniq_NoDup|intros x; apply sort_uniq_In]).
  assert (Hmem : forall r, In r recs -> In (fst (fst r)) oo /\ In (snd (fst r)) so).
  { intros r Hin. split; apply sort_uniq_In; [apply (in_map (fun r => fst (fst r)))|apply (in_map (fun r => snd (fst r)))]; exact Hin. }
  assert (Hrange : forallb (in_range (length oo) (length so)) es = true).
  { apply forallb_forall. intros e He. apply in_map_iff in He. destruct He as [r [<- Hin]].
    destruct (Hmem r Hin) as [A B]. unfold in_range, e_row, e_col. cbn [fst snd].
    destruct (posn_spec _ _ A) as [A' _]. destruct (posn_spec _ _ B) as [B' _].
    apply andb_true_iff. split; apply Nat.ltb_lt; assumption. }
  assert (D : to_dense (InSparse (length oo) (length so) es) (length oo, length so)
              = ROk (length oo, length so, coo_dense (length oo) (length so) es)).
  { unfold to_dense, to_coo, coo_checked. rewrite Hrange. reflexivity. }
  destruct (wellformed_accepted_lemma _ oo so None None 0%Z _ D (sort_uniq_NoDup obs) (sort_uniq_NoDup smp) Logic.I Logic.I)
    as (o' & s' & Eo & Es & C). simpl in Eo, Es. inversion Eo; subst o'. inversion Es; subst s'.
  exists (mkT oo so (coo_dense (length oo) (length so) es) None None 0%Z).
  split.
  - rewrite (adj_table_unfold default_profile recs Hne). cbv zeta.
    change (construct default_profile
              (InSparse (S (nmax (map (fun o => posn o oo) obs))) (S (nmax (map (fun s => posn s so) smp))) es)
              oo so None None 0%Z = ROk (mkT oo so (coo_dense (length oo) (length so) es) None None 0%Z)).
    rewrite Hr, Hc. exact C.
  - cbn [oids sids omd smd]. repeat (split; [reflexivity|]). split.
    + unfold wf, nobs, nsamp. cbn [mat oids sids omd smd]. rewrite coo_dense_length.
      split; [reflexivity|]. split; [apply coo_dense_rect|].
      split; [apply sort_uniq_NoDup|]. split; [apply sort_uniq_NoDup|]. split; exact Logic.I.
    + intros o s Ho Hs. unfold cell. cbn [oids sids mat].
      destruct (posn_spec o oo Ho) as (A1 & _ & A3). destruct (posn_spec s so Hs) as (B1 & _ & B3).
      rewrite A3, B3. f_equal. rewrite get_coo_dense by assumption.
      apply cell_sum_recs; assumption.
Qed.

Lemma adj_records_lr_recs recs acc :
  adj_records_lr (map (fun r => ARec (fst (fst r)) (snd (fst r)) (snd r)) recs) acc = ROk (rev acc ++ recs).
Proof.
  revert acc. induction recs as [|[[o s] v] recs IH]; intros acc; simpl.
  - rewrite app_nil_r. reflexivity.
  - rewrite IH. simpl. rewrite <- app_assoc. reflexivity.
Qed.

Definition rec_lines (recs : list (Z * Z * Z)) : list aline :=
  map (fun r => ARec (fst (fst r)) (snd (fst r)) (snd r)) recs.

Theorem from_adjacency_records p recs header : recs <> [] ->
  from_adjacency p ((if header : bool then [AHeader] else []) ++ rec_lines recs) = adj_table p recs.
Proof.
  intros Hne. destruct header; simpl.
  - unfold rec_lines. rewrite adj_records_lr_recs. reflexivity.
  - destruct recs as [|[[o s] v] recs]; [contradiction|].
    change (rec_lines ((o, s, v) :: recs)) with (ARec o s v :: rec_lines recs).
    cbn [from_adjacency]. change (ARec o s v :: rec_lines recs) with (rec_lines ((o, s, v) :: recs)).
    unfold rec_lines. rewrite adj_records_lr_recs. reflexivity.
Qed.

(* a comment, blank or malformed line, a second header, or no record at all: never a table *)
Lemma adj_records_lr_junk pre x post acc :
  (forall l, In l pre -> exists o s v, l = ARec o s v) -> (forall o s v, x <> ARec o s v) ->
  exists c, adj_records_lr (pre ++ x :: post) acc = RErr c.
Proof.
  revert acc. induction pre as [|l pre IH]; intros acc Hp Hx; simpl.
  - destruct x as [|o s v|[|]]; try (eexists; reflexivity). exfalso. apply (Hx o s v). reflexivity.
  - destruct (Hp l (or_introl eq_refl)) as (o & s & v & ->). apply IH; [|exact Hx].
    intros l' Hl'. apply Hp. right. exact Hl'.
Qed.

(* ================================================================== E. uc clusters *)
Lemma label_eqb_eq a b : label_eqb a b = true <-> a = b.
Proof. apply list_eqb_Z_eq. Qed.
Lemma label_eqb_refl a : label_eqb a a = true.
Proof. apply label_eqb_eq. reflexivity. Qed.

Lemma lpos_Some x l i : lpos x l = Some i -> i < length l /\ nth i l [] = x.
Proof.
  unfold lpos. revert i. induction l as [|y l IH]; simpl; intros i H; [discriminate|].
  destruct (label_eqb x y) eqn:E.
  - inversion H; subst. apply label_eqb_eq in E. subst. simpl. split; [lia|reflexivity].
  - destruct (index_of label_eqb x l) as [k|]; simpl in H; [|discriminate]. inversion H; subst.
    destruct (IH k eq_refl). simpl. split; [lia|assumption].
Qed.

Lemma lpos_None x l : lpos x l = None -> ~ In x l.
Proof.
  unfold lpos. induction l as [|y l IH]; simpl; intros H; [tauto|].
  destruct (label_eqb x y) eqn:E; [discriminate|].
  destruct (index_of label_eqb x l) as [k|] eqn:K; simpl in H; [discriminate|].
  intros [F|F]; [subst; rewrite label_eqb_refl in E; discriminate|]. apply IH; [reflexivity|exact F].
Qed.

Lemma lpos_app_l x l l' i : lpos x l = Some i -> lpos x (l ++ l') = Some i.
Proof.
  unfold lpos. revert i. induction l as [|y l IH]; simpl; intros i H; [discriminate|].
  destruct (label_eqb x y); [exact H|].
  destruct (index_of label_eqb x l) as [k|]; simpl in H; [|discriminate]. inversion H; subst.
  rewrite (IH k eq_refl). reflexivity.
Qed.

Lemma lpos_snoc_new x l : lpos x l = None -> lpos x (l ++ [x]) = Some (length l).
Proof.
  unfold lpos. induction l as [|y l IH]; simpl; intros H.
  - rewrite label_eqb_refl. reflexivity.
  - destruct (label_eqb x y); [discriminate|].
    destruct (index_of label_eqb x l) as [k|]; simpl in H; [discriminate|]. rewrite IH by reflexivity. reflexivity.
Qed.

Lemma lpos_same_index x y l i : lpos x l = Some i -> lpos y l = Some i -> x = y.
Proof. intros A B. destruct (lpos_Some _ _ _ A). destruct (lpos_Some _ _ _ B). congruence. Qed.

(* intern: the id gets its first-seen position; earlier ids keep theirs *)
Lemma intern_spec x l : let '(i, l') := intern x l in
  lpos x l' = Some i /\ (exists ext, l' = l ++ ext) /\ i < length l' /\
  (forall y k, lpos y l = Some k -> lpos y l' = Some k).
Proof.
  unfold intern. destruct (lpos x l) as [i|] eqn:E.
  - split; [exact E|]. split; [exists []; rewrite app_nil_r; reflexivity|].
    split; [apply (lpos_Some _ _ _ E)|]. intros; assumption.
  - split; [apply lpos_snoc_new; exact E|]. split; [exists [x]; reflexivity|].
    split; [rewrite app_length; simpl; lia|]. intros y k H. apply lpos_app_l. exact H.
Qed.

Lemma intern_new x l i l' ext y : intern x l = (i, l') -> l' = l ++ ext -> In y ext -> y = x.
Proof.
  intros H E Hy. unfold intern in H. destruct (lpos x l).
  - inversion H as [[H1 H2]]. rewrite <- H2 in E. apply (f_equal (@length label)) in E. rewrite app_length in E.
    destruct ext; [destruct Hy|simpl in E; lia].
  - inversion H as [[H1 H2]]. rewrite <- H2 in E. apply app_inv_head in E. subst ext. destruct Hy as [<-|[]]. reflexivity.
Qed.

Lemma cell_sum_dincr d i j i' j' :
  cell_sum (dincr d i j) i' j' = (cell_sum d i' j' + if Nat.eqb i i' && Nat.eqb j j' then 1 else 0)%Z.
Proof.
  induction d as [|e d IH]; simpl.
  - rewrite cell_sum_cons, cell_sum_nil. unfold at_cell, e_row, e_col, e_val. simpl.
    destruct (Nat.eqb i i' && Nat.eqb j j'); lia.
  - destruct (at_cell i j e) eqn:E.
    + rewrite !cell_sum_cons. unfold at_cell, e_row, e_col, e_val in *. cbn [fst snd] in *.
      apply andb_true_iff in E. destruct E as [E1 E2]. apply Nat.eqb_eq in E1. apply Nat.eqb_eq in E2.
      rewrite E1, E2. destruct (Nat.eqb i i' && Nat.eqb j j'); lia.
    + rewrite !cell_sum_cons, IH. lia.
Qed.

Lemma dincr_range d i j nr nc : i < nr -> j < nc ->
  forallb (in_range nr nc) d = true -> forallb (in_range nr nc) (dincr d i j) = true.
Proof.
  intros Hi Hj. induction d as [|e d IH]; simpl; intros H.
  - unfold in_range, e_row, e_col. simpl. rewrite andb_true_r. apply andb_true_iff. split; apply Nat.ltb_lt; assumption.
  - apply andb_true_iff in H. destruct H as [H1 H2]. destruct (at_cell i j e); simpl.
    + rewrite H2, andb_true_r. unfold in_range, e_row, e_col. simpl. apply andb_true_iff. split; apply Nat.ltb_lt; assumption.
    + rewrite H1. apply IH. exact H2.
Qed.

Lemma in_range_mono nr nc nr' nc' d : nr <= nr' -> nc <= nc' ->
  forallb (in_range nr nc) d = true -> forallb (in_range nr' nc') d = true.
Proof.
  intros A B. rewrite !forallb_forall. intros H e He. specialize (H e He). unfold in_range in *.
  apply andb_true_iff in H. destruct H as [H1 H2]. apply Nat.ltb_lt in H1. apply Nat.ltb_lt in H2.
  apply andb_true_iff. split; apply Nat.ltb_lt; lia.
Qed.

(* which records count *)
Definition is_hs (r : urec) : bool := match u_kind r with UH | US => true | _ => false end.
Definition is_live (r : urec) : bool := match u_kind r with UOther => false | _ => true end.
Definition names (O S : list label) (i j : nat) (r : urec) : bool :=
  is_hs r &&
  match lpos (observation_of r) O, rsplit_us (u_query r) with
  | Some i', Some sid => Nat.eqb i' i && match lpos sid S with Some j' => Nat.eqb j' j | None => false end
  | _, _ => false
  end.
Definition zcount {A} (p : A -> bool) (l : list A) : Z := zsum (map (fun x => if p x then 1%Z else 0%Z) l).

Lemma zcount_app {A} (p : A -> bool) a b : zcount p (a ++ b) = (zcount p a + zcount p b)%Z.
Proof. unfold zcount. rewrite map_app, zsum_app. reflexivity. Qed.

Lemma zcount_ext {A} (p q : A -> bool) l : (forall x, In x l -> p x = q x) -> zcount p l = zcount q l.
Proof.
  unfold zcount. intros H. f_equal. apply map_ext_in. intros x Hx. rewrite (H x Hx). reflexivity.
Qed.

Record uc_inv (rs : list urec) (s : ustate) : Prop := {
  inv_count : forall i j, cell_sum (us_data s) i j = zcount (names (us_obs s) (us_samp s) i j) rs;
  inv_obs : forall r, In r rs -> is_live r = true -> lpos (observation_of r) (us_obs s) <> None;
  inv_samp : forall r sid, In r rs -> is_hs r = true -> rsplit_us (u_query r) = Some sid -> lpos sid (us_samp s) <> None;
  inv_range : forallb (in_range (length (us_obs s)) (length (us_samp s))) (us_data s) = true;
  inv_obs_only : forall x, In x (us_obs s) -> exists r, In r rs /\ is_live r = true /\ observation_of r = x;
  inv_samp_only : forall x, In x (us_samp s) -> exists r, In r rs /\ is_hs r = true /\ rsplit_us (u_query r) = Some x
}.

Lemma names_stable O S O' S' i j r :
  (forall y k, lpos y O = Some k -> lpos y O' = Some k) -> (forall y k, lpos y S = Some k -> lpos y S' = Some k) ->
  (is_live r = true -> lpos (observation_of r) O <> None) ->
  (forall sid, is_hs r = true -> rsplit_us (u_query r) = Some sid -> lpos sid S <> None) ->
  names O' S' i j r = names O S i j r.
Proof.
  intros HO HS Lo Ls. unfold names. destruct (is_hs r) eqn:Eh; [|reflexivity]. simpl.
  assert (Hl : is_live r = true) by (unfold is_hs, is_live in *; destruct (u_kind r); try discriminate; reflexivity).
  specialize (Lo Hl). destruct (lpos (observation_of r) O) as [k|] eqn:E; [|contradiction].
  rewrite (HO _ _ E). destruct (rsplit_us (u_query r)) as [sid|] eqn:Er; [|reflexivity].
  specialize (Ls sid eq_refl eq_refl). destruct (lpos sid S) as [k'|] eqn:E'; [|contradiction].
  rewrite (HS _ _ E'). reflexivity.
Qed.

Lemma uc_step_inv rs s r : uc_inv rs s ->
  match uc_step (ROk s) r with
  | ROk s' => uc_inv (rs ++ [r]) s'
  | RErr c => c = E_VALUE /\ is_hs r = true /\ rsplit_us (u_query r) = None
  end.
Proof.
  intros [Ic Io Is Ir Oo So]. unfold uc_step.
  destruct (u_kind r) eqn:Ek.
  all: try (pose proof (intern_spec (observation_of r) (us_obs s)) as IO;
            destruct (intern (observation_of r) (us_obs s)) as [oi obs'] eqn:Eo;
            destruct IO as (IO1 & (ext & IO2) & IO3 & IO4)).
  - (* H *)
    destruct (rsplit_us (u_query r)) as [sid|] eqn:Er;
      [|split; [reflexivity|split; [unfold is_hs; rewrite Ek; reflexivity|reflexivity]]].
    pose proof (intern_spec sid (us_samp s)) as IS.
    destruct (intern sid (us_samp s)) as [si samp'] eqn:Es. destruct IS as (IS1 & (ext' & IS2) & IS3 & IS4).
    constructor; cbn [us_obs us_samp us_data].
    + intros i j. rewrite cell_sum_dincr, zcount_app, Ic. f_equal.
      * apply zcount_ext. intros x Hx. symmetry. apply names_stable; try assumption.
        -- intros Hl. apply Io; assumption.
        -- intros sd Hh Hr. apply (Is x); assumption.
      * unfold zcount. simpl. unfold names. unfold is_hs. rewrite Ek, IO1, Er, IS1. simpl.
        destruct (Nat.eqb oi i && Nat.eqb si j); lia.
    + intros x Hx Hl. apply in_app_iff in Hx. destruct Hx as [Hx|[<-|[]]].
      * specialize (Io x Hx Hl). destruct (lpos (observation_of x) (us_obs s)) as [k|] eqn:E; [|contradiction].
        rewrite (IO4 _ _ E). discriminate.
      * rewrite IO1. discriminate.
    + intros x sd Hx Hh Hr. apply in_app_iff in Hx. destruct Hx as [Hx|[<-|[]]].
      * specialize (Is x sd Hx Hh Hr). destruct (lpos sd (us_samp s)) as [k|] eqn:E; [|contradiction].
        rewrite (IS4 _ _ E). discriminate.
      * rewrite Er in Hr. inversion Hr; subst. rewrite IS1. discriminate.
    + apply dincr_range; [exact IO3|exact IS3|].
      apply (in_range_mono (length (us_obs s)) (length (us_samp s))); [rewrite IO2, app_length; lia|rewrite IS2, app_length; lia|exact Ir].
    + intros x Hx. rewrite IO2 in Hx. apply in_app_iff in Hx. destruct Hx as [Hx|Hx].
      * destruct (Oo x Hx) as (r' & A & B & C). exists r'. split; [apply in_app_iff; left; exact A|tauto].
      * exists r. split; [apply in_app_iff; right; left; reflexivity|].
        split; [unfold is_live; rewrite Ek; reflexivity|].
        symmetry. apply (intern_new _ _ _ _ _ _ Eo IO2 Hx).
    + intros x Hx. rewrite IS2 in Hx. apply in_app_iff in Hx. destruct Hx as [Hx|Hx].
      * destruct (So x Hx) as (r' & A & B & C). exists r'. split; [apply in_app_iff; left; exact A|tauto].
      * exists r. split; [apply in_app_iff; right; left; reflexivity|].
        split; [unfold is_hs; rewrite Ek; reflexivity|].
        rewrite (intern_new _ _ _ _ _ _ Es IS2 Hx). exact Er.
  - (* S: the same as H *)
    destruct (rsplit_us (u_query r)) as [sid|] eqn:Er;
      [|split; [reflexivity|split; [unfold is_hs; rewrite Ek; reflexivity|reflexivity]]].
    pose proof (intern_spec sid (us_samp s)) as IS.
    destruct (intern sid (us_samp s)) as [si samp'] eqn:Es. destruct IS as (IS1 & (ext' & IS2) & IS3 & IS4).
    constructor; cbn [us_obs us_samp us_data].
    + intros i j. rewrite cell_sum_dincr, zcount_app, Ic. f_equal.
      * apply zcount_ext. intros x Hx. symmetry. apply names_stable; try assumption.
        -- intros Hl. apply Io; assumption.
        -- intros sd Hh Hr. apply (Is x); assumption.
      * unfold zcount. simpl. unfold names. unfold is_hs. rewrite Ek, IO1, Er, IS1. simpl.
        destruct (Nat.eqb oi i && Nat.eqb si j); lia.
    + intros x Hx Hl. apply in_app_iff in Hx. destruct Hx as [Hx|[<-|[]]].
      * specialize (Io x Hx Hl). destruct (lpos (observation_of x) (us_obs s)) as [k|] eqn:E; [|contradiction].
        rewrite (IO4 _ _ E). discriminate.
      * rewrite IO1. discriminate.
    + intros x sd Hx Hh Hr. apply in_app_iff in Hx. destruct Hx as [Hx|[<-|[]]].
      * specialize (Is x sd Hx Hh Hr). destruct (lpos sd (us_samp s)) as [k|] eqn:E; [|contradiction].
        rewrite (IS4 _ _ E). discriminate.
      * rewrite Er in Hr. inversion Hr; subst. rewrite IS1. discriminate.
    + apply dincr_range; [exact IO3|exact IS3|].
      apply (in_range_mono (length (us_obs s)) (length (us_samp s))); [rewrite IO2, app_length; lia|rewrite IS2, app_length; lia|exact Ir].
    + intros x Hx. rewrite IO2 in Hx. apply in_app_iff in Hx. destruct Hx as [Hx|Hx].
      * destruct (Oo x Hx) as (r' & A & B & C). exists r'. split; [apply in_app_iff; left; exact A|tauto].
      * exists r. split; [apply in_app_iff; right; left; reflexivity|].
        split; [unfold is_live; rewrite Ek; reflexivity|].
        symmetry. apply (intern_new _ _ _ _ _ _ Eo IO2 Hx).
    + intros x Hx. rewrite IS2 in Hx. apply in_app_iff in Hx. destruct Hx as [Hx|Hx].
      * destruct (So x Hx) as (r' & A & B & C). exists r'. split; [apply in_app_iff; left; exact A|tauto].
      * exists r. split; [apply in_app_iff; right; left; reflexivity|].
        split; [unfold is_hs; rewrite Ek; reflexivity|].
        rewrite (intern_new _ _ _ _ _ _ Es IS2 Hx). exact Er.
  - (* L *)
    constructor; cbn [us_obs us_samp us_data].
    + intros i j. rewrite zcount_app, Ic.
      replace (zcount (names obs' (us_samp s) i j) [r]) with 0%Z
        by (unfold zcount; simpl; unfold names, is_hs; rewrite Ek; reflexivity).
      rewrite Z.add_0_r. apply zcount_ext. intros x Hx. symmetry. apply names_stable; try assumption.
      * intros; assumption.
      * intros Hl. apply Io; assumption.
      * intros sd Hh Hr. apply (Is x); assumption.
    + intros x Hx Hl. apply in_app_iff in Hx. destruct Hx as [Hx|[<-|[]]].
      * specialize (Io x Hx Hl). destruct (lpos (observation_of x) (us_obs s)) as [k|] eqn:E; [|contradiction].
        rewrite (IO4 _ _ E). discriminate.
      * rewrite IO1. discriminate.
    + intros x sd Hx Hh Hr. apply in_app_iff in Hx. destruct Hx as [Hx|[<-|[]]].
      * apply (Is x sd Hx Hh Hr).
      * unfold is_hs in Hh. rewrite Ek in Hh. discriminate.
    + apply (in_range_mono (length (us_obs s)) (length (us_samp s))); [rewrite IO2, app_length; lia|lia|exact Ir].
    + intros x Hx. rewrite IO2 in Hx. apply in_app_iff in Hx. destruct Hx as [Hx|Hx].
      * destruct (Oo x Hx) as (r' & A & B & C). exists r'. split; [apply in_app_iff; left; exact A|tauto].
      * exists r. split; [apply in_app_iff; right; left; reflexivity|].
        split; [unfold is_live; rewrite Ek; reflexivity|].
        symmetry. apply (intern_new _ _ _ _ _ _ Eo IO2 Hx).
    + intros x Hx. destruct (So x Hx) as (r' & A & B & C). exists r'. split; [apply in_app_iff; left; exact A|tauto].
  - (* other *)
    constructor.
    + intros i j. rewrite zcount_app, Ic.
      replace (zcount (names (us_obs s) (us_samp s) i j) [r]) with 0%Z
        by (unfold zcount; simpl; unfold names, is_hs; rewrite Ek; reflexivity). lia.
    + intros x Hx Hl. apply in_app_iff in Hx. destruct Hx as [Hx|[<-|[]]]; [apply Io; assumption|].
      unfold is_live in Hl. rewrite Ek in Hl. discriminate.
    + intros x sd Hx Hh Hr. apply in_app_iff in Hx. destruct Hx as [Hx|[<-|[]]]; [apply (Is x); assumption|].
      unfold is_hs in Hh. rewrite Ek in Hh. discriminate.
    + exact Ir.
    + intros x Hx. destruct (Oo x Hx) as (r' & A & B & C). exists r'. split; [apply in_app_iff; left; exact A|tauto].
    + intros x Hx. destruct (So x Hx) as (r' & A & B & C). exists r'. split; [apply in_app_iff; left; exact A|tauto].
Qed.

Lemma uc_inv_init : uc_inv [] (mkUS [] [] []).
Proof.
  constructor; simpl; try reflexivity; try (intros; contradiction).
Qed.

Lemma uc_fold_snoc rs r : uc_fold (rs ++ [r]) = uc_step (uc_fold rs) r.
Proof. unfold uc_fold. rewrite fold_left_app. reflexivity. Qed.

Theorem uc_fold_inv rs :
  match uc_fold rs with
  | ROk s => uc_inv rs s
  | RErr c => c = E_VALUE /\ exists r, In r rs /\ is_hs r = true /\ rsplit_us (u_query r) = None
  end.
Proof.
  induction rs as [|r rs IH] using rev_ind.
  - exact uc_inv_init.
  - rewrite uc_fold_snoc. destruct (uc_fold rs) as [s|c].
    + pose proof (uc_step_inv rs s r IH) as H. destruct (uc_step (ROk s) r) as [s'|c']; [exact H|].
      destruct H as (A & B & C). split; [exact A|]. exists r. split; [apply in_app_iff; right; left; reflexivity|tauto].
    + simpl. destruct IH as (A & r' & B & C). split; [exact A|]. exists r'. split; [apply in_app_iff; left; exact B|exact C].
Qed.

Lemma eqb_lpos x y l i i' : lpos x l = Some i' -> lpos y l = Some i -> Nat.eqb i' i = label_eqb x y.
Proof.
  intros A B. destruct (Nat.eqb i' i) eqn:E.
  - apply Nat.eqb_eq in E. subst. symmetry. apply label_eqb_eq. apply (lpos_same_index _ _ _ _ A B).
  - destruct (label_eqb x y) eqn:E2; [|reflexivity]. apply label_eqb_eq in E2. subst.
    rewrite A in B. inversion B; subst. rewrite Nat.eqb_refl in E. discriminate.
Qed.

(* the records naming the pair (seed o, sample s) *)
Definition names_pair (o s : label) (r : urec) : bool :=
  is_hs r && label_eqb (observation_of r) o &&
  match rsplit_us (u_query r) with Some sid => label_eqb sid s | None => false end.

Theorem uc_count_lemma rs t : parse_uc rs = ROk t ->
  (forall o s i j, lpos o (ut_obs t) = Some i -> lpos s (ut_samp t) = Some j ->
     get (ut_mat t) i j = zcount (names_pair o s) rs) /\
  (forall x, In x (ut_obs t) <-> exists r, In r rs /\ is_live r = true /\ observation_of r = x) /\
  (forall x, In x (ut_samp t) <-> exists r, In r rs /\ is_hs r = true /\ rsplit_us (u_query r) = Some x) /\
  length (ut_mat t) = length (ut_obs t) /\ rect (length (ut_samp t)) (ut_mat t).
Proof.
  unfold parse_uc. pose proof (uc_fold_inv rs) as Inv. destruct (uc_fold rs) as [s|c]; [|discriminate].
  destruct Inv as [Ic Io Is Ir Oo So]. unfold uc_matrix, to_dense, to_coo, coo_checked_ids. cbn [fst snd]. rewrite Ir.
  intros H. inversion H; subst t; clear H. cbn [ut_obs ut_samp ut_mat].
  split; [|split; [|split; [|split; [apply coo_dense_length|apply coo_dense_rect]]]].
  - intros o sm i j Ho Hs.
    destruct (lpos_Some _ _ _ Ho) as [Hi _]. destruct (lpos_Some _ _ _ Hs) as [Hj _].
    rewrite get_coo_dense by assumption. rewrite Ic. apply zcount_ext. intros r Hr.
    unfold names, names_pair. destruct (is_hs r) eqn:Eh; [|reflexivity]. simpl.
    assert (Hl : is_live r = true) by (unfold is_hs, is_live in *; destruct (u_kind r); try discriminate; reflexivity).
    pose proof (Io r Hr Hl) as N. destruct (lpos (observation_of r) (us_obs s)) as [i'|] eqn:E; [|contradiction].
    destruct (rsplit_us (u_query r)) as [sid|] eqn:Er; [|rewrite andb_false_r; reflexivity].
    pose proof (Is r sid Hr Eh Er) as N2. destruct (lpos sid (us_samp s)) as [j'|] eqn:E2; [|contradiction].
    rewrite (eqb_lpos _ _ _ _ _ E Ho), (eqb_lpos _ _ _ _ _ E2 Hs). reflexivity.
  - intros x. split; [apply Oo|]. intros (r & A & B & C). subst x.
    pose proof (Io r A B) as N. destruct (lpos (observation_of r) (us_obs s)) as [k|] eqn:E; [|contradiction].
    destruct (lpos_Some _ _ _ E) as [Hk <-]. apply nth_In. exact Hk.
  - intros x. split; [apply So|]. intros (r & A & B & C).
    pose proof (Is r x A B C) as N. destruct (lpos x (us_samp s)) as [k|] eqn:E; [|contradiction].
    destruct (lpos_Some _ _ _ E) as [Hk <-]. apply nth_In. exact Hk.
Qed.

Theorem uc_total_lemma rs :
  (forall r, In r rs -> is_hs r = true -> rsplit_us (u_query r) <> None) -> exists t, parse_uc rs = ROk t.
Proof.
  intros H. unfold parse_uc. pose proof (uc_fold_inv rs) as Inv. destruct (uc_fold rs) as [s|c].
  - destruct Inv as [_ _ _ Ir _ _]. unfold uc_matrix, to_dense, to_coo, coo_checked_ids. cbn [fst snd]. rewrite Ir.
    eexists. reflexivity.
  - destruct Inv as (_ & r & A & B & C). exfalso. exact (H r A B C).
Qed.

Theorem uc_error_lemma rs c : parse_uc rs = RErr c ->
  c = E_VALUE /\ exists r, In r rs /\ is_hs r = true /\ rsplit_us (u_query r) = None.
Proof.
  unfold parse_uc. pose proof (uc_fold_inv rs) as Inv. destruct (uc_fold rs) as [s|c'].
  - destruct Inv as [_ _ _ Ir _ _]. unfold uc_matrix, to_dense, to_coo, coo_checked_ids. cbn [fst snd]. rewrite Ir. discriminate.
  - intros H. inversion H; subst. exact Inv.
Qed.

(* the sample id is the part of the query label before its LAST underscore *)
Lemma rsplit_none q : rsplit_us q = None <-> ~ In UNDERSCORE q.
Proof.
  induction q as [|c q IH]; simpl; [tauto|].
  destruct (rsplit_us q) as [pre|] eqn:E.
  - split; [discriminate|]. intros H. exfalso. assert (X : ~ In UNDERSCORE q) by tauto.
    apply IH in X. discriminate.
  - destruct (Z.eqb c UNDERSCORE) eqn:Ec.
    + apply Z.eqb_eq in Ec. split; [discriminate|]. intros H. exfalso. apply H. left. exact Ec.
    + apply Z.eqb_neq in Ec. split; [|reflexivity]. intros _ [F|F]; [exact (Ec F)|]. apply (proj1 IH eq_refl). exact F.
Qed.

Theorem rsplit_last pre suf : ~ In UNDERSCORE suf -> rsplit_us (pre ++ UNDERSCORE :: suf) = Some pre.
Proof.
  intros H. induction pre as [|c pre IH]; simpl.
  - apply rsplit_none in H. rewrite H. reflexivity.
  - rewrite IH. reflexivity.
Qed.

(* first-seen ids are recorded once *)
Lemma NoDup_snoc {A} (x : A) l : NoDup l -> ~ In x l -> NoDup (l ++ [x]).
Proof.
  induction l as [|y l IH]; simpl; intros N H; [constructor; [intros []|constructor]|].
  inversion N as [|? ? Hy Nl]; subst. constructor.
  - intros Hin. apply in_app_iff in Hin. destruct Hin as [Hin|[Hin|[]]]; [contradiction|]. apply H. left. symmetry. exact Hin.
  - apply IH; [exact Nl|]. intros Hin. apply H. right. exact Hin.
Qed.

Lemma intern_nodup x l : NoDup l -> NoDup (snd (intern x l)).
Proof.
  intros N. unfold intern. destruct (lpos x l) eqn:E; simpl; [exact N|].
  apply lpos_None in E. apply NoDup_snoc; assumption.
Qed.

Lemma uc_step_nodup s r s' : uc_step (ROk s) r = ROk s' ->
  NoDup (us_obs s) -> NoDup (us_samp s) -> NoDup (us_obs s') /\ NoDup (us_samp s').
Proof.
  unfold uc_step. intros H No Ns.
  pose proof (intern_nodup (observation_of r) (us_obs s) No) as N1.
  destruct (intern (observation_of r) (us_obs s)) as [oi obs'] eqn:Eo. simpl in N1.
  destruct (u_kind r).
  - destruct (rsplit_us (u_query r)) as [sid|]; [|discriminate].
    pose proof (intern_nodup sid (us_samp s) Ns) as N2.
    destruct (intern sid (us_samp s)) as [si samp']. simpl in N2. inversion H; subst. simpl. tauto.
  - destruct (rsplit_us (u_query r)) as [sid|]; [|discriminate].
    pose proof (intern_nodup sid (us_samp s) Ns) as N2.
    destruct (intern sid (us_samp s)) as [si samp']. simpl in N2. inversion H; subst. simpl. tauto.
  - inversion H; subst. simpl. tauto.
  - inversion H; subst. tauto.
Qed.

Theorem uc_ids_nodup rs t : parse_uc rs = ROk t -> NoDup (ut_obs t) /\ NoDup (ut_samp t).
Proof.
  unfold parse_uc.
  assert (G : forall s, uc_fold rs = ROk s -> NoDup (us_obs s) /\ NoDup (us_samp s)).
  { induction rs as [|r rs IH] using rev_ind; intros s H.
    - inversion H; subst. simpl. split; constructor.
    - rewrite uc_fold_snoc in H. destruct (uc_fold rs) as [s0|c]; [|discriminate].
      destruct (IH s0 eq_refl) as [A B]. apply (uc_step_nodup s0 r s H A B). }
  destruct (uc_fold rs) as [s|c]; [|discriminate]. destruct (G s eq_refl) as [A B].
  destruct (uc_matrix s) as [[[a b] m]|c]; [|discriminate]. intros H. inversion H; subst. simpl. tauto.
Qed.

(* _from_uc with a representative set: only the observation ids change *)
Theorem from_uc_rename_lemma rs m t' : from_uc rs (Some m) = ROk t' ->
  exists t, parse_uc rs = ROk t /\ ut_mat t' = ut_mat t /\ ut_samp t' = ut_samp t /\
    rename_all m (ut_obs t) = Some (ut_obs t') /\ ldup (ut_obs t') = false.
Proof.
  unfold from_uc. destruct (parse_uc rs) as [t|c]; [|discriminate].
  destruct (rename_all m (ut_obs t)) as [new|] eqn:E; [|discriminate].
  destruct (ldup new) eqn:D; [discriminate|]. intros H. inversion H; subst. exists t. simpl. tauto.
Qed.

(* ================================================================== F. all forms agree *)
Definition encodings_shape_free (c : nat) (m : matrix) : list cinput :=
  [enc_array c m; enc_lists m; enc_triples m; enc_triples_zeros m; enc_dict m; enc_rowarrays m;
   enc_sparserows c m; enc_sparse c m].
Definition all_encodings (c : nat) (m : matrix) : list cinput := enc_rowdicts m :: encodings_shape_free c m.

Lemma encodings_faithful c m inp : rect c m -> In inp (encodings_shape_free c m) ->
  to_dense inp (length m, c) = ROk (length m, c, m).
Proof.
  intros R H. unfold encodings_shape_free in H. simpl in H.
  destruct H as [<-|[<-|[<-|[<-|[<-|[<-|[<-|[<-|[]]]]]]]]].
  - apply faithful_array; [exact R|reflexivity].
  - apply faithful_lists; [exact R|intros ->; reflexivity].
  - apply faithful_triples; exact R.
  - apply faithful_triples_zeros; exact R.
  - apply faithful_dict; exact R.
  - apply faithful_rowarrays; [exact R|intros ->; reflexivity].
  - apply faithful_sparserows; [exact R|intros ->; reflexivity].
  - apply faithful_sparse; exact R.
Qed.

Lemma all_encodings_faithful c m inp : rect c m -> In inp (all_encodings c m) ->
  to_dense inp (length m, c) = ROk (length m, c, m).
Proof.
  intros R [<-|H]; [apply faithful_rowdicts; assumption|apply encodings_faithful; assumption].
Qed.

Lemma construct_by_dense p i1 i2 oids sids omd smd ty :
  to_dense i1 (length oids, length sids) = to_dense i2 (length oids, length sids) ->
  construct p i1 oids sids omd smd ty = construct p i2 oids sids omd smd ty.
Proof. intros H. unfold construct. rewrite H. reflexivity. Qed.

Theorem forms_agree_lemma c m i1 i2 p oids sids omd smd ty :
  rect c m -> length oids = length m -> length sids = c ->
  In i1 (all_encodings c m) -> In i2 (all_encodings c m) ->
  construct p i1 oids sids omd smd ty = construct p i2 oids sids omd smd ty.
Proof.
  intros R Ho Hs A B. apply construct_by_dense. rewrite Ho, Hs.
  rewrite (all_encodings_faithful c m i1 R A), (all_encodings_faithful c m i2 R B). reflexivity.
Qed.
