(* Bridges between the text-level slicer model written by hand (Model/Slicer.v) and the definitions
   tools/py2v regenerates from biom/parse.py on every run (Gen/SlicerGen.v, string mode).
   The generated code follows the source: an index `cur_idx : Z` into the whole string, characters
   read with `seq_at` (IndexError made explicit), `while` loops on explicit fuel, the bracket stack as a
   Python list (top = last element).  The hand model recurses on the remaining suffix and counts the
   characters consumed.  The invariant relating them: at index i the suffix is `skipn i s`; the
   generated stack is the reverse of the model's; the loop result is `i + consumed`. *)
From Coq Require Import List Arith ZArith Lia Bool.
From BiomV Require Import Base.ListUtil Model.Table Model.Slicer Gen.StrPrelude Gen.SlicerGen.
Import ListNotations.
Open Scope Z_scope.

(* ------------------------------------------------------------------ indexing and suffixes *)
Lemma nth_error_skipn {A} : forall (l : list A) i,
  nth_error l i = match skipn i l with [] => None | c :: _ => Some c end.
Proof. induction l as [|a l IH]; destruct i; cbn; auto. Qed.

Lemma seq_at_nat {A} (l : list A) (i : nat) :
  seq_at l (Z.of_nat i) = match skipn i l with [] => Exn IndexError | c :: _ => Val c end.
Proof.
  unfold seq_at, str_len.
  destruct (Z.ltb_spec (Z.of_nat i) 0) as [H0|H0]; [lia|].
  destruct (Z.ltb_spec (Z.of_nat i) 0) as [H1|H1]; [lia|]. cbn [orb].
  destruct (Z.leb_spec (Z.of_nat (length l)) (Z.of_nat i)) as [H|H].
  - rewrite skipn_all2 by lia. reflexivity.
  - rewrite Nat2Z.id, nth_error_skipn. destruct (skipn i l) eqn:E; [|reflexivity].
    assert (length (skipn i l) = 0%nat) by (rewrite E; reflexivity). rewrite skipn_length in *. lia.
Qed.

Lemma seq_at_last {A} (l : list A) x : seq_at (l ++ [x]) (-1) = Val x.
Proof.
  unfold seq_at, str_len. rewrite app_length. cbn [length Z.ltb Z.compare].
  replace (-1 + Z.of_nat (length l + 1)) with (Z.of_nat (length l)) by lia.
  destruct (Z.ltb_spec (Z.of_nat (length l)) 0) as [H|H]; [lia|].
  destruct (Z.leb_spec (Z.of_nat (length l + 1)) (Z.of_nat (length l))) as [H1|H1]; [lia|]. cbn [orb].
  rewrite Nat2Z.id, nth_error_app2 by lia. rewrite Nat.sub_diag. reflexivity.
Qed.

Lemma skipn_step {A} : forall (l : list A) i c t, skipn i l = c :: t -> skipn (S i) l = t.
Proof.
  induction l as [|a l IH]; destruct i; cbn; intros c t H; try discriminate.
  - inversion H. destruct t; reflexivity.
  - apply (IH i c t H).
Qed.

Lemma skipn_skipn {A} : forall y (l : list A) x, skipn x (skipn y l) = skipn (x + y) l.
Proof.
  induction y as [|y IH]; intros l x.
  - rewrite Nat.add_0_r. reflexivity.
  - rewrite Nat.add_succ_r. destruct l as [|a l]; cbn [skipn]; [apply skipn_nil|apply IH].
Qed.

Lemma skipn_step_len {A} (l : list A) i c t : skipn i l = c :: t -> length (skipn i l) = S (length t).
Proof. intros ->. reflexivity. Qed.

Lemma lempty_snoc {A} (l : list A) x : lempty (l ++ [x]) = false.
Proof. destruct l; reflexivity. Qed.

Lemma list_pop_snoc {A} (l : list A) x : list_pop (l ++ [x]) = Val l.
Proof. unfold list_pop. destruct (l ++ [x]) eqn:E; [destruct l; discriminate|]. rewrite <- E, removelast_last. reflexivity. Qed.

Lemma char_in2 c a b : char_in c [a; b] = (c =? a) || (c =? b).
Proof. unfold char_in. cbn. rewrite orb_false_r. reflexivity. Qed.
Lemma char_in3 c a b d : char_in c [a; b; d] = (c =? a) || (c =? b) || (c =? d).
Proof. unfold char_in. cbn. rewrite orb_false_r, orb_assoc. reflexivity. Qed.

(* s[a:b] with 0 <= a <= b *)
Lemma str_slice_nat {A} (s : list A) (a n : nat) z :
  z = Z.of_nat (a + n) -> str_slice s (Z.of_nat a) z = firstn n (skipn a s).
Proof.
  intros ->. unfold str_slice, norm_idx, str_len.
  destruct (Z.ltb_spec (Z.of_nat a) 0); [lia|]. destruct (Z.ltb_spec (Z.of_nat (a + n)) 0); [lia|].
  destruct (Nat.le_gt_cases a (length s)) as [Ha|Ha].
  - rewrite (Z.min_l (Z.of_nat a)) by lia. rewrite Nat2Z.id.
    destruct (Nat.le_gt_cases (a + n) (length s)) as [Hb|Hb].
    + rewrite Z.min_l by lia. f_equal. lia.
    + rewrite Z.min_r by lia. rewrite !firstn_all2; try reflexivity; rewrite skipn_length; lia.
  - rewrite !Z.min_r by lia. rewrite Nat2Z.id. rewrite !skipn_all2 by lia. rewrite !firstn_nil. reflexivity.
Qed.

(* ------------------------------------------------------------------ parse.py:70-71 *)
Lemma skip_space_rest : forall l n m r, skip_space l n = Some (m, r) -> exists k, m = (n + k)%nat /\ r = skipn k l.
Proof.
  induction l as [|c t IH]; intros n m r H; cbn [skip_space] in H; [discriminate|].
  destruct (is_space c).
  - apply IH in H as [k [-> ->]]. exists (S k). split; [lia|reflexivity].
  - inversion H. exists 0%nat. split; [lia|reflexivity].
Qed.

Lemma dpk_space_ok : forall fuel s i n, (length (skipn i s) < fuel)%nat ->
  dpk_space fuel s (Z.of_nat i) =
  match skip_space (skipn i s) n with
  | None => Exn IndexError
  | Some (m, _) => Val (Z.of_nat i + Z.of_nat m - Z.of_nat n)
  end.
Proof.
  induction fuel as [|fuel IH]; intros s i n Hf; [lia|].
  cbn [dpk_space]. rewrite seq_at_nat. destruct (skipn i s) as [|c t] eqn:E; cbn [obind skip_space]; [reflexivity|].
  destruct (is_space c).
  - replace (Z.of_nat i + 1) with (Z.of_nat (S i)) by lia.
    rewrite (IH s (S i) (S n)) by (rewrite (skipn_step _ _ _ _ E); cbn [length] in Hf; lia).
    rewrite (skipn_step _ _ _ _ E). destruct (skip_space t (S n)) as [[m r]|]; [|reflexivity]. f_equal. lia.
  - f_equal. lia.
Qed.

(* ------------------------------------------------------------------ parse.py:76-79 *)
Lemma dpk_string_ok : forall fuel s i n, (length (skipn i s) < fuel)%nat ->
  dpk_string fuel s (Z.of_nat i) =
  match scan_str (skipn i s) n with
  | None => Exn IndexError
  | Some m => Val (Z.of_nat i + Z.of_nat m - Z.of_nat n - 1)
  end.
Proof.
  induction fuel as [|fuel IH]; intros s i n Hf; [lia|].
  cbn [dpk_string]. rewrite seq_at_nat. destruct (skipn i s) as [|c t] eqn:E; cbn [obind scan_str]; [reflexivity|].
  unfold QUOTE, BSL. destruct (c =? 34); cbn [negb].
  - f_equal. lia.
  - rewrite ?seq_at_nat, ?E. cbn [obind]. pose proof (skipn_step _ _ _ _ E) as E1. cbn [length] in Hf.
    destruct (c =? 92).
    + replace (Z.of_nat i + 1 + 1) with (Z.of_nat (S (S i))) by lia.
      destruct t as [|c2 t2].
      * rewrite (IH s (S (S i)) (S (S n))).
        -- rewrite (skipn_all2 s) by (assert (L := f_equal (@length Z) E1); rewrite skipn_length in L; cbn in L; lia).
           reflexivity.
        -- rewrite (skipn_all2 s) by (assert (L := f_equal (@length Z) E1); rewrite skipn_length in L; cbn in L; lia).
           cbn. lia.
      * pose proof (skipn_step _ _ _ _ E1) as E2.
        rewrite (IH s (S (S i)) (S (S n))) by (rewrite E2; cbn [length] in Hf; lia).
        rewrite E2. destruct (scan_str t2 (S (S n))); [|reflexivity]. f_equal. lia.
    + replace (Z.of_nat i + 1) with (Z.of_nat (S i)) by lia.
      rewrite (IH s (S i) (S n)) by (rewrite E1; lia).
      rewrite E1. destruct (scan_str t (S n)); [|reflexivity]. f_equal. lia.
Qed.

(* ------------------------------------------------------------------ parse.py:84-85 *)
Lemma dpk_number_ok : forall fuel s i n, (length (skipn i s) < fuel)%nat ->
  dpk_number fuel s (Z.of_nat i) =
  match scan_num (skipn i s) n with
  | None => Exn IndexError
  | Some m => Val (Z.of_nat i + Z.of_nat m - Z.of_nat n)
  end.
Proof.
  induction fuel as [|fuel IH]; intros s i n Hf; [lia|].
  cbn [dpk_number]. rewrite seq_at_nat. destruct (skipn i s) as [|c t] eqn:E; cbn [obind scan_num]; [reflexivity|].
  rewrite char_in3. unfold COMMA, LBRACE, RBRACE. destruct ((c =? 44) || (c =? 123) || (c =? 125)); cbn [negb].
  - f_equal. lia.
  - replace (Z.of_nat i + 1) with (Z.of_nat (S i)) by lia. pose proof (skipn_step _ _ _ _ E) as E1. cbn [length] in Hf.
    rewrite (IH s (S i) (S n)) by (rewrite E1; lia).
    rewrite E1. destruct (scan_num t (S n)); [|reflexivity]. f_equal. lia.
Qed.

(* ------------------------------------------------------------------ parse.py:91-111 *)
Lemma scan_obj_nil s n : scan_obj s [] n = Some n.
Proof. destruct s; reflexivity. Qed.

Lemma dpk_object_ok : forall fuel s i st n, (length (skipn i s) < fuel)%nat ->
  dpk_object fuel s (Z.of_nat i) (rev st) =
  match scan_obj (skipn i s) st n with
  | None => Exn IndexError
  | Some m => Val (Z.of_nat i + Z.of_nat m - Z.of_nat n, [])
  end.
Proof.
  induction fuel as [|fuel IH]; intros s i st n Hf; [lia|].
  destruct st as [|top below].
  - rewrite scan_obj_nil. cbn. f_equal. f_equal. lia.
  - cbn [rev dpk_object]. rewrite lempty_snoc. cbn [negb]. rewrite seq_at_nat.
    destruct (skipn i s) as [|c t] eqn:E; cbn [obind scan_obj]; [reflexivity|].
    rewrite seq_at_last. cbn [obind]. pose proof (skipn_step _ _ _ _ E) as E1. cbn [length] in Hf.
    assert (STEP : forall st' k, k = Z.of_nat i + 1 ->
              dpk_object fuel s k (rev st') =
              match scan_obj t st' (S n) with
              | None => Exn IndexError
              | Some m => Val (Z.of_nat i + Z.of_nat m - Z.of_nat n, [])
              end).
    { intros st' k ->. replace (Z.of_nat i + 1) with (Z.of_nat (S i)) by lia.
      rewrite (IH s (S i) st' (S n)) by (rewrite E1; lia).
      rewrite E1. destruct (scan_obj t st' (S n)); [|reflexivity]. f_equal. f_equal. lia. }
    unfold QUOTE, BSL. destruct (top =? 34).
    + destruct (c =? 92).
      * replace (Z.of_nat i + 1 + 1) with (Z.of_nat (S (S i))) by lia.
        change (rev below ++ [top]) with (rev (top :: below)).
        destruct t as [|c2 t2].
        -- rewrite (IH s (S (S i)) (top :: below) (S (S n))).
           ++ rewrite (skipn_all2 s) by (assert (L := f_equal (@length Z) E1); rewrite skipn_length in L; cbn in L; lia).
              reflexivity.
           ++ rewrite (skipn_all2 s) by (assert (L := f_equal (@length Z) E1); rewrite skipn_length in L; cbn in L; lia).
              cbn. lia.
        -- pose proof (skipn_step _ _ _ _ E1) as E2.
           rewrite (IH s (S (S i)) (top :: below) (S (S n))) by (rewrite E2; cbn [length] in Hf; lia).
           rewrite E2. destruct (scan_obj t2 (top :: below) (S (S n))); [|reflexivity]. f_equal. f_equal. lia.
      * destruct (c =? 34).
        -- rewrite list_pop_snoc. cbn [obind]. apply STEP. reflexivity.
        -- apply (STEP (top :: below)). reflexivity.
    + destruct (c =? 34) eqn:Q.
      * apply (STEP (c :: top :: below)). reflexivity.
      * rewrite char_in2. unfold is_close, RBRACK, RBRACE. destruct ((c =? 93) || (c =? 125)).
        -- rewrite removelast_last. destruct (rev below ++ [top]) eqn:X; [destruct (rev below); discriminate|].
           apply STEP. reflexivity.
        -- rewrite char_in2. unfold is_open, LBRACK, LBRACE. destruct ((c =? 91) || (c =? 123)).
           ++ apply (STEP (c :: top :: below)). reflexivity.
           ++ apply (STEP (top :: below)). reflexivity.
Qed.

(* ------------------------------------------------------------------ direct_parse_key, parse.py:57-113 *)
(* all inputs: the generated function never runs out of fuel (len + 1 per loop) and returns what the
   hand-written model returns, IndexError included *)
Theorem direct_parse_key_bridge : forall s key,
  out_res (direct_parse_key_gen s key) = Some (direct_parse_key s key).
Proof.
  intros s key. unfold direct_parse_key_gen, direct_parse_key, str_find.
  change ([34] ++ key ++ [34; 58]) with (key_pat key).
  destruct (find_sub (key_pat key) s) as [base|]; [|reflexivity].
  destruct (Z.eqb_spec (Z.of_nat base) (-1)) as [H|_]; [lia|]. cbv zeta.
  set (start := (length key + 3)%nat).
  assert (FUEL : forall i, (length (skipn i s) < length s + 1)%nat) by (intro i; rewrite skipn_length; lia).
  replace (Z.of_nat base + str_len key + 3) with (Z.of_nat (start + base)) by (unfold str_len, start; lia).
  rewrite (dpk_space_ok _ s (start + base) 0 (FUEL _)). rewrite skipn_skipn.
  destruct (skip_space (skipn (start + base) s) 0) as [[nsp rest]|] eqn:SS; cbn [obind out_res]; [|reflexivity].
  apply skip_space_rest in SS as [k [-> ->]]. cbn [Nat.add]. rewrite skipn_skipn.
  replace (Z.of_nat (start + base) + Z.of_nat k - Z.of_nat 0) with (Z.of_nat (k + (start + base))) by lia.
  set (cur := (k + (start + base))%nat).
  rewrite seq_at_nat. destruct (skipn cur s) as [|c rest'] eqn:R; cbn [obind out_res]; [reflexivity|].
  pose proof (skipn_step _ _ _ _ R) as R1.
  unfold QUOTE. destruct (c =? 34).
  - replace (Z.of_nat cur + 1) with (Z.of_nat (S cur)) by lia.
    rewrite (dpk_string_ok _ s (S cur) 0 (FUEL _)), R1.
    destruct (scan_str rest' 0) as [m|]; cbn [obind option_map out_res]; [|reflexivity].
    do 2 f_equal. apply str_slice_nat. unfold cur. lia.
  - rewrite ?seq_at_nat, ?R. cbn [obind]. rewrite char_in2. unfold is_open, LBRACK, LBRACE.
    destruct ((c =? 91) || (c =? 123)); cbn [negb].
    + rewrite ?seq_at_nat, ?R. cbn [obind].
      replace (Z.of_nat cur + 1) with (Z.of_nat (S cur)) by lia. change [c] with (rev [c]) at 1.
      rewrite (dpk_object_ok _ s (S cur) [c] 1 (FUEL _)), R1.
      destruct (scan_obj rest' [c] 1) as [m|]; cbn [obind out_res]; [|reflexivity].
      do 2 f_equal. apply str_slice_nat. unfold cur. lia.
    + rewrite (dpk_number_ok _ s cur 0 (FUEL _)), R.
      destruct (scan_num (c :: rest') 0) as [m|]; cbn [obind out_res]; [|reflexivity].
      do 2 f_equal. apply str_slice_nat. unfold cur. lia.
Qed.

(* ------------------------------------------------------------------ strip_f, parse.py:178-179 *)
Lemma lstrip_ext p q s : (forall c, p c = q c) -> lstrip p s = lstrip q s.
Proof. intro H. induction s as [|c t IH]; cbn [lstrip]; [reflexivity|]. rewrite H, IH. reflexivity. Qed.
Lemma rstrip_ext p q s : (forall c, p c = q c) -> rstrip p s = rstrip q s.
Proof. intro H. induction s as [|c t IH]; cbn [rstrip]; [reflexivity|]. rewrite H, IH. reflexivity. Qed.

Theorem strip_f_bridge : forall x, strip_f_gen x = strip_f x.
Proof.
  intro x. unfold strip_f_gen, str_strip, strip_f, strip.
  rewrite (lstrip_ext _ strip_set), (rstrip_ext _ strip_set); [reflexivity| |];
    intro c; unfold char_in, strip_set, LBRACK, RBRACK, SP, NL, TAB; cbn [existsb];
    destruct (c =? 91), (c =? 93), (c =? 32), (c =? 10), (c =? 9); reflexivity.
Qed.

Lemma map_strip_f_gen l : map strip_f_gen l = map strip_f l.
Proof. apply map_ext. exact strip_f_bridge. Qed.

(* ------------------------------------------------------------------ _remap_axis_sparse_obs/_samp, parse.py:182-191 *)
Theorem remap_axis_obs_bridge : forall rcv lk, out_res (remap_axis_obs_gen rcv lk) = Some (remap_axis_obs rcv lk).
Proof.
  intros rcv lk. unfold remap_axis_obs_gen, remap_axis_obs, COMMA. rewrite map_strip_f_gen.
  destruct (map strip_f (split_char 44 rcv)) as [|a [|b [|c [|d l]]]]; cbn [three]; try reflexivity.
  unfold lookup_at. destruct (lookup_get a lk); reflexivity.
Qed.

Theorem remap_axis_samp_bridge : forall rcv lk, out_res (remap_axis_samp_gen rcv lk) = Some (remap_axis_samp rcv lk).
Proof.
  intros rcv lk. unfold remap_axis_samp_gen, remap_axis_samp, COMMA. rewrite map_strip_f_gen.
  destruct (map strip_f (split_char 44 rcv)) as [|a [|b [|c [|d l]]]]; cbn [three]; try reflexivity.
  unfold lookup_at. destruct (lookup_get b lk); reflexivity.
Qed.

(* ------------------------------------------------------------------ _direct_slice_data_sparse_obs/_samp, parse.py:194-234 *)
(* the source appends to new_data while it walks the records; the model conses after the recursive
   call: the loop started with `acc` gives acc ++ (the model's rows), and the first error wins in both *)
Definition rows_spec (acc : list text) (r : result (list text)) : option (result (list text)) :=
  match r with ROk xs => Some (ROk (acc ++ xs)) | RErr e => Some (RErr e) end.

Lemma out_res_inv {A} (o : outcome A) (r : result A) : out_res o = Some r ->
  match o with
  | Val a => r = ROk a
  | Exn IndexError => r = RErr E_OTHER
  | Exn ValueError => r = RErr E_VALUE
  | Exn KeyError => r = RErr E_KEY
  | OutOfFuel => False
  end.
Proof. destruct o as [a|[]|]; cbn; intro H; inversion H; reflexivity. Qed.

Lemma slice_obs_rows_ok : forall l lk acc, out_res (slice_obs_rows l lk acc) = rows_spec acc (obs_rows l lk).
Proof.
  induction l as [|rcv l IH]; intros lk acc; cbn [slice_obs_rows obs_rows].
  - cbn. rewrite app_nil_r. reflexivity.
  - rewrite strip_f_bridge. destruct (strip_f rcv) as [|z t] eqn:S; cbn [lempty]; [apply IH|].
    unfold COMMA. destruct (split_char 44 (z :: t)) as [|r [|c [|v [|x y]]]]; cbn [three]; try reflexivity.
    unfold lookup_mem. destruct (lookup_get r lk); [|apply IH].
    pose proof (out_res_inv _ _ (remap_axis_obs_bridge rcv lk)) as B.
    destruct (remap_axis_obs_gen rcv lk) as [a|[]|]; try rewrite B; cbn [obind rbind]; try reflexivity; [|contradiction].
    rewrite IH. destruct (obs_rows l lk); cbn; [rewrite <- app_assoc|]; reflexivity.
Qed.

Lemma slice_samp_rows_ok : forall l lk acc, out_res (slice_samp_rows l lk acc) = rows_spec acc (samp_rows l lk).
Proof.
  induction l as [|rcv l IH]; intros lk acc; cbn [slice_samp_rows samp_rows].
  - cbn. rewrite app_nil_r. reflexivity.
  - rewrite strip_f_bridge. destruct (strip_f rcv) as [|z t] eqn:S; cbn [lempty]; [apply IH|].
    unfold COMMA. rewrite map_strip_f_gen.
    destruct (map strip_f (split_char 44 rcv)) as [|r [|c [|v [|x y]]]]; cbn [three]; try reflexivity.
    unfold lookup_mem. destruct (lookup_get c lk); [|apply IH].
    pose proof (out_res_inv _ _ (remap_axis_samp_bridge rcv lk)) as B.
    destruct (remap_axis_samp_gen rcv lk) as [a|[]|]; try rewrite B; cbn [obind rbind]; try reflexivity; [|contradiction].
    rewrite IH. destruct (samp_rows l lk); cbn; [rewrite <- app_assoc|]; reflexivity.
Qed.

Theorem slice_obs_bridge : forall data keep, out_res (slice_obs_gen data keep) = Some (slice_obs data keep).
Proof.
  intros data keep. unfold slice_obs_gen, slice_obs, RBRACK, COMMA. cbv zeta.
  pose proof (slice_obs_rows_ok (split2 93 44 data) (remap_lookup keep) []) as B.
  destruct (obs_rows (split2 93 44 data) (remap_lookup keep)) as [xs|e]; cbn [rows_spec app] in B;
    apply out_res_inv in B;
    destruct (slice_obs_rows (split2 93 44 data) (remap_lookup keep) []) as [a|[]|]; try discriminate B; try contradiction;
    cbn [obind rbind out_res]; try (inversion B; reflexivity).
  injection B as B; subst xs. destruct a; reflexivity.
Qed.

Theorem slice_samp_bridge : forall data keep, out_res (slice_samp_gen data keep) = Some (slice_samp data keep).
Proof.
  intros data keep. unfold slice_samp_gen, slice_samp, RBRACK, COMMA. cbv zeta.
  pose proof (slice_samp_rows_ok (split2 93 44 data) (remap_lookup keep) []) as B.
  destruct (samp_rows (split2 93 44 data) (remap_lookup keep)) as [xs|e]; cbn [rows_spec app] in B;
    apply out_res_inv in B;
    destruct (slice_samp_rows (split2 93 44 data) (remap_lookup keep) []) as [a|[]|]; try discriminate B; try contradiction;
    cbn [obind rbind out_res]; try (inversion B; reflexivity).
  injection B as B; subst xs. destruct a; reflexivity.
Qed.

(* ------------------------------------------------------------------ direct_slice_data, parse.py:116-175 *)
(* the source takes the axis as a str, the model as `axis` *)
Definition axis_text (a : axis) : text :=
  match a with
  | Obs => [111; 98; 115; 101; 114; 118; 97; 116; 105; 111; 110]
  | Samp => [115; 97; 109; 112; 108; 101]
  end.

Lemma teqb_same a : teqb a a = true.
Proof. unfold teqb. induction a as [|x a IH]; cbn; [reflexivity|]. rewrite Z.eqb_refl, IH. reflexivity. Qed.

Lemma need_key_step {B} s K (f : text -> outcome B) (g : text -> result B) :
  (forall kv, out_res (f kv) = Some (g kv)) ->
  out_res (obind (direct_parse_key_gen s K) (fun v => if teqb v [] then Exn ValueError else f v))
  = Some (rbind (need_key s K) g).
Proof.
  intro H. unfold need_key. pose proof (out_res_inv _ _ (direct_parse_key_bridge s K)) as B0.
  destruct (direct_parse_key_gen s K) as [v|[]|]; try contradiction; rewrite B0; cbn [obind rbind out_res]; try reflexivity.
  destruct v as [|c t]; [reflexivity|]. change (teqb (c :: t) []) with false. cbn iota. apply H.
Qed.

Lemma split_char_ne c s : split_char c s <> [].
Proof.
  destruct s as [|x t]; cbn [split_char]; [discriminate|]. destruct (x =? c); [discriminate|].
  unfold cons_hd. destruct (split_char c t); discriminate.
Qed.

Lemma seq_at_m1 {A} (l : list A) d : l <> [] -> seq_at l (-1) = Val (last l d).
Proof. intro H. rewrite (app_removelast_last d H) at 1. apply seq_at_last. Qed.

Lemma str_remove2 x : str_remove 93 (str_remove 91 x) = filter (fun c => negb ((c =? LBRACK) || (c =? RBRACK))) x.
Proof.
  unfold str_remove, LBRACK, RBRACK. induction x as [|c t IH]; cbn [filter]; [reflexivity|].
  destruct (c =? 91); cbn [negb orb filter]; [exact IH|]. destruct (c =? 93); cbn [negb]; rewrite IH; reflexivity.
Qed.

Lemma str_ints_cases l : (exists v, str_ints l = Val v) \/ str_ints l = Exn ValueError.
Proof.
  induction l as [|x t IH]; cbn [str_ints]; [left; eexists; reflexivity|].
  destruct (py_int x); [|right; reflexivity]. destruct IH as [[v ->]| ->]; cbn [obind]; [left; eexists; reflexivity|right; reflexivity].
Qed.

Lemma str_ints_two {B} l (f : Z -> Z -> outcome B) (g : Z -> Z -> result B) :
  (forall r c, out_res (f r c) = Some (g r c)) ->
  out_res (obind (str_ints l) (fun v => match v with [r; c] => f r c | _ => Exn ValueError end))
  = Some (match map py_int l with [Some r; Some c] => g r c | _ => RErr E_VALUE end).
Proof.
  intro H. destruct l as [|a [|b [|c l']]]; cbn [str_ints map].
  - reflexivity.
  - destruct (py_int a); reflexivity.
  - destruct (py_int a); [|reflexivity]. destruct (py_int b); cbn [obind]; [apply H|reflexivity].
  - destruct (py_int a); [|reflexivity]. destruct (py_int b); cbn [obind]; [|reflexivity].
    destruct (py_int c); cbn [obind]; [|reflexivity].
    destruct (str_ints_cases l') as [[v ->]| ->]; reflexivity.
Qed.

Lemma data_inner_eq df : str_slice df (str_find [91] df + 1) (str_len df - 1) = data_inner df.
Proof.
  unfold data_inner, str_find, LBRACK.
  set (start := match find_sub [91] df with Some i => S i | None => 0%nat end).
  replace (match find_sub [91] df with Some i => Z.of_nat i | None => -1 end + 1) with (Z.of_nat start)
    by (unfold start; destruct (find_sub [91] df); lia).
  unfold str_slice, norm_idx, str_len. set (n := length df).
  destruct (Z.ltb_spec (Z.of_nat start) 0); [lia|].
  destruct (Nat.le_gt_cases start n) as [Hs|Hs].
  - rewrite (Z.min_l (Z.of_nat start)) by lia. rewrite Nat2Z.id.
    destruct (Z.ltb_spec (Z.of_nat n - 1) 0).
    + f_equal. lia.
    + rewrite Z.min_l by lia. f_equal. lia.
  - rewrite (Z.min_r (Z.of_nat start)) by lia. rewrite Nat2Z.id. rewrite !skipn_all2 by (fold n; lia). rewrite !firstn_nil. reflexivity.
Qed.

Lemma print_Z_nat n : print_Z (Z.of_nat n) = print_nat n.
Proof. unfold print_Z. destruct (Z.ltb_spec (Z.of_nat n) 0); [lia|]. rewrite Nat2Z.id. reflexivity. Qed.

Lemma out_res_obind {A B} (o : outcome A) (r : result A) (f : A -> outcome B) (g : A -> result B) :
  out_res o = Some r -> (forall a, out_res (f a) = Some (g a)) -> out_res (obind o f) = Some (rbind r g).
Proof.
  intros H Hf. apply out_res_inv in H. destruct o as [a|[]|]; try contradiction; subst r; cbn [obind rbind out_res]; auto.
Qed.

Theorem direct_slice_data_bridge : forall s keep a,
  out_res (direct_slice_data_gen s keep (axis_text a)) = Some (direct_slice_data s keep a).
Proof.
  intros s keep a. unfold direct_slice_data_gen, direct_slice_data, K_SHAPE, K_DATA, K_MATRIX_TYPE.
  assert (IN : str_in (axis_text a) [[111; 98; 115; 101; 114; 118; 97; 116; 105; 111; 110]; [115; 97; 109; 112; 108; 101]] = true)
    by (destruct a; reflexivity).
  rewrite IN. cbn [negb]. cbv zeta.
  apply need_key_step. intro shape_kv. cbv beta. apply need_key_step. intro data_fields. cbv beta. apply need_key_step. intros _. cbv beta.
  rewrite (seq_at_m1 (split_char 58 shape_kv) ([] : text)) by apply split_char_ne. cbn [obind]. rewrite str_remove2. unfold COLON, COMMA, last_of.
  apply str_ints_two. intros n_rows n_cols. rewrite data_inner_eq.
  destruct keep as [|k ks]; [reflexivity|].
  unfold list_min. cbn [obind]. destruct (Z.ltb_spec (Z.of_nat (fold_right Nat.min k ks)) 0) as [H|_]; [lia|].
  set (keep := k :: ks).
  unfold list_max, nmax. change (match keep with [] => Exn ValueError | _ :: _ => Val (fold_right Nat.max 0%nat keep) end)
    with (@Val nat (fold_right Nat.max 0%nat keep)).
  destruct a; unfold axis_text.
  - change (teqb [111; 98; 115; 101; 114; 118; 97; 116; 105; 111; 110] [111; 98; 115; 101; 114; 118; 97; 116; 105; 111; 110]) with true. cbn iota. cbn [obind]. rewrite Z.geb_leb.
    destruct (n_rows <=? Z.of_nat (fold_right Nat.max 0%nat keep)); [reflexivity|].
    unfold str_len. rewrite print_Z_nat.
    apply (out_res_obind _ _ _ _ (slice_obs_bridge _ _)). intro new_data. reflexivity.
  - change (teqb [115; 97; 109; 112; 108; 101] [111; 98; 115; 101; 114; 118; 97; 116; 105; 111; 110]) with false. change (teqb [115; 97; 109; 112; 108; 101] [115; 97; 109; 112; 108; 101]) with true. cbn iota. cbn [obind]. rewrite Z.geb_leb.
    destruct (n_cols <=? Z.of_nat (fold_right Nat.max 0%nat keep)); [reflexivity|].
    unfold str_len. rewrite print_Z_nat.
    apply (out_res_obind _ _ _ _ (slice_samp_bridge _ _)). intro new_data. reflexivity.
Qed.
