(* Bridge for C05: util.index_list as tools/py2v regenerates it on every check (biom/util.py ->
   Gen/UtilGen.v) against the position map Table.pos of the models. *)
From Coq Require Import String List Arith ZArith Lia Bool.
From BiomV Require Import Base.Tree Base.ListUtil Base.Matrix Model.Table.
From BiomV Require Import Gen.Prelude Gen.UtilGen.
Import ListNotations.

(* ================================================================================================
   util.index_list: {id: position}.  A repeated id keeps its LAST position (the comprehension
   overwrites), Table.pos gives the first: they agree on lists without duplicates.                 *)
Lemma zdget_zdset_same {V} (d : zdict V) k v : zdget (zdset d k v) k = Some v.
Proof.
  induction d as [|[k' v'] d IH]; simpl.
  - rewrite Z.eqb_refl. reflexivity.
  - destruct (Z.eqb k k') eqn:E; simpl; [rewrite Z.eqb_refl; reflexivity|rewrite E; exact IH].
Qed.

Lemma zdget_zdset_other {V} (d : zdict V) k k2 v : k2 <> k -> zdget (zdset d k v) k2 = zdget d k2.
Proof.
  intros Hne. induction d as [|[k' v'] d IH]; simpl.
  - destruct (Z.eqb k2 k) eqn:E; [apply Z.eqb_eq in E; contradiction|reflexivity].
  - destruct (Z.eqb k k') eqn:E; simpl.
    + apply Z.eqb_eq in E. subst k'. destruct (Z.eqb k2 k) eqn:E2; [apply Z.eqb_eq in E2; contradiction|reflexivity].
    + destruct (Z.eqb k2 k'); [reflexivity|exact IH].
Qed.

Lemma index_fold l : forall s d x,
  NoDup l ->
  zdget (fold_left (fun d '(idx, id_) => zdset d id_ idx) (combine (seq s (length l)) l) d) x =
  match index_of Z.eqb x l with Some i => Some (s + i) | None => zdget d x end.
Proof.
  induction l as [|y l IH]; intros s d x Hn; [reflexivity|].
  inversion Hn as [|? ? Hy Hl]; subst. cbn [length seq combine fold_left index_of].
  rewrite IH by exact Hl. destruct (Z.eqb x y) eqn:E.
  - apply Z.eqb_eq in E. subst y.
    assert (N : index_of Z.eqb x l = None) by (apply index_of_Z_None; exact Hy).
    rewrite N. rewrite zdget_zdset_same. f_equal. lia.
  - destruct (index_of Z.eqb x l) as [i|]; simpl.
    + f_equal. lia.
    + apply zdget_zdset_other. intros ->. rewrite Z.eqb_refl in E. discriminate.
Qed.

Theorem index_list_bridge_partial l x : NoDup l -> zdget (index_list l) x = pos x l.
Proof.
  intros Hn. unfold index_list, pos. rewrite index_fold by exact Hn.
  destruct (index_of Z.eqb x l); reflexivity.
Qed.

Example index_list_dup_differs : zdget (index_list [5;5]%Z) 5%Z = Some 1 /\ pos 5%Z [5;5]%Z = Some 0.
Proof. vm_compute. split; reflexivity. Qed.

