(* Bridges between the Table methods tools/py2v_sum regenerates from biom/table.py
   (Gen/SummaryTableGen.v over Gen/SumPrelude.v, Gen/SumTablePrelude.v) and the hand model Model/Summary.v. *)
From Coq Require Import List Arith ZArith Lia Bool.
From BiomV Require Import Base.Tree Base.ListUtil Base.Matrix Model.Table Model.Sparse Model.Summary
                          Gen.SumPrelude Gen.SumTablePrelude Gen.SummaryTableGen.
Import ListNotations.

Lemma not_truth_size (l : list Z) : negb (z_truth (ids_size l)) = Nat.eqb (length l) 0.
Proof. destruct l; reflexivity. Qed.

Theorem is_empty_bridge : forall rt, is_empty rt = r_empty rt.
Proof.
  intro rt. unfold is_empty, r_empty, r_nsamp, r_nobs, tb_ids. rewrite !not_truth_size.
  destruct (Nat.eqb (length (r_sids rt)) 0 || Nat.eqb (length (r_oids rt)) 0); reflexivity.
Qed.

Theorem get_table_density_bridge : forall rt, get_table_density rt = r_density rt.
Proof.
  intro rt. unfold get_table_density, r_density. rewrite is_empty_bridge.
  destruct (r_empty rt); cbn [negb]; [reflexivity|].
  unfold q_div, tb_nnz, ids_size, tb_ids, r_nsamp, r_nobs. rewrite Nat2Z.inj_mul. reflexivity.
Qed.
