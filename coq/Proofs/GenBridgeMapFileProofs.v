(* Bridges between the generated Gen/MapFileGen.v (tools/py2v mapping-file mode, regenerated from
   MetadataMap.from_file of biom/parse.py on every check) and the hand-written mapping-file part of
   Model/Metadata.v (strip_f, map_step, row_dict, parse_mapping).  Restated as *_is_source at the
   end of Props/C18.v. *)
From Coq Require Import List Arith ZArith Lia Bool.
From BiomV Require Import Base.Tree Base.ListUtil Base.Matrix Model.Table Model.Tsv Model.Metadata
  Proofs.TsvProofs Proofs.MetadataProofs Gen.MapPrelude Gen.MapFileGen.
Import ListNotations.
Open Scope Z_scope.

(* ---- the four strip_f variants ---- *)
Lemma strip_f_bridge sq ss x : strip_f_gen sq ss x = strip_f sq ss x.
Proof. destruct sq, ss; reflexivity. Qed.

(* ---- vocabulary facts ---- *)
Lemma concat_repeat_single {A} (x : A) n : concat (repeat [x] n) = repeat x n.
Proof. induction n; simpl; congruence. Qed.
Lemma pad_lt (h l : list text) : (py_len l <? py_len h) = true ->
  l ++ py_times [[]] (py_len h - py_len l) = pad (length h) l.
Proof.
  intros _. unfold pad, py_times, py_len. rewrite concat_repeat_single. f_equal. f_equal. lia.
Qed.
Lemma pad_ge (h l : list text) : (py_len l <? py_len h) = false -> l = pad (length h) l.
Proof.
  unfold py_len, pad. intros H. apply Z.ltb_ge in H.
  replace (length h - length l)%nat with 0%nat by lia. simpl. rewrite app_nil_r. reflexivity.
Qed.
Lemma startswith_hash l : py_startswith [35] l = starts_hash l.
Proof. destruct l as [|c l]; [reflexivity|]. unfold py_startswith, starts_hash, HASH. rewrite andb_true_r. apply Z.eqb_sym. Qed.
Lemma from1_tl {A} (l : list A) : py_from 1 l = tl l.
Proof. destruct l; reflexivity. Qed.
Lemma item0_hd (l : list text) : py_item 0 l = hd [] l.
Proof. destruct l; reflexivity. Qed.
Lemma dict_set_aset d k v : dict_set d k v = aset d k v.
Proof.
  induction d as [|[k' v'] r IH]; simpl; [reflexivity|].
  destruct (text_eqb k k'); [reflexivity|rewrite IH; reflexivity].
Qed.
Lemma dict_set_notin {V} (d : list (text * V)) k v : ~ In k (map fst d) -> dict_set d k v = d ++ [(k, v)].
Proof.
  induction d as [|[k' v'] r IH]; simpl; intros H; [reflexivity|].
  destruct (text_eqb k k') eqn:E; [apply text_eqb_eq in E; subst; exfalso; apply H; left; reflexivity|].
  f_equal. apply IH. intros Hin. apply H. right. exact Hin.
Qed.

Lemma if_cong {A} (b b' : bool) (x y y' : A) :
  b = b' -> (b = false -> y = y') -> (if b then x else y) = (if b' then x else y').
Proof. intros <- H. destruct b; [reflexivity|apply H; reflexivity]. Qed.

(* ---- one turn of the loop over the lines: the generated state also carries `comments` ---- *)
Definition proj3 (st : list text * list (list text) * list text) : list text * list (list text) :=
  let '(h, md, _) := st in (h, md).

Lemma line_bridge sq ss st line :
  proj3 (from_file_line_gen sq ss st line) = map_step sq ss (proj3 st) line.
Proof.
  destruct st as [[h md] c]. unfold from_file_line_gen, map_step, proj3. cbv zeta.
  rewrite (map_ext _ _ (strip_f_bridge sq ss)). rewrite strip_f_bridge.
  rewrite startswith_hash, from1_tl.
  unfold py_empty, Metadata.is_nil, py_strip, py_split, TAB.
  destruct (strip_f sq ss line) as [|c0 L] eqn:EL; [reflexivity|]. cbn [orb].
  destruct (ss && match strip (c0 :: L) with [] => true | _ :: _ => false end); [reflexivity|].
  destruct (starts_hash (c0 :: L)).
  - destruct h; reflexivity.
  - rewrite ?Z.gtb_ltb.
    destruct (py_len (map (strip_f sq ss) (split_on 9 (c0 :: L))) <? py_len h) eqn:E.
    + rewrite (pad_lt _ _ E). reflexivity.
    + rewrite <- (pad_ge _ _ E). reflexivity.
Qed.

Lemma lines_bridge sq ss lines : forall st,
  proj3 (fold_left (from_file_line_gen sq ss) lines st) = fold_left (map_step sq ss) lines (proj3 st).
Proof.
  induction lines as [|l lines IH]; intros st; simpl; [reflexivity|].
  rewrite IH, line_bridge. reflexivity.
Qed.

(* ---- process_fns as the hand model has them: the column kinds of colopts ---- *)
Section Fns.
  Variable conv : Z -> text -> option Tree.
  Definition pf_of (o : colopts) : pfns :=
    fun k => if kind_of o k =? 0 then None else Some (process_col conv o k).

  Lemma col_bridge o d k v :
    from_file_col_gen (pf_of o) d (k, v) = aset d k (process_col conv o k v).
  Proof.
    unfold from_file_col_gen, py_getfn, pf_of.
    destruct (kind_of o k =? 0) eqn:E; rewrite dict_set_aset; [|reflexivity].
    apply Z.eqb_eq in E. unfold process_col. rewrite E. reflexivity.
  Qed.

  Lemma cols_bridge o cols : forall vals acc,
    fold_left (from_file_col_gen (pf_of o)) (combine cols vals) acc = row_dict conv o cols vals acc.
  Proof.
    induction cols as [|k cols IH]; intros vals acc; [reflexivity|].
    destruct vals as [|v vals]; [reflexivity|]. cbn [combine fold_left row_dict].
    rewrite col_bridge. apply IH.
  Qed.

  Lemma row_bridge o header m vals :
    from_file_row_gen header (pf_of o) m vals
    = dict_set m (hd [] vals) (row_dict conv o (tl header) (tl vals) []).
  Proof.
    unfold from_file_row_gen. cbv zeta. rewrite !from1_tl, item0_hd, cols_bridge. reflexivity.
  Qed.

  Lemma rows_bridge o header rows : forall acc,
    NoDup (map fst acc ++ map (fun r => hd [] r) rows) ->
    fold_left (from_file_row_gen header (pf_of o)) rows acc
    = acc ++ map (fun r => (hd [] r, row_dict conv o (tl header) (tl r) [])) rows.
  Proof.
    induction rows as [|r rows IH]; intros acc H; simpl; [rewrite app_nil_r; reflexivity|].
    simpl in H. rewrite row_bridge.
    assert (Hn : ~ In (hd [] r) (map fst acc)).
    { apply NoDup_remove_2 in H. intros Hin. apply H. apply in_or_app. left. exact Hin. }
    rewrite (dict_set_notin _ _ _ Hn). rewrite IH.
    - rewrite <- app_assoc. reflexivity.
    - rewrite map_app, <- app_assoc. simpl. exact H.
  Qed.

  (* ---- the whole method ---- *)
  Theorem from_file_bridge sq ss header0 o lines :
    from_file_gen lines sq ss header0 (pf_of o) = parse_mapping conv sq ss header0 o lines.
  Proof.
    unfold from_file_gen, parse_mapping. cbv zeta.
    replace (py_or_list header0 []) with header0 by (destruct header0; reflexivity).
    pose proof (lines_bridge sq ss lines (header0, [], [])) as B. simpl in B.
    destruct (fold_left (from_file_line_gen sq ss) lines (header0, [], [])) as [[h md] c].
    simpl in B. rewrite <- B.
    destruct h as [|h0 h]; [reflexivity|]. destruct md as [|r0 md]; [reflexivity|].
    cbn [py_empty Metadata.is_nil]. unfold py_has_dup.
    apply if_cong; [f_equal; apply map_ext, item0_hd|].
    intros D. rewrite (map_ext _ _ item0_hd) in D.
    f_equal. apply tdup_false_NoDup in D. rewrite rows_bridge; [reflexivity|exact D].
  Qed.
End Fns.

(* ---- why `vals[0]` / `i[0]` (py_item 0, total in the vocabulary) cannot raise IndexError: every row
   the loop over the lines stores is non-empty, because `str.split` never returns an empty list ---- *)
Definition row_ok (r : list text) : Prop := r <> [].
Lemma line_rows_nonempty sq ss h md c line h' md' c' :
  Forall row_ok md -> from_file_line_gen sq ss (h, md, c) line = (h', md', c') -> Forall row_ok md'.
Proof.
  intros Hmd. unfold from_file_line_gen. cbv zeta.
  assert (Hrow : forall pad, row_ok (map (strip_f_gen sq ss) (py_split 9 (strip_f_gen sq ss line)) ++ pad)).
  { intros pad E. apply app_eq_nil in E. destruct E as [E _]. apply map_eq_nil in E.
    exact (split_when_ne _ _ E). }
  repeat match goal with
  | |- context [if ?b then _ else _] => destruct b
  end; intros E; inversion E; subst; try exact Hmd;
  apply Forall_app; (split; [exact Hmd|]); constructor; try constructor;
  [apply Hrow | rewrite <- (app_nil_r (map _ _)); apply Hrow].
Qed.
Theorem from_file_rows_nonempty sq ss lines : forall h md c h' md' c',
  Forall row_ok md -> fold_left (from_file_line_gen sq ss) lines (h, md, c) = (h', md', c') -> Forall row_ok md'.
Proof.
  induction lines as [|l lines IH]; intros h md c h' md' c' Hmd E; cbn [fold_left] in E.
  - inversion E; subst; exact Hmd.
  - destruct (from_file_line_gen sq ss (h, md, c) l) as [[h1 md1] c1] eqn:E1.
    eapply IH; [|exact E]. eapply line_rows_nonempty; [exact Hmd|exact E1].
Qed.
