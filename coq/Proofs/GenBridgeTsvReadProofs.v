(* Bridge: the header search of the reader regenerated from biom/table.py (Gen/TsvReadGen.v,
   tools/py2v_tsv target tsvread) is find_header of Model/Tsv.v for every list of lines. *)
From Coq Require Import List Arith ZArith Lia Bool.
From BiomV Require Import Base.Tree Base.ListUtil Base.Matrix Model.Table Model.Tsv
  Gen.TsvPrelude Gen.TsvReadGen.
Import ListNotations.
Open Scope Z_scope.

Lemma blank_gen l : negb (text_true (strip l)) = blank l.
Proof. unfold blank. destruct (strip l); reflexivity. Qed.

Lemma header_loop_bridge : forall lines h i,
  exists i', extract_header_loop [TAB] lines h i 0%nat
             = ROk (fst (find_header lines h i), i', snd (find_header lines h i)).
Proof.
  induction lines as [|l rest IH]; intros h i.
  - exists i. reflexivity.
  - cbn [extract_header_loop find_header]. rewrite blank_gen.
    destruct (blank l); [apply IH|].
    destruct (starts_hash l); cbn [negb].
    + rewrite Nat.add_1_r. unfold str_split. apply IH.
    + change (hdr_true h) with (truthy h). destruct (truthy h); cbn [negb rbind].
      * exists i. reflexivity.
      * exists i. rewrite Nat.add_1_r. reflexivity.
Qed.

Theorem extract_header_gen_is_source : forall lines,
  exists i, extract_header lines [TAB]
            = ROk (fst (find_header lines None 0%nat), i, snd (find_header lines None 0%nat)).
Proof.
  intros lines. unfold extract_header.
  destruct (header_loop_bridge lines None 0%nat) as [i' E]. exists i'. rewrite E. reflexivity.
Qed.
