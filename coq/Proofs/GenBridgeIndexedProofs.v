(* Bridge for C05 (stored indices): Table._index_ids as tools/py2v regenerates it on every check
   (biom/table.py -> Gen/HelpersGen.v index_ids_gen; it calls the generated util.index_list of
   Gen/UtilGen.v) against the hand-written fresh / reindex of Model/Indexed.v.
     index_ids_gen obs_ids samp_ids observation_index sample_index = (_obs_index, _sample_index)
   fresh is the constructor's call _index_ids(None, None); reindex a src t' is the call
   _index_ids(self._obs_index.copy(), None) (a = Samp: the sample axis was filtered, the observation
   index is the copy handed in) resp. _index_ids(None, self._sample_index.copy()) (a = Obs); .copy()
   is the identity on values. *)
From Coq Require Import List Arith ZArith Bool.
From BiomV Require Import Base.Tree Base.ListUtil Base.Matrix Model.Table Model.Indexed.
From BiomV Require Import Gen.Prelude Gen.UtilGen Gen.HelpersGen.
Import ListNotations.

Theorem fresh_bridge t :
  fresh t = (let g := index_ids_gen (oids t) (sids t) None None in mkI t (fst g) (snd g)).
Proof. reflexivity. Qed.

Theorem reindex_obs_bridge src t' :
  reindex Obs src t' = (let g := index_ids_gen (oids t') (sids t') None (Some (six src)) in mkI t' (fst g) (snd g)).
Proof. reflexivity. Qed.

Theorem reindex_samp_bridge src t' :
  reindex Samp src t' = (let g := index_ids_gen (oids t') (sids t') (Some (oix src)) None in mkI t' (fst g) (snd g)).
Proof. reflexivity. Qed.
