(* proofs for C07 (a): the inplace pattern at the content level, for all tables *)
From Coq Require Import List Arith ZArith Bool.
From BiomV Require Import Base.Tree Base.ListUtil Base.Matrix Model.Table Model.Filter Model.Reorder
  Model.Inplace Proofs.ReorderProofs Proofs.FilterProofs.
Import ListNotations.

(* ---------------- (a) content level ---------------- *)
Theorem call_equiv core t :
  normal t -> result_content (call true core t) = result_content (call false core t).
Proof. intros N. unfold call. rewrite (copy_id t N). destruct (core t); reflexivity. Qed.

(* without the hypothesis: the non-in-place variant is the in-place one applied to the copy *)
Theorem call_new_is_inplace_on_copy core t :
  result_content (call false core t) = result_content (call true core (copy t)).
Proof. unfold call. destruct (core (copy t)); reflexivity. Qed.

Theorem call_inplace_self core t t' :
  core t = ROk t' -> call true core t = mkO t' RSelf.
Proof. intros H. unfold call. rewrite H. reflexivity. Qed.

Theorem call_inplace_refused core t c :
  core t = RErr c -> call true core t = mkO t (RRaise c).
Proof. intros H. unfold call. rewrite H. reflexivity. Qed.

Theorem call_new_keeps core t :
  recv_after (call false core t) = t /\ returned (call false core t) <> RSelf.
Proof. unfold call. destruct (core (copy t)); simpl; split; (reflexivity || discriminate). Qed.

Theorem update_ids_call_equiv m a strict t :
  normal t ->
  result_content (update_ids_call m a strict true t) = result_content (update_ids_call m a strict false t).
Proof.
  intros N. unfold update_ids_call. rewrite (update_ids_inplace_same m a strict t N).
  destruct (update_ids m a strict false t); reflexivity.
Qed.

Theorem update_ids_call_shape m a strict inplace t :
  (forall t', update_ids m a strict inplace t = ROk t' ->
     update_ids_call m a strict inplace t = if inplace then mkO t' RSelf else mkO t (RNew t')) /\
  (forall c, update_ids m a strict inplace t = RErr c -> update_ids_call m a strict inplace t = mkO t (RRaise c)).
Proof. unfold update_ids_call. split; intros x H; rewrite H; reflexivity. Qed.


(* ---------------- coherence of every outcome (used by C05) ---------------- *)
(* if the content operation keeps coherence, then after the call the receiver is coherent in every
   case (also when the call was refused) and so is whatever table is returned *)
Theorem call_wf inplace core t :
  (forall x x', wf x -> core x = ROk x' -> wf x') -> wf t ->
  wf (recv_after (call inplace core t)) /\
  (forall t', result_content (call inplace core t) = ROk t' -> wf t').
Proof.
  intros Hc W. unfold call. destruct inplace.
  - destruct (core t) as [t1|c] eqn:E; simpl; split; try exact W.
    + eapply Hc; eassumption.
    + intros t' H. inversion H; subst. eapply Hc; eassumption.
    + intros t' H. discriminate.
  - destruct (core (copy t)) as [t1|c] eqn:E; simpl; split; try exact W.
    + intros t' H. inversion H; subst. eapply Hc; [apply wf_copy; exact W|exact E].
    + intros t' H. discriminate.
Qed.

Theorem update_ids_call_wf m a strict inplace t :
  wf t ->
  wf (recv_after (update_ids_call m a strict inplace t)) /\
  (forall t', result_content (update_ids_call m a strict inplace t) = ROk t' -> wf t').
Proof.
  intros W. unfold update_ids_call. destruct (update_ids m a strict inplace t) as [t1|c] eqn:E.
  - pose proof (update_ids_wf _ _ _ _ _ _ W E) as W1. destruct inplace; simpl; split; try assumption;
      intros t' H; inversion H; subst; assumption.
  - simpl. split; [exact W|]. intros t' H. discriminate.
Qed.

Theorem filter_call_wf keep invert a inplace t :
  wf t -> wf (recv_after (filter_call keep invert a inplace t)) /\
  (forall t', result_content (filter_call keep invert a inplace t) = ROk t' -> wf t').
Proof.
  intros W. apply call_wf; [|exact W]. intros x x' Wx H. unfold filter_ids in H.
  destruct (forallb _ keep); [|discriminate]. inversion H; subst. apply wf_filter_table. exact Wx.
Qed.

Theorem remove_empty_call_wf axis3 inplace t :
  wf t -> wf (recv_after (remove_empty_call axis3 inplace t)) /\
  (forall t', result_content (remove_empty_call axis3 inplace t) = ROk t' -> wf t').
Proof.
  intros W. apply call_wf; [|exact W]. intros x x' Wx H. inversion H; subst.
  unfold remove_empty_core, remove_empty_whole, remove_empty_axis.
  destruct axis3 as [|p|p]; try destruct p; repeat apply wf_filter_table; exact Wx.
Qed.

(* ---------------- constructor-normal metadata is kept by the flag operations ---------------- *)
Lemma filter_table_normal mask a t : normal (filter_table mask a t).
Proof. split; unfold md_normal, filter_table, norm_md; simpl; apply ctor_md_idem. Qed.

Theorem call_normal inplace core t :
  (forall x x', normal x -> core x = ROk x' -> normal x') -> normal t ->
  normal (recv_after (call inplace core t)) /\
  (forall t', result_content (call inplace core t) = ROk t' -> normal t').
Proof.
  intros Hc N. unfold call. destruct inplace.
  - destruct (core t) as [t1|c] eqn:E; simpl; split; try exact N.
    + eapply Hc; eassumption.
    + intros t' H. inversion H; subst. eapply Hc; eassumption.
    + intros t' H. discriminate.
  - destruct (core (copy t)) as [t1|c] eqn:E; simpl; split; try exact N.
    + intros t' H. inversion H; subst. eapply Hc; [apply copy_normal|exact E].
    + intros t' H. discriminate.
Qed.
