(* C05: the STORED id -> position dictionaries (Model/Indexed.v) are maintained correctly by every
   operation, and the bookkeeping refines the content-level step of Model/Ops.v. *)
From Coq Require Import List Arith ZArith Lia Bool.
From BiomV Require Import Base.Tree Base.ListUtil Base.Matrix Model.Table Model.Orient Model.Filter Model.Reorder
  Model.Merge Model.Concat Model.Partition Model.Stored Model.Subsample Model.Transform Model.Ops Model.Indexed.
From BiomV Require Import Gen.Prelude Gen.UtilGen.
From BiomV Require Import Proofs.FilterProofs Proofs.ReorderProofs Proofs.PartitionProofs Proofs.OpsProofs
  Proofs.GenBridgeIndexProofs.
Import ListNotations.

(* ---- building and rebuilding ---- *)
Lemma fresh_ok t : NoDup (oids t) -> NoDup (sids t) -> ix_ok (fresh t).
Proof.
  intros Ho Hs a x. destruct a; simpl; apply index_list_bridge_partial; assumption.
Qed.

Lemma fresh_wf_ok t : wf t -> ix_ok (fresh t).
Proof. intros W. apply fresh_ok; [apply (wf_NoDup Obs t W)|apply (wf_NoDup Samp t W)]. Qed.

Lemma reindex_ok a src t' :
  ix_ok src -> ids (other a) t' = ids (other a) (body src) -> NoDup (ids a t') -> ix_ok (reindex a src t').
Proof.
  intros K E N b x. destruct a, b; simpl in *.
  - apply index_list_bridge_partial. exact N.
  - rewrite E. apply (K Samp x).
  - rewrite E. apply (K Obs x).
  - apply index_list_bridge_partial. exact N.
Qed.

Lemma keep_ix_ok src t' : ix_ok src -> oids t' = oids (body src) -> sids t' = sids (body src) -> ix_ok (keep_ix src t').
Proof. intros K Eo Es a x. destruct a; simpl; [rewrite Eo; apply (K Obs x)|rewrite Es; apply (K Samp x)]. Qed.

Lemma body_reindex a src t' : body (reindex a src t') = t'.
Proof. destruct a; reflexivity. Qed.

Lemma filter_table_other_ids mask a t : ids (other a) (filter_table mask a t) = ids (other a) t.
Proof. destruct a; reflexivity. Qed.

Lemma ifilter_table_body mask a it : body (ifilter_table mask a it) = filter_table mask a (body it).
Proof. apply body_reindex. Qed.

Lemma ifilter_table_ok mask a it : wf (body it) -> ix_ok it -> ix_ok (ifilter_table mask a it).
Proof.
  intros W K. unfold ifilter_table. apply reindex_ok; [exact K|apply filter_table_other_ids|].
  apply wf_NoDup. apply wf_filter_table. exact W.
Qed.

(* ---- the lookups of Table.filter in the stored index ---- *)
Lemma ix_lookup_all_spec d ids keep :
  (forall x, zdget d x = pos x ids) ->
  if forallb (fun x => zmem x ids) keep
  then exists idx, ix_lookup_all d keep = Some idx /\ Forall2 (fun k i => pos k ids = Some i) keep idx
  else ix_lookup_all d keep = None.
Proof.
  intros K. induction keep as [|k keep IH]; cbn [forallb ix_lookup_all].
  - exists []. split; [reflexivity|constructor].
  - rewrite K. destruct (zmem k ids) eqn:Ek; cbn [andb].
    + assert (Hin : In k ids) by (apply zmem_In; exact Ek).
      destruct (pos k ids) as [i|] eqn:Ep; [|apply pos_None in Ep; contradiction].
      destruct (forallb (fun x => zmem x ids) keep).
      * destruct IH as (idx & E & F). exists (i :: idx). rewrite E. split; [reflexivity|constructor; assumption].
      * rewrite IH. reflexivity.
    + assert (Hn : pos k ids = None) by (apply pos_None; intros Hin; apply zmem_In in Hin; congruence).
      rewrite Hn. reflexivity.
Qed.

Lemma map_seq_nth {A} (f : nat -> A) (g : Z -> A) (l : list Z) : forall s,
  (forall i, i < length l -> f (s + i) = g (nth i l 0%Z)) -> map f (seq s (length l)) = map g l.
Proof.
  induction l as [|y l IH]; intros s H; [reflexivity|].
  cbn [length seq map]. f_equal.
  - specialize (H 0 (Nat.lt_0_succ _)). rewrite Nat.add_0_r in H. exact H.
  - apply IH. intros i Hi. replace (S s + i) with (s + S i) by lia. apply (H (S i)). simpl. lia.
Qed.

Lemma put_hits ids keep idx i :
  NoDup ids -> i < length ids -> Forall2 (fun k j => pos k ids = Some j) keep idx ->
  existsb (Nat.eqb i) idx = zmem (nth i ids 0%Z) keep.
Proof.
  intros N Hi F. induction F as [|k j keep idx Hk F IH]; [reflexivity|].
  cbn [existsb]. unfold zmem in *. cbn [existsb]. rewrite IH. f_equal.
  destruct (Nat.eqb i j) eqn:E1.
  - apply Nat.eqb_eq in E1. subst j. apply pos_Some in Hk. destruct Hk as [Hk _]. rewrite Hk. symmetry. apply Z.eqb_refl.
  - destruct (Z.eqb (nth i ids 0%Z) k) eqn:E2; [|reflexivity].
    apply Z.eqb_eq in E2. subst k. rewrite (pos_nth_NoDup ids i N Hi) in Hk. inversion Hk; subst.
    rewrite Nat.eqb_refl in E1. discriminate.
Qed.

Lemma put_mask_is_membership ids keep idx invert :
  NoDup ids -> Forall2 (fun k j => pos k ids = Some j) keep idx ->
  put_mask (length ids) idx invert = map (fun x => xorb (zmem x keep) invert) ids.
Proof.
  intros N F. unfold put_mask. apply map_seq_nth. intros i Hi. cbn [Nat.add]. f_equal. apply put_hits; assumption.
Qed.

(* Table.filter with a list of ids, as the code computes it from the stored index, is filter_ids *)
Lemma ifilter_ids_refines keep invert a it :
  wf (body it) -> ix_ok it ->
  match ifilter_ids keep invert a it, filter_ids keep invert a (body it) with
  | ROk it', ROk t' => body it' = t' /\ it' = ifilter_table (map (fun x => xorb (zmem x keep) invert) (ids a (body it))) a it
  | RErr c, RErr c' => c = c'
  | _, _ => False
  end.
Proof.
  intros W K. unfold ifilter_ids, filter_ids.
  pose proof (ix_lookup_all_spec (ix a it) (ids a (body it)) keep (K a)) as S.
  destruct (forallb (fun x => zmem x (ids a (body it))) keep).
  - destruct S as (idx & E & F). rewrite E.
    rewrite (put_mask_is_membership _ _ _ invert (wf_NoDup a _ W) F).
    split; [apply ifilter_table_body|reflexivity].
  - rewrite S. reflexivity.
Qed.

(* ---- partition parts ---- *)
Lemma part_other_ids a t b : ids (other a) (orient a (part_rows (orient a t) b)) = ids (other a) t.
Proof. destruct a; reflexivity. Qed.

Lemma partition_false_true t a lab ign parts :
  partition_t t a lab ign false = ROk parts ->
  partition_t t a lab ign true = ROk (map (fun p => (fst p, remove_empty_whole (snd p))) parts).
Proof.
  unfold partition_t. destruct (lab_error lab); [discriminate|].
  intros H. inversion H; subst. f_equal. rewrite map_map. reflexivity.
Qed.

Lemma partition_false_err t a lab ign e re :
  partition_t t a lab ign false = RErr e -> partition_t t a lab ign re = RErr e.
Proof. unfold partition_t. destruct (lab_error lab); [intros H; exact H|discriminate]. Qed.

Lemma partition_part_other t a lab ign parts p :
  partition_t t a lab ign false = ROk parts -> In p parts -> ids (other a) (snd p) = ids (other a) t.
Proof.
  unfold partition_t. destruct (lab_error lab); [discriminate|].
  intros H Hp. inversion H; subst. apply in_map_iff in Hp. destruct Hp as (g & E & _). subst p.
  cbn [snd]. apply part_other_ids.
Qed.

Lemma iremove_empty_axis_body a it : body (iremove_empty_axis a it) = remove_empty_axis a (body it).
Proof. apply ifilter_table_body. Qed.

Lemma iremove_empty_whole_body it : body (iremove_empty_whole it) = remove_empty_whole (body it).
Proof.
  unfold iremove_empty_whole, remove_empty_whole. rewrite iremove_empty_axis_body, iremove_empty_axis_body. reflexivity.
Qed.

Lemma iremove_empty_axis_ok a it : wf (body it) -> ix_ok it -> ix_ok (iremove_empty_axis a it).
Proof. apply ifilter_table_ok. Qed.

Lemma iremove_empty_whole_ok it : wf (body it) -> ix_ok it -> ix_ok (iremove_empty_whole it).
Proof.
  intros W K. unfold iremove_empty_whole. apply iremove_empty_axis_ok.
  - rewrite iremove_empty_axis_body. unfold remove_empty_axis. apply wf_filter_table. exact W.
  - apply iremove_empty_axis_ok; assumption.
Qed.

(* ---- one step: refinement of Ops.step, and the stored dictionaries stay right ---- *)
Lemma via_ctor_refines it tc :
  (snd tc <> 0%Z -> fst tc = body it) ->
  body (fst (via_ctor it tc)) = fst tc /\ snd (via_ctor it tc) = snd tc.
Proof.
  intros H. unfold via_ctor. destruct (Z.eqb (snd tc) 0) eqn:E; cbn [fst snd body fresh].
  - apply Z.eqb_eq in E. split; [reflexivity|symmetry; exact E].
  - split; [symmetry; apply H; intros E0; rewrite E0 in E; discriminate|reflexivity].
Qed.

Theorem istep_refines it o :
  wf (body it) -> ix_ok it ->
  body (fst (istep it o)) = fst (step (body it) o) /\ snd (istep it o) = snd (step (body it) o).
Proof.
  intros W K.
  assert (V : body (fst (via_ctor it (step (body it) o))) = fst (step (body it) o)
              /\ snd (via_ctor it (step (body it) o)) = snd (step (body it) o))
    by (apply via_ctor_refines; apply step_refused_unchanged).
  destruct o; try exact V; cbn [istep step].
  - pose proof (ifilter_ids_refines keep invert a it W K) as R.
    destruct (ifilter_ids keep invert a it) as [it'|c], (filter_ids keep invert a (body it)) as [t'|c'];
      try contradiction; cbn [iof_result of_result fst snd].
    + destruct R as [R _]. split; [exact R|reflexivity].
    + split; [reflexivity|exact R].
  - cbn [fst snd]. split; [|reflexivity]. rewrite ifilter_table_body. reflexivity.
  - cbn [fst snd]. split; [|reflexivity].
    destruct axis3 as [|[p|p|]|p]; cbv beta iota.
    + apply iremove_empty_axis_body.
    + apply iremove_empty_whole_body.
    + apply iremove_empty_whole_body.
    + apply iremove_empty_axis_body.
    + apply iremove_empty_whole_body.
  - unfold head. destruct ((n <=? 0)%Z || (m <=? 0)%Z); cbn [of_result fst snd]; [split; reflexivity|].
    split; [|reflexivity]. rewrite !ifilter_table_body. reflexivity.
  - destruct (set_md sel o s (body it)) as [t'|c]; cbn [of_result fst snd keep_ix body]; split; reflexivity.
  - destruct (set_mat m (body it)) as [t'|c]; cbn [of_result fst snd keep_ix body]; split; reflexivity.
  - destruct (partition_t (body it) a lab ignore_none false) as [parts|e] eqn:E.
    + destruct remove_empty.
      * rewrite (partition_false_true _ _ _ _ _ E). rewrite nth_error_map.
        destruct (nth_error parts k) as [p|]; cbn [option_map of_result fst snd]; [|split; reflexivity].
        split; [|reflexivity]. rewrite iremove_empty_whole_body, body_reindex. reflexivity.
      * rewrite E. destruct (nth_error parts k) as [p|]; cbn [of_result fst snd]; [|split; reflexivity].
        split; [apply body_reindex|reflexivity].
    + rewrite (partition_false_err _ _ _ _ _ remove_empty E). cbn [of_result fst snd]. split; reflexivity.
  - split; reflexivity.
Qed.

Lemma via_ctor_ok it tc : ix_ok it -> wf (fst tc) -> ix_ok (fst (via_ctor it tc)).
Proof.
  intros K W. unfold via_ctor. destruct (Z.eqb (snd tc) 0); cbn [fst]; [apply fresh_wf_ok; exact W|exact K].
Qed.

Theorem istep_ix_ok it o : wf (body it) -> ix_ok it -> ix_ok (fst (istep it o)).
Proof.
  intros W K.
  assert (V : ix_ok (fst (via_ctor it (step (body it) o)))) by (apply via_ctor_ok; [exact K|apply step_wf; exact W]).
  destruct o; try exact V; cbn [istep].
  - pose proof (ifilter_ids_refines keep invert a it W K) as R.
    destruct (ifilter_ids keep invert a it) as [it'|c], (filter_ids keep invert a (body it)) as [t'|c'];
      try contradiction; cbn [iof_result fst]; [|exact K].
    destruct R as [_ R]. rewrite R. apply ifilter_table_ok; assumption.
  - cbn [fst]. apply ifilter_table_ok; assumption.
  - cbn [fst]. destruct axis3 as [|[p|p|]|p]; cbv beta iota.
    + apply iremove_empty_axis_ok; assumption.
    + apply iremove_empty_whole_ok; assumption.
    + apply iremove_empty_whole_ok; assumption.
    + apply iremove_empty_axis_ok; assumption.
    + apply iremove_empty_whole_ok; assumption.
  - destruct ((n <=? 0)%Z || (m <=? 0)%Z); cbn [fst]; [exact K|].
    apply ifilter_table_ok; [rewrite ifilter_table_body; apply wf_filter_table; exact W|].
    apply ifilter_table_ok; assumption.
  - destruct (set_md sel o s (body it)) as [t'|c] eqn:E; cbn [fst]; [|exact K].
    apply keep_ix_ok; [exact K| |]; unfold set_md in E;
      destruct sel as [|[p|p|]|p]; repeat match type of E with (if ?b then _ else _) = _ => destruct b end;
      inversion E; reflexivity.
  - destruct (set_mat m (body it)) as [t'|c] eqn:E; cbn [fst]; [|exact K].
    unfold set_mat in E. destruct (Nat.eqb (length m) (nobs (body it)) && rectb (nsamp (body it)) m); [|discriminate].
    apply keep_ix_ok; [exact K| |]; inversion E; reflexivity.
  - destruct (partition_t (body it) a lab ignore_none false) as [parts|e] eqn:E; [|exact K].
    destruct (nth_error parts k) as [p|] eqn:N; cbn [fst]; [|exact K].
    assert (Hin : In p parts) by (eapply nth_error_In; exact N).
    assert (Wp : wf (snd p)).
    { pose proof (partition_wf _ _ _ _ _ _ W E) as F. rewrite Forall_forall in F. apply F. exact Hin. }
    assert (Kp : ix_ok (reindex a it (snd p))).
    { apply reindex_ok; [exact K|eapply partition_part_other; eassumption|apply wf_NoDup; exact Wp]. }
    destruct remove_empty; [|exact Kp].
    apply iremove_empty_whole_ok; [rewrite body_reindex; exact Wp|exact Kp].
  - exact K.
  - exact K.
Qed.

(* ---- every reachable state ---- *)
Theorem irun_invariant ops : forall it, wf (body it) -> ix_ok it ->
  wf (body (irun it ops)) /\ ix_ok (irun it ops) /\ body (irun it ops) = run_ops (body it) ops.
Proof.
  unfold irun, run_ops. induction ops as [|o ops IH]; intros it W K; cbn [fold_left]; [split; [exact W|split; [exact K|reflexivity]]|].
  destruct (istep_refines it o W K) as [B _].
  assert (W1 : wf (body (fst (istep it o)))) by (rewrite B; apply step_wf; exact W).
  pose proof (istep_ix_ok it o W K) as K1.
  destruct (IH _ W1 K1) as (A1 & A2 & A3). split; [exact A1|split; [exact A2|]]. rewrite A3, B. reflexivity.
Qed.

(* the trace of the indexed model is the trace of the content model, and every state on it is coherent
   with correct stored dictionaries *)
Theorem itrace_refines ops : forall it, wf (body it) -> ix_ok it ->
  map (fun ci => (fst ci, body (snd ci))) (itrace it ops) = trace (body it) ops /\
  Forall (fun ci => wf (body (snd ci)) /\ ix_ok (snd ci)) (itrace it ops).
Proof.
  induction ops as [|o ops IH]; intros it W K; cbn [itrace trace map]; [split; [reflexivity|constructor]|].
  destruct (istep_refines it o W K) as [B C]. pose proof (istep_ix_ok it o W K) as K1.
  assert (W1 : wf (body (fst (istep it o)))) by (rewrite B; apply step_wf; exact W).
  destruct (istep it o) as [it1 c1]. destruct (step (body it) o) as [t1 c] eqn:E.
  cbn [fst snd] in *. subst t1 c1. cbn [map fst snd]. destruct (IH it1 W1 K1) as [A1 A2].
  split; [rewrite A1; reflexivity|constructor; [split; assumption|exact A2]].
Qed.

(* what a stored lookup answers in any reachable state *)
Theorem stored_lookup ops t a x : wf t ->
  let it := irun (fresh t) ops in
  zdget (ix a it) x = pos x (ids a (run_ops t ops)).
Proof.
  intros W it. destruct (irun_invariant ops (fresh t) W (fresh_wf_ok t W)) as (_ & K & B).
  subst it. rewrite (K a x), B. reflexivity.
Qed.

(* non-vacuity: a table whose sample index was reused across an observation filter *)
Example stored_ex :
  let t := mkT [10; 20; 30]%Z [1; 2]%Z [[1; 0]; [0; 0]; [0; 5]]%Z None None 0%Z in
  let it := irun (fresh t) [OFilterIds [30; 10]%Z false Obs; ORemoveEmpty 2%Z; OTranspose] in
  wf t /\ oix it = [(1%Z, 0); (2%Z, 1)] /\ six it = [(10%Z, 0); (30%Z, 1)] /\ oids (body it) = [1; 2]%Z.
Proof. vm_compute. repeat split; try reflexivity; repeat constructor; simpl; intuition discriminate. Qed.
