(* Bridges between hand-written model definitions (owned by the property builders, used by their
   theorems) and the definitions tools/py2v GENERATES from the source on every check (coq/Gen/).
   Each bridge is an equality for all inputs (or, where the hand model deliberately abstracts, the
   strongest relation that holds, named ..._partial).  A change of the source changes the generated
   text; the bridge then no longer checks, which breaks a named obligation of the property. *)
From Coq Require Import String List Arith ZArith Lia Bool.
From BiomV Require Import Base.Tree Base.ListUtil Base.Matrix Model.Table Model.Stored.
From BiomV Require Import Model.Transform Gen.TransformGen.
Import ListNotations.

(* ---------- small list facts ---------- *)
Lemma hd_skipn_nth {A} (l : list A) n d : hd d (skipn n l) = nth n l d.
Proof.
  revert l. induction n as [|n IH]; intros [|x l]; simpl; try reflexivity. apply IH.
Qed.

Lemma tl_skipn {A} (l : list A) n : tl (skipn n l) = skipn (S n) l.
Proof.
  revert l. induction n as [|n IH]; intros l.
  - destruct l; reflexivity.
  - destruct l as [|x l]; [reflexivity|]. change (skipn (S n) (x :: l)) with (skipn n l).
    rewrite IH. reflexivity.
Qed.

(* ================================================================================================
   T3  _transform.pyx  ->  Gen/TransformGen.v  (serves C13)
   The generated loop consumes the recorded results of the user function from the front of [outs]
   and appends to the call log; the hand model indexes [outs] by the vector number.  The metadata
   argument is the tuple the code normalises it to before the loop:
     if metadata is None: metadata = (None,) * len(ids)                                          *)
Definition md_tuple (md : option (list Tree)) (len : nat) : list (option Tree) :=
  match md with None => repeat None len | Some l => map Some l end.

Lemma kernel_md_nth md len i : kernel_md md i = nth i (md_tuple md len) None.
Proof.
  unfold kernel_md, md_tuple. destruct md as [l|].
  - revert i. induction l as [|x l IH]; intros [|i]; simpl; try reflexivity. apply IH.
  - revert i. induction len as [|len IH]; intros [|i]; simpl; try reflexivity. apply IH.
Qed.

Lemma transform_body_bridge indptr ids md len outs d c i :
  transform_body indptr ids (md_tuple md len) (d, skipn i outs, c) i =
  (fst (kernel_body indptr ids md outs (d, c) i), skipn (S i) outs, snd (kernel_body indptr ids md outs (d, c) i)).
Proof.
  unfold transform_body, kernel_body. cbv zeta. cbn [fst snd].
  rewrite hd_skipn_nth, tl_skipn, <- kernel_md_nth. reflexivity.
Qed.

Lemma transform_fold_bridge indptr ids md len outs k : forall a d c,
  fold_left (transform_body indptr ids (md_tuple md len)) (seq a k) (d, skipn a outs, c) =
  (fst (fold_left (kernel_body indptr ids md outs) (seq a k) (d, c)), skipn (a + k) outs,
   snd (fold_left (kernel_body indptr ids md outs) (seq a k) (d, c))).
Proof.
  induction k as [|k IH]; intros a d c.
  - simpl. rewrite Nat.add_0_r. reflexivity.
  - cbn [seq fold_left]. rewrite transform_body_bridge.
    destruct (kernel_body indptr ids md outs (d, c) a) as [d1 c1] eqn:E. cbn [fst snd].
    rewrite IH. replace (S a + k) with (a + S k) by lia. reflexivity.
Qed.

(* the hand-written kernel IS the loop of the source *)
Theorem transform_kernel_bridge n indptr ids md len outs data :
  kernel n indptr ids md outs data =
  (let '(d, _, c) := transform_loop n indptr ids (md_tuple md len) data outs [] in (d, c)).
Proof.
  unfold kernel, transform_loop.
  pose proof (transform_fold_bridge indptr ids md len outs n 0 data []) as H. simpl skipn in H.
  rewrite H. destruct (fold_left _ _ (data, [])). reflexivity.
Qed.
