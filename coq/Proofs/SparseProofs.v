(* Theorems about the compressed-sparse representation (Model/Sparse.v), for every
   well-formed representation: unsorted indices and stored zeros included.
     segs_of_segs        the array view built from segments has exactly those segments
     wf_of_segs / wf_segs  well-formedness, segment level <-> array level
     K6 eliminate_zeros_ok
     K5 swap_major_ok (tocsc_ok / tocsr_ok)
     wf_cs_wf_csb        the boolean check accepts every well-formed representation *)
From Coq Require Import List Arith ZArith Lia Bool.
From BiomV Require Import Base.ListUtil Base.Matrix Model.Sparse.
Import ListNotations.

(* ------------------------------------------------------------------ lists *)
Lemma In_firstn {A} n (l : list A) x : In x (firstn n l) -> In x l.
Proof.
  revert l; induction n as [|n IH]; intros [|y l] H; simpl in *; try contradiction.
  destruct H as [H|H]; [left; exact H|right; apply IH; exact H].
Qed.

Lemma In_skipn {A} n (l : list A) x : In x (skipn n l) -> In x l.
Proof.
  revert l; induction n as [|n IH]; intros [|y l] H; simpl in *; try contradiction; try exact H.
  right. apply IH. exact H.
Qed.

Lemma skipn_app_exact {A} (a b : list A) n : length a = n -> skipn n (a ++ b) = b.
Proof. intros <-. induction a as [|x a IH]; simpl; [reflexivity|exact IH]. Qed.

Lemma firstn_app_exact {A} (a b : list A) n : length a = n -> firstn n (a ++ b) = a.
Proof. intros <-. induction a as [|x a IH]; simpl; [reflexivity|f_equal; exact IH]. Qed.

Lemma combine_fst_snd {A B} (l : list (A * B)) : combine (map fst l) (map snd l) = l.
Proof. induction l as [|[a b] l IH]; simpl; [reflexivity|f_equal; exact IH]. Qed.

Lemma length_concat {A} (l : list (list A)) : length (concat l) = nsum (map (@length A) l).
Proof. induction l as [|x l IH]; simpl; [reflexivity|]. rewrite app_length, IH. reflexivity. Qed.

Lemma map_nth_seq {A B} (f : A -> B) (l : list A) d :
  map (fun i => f (nth i l d)) (seq 0 (length l)) = map f l.
Proof.
  induction l as [|x l IH]; simpl; [reflexivity|]. f_equal.
  rewrite <- seq_shift, map_map. exact IH.
Qed.

Lemma nth_map_seq {B} (f : nat -> B) n i d : i < n -> nth i (map f (seq 0 n)) d = f i.
Proof.
  intros Hi. rewrite (nth_indep _ d (f 0)) by (rewrite map_length, seq_length; exact Hi).
  rewrite (map_nth f). rewrite seq_nth by exact Hi. reflexivity.
Qed.

(* ------------------------------------------------------------------ offsets *)
Lemma offsets_length a ss : length (offsets a ss) = S (length ss).
Proof. revert a; induction ss as [|s t IH]; intros a; simpl; [reflexivity|]. rewrite IH. reflexivity. Qed.

Lemma offsets_head a ss : nth 0 (offsets a ss) 0 = a.
Proof. destruct ss; reflexivity. Qed.

Lemma offsets_last a ss : last (offsets a ss) 0 = a + length (concat ss).
Proof.
  revert a; induction ss as [|s t IH]; intros a; simpl; [lia|].
  destruct (offsets (a + length s) t) eqn:E.
  - destruct t; discriminate.
  - rewrite <- E, IH, app_length. lia.
Qed.

Lemma offsets_monotone a ss : monotone (offsets a ss).
Proof.
  revert a; induction ss as [|s t IH]; intros a; simpl; [exact I|].
  specialize (IH (a + length s)). destruct t as [|s' t']; simpl in *; (split; [lia|exact IH]).
Qed.

(* ------------------------------------------------------------------ segs (of_segs ss) = ss *)
Lemma segs_gen ss : forall a (pre : list entry), length pre = a ->
  map (fun i => firstn (nth (S i) (offsets a ss) 0 - nth i (offsets a ss) 0)
                       (skipn (nth i (offsets a ss) 0) (pre ++ concat ss)))
      (seq 0 (length ss)) = ss.
Proof.
  induction ss as [|s t IH]; intros a pre Hp; [reflexivity|].
  cbn [length seq map concat offsets]. f_equal.
  - cbn [nth]. rewrite offsets_head.
    rewrite skipn_app_exact by exact Hp.
    replace (a + length s - a) with (length s) by lia.
    apply firstn_app_exact. reflexivity.
  - rewrite <- seq_shift, map_map.
    specialize (IH (a + length s) (pre ++ s)).
    rewrite app_length, <- app_assoc in IH. specialize (IH ltac:(lia)).
    rewrite <- IH at 2. apply map_ext. intros i. reflexivity.
Qed.

Theorem segs_of_segs mn ss : segs (of_segs mn ss) = ss.
Proof.
  unfold segs, seg, entries, of_segs. cbn [major indptr indices data].
  rewrite combine_fst_snd. exact (segs_gen ss 0 [] eq_refl).
Qed.

Lemma segs_length r : length (segs r) = major r.
Proof. unfold segs. rewrite map_length, seq_length. reflexivity. Qed.

Lemma dense_of_of_segs mn ss : dense_of (of_segs mn ss) = dense_of_segs mn ss.
Proof. unfold dense_of. rewrite segs_of_segs. reflexivity. Qed.

Lemma data_of_segs_length mn ss : length (data (of_segs mn ss)) = nsum (map (@length entry) ss).
Proof. cbn [of_segs data]. rewrite map_length. apply length_concat. Qed.

(* ------------------------------------------------------------------ well-formedness *)
Theorem wf_of_segs mn ss : Forall (seg_ok mn) ss -> wf_cs (of_segs mn ss).
Proof.
  intros F. unfold wf_cs. rewrite segs_of_segs. cbn [of_segs major minor indptr indices data].
  split; [|split; [|split; [|split; [|split; [|split]]]]].
  - apply offsets_length.
  - apply offsets_head.
  - apply offsets_monotone.
  - rewrite offsets_last, map_length. reflexivity.
  - rewrite !map_length. reflexivity.
  - apply Forall_forall. intros j Hj. apply in_map_iff in Hj. destruct Hj as [e [<- He]].
    apply in_concat in He. destruct He as [s [Hs He]].
    rewrite Forall_forall in F. destruct (F s Hs) as [_ Fs]. rewrite Forall_forall in Fs. apply Fs. exact He.
  - eapply Forall_impl; [|exact F]. intros s [H _]. exact H.
Qed.

Lemma In_seg_entries r i e : In e (seg r i) -> In e (entries r).
Proof. unfold seg. intros H. apply In_firstn in H. apply In_skipn in H. exact H. Qed.

Theorem wf_segs r : wf_cs r -> Forall (seg_ok (minor r)) (segs r).
Proof.
  intros (_ & _ & _ & _ & _ & Hr & Hn). rewrite Forall_forall in *. intros s Hs. split.
  - apply Hn. exact Hs.
  - apply Forall_forall. intros e He. unfold segs in Hs. apply in_map_iff in Hs. destruct Hs as [i [<- _]].
    apply In_seg_entries in He. destruct e as [j v]. apply in_combine_l in He. apply Hr. exact He.
Qed.

Lemma seg_values r : forall s e, In s (segs r) -> In e s -> In (snd e) (data r).
Proof.
  intros s e Hs He. unfold segs in Hs. apply in_map_iff in Hs. destruct Hs as [i [<- _]].
  apply In_seg_entries in He. destruct e as [j v]. apply in_combine_r in He. exact He.
Qed.

(* ------------------------------------------------------------------ lookup *)
Lemma find_idx_None j s : ~ In j (map fst s) -> find_idx j s = None.
Proof.
  induction s as [|[k v] t IH]; simpl; intros H; [reflexivity|].
  destruct (Nat.eqb k j) eqn:E.
  - apply Nat.eqb_eq in E. exfalso. apply H. left. exact E.
  - apply IH. intros Hi. apply H. right. exact Hi.
Qed.

Lemma find_idx_app j a b :
  find_idx j (a ++ b) = match find_idx j a with Some v => Some v | None => find_idx j b end.
Proof.
  induction a as [|[k v] t IH]; simpl; [reflexivity|]. destruct (Nat.eqb k j); [reflexivity|exact IH].
Qed.

Lemma row_of_seg_length mn s : length (row_of_seg mn s) = mn.
Proof. unfold row_of_seg. rewrite map_length, seq_length. reflexivity. Qed.

Lemma dense_of_segs_rect mn ss : rect mn (dense_of_segs mn ss).
Proof.
  apply Forall_forall. intros r Hr. apply in_map_iff in Hr. destruct Hr as [s [<- _]]. apply row_of_seg_length.
Qed.

Lemma dense_of_rect r : rect (minor r) (dense_of r).
Proof. apply dense_of_segs_rect. Qed.

Lemma dense_of_length r : length (dense_of r) = major r.
Proof. unfold dense_of, dense_of_segs. rewrite map_length. apply segs_length. Qed.

(* ------------------------------------------------------------------ K6: eliminate_zeros *)
Lemma elim_seg_fst_incl s j : In j (map fst (elim_seg s)) -> In j (map fst s).
Proof.
  intros H. apply in_map_iff in H. destruct H as [e [<- He]]. apply filter_In in He. apply in_map. tauto.
Qed.

Lemma elim_seg_NoDup s : NoDup (map fst s) -> NoDup (map fst (elim_seg s)).
Proof.
  induction s as [|[k v] t IH]; simpl; intros H; [constructor|].
  inversion H as [|? ? Hk Ht]; subst. destruct (nzb v); simpl.
  - constructor; [|apply IH; exact Ht]. intros Hi. apply Hk. apply elim_seg_fst_incl. exact Hi.
  - apply IH. exact Ht.
Qed.

Lemma elim_seg_ok mn s : seg_ok mn s -> seg_ok mn (elim_seg s).
Proof.
  intros [Hn Hr]. split; [apply elim_seg_NoDup; exact Hn|].
  apply Forall_forall. intros e He. apply filter_In in He. rewrite Forall_forall in Hr. apply Hr. tauto.
Qed.

Lemma lookup_elim_seg s j : NoDup (map fst s) -> lookup j (elim_seg s) = lookup j s.
Proof.
  unfold lookup. induction s as [|[k v] t IH]; simpl; intros H; [reflexivity|].
  inversion H as [|? ? Hk Ht]; subst. destruct (nzb v) eqn:Ev; simpl.
  - destruct (Nat.eqb k j); [reflexivity|apply IH; exact Ht].
  - destruct (Nat.eqb k j) eqn:E.
    + apply Nat.eqb_eq in E. subst k.
      rewrite find_idx_None by (intros Hi; apply Hk; apply elim_seg_fst_incl; exact Hi).
      unfold nzb in Ev. apply negb_false_iff in Ev. apply Z.eqb_eq in Ev. congruence.
    + apply IH. exact Ht.
Qed.

Lemma row_elim_seg mn s : NoDup (map fst s) -> row_of_seg mn (elim_seg s) = row_of_seg mn s.
Proof. intros H. unfold row_of_seg. apply map_ext. intros j. apply lookup_elim_seg. exact H. Qed.

(* putting a value into a cell that was 0 changes the count by one if the value is not 0 *)
Lemma count_nz_ext (f g : nat -> Z) l : (forall j, In j l -> f j = g j) -> count_nz (map f l) = count_nz (map g l).
Proof. intros H. rewrite (map_ext_in f g l H). reflexivity. Qed.

Lemma count_nz_cons v l : count_nz (v :: l) = (if nzb v then 1 else 0) + count_nz l.
Proof. unfold count_nz, nzb. simpl. destruct (negb (Z.eqb v 0)); reflexivity. Qed.

Lemma count_nz_put (f : nat -> Z) k v : forall n start, start <= k < start + n -> f k = 0%Z ->
  count_nz (map (fun j => if Nat.eqb k j then v else f j) (seq start n))
  = count_nz (map f (seq start n)) + (if nzb v then 1 else 0).
Proof.
  induction n as [|n IH]; intros start Hk Hf; [lia|].
  cbn [seq map]. rewrite !count_nz_cons. destruct (Nat.eqb k start) eqn:E.
  - apply Nat.eqb_eq in E. subst start. rewrite Hf.
    replace (nzb 0) with false by reflexivity.
    rewrite (count_nz_ext (fun j => if Nat.eqb k j then v else f j) f).
    + lia.
    + intros j Hj. apply in_seq in Hj. destruct (Nat.eqb k j) eqn:E2; [apply Nat.eqb_eq in E2; lia|reflexivity].
  - apply Nat.eqb_neq in E. rewrite IH by (try lia; exact Hf). lia.
Qed.

Lemma count_seg mn s : seg_ok mn s -> count_nz (row_of_seg mn s) = length (elim_seg s).
Proof.
  intros [Hn Hr]. induction s as [|[k v] t IH].
  - unfold row_of_seg. cbn [elim_seg filter length].
    rewrite (count_nz_ext _ (fun _ => 0%Z)) by (intros; reflexivity).
    generalize (seq 0 mn). intros l. induction l; [reflexivity|exact IHl].
  - inversion Hn as [|? ? Hk Ht]; subst. inversion Hr as [|? ? Hv Hr']; subst. cbn [fst] in Hv.
    specialize (IH Ht Hr').
    unfold row_of_seg.
    rewrite (count_nz_ext _ (fun j => if Nat.eqb k j then v else lookup j t)).
    + rewrite count_nz_put.
      * unfold row_of_seg in IH. rewrite IH. cbn [elim_seg filter snd].
        fold (elim_seg t). destruct (nzb v); simpl; lia.
      * lia.
      * unfold lookup. rewrite find_idx_None; [reflexivity|exact Hk].
    + intros j _. unfold lookup. simpl. destruct (Nat.eqb k j); reflexivity.
Qed.

Lemma count_segs mn ss : Forall (seg_ok mn) ss ->
  nsum (map (@length entry) (map elim_seg ss)) = count_nonzero (dense_of_segs mn ss).
Proof.
  intros F. unfold count_nonzero, dense_of_segs. rewrite !map_map. f_equal.
  apply map_ext_in. intros s Hs. rewrite Forall_forall in F. symmetry. apply count_seg. apply F. exact Hs.
Qed.

Lemma elim_seg_id s : Forall (fun e => snd e <> 0%Z) s -> elim_seg s = s.
Proof.
  induction s as [|[k v] t IH]; intros H; [reflexivity|]. inversion H as [|? ? Hv Ht]; subst.
  cbn [elim_seg filter snd]. unfold nzb. cbn [snd] in Hv. apply Z.eqb_neq in Hv. rewrite Hv. simpl.
  f_equal. apply IH. exact Ht.
Qed.

Theorem eliminate_zeros_ok r : wf_cs r ->
  wf_cs (eliminate_zeros r)
  /\ major (eliminate_zeros r) = major r /\ minor (eliminate_zeros r) = minor r
  /\ dense_of (eliminate_zeros r) = dense_of r
  /\ no_stored_zero (eliminate_zeros r)
  /\ length (data (eliminate_zeros r)) = count_nonzero (dense_of r).
Proof.
  intros W. pose proof (wf_segs r W) as F. unfold eliminate_zeros.
  split; [|split; [|split; [|split; [|split]]]].
  - apply wf_of_segs. apply Forall_forall. intros s Hs. apply in_map_iff in Hs. destruct Hs as [s0 [<- Hs0]].
    apply elim_seg_ok. rewrite Forall_forall in F. apply F. exact Hs0.
  - cbn [of_segs major]. rewrite map_length. apply segs_length.
  - reflexivity.
  - rewrite dense_of_of_segs. unfold dense_of, dense_of_segs. rewrite map_map. apply map_ext_in.
    intros s Hs. apply row_elim_seg. rewrite Forall_forall in F. apply F. exact Hs.
  - unfold no_stored_zero. cbn [of_segs data]. apply Forall_forall. intros v Hv.
    apply in_map_iff in Hv. destruct Hv as [e [<- He]]. apply in_concat in He. destruct He as [s [Hs He]].
    apply in_map_iff in Hs. destruct Hs as [s0 [<- _]]. apply filter_In in He. destruct He as [_ He].
    unfold nzb in He. apply negb_true_iff in He. apply Z.eqb_neq in He. exact He.
  - rewrite data_of_segs_length. apply count_segs. exact F.
Qed.

(* ------------------------------------------------------------------ K5: swap_major (tocsc / tocsr) *)
Lemma find_tag i c s : find_idx i (tag i c s) = find_idx c s.
Proof.
  unfold tag. induction s as [|[k v] t IH]; simpl; [reflexivity|].
  destruct (Nat.eqb k c); simpl; [rewrite Nat.eqb_refl; reflexivity|exact IH].
Qed.

Lemma tag_fst k c s e : In e (tag k c s) -> fst e = k.
Proof. unfold tag. intros H. apply in_map_iff in H. destruct H as [x [<- _]]. reflexivity. Qed.

Lemma find_tag_other i k c s : i <> k -> find_idx i (tag k c s) = None.
Proof.
  intros H. apply find_idx_None. intros Hi. apply in_map_iff in Hi. destruct Hi as [e [He Hin]].
  apply tag_fst in Hin. congruence.
Qed.

Lemma bucket_from_ge c ss : forall k e, In e (bucket_from k c ss) -> k <= fst e < k + length ss.
Proof.
  induction ss as [|s t IH]; intros k e H; simpl in *; [contradiction|].
  apply in_app_or in H. destruct H as [H|H].
  - apply tag_fst in H. lia.
  - apply IH in H. lia.
Qed.

Lemma find_bucket_lt c ss k i : i < k -> find_idx i (bucket_from k c ss) = None.
Proof.
  intros H. apply find_idx_None. intros Hi. apply in_map_iff in Hi. destruct Hi as [e [He Hin]].
  apply bucket_from_ge in Hin. lia.
Qed.

Lemma find_bucket_from c ss : forall k i, k <= i ->
  find_idx i (bucket_from k c ss) = find_idx c (nth (i - k) ss []).
Proof.
  induction ss as [|s t IH]; intros k i Hk; simpl.
  - destruct (i - k); reflexivity.
  - rewrite find_idx_app. destruct (Nat.eq_dec i k) as [->|Hne].
    + rewrite find_tag. replace (k - k) with 0 by lia. cbn [nth].
      destruct (find_idx c s); [reflexivity|]. apply find_bucket_lt. lia.
    + rewrite find_tag_other by exact Hne. rewrite IH by lia.
      replace (i - k) with (S (i - S k)) by lia. reflexivity.
Qed.

Lemma lookup_bucket c ss i : lookup i (bucket c ss) = lookup c (nth i ss []).
Proof. unfold lookup, bucket. rewrite find_bucket_from by lia. rewrite Nat.sub_0_r. reflexivity. Qed.

Theorem dense_swap_segs mn ss :
  dense_of_segs (length ss) (swap_segs mn ss) = transpose mn (dense_of_segs mn ss).
Proof.
  unfold dense_of_segs, swap_segs, transpose. rewrite map_map. apply map_ext_in. intros c Hc.
  apply in_seq in Hc. unfold row_of_seg at 1.
  rewrite (map_ext _ (fun i => lookup c (nth i ss []))) by (intros i; apply lookup_bucket).
  rewrite (map_nth_seq (lookup c) ss []).
  unfold mcol. rewrite map_map. apply map_ext. intros s.
  unfold row_of_seg. symmetry. apply (nth_map_seq (fun j => lookup j s)). lia.
Qed.

Lemma filter_none c s : ~ In c (map fst s) -> filter (fun e : entry => Nat.eqb (fst e) c) s = [].
Proof.
  induction s as [|[k v] t IH]; simpl; intros H; [reflexivity|].
  destruct (Nat.eqb k c) eqn:E.
  - apply Nat.eqb_eq in E. exfalso. apply H. left. exact E.
  - apply IH. intros Hi. apply H. right. exact Hi.
Qed.

Lemma tag_nodup k c s : NoDup (map fst s) -> tag k c s = [] \/ exists v, tag k c s = [(k, v)].
Proof.
  unfold tag. induction s as [|[j v] t IH]; simpl; intros H; [left; reflexivity|].
  inversion H as [|? ? Hj Ht]; subst. destruct (Nat.eqb j c) eqn:E.
  - apply Nat.eqb_eq in E. subst j. right. exists v. simpl. rewrite filter_none by exact Hj. reflexivity.
  - apply IH. exact Ht.
Qed.

Lemma increasing_cons x l : (forall y, In y l -> x < y) -> increasing l -> increasing (x :: l).
Proof. intros H I. destruct l as [|y l]; [exact Logic.I|]. split; [apply H; left; reflexivity|exact I]. Qed.

Lemma increasing_lt_all l : forall x, increasing (x :: l) -> Forall (lt x) l.
Proof.
  induction l as [|y l IH]; intros x H; [constructor|]. destruct H as [Hxy Hl]. constructor; [exact Hxy|].
  specialize (IH y Hl). eapply Forall_impl; [|exact IH]. intros z Hz. lia.
Qed.

Lemma increasing_tail x l : increasing (x :: l) -> increasing l.
Proof. destruct l; [intros; exact I|intros [_ H]; exact H]. Qed.

Lemma increasing_NoDup l : increasing l -> NoDup l.
Proof.
  induction l as [|x l IH]; intros H; [constructor|]. constructor.
  - intros Hi. pose proof (increasing_lt_all l x H) as F. rewrite Forall_forall in F. specialize (F x Hi). lia.
  - apply IH. eapply increasing_tail. exact H.
Qed.

Lemma bucket_increasing c ss : Forall (fun s => NoDup (map fst s)) ss ->
  forall k, increasing (map fst (bucket_from k c ss)).
Proof.
  induction ss as [|s t IH]; intros F k; [exact I|]. inversion F as [|? ? Hs Ft]; subst.
  cbn [bucket_from]. rewrite map_app. specialize (IH Ft (S k)).
  destruct (tag_nodup k c s Hs) as [->|[v ->]]; [exact IH|].
  cbn [map fst app]. apply increasing_cons; [|exact IH].
  intros y Hy. apply in_map_iff in Hy. destruct Hy as [e [<- He]]. apply bucket_from_ge in He. lia.
Qed.

Lemma swap_segs_ok mn ss : Forall (fun s => NoDup (map fst s)) ss ->
  Forall (seg_ok (length ss)) (swap_segs mn ss) /\ Forall (fun s => increasing (map fst s)) (swap_segs mn ss).
Proof.
  intros F. unfold swap_segs. split; apply Forall_forall; intros s Hs; apply in_map_iff in Hs;
    destruct Hs as [c [<- _]]; unfold bucket.
  - split; [apply increasing_NoDup; apply bucket_increasing; exact F|].
    apply Forall_forall. intros e He. apply bucket_from_ge in He. destruct He as [_ He]. exact He.
  - apply bucket_increasing. exact F.
Qed.

Lemma bucket_values c ss : forall k e, In e (bucket_from k c ss) -> exists s e', In s ss /\ In e' s /\ snd e = snd e'.
Proof.
  induction ss as [|s t IH]; intros k e H; simpl in *; [contradiction|].
  apply in_app_or in H. destruct H as [H|H].
  - unfold tag in H. apply in_map_iff in H. destruct H as [e' [<- He']]. apply filter_In in He'.
    exists s, e'. repeat split; [left; reflexivity|tauto].
  - destruct (IH _ _ H) as [s' [e' [A [B C]]]]. exists s', e'. repeat split; [right; exact A|exact B|exact C].
Qed.

(* every stored entry lands in exactly one bucket: the conversion keeps the number of stored values *)
Lemma nsum_map_add {A} (f g : A -> nat) l : nsum (map (fun x => f x + g x) l) = nsum (map f l) + nsum (map g l).
Proof. induction l as [|x l IH]; simpl; [reflexivity|]. rewrite IH. lia. Qed.

Lemma count_one_bucket j : forall n start, start <= j < start + n ->
  nsum (map (fun c => if Nat.eqb j c then 1 else 0) (seq start n)) = 1.
Proof.
  induction n as [|n IH]; intros start H; [lia|]. cbn [seq map nsum fold_right].
  destruct (Nat.eqb j start) eqn:E.
  - apply Nat.eqb_eq in E. subst start.
    assert (Z0 : forall m s, j < s -> nsum (map (fun c => if Nat.eqb j c then 1 else 0) (seq s m)) = 0).
    { induction m as [|m IHm]; intros s Hs; [reflexivity|]. cbn [seq map nsum fold_right].
      destruct (Nat.eqb j s) eqn:E2; [apply Nat.eqb_eq in E2; lia|]. fold (nsum (map (fun c => if Nat.eqb j c then 1 else 0) (seq (S s) m))).
      rewrite IHm by lia. reflexivity. }
    fold (nsum (map (fun c => if Nat.eqb j c then 1 else 0) (seq (S j) n))). rewrite Z0 by lia. reflexivity.
  - apply Nat.eqb_neq in E. fold (nsum (map (fun c => if Nat.eqb j c then 1 else 0) (seq (S start) n))).
    rewrite IH by lia. reflexivity.
Qed.

Lemma tag_lengths mn s k : Forall (fun e => fst e < mn) s ->
  nsum (map (fun c => length (tag k c s)) (seq 0 mn)) = length s.
Proof.
  induction s as [|[j v] t IH]; intros F.
  - unfold tag. simpl. induction (seq 0 mn); [reflexivity|exact IHl].
  - inversion F as [|? ? Hj Ft]; subst. cbn [fst] in Hj.
    rewrite (map_ext _ (fun c => (if Nat.eqb j c then 1 else 0) + length (tag k c t))).
    + rewrite nsum_map_add, IH by exact Ft. rewrite count_one_bucket by lia. reflexivity.
    + intros c. unfold tag. cbn [filter fst]. destruct (Nat.eqb j c); reflexivity.
Qed.

Lemma swap_segs_total mn ss : Forall (Forall (fun e : entry => fst e < mn)) ss ->
  forall k, nsum (map (fun c => length (bucket_from k c ss)) (seq 0 mn)) = nsum (map (@length entry) ss).
Proof.
  induction ss as [|s t IH]; intros F k.
  - simpl. induction (seq 0 mn); [reflexivity|exact IHl].
  - inversion F as [|? ? Fs Ft]; subst. cbn [bucket_from map nsum fold_right].
    rewrite (map_ext _ (fun c => length (tag k c s) + length (bucket_from (S k) c t)))
      by (intros c; apply app_length).
    rewrite nsum_map_add, tag_lengths by exact Fs. rewrite IH by exact Ft. reflexivity.
Qed.

Theorem swap_major_ok r : wf_cs r ->
  wf_cs (swap_major r) /\ sorted_cs (swap_major r)
  /\ major (swap_major r) = minor r /\ minor (swap_major r) = major r
  /\ dense_of (swap_major r) = transpose (minor r) (dense_of r)
  /\ (no_stored_zero r -> no_stored_zero (swap_major r))
  /\ length (data (swap_major r)) = nsum (map (@length entry) (segs r)).
Proof.
  intros W. pose proof (wf_segs r W) as F.
  assert (Fn : Forall (fun s => NoDup (map fst s)) (segs r)) by (eapply Forall_impl; [|exact F]; intros s [H _]; exact H).
  destruct (swap_segs_ok (minor r) (segs r) Fn) as [Fok Finc]. rewrite segs_length in Fok.
  unfold swap_major. split; [|split; [|split; [|split; [|split; [|split]]]]].
  - apply wf_of_segs. exact Fok.
  - unfold sorted_cs. rewrite segs_of_segs. exact Finc.
  - cbn [of_segs major]. unfold swap_segs. rewrite map_length, seq_length. reflexivity.
  - reflexivity.
  - rewrite dense_of_of_segs. rewrite <- (segs_length r). apply dense_swap_segs.
  - intros Z. unfold no_stored_zero in *. cbn [of_segs data]. apply Forall_forall. intros v Hv.
    apply in_map_iff in Hv. destruct Hv as [e [<- He]]. apply in_concat in He. destruct He as [s [Hs He]].
    unfold swap_segs in Hs. apply in_map_iff in Hs. destruct Hs as [c [<- _]].
    destruct (bucket_values _ _ _ _ He) as [s' [e' [A [B ->]]]].
    rewrite Forall_forall in Z. apply Z. eapply seg_values; eassumption.
  - rewrite data_of_segs_length. unfold swap_segs. rewrite map_map. unfold bucket. apply swap_segs_total.
    eapply Forall_impl; [|exact F]. intros s [_ H]. exact H.
Qed.

Theorem tocsc_ok r : wf_cs r ->
  wf_cs (tocsc r) /\ sorted_cs (tocsc r) /\ dense_of (tocsc r) = transpose (minor r) (dense_of r).
Proof. intros W. destruct (swap_major_ok r W) as (A & B & _ & _ & C & _). split; [exact A|split; [exact B|exact C]]. Qed.

Theorem tocsr_ok r : wf_cs r ->
  wf_cs (tocsr r) /\ sorted_cs (tocsr r) /\ dense_of (tocsr r) = transpose (minor r) (dense_of r).
Proof. exact (tocsc_ok r). Qed.

(* ------------------------------------------------------------------ counting through a transpose *)
Lemma count_nz_nth_seq row : count_nz (map (fun j => nth j row 0%Z) (seq 0 (length row))) = count_nz row.
Proof. f_equal. f_equal. rewrite (map_nth_seq (fun x => x) row 0%Z). apply map_id. Qed.

Lemma count_nonzero_transpose c m : rect c m -> count_nonzero (transpose c m) = count_nonzero m.
Proof.
  unfold count_nonzero, transpose. rewrite map_map. induction m as [|row m IH]; intros R.
  - simpl. induction (seq 0 c); [reflexivity|exact IHl].
  - inversion R as [|? ? Hrow Rm]; subst.
    rewrite (map_ext _ (fun j => (if nzb (nth j row 0%Z) then 1 else 0) + count_nz (mcol m j)))
      by (intros j; unfold mcol; cbn [map]; apply count_nz_cons).
    rewrite nsum_map_add, IH by exact Rm. cbn [map nsum fold_right]. f_equal.
    rewrite <- count_nz_nth_seq. generalize (seq 0 (length row)). intros l.
    induction l as [|j l IHl]; [reflexivity|]. cbn [map nsum fold_right]. rewrite count_nz_cons.
    fold (nsum (map (fun j0 => if nzb (nth j0 row 0%Z) then 1 else 0) l)). rewrite IHl. reflexivity.
Qed.

(* a representation without stored zeros stores exactly the non-zero cells (segment level) *)
Lemma stored_count_segs mn ss : Forall (seg_ok mn) ss -> Forall (Forall (fun e : entry => snd e <> 0%Z)) ss ->
  nsum (map (@length entry) ss) = count_nonzero (dense_of_segs mn ss).
Proof.
  intros F Z. rewrite <- count_segs by exact F. f_equal. rewrite map_map. apply map_ext_in.
  intros s Hs. rewrite Forall_forall in Z. rewrite elim_seg_id by (apply Z; exact Hs). reflexivity.
Qed.

(* ------------------------------------------------------------------ the boolean check *)
Lemma monotoneb_ok l : monotone l -> monotoneb l = true.
Proof.
  induction l as [|a t IH]; [reflexivity|]. destruct t as [|b t']; [reflexivity|].
  intros [Hab Ht]. cbn [monotoneb]. rewrite (proj2 (Nat.leb_le a b) Hab). apply IH. exact Ht.
Qed.

Lemma nmem_In x l : nmem x l = true <-> In x l.
Proof.
  unfold nmem. rewrite existsb_exists. split.
  - intros [y [Hy E]]. apply Nat.eqb_eq in E. subst. exact Hy.
  - intros H. exists x. split; [exact H|apply Nat.eqb_refl].
Qed.

Lemma ndup_NoDup l : NoDup l -> ndup l = false.
Proof.
  induction l as [|x t IH]; intros H; [reflexivity|]. inversion H as [|? ? Hx Ht]; subst. simpl.
  rewrite (IH Ht), orb_false_r. destruct (nmem x t) eqn:E; [|reflexivity]. apply nmem_In in E. contradiction.
Qed.

Theorem wf_cs_wf_csb r : wf_cs r -> wf_csb r = true.
Proof.
  intros (H1 & H2 & H3 & H4 & H5 & H6 & H7). unfold wf_csb.
  rewrite H1, H2, H4, H5, !Nat.eqb_refl, (monotoneb_ok _ H3). cbn [andb].
  apply andb_true_iff. split.
  - apply forallb_forall. intros j Hj. rewrite Forall_forall in H6. apply Nat.ltb_lt. apply H6. exact Hj.
  - apply forallb_forall. intros s Hs. rewrite Forall_forall in H7. rewrite (ndup_NoDup _ (H7 s Hs)). reflexivity.
Qed.

Lemma no_stored_zerob_ok r : no_stored_zero r -> no_stored_zerob r = true.
Proof.
  intros H. apply forallb_forall. intros v Hv. unfold no_stored_zero in H. rewrite Forall_forall in H.
  unfold nzb. apply negb_true_iff. apply Z.eqb_neq. apply H. exact Hv.
Qed.

Lemma increasingb_ok l : increasing l -> increasingb l = true.
Proof.
  induction l as [|a t IH]; [reflexivity|]. destruct t as [|b t']; [reflexivity|].
  intros [Hab Ht]. cbn [increasingb]. rewrite (proj2 (Nat.ltb_lt a b) Hab). apply IH. exact Ht.
Qed.

(* the boolean check is also sound (used to discharge wf_cs for concrete representations) *)
Lemma monotoneb_sound l : monotoneb l = true -> monotone l.
Proof.
  induction l as [|a t IH]; [intros; exact I|]. destruct t as [|b t']; [intros; exact I|].
  cbn [monotoneb monotone]. intros H. apply andb_true_iff in H. destruct H as [H1 H2].
  split; [apply Nat.leb_le; exact H1|apply IH; exact H2].
Qed.

Lemma ndup_sound l : ndup l = false -> NoDup l.
Proof.
  induction l as [|x t IH]; intros H; [constructor|]. cbn [ndup] in H. apply orb_false_iff in H. destruct H as [H1 H2].
  constructor; [|apply IH; exact H2]. intros Hi. apply nmem_In in Hi. congruence.
Qed.

Theorem wf_csb_wf_cs r : wf_csb r = true -> wf_cs r.
Proof.
  unfold wf_csb, wf_cs. intros H. repeat (apply andb_true_iff in H; destruct H as [H ?]).
  repeat match goal with
         | X : Nat.eqb _ _ = true |- _ => apply Nat.eqb_eq in X
         end.
  split; [assumption|]. split; [assumption|]. split; [apply monotoneb_sound; assumption|].
  split; [assumption|]. split; [assumption|]. split.
  - apply Forall_forall. intros j Hj.
    match goal with X : forallb (fun j => Nat.ltb j _) _ = true |- _ => rewrite forallb_forall in X; apply Nat.ltb_lt; apply X; exact Hj end.
  - apply Forall_forall. intros s Hs.
    match goal with X : forallb (fun s => negb (ndup _)) _ = true |- _ => rewrite forallb_forall in X; specialize (X s Hs);
      apply negb_true_iff in X; apply ndup_sound; exact X end.
Qed.

(* ------------------------------------------------------------------ sort_indices, of_dense *)
Lemma find_insert j e s : find_idx j (insert_entry e s) =
  if Nat.eqb (fst e) j then (if existsb (fun x => Nat.ltb (fst x) (fst e) && Nat.eqb (fst x) j) s then find_idx j s else Some (snd e))
  else find_idx j s.
Proof.
  destruct e as [k v]. cbn [fst snd]. induction s as [|[k' v'] t IH]; cbn [insert_entry find_idx existsb fst snd].
  - destruct (Nat.eqb k j); reflexivity.
  - destruct (Nat.leb k k') eqn:L; cbn [find_idx].
    + destruct (Nat.eqb k j) eqn:E; [|reflexivity].
      apply Nat.eqb_eq in E. subst j. apply Nat.leb_le in L.
      replace (Nat.ltb k' k) with false by (symmetry; apply Nat.ltb_ge; exact L). cbn [andb orb].
      (* no later entry with a smaller index and index k can exist: fst x < k and fst x = k is impossible *)
      assert (Z0 : forall l, existsb (fun x : entry => Nat.ltb (fst x) k && Nat.eqb (fst x) k) l = false).
      { induction l as [|x l IHl]; [reflexivity|]. cbn [existsb]. rewrite IHl, orb_false_r.
        destruct (Nat.eqb (fst x) k) eqn:E2; [apply Nat.eqb_eq in E2; rewrite E2, Nat.ltb_irrefl; reflexivity|apply andb_false_r]. }
      rewrite Z0. reflexivity.
    + rewrite IH. apply Nat.leb_gt in L. destruct (Nat.eqb k j) eqn:E.
      * apply Nat.eqb_eq in E. subst j. destruct (Nat.eqb k' k) eqn:E2; [apply Nat.eqb_eq in E2; lia|].
        rewrite andb_false_r. cbn [orb]. reflexivity.
      * reflexivity.
Qed.

Lemma insert_fst_In e s j : In j (map fst (insert_entry e s)) <-> j = fst e \/ In j (map fst s).
Proof.
  induction s as [|x t IH]; cbn [insert_entry map]; [simpl; intuition|].
  destruct (Nat.leb (fst e) (fst x)); cbn [map In]; [intuition|]. rewrite IH. cbn [map In]. intuition.
Qed.

Lemma find_insert_nodup j e s : ~ In (fst e) (map fst s) ->
  find_idx j (insert_entry e s) = if Nat.eqb (fst e) j then Some (snd e) else find_idx j s.
Proof.
  intros H. rewrite find_insert. destruct (Nat.eqb (fst e) j) eqn:E; [|reflexivity]. apply Nat.eqb_eq in E. subst j.
  match goal with |- (if ?c then _ else _) = _ => destruct c eqn:X end; [|reflexivity].
  exfalso. apply existsb_exists in X. destruct X as [x [Hx Hc]]. apply andb_true_iff in Hc. destruct Hc as [_ Hc].
  apply Nat.eqb_eq in Hc. apply H. rewrite <- Hc. apply in_map. exact Hx.
Qed.

Lemma sort_seg_fst_In s j : In j (map fst (sort_seg s)) <-> In j (map fst s).
Proof.
  induction s as [|e t IH]; [reflexivity|]. cbn [sort_seg fold_right]. fold (sort_seg t).
  rewrite insert_fst_In, IH. cbn [map In]. intuition.
Qed.

Lemma lookup_sort_seg s j : NoDup (map fst s) -> lookup j (sort_seg s) = lookup j s.
Proof.
  unfold lookup. induction s as [|[k v] t IH]; intros H; [reflexivity|]. inversion H as [|? ? Hk Ht]; subst.
  cbn [sort_seg fold_right]. fold (sort_seg t).
  rewrite find_insert_nodup by (cbn [fst]; intros Hi; apply Hk; apply sort_seg_fst_In; exact Hi).
  cbn [fst snd find_idx]. destruct (Nat.eqb k j); [reflexivity|apply IH; exact Ht].
Qed.

Lemma insert_increasing e s : increasing (map fst s) -> ~ In (fst e) (map fst s) ->
  increasing (map fst (insert_entry e s)).
Proof.
  induction s as [|x t IH]; intros Hs Hn; [exact I|]. cbn [insert_entry].
  destruct (Nat.leb (fst e) (fst x)) eqn:L.
  - apply Nat.leb_le in L. cbn [map]. split; [|exact Hs].
    assert (fst e <> fst x) by (intros E; apply Hn; left; symmetry; exact E). lia.
  - apply Nat.leb_gt in L. cbn [map]. apply increasing_cons.
    + intros y Hy. apply insert_fst_In in Hy. destruct Hy as [->|Hy]; [exact L|].
      pose proof (increasing_lt_all _ _ Hs) as F. rewrite Forall_forall in F. apply F. exact Hy.
    + apply IH; [eapply increasing_tail; exact Hs|]. intros Hi. apply Hn. right. exact Hi.
Qed.

Lemma sort_seg_increasing s : NoDup (map fst s) -> increasing (map fst (sort_seg s)).
Proof.
  induction s as [|e t IH]; intros H; [exact I|]. inversion H as [|? ? He Ht]; subst.
  cbn [sort_seg fold_right]. fold (sort_seg t). apply insert_increasing; [apply IH; exact Ht|].
  intros Hi. apply He. apply sort_seg_fst_In. exact Hi.
Qed.

Lemma sort_seg_ok mn s : seg_ok mn s -> seg_ok mn (sort_seg s).
Proof.
  intros [Hn Hr]. split; [apply increasing_NoDup; apply sort_seg_increasing; exact Hn|].
  apply Forall_forall. intros e He. rewrite Forall_forall in Hr.
  assert (G : forall s e, In e (sort_seg s) -> In e s).
  { clear. induction s as [|x t IH]; intros e He; [contradiction|]. cbn [sort_seg fold_right] in He. fold (sort_seg t) in He.
    assert (I2 : forall s0, In e (insert_entry x s0) -> e = x \/ In e s0).
    { induction s0 as [|y t0 IH0]; cbn [insert_entry]; [simpl; intuition|].
      destruct (Nat.leb (fst x) (fst y)); cbn [In]; [intuition|]. intros [H|H]; [intuition|]. apply IH0 in H. intuition. }
    apply I2 in He. destruct He as [->|He]; [left; reflexivity|right; apply IH; exact He]. }
  apply Hr. apply G. exact He.
Qed.

Theorem sort_indices_ok r : wf_cs r ->
  wf_cs (sort_indices r) /\ sorted_cs (sort_indices r) /\ dense_of (sort_indices r) = dense_of r
  /\ major (sort_indices r) = major r /\ minor (sort_indices r) = minor r.
Proof.
  intros W. pose proof (wf_segs r W) as F. unfold sort_indices.
  split; [|split; [|split; [|split]]].
  - apply wf_of_segs. apply Forall_forall. intros s Hs. apply in_map_iff in Hs. destruct Hs as [s0 [<- Hs0]].
    apply sort_seg_ok. rewrite Forall_forall in F. apply F. exact Hs0.
  - unfold sorted_cs. rewrite segs_of_segs. apply Forall_forall. intros s Hs. apply in_map_iff in Hs.
    destruct Hs as [s0 [<- Hs0]]. apply sort_seg_increasing. rewrite Forall_forall in F. apply (F s0 Hs0).
  - rewrite dense_of_of_segs. unfold dense_of, dense_of_segs. rewrite map_map. apply map_ext_in. intros s Hs.
    unfold row_of_seg. apply map_ext. intros j. apply lookup_sort_seg. rewrite Forall_forall in F. apply (F s Hs).
  - cbn [of_segs major]. rewrite map_length. apply segs_length.
  - reflexivity.
Qed.

(* ------------------------------------------------------------------ arrays -> segments -> arrays *)
(* the consecutive slices cut by a list of offsets *)
Fixpoint slices {A} (p : list nat) (E : list A) : list (list A) :=
  match p with
  | a :: t => match t with [] => [] | b :: _ => firstn (b - a) (skipn a E) :: slices t E end
  | [] => []
  end.

Lemma segs_as_slices {A} (p : list nat) (E : list A) : forall n, length p = S n ->
  map (fun i => firstn (nth (S i) p 0 - nth i p 0) (skipn (nth i p 0) E)) (seq 0 n) = slices p E.
Proof.
  induction p as [|a t IH]; intros n H; [discriminate|]. destruct t as [|b t'].
  - cbn [length] in H. assert (n = 0) by lia. subst. reflexivity.
  - destruct n as [|n]; [cbn [length] in H; lia|]. cbn [seq map].
    change (slices (a :: b :: t') E) with (firstn (b - a) (skipn a E) :: slices (b :: t') E). f_equal.
    rewrite <- seq_shift, map_map. rewrite <- (IH n) by (cbn [length] in *; lia).
    apply map_ext. intros i. reflexivity.
Qed.

Lemma firstn_add {A} x y : forall L : list A, firstn (x + y) L = firstn x L ++ firstn y (skipn x L).
Proof.
  induction x as [|x IH]; intros L; [reflexivity|]. destruct L as [|h L]; cbn [Nat.add firstn skipn app].
  - rewrite firstn_nil. reflexivity.
  - f_equal. apply IH.
Qed.

Lemma skipn_add {A} x y : forall L : list A, skipn x (skipn y L) = skipn (x + y) L.
Proof.
  induction y as [|y IH]; intros L; [rewrite Nat.add_0_r; reflexivity|]. destruct L as [|h L].
  - rewrite !skipn_nil. reflexivity.
  - rewrite Nat.add_succ_r. cbn [skipn]. apply IH.
Qed.

Lemma firstn_skipn_join {A} (E : list A) a b c : a <= b -> b <= c ->
  firstn (b - a) (skipn a E) ++ firstn (c - b) (skipn b E) = firstn (c - a) (skipn a E).
Proof.
  intros Hab Hbc. replace (c - a) with ((b - a) + (c - b)) by lia. rewrite firstn_add. f_equal. f_equal.
  rewrite skipn_add. f_equal. lia.
Qed.

Lemma monotone_head_le_last p : forall a, monotone (a :: p) -> a <= last (a :: p) 0.
Proof.
  induction p as [|b t IH]; intros a H; [simpl; lia|]. destruct H as [Hab Ht]. specialize (IH b Ht).
  change (last (a :: b :: t) 0) with (last (b :: t) 0). lia.
Qed.

Lemma concat_slices {A} (E : list A) p : forall a, monotone (a :: p) ->
  concat (slices (a :: p) E) = firstn (last (a :: p) 0 - a) (skipn a E).
Proof.
  induction p as [|b t IH]; intros a H.
  - cbn [slices concat last]. rewrite Nat.sub_diag. reflexivity.
  - destruct H as [Hab Ht].
    change (slices (a :: b :: t) E) with (firstn (b - a) (skipn a E) :: slices (b :: t) E).
    cbn [concat]. rewrite (IH b Ht).
    change (last (a :: b :: t) 0) with (last (b :: t) 0).
    apply firstn_skipn_join; [exact Hab|apply monotone_head_le_last; exact Ht].
Qed.

Lemma segs_slices r : length (indptr r) = S (major r) -> segs r = slices (indptr r) (entries r).
Proof. intros H. rewrite <- (segs_as_slices (indptr r) (entries r) (major r) H). reflexivity. Qed.

(* the segments of a well-formed representation tile its arrays *)
Theorem concat_segs r : wf_cs r -> concat (segs r) = entries r.
Proof.
  intros (H1 & H2 & H3 & H4 & H5 & _). rewrite (segs_slices r H1).
  destruct (indptr r) as [|a p] eqn:E; [discriminate|]. cbn [nth] in H2. subst a.
  rewrite (concat_slices (entries r) p 0 H3). rewrite H4, Nat.sub_0_r. cbn [skipn].
  apply firstn_all2. unfold entries.
  etransitivity; [apply Nat.eq_le_incl; apply combine_length|]. lia.
Qed.

Lemma offsets_slices (E : list entry) p : forall a, monotone (a :: p) -> last (a :: p) 0 <= length E ->
  offsets a (slices (a :: p) E) = a :: p.
Proof.
  induction p as [|b t IH]; intros a H L; [reflexivity|]. destruct H as [Hab Ht].
  change (slices (a :: b :: t) E) with (firstn (b - a) (skipn a E) :: slices (b :: t) E).
  cbn [offsets]. f_equal.
  change (last (a :: b :: t) 0) with (last (b :: t) 0) in L.
  pose proof (monotone_head_le_last t b Ht) as Hb.
  rewrite firstn_length_le by (rewrite skipn_length; lia).
  replace (a + (b - a)) with b by lia. apply IH; assumption.
Qed.

Theorem of_segs_segs r : wf_cs r -> of_segs (minor r) (segs r) = r.
Proof.
  intros W. pose proof (concat_segs r W) as C. destruct W as (H1 & H2 & H3 & H4 & H5 & _).
  unfold of_segs. rewrite C, segs_length. unfold entries.
  assert (O : offsets 0 (segs r) = indptr r).
  { rewrite (segs_slices r H1).
    destruct (indptr r) as [|a p] eqn:E; [discriminate|]. cbn [nth] in H2. subst a.
    apply offsets_slices; [exact H3|]. rewrite H4. unfold entries.
    etransitivity; [|apply Nat.eq_le_incl; symmetry; apply combine_length]. lia. }
  rewrite O.
  assert (F : map fst (combine (indices r) (data r)) = indices r /\ map snd (combine (indices r) (data r)) = data r).
  { revert H5. generalize (indices r) (data r). induction l as [|x l IH]; intros [|y l0] H; cbn [length] in H; try lia; [split; reflexivity|].
    destruct (IH l0 ltac:(lia)) as [A B]. cbn [combine map fst snd]. rewrite A, B. split; reflexivity. }
  destruct F as [F1 F2]. rewrite F1, F2. destruct r; reflexivity.
Qed.

(* a representation without stored zeros stores exactly the non-zero cells (array level) *)
Theorem stored_count r : wf_cs r -> no_stored_zero r -> length (data r) = count_nonzero (dense_of r).
Proof.
  intros W Z. pose proof (wf_segs r W) as F. rewrite <- (of_segs_segs r W) at 1. rewrite data_of_segs_length.
  apply stored_count_segs; [exact F|]. apply Forall_forall. intros s Hs. apply Forall_forall. intros e He.
  unfold no_stored_zero in Z. rewrite Forall_forall in Z. apply Z. eapply seg_values; eassumption.
Qed.

(* ------------------------------------------------------------------ dense -> CSR *)
Lemma find_combine_seq row : forall start j,
  find_idx j (combine (seq start (length row)) row)
  = if Nat.leb start j && Nat.ltb j (start + length row) then Some (nth (j - start) row 0%Z) else None.
Proof.
  induction row as [|v t IH]; intros start j.
  - cbn [length seq combine find_idx]. rewrite Nat.add_0_r.
    destruct (Nat.leb_spec start j), (Nat.ltb_spec j start); try reflexivity; lia.
  - cbn [length seq combine find_idx]. destruct (Nat.eqb_spec start j) as [->|Hne].
    + rewrite Nat.leb_refl. replace (Nat.ltb j (j + S (length t))) with true by (symmetry; apply Nat.ltb_lt; lia).
      rewrite Nat.sub_diag. reflexivity.
    + rewrite IH. destruct (Nat.leb_spec (S start) j), (Nat.leb_spec start j), (Nat.ltb_spec j (S start + length t)),
        (Nat.ltb_spec j (start + S (length t))); cbn [andb]; try reflexivity; try lia.
      replace (j - start) with (S (j - S start)) by lia. reflexivity.
Qed.

Lemma seq_fst_combine (row : list Z) start : map fst (combine (seq start (length row)) row) = seq start (length row).
Proof. revert start. induction row as [|v t IH]; intros start; [reflexivity|]. cbn [length seq combine map fst]. rewrite IH. reflexivity. Qed.

Lemma row_seg_of_row row : row_of_seg (length row) (seg_of_row row) = row.
Proof.
  unfold row_of_seg, seg_of_row.
  rewrite (map_ext _ (fun j => lookup j (combine (seq 0 (length row)) row)))
    by (intros j; apply lookup_elim_seg; rewrite seq_fst_combine; apply seq_NoDup).
  transitivity (map (fun j => nth j row 0%Z) (seq 0 (length row))).
  - apply map_ext_in. intros j Hj. apply in_seq in Hj. unfold lookup. rewrite find_combine_seq.
    replace (Nat.leb 0 j) with true by reflexivity. replace (Nat.ltb j (0 + length row)) with true by (symmetry; apply Nat.ltb_lt; lia).
    cbn [andb]. rewrite Nat.sub_0_r. reflexivity.
  - rewrite (map_nth_seq (fun x => x) row 0%Z). apply map_id.
Qed.

Lemma seg_of_row_ok row : seg_ok (length row) (seg_of_row row) /\ increasing (map fst (seg_of_row row))
                          /\ Forall (fun e => snd e <> 0%Z) (seg_of_row row).
Proof.
  unfold seg_of_row. split; [|split].
  - apply elim_seg_ok. split; [rewrite seq_fst_combine; apply seq_NoDup|].
    apply Forall_forall. intros e He. assert (In (fst e) (map fst (combine (seq 0 (length row)) row))) by (apply in_map; exact He).
    rewrite seq_fst_combine in H. apply in_seq in H. lia.
  - assert (G : forall l : segment, increasing (map fst l) -> increasing (map fst (elim_seg l))).
    { induction l as [|[k v] t IH]; intros H; [exact I|]. cbn [elim_seg filter snd]. fold (elim_seg t).
      pose proof (IH (increasing_tail _ _ H)) as It. destruct (nzb v); [|exact It]. cbn [map fst]. apply increasing_cons; [|exact It].
      intros y Hy. apply elim_seg_fst_incl in Hy. pose proof (increasing_lt_all _ _ H) as F. rewrite Forall_forall in F. apply F. exact Hy. }
    apply G. rewrite seq_fst_combine. generalize 0. induction (length row) as [|n IH]; intros s; [exact I|].
    cbn [seq]. apply increasing_cons; [|apply IH]. intros y Hy. apply in_seq in Hy. lia.
  - apply Forall_forall. intros e He. apply filter_In in He. destruct He as [_ He]. unfold nzb in He.
    apply negb_true_iff in He. apply Z.eqb_neq in He. exact He.
Qed.

Theorem of_dense_ok c m : rect c m ->
  wf_cs (of_dense c m) /\ sorted_cs (of_dense c m) /\ no_stored_zero (of_dense c m)
  /\ dense_of (of_dense c m) = m /\ major (of_dense c m) = length m /\ minor (of_dense c m) = c.
Proof.
  intros R. unfold of_dense. unfold rect in R. rewrite Forall_forall in R.
  split; [|split; [|split; [|split; [|split]]]].
  - apply wf_of_segs. apply Forall_forall. intros s Hs. apply in_map_iff in Hs. destruct Hs as [row [<- Hr]].
    rewrite <- (R row Hr). apply seg_of_row_ok.
  - unfold sorted_cs. rewrite segs_of_segs. apply Forall_forall. intros s Hs. apply in_map_iff in Hs.
    destruct Hs as [row [<- Hr]]. apply seg_of_row_ok.
  - unfold no_stored_zero. cbn [of_segs data]. apply Forall_forall. intros v Hv. apply in_map_iff in Hv.
    destruct Hv as [e [<- He]]. apply in_concat in He. destruct He as [s [Hs He]]. apply in_map_iff in Hs.
    destruct Hs as [row [<- Hr]]. destruct (seg_of_row_ok row) as (_ & _ & Z). rewrite Forall_forall in Z. apply Z. exact He.
  - rewrite dense_of_of_segs. unfold dense_of_segs. rewrite map_map. rewrite <- (map_id m) at 2. apply map_ext_in.
    intros row Hr. rewrite <- (R row Hr). apply row_seg_of_row.
  - cbn [of_segs major]. apply map_length.
  - reflexivity.
Qed.
