(* Text layer of the JSON writer: every string written through json.dumps reads back as
   itself; a string interpolated raw between quotes reads back as itself iff it has no quote,
   no backslash and no control character. *)
From Coq Require Import String.
From Coq Require Import List Arith ZArith Lia Bool.
From BiomV Require Import Base.Tree Base.ListUtil Base.TreeStr Model.Table Model.Json.
Import ListNotations.
Open Scope Z_scope.

(* ------------------------------------------------------------------ hex digits *)
Lemma hexval_hexdigit n : 0 <= n < 16 -> hexval (hexdigit n) = Some n.
Proof.
  intros H. unfold hexdigit, hexval.
  destruct (n <? 10) eqn:E.
  - apply Z.ltb_lt in E.
    assert (A : (48 <=? 48 + n) = true) by (apply Z.leb_le; lia).
    assert (B : (48 + n <=? 57) = true) by (apply Z.leb_le; lia).
    rewrite A, B. cbn [andb]. f_equal. lia.
  - apply Z.ltb_ge in E.
    assert (A : (48 <=? 87 + n) && (87 + n <=? 57) = false).
    { apply andb_false_iff. right. apply Z.leb_gt. lia. }
    assert (B : (97 <=? 87 + n) = true) by (apply Z.leb_le; lia).
    assert (C : (87 + n <=? 102) = true) by (apply Z.leb_le; lia).
    rewrite A, B, C. cbn [andb]. f_equal. lia.
Qed.

Lemma take_hex4_hex4 n r : 0 <= n < 65536 -> take_hex4 (hex4 n ++ r) = Some (n, r).
Proof.
  intros H. unfold hex4. cbn [app take_hex4].
  assert (D1 : 0 <= n / 4096 < 16) by (split; [apply Z.div_pos; lia|apply Z.div_lt_upper_bound; lia]).
  assert (D2 : 0 <= (n / 256) mod 16 < 16) by (apply Z.mod_pos_bound; lia).
  assert (D3 : 0 <= (n / 16) mod 16 < 16) by (apply Z.mod_pos_bound; lia).
  assert (D4 : 0 <= n mod 16 < 16) by (apply Z.mod_pos_bound; lia).
  rewrite (hexval_hexdigit _ D1), (hexval_hexdigit _ D2), (hexval_hexdigit _ D3), (hexval_hexdigit _ D4).
  f_equal. f_equal.
  pose proof (Z.div_mod n 16 ltac:(lia)) as E1.
  pose proof (Z.div_mod (n / 16) 16 ltac:(lia)) as E2.
  pose proof (Z.div_mod (n / 16 / 16) 16 ltac:(lia)) as E3.
  rewrite (Z.div_div n 16 16) in E2, E3 by lia.
  rewrite (Z.div_div n (16 * 16) 16) in E3 by lia.
  change (16 * 16) with 256 in *. change (256 * 16) with 4096 in *.
  assert (M : (n / 4096) mod 16 = n / 4096) by (apply Z.mod_small; exact D1).
  lia.
Qed.

Lemma take_hex4_length t u r : take_hex4 t = Some (u, r) -> length t = (4 + length r)%nat.
Proof.
  unfold take_hex4. destruct t as [|a [|b [|c [|d r']]]]; try discriminate.
  destruct (hexval a), (hexval b), (hexval c), (hexval d); try discriminate.
  intros H. inversion H; subst. reflexivity.
Qed.

(* ------------------------------------------------------------------ one escaped character *)
Lemma lex_uesc f u rest acc :
  0 <= u < 65536 -> is_hi u = false ->
  lex_chars (S f) (uesc u ++ rest) acc = lex_chars f rest (u :: acc).
Proof.
  intros Hu Hh. unfold uesc. cbn [app lex_chars].
  change (92 =? 34) with false. change (92 =? 92) with true. change (117 =? 117) with true.
  cbn iota. rewrite take_hex4_hex4 by exact Hu. rewrite Hh. reflexivity.
Qed.

Lemma lex_escape_char c f rest acc :
  scalar c -> lex_chars (S f) (escape_char c ++ rest) acc = lex_chars f rest (c :: acc).
Proof.
  intros [Hr Hs]. unfold escape_char.
  destruct (c =? 34) eqn:E34; [apply Z.eqb_eq in E34; subst; reflexivity|].
  destruct (c =? 92) eqn:E92; [apply Z.eqb_eq in E92; subst; reflexivity|].
  destruct (c =? 10) eqn:E10; [apply Z.eqb_eq in E10; subst; reflexivity|].
  destruct (c =? 13) eqn:E13; [apply Z.eqb_eq in E13; subst; reflexivity|].
  destruct (c =? 9) eqn:E9; [apply Z.eqb_eq in E9; subst; reflexivity|].
  destruct (c =? 8) eqn:E8; [apply Z.eqb_eq in E8; subst; reflexivity|].
  destruct (c =? 12) eqn:E12; [apply Z.eqb_eq in E12; subst; reflexivity|].
  destruct ((32 <=? c) && (c <=? 126)) eqn:Ep.
  - apply andb_true_iff in Ep. destruct Ep as [P1 P2]. apply Z.leb_le in P1.
    cbn [app lex_chars]. rewrite E34, E92.
    assert (L : (c <? 32) = false) by (apply Z.ltb_ge; lia). rewrite L. reflexivity.
  - destruct (c <? 65536) eqn:Eb.
    + apply Z.ltb_lt in Eb. apply lex_uesc; [lia|].
      unfold is_hi. apply andb_false_iff.
      destruct (Z.leb_spec 55296 c); [right; apply Z.leb_gt; lia|left; reflexivity].
    + apply Z.ltb_ge in Eb.
      set (v := c - 65536).
      assert (Hv : 0 <= v < 1048576) by (unfold v; lia).
      assert (Q : 0 <= v / 1024 < 1024) by (split; [apply Z.div_pos; lia|apply Z.div_lt_upper_bound; lia]).
      assert (R : 0 <= v mod 1024 < 1024) by (apply Z.mod_pos_bound; lia).
      rewrite <- app_assoc. unfold uesc at 1. cbn [app lex_chars].
      change (92 =? 34) with false. change (92 =? 92) with true. change (117 =? 117) with true.
      cbn iota. rewrite take_hex4_hex4 by lia.
      assert (Hi : is_hi (55296 + v / 1024) = true).
      { unfold is_hi. apply andb_true_iff. split; apply Z.leb_le; lia. }
      rewrite Hi. unfold uesc. cbn [app].
      rewrite take_hex4_hex4 by lia.
      assert (Lo : is_lo (56320 + v mod 1024) = true).
      { unfold is_lo. apply andb_true_iff. split; apply Z.leb_le; lia. }
      rewrite Lo. f_equal. f_equal.
      pose proof (Z.div_mod v 1024 ltac:(lia)) as D. unfold v in *. lia.
Qed.

Lemma escape_char_nonempty c : (1 <= length (escape_char c))%nat.
Proof.
  unfold escape_char, uesc, hex4.
  repeat match goal with |- context [if ?b then _ else _] => destruct b end;
    cbn [length app]; lia.
Qed.

Lemma escape_length s : (length s <= length (escape s))%nat.
Proof.
  induction s as [|c t IH]; [apply Nat.le_refl|].
  unfold escape in *. cbn [flat_map]. rewrite app_length.
  pose proof (escape_char_nonempty c). cbn [length]. lia.
Qed.

Lemma lex_escape s : forall f rest acc,
  Forall scalar s -> (length s < f)%nat ->
  lex_chars f (escape s ++ 34 :: rest) acc = Some (rev acc ++ s, rest).
Proof.
  induction s as [|c t IH]; intros f rest acc Hs Hf.
  - destruct f as [|f]; [inversion Hf|]. cbn [escape flat_map app lex_chars].
    change (34 =? 34) with true. cbn iota. rewrite app_nil_r. reflexivity.
  - destruct f as [|f]; [inversion Hf|]. inversion Hs as [|? ? Hc Ht]; subst.
    unfold escape. cbn [flat_map]. rewrite <- app_assoc.
    rewrite lex_escape_char by exact Hc. fold (escape t).
    rewrite IH; [|exact Ht|cbn [length] in Hf; lia].
    cbn [rev]. rewrite <- app_assoc. reflexivity.
Qed.

(* C02 text layer: a string written through dumps (json.dumps, ensure_ascii) is a literal the
   JSON scanner reads back as exactly that string, whatever follows it; for every string of
   Unicode scalar values, whichever quotes, backslashes, control or non-BMP characters it has *)
Theorem string_literal_roundtrip s rest :
  Forall scalar s -> lex_string (dumps_str s ++ rest) = Some (s, rest).
Proof.
  intros Hs. unfold dumps_str, quote, lex_string. cbn [app].
  change (34 =? 34) with true. cbn iota.
  rewrite <- app_assoc. cbn [app].
  rewrite lex_escape; [reflexivity|exact Hs|].
  rewrite app_length. cbn [length]. pose proof (escape_length s). lia.
Qed.

(* without the hypothesis the statement is false: two lone surrogates that happen to be
   adjacent in a Python str come back as one astral character *)
Theorem string_literal_lone_surrogates_refuted :
  exists s, ~ Forall scalar s /\ lex_string (dumps_str s) <> Some (s, []).
Proof.
  exists [55357; 56832]. split.
  - intros H. inversion H as [|? ? [_ Hc] _]; subst. apply Hc. lia.
  - vm_compute. discriminate.
Qed.

(* ------------------------------------------------------------------ raw interpolation *)
Definition clean (c : Z) : Prop := c <> 34 /\ c <> 92 /\ 32 <= c.
Definition cleanb (c : Z) : bool := negb (c =? 34) && negb (c =? 92) && (32 <=? c).

Lemma cleanb_clean c : cleanb c = true <-> clean c.
Proof.
  unfold cleanb, clean. rewrite !andb_true_iff, !negb_true_iff, !Z.eqb_neq, Z.leb_le. tauto.
Qed.

Lemma lex_clean_prefix p : forall f t acc,
  Forall clean p -> lex_chars (length p + f) (p ++ t) acc = lex_chars f t (rev p ++ acc).
Proof.
  induction p as [|c p IH]; intros f t acc Hp; [reflexivity|].
  inversion Hp as [|? ? [C1 [C2 C3]] Hp']; subst.
  cbn [length plus app lex_chars].
  apply Z.eqb_neq in C1. apply Z.eqb_neq in C2. rewrite C1, C2.
  assert (L : (c <? 32) = false) by (apply Z.ltb_ge; lia). rewrite L.
  rewrite IH by exact Hp'. cbn [rev]. rewrite <- app_assoc. reflexivity.
Qed.

Lemma lex_bound f : forall t acc out rest,
  lex_chars f t acc = Some (out, rest) -> (length out + length rest + 1 <= length acc + length t)%nat.
Proof.
  induction f as [|f IH]; intros t acc out rest H; [discriminate|].
  cbn [lex_chars] in H. destruct t as [|c r]; [discriminate|].
  destruct (c =? 34).
  { inversion H; subst. rewrite rev_length. cbn [length]. lia. }
  destruct (c =? 92).
  2:{ destruct (c <? 32); [discriminate|]. apply IH in H. cbn [length] in *. lia. }
  destruct r as [|e r2]; [discriminate|].
  destruct (e =? 117).
  2:{ destruct (simple_escape e); [|discriminate]. apply IH in H. cbn [length] in *. lia. }
  destruct (take_hex4 r2) as [[u r3]|] eqn:T; [|discriminate].
  apply take_hex4_length in T.
  destruct (is_hi u).
  2:{ apply IH in H. cbn [length] in *. lia. }
  destruct r3 as [|x1 r3'].
  { apply IH in H. cbn [length] in *. lia. }
  destruct (Z.eq_dec x1 92) as [->|N1].
  2:{ assert (E : lex_chars f (x1 :: r3') (u :: acc) = Some (out, rest)).
      { destruct x1 as [|p|p]; try exact H.
        do 7 (destruct p as [p|p|]; try exact H). exfalso. apply N1. reflexivity. }
      apply IH in E. cbn [length] in *. lia. }
  destruct r3' as [|x2 r4].
  { apply IH in H. cbn [length] in *. lia. }
  destruct (Z.eq_dec x2 117) as [->|N2].
  2:{ assert (E : lex_chars f (92 :: x2 :: r4) (u :: acc) = Some (out, rest)).
      { destruct x2 as [|p|p]; try exact H.
        do 7 (destruct p as [p|p|]; try exact H). exfalso. apply N2. reflexivity. }
      apply IH in E. cbn [length] in *. lia. }
  destruct (take_hex4 r4) as [[u2 r5]|] eqn:T2; [|discriminate].
  apply take_hex4_length in T2.
  destruct (is_lo u2); apply IH in H; cbn [length] in *; lia.
Qed.

(* an escape sequence is always longer than the character it denotes *)
Lemma lex_backslash_bound f t acc out rest :
  lex_chars f (92 :: t) acc = Some (out, rest) -> (length out + length rest + 1 <= length acc + length t)%nat.
Proof.
  destruct f as [|f]; [discriminate|]. intros H. cbn [lex_chars] in H.
  change (92 =? 34) with false in H. change (92 =? 92) with true in H. cbn iota in H.
  destruct t as [|e r2]; [discriminate|].
  destruct (e =? 117).
  2:{ destruct (simple_escape e); [|discriminate]. apply lex_bound in H. cbn [length] in *. lia. }
  destruct (take_hex4 r2) as [[u r3]|] eqn:T; [|discriminate].
  apply take_hex4_length in T.
  assert (G : forall a, lex_chars f r3 (a :: acc) = Some (out, rest) ->
              (length out + length rest + 1 <= length acc + length (e :: r2))%nat).
  { intros a E. apply lex_bound in E. cbn [length] in *. lia. }
  destruct (is_hi u); [|exact (G _ H)].
  destruct r3 as [|x1 r3']; [exact (G _ H)|].
  destruct (Z.eq_dec x1 92) as [->|N1].
  2:{ apply (G u). destruct x1 as [|p|p]; try exact H.
      do 7 (destruct p as [p|p|]; try exact H). exfalso. apply N1. reflexivity. }
  destruct r3' as [|x2 r4]; [exact (G _ H)|].
  destruct (Z.eq_dec x2 117) as [->|N2].
  2:{ apply (G u). destruct x2 as [|p|p]; try exact H.
      do 7 (destruct p as [p|p|]; try exact H). exfalso. apply N2. reflexivity. }
  destruct (take_hex4 r4) as [[u2 r5]|] eqn:T2; [|discriminate].
  apply take_hex4_length in T2.
  destruct (is_lo u2); [|exact (G _ H)].
  apply lex_bound in H. cbn [length] in *. lia.
Qed.

Lemma first_unclean s :
  Forall clean s \/ exists p c q, s = p ++ c :: q /\ Forall clean p /\ ~ clean c.
Proof.
  induction s as [|c t IH]; [left; constructor|].
  destruct (cleanb c) eqn:E.
  - apply cleanb_clean in E. destruct IH as [IH|(p & d & q & -> & Hp & Hd)].
    + left. constructor; assumption.
    + right. exists (c :: p), d, q. split; [reflexivity|]. split; [constructor; assumption|exact Hd].
  - right. exists [], c, t. split; [reflexivity|]. split; [constructor|].
    intros H. apply cleanb_clean in H. congruence.
Qed.

(* C02 text layer: exactly the strings without a quote, a backslash or a control character
   survive being interpolated raw between two quotes.  This is why id, generated_by and type
   had to go through dumps, and what makes the remaining raw interpolations safe. *)
Theorem raw_literal_iff s rest :
  lex_string (raw_literal s ++ rest) = Some (s, rest) <-> Forall clean s.
Proof.
  unfold raw_literal, quote, lex_string. cbn [app]. change (34 =? 34) with true. cbn iota.
  rewrite <- app_assoc. cbn [app]. split.
  - intros H. destruct (first_unclean s) as [Hc|(p & c & q & -> & Hp & Hc)]; [exact Hc|]. exfalso.
    rewrite <- app_assoc in H. cbn [app] in H.
    replace (length (p ++ c :: q ++ 34 :: rest)) with (length p + length (c :: q ++ 34%Z :: rest))%nat in H
      by (rewrite app_length; reflexivity).
    rewrite lex_clean_prefix in H by exact Hp. rewrite app_nil_r in H.
    cbn [length lex_chars] in H.
    destruct (c =? 34) eqn:E34.
    { inversion H as [[H1 H2]]. rewrite rev_involutive in H1.
      assert (L : length p = length (p ++ c :: q)) by (rewrite <- H1; reflexivity).
      rewrite app_length in L. cbn [length] in L. lia. }
    destruct (c =? 92) eqn:E92.
    2:{ destruct (c <? 32) eqn:E32; [discriminate|].
        apply Hc. unfold clean. apply Z.eqb_neq in E34. apply Z.eqb_neq in E92. apply Z.ltb_ge in E32. tauto. }
    apply Z.eqb_eq in E92. subst c.
    assert (B : (length (p ++ 92%Z :: q) + length rest + 1 <= length (rev p) + length (q ++ 34%Z :: rest))%nat).
    { apply (lex_backslash_bound (S (length (q ++ 34%Z :: rest)))). cbn [lex_chars].
      change (92 =? 34) with false. change (92 =? 92) with true. cbn iota. exact H. }
    rewrite rev_length, !app_length in B. cbn [length] in B. lia.
  - intros Hc.
    replace (length (s ++ 34 :: rest)) with (length s + length (34%Z :: rest))%nat
      by (rewrite app_length; reflexivity).
    rewrite lex_clean_prefix by exact Hc. cbn [length lex_chars].
    change (34 =? 34) with true. cbn iota. rewrite app_nil_r, rev_involutive. reflexivity.
Qed.

(* the raw interpolations that remain in to_json: format, format_url (library constants) and
   the creation date (datetime.isoformat output) *)
Lemma forallb_clean s : forallb cleanb s = true -> Forall clean s.
Proof.
  intros H. apply Forall_forall. intros c Hc. apply cleanb_clean.
  rewrite forallb_forall in H. apply H. exact Hc.
Qed.

Theorem format_constants_raw_safe rest :
  lex_string (raw_literal FORMAT_1_0 ++ rest) = Some (FORMAT_1_0, rest)
  /\ lex_string (raw_literal FORMAT_URL ++ rest) = Some (FORMAT_URL, rest).
Proof. split; apply raw_literal_iff; apply forallb_clean; vm_compute; reflexivity. Qed.

(* digits and - : . + T : the alphabet of datetime.isoformat() *)
Definition DATE_ALPHABET : str := K "0123456789-:.+T".
Theorem isoformat_raw_safe s rest :
  Forall (fun c => In c DATE_ALPHABET) s -> lex_string (raw_literal s ++ rest) = Some (s, rest).
Proof.
  intros H. apply raw_literal_iff. eapply Forall_impl; [|exact H].
  intros c Hc. apply cleanb_clean.
  assert (A : forallb cleanb DATE_ALPHABET = true) by (vm_compute; reflexivity).
  rewrite forallb_forall in A. apply A. exact Hc.
Qed.

(* the defect the repair removed, kept as a theorem: a table id with a quote *)
Theorem raw_quote_refuted : exists s rest, lex_string (raw_literal s ++ rest) <> Some (s, rest).
Proof. exists (K "my ""id"""), []. vm_compute. discriminate. Qed.

Lemma string_literal_witness :
  Forall scalar [34; 92; 0; 31; 127; 233; 8232; 55295; 57344; 65535; 65536; 119070; 1114111]
  /\ dumps_str [34; 92; 10; 233; 119070] = K """\""\\\n\u00e9\ud834\udd1e""".
Proof.
  split; [|vm_compute; reflexivity].
  repeat (apply Forall_cons; [unfold scalar; lia|]). apply Forall_nil.
Qed.
