(* Bridge for C06 (renaming clause): the definition that tools/py2v_eq regenerates from
   Table.update_ids of biom/table.py on every run (Gen/UpdateIdsGen.v over the vocabulary of
   Gen/UpdPrelude.v) equals the hand-written model Model/Reorder.v update_ids, for all inputs and
   for every length function of the ids.  The source fills a fixed-width numpy text array whose
   width it computes first; the bridge also shows that this width is never too small (numpy would
   truncate silently), which the hand model had left implicit. *)
From Coq Require Import List Arith ZArith Lia Bool.
From BiomV Require Import Base.Tree Base.ListUtil Base.Matrix Model.Table Model.Orient Model.Reorder.
From BiomV Require Import Gen.UpdPrelude Gen.UpdateIdsGen.
Import ListNotations.

(* ------------------------------------------------------------------ lists *)
Lemma upd_app_here {A} (p : list A) j r v : upd (p ++ j :: r) (length p) v = p ++ v :: r.
Proof.
  unfold upd. rewrite firstn_app, Nat.sub_diag, firstn_all, skipn_app, skipn_all, Nat.sub_diag.
  cbn [firstn skipn app]. rewrite app_nil_r. reflexivity.
Qed.

Lemma le_fold_max n l : In n l -> n <= fold_right Nat.max 0 l.
Proof.
  induction l as [|x l IH]; cbn [In fold_right]; [tauto|]. intros [E|H]; [subst; lia|]. specialize (IH H). lia.
Qed.
Lemma list_maxd_0 l : list_maxd l 0 = fold_right Nat.max 0 l.
Proof. destruct l; reflexivity. Qed.

Lemma nodup_len_le (l : list Z) : length (nodup Z.eq_dec l) <= length l.
Proof. induction l as [|x l IH]; cbn [nodup length]; [lia|]. destruct (in_dec Z.eq_dec x l); cbn [length]; lia. Qed.

(* len(a) != len(set(a)) is the duplicate test *)
Lemma dup_test (l : list Z) : negb (Nat.eqb (length l) (length (nodup Z.eq_dec l))) = zdup l.
Proof.
  induction l as [|x l IH]; [reflexivity|]. cbn [nodup zdup]. destruct (in_dec Z.eq_dec x l) as [H|H].
  - apply zmem_In in H. rewrite H. cbn [orb]. pose proof (nodup_len_le l).
    destruct (Nat.eqb (length (x :: l)) (length (nodup Z.eq_dec l))) eqn:E; [|reflexivity].
    apply Nat.eqb_eq in E. cbn [length] in E. lia.
  - destruct (zmem x l) eqn:E; [apply zmem_In in E; contradiction|]. cbn [orb length Nat.eqb]. exact IH.
Qed.

(* ------------------------------------------------------------------ the dict *)
Lemma lookup_map_In m x v : lookup_map m x = Some v -> In v (map snd m).
Proof.
  induction m as [|[k w] m IH]; cbn [lookup_map map snd In]; [discriminate|].
  destruct (Z.eqb k x); [intros E; inversion E; auto|auto].
Qed.
Lemma dict_get_rename m x : dict_get m x x = rename m x.
Proof. reflexivity. Qed.

(* ------------------------------------------------------------------ the loop *)
Section Loop.
Variable len_of : Z -> nat.

Lemma loop_spec m a strict w : forall l p junk,
  length junk = length l ->
  (forall x, In x l -> strict = false \/ mapped m x = true -> len_of (rename m x) <= w) ->
  gen_update_ids_loop1 len_of m a strict (length p) (mkA w (p ++ junk)) l =
  if strict && negb (forallb (mapped m) l) then RErr E_TABLE else ROk (mkA w (p ++ map (rename m) l)).
Proof.
  induction l as [|x l IH]; intros p junk Hlen Hw.
  - destruct junk; [|discriminate]. cbn [gen_update_ids_loop1 forallb negb map]. rewrite andb_false_r. reflexivity.
  - destruct junk as [|j junk]; [discriminate|]. cbn [gen_update_ids_loop1 forallb map].
    unfold dict_mem. destruct (mapped m x) eqn:Em.
    + cbn [negb andb]. rewrite andb_false_r. cbn [andb].
      unfold np_store. cbn [aitems awidth]. rewrite app_length. cbn [length].
      replace (Nat.ltb (length p) (length p + S (length junk))) with true by (symmetry; apply Nat.ltb_lt; lia).
      rewrite dict_get_rename.
      assert (Hx : len_of (rename m x) <= w) by (apply Hw; [left; reflexivity|right; exact Em]).
      apply Nat.leb_le in Hx. rewrite Hx. cbn [rbind]. rewrite upd_app_here.
      replace (S (length p)) with (length (p ++ [rename m x])) by (rewrite app_length; cbn [length]; lia).
      replace (p ++ rename m x :: junk) with ((p ++ [rename m x]) ++ junk) by (rewrite <- app_assoc; reflexivity).
      rewrite IH.
      * rewrite <- app_assoc. reflexivity.
      * cbn [length] in Hlen. lia.
      * intros y Hy. apply Hw. right. exact Hy.
    + cbn [negb andb]. destruct strict; cbn [andb].
      * reflexivity.
      * unfold np_store. cbn [aitems awidth]. rewrite app_length. cbn [length].
        replace (Nat.ltb (length p) (length p + S (length junk))) with true by (symmetry; apply Nat.ltb_lt; lia).
        rewrite dict_get_rename.
        assert (Hx : len_of (rename m x) <= w) by (apply Hw; [left; reflexivity|left; reflexivity]).
        apply Nat.leb_le in Hx. rewrite Hx. cbn [rbind]. rewrite upd_app_here.
        replace (S (length p)) with (length (p ++ [rename m x])) by (rewrite app_length; cbn [length]; lia).
        replace (p ++ rename m x :: junk) with ((p ++ [rename m x]) ++ junk) by (rewrite <- app_assoc; reflexivity).
        rewrite IH.
        -- rewrite <- app_assoc. reflexivity.
        -- cbn [length] in Hlen. lia.
        -- intros y Hy. apply Hw. right. exact Hy.
Qed.

(* the width the source computes is enough for every id it stores *)
Lemma width_enough m strict l x :
  In x l -> strict = false \/ mapped m x = true ->
  len_of (rename m x) <=
  (if negb strict then Nat.max (list_maxd (map (fun v => len_of v) (dict_values m)) 0)
                                (list_maxd (map (fun i => len_of i) l) 0)
   else list_maxd (map (fun v => len_of v) (dict_values m)) 0).
Proof.
  intros Hin Hc. rewrite !list_maxd_0. unfold rename, mapped, dict_values in *.
  destruct (lookup_map m x) as [v|] eqn:E.
  - assert (H : len_of v <= fold_right Nat.max 0 (map (fun v => len_of v) (map snd m))).
    { apply le_fold_max. apply in_map. eapply lookup_map_In. exact E. }
    destruct (negb strict); lia.
  - destruct Hc as [Hs|Hm]; [|discriminate]. subst strict. cbn [negb].
    assert (H : len_of x <= fold_right Nat.max 0 (map (fun i => len_of i) l)).
    { apply le_fold_max. apply in_map. exact Hin. }
    lia.
Qed.

Lemma errcheck_pair t (inplace : bool) (self : table) :
  (_ <- py_errcheck t ;; ROk (t, if inplace then t else self)) =
  match errcheck t with ROk r => ROk (r, if inplace then r else self) | RErr c => RErr c end.
Proof.
  unfold py_errcheck, errcheck. destruct (zdup (oids t) || zdup (sids t)); reflexivity.
Qed.

Lemma update_ids_bridge : forall t m a strict inplace,
  gen_update_ids len_of t m a strict inplace =
  match update_ids m a strict inplace t with
  | ROk r => ROk (r, if inplace then r else t)
  | RErr c => RErr c
  end.
Proof.
  intros t m a strict inplace. unfold gen_update_ids, update_ids, new_ids, tb_ids, ids_size.
  set (w0 := list_maxd (map (fun v => len_of v) (dict_values m)) 0).
  assert (Hbind : forall (b : bool) (x y : nat) (k : nat -> result (table * table)),
            (r <- (if b then ROk x else ROk y) ;; k r) = k (if b then x else y))
    by (intros [|] ? ? ?; reflexivity).
  rewrite Hbind. clear Hbind.
  set (w := if negb strict then _ else w0).
  unfold np_zeros_str.
  pose proof (loop_spec m a strict w (ids a t) [] (repeat EMPTY_ID (length (ids a t)))) as HL.
  cbn [length app] in HL. rewrite HL; clear HL.
  2: apply repeat_length.
  2: { intros x Hin Hc. subst w w0. apply (width_enough m strict (ids a t) x Hin Hc). }
  destruct (strict && negb (forallb (mapped m) (ids a t))); cbn [rbind]; [reflexivity|].
  unfold arr_len, set_len, np_set. cbn [aitems].
  set (new := map (rename m) (ids a t)).
  destruct inplace.
  - rewrite dup_test. destruct (zdup new); cbn [rbind]; [reflexivity|].
    unfold tb_index_ids, tb_set_sample_ids, tb_set_observation_ids, axis_is_sample. cbn [aitems].
    destruct a; cbn [rbind]; apply (errcheck_pair _ true t).
  - cbn [rbind]. unfold tb_index_ids, tb_set_sample_ids, tb_set_observation_ids, axis_is_sample, tb_copy. cbn [aitems].
    destruct a; cbn [rbind]; apply (errcheck_pair _ false t).
Qed.
End Loop.
