(* Proofs for the text-level part of C14 (Model/Slicer.v). *)
From Coq Require Import List Arith ZArith Lia Bool.
From BiomV Require Import Base.Tree Base.ListUtil Model.Table Model.Slicer.
Import ListNotations.
Open Scope Z_scope.

Ltac zb := repeat match goal with
  | H : (_ =? _) = true |- _ => apply Z.eqb_eq in H
  | H : (_ =? _) = false |- _ => apply Z.eqb_neq in H
  | H : (_ <=? _) = true |- _ => apply Z.leb_le in H
  | H : (_ <=? _) = false |- _ => apply Z.leb_gt in H
  | H : (_ <? _) = true |- _ => apply Z.ltb_lt in H
  | H : (_ <? _) = false |- _ => apply Z.ltb_ge in H
  | H : _ && _ = true |- _ => apply andb_true_iff in H; destruct H
  | H : _ || _ = false |- _ => apply orb_false_iff in H; destruct H
  | H : negb _ = true |- _ => apply negb_true_iff in H
  | H : negb _ = false |- _ => apply negb_false_iff in H
  end.

(* ------------------------------------------------------------------ text equality, find *)
Lemma teqb_eq a b : teqb a b = true <-> a = b.
Proof. apply list_eqb_Z_eq. Qed.
Lemma teqb_refl a : teqb a a = true.
Proof. apply teqb_eq. reflexivity. Qed.

Lemma prefixb_app p rest : prefixb p (p ++ rest) = true.
Proof. induction p as [|a p IH]; simpl; [reflexivity|]. rewrite Z.eqb_refl. exact IH. Qed.

Lemma no_occ_beforeb_ok p s n : no_occ_beforeb p s n = true -> no_occ_before p s n.
Proof.
  revert s; induction n as [|n IH]; intros s H k Hk; [lia|].
  change (negb (prefixb p s) && match s with [] => true | _ :: t => no_occ_beforeb p t n end = true) in H.
  apply andb_true_iff in H. destruct H as [H1 H2]. apply negb_true_iff in H1.
  destruct s as [|x t].
  - rewrite skipn_nil. exact H1.
  - destruct k as [|k]; [exact H1|]. simpl. apply IH; [exact H2|lia].
Qed.

Lemma find_sub_unfold p s :
  find_sub p s = if prefixb p s then Some 0%nat else match s with [] => None | _ :: t => option_map S (find_sub p t) end.
Proof. destruct s; reflexivity. Qed.

Lemma find_sub_app p pre rest :
  no_occ_before p (pre ++ p ++ rest) (length pre) -> find_sub p (pre ++ p ++ rest) = Some (length pre).
Proof.
  induction pre as [|x pre IH]; intros H.
  - simpl app. rewrite find_sub_unfold, prefixb_app. reflexivity.
  - change ((x :: pre) ++ p ++ rest) with (x :: (pre ++ p ++ rest)) in *.
    rewrite find_sub_unfold.
    pose proof (H 0%nat ltac:(simpl; lia)) as H0. simpl skipn in H0. rewrite H0.
    rewrite IH; [reflexivity|]. intros k Hk. apply (H (S k)). simpl. lia.
Qed.

(* ------------------------------------------------------------------ split / strip *)
Lemma split_char_none c s : ~ In c s -> split_char c s = [s].
Proof.
  induction s as [|x t IH]; intros H; [reflexivity|]. simpl.
  destruct (x =? c) eqn:E; [zb; exfalso; apply H; left; exact E|].
  rewrite IH by (intros Hin; apply H; right; exact Hin). reflexivity.
Qed.

Lemma split_char_app c a b : ~ In c a -> split_char c (a ++ c :: b) = a :: split_char c b.
Proof.
  induction a as [|x t IH]; intros H; simpl.
  - rewrite Z.eqb_refl. reflexivity.
  - destruct (x =? c) eqn:E; [zb; exfalso; apply H; left; exact E|].
    rewrite IH by (intros Hin; apply H; right; exact Hin). reflexivity.
Qed.

Lemma split2_no_b a b s : ~ In b s -> split2 a b s = [s].
Proof.
  induction s as [|x t IH]; intros H; [reflexivity|].
  simpl. destruct t as [|y t']; [reflexivity|].
  assert (y =? b = false) as E by (apply Z.eqb_neq; intros E; apply H; right; left; exact E).
  rewrite E, andb_false_r. rewrite IH by (intros Hin; apply H; right; exact Hin). reflexivity.
Qed.

Lemma split2_app a b u rest : ~ In a u -> split2 a b (u ++ a :: b :: rest) = u :: split2 a b rest.
Proof.
  induction u as [|x t IH]; intros H.
  - simpl. rewrite !Z.eqb_refl. reflexivity.
  - assert (x =? a = false) as E by (apply Z.eqb_neq; intros E; apply H; left; exact E).
    assert (Ht : ~ In a t) by (intros Hin; apply H; right; exact Hin).
    specialize (IH Ht).
    change ((x :: t) ++ a :: b :: rest) with (x :: (t ++ a :: b :: rest)).
    unfold split2; fold split2.
    destruct (t ++ a :: b :: rest) as [|y t'] eqn:Et; [destruct t; discriminate|].
    rewrite E. cbn [andb]. rewrite IH. reflexivity.
Qed.

(* the last piece: a closing bracket followed by text without a comma *)
Lemma split2_last a b u w : a <> b -> ~ In a u -> ~ In b w -> split2 a b (u ++ a :: w) = [u ++ a :: w].
Proof.
  intros Hab. induction u as [|x t IH]; intros Hu Hw.
  - simpl. destruct w as [|y w']; [reflexivity|].
    assert (y =? b = false) as E by (apply Z.eqb_neq; intros E; apply Hw; left; exact E).
    rewrite E, andb_false_r. rewrite split2_no_b by exact Hw. reflexivity.
  - assert (x =? a = false) as E by (apply Z.eqb_neq; intros E; apply Hu; left; exact E).
    assert (Ht : ~ In a t) by (intros Hin; apply Hu; right; exact Hin).
    specialize (IH Ht Hw).
    change ((x :: t) ++ a :: w) with (x :: (t ++ a :: w)).
    unfold split2; fold split2.
    destruct (t ++ a :: w) as [|y t'] eqn:Et; [destruct t; discriminate|].
    rewrite E. cbn [andb]. rewrite IH. reflexivity.
Qed.

Lemma lstrip_app p pre x rest :
  Forall (fun c => p c = true) pre -> p x = false -> lstrip p (pre ++ x :: rest) = x :: rest.
Proof.
  intros F Hx. induction F as [|c pre Hc F IH]; simpl; [rewrite Hx; reflexivity|].
  rewrite Hc. exact IH.
Qed.

Lemma rstrip_all p w : Forall (fun c => p c = true) w -> rstrip p w = [].
Proof. intros F. induction F as [|c w Hc F IH]; simpl; [reflexivity|]. rewrite IH, Hc. reflexivity. Qed.

Lemma rstrip_app p body y post :
  p y = false -> Forall (fun c => p c = true) post -> rstrip p (body ++ y :: post) = body ++ [y].
Proof.
  intros Hy F. induction body as [|b body IH]; simpl.
  - rewrite (rstrip_all p post F), Hy. reflexivity.
  - rewrite IH. destruct (body ++ [y]) eqn:E; [destruct body; discriminate|reflexivity].
Qed.

(* stripping a text that starts and ends with characters outside the set *)
Lemma strip_core p pre x body y post :
  Forall (fun c => p c = true) pre -> Forall (fun c => p c = true) post -> p x = false -> p y = false ->
  strip p (pre ++ x :: body ++ y :: post) = x :: body ++ [y].
Proof.
  intros Fp Fq Hx Hy. unfold strip. rewrite lstrip_app by assumption.
  change (x :: body ++ y :: post) with ((x :: body) ++ y :: post).
  rewrite rstrip_app by assumption. reflexivity.
Qed.

(* ... and the one-token case *)
Lemma strip_token p pre tok post :
  Forall (fun c => p c = true) pre -> Forall (fun c => p c = true) post ->
  tok <> [] -> Forall (fun c => p c = false) tok -> strip p (pre ++ tok ++ post) = tok.
Proof.
  intros Fp Fq Hne Ft.
  destruct tok as [|x t]; [congruence|].
  destruct (exists_last (l := x :: t) ltac:(discriminate)) as [body [y E]].
  inversion Ft as [|? ? Hx Ft']; subst.
  assert (p y = false) as Hy.
  { rewrite Forall_forall in Ft. apply Ft. rewrite E. apply in_or_app. right. left. reflexivity. }
  destruct body as [|b body].
  - simpl in E. inversion E; subst. unfold strip. simpl app.
    rewrite lstrip_app by assumption. pose proof (rstrip_app p [] y post Hy Fq) as R. simpl in R. exact R.
  - simpl in E. inversion E; subst.
    replace (pre ++ (b :: body ++ [y]) ++ post) with (pre ++ b :: body ++ y :: post)
      by (simpl; rewrite <- app_assoc; reflexivity).
    apply strip_core; assumption.
Qed.

(* ------------------------------------------------------------------ decimal numbers *)
Lemma digits_fuel_length f n acc : (length acc <= length (digits_fuel f n acc))%nat.
Proof.
  revert n acc; induction f as [|f IH]; intros n acc; cbn [digits_fuel]; [lia|].
  destruct (Nat.eqb (n / 10) 0); [cbn [length]; lia|]. specialize (IH (n / 10)%nat (digit (n mod 10) :: acc)). cbn [length] in IH. lia.
Qed.

Lemma print_nat_nonempty n : print_nat n <> [].
Proof.
  unfold print_nat. cbn [digits_fuel]. destruct (Nat.eqb (n / 10) 0); [discriminate|].
  pose proof (digits_fuel_length n (n / 10) [digit (n mod 10)]) as H. intros E. rewrite E in H. cbn [length] in H. lia.
Qed.

Lemma digit_is_digit k : (k < 10)%nat -> is_digit (digit k) = true.
Proof. intros H. unfold is_digit, digit. apply andb_true_iff. split; apply Z.leb_le; lia. Qed.

Lemma digits_fuel_digits f n acc :
  Forall (fun c => is_digit c = true) acc -> Forall (fun c => is_digit c = true) (digits_fuel f n acc).
Proof.
  revert n acc; induction f as [|f IH]; intros n acc F; cbn [digits_fuel]; [exact F|].
  assert (Forall (fun c => is_digit c = true) (digit (n mod 10) :: acc)) as F'
    by (constructor; [apply digit_is_digit, Nat.mod_upper_bound; lia|exact F]).
  destruct (Nat.eqb (n / 10) 0); [exact F'|apply IH; exact F'].
Qed.

Lemma print_nat_digits n : Forall (fun c => is_digit c = true) (print_nat n).
Proof. apply digits_fuel_digits. constructor. Qed.

Lemma parse_digit a k acc : (k < 10)%nat ->
  parse_nat_from a (digit k :: acc) = parse_nat_from (10 * a + k)%nat acc.
Proof.
  intros H. unfold parse_nat_from. simpl. unfold digit.
  replace (Z.to_nat (48 + Z.of_nat k - 48)) with k by lia. reflexivity.
Qed.

Lemma digits_fuel_parse f : forall n acc, (n < f)%nat ->
  parse_nat_from 0 (digits_fuel f n acc) = parse_nat_from n acc.
Proof.
  induction f as [|f IH]; intros n acc H; [lia|]. cbn [digits_fuel].
  pose proof (Nat.div_mod n 10 ltac:(lia)) as DM.
  pose proof (Nat.mod_upper_bound n 10 ltac:(lia)) as MB.
  destruct (Nat.eqb (n / 10) 0) eqn:E.
  - apply Nat.eqb_eq in E. rewrite parse_digit by exact MB. f_equal. lia.
  - apply Nat.eqb_neq in E.
    assert (n / 10 < n)%nat by (apply Nat.div_lt; lia).
    rewrite IH by lia. rewrite parse_digit by exact MB. f_equal. lia.
Qed.

Lemma parse_print_nat n : parse_nat (print_nat n) = Some n.
Proof.
  unfold parse_nat. pose proof (print_nat_nonempty n) as Hne. pose proof (print_nat_digits n) as Hd.
  destruct (print_nat n) as [|c t] eqn:E; [congruence|].
  rewrite <- E in *.
  assert (forallb is_digit (print_nat n) = true) as Hf by (apply forallb_forall; rewrite Forall_forall in Hd; exact Hd).
  rewrite Hf. unfold print_nat. rewrite digits_fuel_parse by lia. reflexivity.
Qed.

Lemma print_nat_inj a b : print_nat a = print_nat b -> a = b.
Proof.
  intros H. pose proof (parse_print_nat a) as Ha. rewrite H, parse_print_nat in Ha. congruence.
Qed.

Lemma teqb_print_nat a b : teqb (print_nat a) (print_nat b) = Nat.eqb a b.
Proof.
  destruct (Nat.eqb a b) eqn:E.
  - apply Nat.eqb_eq in E. subst. apply teqb_refl.
  - apply Nat.eqb_neq in E. destruct (teqb (print_nat a) (print_nat b)) eqn:T; [|reflexivity].
    apply teqb_eq, print_nat_inj in T. contradiction.
Qed.

Lemma digit_chars c : is_digit c = true ->
  strip_set c = false /\ tok_char c = true /\ c <> COMMA /\ c <> RBRACK /\ c <> LBRACK /\ c <> QUOTE
  /\ is_open c = false /\ is_close c = false /\ is_blank c = false.
Proof.
  unfold is_digit, strip_set, tok_char, is_blank, is_open, is_close, COMMA, RBRACK, LBRACK, LBRACE, RBRACE, QUOTE, SP, NL, TAB.
  intros H. zb.
  repeat split; try lia;
    repeat match goal with |- context [?x =? ?y] => let E := fresh in destruct (x =? y) eqn:E; zb; try lia end; reflexivity.
Qed.

(* ------------------------------------------------------------------ sorted(set(to_keep)) and the lookup *)
From Coq Require Import Sorted.

Lemma nmem_In x l : nmem x l = true <-> In x l.
Proof.
  unfold nmem. rewrite existsb_exists. split.
  - intros [y [Hy E]]. apply Nat.eqb_eq in E. subst. exact Hy.
  - intros H. exists x. split; [exact H|apply Nat.eqb_refl].
Qed.

Lemma ninsert_In x l y : In y (ninsert x l) <-> y = x \/ In y l.
Proof.
  induction l as [|z t IH]; simpl; [intuition|].
  destruct (Nat.ltb x z) eqn:E1; [simpl; intuition|].
  destruct (Nat.eqb x z) eqn:E2.
  - apply Nat.eqb_eq in E2. subst. simpl. intuition.
  - simpl. rewrite IH. intuition.
Qed.

Lemma ninsert_sorted x l : StronglySorted lt l -> StronglySorted lt (ninsert x l).
Proof.
  induction l as [|z t IH]; intros HS; simpl; [repeat constructor|].
  inversion HS as [|? ? St Ft]; subst.
  destruct (Nat.ltb x z) eqn:E1.
  - apply Nat.ltb_lt in E1. constructor; [exact HS|]. constructor; [exact E1|].
    rewrite Forall_forall in *. intros w Hw. specialize (Ft w Hw). lia.
  - apply Nat.ltb_ge in E1. destruct (Nat.eqb x z) eqn:E2; [exact HS|].
    apply Nat.eqb_neq in E2. constructor; [apply IH; exact St|].
    rewrite Forall_forall in *. intros w Hw. apply ninsert_In in Hw. destruct Hw as [Hw|Hw]; [subst; lia|apply Ft; exact Hw].
Qed.

Lemma sorted_set_sorted l : StronglySorted lt (sorted_set l).
Proof. induction l as [|x t IH]; simpl; [constructor|apply ninsert_sorted; exact IH]. Qed.

Lemma sorted_set_In l x : In x (sorted_set l) <-> In x l.
Proof. induction l as [|y t IH]; simpl; [tauto|]. rewrite ninsert_In, IH. intuition. Qed.

Lemma nmem_sorted_set l x : nmem x (sorted_set l) = nmem x l.
Proof.
  destruct (nmem x l) eqn:E.
  - apply nmem_In. apply sorted_set_In. apply nmem_In. exact E.
  - destruct (nmem x (sorted_set l)) eqn:E2; [|reflexivity].
    exfalso. assert (nmem x l = true) as K; [|congruence].
    apply nmem_In. apply sorted_set_In. apply nmem_In. exact E2.
Qed.

Lemma filter_below_none x t : Forall (lt x) t -> filter (fun y => Nat.ltb y x) t = [].
Proof.
  intros F. induction F as [|y t Hy F IH]; simpl; [reflexivity|].
  destruct (Nat.ltb y x) eqn:E; [apply Nat.ltb_lt in E; lia|exact IH].
Qed.

Lemma lookup_sorted x : forall s k, StronglySorted lt s ->
  lookup_get (print_nat x) (combine (map print_nat s) (seq k (length s)))
  = if nmem x s then Some (k + length (filter (fun y => Nat.ltb y x) s))%nat else None.
Proof.
  induction s as [|y t IH]; intros k HS; [reflexivity|].
  inversion HS as [|? ? St Ft]; subst.
  cbn [map length seq combine lookup_get nmem existsb filter]. rewrite teqb_print_nat.
  destruct (Nat.eqb x y) eqn:E.
  - apply Nat.eqb_eq in E. subst y. cbn [orb]. rewrite Nat.ltb_irrefl, (filter_below_none x t Ft). simpl. f_equal. lia.
  - cbn [orb]. rewrite (IH (S k) St). fold (nmem x t).
    destruct (nmem x t) eqn:M; [|reflexivity].
    apply nmem_In in M. rewrite Forall_forall in Ft. specialize (Ft x M).
    apply Nat.ltb_lt in Ft. rewrite Ft. simpl. f_equal. lia.
Qed.

Lemma lookup_remap keep x :
  lookup_get (print_nat x) (remap_lookup keep) = if nmem x keep then Some (rank keep x) else None.
Proof.
  unfold remap_lookup. rewrite (lookup_sorted x _ 0%nat (sorted_set_sorted keep)), nmem_sorted_set.
  reflexivity.
Qed.

(* the i-th smallest kept index is mapped to i *)
Lemma rank_nth s : StronglySorted lt s -> forall i, (i < length s)%nat ->
  length (filter (fun y => Nat.ltb y (nth i s 0%nat)) s) = i.
Proof.
  induction s as [|y t IH]; intros HS i Hi; simpl in Hi; [lia|].
  inversion HS as [|? ? St Ft]; subst. destruct i as [|i].
  - cbn [nth filter]. rewrite Nat.ltb_irrefl. rewrite (filter_below_none y t Ft). reflexivity.
  - cbn [nth filter].
    assert (In (nth i t 0%nat) t) as Hin by (apply nth_In; lia).
    rewrite Forall_forall in Ft. specialize (Ft _ Hin). apply Nat.ltb_lt in Ft. rewrite Ft.
    cbn [length]. f_equal. apply IH; [exact St|lia].
Qed.

Lemma remap_sorted_nth keep i : (i < length (sorted_set keep))%nat ->
  lookup_get (print_nat (nth i (sorted_set keep) 0%nat)) (remap_lookup keep) = Some i.
Proof.
  intros Hi. rewrite lookup_remap.
  assert (In (nth i (sorted_set keep) 0%nat) keep) as Hin by (apply sorted_set_In, nth_In; exact Hi).
  apply nmem_In in Hin. rewrite Hin. f_equal. unfold rank. apply rank_nth; [apply sorted_set_sorted|exact Hi].
Qed.

Lemma count_below_mono s a b : (a <= b)%nat ->
  (length (filter (fun y => Nat.ltb y a) s) <= length (filter (fun y => Nat.ltb y b) s))%nat.
Proof.
  intros Hab. induction s as [|y t IH]; simpl; [lia|].
  destruct (Nat.ltb y a) eqn:E1, (Nat.ltb y b) eqn:E2; simpl; try lia.
  apply Nat.ltb_lt in E1. apply Nat.ltb_ge in E2. lia.
Qed.

Lemma count_below_strict s a b : In a s -> (a < b)%nat ->
  (length (filter (fun y => Nat.ltb y a) s) < length (filter (fun y => Nat.ltb y b) s))%nat.
Proof.
  intros Hin Hab. induction s as [|y t IH]; [contradiction|]. simpl.
  destruct Hin as [E|Hin].
  - subst y. rewrite Nat.ltb_irrefl. apply Nat.ltb_lt in Hab. rewrite Hab. simpl.
    pose proof (count_below_mono t a b ltac:(apply Nat.ltb_lt in Hab; lia)). lia.
  - specialize (IH Hin).
    destruct (Nat.ltb y a) eqn:E1, (Nat.ltb y b) eqn:E2; simpl; try lia.
    apply Nat.ltb_lt in E1. apply Nat.ltb_ge in E2. lia.
Qed.

Lemma rank_monotone keep a b : In a keep -> (a < b)%nat -> (rank keep a < rank keep b)%nat.
Proof. intros Ha Hab. unfold rank. apply count_below_strict; [apply sorted_set_In; exact Ha|exact Hab]. Qed.

(* ------------------------------------------------------------------ one row as the slicers see it *)
Definition sset (w : text) : Prop := Forall (fun c => strip_set c = true) w.
Definition tokz (v : text) : Prop := v <> [] /\ Forall (fun c => strip_set c = false) v /\ ~ In COMMA v.

Lemma sset_no_comma w : sset w -> ~ In COMMA w.
Proof. intros F H. unfold sset in F. rewrite Forall_forall in F. specialize (F _ H). discriminate. Qed.

Lemma blank_sset w : blank w -> sset w.
Proof.
  unfold blank, sset. apply Forall_impl. intros c H. unfold is_blank, strip_set in *.
  destruct (c =? SP), (c =? NL), (c =? TAB), (c =? LBRACK), (c =? RBRACK); simpl in *; congruence.
Qed.

Lemma sset_app a b : sset a -> sset b -> sset (a ++ b).
Proof. intros. apply Forall_app. split; assumption. Qed.

Lemma tok_ok_tokz v : tok_ok v -> tokz v.
Proof.
  intros [Hne F]. split; [exact Hne|]. split.
  - revert F. apply Forall_impl. intros c H. unfold tok_char, is_blank, strip_set in *.
    destruct (c =? COMMA), (c =? LBRACK), (c =? RBRACK), (c =? SP), (c =? NL), (c =? TAB); simpl in *; congruence.
  - intros Hin. rewrite Forall_forall in F. specialize (F _ Hin). discriminate.
Qed.

Lemma print_nat_tokz n : tokz (print_nat n).
Proof.
  split; [apply print_nat_nonempty|]. pose proof (print_nat_digits n) as D. split.
  - revert D. apply Forall_impl. intros c H. apply digit_chars in H. tauto.
  - intros Hin. rewrite Forall_forall in D. apply D, digit_chars in Hin. tauto.
Qed.

Lemma strip_mid p pre M post :
  Forall (fun c => p c = true) pre -> Forall (fun c => p c = true) post ->
  M <> [] -> p (hd 0 M) = false -> p (last M 0) = false -> strip p (pre ++ M ++ post) = M.
Proof.
  intros Fp Fq Hne Hh Hl. destruct M as [|x t]; [congruence|].
  destruct (exists_last (l := x :: t) ltac:(discriminate)) as [body [y E]].
  rewrite E in Hl. rewrite last_last in Hl. simpl in Hh.
  destruct body as [|b body].
  - simpl in E. inversion E; subst. unfold strip. simpl app.
    rewrite lstrip_app by assumption. pose proof (rstrip_app p [] y post Hl Fq) as R. simpl in R. exact R.
  - simpl in E. inversion E; subst.
    replace (pre ++ (b :: body ++ [y]) ++ post) with (pre ++ b :: body ++ y :: post)
      by (simpl; rewrite <- app_assoc; reflexivity).
    apply strip_core; assumption.
Qed.

Lemma tokz_hd v : tokz v -> strip_set (hd 0 v) = false.
Proof. intros (Hne & F & _). destruct v; [congruence|]. inversion F; assumption. Qed.
Lemma tokz_last v : tokz v -> strip_set (last v 0) = false.
Proof.
  intros (Hne & F & _). destruct (exists_last Hne) as [b [y E]]. subst. rewrite last_last.
  rewrite Forall_forall in F. apply F. apply in_or_app. right. left. reflexivity.
Qed.

Lemma strip_f_tok pre v post : sset pre -> sset post -> tokz v -> strip_f (pre ++ v ++ post) = v.
Proof.
  intros Fp Fq T. unfold strip_f. apply strip_mid; try assumption; [apply T|apply tokz_hd; exact T|apply tokz_last; exact T].
Qed.

Lemma hd_app_nonempty (a b : text) : a <> [] -> hd 0 (a ++ b) = hd 0 a.
Proof. destruct a; [congruence|reflexivity]. Qed.
Lemma last_app_nonempty (a b : text) : b <> [] -> last (a ++ b) 0 = last b 0.
Proof.
  intros H. destruct (exists_last H) as [b' [y E]]. subst. rewrite app_assoc, !last_last. reflexivity.
Qed.

Definition shaped (rcv : text) (t : triple) : Prop :=
  exists p0 p1 p2 p3, sset p0 /\ sset p1 /\ sset p2 /\ sset p3 /\
    rcv = p0 ++ print_nat (fst (fst t)) ++ COMMA :: p1 ++ print_nat (snd (fst t)) ++ COMMA :: p2 ++ snd t ++ p3.

Lemma not_in_app (c : Z) a b : ~ In c a -> ~ In c b -> ~ In c (a ++ b).
Proof. intros Ha Hb H. apply in_app_or in H. tauto. Qed.

(* row, col, value = map(strip_f, rcv.split(',')) *)
Lemma shaped_fields rcv r c v : shaped rcv (r, c, v) -> tokz v ->
  three (map strip_f (split_char COMMA rcv)) = Some (print_nat r, print_nat c, v).
Proof.
  intros (p0 & p1 & p2 & p3 & S0 & S1 & S2 & S3 & E) Tv. simpl in E. subst rcv.
  pose proof (print_nat_tokz r) as Tr. pose proof (print_nat_tokz c) as Tc.
  rewrite (app_assoc p0 (print_nat r)).
  rewrite split_char_app by (apply not_in_app; [apply sset_no_comma; exact S0|apply Tr]).
  rewrite (app_assoc p1 (print_nat c)).
  rewrite split_char_app by (apply not_in_app; [apply sset_no_comma; exact S1|apply Tc]).
  rewrite split_char_none
    by (apply not_in_app; [apply sset_no_comma; exact S2|apply not_in_app; [apply Tv|apply sset_no_comma; exact S3]]).
  cbn [map three].
  rewrite <- (app_nil_r (p0 ++ print_nat r)), <- app_assoc, (strip_f_tok p0 _ [] S0 (Forall_nil _) Tr).
  rewrite <- (app_nil_r (p1 ++ print_nat c)), <- app_assoc, (strip_f_tok p1 _ [] S1 (Forall_nil _) Tc).
  rewrite (strip_f_tok p2 v p3 S2 S3 Tv). reflexivity.
Qed.

(* r, c, v = strip_f(rcv).split(',') : the first field is the row token *)
Lemma shaped_first rcv r c v : shaped rcv (r, c, v) -> tokz v ->
  exists c' v', three (split_char COMMA (strip_f rcv)) = Some (print_nat r, c', v').
Proof.
  intros (p0 & p1 & p2 & p3 & S0 & S1 & S2 & S3 & E) Tv. simpl in E. subst rcv.
  pose proof (print_nat_tokz r) as Tr. pose proof (print_nat_tokz c) as Tc.
  set (M := print_nat r ++ COMMA :: p1 ++ print_nat c ++ COMMA :: p2 ++ v).
  assert (p0 ++ print_nat r ++ COMMA :: p1 ++ print_nat c ++ COMMA :: p2 ++ v ++ p3 = p0 ++ M ++ p3) as EM.
  { unfold M. repeat (rewrite <- app_assoc; cbn [app]). reflexivity. }
  rewrite EM. clear EM.
  unfold strip_f. rewrite strip_mid; try assumption.
  - exists (p1 ++ print_nat c), (p2 ++ v). unfold M.
    rewrite split_char_app by apply Tr.
    rewrite (app_assoc p1 (print_nat c)).
    rewrite split_char_app by (apply not_in_app; [apply sset_no_comma; exact S1|apply Tc]).
    rewrite split_char_none by (apply not_in_app; [apply sset_no_comma; exact S2|apply Tv]).
    reflexivity.
  - unfold M. destruct (print_nat r) eqn:E; [exfalso; apply (print_nat_nonempty r); exact E|discriminate].
  - unfold M. rewrite hd_app_nonempty by apply Tr. apply tokz_hd. exact Tr.
  - unfold M.
    change (print_nat r ++ COMMA :: p1 ++ print_nat c ++ COMMA :: p2 ++ v)
      with (print_nat r ++ (COMMA :: p1) ++ print_nat c ++ (COMMA :: p2) ++ v).
    rewrite !app_assoc. rewrite last_app_nonempty by apply Tv. apply tokz_last. exact Tv.
Qed.

(* the compact row the slicers emit *)
Definition crow (t : triple) : text :=
  print_nat (fst (fst t)) ++ [COMMA] ++ print_nat (snd (fst t)) ++ [COMMA] ++ snd t.

Definition triples_tokz (l : list triple) : Prop := Forall (fun t => tokz (snd t)) l.

Lemma obs_rows_shaped keep pieces l :
  Forall2 shaped pieces l -> triples_tokz l ->
  obs_rows pieces (remap_lookup keep) = ROk (map crow (subset_obs keep l)).
Proof.
  intros F. induction F as [|rcv t pieces l Hs F IH]; intros T; [reflexivity|].
  inversion T as [|? ? Tv T']; subst. destruct t as [[r c] v]. simpl in Tv.
  destruct (shaped_first rcv r c v Hs Tv) as (c' & v' & E1).
  cbn [obs_rows]. destruct (strip_f rcv) as [|s0 st] eqn:Es; [discriminate|]. rewrite E1, lookup_remap.
  unfold subset_obs in *. cbn [filter map fst snd].
  destruct (nmem r keep) eqn:M.
  - unfold remap_axis_obs. rewrite (shaped_fields rcv r c v Hs Tv), lookup_remap, M.
    cbn [rbind]. rewrite (IH T'). cbn [rbind map]. reflexivity.
  - apply IH. exact T'.
Qed.

Lemma samp_rows_shaped keep pieces l :
  Forall2 shaped pieces l -> triples_tokz l ->
  samp_rows pieces (remap_lookup keep) = ROk (map crow (subset_samp keep l)).
Proof.
  intros F. induction F as [|rcv t pieces l Hs F IH]; intros T; [reflexivity|].
  inversion T as [|? ? Tv T']; subst. destruct t as [[r c] v]. simpl in Tv.
  destruct (shaped_first rcv r c v Hs Tv) as (c' & v' & E1).
  cbn [samp_rows]. destruct (strip_f rcv) as [|s0 st] eqn:Es; [discriminate|].
  rewrite (shaped_fields rcv r c v Hs Tv), lookup_remap.
  unfold subset_samp in *. cbn [filter map fst snd].
  destruct (nmem c keep) eqn:M.
  - unfold remap_axis_samp. rewrite (shaped_fields rcv r c v Hs Tv), lookup_remap, M.
    cbn [rbind]. rewrite (IH T'). cbn [rbind map]. reflexivity.
  - apply IH. exact T'.
Qed.

(* ------------------------------------------------------------------ splitting the printed array on '],' *)
(* the body of a printed row, between its brackets *)
Definition row_body (w : ws_choice) (t : triple) : text :=
  w_row_open w ++ print_nat (fst (fst t)) ++ COMMA :: w_item w ++ print_nat (snd (fst t)) ++ COMMA :: w_item w
  ++ snd t ++ w_row_close w.

Lemma print_row_body w t : print_row w t = LBRACK :: row_body w t ++ [RBRACK].
Proof.
  destruct t as [[r c] v]. unfold print_row, row_body. cbn [fst snd app].
  f_equal. repeat (rewrite <- app_assoc; cbn [app]). reflexivity.
Qed.

Fixpoint pieces (w : ws_choice) (pre : text) (l : list triple) : list text :=
  match l with
  | [] => []
  | [t] => [pre ++ LBRACK :: row_body w t ++ RBRACK :: w_close w]
  | t :: r => (pre ++ LBRACK :: row_body w t) :: pieces w (w_rows w) r
  end.

Definition no_rb (s : text) : Prop := ~ In RBRACK s.
Lemma no_rb_app a b : no_rb a -> no_rb b -> no_rb (a ++ b).
Proof. apply not_in_app. Qed.
Lemma no_rb_cons c s : c <> RBRACK -> no_rb s -> no_rb (c :: s).
Proof. intros H1 H2 [H|H]; [congruence|contradiction]. Qed.
Lemma blank_no_rb w : blank w -> no_rb w.
Proof.
  intros F H. unfold blank in F. rewrite Forall_forall in F. specialize (F _ H). discriminate.
Qed.
Lemma blank_no_comma w : blank w -> ~ In COMMA w.
Proof.
  intros F H. unfold blank in F. rewrite Forall_forall in F. specialize (F _ H). discriminate.
Qed.
Lemma print_nat_no_rb n : no_rb (print_nat n).
Proof.
  intros H. pose proof (print_nat_digits n) as D. rewrite Forall_forall in D. apply D, digit_chars in H. tauto.
Qed.
Lemma tok_no_rb v : tok_ok v -> no_rb v.
Proof.
  intros [_ F] H. rewrite Forall_forall in F. specialize (F _ H). discriminate.
Qed.

Lemma row_body_no_rb w t : ws_ok w -> tok_ok (snd t) -> no_rb (row_body w t).
Proof.
  intros (B1 & B2 & B3 & B4 & B5 & B6) T. unfold row_body.
  repeat first [apply no_rb_app | apply no_rb_cons; [discriminate|] | apply blank_no_rb; assumption
               | apply print_nat_no_rb | apply tok_no_rb; assumption ].
Qed.

Lemma split2_rows w : ws_ok w -> forall l pre, l <> [] -> triples_ok l -> blank pre ->
  split2 RBRACK COMMA (pre ++ print_rows w l ++ w_close w) = pieces w pre l.
Proof.
  intros W. pose proof W as (B1 & B2 & B3 & B4 & B5 & B6).
  induction l as [|t r IH]; intros pre Hne T Bp; [congruence|].
  inversion T as [|? ? Tt Tr]; subst.
  assert (Hu : no_rb (pre ++ LBRACK :: row_body w t))
    by (apply no_rb_app; [apply blank_no_rb; exact Bp|apply no_rb_cons; [discriminate|apply row_body_no_rb; assumption]]).
  destruct r as [|t2 r].
  - cbn [print_rows pieces]. rewrite print_row_body.
    replace (pre ++ (LBRACK :: row_body w t ++ [RBRACK]) ++ w_close w)
      with ((pre ++ LBRACK :: row_body w t) ++ RBRACK :: w_close w)
      by (repeat (rewrite <- app_assoc; cbn [app]); reflexivity).
    rewrite split2_last; [|discriminate|exact Hu|apply blank_no_comma; exact B6].
    repeat (rewrite <- app_assoc; cbn [app]). reflexivity.
  - change (print_rows w (t :: t2 :: r)) with (print_row w t ++ [COMMA] ++ w_rows w ++ print_rows w (t2 :: r)).
    change (pieces w pre (t :: t2 :: r)) with ((pre ++ LBRACK :: row_body w t) :: pieces w (w_rows w) (t2 :: r)).
    rewrite print_row_body.
    replace (pre ++ ((LBRACK :: row_body w t ++ [RBRACK]) ++ [COMMA] ++ w_rows w ++ print_rows w (t2 :: r)) ++ w_close w)
      with ((pre ++ LBRACK :: row_body w t) ++ RBRACK :: COMMA :: (w_rows w ++ print_rows w (t2 :: r) ++ w_close w))
      by (repeat (rewrite <- app_assoc; cbn [app]); reflexivity).
    rewrite split2_app by exact Hu.
    rewrite IH; [reflexivity|discriminate|exact Tr|exact B5].
Qed.

Lemma sset_cons c w : strip_set c = true -> sset w -> sset (c :: w).
Proof. intros. constructor; assumption. Qed.

Lemma pieces_shaped w : ws_ok w -> forall l pre, blank pre -> Forall2 shaped (pieces w pre l) l.
Proof.
  intros (B1 & B2 & B3 & B4 & B5 & B6). induction l as [|t r IH]; intros pre Bp; [constructor|].
  destruct r as [|t2 r].
  - cbn [pieces]. constructor; [|constructor].
    exists (pre ++ LBRACK :: w_row_open w), (w_item w), (w_item w), (w_row_close w ++ RBRACK :: w_close w).
    repeat split; try (apply blank_sset; assumption).
    + apply sset_app; [apply blank_sset; exact Bp|apply sset_cons; [reflexivity|apply blank_sset; exact B2]].
    + apply sset_app; [apply blank_sset; exact B4|apply sset_cons; [reflexivity|apply blank_sset; exact B6]].
    + unfold row_body. repeat (rewrite <- app_assoc; cbn [app]). reflexivity.
  - change (pieces w pre (t :: t2 :: r)) with ((pre ++ LBRACK :: row_body w t) :: pieces w (w_rows w) (t2 :: r)).
    constructor; [|apply IH; exact B5].
    exists (pre ++ LBRACK :: w_row_open w), (w_item w), (w_item w), (w_row_close w).
    repeat split; try (apply blank_sset; assumption).
    + apply sset_app; [apply blank_sset; exact Bp|apply sset_cons; [reflexivity|apply blank_sset; exact B2]].
    + unfold row_body. repeat (rewrite <- app_assoc; cbn [app]). reflexivity.
Qed.

Lemma triples_ok_tokz l : triples_ok l -> triples_tokz l.
Proof. apply Forall_impl. intros t. apply tok_ok_tokz. Qed.

(* what the slicers return on every printing of an entry list *)
Lemma slice_obs_text w l keep : ws_ok w -> triples_ok l ->
  slice_obs (print_inner w l) keep = ROk (out_rows (map crow (subset_obs keep l))).
Proof.
  intros W T. pose proof W as (B1 & _). unfold slice_obs, print_inner.
  destruct l as [|t r] eqn:El; [reflexivity|]. rewrite <- El in *.
  assert (Hne : l <> []) by (rewrite El; discriminate).
  rewrite (split2_rows w W l (w_open w) Hne T B1).
  rewrite (obs_rows_shaped keep _ l (pieces_shaped w W l (w_open w) B1) (triples_ok_tokz l T)).
  reflexivity.
Qed.

Lemma slice_samp_text w l keep : ws_ok w -> triples_ok l ->
  slice_samp (print_inner w l) keep = ROk (out_rows (map crow (subset_samp keep l))).
Proof.
  intros W T. pose proof W as (B1 & _). unfold slice_samp, print_inner.
  destruct l as [|t r] eqn:El; [reflexivity|]. rewrite <- El in *.
  assert (Hne : l <> []) by (rewrite El; discriminate).
  rewrite (split2_rows w W l (w_open w) Hne T B1).
  rewrite (samp_rows_shaped keep _ l (pieces_shaped w W l (w_open w) B1) (triples_ok_tokz l T)).
  reflexivity.
Qed.

(* the emitted text is the compact printing of the remapped entries *)
Lemma compact_rows l : l <> [] -> LBRACK :: join SEP_ROWS (map crow l) ++ [RBRACK] = print_rows ws_compact l.
Proof.
  induction l as [|t r IH]; intros Hne; [congruence|].
  destruct r as [|t2 r].
  - cbn [map join print_rows]. destruct t as [[a b] v]. unfold print_row, crow. cbn [ws_compact w_row_open w_item w_row_close fst snd app].
    f_equal. repeat (rewrite <- app_assoc; cbn [app]). reflexivity.
  - change (print_rows ws_compact (t :: t2 :: r))
      with (print_row ws_compact t ++ [COMMA] ++ w_rows ws_compact ++ print_rows ws_compact (t2 :: r)).
    rewrite <- IH by discriminate.
    change (map crow (t :: t2 :: r)) with (crow t :: map crow (t2 :: r)).
    change (join SEP_ROWS (crow t :: map crow (t2 :: r))) with (crow t ++ SEP_ROWS ++ join SEP_ROWS (map crow (t2 :: r))).
    destruct t as [[a b] v]. unfold print_row, crow, SEP_ROWS. cbn [ws_compact w_row_open w_item w_row_close w_rows fst snd app].
    f_equal. repeat (rewrite <- app_assoc; cbn [app]). reflexivity.
Qed.

Lemma wrap_rows_compact l : l <> [] -> wrap_rows (map crow l) = print_ws ws_compact l.
Proof.
  intros Hne. unfold wrap_rows, print_ws, print_inner. destruct l as [|t r] eqn:E; [congruence|]. rewrite <- E in *.
  rewrite <- (compact_rows l Hne). cbn [ws_compact w_open w_close app].
  rewrite app_nil_r. f_equal. f_equal. rewrite <- app_assoc. reflexivity.
Qed.

Lemma out_rows_compact l : out_rows (map crow l) = print_ws ws_compact l.
Proof.
  destruct l as [|t r] eqn:E; [reflexivity|]. rewrite <- E.
  assert (l <> []) as Hne by (rewrite E; discriminate).
  rewrite <- (wrap_rows_compact l Hne). rewrite E. reflexivity.
Qed.

(* ------------------------------------------------------------------ the reference reader reads every printing back *)
Lemma blank_char c : is_blank c = true ->
  (c =? LBRACK) = false /\ (c =? RBRACK) = false /\ (c =? COMMA) = false /\ tok_char c = false.
Proof.
  unfold is_blank, tok_char, SP, NL, TAB, LBRACK, RBRACK, COMMA. intros H.
  destruct (c =? 32) eqn:E1; [zb; subst; repeat split; reflexivity|].
  destruct (c =? 10) eqn:E2; [zb; subst; repeat split; reflexivity|].
  destruct (c =? 9) eqn:E3; [zb; subst; repeat split; reflexivity|]. discriminate.
Qed.

Lemma tok_char_true c : tok_char c = true ->
  (c =? LBRACK) = false /\ (c =? RBRACK) = false /\ (c =? COMMA) = false /\ is_blank c = false.
Proof.
  unfold tok_char. intros H.
  destruct (c =? COMMA), (c =? LBRACK), (c =? RBRACK), (is_blank c); simpl in H; try discriminate; repeat split; reflexivity.
Qed.

Lemma tokenize_blank w s : blank w -> tokenize (w ++ s) [] = tokenize s [].
Proof.
  intros F. induction F as [|c w Hc F IH]; [reflexivity|].
  destruct (blank_char c Hc) as (E1 & E2 & E3 & _).
  cbn [app tokenize]. rewrite E1, E2, E3, Hc. cbn [flush]. exact IH.
Qed.

Lemma tokenize_tok v : Forall (fun c => tok_char c = true) v -> forall s cur,
  tokenize (v ++ s) cur = tokenize s (rev v ++ cur).
Proof.
  intros F. induction F as [|c v Hc F IH]; intros s cur; [reflexivity|].
  destruct (tok_char_true c Hc) as (E1 & E2 & E3 & E4).
  cbn [app tokenize]. rewrite E1, E2, E3, E4. rewrite IH. cbn [rev]. rewrite <- app_assoc. reflexivity.
Qed.

Lemma tokenize_flush c X cur : tok_char c = false -> tokenize (c :: X) cur = flush cur (tokenize (c :: X) []).
Proof.
  intros H. cbn [tokenize].
  destruct (c =? LBRACK) eqn:E1; [reflexivity|]. destruct (c =? RBRACK) eqn:E2; [reflexivity|].
  destruct (c =? COMMA) eqn:E3; [reflexivity|]. destruct (is_blank c) eqn:E4; [reflexivity|].
  unfold tok_char in H. rewrite E1, E2, E3, E4 in H. discriminate.
Qed.

Lemma tokenize_atom v c X : Forall (fun c => tok_char c = true) v -> v <> [] -> tok_char c = false ->
  tokenize (v ++ c :: X) [] = TA v :: tokenize (c :: X) [].
Proof.
  intros F Hne Hc. rewrite tokenize_tok by exact F. rewrite tokenize_flush by exact Hc.
  rewrite app_nil_r. unfold flush. destruct (rev v) eqn:E.
  - exfalso. apply Hne. rewrite <- (rev_involutive v), E. reflexivity.
  - rewrite <- E, rev_involutive. reflexivity.
Qed.

Lemma print_nat_tok n : Forall (fun c => tok_char c = true) (print_nat n).
Proof. pose proof (print_nat_digits n) as D. revert D. apply Forall_impl. intros c H. apply digit_chars in H. tauto. Qed.

Definition row_toks (t : triple) : list token :=
  [TL; TA (print_nat (fst (fst t))); TC; TA (print_nat (snd (fst t))); TC; TA (snd t); TR].

Lemma tokenize_row w t rest : ws_ok w -> tok_ok (snd t) ->
  tokenize (print_row w t ++ rest) [] = row_toks t ++ tokenize rest [].
Proof.
  intros (B1 & B2 & B3 & B4 & B5 & B6) [Hne Tv]. destruct t as [[r c] v]. cbn [fst snd] in *.
  unfold print_row, row_toks. cbn [fst snd]. repeat (rewrite <- app_assoc; cbn [app]).
  change (tokenize (LBRACK :: ?X) []) with (TL :: tokenize X []).
  cbn [tokenize]. change (LBRACK =? LBRACK) with true. cbn [flush].
  rewrite (tokenize_blank _ _ B2).
  rewrite (tokenize_atom (print_nat r) COMMA) by (first [apply print_nat_tok|apply print_nat_nonempty|reflexivity]).
  cbn [tokenize]. change (COMMA =? LBRACK) with false. change (COMMA =? RBRACK) with false. change (COMMA =? COMMA) with true.
  cbn [flush]. rewrite (tokenize_blank _ _ B3).
  rewrite (tokenize_atom (print_nat c) COMMA) by (first [apply print_nat_tok|apply print_nat_nonempty|reflexivity]).
  cbn [tokenize]. change (COMMA =? LBRACK) with false. change (COMMA =? RBRACK) with false. change (COMMA =? COMMA) with true.
  cbn [flush]. rewrite (tokenize_blank _ _ B3).
  assert (tokenize (v ++ w_row_close w ++ RBRACK :: rest) [] = TA v :: TR :: tokenize rest []) as E.
  { destruct (w_row_close w) as [|b wc] eqn:Ew.
    - cbn [app]. rewrite (tokenize_atom v RBRACK) by (first [exact Tv|exact Hne|reflexivity]).
      cbn [tokenize]. change (RBRACK =? LBRACK) with false. change (RBRACK =? RBRACK) with true. reflexivity.
    - inversion B4 as [|? ? Hb Hwc]; subst. cbn [app].
      rewrite (tokenize_atom v b) by (first [exact Tv|exact Hne|apply blank_char; exact Hb]).
      change (b :: wc ++ RBRACK :: rest) with ((b :: wc) ++ RBRACK :: rest).
      rewrite (tokenize_blank (b :: wc)) by (constructor; assumption).
      cbn [tokenize]. change (RBRACK =? LBRACK) with false. change (RBRACK =? RBRACK) with true. reflexivity. }
  rewrite E. reflexivity.
Qed.

Fixpoint toks_rows (l : list triple) : list token :=
  match l with
  | [] => []
  | [t] => row_toks t
  | t :: r => row_toks t ++ TC :: toks_rows r
  end.

Lemma tokenize_rows w : ws_ok w -> forall l rest, l <> [] -> triples_ok l ->
  tokenize (print_rows w l ++ rest) [] = toks_rows l ++ tokenize rest [].
Proof.
  intros W. pose proof W as (B1 & B2 & B3 & B4 & B5 & B6).
  induction l as [|t r IH]; intros rest Hne T; [congruence|].
  inversion T as [|? ? Tt Tr]; subst. destruct r as [|t2 r].
  - cbn [print_rows toks_rows]. apply tokenize_row; assumption.
  - change (print_rows w (t :: t2 :: r)) with (print_row w t ++ [COMMA] ++ w_rows w ++ print_rows w (t2 :: r)).
    change (toks_rows (t :: t2 :: r)) with (row_toks t ++ TC :: toks_rows (t2 :: r)).
    repeat (rewrite <- app_assoc; cbn [app]).
    rewrite (tokenize_row w t _ W Tt).
    cbn [tokenize]. change (COMMA =? LBRACK) with false. change (COMMA =? RBRACK) with false. change (COMMA =? COMMA) with true.
    cbn [flush]. rewrite (tokenize_blank _ _ B5). rewrite IH by (first [discriminate|exact Tr]).
    repeat (rewrite <- app_assoc; cbn [app]). reflexivity.
Qed.

Definition not_comma_headed (ts : list token) : Prop := match ts with TC :: _ => False | _ => True end.

Lemma parse_rows_ok : forall l fuel rest, l <> [] -> (length l <= fuel)%nat -> not_comma_headed rest ->
  parse_rows fuel (toks_rows l ++ rest) = Some (l, rest).
Proof.
  induction l as [|t r IH]; intros fuel rest Hne Hf Hr; [congruence|].
  destruct fuel as [|f]; [simpl in Hf; lia|]. destruct t as [[a b] v].
  destruct r as [|t2 r].
  - cbn [toks_rows row_toks fst snd app parse_rows]. rewrite !parse_print_nat.
    destruct rest as [|tk rest']; [reflexivity|]. destruct tk; try reflexivity. contradiction.
  - change (toks_rows ((a, b, v) :: t2 :: r)) with (row_toks (a, b, v) ++ TC :: toks_rows (t2 :: r)).
    rewrite <- app_assoc. cbn [row_toks fst snd app parse_rows]. rewrite !parse_print_nat.
    rewrite (IH f rest) by (first [discriminate|simpl in Hf; simpl; lia|exact Hr]). reflexivity.
Qed.

Lemma toks_rows_length l : (length l <= length (toks_rows l))%nat.
Proof.
  induction l as [|t r IH]; [simpl; lia|]. destruct r as [|t2 r]; [simpl; lia|].
  change (toks_rows (t :: t2 :: r)) with (row_toks t ++ TC :: toks_rows (t2 :: r)).
  rewrite app_length. cbn [length] in *. lia.
Qed.

Lemma tokenize_print_ws w l : ws_ok w -> triples_ok l -> l <> [] ->
  tokenize (print_ws w l) [] = TL :: toks_rows l ++ [TR].
Proof.
  intros W T Hne. pose proof W as (B1 & B2 & B3 & B4 & B5 & B6).
  unfold print_ws, print_inner. destruct l as [|t r] eqn:El; [congruence|]. rewrite <- El in *.
  cbn [app]. cbn [tokenize]. change (LBRACK =? LBRACK) with true. cbn [flush].
  repeat rewrite <- app_assoc. rewrite (tokenize_blank _ _ B1).
  rewrite (tokenize_rows w W l _ Hne T). rewrite (tokenize_blank _ _ B6).
  cbn [tokenize]. change (RBRACK =? LBRACK) with false. change (RBRACK =? RBRACK) with true. reflexivity.
Qed.

Lemma parse_print_ws w l : ws_ok w -> triples_ok l -> parse_triples (print_ws w l) = Some l.
Proof.
  intros W T. destruct l as [|t r] eqn:El; [reflexivity|]. rewrite <- El in *.
  assert (Hne : l <> []) by (rewrite El; discriminate).
  unfold parse_triples. rewrite (tokenize_print_ws w l W T Hne).
  assert (exists tk rest, toks_rows l = TL :: tk :: rest) as (tk & rest & Et).
  { rewrite El. destruct r; [eexists; eexists; reflexivity|].
    change (toks_rows (t :: t0 :: r)) with (row_toks t ++ TC :: toks_rows (t0 :: r)). eexists; eexists; reflexivity. }
  rewrite Et. cbn [app]. change (TL :: tk :: rest ++ [TR]) with ((TL :: tk :: rest) ++ [TR]).
  rewrite <- Et. clear Et tk rest.
  rewrite (parse_rows_ok l _ [TR] Hne); [reflexivity| |exact Logic.I].
  rewrite app_length. pose proof (toks_rows_length l). lia.
Qed.

(* ------------------------------------------------------------------ the slicing theorems *)
Lemma subset_obs_ok keep l : triples_ok l -> triples_ok (subset_obs keep l).
Proof.
  unfold triples_ok, subset_obs. intros F. apply Forall_forall. intros t Ht.
  apply in_map_iff in Ht. destruct Ht as [[[r c] v] [E Hin]]. subst t. apply filter_In in Hin.
  rewrite Forall_forall in F. exact (F _ (proj1 Hin)).
Qed.
Lemma subset_samp_ok keep l : triples_ok l -> triples_ok (subset_samp keep l).
Proof.
  unfold triples_ok, subset_samp. intros F. apply Forall_forall. intros t Ht.
  apply in_map_iff in Ht. destruct Ht as [[[r c] v] [E Hin]]. subst t. apply filter_In in Hin.
  rewrite Forall_forall in F. exact (F _ (proj1 Hin)).
Qed.

Lemma ws_compact_ok : ws_ok ws_compact.
Proof. repeat split; constructor. Qed.
Lemma ws_default_ok : ws_ok ws_default.
Proof. repeat split; repeat constructor. Qed.
Lemma ws_indent2_ok : ws_ok ws_indent2.
Proof. repeat split; repeat constructor. Qed.

Theorem slice_obs_ws_proof w l keep : ws_ok w -> triples_ok l ->
  exists out, slice_obs (print_inner w l) keep = ROk out /\ parse_triples out = Some (subset_obs keep l).
Proof.
  intros W T. exists (out_rows (map crow (subset_obs keep l))). split; [apply slice_obs_text; assumption|].
  rewrite out_rows_compact. apply parse_print_ws; [apply ws_compact_ok|apply subset_obs_ok; exact T].
Qed.

Theorem slice_samp_ws_proof w l keep : ws_ok w -> triples_ok l ->
  exists out, slice_samp (print_inner w l) keep = ROk out /\ parse_triples out = Some (subset_samp keep l).
Proof.
  intros W T. exists (out_rows (map crow (subset_samp keep l))). split; [apply slice_samp_text; assumption|].
  rewrite out_rows_compact. apply parse_print_ws; [apply ws_compact_ok|apply subset_samp_ok; exact T].
Qed.

(* the result does not depend on the whitespace of the input *)
Theorem slice_ws_indep_proof w1 w2 l keep : ws_ok w1 -> ws_ok w2 -> triples_ok l ->
  slice_obs (print_inner w1 l) keep = slice_obs (print_inner w2 l) keep /\
  slice_samp (print_inner w1 l) keep = slice_samp (print_inner w2 l) keep.
Proof.
  intros W1 W2 T. split.
  - rewrite !slice_obs_text by assumption. reflexivity.
  - rewrite !slice_samp_text by assumption. reflexivity.
Qed.

(* ------------------------------------------------------------------ direct_parse_key on header pairs *)
Lemma scan_str_plain c rest n : c <> QUOTE -> c <> BSL -> scan_str (c :: rest) n = scan_str rest (S n).
Proof.
  intros H1 H2. cbn [scan_str]. apply Z.eqb_neq in H1. apply Z.eqb_neq in H2. rewrite H1, H2. reflexivity.
Qed.
Lemma scan_str_esc x rest n : scan_str (BSL :: x :: rest) n = scan_str rest (S (S n)).
Proof. reflexivity. Qed.

Lemma hexd_plain k : 0 <= k < 16 -> hexd k <> QUOTE /\ hexd k <> BSL.
Proof. intros H. unfold hexd, QUOTE, BSL. destruct (k <? 10) eqn:E; zb; lia. Qed.

Lemma scan_str_u c rest n : 0 <= c -> scan_str (u_escape c ++ rest) n = scan_str rest (n + 6)%nat.
Proof.
  intros Hc. unfold u_escape. cbn [app]. rewrite scan_str_esc.
  assert (forall x, 0 <= x mod 16 < 16) as M by (intros x; apply Z.mod_pos_bound; lia).
  rewrite !scan_str_plain by (apply hexd_plain; apply M). f_equal. lia.
Qed.

Lemma scan_str_esc_char c rest n : 0 <= c -> scan_str (esc_char c ++ rest) n = scan_str rest (n + length (esc_char c))%nat.
Proof.
  intros Hc. unfold esc_char.
  repeat match goal with
  | |- context [if ?b then _ else _] => let E := fresh "E" in destruct b eqn:E
  end;
  try (cbn [app length]; rewrite scan_str_esc; f_equal; lia).
  - zb. cbn [app length]. rewrite scan_str_plain by (unfold QUOTE, BSL in *; lia). f_equal. lia.
  - rewrite scan_str_u by exact Hc. reflexivity.
  - rewrite <- app_assoc, app_length.
    assert (0 <= (c - 65536) / 1024) by (zb; apply Z.div_pos; lia).
    assert (0 <= ((c - 65536) / 1024) mod 1024) by (apply Z.mod_pos_bound; lia).
    assert (0 <= (c - 65536) mod 1024) by (apply Z.mod_pos_bound; lia).
    rewrite !scan_str_u by lia. f_equal. cbn [u_escape length]. lia.
Qed.

Definition code_points (s : text) : Prop := Forall (fun c => 0 <= c) s.

Lemma scan_str_escape s rest n : code_points s ->
  scan_str (json_escape s ++ QUOTE :: rest) n = Some (S (n + length (json_escape s)))%nat.
Proof.
  intros F. revert n. induction F as [|c s Hc F IH]; intros n.
  - cbn [json_escape flat_map app length scan_str]. rewrite Z.eqb_refl. f_equal. lia.
  - cbn [json_escape flat_map]. rewrite <- app_assoc, scan_str_esc_char by exact Hc.
    fold (json_escape s). rewrite IH, app_length. f_equal. lia.
Qed.

Lemma skip_space_app w x rest n :
  Forall (fun c => is_space c = true) w -> is_space x = false ->
  skip_space (w ++ x :: rest) n = Some ((n + length w)%nat, x :: rest).
Proof.
  intros F Hx. revert n. induction F as [|c w Hc F IH]; intros n.
  - cbn [app skip_space length]. rewrite Hx. f_equal. f_equal. lia.
  - cbn [app skip_space length]. rewrite Hc, IH. f_equal. f_equal. lia.
Qed.

Lemma scan_num_lit t x rest n :
  Forall (fun c => ((c =? COMMA) || (c =? LBRACE) || (c =? RBRACE)) = false) t ->
  ((x =? COMMA) || (x =? LBRACE) || (x =? RBRACE)) = true ->
  scan_num (t ++ x :: rest) n = Some (n + length t)%nat.
Proof.
  intros F Hx. revert n. induction F as [|c t Hc F IH]; intros n.
  - cbn [app scan_num length]. rewrite Hx. f_equal. lia.
  - cbn [app scan_num length]. rewrite Hc, IH. f_equal. lia.
Qed.

Lemma key_pat_length key : length (key_pat key) = (length key + 3)%nat.
Proof. unfold key_pat. cbn [length]. rewrite app_length. simpl. lia. Qed.

Lemma firstn_app_exact {A} (a b : list A) n : n = length a -> firstn n (a ++ b) = a.
Proof. intros ->. rewrite firstn_app, Nat.sub_diag, firstn_all. simpl. apply app_nil_r. Qed.

Lemma skipn_app_exact {A} (a b : list A) n : n = length a -> skipn n (a ++ b) = b.
Proof. intros ->. rewrite skipn_app, Nat.sub_diag, skipn_all. reflexivity. Qed.

Definition post_ok (v : hvalue) (post : text) : Prop :=
  match v with
  | HStr _ => True
  | HLit _ => match post with c :: _ => ((c =? COMMA) || (c =? LBRACE) || (c =? RBRACE)) = true | [] => False end
  end.
Definition hvalue_ok (v : hvalue) : Prop :=
  match v with HStr s => code_points s | HLit t => lit_ok t end.

Theorem parse_key_ok_proof pre key w v post :
  no_occ_before (key_pat key) (pre ++ print_pair key w v ++ post) (length pre) ->
  Forall (fun c => is_space c = true) w -> hvalue_ok v -> post_ok v post ->
  direct_parse_key (pre ++ print_pair key w v ++ post) key = ROk (print_pair key w v).
Proof.
  intros Hocc Fw Hv Hp. unfold direct_parse_key, print_pair in *.
  rewrite <- !app_assoc in *. rewrite (find_sub_app _ _ _ Hocc).
  rewrite (skipn_app_exact pre _ _ eq_refl).
  rewrite (skipn_app_exact (key_pat key) _ _ (eq_sym (key_pat_length key))).
  destruct v as [s|t]; cbn [print_hvalue hvalue_ok post_ok] in *.
  - unfold print_jstring. cbn [app]. rewrite skip_space_app by (assumption || reflexivity).
    change (QUOTE =? QUOTE) with true. cbv iota.
    rewrite <- app_assoc. cbn [app]. rewrite scan_str_escape by exact Hv. cbn [option_map].
    f_equal.
    replace (key_pat key ++ w ++ QUOTE :: json_escape s ++ QUOTE :: post)
      with ((key_pat key ++ w ++ QUOTE :: json_escape s ++ [QUOTE]) ++ post)
      by (repeat (rewrite <- app_assoc; cbn [app]); reflexivity).
    apply firstn_app_exact. rewrite !app_length, key_pat_length. cbn [length]. rewrite app_length. simpl. lia.
  - destruct Hv as [Hne Ft]. destruct t as [|c t']; [congruence|].
    destruct post as [|x post']; [contradiction|].
    inversion Ft as [|? ? Hc Ft']; subst.
    assert (is_space c = false /\ (c =? QUOTE) = false /\ is_open c = false) as (C1 & C2 & C3).
    { repeat match type of Hc with (_ || _) = false => apply orb_false_iff in Hc; destruct Hc as [Hc ?] end.
      repeat split; assumption. }
    cbn [app]. rewrite skip_space_app by assumption.
    rewrite C2, C3. cbn [negb].
    change (c :: t' ++ x :: post') with ((c :: t') ++ x :: post').
    rewrite (scan_num_lit (c :: t') x post' 0 ) ; [| |exact Hp].
    + f_equal.
      replace (key_pat key ++ w ++ (c :: t') ++ x :: post') with ((key_pat key ++ w ++ c :: t') ++ x :: post')
        by (repeat (rewrite <- app_assoc; cbn [app]); reflexivity).
      apply firstn_app_exact. rewrite !app_length, key_pat_length. cbn [length]. lia.
    + revert Ft. apply Forall_impl. intros a Ha.
      repeat match type of Ha with (_ || _) = false => apply orb_false_iff in Ha; destruct Ha as [Ha ?] end.
      rewrite Ha. match goal with H : (a =? LBRACE) = false |- _ => rewrite H end.
      match goal with H : (a =? RBRACE) = false |- _ => rewrite H end. reflexivity.
Qed.

(* ------------------------------------------------------------------ the bracket scanner on JSON value text *)
Definition plainb (c : Z) : bool := negb ((c =? QUOTE) || is_open c || is_close c).

(* what stands between the quotes of a JSON string: characters other than quote and backslash,
   and two-character escapes (a backslash and any character); every printer output has this
   form, with or without ensure_ascii *)
Inductive str_body : text -> Prop :=
| sb_nil : str_body []
| sb_char c t : c <> QUOTE -> c <> BSL -> str_body t -> str_body (c :: t)
| sb_esc x t : str_body t -> str_body (BSL :: x :: t).

(* text as the scanner meets it between two brackets: plain characters, whole JSON strings with
   ARBITRARY content, nested bracket pairs *)
Inductive bal : text -> Prop :=
| bal_nil : bal []
| bal_plain c b : plainb c = true -> bal b -> bal (c :: b)
| bal_str t b : str_body t -> bal b -> bal (QUOTE :: t ++ QUOTE :: b)
| bal_nest o b1 cl b2 : is_open o = true -> is_close cl = true -> bal b1 -> bal b2 -> bal (o :: b1 ++ cl :: b2).

Lemma open_facts o : is_open o = true -> (o =? QUOTE) = false /\ is_close o = false.
Proof.
  unfold is_open, is_close, LBRACK, LBRACE, RBRACK, RBRACE, QUOTE. intros H.
  destruct (o =? 91) eqn:E1; [zb; subst; split; reflexivity|].
  destruct (o =? 123) eqn:E2; [zb; subst; split; reflexivity|]. discriminate.
Qed.
Lemma close_facts c : is_close c = true -> (c =? QUOTE) = false.
Proof.
  unfold is_close, RBRACK, RBRACE, QUOTE. intros H.
  destruct (c =? 93) eqn:E1; [zb; subst; reflexivity|].
  destruct (c =? 125) eqn:E2; [zb; subst; reflexivity|]. discriminate.
Qed.

(* ---- inside a string (the opening quote is on top of the stack) *)
Lemma scan_in_plain c rest stk n : c <> QUOTE -> c <> BSL ->
  scan_obj (c :: rest) (QUOTE :: stk) n = scan_obj rest (QUOTE :: stk) (S n).
Proof.
  intros H1 H2. cbn [scan_obj]. change (QUOTE =? QUOTE) with true. cbv iota.
  apply Z.eqb_neq in H1. apply Z.eqb_neq in H2. rewrite H1, H2. reflexivity.
Qed.
Lemma scan_in_esc x rest stk n : scan_obj (BSL :: x :: rest) (QUOTE :: stk) n = scan_obj rest (QUOTE :: stk) (S (S n)).
Proof. reflexivity. Qed.

(* the scanner leaves a string exactly at its closing quote, whatever the string holds *)
Lemma scan_in_body t : str_body t -> forall rest stk n,
  scan_obj (t ++ QUOTE :: rest) (QUOTE :: stk) n = scan_obj rest stk (S (n + length t))%nat.
Proof.
  intros B. induction B as [|c t H1 H2 B IH|x t B IH]; intros rest stk n.
  - cbn [app length scan_obj]. change (QUOTE =? QUOTE) with true. change (QUOTE =? BSL) with false.
    cbv iota. f_equal. lia.
  - cbn [app]. rewrite scan_in_plain by assumption. rewrite IH. f_equal. cbn [length]. lia.
  - cbn [app]. rewrite scan_in_esc. rewrite IH. f_equal. cbn [length]. lia.
Qed.

Lemma str_body_app a b : str_body a -> str_body b -> str_body (a ++ b).
Proof. intros A B. induction A; cbn [app]; [exact B|apply sb_char; assumption|apply sb_esc; assumption]. Qed.

Lemma u_escape_body c : 0 <= c -> str_body (u_escape c).
Proof.
  intros Hc. unfold u_escape. apply sb_esc.
  assert (forall x, 0 <= x mod 16 < 16) as M by (intros x; apply Z.mod_pos_bound; lia).
  repeat (apply sb_char; [apply hexd_plain, M|apply hexd_plain, M|]). constructor.
Qed.

Lemma esc_char_body c : 0 <= c -> str_body (esc_char c).
Proof.
  intros Hc. unfold esc_char.
  repeat match goal with
  | |- context [if ?b then _ else _] => let E := fresh "E" in destruct b eqn:E
  end;
  try solve [apply sb_esc; apply sb_nil].
  - zb. apply sb_char; [unfold QUOTE in *; lia|unfold BSL in *; lia|constructor].
  - apply u_escape_body. exact Hc.
  - assert (0 <= (c - 65536) / 1024) by (zb; apply Z.div_pos; lia).
    assert (0 <= ((c - 65536) / 1024) mod 1024) by (apply Z.mod_pos_bound; lia).
    assert (0 <= (c - 65536) mod 1024) by (apply Z.mod_pos_bound; lia).
    apply str_body_app; apply u_escape_body; lia.
Qed.

Lemma json_escape_body s : code_points s -> str_body (json_escape s).
Proof.
  intros F. induction F as [|c s Hc F IH]; [constructor|].
  cbn [json_escape flat_map]. apply str_body_app; [apply esc_char_body; exact Hc|exact IH].
Qed.

Lemma scan_obj_nil s n : scan_obj s [] n = Some n.
Proof. destruct s; reflexivity. Qed.

Lemma scan_obj_bal b : bal b -> forall rest top below n, (top =? QUOTE) = false ->
  scan_obj (b ++ rest) (top :: below) n = scan_obj rest (top :: below) (n + length b)%nat.
Proof.
  intros B. induction B as [|c b Hc B IH|t b Hs B IH|o b1 cl b2 Ho Hcl B1 IH1 B2 IH2]; intros rest top below n Ht.
  - cbn [app length]. f_equal. lia.
  - unfold plainb in Hc. apply negb_true_iff in Hc. apply orb_false_iff in Hc. destruct Hc as [Hc H3].
    apply orb_false_iff in Hc. destruct Hc as [H1 H2].
    cbn [app scan_obj length]. rewrite Ht, H1, H3, H2. rewrite IH by exact Ht. f_equal. lia.
  - cbn [app scan_obj]. rewrite Ht. change (QUOTE =? QUOTE) with true. cbv iota.
    rewrite <- app_assoc. cbn [app]. rewrite scan_in_body by exact Hs. rewrite IH by exact Ht.
    f_equal. cbn [length]. rewrite app_length. cbn [length]. lia.
  - destruct (open_facts o Ho) as [Q1 Q2]. pose proof (close_facts cl Hcl) as Q3.
    cbn [app scan_obj]. rewrite Ht, Q1, Q2, Ho. rewrite <- app_assoc. rewrite IH1 by exact Q1.
    cbn [app scan_obj]. rewrite Q1, Q3, Hcl. rewrite IH2 by exact Ht. f_equal. cbn [length]. rewrite app_length. cbn [length]. lia.
Qed.

Lemma bal_app a b : bal a -> bal b -> bal (a ++ b).
Proof.
  intros A B. induction A as [|c a Hc A IH|t a Hs A IH|o a1 cl a2 Ho Hcl A1 IH1 A2 IH2]; cbn [app].
  - exact B.
  - apply bal_plain; assumption.
  - rewrite <- app_assoc. cbn [app]. apply bal_str; assumption.
  - rewrite <- app_assoc. cbn [app]. apply bal_nest; assumption.
Qed.

Lemma plain_bal s : Forall (fun c => plainb c = true) s -> bal s.
Proof. intros F. induction F; [constructor|apply bal_plain; assumption]. Qed.

Lemma blank_plain w : blank w -> Forall (fun c => plainb c = true) w.
Proof.
  apply Forall_impl. intros c H. unfold is_blank, SP, NL, TAB in H. unfold plainb, is_open, is_close, QUOTE, LBRACK, LBRACE, RBRACK, RBRACE.
  destruct (c =? 32) eqn:E1; [zb; subst; reflexivity|].
  destruct (c =? 10) eqn:E2; [zb; subst; reflexivity|].
  destruct (c =? 9) eqn:E3; [zb; subst; reflexivity|]. discriminate.
Qed.
Lemma print_nat_plain n : Forall (fun c => plainb c = true) (print_nat n).
Proof.
  pose proof (print_nat_digits n) as D. revert D. apply Forall_impl. intros c H. apply digit_chars in H.
  destruct H as (_ & _ & _ & _ & _ & H1 & H2 & H3 & _). unfold plainb. apply Z.eqb_neq in H1. rewrite H1, H2, H3. reflexivity.
Qed.

(* values without quotes or brackets (numbers) *)
Definition plain_vals (l : list triple) : Prop := Forall (fun t => Forall (fun c => plainb c = true) (snd t)) l.

Lemma bal_row w t : ws_ok w -> Forall (fun c => plainb c = true) (snd t) -> bal (print_row w t).
Proof.
  intros (B1 & B2 & B3 & B4 & B5 & B6) Pv. rewrite print_row_body.
  change (LBRACK :: row_body w t ++ [RBRACK]) with (LBRACK :: row_body w t ++ RBRACK :: []).
  apply bal_nest; [reflexivity|reflexivity| |constructor].
  unfold row_body.
  repeat first [apply bal_app | apply bal_plain; [reflexivity|] | apply plain_bal; apply blank_plain; assumption
               | apply plain_bal; apply print_nat_plain | apply plain_bal; exact Pv ].
Qed.

Lemma bal_rows w l : ws_ok w -> plain_vals l -> bal (print_rows w l).
Proof.
  intros W P. pose proof W as (B1 & B2 & B3 & B4 & B5 & B6).
  induction l as [|t r IH]; [constructor|]. inversion P as [|? ? Pt Pr]; subst.
  destruct r as [|t2 r]; [apply bal_row; assumption|].
  change (print_rows w (t :: t2 :: r)) with (print_row w t ++ [COMMA] ++ w_rows w ++ print_rows w (t2 :: r)).
  apply bal_app; [apply bal_row; assumption|]. apply bal_plain; [reflexivity|].
  apply bal_app; [apply plain_bal, blank_plain; exact B5|apply IH; exact Pr].
Qed.

Lemma bal_inner w l : ws_ok w -> plain_vals l -> bal (print_inner w l).
Proof.
  intros W P. pose proof W as (B1 & B2 & B3 & B4 & B5 & B6). unfold print_inner.
  destruct l as [|t r] eqn:E; [constructor|]. rewrite <- E in *.
  apply bal_app; [apply plain_bal, blank_plain; exact B1|].
  apply bal_app; [apply bal_rows; assumption|apply plain_bal, blank_plain; exact B6].
Qed.

Lemma find_char x a rest : Forall (fun c => c <> x) a -> find_sub [x] (a ++ x :: rest) = Some (length a).
Proof.
  intros F. induction F as [|c a Hc F IH].
  - cbn [app]. rewrite find_sub_unfold. cbn [prefixb]. rewrite Z.eqb_refl. reflexivity.
  - cbn [app]. rewrite find_sub_unfold. cbn [prefixb].
    assert (x =? c = false) as E by (apply Z.eqb_neq; congruence). rewrite E. cbn [andb].
    rewrite IH. reflexivity.
Qed.

Lemma space_not_lbrack w : Forall (fun c => is_space c = true) w -> Forall (fun c => c <> LBRACK) w.
Proof. apply Forall_impl. intros c H E. subst. discriminate. Qed.

(* direct_parse_key finds the whole "data" array by bracket matching, and direct_slice_data
   cuts out exactly what lies between its outer brackets *)
Theorem parse_key_data_ok_proof pre sp w l post :
  no_occ_before (key_pat K_DATA) (pre ++ (key_pat K_DATA ++ sp ++ print_ws w l) ++ post) (length pre) ->
  Forall (fun c => is_space c = true) sp -> ws_ok w -> plain_vals l ->
  direct_parse_key (pre ++ (key_pat K_DATA ++ sp ++ print_ws w l) ++ post) K_DATA
    = ROk (key_pat K_DATA ++ sp ++ print_ws w l)
  /\ data_inner (key_pat K_DATA ++ sp ++ print_ws w l) = print_inner w l.
Proof.
  intros Hocc Fs W P. split.
  - unfold direct_parse_key. rewrite <- !app_assoc in *. rewrite (find_sub_app _ _ _ Hocc).
    rewrite (skipn_app_exact pre _ _ eq_refl).
    rewrite (skipn_app_exact (key_pat K_DATA) _ _ (eq_sym (key_pat_length K_DATA))).
    unfold print_ws. cbn [app]. rewrite skip_space_app by (assumption || reflexivity).
    change (LBRACK =? QUOTE) with false. change (is_open LBRACK) with true. cbn [negb]. cbv iota.
    rewrite <- app_assoc. rewrite (scan_obj_bal _ (bal_inner w l W P)) by reflexivity.
    cbn [app scan_obj]. change (LBRACK =? QUOTE) with false. change (RBRACK =? QUOTE) with false.
    change (is_close RBRACK) with true. cbv iota.
    rewrite scan_obj_nil. f_equal.
    replace (key_pat K_DATA ++ sp ++ LBRACK :: print_inner w l ++ RBRACK :: post)
      with ((key_pat K_DATA ++ sp ++ LBRACK :: print_inner w l ++ [RBRACK]) ++ post)
      by (repeat (rewrite <- app_assoc; cbn [app]); reflexivity).
    apply firstn_app_exact. rewrite !app_length, key_pat_length. cbn [length]. rewrite app_length. cbn [length]. lia.
  - unfold data_inner, print_ws. cbn [app]. rewrite app_assoc.
    rewrite find_char by (apply Forall_app; split; [repeat constructor; discriminate|apply space_not_lbrack; exact Fs]).
    change (LBRACK :: print_inner w l ++ [RBRACK]) with ([LBRACK] ++ print_inner w l ++ [RBRACK]).
    rewrite app_assoc. rewrite skipn_app_exact by (rewrite !app_length; cbn [length]; lia).
    apply firstn_app_exact. rewrite !app_length. cbn [length]. lia.
Qed.

(* ------------------------------------------------------------------ arrays and objects holding strings *)
(* direct_parse_key on "key":<blanks><array or object>: the value is returned exactly, for every
   content of the strings inside it (ids and metadata with ] [ } { quotes, backslashes) *)
Theorem parse_key_value_ok_proof pre key sp o b cl post :
  no_occ_before (key_pat key) (pre ++ (key_pat key ++ sp ++ o :: b ++ [cl]) ++ post) (length pre) ->
  Forall (fun c => is_space c = true) sp -> is_open o = true -> is_close cl = true -> bal b ->
  direct_parse_key (pre ++ (key_pat key ++ sp ++ o :: b ++ [cl]) ++ post) key
    = ROk (key_pat key ++ sp ++ o :: b ++ [cl]).
Proof.
  intros Hocc Fs Ho Hcl B. destruct (open_facts o Ho) as [Q1 Q2]. pose proof (close_facts cl Hcl) as Q3.
  assert (is_space o = false) as Sp.
  { unfold is_open, LBRACK, LBRACE in Ho. destruct (o =? 91) eqn:E1; [zb; subst; reflexivity|].
    destruct (o =? 123) eqn:E2; [zb; subst; reflexivity|discriminate]. }
  unfold direct_parse_key. rewrite <- !app_assoc in *. rewrite (find_sub_app _ _ _ Hocc).
  rewrite (skipn_app_exact pre _ _ eq_refl).
  rewrite (skipn_app_exact (key_pat key) _ _ (eq_sym (key_pat_length key))).
  cbn [app]. rewrite skip_space_app by assumption.
  rewrite Q1, Ho. cbn [negb]. cbv iota.
  rewrite <- app_assoc. rewrite (scan_obj_bal _ B) by exact Q1.
  cbn [app scan_obj]. rewrite Q1, Q3, Hcl. rewrite scan_obj_nil. f_equal.
  replace (key_pat key ++ sp ++ o :: b ++ cl :: post) with ((key_pat key ++ sp ++ o :: b ++ [cl]) ++ post)
    by (repeat (rewrite <- app_assoc; cbn [app]); reflexivity).
  apply firstn_app_exact. rewrite !app_length, key_pat_length. cbn [length]. rewrite app_length. cbn [length]. lia.
Qed.

(* every value json.dumps prints is such a text *)
Definition plain_text (t : text) : Prop := Forall (fun c => plainb c = true) t.
Fixpoint jv_ok (v : jv) : Prop :=
  match v with
  | JNull | JTrue | JFalse => True
  | JNum tok => plain_text tok
  | JStr s => code_points s
  | JArr l => (fix go (l : list jv) : Prop := match l with [] => True | x :: r => jv_ok x /\ go r end) l
  | JObj l => (fix go (l : list (text * jv)) : Prop :=
                 match l with [] => True | (k, x) :: r => code_points k /\ jv_ok x /\ go r end) l
  end.

Lemma bal_jstring s : code_points s -> bal (print_jstring s).
Proof.
  intros H. unfold print_jstring. cbn [app].
  change (QUOTE :: json_escape s ++ [QUOTE]) with (QUOTE :: json_escape s ++ QUOTE :: []).
  apply bal_str; [apply json_escape_body; exact H|constructor].
Qed.

Lemma bal_brackets o b cl : is_open o = true -> is_close cl = true -> bal b -> bal ([o] ++ b ++ [cl]).
Proof. intros. cbn [app]. change (o :: b ++ [cl]) with (o :: b ++ cl :: []). apply bal_nest; try assumption. constructor. Qed.

Lemma dumps_bal : forall v, jv_ok v -> bal (dumps v).
Proof.
  fix IH 1. intros v. destruct v as [ | | | tok | s | l | l]; intros H.
  - apply plain_bal. repeat constructor.
  - apply plain_bal. repeat constructor.
  - apply plain_bal. repeat constructor.
  - apply plain_bal. exact H.
  - apply bal_jstring. exact H.
  - cbn [dumps]. apply bal_brackets; [reflexivity|reflexivity|]. simpl in H.
    induction l as [|x r IHr]; [constructor|]. destruct H as [Hx Hr].
    destruct r as [|y r']; [apply IH; exact Hx|].
    apply bal_app; [apply IH; exact Hx|]. apply bal_app; [apply plain_bal; repeat constructor|apply IHr; exact Hr].
  - cbn [dumps]. apply bal_brackets; [reflexivity|reflexivity|]. simpl in H.
    induction l as [|[k x] r IHr]; [constructor|]. destruct H as [Hk [Hx Hr]].
    destruct r as [|[k2 y] r'].
    + apply bal_app; [apply bal_jstring; exact Hk|]. apply bal_app; [apply plain_bal; repeat constructor|apply IH; exact Hx].
    + apply bal_app; [apply bal_jstring; exact Hk|]. apply bal_app; [apply plain_bal; repeat constructor|].
      apply bal_app; [apply IH; exact Hx|]. apply bal_app; [apply plain_bal; repeat constructor|apply IHr; exact Hr].
Qed.

Definition arr_items : list jv -> text :=
  fix go (l : list jv) : text :=
    match l with [] => [] | [x] => dumps x | x :: r => dumps x ++ SEP_ITEM ++ go r end.
Definition obj_items : list (text * jv) -> text :=
  fix go (l : list (text * jv)) : text :=
    match l with
    | [] => []
    | [(k, x)] => print_jstring k ++ SEP_KEY ++ dumps x
    | (k, x) :: r => print_jstring k ++ SEP_KEY ++ dumps x ++ SEP_ITEM ++ go r
    end.
Lemma dumps_arr l : dumps (JArr l) = LBRACK :: arr_items l ++ [RBRACK].
Proof. reflexivity. Qed.
Lemma dumps_obj l : dumps (JObj l) = LBRACE :: obj_items l ++ [RBRACE].
Proof. reflexivity. Qed.

Lemma arr_items_bal l : jv_ok (JArr l) -> bal (arr_items l).
Proof.
  simpl. induction l as [|x r IHr]; intros H; [constructor|]. destruct H as [Hx Hr].
  destruct r as [|y r']; [apply dumps_bal; exact Hx|].
  change (arr_items (x :: y :: r')) with (dumps x ++ SEP_ITEM ++ arr_items (y :: r')).
  apply bal_app; [apply dumps_bal; exact Hx|]. apply bal_app; [apply plain_bal; repeat constructor|apply IHr; exact Hr].
Qed.

Lemma obj_items_bal l : jv_ok (JObj l) -> bal (obj_items l).
Proof.
  simpl. induction l as [|[k x] r IHr]; intros H; [constructor|]. destruct H as [Hk [Hx Hr]].
  destruct r as [|[k2 y] r'].
  - change (obj_items [(k, x)]) with (print_jstring k ++ SEP_KEY ++ dumps x).
    apply bal_app; [apply bal_jstring; exact Hk|]. apply bal_app; [apply plain_bal; repeat constructor|apply dumps_bal; exact Hx].
  - change (obj_items ((k, x) :: (k2, y) :: r'))
      with (print_jstring k ++ SEP_KEY ++ dumps x ++ SEP_ITEM ++ obj_items ((k2, y) :: r')).
    apply bal_app; [apply bal_jstring; exact Hk|]. apply bal_app; [apply plain_bal; repeat constructor|].
    apply bal_app; [apply dumps_bal; exact Hx|]. apply bal_app; [apply plain_bal; repeat constructor|apply IHr; exact Hr].
Qed.

(* "rows"/"columns" (any key) followed by an array or object printed by json.dumps: ids and
   metadata strings of arbitrary content *)
Theorem parse_key_dumps_ok_proof pre key sp v post :
  (exists l, v = JArr l) \/ (exists l, v = JObj l) -> jv_ok v ->
  no_occ_before (key_pat key) (pre ++ (key_pat key ++ sp ++ dumps v) ++ post) (length pre) ->
  Forall (fun c => is_space c = true) sp ->
  direct_parse_key (pre ++ (key_pat key ++ sp ++ dumps v) ++ post) key = ROk (key_pat key ++ sp ++ dumps v).
Proof.
  intros Hv Hok Hocc Fs. destruct Hv as [[l ->]|[l ->]].
  - rewrite dumps_arr in *. apply parse_key_value_ok_proof; try assumption; try reflexivity.
    apply arr_items_bal. exact Hok.
  - rewrite dumps_obj in *. apply parse_key_value_ok_proof; try assumption; try reflexivity.
    apply obj_items_bal. exact Hok.
Qed.

(* ------------------------------------------------------------------ the ids file of the command *)
Lemma split_char_lines ls : Forall (fun l => ~ In NL l) ls ->
  split_char NL (flat_map (fun l => l ++ [NL]) ls) = ls ++ [[]].
Proof.
  intros F. induction F as [|l ls Hl F IH]; [reflexivity|].
  cbn [flat_map]. rewrite <- app_assoc. cbn [app]. rewrite split_char_app by exact Hl. rewrite IH. reflexivity.
Qed.

Lemma split_lines_lines ls : Forall (fun l => ~ In NL l) ls ->
  split_lines (flat_map (fun l => l ++ [NL]) ls) = ls.
Proof.
  intros F. unfold split_lines. rewrite (split_char_lines ls F), rev_app_distr. cbn [rev app]. apply rev_involutive.
Qed.

Definition ids_line_body (l : ids_line) : text :=
  match snd l with None => fst l | Some extra => fst l ++ TAB :: extra end.

Lemma print_ids_file_lines ls : print_ids_file ls = flat_map (fun l => l ++ [NL]) (map ids_line_body ls).
Proof.
  unfold print_ids_file. induction ls as [|[i [e|]] ls IH]; [reflexivity| |]; cbn [flat_map map]; rewrite IH;
    unfold print_ids_line, ids_line_body; cbn [fst snd]; [|reflexivity].
  repeat (rewrite <- app_assoc; cbn [app]). reflexivity.
Qed.

Lemma strip_self p M : M <> [] -> p (hd 0 M) = false -> p (last M 0) = false -> strip p M = M.
Proof.
  intros. pose proof (strip_mid p [] M [] (Forall_nil _) (Forall_nil _)) as S. rewrite app_nil_r in S. apply S; assumption.
Qed.

Lemma not_hash_line c rest (X : list text) : c <> 35 ->
  match c :: rest with 35 :: _ => [] | _ => X end = X.
Proof.
  intros H. destruct c as [|p|p]; try reflexivity.
  do 6 (destruct p as [p|p|]; try reflexivity). congruence.
Qed.

Lemma read_line_ok l : ids_line_ok l ->
  match ids_line_body l with
  | 35 :: _ => []
  | _ => [hd [] (split_char TAB (strip is_space (ids_line_body l)))]
  end = [fst l].
Proof.
  destruct l as [i [e|]]; intros [(Hne & Hh & Hl & Ht & Hn & Hc) He]; unfold ids_line_body; cbn [fst snd] in *.
  - destruct He as (Ene & El & _).
    assert (E : strip is_space (i ++ TAB :: e) = i ++ TAB :: e).
    { apply strip_self.
      - destruct i; [congruence|discriminate].
      - rewrite hd_app_nonempty by exact Hne. exact Hh.
      - change (i ++ TAB :: e) with (i ++ [TAB] ++ e). rewrite app_assoc, last_app_nonempty by exact Ene. exact El. }
    rewrite E, split_char_app by exact Ht.
    destruct i as [|c i']; [congruence|]. cbn [app hd] in *. destruct c as [|p|p]; try reflexivity; do 6 (destruct p as [p|p|]; try reflexivity); congruence.
  - rewrite strip_self by assumption. rewrite split_char_none by exact Ht.
    destruct i as [|c i']; [congruence|]. cbn [hd] in *. destruct c as [|p|p]; try reflexivity; do 6 (destruct p as [p|p|]; try reflexivity); congruence.
Qed.

Lemma ids_line_body_no_nl l : ids_line_ok l -> ~ In NL (ids_line_body l).
Proof.
  destruct l as [i [e|]]; intros [(Hne & Hh & Hl & Ht & Hn & Hc) He]; unfold ids_line_body; cbn [fst snd] in *; [|exact Hn].
  destruct He as (_ & _ & En). apply not_in_app; [exact Hn|]. intros [H|H]; [discriminate|contradiction].
Qed.

(* the command reads back exactly the ids written in the first column, whatever follows the tab *)
Theorem read_ids_file_ok_proof ls : Forall ids_line_ok ls -> read_ids_file (print_ids_file ls) = map fst ls.
Proof.
  intros F. unfold read_ids_file. rewrite print_ids_file_lines, split_lines_lines.
  - induction F as [|l ls Hl F IH]; [reflexivity|]. cbn [map flat_map]. rewrite (read_line_ok l Hl), IH. reflexivity.
  - apply Forall_forall. intros b Hb. apply in_map_iff in Hb. destruct Hb as [l [<- Hin]].
    rewrite Forall_forall in F. apply ids_line_body_no_nl. apply F. exact Hin.
Qed.
