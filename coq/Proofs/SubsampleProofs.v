(* proofs for C12: the walk of _subsample_without_replacement (K4), the two kernels per vector,
   Table.subsample at the content level *)
From Coq Require Import List Arith ZArith Lia Bool Permutation.
From BiomV Require Import Base.Tree Base.ListUtil Base.Matrix Model.Table Model.Orient Model.Filter Model.Stored
  Model.Subsample Proofs.FilterProofs Proofs.StoredProofs.
Import ListNotations.

(* ------------------------------------------------------------------ sorted lists, counting *)
Lemma incr_nondecr P : incr P -> nondecr P.
Proof.
  induction P as [|x P IH]; simpl; [trivial|]. intros [A B]. split; [|apply IH; exact B].
  eapply Forall_impl; [|exact A]. simpl. intros; lia.
Qed.

Lemma incrb_incr P : incrb P = true -> incr P.
Proof.
  induction P as [|x P IH]; simpl; [trivial|]. rewrite andb_true_iff, forallb_forall. intros [A B].
  split; [|apply IH; exact B]. apply Forall_forall. intros q Hq. apply Z.ltb_lt. apply A. exact Hq.
Qed.

Lemma choice_okb_ok total n P : choice_okb total n P = true -> choice_ok total n P.
Proof.
  unfold choice_okb, choice_ok. rewrite !andb_true_iff, forallb_forall, Nat.eqb_eq. intros [[A B] C].
  split; [apply incrb_incr; exact A|]. split; [|exact C].
  apply Forall_forall. intros p Hp. specialize (B p Hp). apply andb_true_iff in B. destruct B as [B1 B2].
  apply Z.leb_le in B1. apply Z.ltb_lt in B2. lia.
Qed.

Lemma cnt_nil lo hi : cnt lo hi [] = 0%Z.
Proof. reflexivity. Qed.

Lemma cnt_cons lo hi p P : cnt lo hi (p :: P) = ((if inb lo hi p then 1 else 0) + cnt lo hi P)%Z.
Proof. unfold cnt. simpl. destruct (inb lo hi p); simpl length; lia. Qed.

Lemma cnt_app lo hi P1 P2 : cnt lo hi (P1 ++ P2) = (cnt lo hi P1 + cnt lo hi P2)%Z.
Proof. unfold cnt. rewrite filter_app, app_length. lia. Qed.

Lemma cnt_nonneg lo hi P : (0 <= cnt lo hi P)%Z.
Proof. unfold cnt. lia. Qed.

Lemma inb_true lo hi p : inb lo hi p = true <-> (lo <= p < hi)%Z.
Proof. unfold inb. rewrite andb_true_iff, Z.leb_le, Z.ltb_lt. tauto. Qed.

Lemma inb_false lo hi p : inb lo hi p = false <-> (p < lo \/ hi <= p)%Z.
Proof. unfold inb. rewrite andb_false_iff, Z.leb_gt, Z.ltb_ge. tauto. Qed.

Lemma cnt_zero_below lo hi P : Forall (fun p => (p < lo)%Z) P -> cnt lo hi P = 0%Z.
Proof.
  induction 1 as [|p P Hp _ IH]; [reflexivity|]. rewrite cnt_cons, IH.
  replace (inb lo hi p) with false; [reflexivity|]. symmetry. apply inb_false. lia.
Qed.

Lemma cnt_zero_above lo hi P : Forall (fun p => (hi <= p)%Z) P -> cnt lo hi P = 0%Z.
Proof.
  induction 1 as [|p P Hp _ IH]; [reflexivity|]. rewrite cnt_cons, IH.
  replace (inb lo hi p) with false; [reflexivity|]. symmetry. apply inb_false. lia.
Qed.

Lemma cnt_split lo mid hi P : (lo <= mid <= hi)%Z -> (cnt lo mid P + cnt mid hi P = cnt lo hi P)%Z.
Proof.
  intros H. induction P as [|p P IH]; [reflexivity|]. rewrite !cnt_cons.
  destruct (inb lo mid p) eqn:E1, (inb mid hi p) eqn:E2, (inb lo hi p) eqn:E3;
    try apply inb_true in E1; try apply inb_true in E2; try apply inb_true in E3;
    try apply inb_false in E1; try apply inb_false in E2; try apply inb_false in E3; lia.
Qed.

Lemma cnt_all lo hi P : Forall (fun p => (lo <= p < hi)%Z) P -> cnt lo hi P = Z.of_nat (length P).
Proof.
  induction 1 as [|p P Hp _ IH]; [reflexivity|]. rewrite cnt_cons, IH.
  replace (inb lo hi p) with true; [simpl length; lia|]. symmetry. apply inb_true. exact Hp.
Qed.

(* n distinct integers do not fit into fewer than n places *)
Lemma cnt_le_width P : incr P -> forall lo hi, (cnt lo hi P <= Z.max 0 (hi - lo))%Z.
Proof.
  induction P as [|p P IH]; intros Hi lo hi; [rewrite cnt_nil; lia|].
  destruct Hi as [Hgt Hi]. rewrite cnt_cons. destruct (inb lo hi p) eqn:E.
  - apply inb_true in E.
    assert (S : cnt lo hi P = cnt (p + 1) hi P).
    { rewrite <- (cnt_split lo (p + 1) hi P) by lia.
      rewrite (cnt_zero_above lo (p + 1) P); [lia|]. eapply Forall_impl; [|exact Hgt]. simpl. intros; lia. }
    rewrite S. specialize (IH Hi (p + 1)%Z hi). lia.
  - specialize (IH Hi lo hi). lia.
Qed.

(* ------------------------------------------------------------------ offsets *)
Lemma firstn_S_nth {A} (l : list A) k d : k < length l -> firstn (S k) l = firstn k l ++ [nth k l d].
Proof.
  revert k. induction l as [|x l IH]; intros k Hk; simpl in *; [lia|].
  destruct k as [|k]; [reflexivity|]. simpl. f_equal. apply IH. lia.
Qed.

Lemma nth_firstn_lt {A} (l : list A) k i d : i < k -> nth i (firstn k l) d = nth i l d.
Proof.
  revert k i. induction l as [|x l IH]; intros k i Hi; [destruct k, i; reflexivity|].
  destruct k as [|k]; [lia|]. destruct i as [|i]; [reflexivity|]. simpl. apply IH. lia.
Qed.

Section Offsets.
  Variable a : list Z.
  Hypothesis Hnn : Forall (fun x => (0 <= x)%Z) a.

  Lemma off_0 : off a 0 = 0%Z.
  Proof. reflexivity. Qed.

  Lemma off_S k : k < length a -> off a (S k) = (off a k + nth k a 0)%Z.
  Proof. intros Hk. unfold off. rewrite (firstn_S_nth a k 0%Z Hk), zsum_app. simpl. lia. Qed.

  Lemma off_all k : length a <= k -> off a k = zsum a.
  Proof. intros Hk. unfold off. rewrite firstn_all2 by exact Hk. reflexivity. Qed.

  Lemma nth_nonneg k : (0 <= nth k a 0)%Z.
  Proof.
    destruct (Nat.lt_ge_cases k (length a)) as [H|H]; [|rewrite nth_overflow by exact H; lia].
    rewrite Forall_forall in Hnn. apply Hnn. apply nth_In. exact H.
  Qed.

  Lemma off_step k : (off a k <= off a (S k))%Z.
  Proof.
    destruct (Nat.lt_ge_cases k (length a)) as [H|H].
    - rewrite off_S by exact H. pose proof (nth_nonneg k). lia.
    - rewrite !off_all by lia. lia.
  Qed.

  Lemma off_mono j k : j <= k -> (off a j <= off a k)%Z.
  Proof. induction 1 as [|k _ IH]; [lia|]. pose proof (off_step k). lia. Qed.

  Lemma off_le_total k : (off a k <= zsum a)%Z.
  Proof.
    destruct (Nat.lt_ge_cases k (length a)) as [H|H]; [|rewrite off_all by exact H; lia].
    rewrite <- (off_all (length a)) by lia. apply off_mono. lia.
  Qed.

  (* ---------------------------------------------------------------- the walk: invariant *)
  (* P1 = the sorted draws processed so far *)
  Definition Inv (P1 : list Z) (st : wstate) : Prop :=
    w_ok st = true /\ w_el st < length a /\ length (w_out st) = length a /\
    (off a (w_el st) <= w_count_el st)%Z /\
    (w_count_el st + w_count_rem st = off a (S (w_el st)))%Z /\
    Forall (fun p => (p < off a (S (w_el st)))%Z) P1 /\
    (forall j, j < w_el st -> nth j (w_out st) 0%Z = cnt (off a j) (off a (S j)) P1) /\
    w_el_cnt st = cnt (off a (w_el st)) (off a (S (w_el st))) P1.

  Lemma advance_inv fuel : forall st P1 p,
    Inv P1 st -> length a <= fuel + S (w_el st) -> (w_count_el st <= p)%Z -> (p < zsum a)%Z ->
    Inv P1 (advance fuel a p st) /\ (p < off a (S (w_el (advance fuel a p st))))%Z /\
    (w_count_el (advance fuel a p st) <= p)%Z.
  Proof.
    induction fuel as [|fuel IH]; intros [out el ce cr ec ok] P1 p HI Hf Hce Hp;
      pose proof HI as (I1 & I2 & I3 & I4 & I5 & I6 & I7 & I8); simpl in *.
    - destruct (Z.leb_spec cr (p - ce)) as [Hc|Hc]; simpl.
      + exfalso. assert (E : S el = length a) by lia. rewrite (off_all (S el)) in I5 by lia. lia.
      + repeat split; try assumption; lia.
    - destruct (Z.leb_spec cr (p - ce)) as [Hc|Hc]; simpl.
      + assert (Hel : S el < length a).
        { destruct (Nat.lt_ge_cases (S el) (length a)) as [H|H]; [exact H|].
          exfalso. rewrite (off_all (S el)) in I5 by lia. lia. }
        apply IH; simpl; try lia.
        unfold Inv, advance1; simpl. repeat split.
        * rewrite I1. simpl. apply Nat.ltb_lt. exact Hel.
        * exact Hel.
        * rewrite upd_length. exact I3.
        * lia.
        * rewrite (off_S (S el)) by exact Hel. lia.
        * eapply Forall_impl; [|exact I6]. simpl. intros q Hq. pose proof (off_step (S el)). lia.
        * intros j Hj. destruct (Nat.eq_dec j el) as [->|Hne].
          -- rewrite nth_upd_eq by lia. exact I8.
          -- rewrite nth_upd_neq by lia. apply I7. lia.
        * symmetry. apply cnt_zero_below. exact I6.
      + repeat split; try assumption; lia.
  Qed.

  Lemma body_inv st P1 p :
    Inv P1 st -> (w_count_el st <= p)%Z -> (p < zsum a)%Z ->
    Inv (P1 ++ [p]) (walk_body a st p) /\ w_count_el (walk_body a st p) = p.
  Proof.
    intros HI Hce Hp. pose proof HI as (_ & I2 & _).
    destruct (advance_inv (length a) st P1 p HI ltac:(lia) Hce Hp) as (HJ & Hlt & Hle).
    unfold walk_body. destruct (advance (length a) a p st) as [out el ce cr ec ok]. simpl in *.
    destruct HJ as (J1 & J2 & J3 & J4 & J5 & J6 & J7 & J8). simpl in *.
    split; [|reflexivity]. unfold Inv; simpl. repeat split; try assumption; try lia.
    - apply Forall_app. split; [exact J6|]. constructor; [exact Hlt|constructor].
    - intros j Hj. rewrite cnt_app, (J7 j Hj).
      rewrite (cnt_zero_above _ _ [p]); [lia|]. constructor; [|constructor].
      assert (off a (S j) <= off a el)%Z by (apply off_mono; lia). lia.
    - rewrite cnt_app, J8. rewrite cnt_cons, cnt_nil.
      replace (inb (off a el) (off a (S el)) p) with true; [lia|]. symmetry. apply inb_true. lia.
  Qed.

  Lemma fold_inv : forall P2 P1 st,
    Inv P1 st -> nondecr P2 -> Forall (fun q => (w_count_el st <= q < zsum a)%Z) P2 ->
    Inv (P1 ++ P2) (fold_left (walk_body a) P2 st).
  Proof.
    induction P2 as [|p P2 IH]; intros P1 st HI Hs Hb; simpl.
    - rewrite app_nil_r. exact HI.
    - destruct Hs as [Hge Hs]. inversion Hb as [|? ? Hp Hb']; subst.
      destruct (body_inv st P1 p HI ltac:(lia) ltac:(lia)) as [HJ Hc].
      replace (P1 ++ p :: P2) with ((P1 ++ [p]) ++ P2) by (rewrite <- app_assoc; reflexivity).
      apply IH; [exact HJ|exact Hs|]. rewrite Hc.
      rewrite Forall_forall in *. intros q Hq. specialize (Hge q Hq). specialize (Hb' q Hq). lia.
  Qed.
End Offsets.

Lemma fold_seq_nth {S} (f : S -> Z -> S) (P : list Z) : forall st,
  fold_left (fun st idx => f st (nth idx P 0%Z)) (seq 0 (length P)) st = fold_left f P st.
Proof.
  assert (G : forall l st, fold_left (fun st idx => f st (nth idx P 0%Z)) l st
                           = fold_left f (map (fun idx => nth idx P 0%Z) l) st).
  { induction l as [|i l IH]; intros st; simpl; [reflexivity|]. apply IH. }
  intros st. rewrite G, map_nth_seq. reflexivity.
Qed.

(* K4: the result of the walk is the occupancy vector of the chosen unit positions.
   Sortedness is only needed weakly here; distinctness is what bounds an entry by its count. *)
Theorem walk_counts_weak n a P :
  Forall (fun x => (0 <= x)%Z) a -> nondecr P -> Forall (fun p => (0 <= p < zsum a)%Z) P -> length P = n ->
  length (fst (walk n a P)) = length a /\
  (forall i, i < length a -> nth i (fst (walk n a P)) 0%Z = cnt (off a i) (off a i + nth i a 0)%Z P) /\
  (a <> [] -> snd (walk n a P) = true).
Proof.
  intros Hnn Hs Hb Hn. subst n. unfold walk. rewrite (fold_seq_nth (walk_body a) P).
  destruct a as [|x a'] eqn:Ea.
  - (* no entry: no unit can have been chosen *)
    destruct P as [|p P]; [|inversion Hb; subst; simpl in *; lia].
    simpl. split; [reflexivity|]. split; [intros i Hi; simpl in Hi; lia|]. intros H; contradiction.
  - rewrite <- Ea in *. assert (Hlen : 0 < length a) by (rewrite Ea; simpl; lia).
    assert (I0 : Inv a [] (walk_init a)).
    { unfold Inv, walk_init; simpl. pose proof (off_S a 0 Hlen) as E1. pose proof (off_0 a) as E0.
      repeat split; try lia; try constructor. apply Nat.ltb_lt. exact Hlen. }
    pose proof (fold_inv a Hnn P [] (walk_init a) I0 Hs) as HI. simpl in HI.
    specialize (HI Hb).
    destruct (fold_left (walk_body a) P (walk_init a)) as [out el ce cr ec ok].
    destruct HI as (J1 & J2 & J3 & J4 & J5 & J6 & J7 & J8).
    cbn [w_ok w_el w_out w_count_el w_count_rem w_el_cnt fst snd] in *.
    assert (Lo : length (upd out el ec) = length a) by (rewrite upd_length; exact J3).
    split; [|split].
    + rewrite app_length, firstn_length_le, repeat_length by lia. lia.
    + intros i Hi. rewrite <- (off_S a i Hi).
      destruct (Nat.lt_ge_cases i (S el)) as [H|H].
      * rewrite app_nth1 by (rewrite firstn_length_le by lia; exact H).
        rewrite nth_firstn_lt by exact H.
        destruct (Nat.eq_dec i el) as [->|Hne].
        -- rewrite nth_upd_eq by lia. exact J8.
        -- rewrite nth_upd_neq by lia. apply J7. lia.
      * rewrite app_nth2 by (rewrite firstn_length_le by lia; exact H).
        rewrite nth_repeat. symmetry. apply cnt_zero_below.
        eapply Forall_impl; [|exact J6]. simpl. intros q Hq.
        assert (off a (S el) <= off a i)%Z by (apply off_mono; [exact Hnn|lia]). lia.
    + intros _. exact J1.
Qed.

Lemma cnt_empty lo hi P : (hi <= lo)%Z -> cnt lo hi P = 0%Z.
Proof.
  intros H. induction P as [|p P IH]; [reflexivity|]. rewrite cnt_cons, IH.
  replace (inb lo hi p) with false; [reflexivity|]. symmetry. apply inb_false. lia.
Qed.

Lemma zsum_map_cnt a P : Forall (fun x => (0 <= x)%Z) a -> forall k, k <= length a ->
  zsum (map (fun i => cnt (off a i) (off a i + nth i a 0)%Z P) (seq 0 k)) = cnt 0 (off a k) P.
Proof.
  intros Hnn. induction k as [|k IH]; intros Hk.
  - simpl. symmetry. apply cnt_empty. rewrite off_0. lia.
  - rewrite seq_S, map_app, zsum_app, IH by lia. simpl. rewrite <- (off_S a k) by lia.
    rewrite Z.add_0_r. apply cnt_split. split; [|apply off_step; exact Hnn].
    rewrite <- (off_0 a). apply off_mono; [exact Hnn|lia].
Qed.

(* K4 under the contract of choice: exact counts, sum n, every entry between 0 and its count *)
Theorem walk_spec n a P :
  Forall (fun x => (0 <= x)%Z) a -> choice_ok (zsum a) n P ->
  length (fst (walk n a P)) = length a /\
  (forall i, i < length a -> nth i (fst (walk n a P)) 0%Z = cnt (off a i) (off a i + nth i a 0)%Z P) /\
  zsum (fst (walk n a P)) = Z.of_nat n /\
  (forall i, (0 <= nth i (fst (walk n a P)) 0 <= nth i a 0)%Z) /\
  (1 <= n -> snd (walk n a P) = true).
Proof.
  intros Hnn (Hi & Hb & Hn).
  destruct (walk_counts_weak n a P Hnn (incr_nondecr P Hi) Hb Hn) as (L & C & K).
  split; [exact L|]. split; [exact C|]. split; [|split].
  - assert (E : fst (walk n a P) = map (fun i => cnt (off a i) (off a i + nth i a 0)%Z P) (seq 0 (length a))).
    { apply (list_ext 0%Z); [rewrite map_length, seq_length; exact L|].
      intros i Hi'. rewrite L in Hi'. rewrite nth_map_seq by exact Hi'. apply C. exact Hi'. }
    rewrite E, (zsum_map_cnt a P Hnn (length a)) by lia.
    rewrite (off_all a (length a)) by lia. rewrite cnt_all by exact Hb. rewrite Hn. reflexivity.
  - intros i. destruct (Nat.lt_ge_cases i (length a)) as [H|H].
    + rewrite (C i H). pose proof (cnt_nonneg (off a i) (off a i + nth i a 0)%Z P).
      pose proof (cnt_le_width P Hi (off a i) (off a i + nth i a 0)%Z).
      pose proof (nth_nonneg a Hnn i). lia.
    + rewrite !nth_overflow by lia. lia.
  - intros H1. apply K. intros ->. destruct P as [|p P]; [simpl in Hn; lia|].
    inversion Hb; subst. simpl in *. lia.
Qed.

(* what goes wrong when the draws are not distinct: an entry can exceed its count *)
Lemma walk_duplicates_exceed : exists a P, nondecr P /\ Forall (fun p => (0 <= p < zsum a)%Z) P /\
  (nth 0 a 0 < nth 0 (fst (walk (length P) a P)) 0)%Z.
Proof. exists [1; 5]%Z, [0; 0]%Z. vm_compute. repeat split; repeat constructor; discriminate. Qed.

(* ------------------------------------------------------------------ one vector through its layout *)
Local Arguments walk : simpl never.
(* v' can be the result of subsampling v to depth n without replacement *)
Definition Rwo (n : nat) (v v' : list Z) : Prop :=
  length v' = length v /\ (forall j, (0 <= nth j v' 0 <= nth j v 0)%Z) /\
  zsum v' = (if (zsum v <? Z.of_nat n)%Z then 0 else Z.of_nat n)%Z.

Lemma Forall_nth_nonneg v j : Forall (fun x => (0 <= x)%Z) v -> (0 <= nth j v 0)%Z.
Proof. intros H. apply (nth_nonneg v H j). Qed.

Lemma gather_nonneg ord v : Forall (fun x => (0 <= x)%Z) v -> Forall (fun x => (0 <= x)%Z) (gather 0%Z ord v).
Proof.
  intros H. unfold gather. apply Forall_forall. intros x Hx. apply in_map_iff in Hx.
  destruct Hx as [j [<- _]]. apply Forall_nth_nonneg. exact H.
Qed.

Lemma scatter_bound v ord out :
  ord_wf v ord -> Forall (fun x => (0 <= x)%Z) v ->
  (forall k, (0 <= nth k out 0 <= nth k (gather 0%Z ord v) 0)%Z) ->
  forall j, (0 <= nth j (scatter 0%Z (length v) ord out) 0 <= nth j v 0)%Z.
Proof.
  intros (Hn & Hb & Hs) Hv Ho j. destruct (Nat.lt_ge_cases j (length v)) as [Hj|Hj].
  - rewrite nth_scatter by exact Hj. destruct (nfind j ord) as [k|] eqn:E.
    + apply nfind_Some in E. destruct E as [E Hk]. specialize (Ho k).
      unfold gather in Ho. rewrite (nth_map_in _ ord k 0 0%Z Hk) in Ho. rewrite E in Ho. exact Ho.
    + pose proof (Forall_nth_nonneg v j Hv). lia.
  - rewrite !nth_overflow by (rewrite ?scatter_length; lia). lia.
Qed.

Lemma sub_seg_R n v ord draws :
  ord_wf v ord -> Forall (fun x => (0 <= x)%Z) v -> draws_ok n [zsum v] draws ->
  Rwo n v (scatter 0%Z (length v) ord (fst (fst (sub_seg n (gather 0%Z ord v) draws)))).
Proof.
  intros W Hv Hd. pose proof W as (Hn & Hb & Hs). unfold sub_seg. rewrite (zsum_gather v ord W).
  simpl in Hd. unfold Rwo. destruct (zsum v <? Z.of_nat n)%Z eqn:E.
  - cbn [fst snd]. split; [apply scatter_length|]. split.
    + apply scatter_bound; try assumption. intros k. rewrite nth_repeat.
      pose proof (Forall_nth_nonneg _ k (gather_nonneg ord v Hv)). lia.
    + rewrite zsum_scatter; try assumption; [apply zsum_repeat0|rewrite repeat_length; apply gather_length].
  - destruct draws as [|P rest]; [contradiction|]. destruct Hd as [Hc _].
    rewrite <- (zsum_gather v ord W) in Hc.
    destruct (walk_spec n (gather 0%Z ord v) P (gather_nonneg ord v Hv) Hc) as (L & _ & S & B & _).
    destruct (walk n (gather 0%Z ord v) P) as [o ok]. cbn [fst snd] in *.
    split; [apply scatter_length|]. split.
    + apply scatter_bound; assumption.
    + rewrite zsum_scatter; try assumption. rewrite L. apply gather_length.
Qed.

Lemma draws_ok_tail n s ts draws :
  draws_ok n (s :: ts) draws ->
  draws_ok n [s] draws /\ forall seg, zsum seg = s -> draws_ok n ts (snd (fst (sub_seg n seg draws))).
Proof.
  simpl. unfold sub_seg. destruct (s <? Z.of_nat n)%Z eqn:E.
  - intros H. split; [trivial|]. intros seg Hs. rewrite Hs, E. simpl. exact H.
  - destruct draws as [|P rest]; [contradiction|]. intros [A B]. split; [split; [exact A|trivial]|].
    intros seg Hs. rewrite Hs, E. destruct (walk n seg P). simpl. exact B.
Qed.

Lemma sub_vecs_R n : forall vs lay draws,
  lay_wf vs lay -> Forall (Forall (fun x => (0 <= x)%Z)) vs -> draws_ok n (map zsum vs) draws ->
  Forall2 (Rwo n) vs (sub_vecs n vs lay draws).
Proof.
  intros vs lay draws H. revert draws. induction H as [|v ord vs lay W _ IH]; intros draws Hv Hd; simpl; [constructor|].
  inversion Hv as [|? ? Hv1 Hv2]; subst. simpl in Hd. apply draws_ok_tail in Hd. destruct Hd as [D1 D2].
  pose proof (sub_seg_R n v ord draws W Hv1 D1) as R1.
  specialize (D2 (gather 0%Z ord v) (zsum_gather v ord W)).
  destruct (sub_seg n (gather 0%Z ord v) draws) as [[o draws'] ok]. simpl in *.
  constructor; [exact R1|]. apply IH; assumption.
Qed.

(* ------------------------------------------------------------------ the two closing filters *)
Definition posb (v : list Z) : bool := (0 <? zsum v)%Z.

Lemma drop_nonpositive_mask a t : wf t -> drop_nonpositive a t = filter_table (map posb (axis_vecs a t)) a t.
Proof.
  intros W. unfold drop_nonpositive, filter_pred, sum_pos_verdicts. rewrite (sum_pos_mask a t W), xorb_false_map.
  reflexivity.
Qed.

Lemma filter_mask_n_other m a t : n_other a (filter_mask m a t) = n_other a t.
Proof. destruct a; reflexivity. Qed.

Lemma nonneg_axis_vecs a t : nonneg_table t -> Forall (Forall (fun x => (0 <= x)%Z)) (axis_vecs a t).
Proof.
  intros H. destruct a; simpl; [exact H|]. unfold transpose. apply Forall_forall. intros c Hc.
  apply in_map_iff in Hc. destruct Hc as [j [<- _]]. unfold mcol. apply Forall_forall. intros x Hx.
  apply in_map_iff in Hx. destruct Hx as [r [<- Hr]]. unfold nonneg_table in H. rewrite Forall_forall in H.
  apply Forall_nth_nonneg. apply H. exact Hr.
Qed.

Lemma posb_all_zero c : Forall (fun x => (0 <= x)%Z) c -> posb c = negb (all_zero c).
Proof.
  unfold posb, all_zero. induction 1 as [|x c Hx Hc IH]; [reflexivity|].
  change (zsum (x :: c)) with (x + zsum c)%Z.
  change (forallb (Z.eqb 0) (x :: c)) with (Z.eqb 0 x && forallb (Z.eqb 0) c).
  pose proof (zsum_nonneg c Hc). destruct (Z.eqb_spec 0 x) as [<-|Hne].
  - cbn [andb]. rewrite Z.add_0_l. exact IH.
  - cbn [andb negb]. apply Z.ltb_lt. lia.
Qed.

Lemma map_ext_Forall {A B} (f g : A -> B) l : Forall (fun x => f x = g x) l -> map f l = map g l.
Proof. induction 1 as [|x l Hx _ IH]; simpl; [reflexivity|]. rewrite Hx, IH. reflexivity. Qed.

(* the metadata normalisation at the end of Table.filter changes neither ids nor values *)
Lemma axis_vecs_filter_table m a b t : axis_vecs b (filter_table m a t) = axis_vecs b (filter_mask m a t).
Proof. destruct a, b; reflexivity. Qed.

Lemma cell_filter_table m a t o s : cell (filter_table m a t) o s = cell (filter_mask m a t) o s.
Proof. reflexivity. Qed.

Lemma n_other_filter_table m a b t : n_other b (filter_table m a t) = n_other b (filter_mask m a t).
Proof. destruct a, b; reflexivity. Qed.

Lemma filter_table_norm_inner m b X :
  (forall c, ids c (filter_table m b (norm_md X)) = ids c (filter_mask m b X)) /\
  (forall c, axis_vecs c (filter_table m b (norm_md X)) = axis_vecs c (filter_mask m b X)) /\
  (forall o s, cell (filter_table m b (norm_md X)) o s = cell (filter_mask m b X) o s) /\
  ttype (filter_table m b (norm_md X)) = ttype (filter_mask m b X).
Proof. repeat split; intros; destruct b; try destruct c; reflexivity. Qed.

Section Finish.
  Variable a : axis.
  Variable K : table.
  Hypothesis WK : wf K.
  Hypothesis NK : Forall (Forall (fun x => (0 <= x)%Z)) (axis_vecs a K).

  Variable m1 : list bool.      (* the vectors kept on the axis *)

  Let vs1 := axis_vecs a K.
  Let T1 := filter_mask m1 a K.
  Let vs2 := select m1 vs1.
  Let C := n_other a K.
  Let m2 := map posb (transpose C vs2).
  Let T2 := filter_mask m2 (other a) T1.

  Lemma T1_other_vecs : axis_vecs (other a) T1 = transpose C vs2.
  Proof.
    assert (W1 : wf T1) by (apply wf_filter_mask; exact WK).
    rewrite (axis_vecs_other a T1 W1). unfold T1. rewrite filter_mask_n_other, (axis_vecs_filter_same m1 a K WK).
    reflexivity.
  Qed.

  Lemma finish_wf : wf T2.
  Proof. apply wf_filter_mask. apply wf_filter_mask. exact WK. Qed.

  Lemma other_other : other (other a) = a.
  Proof. destruct a; reflexivity. Qed.

  Lemma finish_ids_axis : ids a T2 = select m1 (ids a K).
  Proof.
    unfold T2. pose proof (filter_mask_other m2 (other a) T1) as (E & _). rewrite other_other in E. rewrite E.
    apply ids_filter_same.
  Qed.

  Lemma finish_ids_other : ids (other a) T2 = select m2 (ids (other a) K).
  Proof.
    unfold T2. rewrite ids_filter_same. pose proof (filter_mask_other m1 a K) as (E & _). fold T1 in E. rewrite E.
    reflexivity.
  Qed.

  Lemma finish_vecs_axis : axis_vecs a T2 = map (select m2) vs2.
  Proof. unfold T2. rewrite axis_vecs_filter_other. unfold T1. rewrite (axis_vecs_filter_same m1 a K WK). reflexivity. Qed.

  Lemma finish_vecs_other : axis_vecs (other a) T2 = filter posb (axis_vecs (other a) T1).
  Proof.
    assert (W1 : wf T1) by (apply wf_filter_mask; exact WK).
    unfold T2. rewrite (axis_vecs_filter_same m2 (other a) T1 W1). rewrite T1_other_vecs.
    unfold m2. apply select_map_filter.
  Qed.

  Lemma vs2_shape : Forall (fun v => length v = C /\ Forall (fun x => (0 <= x)%Z) v) vs2.
  Proof.
    unfold vs2. apply Forall_select. pose proof (axis_vecs_rect a K WK) as R. unfold rect in R.
    fold vs1 C in R. fold vs1 in NK. rewrite Forall_forall in *. intros v Hv. split; [apply R|apply NK]; exact Hv.
  Qed.

  (* dropping the other-axis positions whose vector over the retained vectors is all zero
     does not change the sum of a retained vector *)
  Lemma finish_sum v : In v vs2 -> zsum (select m2 v) = zsum v.
  Proof.
    intros Hv. pose proof vs2_shape as Sh. rewrite Forall_forall in Sh. destruct (Sh v Hv) as [Lv Nv].
    apply zsum_select_zero.
    - unfold m2. rewrite map_length, transpose_length. symmetry. exact Lv.
    - intros j Hj Hm. rewrite Lv in Hj. unfold m2, transpose in Hm. rewrite map_map in Hm.
      rewrite (nth_map_seq (fun x => posb (mcol vs2 x)) C j false Hj) in Hm.
      unfold posb in Hm. apply Z.ltb_ge in Hm.
      apply (zsum_zero_all (mcol vs2 j)); [|exact Hm|].
      + unfold mcol. apply Forall_forall. intros x Hx. apply in_map_iff in Hx. destruct Hx as [r [<- Hr]].
        apply Forall_nth_nonneg. apply (Sh r Hr).
      + unfold mcol. apply in_map_iff. exists v. split; [reflexivity|exact Hv].
  Qed.

  Lemma finish_cell o s : In o (oids T2) -> In s (sids T2) -> cell T2 o s = cell K o s.
  Proof.
    intros Ho Hs. assert (W1 : wf T1) by (apply wf_filter_mask; exact WK).
    unfold T2 in *. rewrite (filter_mask_cell m2 (other a) T1 o s W1 Ho Hs).
    assert (In o (oids T1) /\ In s (sids T1)) as [Ho1 Hs1].
    { destruct a; simpl in *; split; try assumption; eapply select_In; eassumption. }
    unfold T1 in *. apply filter_mask_cell; assumption.
  Qed.

  Lemma finish_md_axis x : In x (ids a T2) -> md_of a T2 x = md_of a K x.
  Proof.
    intros Hx. assert (W1 : wf T1) by (apply wf_filter_mask; exact WK).
    assert (E : md_of a T2 x = md_of a T1 x).
    { unfold T2. destruct a; reflexivity. }
    rewrite E. unfold T1. apply filter_mask_md; [exact WK|].
    fold T1. unfold T2 in Hx. destruct a; exact Hx.
  Qed.

  Lemma finish_md_other y : In y (ids (other a) T2) -> md_of (other a) T2 y = md_of (other a) K y.
  Proof.
    intros Hy. assert (W1 : wf T1) by (apply wf_filter_mask; exact WK).
    unfold T2 in *. rewrite (filter_mask_md m2 (other a) T1 y W1 Hy). unfold T1. destruct a; reflexivity.
  Qed.

  Lemma T1_other_nonneg : Forall (Forall (fun x => (0 <= x)%Z)) (axis_vecs (other a) T1).
  Proof.
    rewrite T1_other_vecs. pose proof vs2_shape as Sh. rewrite Forall_forall in Sh.
    unfold transpose. apply Forall_forall. intros c Hc. apply in_map_iff in Hc. destruct Hc as [j [<- _]].
    unfold mcol. apply Forall_forall. intros x Hx. apply in_map_iff in Hx. destruct Hx as [r [<- Hr]].
    apply Forall_nth_nonneg. apply (Sh r Hr).
  Qed.

  Lemma finish_ids_other_nz :
    ids (other a) T2 = select (map (fun c => negb (all_zero c)) (axis_vecs (other a) T1)) (ids (other a) K).
  Proof.
    rewrite finish_ids_other. unfold m2. rewrite <- T1_other_vecs. f_equal.
    apply map_ext_Forall. eapply Forall_impl; [|exact T1_other_nonneg]. apply posb_all_zero.
  Qed.

  Lemma finish_vecs_other_nz :
    axis_vecs (other a) T2 = filter (fun c => negb (all_zero c)) (axis_vecs (other a) T1).
  Proof.
    rewrite finish_vecs_other. apply filter_ext_in. intros c Hc. apply posb_all_zero.
    pose proof T1_other_nonneg as N. rewrite Forall_forall in N. apply N. exact Hc.
  Qed.

  Lemma finish_type : ttype T2 = ttype K.
  Proof. unfold T2, T1. destruct a; reflexivity. Qed.

  (* ---- the same with Table.filter's closing metadata normalisation (filter_table) ---- *)
  Let F1 := filter_table m1 a K.
  Let R := filter_table m2 (other a) F1.

  Lemma R_core : (forall c, ids c R = ids c T2) /\ (forall c, axis_vecs c R = axis_vecs c T2) /\
                 (forall o s, cell R o s = cell T2 o s) /\ ttype R = ttype T2.
  Proof. unfold R, F1, filter_table at 2. apply filter_table_norm_inner. Qed.

  Lemma finishR_eq : drop_nonpositive (other a) F1 = R.
  Proof.
    assert (W1 : wf F1) by (apply wf_filter_table; exact WK).
    rewrite (drop_nonpositive_mask (other a) F1 W1). unfold F1 at 1. rewrite axis_vecs_filter_table.
    fold T1. rewrite T1_other_vecs. reflexivity.
  Qed.

  Lemma finishR_wf : wf R.
  Proof. apply wf_filter_table, wf_filter_table. exact WK. Qed.

  Lemma finishR_ids_axis : ids a R = select m1 (ids a K).
  Proof. destruct R_core as (I & _). rewrite I. apply finish_ids_axis. Qed.

  Lemma finishR_ids_other : ids (other a) R = select m2 (ids (other a) K).
  Proof. destruct R_core as (I & _). rewrite I. apply finish_ids_other. Qed.

  Lemma finishR_vecs_axis : axis_vecs a R = map (select m2) vs2.
  Proof. destruct R_core as (_ & V & _). rewrite V. apply finish_vecs_axis. Qed.

  Lemma finishR_ids_other_nz :
    ids (other a) R = select (map (fun c => negb (all_zero c)) (axis_vecs (other a) F1)) (ids (other a) K).
  Proof. destruct R_core as (I & _). rewrite I. unfold F1. rewrite axis_vecs_filter_table. apply finish_ids_other_nz. Qed.

  Lemma finishR_vecs_other_nz :
    axis_vecs (other a) R = filter (fun c => negb (all_zero c)) (axis_vecs (other a) F1).
  Proof. destruct R_core as (_ & V & _). rewrite V. unfold F1. rewrite axis_vecs_filter_table. apply finish_vecs_other_nz. Qed.

  Lemma finishR_cell o s : In o (oids R) -> In s (sids R) -> cell R o s = cell K o s.
  Proof.
    destruct R_core as (I & _ & CC & _). intros Ho Hs. rewrite CC. apply finish_cell.
    - pose proof (I Obs) as IO. simpl in IO. rewrite <- IO. exact Ho.
    - pose proof (I Samp) as IS. simpl in IS. rewrite <- IS. exact Hs.
  Qed.

  (* metadata travels with its id; a reader cannot tell None from the empty mapping (md_view) *)
  Lemma finishR_md b x : In x (ids b R) -> md_view b R x = md_view b K x.
  Proof.
    intros Hx. assert (W1 : wf F1) by (apply wf_filter_table; exact WK).
    unfold R in *. rewrite (filter_table_md_any m2 (other a) b F1 x W1 Hx).
    apply filter_table_sub in Hx. unfold F1 in *. apply filter_table_md_any; assumption.
  Qed.

  Lemma finishR_type : ttype R = ttype K.
  Proof. destruct R_core as (_ & _ & _ & T). rewrite T. apply finish_type. Qed.
End Finish.

(* ------------------------------------------------------------------ Table.subsample, counts without replacement *)
Lemma F2_length {A B} (R : A -> B -> Prop) l l' : Forall2 R l l' -> length l = length l'.
Proof. induction 1; simpl; congruence. Qed.

Lemma F2_in_r {A B} (R : A -> B -> Prop) l l' y : Forall2 R l l' -> In y l' -> exists x, In x l /\ R x y.
Proof.
  induction 1 as [|x y' l l' Hxy _ IH]; intros Hin; [contradiction|]. destruct Hin as [->|Hin].
  - exists x. split; [left; reflexivity|exact Hxy].
  - destruct (IH Hin) as [x0 [H1 H2]]. exists x0. split; [right; exact H1|exact H2].
Qed.

Lemma Rwo_shape n C vs vs1 : Forall2 (Rwo n) vs vs1 -> rect C vs -> rect C vs1 /\ length vs1 = length vs.
Proof.
  intros H R. split; [|symmetry; eapply F2_length; exact H].
  unfold rect in *. induction H as [|v v' vs vs1 (L & _) _ IH]; [constructor|].
  inversion R; subst. constructor; [congruence|apply IH; assumption].
Qed.

Lemma nonneg_of_nth v : (forall j, (0 <= nth j v 0)%Z) -> Forall (fun x => (0 <= x)%Z) v.
Proof.
  intros H. apply Forall_forall. intros x Hx. destruct (In_nth v x 0%Z Hx) as [j [_ <-]]. apply H.
Qed.

Lemma Rwo_nonneg n vs vs1 : Forall2 (Rwo n) vs vs1 -> Forall (Forall (fun x => (0 <= x)%Z)) vs1.
Proof.
  induction 1 as [|v v' vs vs1 (_ & B & _) _ IH]; constructor; [|exact IH].
  apply nonneg_of_nth. intros j. specialize (B j). lia.
Qed.

Lemma Rwo_posb n v v' : 1 <= n -> Rwo n v v' -> posb v' = (Z.of_nat n <=? zsum v)%Z.
Proof.
  intros Hn (_ & _ & S). unfold posb. rewrite S. destruct (Z.ltb_spec (zsum v) (Z.of_nat n)).
  - symmetry. apply Z.leb_gt. assumption.
  - destruct (Z.leb_spec (Z.of_nat n) (zsum v)); [|lia]. apply Z.ltb_lt. lia.
Qed.

Lemma Rwo_get n vs vs1 : Forall2 (Rwo n) vs vs1 -> forall i j, (0 <= get vs1 i j <= get vs i j)%Z.
Proof.
  intros H. induction H as [|v v' vs vs1 (_ & B & _) _ IH]; intros i j.
  - unfold get. destruct i, j; simpl; lia.
  - destruct i as [|i]; [apply B|apply IH].
Qed.

Lemma Forall2_map_eq {A B} (R : A -> A -> Prop) (f g : A -> B) l l' :
  Forall2 R l l' -> (forall x y, R x y -> f y = g x) -> map f l' = map g l.
Proof. intros H E. induction H as [|x y l l' Hxy _ IH]; simpl; [reflexivity|]. rewrite (E x y Hxy), IH. reflexivity. Qed.

Lemma md_of_with_axis_vecs b a t vs x : md_of b (with_axis_vecs a t vs) x = md_of b t x.
Proof. destruct b; reflexivity. Qed.

Theorem subsample_counts_spec n a lay draws t :
  wf t -> nonneg_table t -> 1 <= n -> lay_wf (axis_vecs a t) lay ->
  draws_ok n (map zsum (axis_vecs a t)) draws ->
  let K := kernel_table_wo n a lay draws t in
  let t' := subsample_counts n a lay draws t in
  wf t' /\
  ids a t' = select (map (fun v => (Z.of_nat n <=? zsum v)%Z) (axis_vecs a t)) (ids a t) /\
  Forall (fun v => zsum v = Z.of_nat n) (axis_vecs a t') /\
  (forall o s v, cell t' o s = Some v -> exists v0, cell t o s = Some v0 /\ (0 <= v <= v0)%Z) /\
  ids (other a) t' = select (map (fun c => negb (all_zero c)) (axis_vecs (other a) (drop_nonpositive a K)))
                            (ids (other a) t) /\
  axis_vecs (other a) t' = filter (fun c => negb (all_zero c)) (axis_vecs (other a) (drop_nonpositive a K)) /\
  (forall x, In x (ids a t') -> md_view a t' x = md_view a t x) /\
  (forall y, In y (ids (other a) t') -> md_view (other a) t' y = md_view (other a) t y) /\
  ttype t' = ttype t.
Proof.
  intros W NN Hn HL HD K t'.
  pose proof (sub_vecs_R n (axis_vecs a t) lay draws HL (nonneg_axis_vecs a t NN) HD) as R.
  set (vs1 := sub_vecs n (axis_vecs a t) lay draws) in *.
  destruct (Rwo_shape n (n_other a t) _ _ R (axis_vecs_rect a t W)) as [Rc Rl].
  rewrite (axis_vecs_length a t W) in Rl.
  assert (WK : wf K) by (apply wf_with_axis_vecs; assumption).
  assert (EK : axis_vecs a K = vs1) by (apply axis_vecs_with; assumption).
  assert (NK : Forall (Forall (fun x => (0 <= x)%Z)) (axis_vecs a K)) by (rewrite EK; eapply Rwo_nonneg; exact R).
  assert (IK : forall b, ids b K = ids b t) by (intros b; destruct b; reflexivity).
  unfold t', subsample_counts. fold K. rewrite (drop_nonpositive_mask a K WK).
  rewrite (finishR_eq a K) by assumption.
  split; [apply finishR_wf; assumption|].
  split.
  { rewrite finishR_ids_axis by assumption. rewrite IK, EK. f_equal. apply (Forall2_map_eq (Rwo n)); [exact R|].
    intros x y Hxy. apply Rwo_posb; assumption. }
  split.
  { rewrite finishR_vecs_axis by assumption. apply Forall_forall. intros v' Hv'. apply in_map_iff in Hv'.
    destruct Hv' as [v2 [<- Hv2]]. rewrite (finish_sum a K) by assumption.
    assert (Hin : In v2 (axis_vecs a K)) by (eapply select_In; exact Hv2).
    assert (Hp : posb v2 = true).
    { pose proof (Forall_select_map posb (axis_vecs a K)) as F. rewrite Forall_forall in F. apply F. exact Hv2. }
    rewrite EK in Hin. destruct (F2_in_r _ _ _ _ R Hin) as [v0 [_ Rv]].
    rewrite (Rwo_posb n v0 v2 Hn Rv) in Hp. destruct Rv as (_ & _ & S). rewrite S.
    apply Z.leb_le in Hp. destruct (Z.ltb_spec (zsum v0) (Z.of_nat n)); [lia|reflexivity]. }
  split.
  { intros o s v Hc.
    match type of Hc with cell ?T _ _ = _ => set (TT := T) in * end.
    assert (Ho : In o (oids TT)).
    { unfold cell in Hc. destruct (pos o (oids _)) as [i|] eqn:E; [|discriminate].
      apply pos_Some in E. destruct E as [<- Hi]. apply nth_In. exact Hi. }
    assert (Hs : In s (sids TT)).
    { unfold cell in Hc. destruct (pos o (oids _)) as [i|]; [|discriminate].
      destruct (pos s (sids _)) as [j|] eqn:E; [|discriminate].
      apply pos_Some in E. destruct E as [<- Hj]. apply nth_In. exact Hj. }
    unfold TT in *. rewrite (finishR_cell a K) in Hc by assumption. unfold K, kernel_table_wo in Hc. rewrite cell_with_axis_vecs in Hc.
    rewrite (cell_axis_vecs a t o s W).
    destruct (pos o (oids t)) as [i|]; [|discriminate]. destruct (pos s (sids t)) as [j|]; [|discriminate].
    inversion Hc; subst. eexists. split; [reflexivity|].
    fold vs1. destruct a; simpl; apply (Rwo_get n _ _ R). }
  split; [rewrite finishR_ids_other_nz by assumption; rewrite IK; reflexivity|].
  split; [apply finishR_vecs_other_nz; assumption|].
  split; [intros x Hx; rewrite (finishR_md a K) by assumption; apply md_view_of_md_of; apply md_of_with_axis_vecs|].
  split; [intros y Hy; rewrite (finishR_md a K) by assumption; apply md_view_of_md_of; apply md_of_with_axis_vecs|].
  rewrite finishR_type by assumption. reflexivity.
Qed.

(* ------------------------------------------------------------------ with replacement *)
Definition Rrep (n : nat) (v v' : list Z) : Prop :=
  length v' = length v /\ (forall j, (0 <= nth j v' 0)%Z) /\ zsum v' = Z.of_nat n /\
  (forall j, nth j v 0%Z = 0%Z -> nth j v' 0%Z = 0%Z).

Lemma rep_seg_R n v ord d :
  ord_wf v ord -> multi_ok n (gather 0%Z ord v) d -> Rrep n v (scatter 0%Z (length v) ord d).
Proof.
  intros (Hn & Hb & Hs) (L & N & S & Z0). rewrite gather_length in L. unfold Rrep.
  split; [apply scatter_length|]. split; [|split].
  - intros j. destruct (Nat.lt_ge_cases j (length v)) as [Hj|Hj].
    + rewrite nth_scatter by exact Hj. destruct (nfind j ord); [apply Forall_nth_nonneg; exact N|lia].
    + rewrite nth_overflow by (rewrite scatter_length; exact Hj). lia.
  - rewrite zsum_scatter by assumption. exact S.
  - intros j Hz. destruct (Nat.lt_ge_cases j (length v)) as [Hj|Hj].
    + rewrite nth_scatter by exact Hj. destruct (nfind j ord) as [k|] eqn:E; [|reflexivity].
      apply nfind_Some in E. destruct E as [E Hk]. apply Z0. unfold gather.
      rewrite (nth_map_in _ ord k 0 0%Z Hk). rewrite E. exact Hz.
    + apply nth_overflow. rewrite scatter_length. exact Hj.
Qed.

Lemma gather_all_cons v vs ord lay : gather_all (v :: vs) (ord :: lay) = gather 0%Z ord v :: gather_all vs lay.
Proof. reflexivity. Qed.

Lemma rep_vecs_R n : forall vs lay draws,
  lay_wf vs lay -> Forall (fun v => (0 < zsum v)%Z) vs -> multis_ok n (gather_all vs lay) draws ->
  exists vs1, rep_vecs vs lay draws = Some vs1 /\ Forall2 (Rrep n) vs vs1.
Proof.
  intros vs lay draws H. revert draws. induction H as [|v ord vs lay W _ IH]; intros draws Hp Hd.
  - exists []. split; [reflexivity|constructor].
  - inversion Hp as [|? ? Hp1 Hp2]; subst. rewrite gather_all_cons in Hd. simpl in Hd.
    destruct draws as [|d rest]; [contradiction|]. destruct Hd as [D1 D2].
    destruct (IH rest Hp2 D2) as [vs1 [E1 R1]].
    simpl. unfold rep_seg. rewrite (zsum_gather v ord W).
    destruct (Z.eqb_spec (zsum v) 0) as [E|_]; [lia|]. rewrite E1. simpl.
    eexists. split; [reflexivity|]. constructor; [apply rep_seg_R; assumption|exact R1].
Qed.

(* a vector without counts makes the kernel raise: rng.multinomial(n, []) is a ValueError *)
Lemma rep_vecs_zero_vector : forall vs lay draws,
  lay_wf vs lay -> (exists v, In v vs /\ zsum v = 0%Z) -> rep_vecs vs lay draws = None.
Proof.
  intros vs lay draws H. revert draws. induction H as [|v ord vs lay W _ IH]; intros draws [v0 [Hin Hz]]; [contradiction|].
  simpl. unfold rep_seg. rewrite (zsum_gather v ord W). destruct Hin as [->|Hin].
  - rewrite Hz. reflexivity.
  - destruct (zsum v =? 0)%Z; [reflexivity|]. destruct draws as [|d rest]; [reflexivity|].
    rewrite IH; [reflexivity|]. exists v0. split; assumption.
Qed.

Theorem subsample_replace_core_raises a lay draws t :
  wf t -> lay_wf (axis_vecs a t) lay -> (exists v, In v (axis_vecs a t) /\ zsum v = 0%Z) ->
  subsample_replace_core a lay draws t = RErr E_VALUE.
Proof. intros W HL Hz. unfold subsample_replace_core. rewrite rep_vecs_zero_vector by assumption. reflexivity. Qed.

Lemma Rrep_shape n C vs vs1 : Forall2 (Rrep n) vs vs1 -> rect C vs -> rect C vs1 /\ length vs1 = length vs.
Proof.
  intros H R. split; [|symmetry; eapply F2_length; exact H].
  unfold rect in *. induction H as [|v v' vs vs1 (L & _) _ IH]; [constructor|].
  inversion R; subst. constructor; [congruence|apply IH; assumption].
Qed.

Lemma Rrep_nonneg n vs vs1 : Forall2 (Rrep n) vs vs1 -> Forall (Forall (fun x => (0 <= x)%Z)) vs1.
Proof.
  induction 1 as [|v v' vs vs1 (_ & B & _) _ IH]; constructor; [|exact IH]. apply nonneg_of_nth. exact B.
Qed.

Lemma Rrep_get n vs vs1 : Forall2 (Rrep n) vs vs1 ->
  forall i j, (0 <= get vs1 i j)%Z /\ (get vs i j = 0%Z -> get vs1 i j = 0%Z).
Proof.
  intros H. induction H as [|v v' vs vs1 (_ & B & _ & Z0) _ IH]; intros i j.
  - unfold get. destruct i, j; simpl; split; (lia || reflexivity).
  - destruct i as [|i]; [split; [apply B|apply Z0]|apply IH].
Qed.

Lemma select_all_true {A} m (l : list A) : Forall (fun b => b = true) m -> length m = length l -> select m l = l.
Proof.
  intros H. revert l. induction H as [|b m Hb _ IH]; intros [|x l] Hl; simpl in *; try discriminate; [reflexivity|].
  subst b. f_equal. apply IH. lia.
Qed.

Theorem subsample_replace_core_spec n a lay draws t :
  wf t -> nonneg_table t -> 1 <= n -> lay_wf (axis_vecs a t) lay ->
  Forall (fun v => (0 < zsum v)%Z) (axis_vecs a t) ->
  multis_ok n (gather_all (axis_vecs a t) lay) draws ->
  exists t', subsample_replace_core a lay draws t = ROk t' /\ wf t' /\
    ids a t' = ids a t /\
    (exists m2, ids (other a) t' = select m2 (ids (other a) t)) /\
    Forall (fun v => zsum v = Z.of_nat n) (axis_vecs a t') /\
    (forall o s v, cell t' o s = Some v -> (0 <= v)%Z /\ (v <> 0%Z -> cell t o s <> Some 0%Z)) /\
    Forall (fun c => all_zero c = false) (axis_vecs (other a) t') /\
    (forall x, In x (ids a t') -> md_view a t' x = md_view a t x) /\
    (forall y, In y (ids (other a) t') -> md_view (other a) t' y = md_view (other a) t y) /\
    ttype t' = ttype t.
Proof.
  intros W NN Hn HL HP HD.
  destruct (rep_vecs_R n (axis_vecs a t) lay draws HL HP HD) as [vs1 [E R]].
  unfold subsample_replace_core. rewrite E. eexists. split; [reflexivity|].
  destruct (Rrep_shape n (n_other a t) _ _ R (axis_vecs_rect a t W)) as [Rc Rl].
  rewrite (axis_vecs_length a t W) in Rl.
  set (K := with_axis_vecs a t vs1).
  assert (WK : wf K) by (apply wf_with_axis_vecs; assumption).
  assert (EK : axis_vecs a K = vs1) by (apply axis_vecs_with; assumption).
  assert (NK : Forall (Forall (fun x => (0 <= x)%Z)) (axis_vecs a K)) by (rewrite EK; eapply Rrep_nonneg; exact R).
  assert (IK : forall b, ids b K = ids b t) by (intros b; destruct b; reflexivity).
  assert (AllPos : Forall (fun b => b = true) (map posb (axis_vecs a K))).
  { rewrite EK. apply Forall_forall. intros b Hb. apply in_map_iff in Hb. destruct Hb as [v' [<- Hv']].
    destruct (F2_in_r _ _ _ _ R Hv') as [v0 [_ (_ & _ & S & _)]]. unfold posb. rewrite S. apply Z.ltb_lt. lia. }
  rewrite (drop_nonpositive_mask a K WK). rewrite (finishR_eq a K) by assumption.
  split; [apply finishR_wf; assumption|].
  split.
  { rewrite finishR_ids_axis by assumption. rewrite IK. apply select_all_true; [exact AllPos|].
    rewrite map_length, EK. exact Rl. }
  split; [eexists; rewrite finishR_ids_other by assumption; rewrite IK; reflexivity|].
  split.
  { rewrite finishR_vecs_axis by assumption. apply Forall_forall. intros v' Hv'. apply in_map_iff in Hv'.
    destruct Hv' as [v2 [<- Hv2]]. rewrite (finish_sum a K) by assumption.
    assert (Hin : In v2 (axis_vecs a K)) by (eapply select_In; exact Hv2).
    rewrite EK in Hin. destruct (F2_in_r _ _ _ _ R Hin) as [v0 [_ (_ & _ & S & _)]]. exact S. }
  split.
  { intros o s v Hc.
    match type of Hc with cell ?T _ _ = _ => set (TT := T) in * end.
    assert (Ho : In o (oids TT)).
    { unfold cell in Hc. destruct (pos o (oids _)) as [i|] eqn:E0; [|discriminate].
      apply pos_Some in E0. destruct E0 as [<- Hi]. apply nth_In. exact Hi. }
    assert (Hs : In s (sids TT)).
    { unfold cell in Hc. destruct (pos o (oids _)) as [i|]; [|discriminate].
      destruct (pos s (sids _)) as [j|] eqn:E0; [|discriminate].
      apply pos_Some in E0. destruct E0 as [<- Hj]. apply nth_In. exact Hj. }
    unfold TT in *. rewrite (finishR_cell a K) in Hc by assumption. unfold K in Hc.
    rewrite cell_with_axis_vecs in Hc. rewrite (cell_axis_vecs a t o s W).
    destruct (pos o (oids t)) as [i|]; [|discriminate]. destruct (pos s (sids t)) as [j|]; [|discriminate].
    injection Hc as <-.
    assert (G : (0 <= aget a vs1 i j)%Z /\ (aget a (axis_vecs a t) i j = 0%Z -> aget a vs1 i j = 0%Z))
      by (destruct a; simpl; apply (Rrep_get n _ _ R)).
    destruct G as [G1 G2]. split; [exact G1|]. intros Hnz Hsome. inversion Hsome as [Hz]. apply Hnz. apply G2. exact Hz. }
  split.
  { rewrite finishR_vecs_other_nz by assumption. apply Forall_forall. intros c Hc. apply filter_In in Hc.
    destruct Hc as [_ Hc]. apply negb_true_iff in Hc. exact Hc. }
  split; [intros x Hx; rewrite (finishR_md a K) by assumption; apply md_view_of_md_of; apply md_of_with_axis_vecs|].
  split; [intros y Hy; rewrite (finishR_md a K) by assumption; apply md_view_of_md_of; apply md_of_with_axis_vecs|].
  rewrite finishR_type by assumption. reflexivity.
Qed.

(* ------------------------------------------------------------------ by id *)
Lemma NoDup_filter_Z (f : Z -> bool) l : NoDup l -> NoDup (filter f l).
Proof.
  induction 1 as [|x l Hx _ IH]; simpl; [constructor|]. destruct (f x); [|exact IH].
  constructor; [|exact IH]. intros H. apply filter_In in H. tauto.
Qed.

Lemma NoDup_app_l {A} (l1 l2 : list A) : NoDup (l1 ++ l2) -> NoDup l1.
Proof.
  induction l1 as [|x l1 IH]; simpl; intros H; [constructor|]. inversion H as [|? ? Hx Hr]; subst.
  constructor; [|apply IH; exact Hr]. intros Hin. apply Hx. apply in_or_app. left. exact Hin.
Qed.

Lemma NoDup_firstn_Z n (l : list Z) : NoDup l -> NoDup (firstn n l).
Proof.
  intros H. rewrite <- (firstn_skipn n l) in H. eapply NoDup_app_l. exact H.
Qed.

Lemma count_members l s : NoDup l -> NoDup s -> incl s l -> length (filter (fun x => zmem x s) l) = length s.
Proof.
  intros Hl Hs Hi. apply Permutation_length. apply NoDup_Permutation; [apply NoDup_filter_Z; exact Hl|exact Hs|].
  intros x. rewrite filter_In, zmem_In. split; [tauto|]. intros H. split; [apply Hi; exact H|exact H].
Qed.

Lemma by_id_mask subset a t :
  map (fun c : list Z * Z * option Tree => zmem (snd (fst c)) subset) (pred_calls a t)
  = map (fun i => zmem i subset) (ids a t).
Proof.
  transitivity (map (fun i => zmem i subset) (map (fun c : list Z * Z * option Tree => snd (fst c)) (pred_calls a t))).
  - rewrite map_map. reflexivity.
  - rewrite pred_calls_ids. reflexivity.
Qed.

Theorem subsample_by_id_spec n a shuffled t :
  wf t -> nonneg_table t -> Permutation (ids a t) shuffled ->
  let keep := map (fun i => zmem i (firstn n shuffled)) (ids a t) in
  let t' := subsample_by_id n a shuffled t in
  wf t' /\
  ids a t' = filter (fun i => zmem i (firstn n shuffled)) (ids a t) /\
  length (ids a t') = Nat.min n (length (ids a t)) /\
  (forall o s, In o (oids t') -> In s (sids t') -> cell t' o s = cell t o s) /\
  ids (other a) t' = select (map (fun c => negb (all_zero c)) (axis_vecs (other a) (filter_mask keep a t)))
                            (ids (other a) t) /\
  (forall x, In x (ids a t') -> md_view a t' x = md_view a t x) /\
  (forall y, In y (ids (other a) t') -> md_view (other a) t' y = md_view (other a) t y) /\
  ttype t' = ttype t.
Proof.
  intros W NN HP keep t'. pose proof (nonneg_axis_vecs a t NN) as NK.
  unfold t', subsample_by_id, filter_pred. rewrite by_id_mask, xorb_false_map. fold keep.
  rewrite (finishR_eq a t) by assumption.
  assert (EI : select keep (ids a t) = filter (fun i => zmem i (firstn n shuffled)) (ids a t))
    by (unfold keep; apply select_map_filter).
  split; [apply finishR_wf; assumption|].
  split; [rewrite finishR_ids_axis by assumption; exact EI|].
  split.
  { rewrite finishR_ids_axis by assumption. rewrite EI.
    assert (ND : NoDup (ids a t)) by (destruct W as (_ & _ & A & B & _); destruct a; assumption).
    rewrite count_members.
    - rewrite firstn_length. rewrite (Permutation_length HP). reflexivity.
    - exact ND.
    - apply NoDup_firstn_Z. eapply Permutation_NoDup; [exact HP|exact ND].
    - intros x Hx. eapply Permutation_in; [apply Permutation_sym; exact HP|]. eapply In_firstn. exact Hx. }
  split; [intros o s Ho Hs; apply (finishR_cell a t); assumption|].
  split; [rewrite (finishR_ids_other_nz a t) by assumption; rewrite axis_vecs_filter_table; reflexivity|].
  split; [intros x Hx; apply (finishR_md a t); assumption|].
  split; [intros y Hy; apply (finishR_md a t); assumption|].
  apply finishR_type; assumption.
Qed.

(* ------------------------------------------------------------------ the method: refusals, receiver *)
Theorem subsample_receiver_unchanged n a by_id wr lay draws t : fst (subsample n a by_id wr lay draws t) = t.
Proof.
  unfold subsample. destruct (n <? 0)%Z; [reflexivity|]. destruct (wr && by_id); [reflexivity|].
  destruct by_id; [reflexivity|]. destruct wr; reflexivity.
Qed.

Theorem subsample_refusals n a by_id wr lay draws t :
  ((n < 0)%Z \/ (wr = true /\ by_id = true)) -> snd (subsample n a by_id wr lay draws t) = RErr E_VALUE.
Proof.
  unfold subsample. intros [H|[-> ->]].
  - apply Z.ltb_lt in H. rewrite H. reflexivity.
  - destruct (n <? 0)%Z; reflexivity.
Qed.

Theorem subsample_dispatch n a lay draws t : (0 <= n)%Z ->
  snd (subsample n a false false lay draws t) = ROk (subsample_counts (Z.to_nat n) a lay draws t) /\
  snd (subsample n a false true lay draws t) = subsample_replace a lay draws t /\
  snd (subsample n a true false lay draws t) = ROk (subsample_by_id (Z.to_nat n) a (nth 0 draws []) t).
Proof.
  intros H. apply Z.ltb_ge in H. unfold subsample. rewrite H. repeat split; reflexivity.
Qed.

(* ------------------------------------------------------------------ coherence, unconditionally
   (any layout, any draws: whenever the model returns a table it is coherent; used by C05) *)
Lemma same_len_rect C (vs vs1 : list (list Z)) :
  Forall2 (fun v v' : list Z => length v' = length v) vs vs1 -> rect C vs -> rect C vs1 /\ length vs1 = length vs.
Proof.
  intros H R. split; [|symmetry; eapply F2_length; exact H].
  unfold rect in *. induction H as [|v v' vs vs1 L _ IH]; [constructor|].
  inversion R; subst. constructor; [congruence|apply IH; assumption].
Qed.

Lemma sub_vecs_shape n : forall vs lay draws,
  Forall2 (fun v v' : list Z => length v' = length v) vs (sub_vecs n vs lay draws).
Proof.
  induction vs as [|v vs IH]; intros lay draws; simpl; [constructor|].
  destruct (sub_seg n (gather 0%Z (hd [] lay) v) draws) as [[o draws'] ok].
  constructor; [apply scatter_length|apply IH].
Qed.

Lemma rep_vecs_shape : forall vs lay draws vs1,
  rep_vecs vs lay draws = Some vs1 -> Forall2 (fun v v' : list Z => length v' = length v) vs vs1.
Proof.
  induction vs as [|v vs IH]; intros lay draws vs1 H; simpl in H.
  - inversion H. constructor.
  - destruct (rep_seg (gather 0%Z (hd [] lay) v) draws) as [[o draws']|]; [|discriminate].
    destruct (rep_vecs vs (tl lay) draws') as [r|] eqn:E; [|discriminate]. simpl in H. inversion H; subst.
    constructor; [apply scatter_length|eapply IH; exact E].
Qed.

Lemma wf_drop_nonpositive a t : wf t -> wf (drop_nonpositive a t).
Proof. intros W. unfold drop_nonpositive, filter_pred. apply wf_filter_table. exact W. Qed.

Lemma wf_with_same_len a t vs1 :
  wf t -> Forall2 (fun v v' : list Z => length v' = length v) (axis_vecs a t) vs1 -> wf (with_axis_vecs a t vs1).
Proof.
  intros W H. destruct (same_len_rect (n_other a t) _ _ H (axis_vecs_rect a t W)) as [Rc Rl].
  rewrite (axis_vecs_length a t W) in Rl. apply wf_with_axis_vecs; assumption.
Qed.

Theorem subsample_counts_wf n a lay draws t : wf t -> wf (subsample_counts n a lay draws t).
Proof.
  intros W. unfold subsample_counts, kernel_table_wo. apply wf_drop_nonpositive, wf_drop_nonpositive.
  apply wf_with_same_len; [exact W|apply sub_vecs_shape].
Qed.

Theorem subsample_replace_core_wf a lay draws t t' : wf t -> subsample_replace_core a lay draws t = ROk t' -> wf t'.
Proof.
  intros W. unfold subsample_replace_core. destruct (rep_vecs (axis_vecs a t) lay draws) as [vs1|] eqn:E; [|discriminate].
  intros H. inversion H; subst. apply wf_drop_nonpositive, wf_drop_nonpositive.
  apply wf_with_same_len; [exact W|eapply rep_vecs_shape; exact E].
Qed.

Theorem subsample_replace_wf a lay draws t t' : wf t -> subsample_replace a lay draws t = ROk t' -> wf t'.
Proof. intros W. unfold subsample_replace. apply subsample_replace_core_wf. apply wf_drop_nonpositive. exact W. Qed.

Theorem subsample_by_id_wf n a shuffled t : wf t -> wf (subsample_by_id n a shuffled t).
Proof.
  intros W. unfold subsample_by_id. apply wf_drop_nonpositive. unfold filter_pred. apply wf_filter_table. exact W.
Qed.

Theorem subsample_wf n a by_id wr lay draws t t' :
  wf t -> snd (subsample n a by_id wr lay draws t) = ROk t' -> wf t'.
Proof.
  intros W. unfold subsample. destruct (n <? 0)%Z; [discriminate|]. destruct (wr && by_id); [discriminate|].
  destruct by_id; simpl.
  - intros H. inversion H; subst. apply subsample_by_id_wf. exact W.
  - destruct wr; simpl.
    + apply subsample_replace_wf. exact W.
    + intros H. inversion H; subst. apply subsample_counts_wf. exact W.
Qed.

(* ------------------------------------------------------------------ with replacement, the method as repaired:
   vectors without counts are filtered out before the kernel *)
Lemma nonneg_filter_mask m a t : nonneg_table t -> nonneg_table (filter_mask m a t).
Proof.
  unfold nonneg_table. intros H. destruct a; simpl.
  - unfold sel_rows. apply Forall_select. exact H.
  - unfold sel_cols. apply Forall_forall. intros r Hr. apply in_map_iff in Hr. destruct Hr as [r0 [<- Hr0]].
    apply Forall_select. rewrite Forall_forall in H. apply H. exact Hr0.
Qed.

Lemma md_of_filter_other m a t y : md_of (other a) (filter_mask m a t) y = md_of (other a) t y.
Proof. destruct a; reflexivity. Qed.

Theorem subsample_replace_spec n a lay draws t :
  wf t -> nonneg_table t -> 1 <= n ->
  lay_wf (axis_vecs a (drop_nonpositive a t)) lay ->
  multis_ok n (gather_all (axis_vecs a (drop_nonpositive a t)) lay) draws ->
  exists t', subsample_replace a lay draws t = ROk t' /\ wf t' /\
    ids a t' = select (map (fun v => (0 <? zsum v)%Z) (axis_vecs a t)) (ids a t) /\
    Forall (fun v => zsum v = Z.of_nat n) (axis_vecs a t') /\
    (forall o s v, cell t' o s = Some v -> (0 <= v)%Z /\ (v <> 0%Z -> cell t o s <> Some 0%Z)) /\
    Forall (fun c => all_zero c = false) (axis_vecs (other a) t') /\
    (exists m2, ids (other a) t' = select m2 (ids (other a) t)) /\
    (forall x, In x (ids a t') -> md_view a t' x = md_view a t x) /\
    (forall y, In y (ids (other a) t') -> md_view (other a) t' y = md_view (other a) t y) /\
    ttype t' = ttype t.
Proof.
  intros W NN Hn. rewrite (drop_nonpositive_mask a t W). set (m0 := map posb (axis_vecs a t)).
  set (t0 := filter_table m0 a t). intros HL HD.
  assert (W0 : wf t0) by (apply wf_filter_table; exact W).
  assert (N0 : nonneg_table t0) by (apply (nonneg_filter_mask m0 a t); exact NN).
  assert (V0 : axis_vecs a t0 = select m0 (axis_vecs a t))
    by (unfold t0; rewrite axis_vecs_filter_table; apply axis_vecs_filter_same; exact W).
  assert (P0 : Forall (fun v => (0 < zsum v)%Z) (axis_vecs a t0)).
  { rewrite V0. pose proof (Forall_select_map posb (axis_vecs a t)) as F. fold m0 in F.
    eapply Forall_impl; [|exact F]. intros v Hv. unfold posb in Hv. apply Z.ltb_lt. exact Hv. }
  destruct (subsample_replace_core_spec n a lay draws t0 W0 N0 Hn HL P0 HD)
    as (t' & E & W' & I1 & [m2 I2] & S & C & Z0 & M1 & M2 & Ty).
  exists t'. unfold subsample_replace. rewrite (drop_nonpositive_mask a t W). fold m0 t0.
  split; [exact E|]. split; [exact W'|].
  assert (IA : ids a t0 = select m0 (ids a t)) by (unfold t0; rewrite filter_table_ids; apply ids_filter_same).
  assert (IO : ids (other a) t0 = ids (other a) t) by (destruct a; reflexivity).
  split; [rewrite I1; exact IA|].
  split; [exact S|].
  split.
  { intros o s v Hc. destruct (C o s v Hc) as [C1 C2]. split; [exact C1|]. intros Hnz.
    assert (In o (oids t') /\ In s (sids t')) as [Ho Hs].
    { unfold cell in Hc. destruct (pos o (oids t')) as [i|] eqn:E1; [|discriminate].
      destruct (pos s (sids t')) as [j|] eqn:E2; [|discriminate].
      apply pos_Some in E1. apply pos_Some in E2. destruct E1 as [<- ?]. destruct E2 as [<- ?].
      split; apply nth_In; assumption. }
    assert (In o (oids t0) /\ In s (sids t0)) as [Ho0 Hs0].
    { destruct a; simpl in I1, I2; rewrite I1 in *; rewrite I2 in *; split; try assumption; eapply select_In; eassumption. }
    rewrite <- (filter_table_cell m0 a t o s W Ho0 Hs0). apply C2. exact Hnz. }
  split; [exact Z0|].
  split; [exists m2; rewrite I2, IO; reflexivity|].
  split.
  { intros x Hx. rewrite (M1 x Hx). apply filter_table_md_any; [exact W|]. change (In x (ids a t0)). rewrite <- I1. exact Hx. }
  split.
  { intros y Hy. rewrite (M2 y Hy). apply filter_table_md_any; [exact W|]. change (In y (ids (other a) t0)).
    rewrite I2 in Hy. eapply select_In. exact Hy. }
  rewrite Ty. apply ft_ttype.
Qed.

(* ------------------------------------------------------------------ the kernel on the arrays = the walk per segment
   (ties K4, which speaks about one segment, to what the compiled function does with indptr / data) *)
Lemma walk_length n seg P : length (fst (walk n seg P)) = length seg.
Proof.
  unfold walk. cbn [fst].
  set (st := fold_left (fun st idx => walk_body seg st (nth idx P 0%Z)) (seq 0 n) (walk_init seg)).
  assert (L : length (w_out st) = length seg).
  { unfold st. generalize (seq 0 n). intros l.
    assert (G : forall l s, length (w_out s) = length seg ->
                length (w_out (fold_left (fun st idx => walk_body seg st (nth idx P 0%Z)) l s)) = length seg).
    { induction l0 as [|i l0 IH]; intros s Hs; simpl; [exact Hs|]. apply IH.
      unfold walk_body. cbn [w_out].
      assert (A : forall fuel p s0, length (w_out s0) = length seg -> length (w_out (advance fuel seg p s0)) = length seg).
      { induction fuel as [|fuel IHf]; intros p s0 H0; simpl; destruct (w_count_rem s0 <=? p - w_count_el s0)%Z; simpl; try exact H0.
        apply IHf. unfold advance1. cbn [w_out]. rewrite upd_length. exact H0. }
      apply A. exact Hs. }
    apply G. reflexivity. }
  rewrite app_length, repeat_length, upd_length, L.
  destruct (Nat.le_gt_cases (S (w_el st)) (length seg)) as [H|H].
  - rewrite firstn_length_le by (rewrite upd_length, L; exact H). lia.
  - rewrite firstn_all2 by (rewrite upd_length, L; lia). rewrite upd_length, L. lia.
Qed.

Lemma sub_seg_length n seg draws : length (fst (fst (sub_seg n seg draws))) = length seg.
Proof.
  unfold sub_seg. destruct (zsum seg <? Z.of_nat n)%Z; cbn [fst]; [apply repeat_length|].
  destruct draws as [|P rest]; cbn [fst]; [reflexivity|].
  pose proof (walk_length n seg P) as L. destruct (walk n seg P) as [o ok]. exact L.
Qed.

Section KernelWo.
  Variable n : nat.
  Variable indptr : list nat.
  Variable data : list Z.
  Variable N : nat.
  Hypothesis HL : length indptr = S N.
  Hypothesis H0 : nth 0 indptr 0 = 0.
  Hypothesis HM : forall i j, i <= j -> j <= N -> nth i indptr 0 <= nth j indptr 0.
  Hypothesis HE : nth N indptr 0 = length data.

  Let p (i : nat) := nth i indptr 0.
  Let sl (i : nat) := slice data (p i) (p (S i)).
  Let body := (fun (st : list Z * list (list Z) * bool) (i : nat) =>
               let '(data, draws, ok) := st in
               let start := nth i indptr 0 in let end_ := nth (S i) indptr 0 in
               let '(o, draws', ok') := sub_seg n (slice data start end_) draws in
               (splice data start end_ o, draws', ok && ok')).

  Lemma kernel_wo_from : forall m k A draws ok,
    length A = p k -> k + m = N ->
    fold_left body (seq k m) (A ++ skipn (p k) data, draws, ok) =
    (A ++ concat (fst (fst (seg_results n (map sl (seq k m)) draws ok))),
     snd (fst (seg_results n (map sl (seq k m)) draws ok)),
     snd (seg_results n (map sl (seq k m)) draws ok)).
  Proof.
    induction m as [|m IH]; intros k A draws ok LA Hk.
    - simpl. assert (k = N) by lia. subst k. unfold p. rewrite HE, skipn_all, !app_nil_r. reflexivity.
    - assert (Hm : p k <= p (S k)) by (unfold p; apply HM; lia).
      assert (Es : slice (A ++ skipn (p k) data) (p k) (p (S k)) = sl k).
      { unfold sl, slice. rewrite skipn_app, skipn_all2 by lia. rewrite LA, Nat.sub_diag. reflexivity. }
      pose proof (sub_seg_length n (sl k) draws) as Lo.
      destruct (sub_seg n (sl k) draws) as [[o draws'] ok'] eqn:Esub. cbn [fst snd] in Lo.
      assert (Lsl : length (sl k) = p (S k) - p k).
      { unfold sl, slice. rewrite firstn_length, skipn_length.
        assert (p (S k) <= length data) by (rewrite <- HE; unfold p; apply HM; lia). lia. }
      assert (Esp : splice (A ++ skipn (p k) data) (p k) (p (S k)) o = (A ++ o) ++ skipn (p (S k)) data).
      { unfold splice. rewrite firstn_app, firstn_all2 by lia. rewrite LA, Nat.sub_diag. simpl firstn. rewrite app_nil_r.
        rewrite skipn_app, (skipn_all2 A) by lia. rewrite LA. simpl app.
        assert (G : forall (l : list Z) x y, skipn x (skipn y l) = skipn (y + x) l).
        { intros l x y. revert l. induction y as [|y IHy]; intros l; simpl; [reflexivity|].
          destruct l as [|z l]; [destruct x; reflexivity|]. apply IHy. }
        rewrite G. replace (p k + (p (S k) - p k)) with (p (S k)) by lia. rewrite <- app_assoc. reflexivity. }
      assert (Eb : body (A ++ skipn (p k) data, draws, ok) k = ((A ++ o) ++ skipn (p (S k)) data, draws', ok && ok')).
      { unfold body. change (nth k indptr 0) with (p k). change (nth (S k) indptr 0) with (p (S k)).
        rewrite Es, Esub, Esp. reflexivity. }
      cbn [seq map fold_left seg_results]. rewrite Eb, Esub.
      rewrite (IH (S k) (A ++ o) draws' (ok && ok')); [|rewrite app_length, LA, Lo, Lsl; lia|lia].
      destruct (seg_results n (map sl (seq (S k) m)) draws' (ok && ok')) as [[os d''] ok'']. cbn [fst snd].
      simpl concat. rewrite <- app_assoc. reflexivity.
  Qed.

  Theorem kernel_wo_segments draws :
    kernel_wo n indptr data draws =
    (concat (fst (fst (seg_results n (map sl (seq 0 N)) draws true))),
     snd (fst (seg_results n (map sl (seq 0 N)) draws true)),
     snd (seg_results n (map sl (seq 0 N)) draws true)).
  Proof.
    unfold kernel_wo. rewrite HL. replace (S N - 1) with N by lia.
    pose proof (kernel_wo_from N 0 [] draws true) as G. unfold p at 1 2 in G. rewrite H0 in G.
    simpl in G. apply G; reflexivity.
  Qed.
End KernelWo.
