(* proofs for C12: the walk of _subsample_without_replacement (K4), the two kernels per vector,
   Table.subsample at the content level *)
From Coq Require Import List Arith ZArith Lia Bool Permutation.
From BiomV Require Import Base.Tree Base.ListUtil Base.Matrix Model.Table Model.Filter Model.Stored
  Model.Subsample Proofs.FilterProofs Proofs.StoredProofs.
Import ListNotations.

(* ------------------------------------------------------------------ sorted lists, counting *)
Lemma incr_nondecr P : incr P -> nondecr P.
Proof.
  induction P as [|x P IH]; simpl; [trivial|]. intros [A B]. split; [|apply IH; exact B].
  eapply Forall_impl; [|exact A]. simpl. intros; lia.
Qed.

Lemma incrb_incr P : incrb P = true -> incr P.
Proof.
  induction P as [|x P IH]; simpl; [trivial|]. rewrite andb_true_iff, forallb_forall. intros [A B].
  split; [|apply IH; exact B]. apply Forall_forall. intros q Hq. apply Z.ltb_lt. apply A. exact Hq.
Qed.

Lemma choice_okb_ok total n P : choice_okb total n P = true -> choice_ok total n P.
Proof.
  unfold choice_okb, choice_ok. rewrite !andb_true_iff, forallb_forall, Nat.eqb_eq. intros [[A B] C].
  split; [apply incrb_incr; exact A|]. split; [|exact C].
  apply Forall_forall. intros p Hp. specialize (B p Hp). apply andb_true_iff in B. destruct B as [B1 B2].
  apply Z.leb_le in B1. apply Z.ltb_lt in B2. lia.
Qed.

Lemma cnt_nil lo hi : cnt lo hi [] = 0%Z.
Proof. reflexivity. Qed.

Lemma cnt_cons lo hi p P : cnt lo hi (p :: P) = ((if inb lo hi p then 1 else 0) + cnt lo hi P)%Z.
Proof. unfold cnt. simpl. destruct (inb lo hi p); simpl length; lia. Qed.

Lemma cnt_app lo hi P1 P2 : cnt lo hi (P1 ++ P2) = (cnt lo hi P1 + cnt lo hi P2)%Z.
Proof. unfold cnt. rewrite filter_app, app_length. lia. Qed.

Lemma cnt_nonneg lo hi P : (0 <= cnt lo hi P)%Z.
Proof. unfold cnt. lia. Qed.

Lemma inb_true lo hi p : inb lo hi p = true <-> (lo <= p < hi)%Z.
Proof. unfold inb. rewrite andb_true_iff, Z.leb_le, Z.ltb_lt. tauto. Qed.

Lemma inb_false lo hi p : inb lo hi p = false <-> (p < lo \/ hi <= p)%Z.
Proof. unfold inb. rewrite andb_false_iff, Z.leb_gt, Z.ltb_ge. tauto. Qed.

Lemma cnt_zero_below lo hi P : Forall (fun p => (p < lo)%Z) P -> cnt lo hi P = 0%Z.
Proof.
  induction 1 as [|p P Hp _ IH]; [reflexivity|]. rewrite cnt_cons, IH.
  replace (inb lo hi p) with false; [reflexivity|]. symmetry. apply inb_false. lia.
Qed.

Lemma cnt_zero_above lo hi P : Forall (fun p => (hi <= p)%Z) P -> cnt lo hi P = 0%Z.
Proof.
  induction 1 as [|p P Hp _ IH]; [reflexivity|]. rewrite cnt_cons, IH.
  replace (inb lo hi p) with false; [reflexivity|]. symmetry. apply inb_false. lia.
Qed.

Lemma cnt_split lo mid hi P : (lo <= mid <= hi)%Z -> (cnt lo mid P + cnt mid hi P = cnt lo hi P)%Z.
Proof.
  intros H. induction P as [|p P IH]; [reflexivity|]. rewrite !cnt_cons.
  destruct (inb lo mid p) eqn:E1, (inb mid hi p) eqn:E2, (inb lo hi p) eqn:E3;
    try apply inb_true in E1; try apply inb_true in E2; try apply inb_true in E3;
    try apply inb_false in E1; try apply inb_false in E2; try apply inb_false in E3; lia.
Qed.

Lemma cnt_all lo hi P : Forall (fun p => (lo <= p < hi)%Z) P -> cnt lo hi P = Z.of_nat (length P).
Proof.
  induction 1 as [|p P Hp _ IH]; [reflexivity|]. rewrite cnt_cons, IH.
  replace (inb lo hi p) with true; [simpl length; lia|]. symmetry. apply inb_true. exact Hp.
Qed.

(* n distinct integers do not fit into fewer than n places *)
Lemma cnt_le_width P : incr P -> forall lo hi, (cnt lo hi P <= Z.max 0 (hi - lo))%Z.
Proof.
  induction P as [|p P IH]; intros Hi lo hi; [rewrite cnt_nil; lia|].
  destruct Hi as [Hgt Hi]. rewrite cnt_cons. destruct (inb lo hi p) eqn:E.
  - apply inb_true in E.
    assert (S : cnt lo hi P = cnt (p + 1) hi P).
    { rewrite <- (cnt_split lo (p + 1) hi P) by lia.
      rewrite (cnt_zero_above lo (p + 1) P); [lia|]. eapply Forall_impl; [|exact Hgt]. simpl. intros; lia. }
    rewrite S. specialize (IH Hi (p + 1)%Z hi). lia.
  - specialize (IH Hi lo hi). lia.
Qed.

(* ------------------------------------------------------------------ offsets *)
Lemma firstn_S_nth {A} (l : list A) k d : k < length l -> firstn (S k) l = firstn k l ++ [nth k l d].
Proof.
  revert k. induction l as [|x l IH]; intros k Hk; simpl in *; [lia|].
  destruct k as [|k]; [reflexivity|]. simpl. f_equal. apply IH. lia.
Qed.

Lemma nth_firstn_lt {A} (l : list A) k i d : i < k -> nth i (firstn k l) d = nth i l d.
Proof.
  revert k i. induction l as [|x l IH]; intros k i Hi; [destruct k, i; reflexivity|].
  destruct k as [|k]; [lia|]. destruct i as [|i]; [reflexivity|]. simpl. apply IH. lia.
Qed.

Section Offsets.
  Variable a : list Z.
  Hypothesis Hnn : Forall (fun x => (0 <= x)%Z) a.

  Lemma off_0 : off a 0 = 0%Z.
  Proof. reflexivity. Qed.

  Lemma off_S k : k < length a -> off a (S k) = (off a k + nth k a 0)%Z.
  Proof. intros Hk. unfold off. rewrite (firstn_S_nth a k 0%Z Hk), zsum_app. simpl. lia. Qed.

  Lemma off_all k : length a <= k -> off a k = zsum a.
  Proof. intros Hk. unfold off. rewrite firstn_all2 by exact Hk. reflexivity. Qed.

  Lemma nth_nonneg k : (0 <= nth k a 0)%Z.
  Proof.
    destruct (Nat.lt_ge_cases k (length a)) as [H|H]; [|rewrite nth_overflow by exact H; lia].
    rewrite Forall_forall in Hnn. apply Hnn. apply nth_In. exact H.
  Qed.

  Lemma off_step k : (off a k <= off a (S k))%Z.
  Proof.
    destruct (Nat.lt_ge_cases k (length a)) as [H|H].
    - rewrite off_S by exact H. pose proof (nth_nonneg k). lia.
    - rewrite !off_all by lia. lia.
  Qed.

  Lemma off_mono j k : j <= k -> (off a j <= off a k)%Z.
  Proof. induction 1 as [|k _ IH]; [lia|]. pose proof (off_step k). lia. Qed.

  Lemma off_le_total k : (off a k <= zsum a)%Z.
  Proof.
    destruct (Nat.lt_ge_cases k (length a)) as [H|H]; [|rewrite off_all by exact H; lia].
    rewrite <- (off_all (length a)) by lia. apply off_mono. lia.
  Qed.

  (* ---------------------------------------------------------------- the walk: invariant *)
  (* P1 = the sorted draws processed so far *)
  Definition Inv (P1 : list Z) (st : wstate) : Prop :=
    w_ok st = true /\ w_el st < length a /\ length (w_out st) = length a /\
    (off a (w_el st) <= w_count_el st)%Z /\
    (w_count_el st + w_count_rem st = off a (S (w_el st)))%Z /\
    Forall (fun p => (p < off a (S (w_el st)))%Z) P1 /\
    (forall j, j < w_el st -> nth j (w_out st) 0%Z = cnt (off a j) (off a (S j)) P1) /\
    w_el_cnt st = cnt (off a (w_el st)) (off a (S (w_el st))) P1.

  Lemma advance_inv fuel : forall st P1 p,
    Inv P1 st -> length a <= fuel + S (w_el st) -> (w_count_el st <= p)%Z -> (p < zsum a)%Z ->
    Inv P1 (advance fuel a p st) /\ (p < off a (S (w_el (advance fuel a p st))))%Z /\
    (w_count_el (advance fuel a p st) <= p)%Z.
  Proof.
    induction fuel as [|fuel IH]; intros [out el ce cr ec ok] P1 p HI Hf Hce Hp;
      pose proof HI as (I1 & I2 & I3 & I4 & I5 & I6 & I7 & I8); simpl in *.
    - destruct (Z.leb_spec cr (p - ce)) as [Hc|Hc]; simpl.
      + exfalso. assert (E : S el = length a) by lia. rewrite (off_all (S el)) in I5 by lia. lia.
      + repeat split; try assumption; lia.
    - destruct (Z.leb_spec cr (p - ce)) as [Hc|Hc]; simpl.
      + assert (Hel : S el < length a).
        { destruct (Nat.lt_ge_cases (S el) (length a)) as [H|H]; [exact H|].
          exfalso. rewrite (off_all (S el)) in I5 by lia. lia. }
        apply IH; simpl; try lia.
        unfold Inv, advance1; simpl. repeat split.
        * rewrite I1. simpl. apply Nat.ltb_lt. exact Hel.
        * exact Hel.
        * rewrite upd_length. exact I3.
        * lia.
        * rewrite (off_S (S el)) by exact Hel. lia.
        * eapply Forall_impl; [|exact I6]. simpl. intros q Hq. pose proof (off_step (S el)). lia.
        * intros j Hj. destruct (Nat.eq_dec j el) as [->|Hne].
          -- rewrite nth_upd_eq by lia. exact I8.
          -- rewrite nth_upd_neq by lia. apply I7. lia.
        * symmetry. apply cnt_zero_below. exact I6.
      + repeat split; try assumption; lia.
  Qed.

  Lemma body_inv st P1 p :
    Inv P1 st -> (w_count_el st <= p)%Z -> (p < zsum a)%Z ->
    Inv (P1 ++ [p]) (walk_body a st p) /\ w_count_el (walk_body a st p) = p.
  Proof.
    intros HI Hce Hp. pose proof HI as (_ & I2 & _).
    destruct (advance_inv (length a) st P1 p HI ltac:(lia) Hce Hp) as (HJ & Hlt & Hle).
    unfold walk_body. destruct (advance (length a) a p st) as [out el ce cr ec ok]. simpl in *.
    destruct HJ as (J1 & J2 & J3 & J4 & J5 & J6 & J7 & J8). simpl in *.
    split; [|reflexivity]. unfold Inv; simpl. repeat split; try assumption; try lia.
    - apply Forall_app. split; [exact J6|]. constructor; [exact Hlt|constructor].
    - intros j Hj. rewrite cnt_app, (J7 j Hj).
      rewrite (cnt_zero_above _ _ [p]); [lia|]. constructor; [|constructor].
      assert (off a (S j) <= off a el)%Z by (apply off_mono; lia). lia.
    - rewrite cnt_app, J8. rewrite cnt_cons, cnt_nil.
      replace (inb (off a el) (off a (S el)) p) with true; [lia|]. symmetry. apply inb_true. lia.
  Qed.

  Lemma fold_inv : forall P2 P1 st,
    Inv P1 st -> nondecr P2 -> Forall (fun q => (w_count_el st <= q < zsum a)%Z) P2 ->
    Inv (P1 ++ P2) (fold_left (walk_body a) P2 st).
  Proof.
    induction P2 as [|p P2 IH]; intros P1 st HI Hs Hb; simpl.
    - rewrite app_nil_r. exact HI.
    - destruct Hs as [Hge Hs]. inversion Hb as [|? ? Hp Hb']; subst.
      destruct (body_inv st P1 p HI ltac:(lia) ltac:(lia)) as [HJ Hc].
      replace (P1 ++ p :: P2) with ((P1 ++ [p]) ++ P2) by (rewrite <- app_assoc; reflexivity).
      apply IH; [exact HJ|exact Hs|]. rewrite Hc.
      rewrite Forall_forall in *. intros q Hq. specialize (Hge q Hq). specialize (Hb' q Hq). lia.
  Qed.
End Offsets.

Lemma fold_seq_nth {S} (f : S -> Z -> S) (P : list Z) : forall st,
  fold_left (fun st idx => f st (nth idx P 0%Z)) (seq 0 (length P)) st = fold_left f P st.
Proof.
  intros st. rewrite <- (map_nth_seq P 0%Z) at 3.
  generalize (seq 0 (length P)). intros l. revert st. induction l as [|i l IH]; intros st; simpl; [reflexivity|].
  apply IH.
Qed.

(* K4: the result of the walk is the occupancy vector of the chosen unit positions.
   Sortedness is only needed weakly here; distinctness is what bounds an entry by its count. *)
Theorem walk_counts_weak n a P :
  Forall (fun x => (0 <= x)%Z) a -> nondecr P -> Forall (fun p => (0 <= p < zsum a)%Z) P -> length P = n ->
  length (fst (walk n a P)) = length a /\
  (forall i, i < length a -> nth i (fst (walk n a P)) 0%Z = cnt (off a i) (off a i + nth i a 0) P) /\
  (a <> [] -> snd (walk n a P) = true).
Proof.
  intros Hnn Hs Hb Hn. subst n. unfold walk. rewrite (fold_seq_nth (walk_body a) P).
  destruct a as [|x a'] eqn:Ea.
  - (* no entry: no unit can have been chosen *)
    destruct P as [|p P]; [|inversion Hb; subst; simpl in *; lia].
    simpl. split; [reflexivity|]. split; [intros i Hi; simpl in Hi; lia|]. intros H; contradiction.
  - rewrite <- Ea in *. assert (Hlen : 0 < length a) by (rewrite Ea; simpl; lia).
    assert (I0 : Inv a [] (walk_init a)).
    { unfold Inv, walk_init; simpl. repeat split; try lia.
      - apply Nat.ltb_lt. exact Hlen.
      - rewrite (off_S a 0 Hlen). rewrite off_0. lia.
      - constructor. }
    pose proof (fold_inv a Hnn P [] (walk_init a) I0 Hs) as HI. simpl in HI.
    specialize (HI Hb).
    destruct (fold_left (walk_body a) P (walk_init a)) as [out el ce cr ec ok].
    destruct HI as (J1 & J2 & J3 & J4 & J5 & J6 & J7 & J8). simpl in *.
    assert (Lo : length (upd out el ec) = length a) by (rewrite upd_length; exact J3).
    split; [|split].
    + rewrite app_length, firstn_length_le, repeat_length by lia. lia.
    + intros i Hi. rewrite <- (off_S a i Hi).
      destruct (Nat.lt_ge_cases i (S el)) as [H|H].
      * rewrite app_nth1 by (rewrite firstn_length_le by lia; exact H).
        rewrite nth_firstn_lt by exact H.
        destruct (Nat.eq_dec i el) as [->|Hne].
        -- rewrite nth_upd_eq by lia. exact J8.
        -- rewrite nth_upd_neq by lia. apply J7. lia.
      * rewrite app_nth2 by (rewrite firstn_length_le by lia; exact H).
        rewrite nth_repeat. symmetry. apply cnt_zero_below.
        eapply Forall_impl; [|exact J6]. simpl. intros q Hq.
        assert (off a (S el) <= off a i)%Z by (apply off_mono; [exact Hnn|lia]). lia.
    + intros _. exact J1.
Qed.

Lemma cnt_empty lo hi P : (hi <= lo)%Z -> cnt lo hi P = 0%Z.
Proof.
  intros H. induction P as [|p P IH]; [reflexivity|]. rewrite cnt_cons, IH.
  replace (inb lo hi p) with false; [reflexivity|]. symmetry. apply inb_false. lia.
Qed.

Lemma zsum_map_cnt a P : Forall (fun x => (0 <= x)%Z) a -> forall k, k <= length a ->
  zsum (map (fun i => cnt (off a i) (off a i + nth i a 0) P) (seq 0 k)) = cnt 0 (off a k) P.
Proof.
  intros Hnn. induction k as [|k IH]; intros Hk.
  - simpl. symmetry. apply cnt_empty. rewrite off_0. lia.
  - rewrite seq_S, map_app, zsum_app, IH by lia. simpl. rewrite <- (off_S a k) by lia.
    rewrite Z.add_0_r. apply cnt_split. split; [|apply off_step; exact Hnn].
    rewrite <- (off_0 a). apply off_mono; [exact Hnn|lia].
Qed.
