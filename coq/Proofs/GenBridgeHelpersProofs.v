(* Bridges for the small pure helpers of biom/table.py and biom/util.py that tools/py2v
   regenerates on every check (Gen/HelpersGen.v, Gen/UtilGen.v): C09 (merge orders, prefer_self),
   C05 (index_list), C19 (axis mapping of Table.sum), and the two axis helpers. *)
From Coq Require Import String List Arith ZArith Lia Bool.
From BiomV Require Import Base.Tree Base.ListUtil Base.Matrix Model.Table Model.Merge Model.Summary.
From BiomV Require Import Gen.Prelude Gen.HelpersGen Gen.UtilGen.
Import ListNotations.

(* ---------- integer-keyed dictionaries ---------- *)
Lemma zdmem_keys {V} (d : zdict V) k : zdmem d k = zmem k (map fst d).
Proof.
  unfold zdmem. induction d as [|[k' v] d IH]; simpl; [reflexivity|].
  destruct (Z.eqb k k'); [reflexivity|exact IH].
Qed.

Lemma zdset_new {V} (d : zdict V) k v : zdmem d k = false -> zdset d k v = d ++ [(k, v)].
Proof.
  unfold zdmem. induction d as [|[k' v'] d IH]; simpl; [reflexivity|].
  destruct (Z.eqb k k'); [discriminate|]. intros H. rewrite IH by exact H. reflexivity.
Qed.

(* ================================================================================================
   Table._union_id_order: the generated dictionary id -> index lists exactly the ids of
   Merge.union_order, in that order, numbered 0, 1, 2, ...                                         *)
Lemma union_body_step d x :
  union_id_body (d, length d) x =
  (if zmem x (map fst d) then (d, length d) else (d ++ [(x, length d)], length (d ++ [(x, length d)]))).
Proof.
  unfold union_id_body. rewrite zdmem_keys. destruct (zmem x (map fst d)) eqn:E; cbn [negb]; [reflexivity|].
  rewrite zdset_new by (rewrite zdmem_keys; exact E). rewrite app_length. simpl. f_equal. lia.
Qed.

Lemma union_fold_bridge l : forall d acc,
  map fst d = acc -> map snd d = seq 0 (length d) ->
  map fst (fst (fold_left union_id_body l (d, length d))) = fold_left uniq_step l acc /\
  map snd (fst (fold_left union_id_body l (d, length d))) = seq 0 (length (fst (fold_left union_id_body l (d, length d)))).
Proof.
  induction l as [|x l IH]; intros d acc Hk Hv; cbn [fold_left].
  - split; assumption.
  - rewrite union_body_step. unfold uniq_step at 2. rewrite Hk.
    destruct (zmem x acc) eqn:E.
    + apply IH; assumption.
    + apply IH.
      * rewrite map_app, Hk. reflexivity.
      * rewrite map_app, Hv, app_length. simpl. rewrite Nat.add_1_r, seq_S. reflexivity.
Qed.

Theorem union_order_bridge a b :
  map fst (union_id_order a b) = union_order a b /\
  map snd (union_id_order a b) = seq 0 (length (union_order a b)).
Proof.
  unfold union_id_order, union_order. cbv zeta.
  pose proof (union_fold_bridge (a ++ b) [] [] eq_refl eq_refl) as H. simpl length in H.
  destruct (fold_left union_id_body (a ++ b) ([], 0)) as [d i]. cbn [fst snd] in *.
  destruct H as (H1 & H2). split; [exact H1|]. rewrite H2, <- H1, map_length. reflexivity.
Qed.

(* ================================================================================================
   Table._intersect_id_order.  The generated dictionary is keyed by id, so an id that occurs twice
   in `a` is listed once (its index is overwritten) whereas Merge.intersect_order, a filter, lists
   it twice: the two agree exactly when `a` has no duplicate (ids of a well-formed table).          *)
Lemma zmem_distinct x l : zmem x (distinct l) = zmem x l.
Proof.
  induction l as [|y l IH]; [reflexivity|]. simpl. destruct (zmem y l) eqn:E.
  - rewrite IH. destruct (Z.eqb x y) eqn:Exy; [|reflexivity].
    apply Z.eqb_eq in Exy. subst. simpl. rewrite E. reflexivity.
  - simpl. rewrite IH. reflexivity.
Qed.

Lemma intersect_body_step b d x :
  zmem x (map fst d) = false ->
  intersect_id_body (distinct b) (d, length d) x =
  (if zmem x b then (d ++ [(x, length d)], length (d ++ [(x, length d)])) else (d, length d)).
Proof.
  intros Hx. unfold intersect_id_body. rewrite zmem_distinct. destruct (zmem x b); [|reflexivity].
  rewrite zdset_new by (rewrite zdmem_keys; exact Hx). rewrite app_length. simpl. f_equal. lia.
Qed.

Lemma intersect_fold_bridge b l : forall d,
  NoDup l -> (forall x, In x l -> zmem x (map fst d) = false) ->
  map snd d = seq 0 (length d) ->
  map fst (fst (fold_left (intersect_id_body (distinct b)) l (d, length d))) = map fst d ++ filter (fun x => zmem x b) l /\
  map snd (fst (fold_left (intersect_id_body (distinct b)) l (d, length d))) =
    seq 0 (length (fst (fold_left (intersect_id_body (distinct b)) l (d, length d)))).
Proof.
  induction l as [|x l IH]; intros d Hn Hd Hv; cbn [fold_left filter].
  - rewrite app_nil_r. split; [reflexivity|exact Hv].
  - inversion Hn as [|? ? Hx Hl]; subst.
    rewrite intersect_body_step by (apply Hd; left; reflexivity).
    destruct (zmem x b) eqn:E.
    + destruct (IH (d ++ [(x, length d)])) as [A B].
      * exact Hl.
      * intros y Hy. rewrite map_app. unfold zmem. rewrite existsb_app. simpl.
        fold (zmem y (map fst d)). rewrite (Hd y) by (right; exact Hy). simpl.
        destruct (Z.eqb y x) eqn:Eyx; [|reflexivity]. apply Z.eqb_eq in Eyx. subst. contradiction.
      * rewrite map_app, Hv, app_length. simpl. rewrite Nat.add_1_r, seq_S. reflexivity.
      * split; [|exact B]. rewrite A, map_app, <- app_assoc. reflexivity.
    + apply IH; [exact Hl| |exact Hv]. intros y Hy. apply Hd. right. exact Hy.
Qed.

Theorem intersect_order_bridge_partial a b :
  NoDup a ->
  map fst (intersect_id_order a b) = intersect_order a b /\
  map snd (intersect_id_order a b) = seq 0 (length (intersect_order a b)).
Proof.
  intros Hn. unfold intersect_id_order, intersect_order. cbv zeta.
  pose proof (intersect_fold_bridge b a [] Hn (fun _ _ => eq_refl) eq_refl) as H. simpl in H.
  destruct (fold_left (intersect_id_body (distinct b)) a ([], 0)) as [d i]. cbn [fst snd] in *.
  destruct H as [H1 H2]. split; [exact H1|]. rewrite H2, <- H1, map_length. reflexivity.
Qed.

(* the restriction is needed: with a repeated id the source numbers it once *)
Example intersect_order_dup_differs :
  map fst (intersect_id_order [1;1]%Z [1]%Z) = [1]%Z /\ intersect_order [1;1]%Z [1]%Z = [1;1]%Z.
Proof. vm_compute. split; reflexivity. Qed.

(* ================================================================================================
   util.prefer_self *)
Theorem prefer_self_bridge x y : prefer_self x y = prefer_self_gen x y.
Proof. reflexivity. Qed.

(* ================================================================================================
   util.index_list: {id: position}.  A repeated id keeps its LAST position (the comprehension
   overwrites), Table.pos gives the first: they agree on lists without duplicates.                 *)
Lemma zdget_zdset_same {V} (d : zdict V) k v : zdget (zdset d k v) k = Some v.
Proof.
  induction d as [|[k' v'] d IH]; simpl.
  - rewrite Z.eqb_refl. reflexivity.
  - destruct (Z.eqb k k') eqn:E; simpl; [rewrite Z.eqb_refl; reflexivity|rewrite E; exact IH].
Qed.

Lemma zdget_zdset_other {V} (d : zdict V) k k2 v : k2 <> k -> zdget (zdset d k v) k2 = zdget d k2.
Proof.
  intros Hne. induction d as [|[k' v'] d IH]; simpl.
  - destruct (Z.eqb k2 k) eqn:E; [apply Z.eqb_eq in E; contradiction|reflexivity].
  - destruct (Z.eqb k k') eqn:E; simpl.
    + apply Z.eqb_eq in E. subst k'. destruct (Z.eqb k2 k) eqn:E2; [apply Z.eqb_eq in E2; contradiction|reflexivity].
    + destruct (Z.eqb k2 k'); [reflexivity|exact IH].
Qed.

Lemma index_fold l : forall s d x,
  NoDup l ->
  zdget (fold_left (fun d '(idx, id_) => zdset d id_ idx) (combine (seq s (length l)) l) d) x =
  match index_of Z.eqb x l with Some i => Some (s + i) | None => zdget d x end.
Proof.
  induction l as [|y l IH]; intros s d x Hn; [reflexivity|].
  inversion Hn as [|? ? Hy Hl]; subst. cbn [length seq combine fold_left index_of].
  rewrite IH by exact Hl. destruct (Z.eqb x y) eqn:E.
  - apply Z.eqb_eq in E. subst y.
    assert (N : index_of Z.eqb x l = None) by (apply index_of_Z_None; exact Hy).
    rewrite N. rewrite zdget_zdset_same. f_equal. lia.
  - destruct (index_of Z.eqb x l) as [i|]; simpl.
    + f_equal. lia.
    + apply zdget_zdset_other. intros ->. rewrite Z.eqb_refl in E. discriminate.
Qed.

Theorem index_list_bridge_partial l x : NoDup l -> zdget (index_list l) x = pos x l.
Proof.
  intros Hn. unfold index_list, pos. rewrite index_fold by exact Hn.
  destruct (index_of Z.eqb x l); reflexivity.
Qed.

Example index_list_dup_differs : zdget (index_list [5;5]%Z) 5%Z = Some 1 /\ pos 5%Z [5;5]%Z = Some 0.
Proof. vm_compute. split; reflexivity. Qed.

(* ================================================================================================
   axis names.  Table._invert_axis / _axis_to_num / the axis mapping at the head of Table.sum,
   against the axis types of the models (Table.axis, Table.other, Summary.axis3).                   *)
Open Scope string_scope.
Definition axis_str (a : axis) : string := match a with Obs => "observation" | Samp => "sample" end.
Definition axis3_str (a : axis3) : string :=
  match a with AObs => "observation" | ASamp => "sample" | AWhole => "whole" end.
(* the `axis` argument scipy's sum is called with: None = everything, 0 = one figure per column
   (sample), 1 = one figure per row (observation); Summary.r_sum3 selects by axis3 *)
Definition scipy_axis (a : axis3) : option nat := match a with AWhole => None | ASamp => Some 0 | AObs => Some 1 end.

Theorem invert_axis_bridge a : invert_axis (axis_str a) = inl (axis_str (other a)).
Proof. destruct a; reflexivity. Qed.

Theorem invert_axis_unknown s : s <> "sample" -> s <> "observation" -> invert_axis s = inr (UnknownAxisError s).
Proof.
  intros H1 H2. unfold invert_axis.
  destruct (String.eqb s "sample") eqn:E1; [apply String.eqb_eq in E1; contradiction|].
  destruct (String.eqb s "observation") eqn:E2; [apply String.eqb_eq in E2; contradiction|reflexivity].
Qed.

(* numerical axis: observation = 0 (rows), sample = 1 (columns) *)
Theorem axis_to_num_bridge a : axis_to_num (axis_str a) = Ok (match a with Obs => 0 | Samp => 1 end).
Proof. destruct a; reflexivity. Qed.

Theorem sum_axis_bridge a : sum_axis (axis3_str a) = Ok (scipy_axis a).
Proof. destruct a; reflexivity. Qed.

Theorem sum_axis_unknown s :
  s <> "whole" -> s <> "sample" -> s <> "observation" -> sum_axis s = Raise (UnknownAxisError s).
Proof.
  intros H1 H2 H3. unfold sum_axis.
  destruct (String.eqb s "whole") eqn:E1; [apply String.eqb_eq in E1; contradiction|].
  destruct (String.eqb s "sample") eqn:E2; [apply String.eqb_eq in E2; contradiction|].
  destruct (String.eqb s "observation") eqn:E3; [apply String.eqb_eq in E3; contradiction|reflexivity].
Qed.
