(* Bridges for C09: the merge orders and the default metadata policy, as tools/py2v regenerates
   them on every check from Table._union_id_order / Table._intersect_id_order (biom/table.py ->
   Gen/HelpersGen.v) and util.prefer_self (biom/util.py -> Gen/UtilGen.v), against Model/Merge.v. *)
From Coq Require Import String List Arith ZArith Lia Bool.
From BiomV Require Import Base.Tree Base.ListUtil Base.Matrix Model.Table.
From BiomV Require Import Model.Merge Gen.Prelude Gen.HelpersGen Gen.UtilGen.
Import ListNotations.

(* ---------- integer-keyed dictionaries ---------- *)
Lemma zdmem_keys {V} (d : zdict V) k : zdmem d k = zmem k (map fst d).
Proof.
  unfold zdmem. induction d as [|[k' v] d IH]; simpl; [reflexivity|].
  destruct (Z.eqb k k'); [reflexivity|exact IH].
Qed.

Lemma zdset_new {V} (d : zdict V) k v : zdmem d k = false -> zdset d k v = d ++ [(k, v)].
Proof.
  unfold zdmem. induction d as [|[k' v'] d IH]; simpl; [reflexivity|].
  destruct (Z.eqb k k'); [discriminate|]. intros H. rewrite IH by exact H. reflexivity.
Qed.

(* ================================================================================================
   Table._union_id_order: the generated dictionary id -> index lists exactly the ids of
   Merge.union_order, in that order, numbered 0, 1, 2, ...                                         *)
Lemma union_body_step d x :
  union_id_body (d, length d) x =
  (if zmem x (map fst d) then (d, length d) else (d ++ [(x, length d)], length (d ++ [(x, length d)]))).
Proof.
  unfold union_id_body. rewrite zdmem_keys. destruct (zmem x (map fst d)) eqn:E; cbn [negb]; [reflexivity|].
  rewrite zdset_new by (rewrite zdmem_keys; exact E). rewrite app_length. simpl. f_equal. lia.
Qed.

Lemma union_fold_bridge l : forall d acc,
  map fst d = acc -> map snd d = seq 0 (length d) ->
  map fst (fst (fold_left union_id_body l (d, length d))) = fold_left uniq_step l acc /\
  map snd (fst (fold_left union_id_body l (d, length d))) = seq 0 (length (fst (fold_left union_id_body l (d, length d)))).
Proof.
  induction l as [|x l IH]; intros d acc Hk Hv; cbn [fold_left].
  - split; assumption.
  - rewrite union_body_step. unfold uniq_step at 2. rewrite Hk.
    destruct (zmem x acc) eqn:E.
    + apply IH; assumption.
    + apply IH.
      * rewrite map_app, Hk. reflexivity.
      * rewrite map_app, Hv, app_length. simpl. rewrite Nat.add_1_r, seq_S. reflexivity.
Qed.

Theorem union_order_bridge a b :
  map fst (union_id_order a b) = union_order a b /\
  map snd (union_id_order a b) = seq 0 (length (union_order a b)).
Proof.
  unfold union_id_order, union_order. cbv zeta.
  pose proof (union_fold_bridge (a ++ b) [] [] eq_refl eq_refl) as H. simpl length in H.
  destruct (fold_left union_id_body (a ++ b) ([], 0)) as [d i]. cbn [fst snd] in *.
  destruct H as (H1 & H2). split; [exact H1|]. rewrite H2, <- H1, map_length. reflexivity.
Qed.

(* ================================================================================================
   Table._intersect_id_order.  The generated dictionary is keyed by id, so an id that occurs twice
   in `a` is listed once (its index is overwritten) whereas Merge.intersect_order, a filter, lists
   it twice: the two agree exactly when `a` has no duplicate (ids of a well-formed table).          *)
Lemma zmem_distinct x l : zmem x (distinct l) = zmem x l.
Proof.
  induction l as [|y l IH]; [reflexivity|]. simpl. destruct (zmem y l) eqn:E.
  - rewrite IH. destruct (Z.eqb x y) eqn:Exy; [|reflexivity].
    apply Z.eqb_eq in Exy. subst. simpl. rewrite E. reflexivity.
  - simpl. rewrite IH. reflexivity.
Qed.

Lemma intersect_body_step b d x :
  zmem x (map fst d) = false ->
  intersect_id_body (distinct b) (d, length d) x =
  (if zmem x b then (d ++ [(x, length d)], length (d ++ [(x, length d)])) else (d, length d)).
Proof.
  intros Hx. unfold intersect_id_body. rewrite zmem_distinct. destruct (zmem x b); [|reflexivity].
  rewrite zdset_new by (rewrite zdmem_keys; exact Hx). rewrite app_length. simpl. f_equal. lia.
Qed.

Lemma intersect_fold_bridge b l : forall d,
  NoDup l -> (forall x, In x l -> zmem x (map fst d) = false) ->
  map snd d = seq 0 (length d) ->
  map fst (fst (fold_left (intersect_id_body (distinct b)) l (d, length d))) = map fst d ++ filter (fun x => zmem x b) l /\
  map snd (fst (fold_left (intersect_id_body (distinct b)) l (d, length d))) =
    seq 0 (length (fst (fold_left (intersect_id_body (distinct b)) l (d, length d)))).
Proof.
  induction l as [|x l IH]; intros d Hn Hd Hv; cbn [fold_left filter].
  - rewrite app_nil_r. split; [reflexivity|exact Hv].
  - inversion Hn as [|? ? Hx Hl]; subst.
    rewrite intersect_body_step by (apply Hd; left; reflexivity).
    destruct (zmem x b) eqn:E.
    + destruct (IH (d ++ [(x, length d)])) as [A B].
      * exact Hl.
      * intros y Hy. rewrite map_app. unfold zmem. rewrite existsb_app. simpl.
        fold (zmem y (map fst d)). rewrite (Hd y) by (right; exact Hy). simpl.
        destruct (Z.eqb y x) eqn:Eyx; [|reflexivity]. apply Z.eqb_eq in Eyx. subst. contradiction.
      * rewrite map_app, Hv, app_length. simpl. rewrite Nat.add_1_r, seq_S. reflexivity.
      * split; [|exact B]. rewrite A, map_app, <- app_assoc. reflexivity.
    + apply IH; [exact Hl| |exact Hv]. intros y Hy. apply Hd. right. exact Hy.
Qed.

Theorem intersect_order_bridge_partial a b :
  NoDup a ->
  map fst (intersect_id_order a b) = intersect_order a b /\
  map snd (intersect_id_order a b) = seq 0 (length (intersect_order a b)).
Proof.
  intros Hn. unfold intersect_id_order, intersect_order. cbv zeta.
  pose proof (intersect_fold_bridge b a [] Hn (fun _ _ => eq_refl) eq_refl) as H. simpl in H.
  destruct (fold_left (intersect_id_body (distinct b)) a ([], 0)) as [d i]. cbn [fst snd] in *.
  destruct H as [H1 H2]. split; [exact H1|]. rewrite H2, <- H1, map_length. reflexivity.
Qed.

(* the restriction is needed: with a repeated id the source numbers it once *)
Example intersect_order_dup_differs :
  map fst (intersect_id_order [1;1]%Z [1]%Z) = [1]%Z /\ intersect_order [1;1]%Z [1]%Z = [1;1]%Z.
Proof. vm_compute. split; reflexivity. Qed.

(* ================================================================================================
   util.prefer_self *)
Theorem prefer_self_bridge x y : prefer_self x y = prefer_self_gen x y.
Proof. reflexivity. Qed.

