(* Bridge: the last-column test and the choice of sample ids / metadata name of the reader,
   regenerated from biom/table.py (Gen/TsvRead2Gen.v, tools/py2v_tsv target tsvread2), are what
   extract_tsv of Model/Tsv.v computes between find_header and data_rows. *)
From Coq Require Import List Arith ZArith Lia Bool.
From BiomV Require Import Base.Tree Base.ListUtil Base.Matrix Model.Table Model.Tsv
  Gen.TsvPrelude Gen.TsvRead2Gen.
Import ListNotations.
Open Scope Z_scope.

Lemma split_when_not_nil f t : split_when f t <> [].
Proof.
  destruct t as [|c r]; cbn [split_when]; [discriminate|].
  destruct (f c); [discriminate|]. destruct (split_when f r); discriminate.
Qed.

Lemma last_of_rsplit l : list_last (str_rsplit1 l [TAB]) = ROk (last (split_on TAB l) []).
Proof.
  unfold str_rsplit1. destruct (split_on TAB l) as [|a [|b t]] eqn:E.
  - exfalso. exact (split_when_not_nil _ _ E).
  - reflexivity.
  - reflexivity.
Qed.

Lemma last_values_bridge ls :
  rmap (fun line => rbind (list_last (str_rsplit1 line [TAB])) (fun r1 => ROk (strip r1))) ls
  = ROk (map last_value ls).
Proof.
  induction ls as [|l t IH]; [reflexivity|].
  cbn [rmap map]. rewrite last_of_rsplit. cbn [rbind]. rewrite IH. reflexivity.
Qed.

Lemma numeric_bridge parse_num ls :
  forallb (fun b => b) (map (fun i => isfloat parse_num i) (map last_value ls)) = last_numeric parse_num ls.
Proof.
  unfold last_numeric. induction ls as [|l t IH]; [reflexivity|]. cbn [map forallb]. rewrite IH. reflexivity.
Qed.

Theorem extract_ids_gen_is_source : forall parse_num lines header ds,
  extract_ids (isfloat parse_num) lines [TAB] header ds =
  let numeric := last_numeric parse_num (skipn ds lines) in
  if numeric || Nat.eqb ds 0 then
    match header with None => RErr E_TYPE | Some h => ROk (numeric, None, None, h) end
  else
    match header with
    | None => RErr E_TYPE
    | Some [] => RErr E_OTHER
    | Some h => ROk (numeric, Some (last h []), Some [], removelast h)
    end.
Proof.
  intros parse_num lines header ds. unfold extract_ids, list_from.
  rewrite last_values_bridge. cbn [rbind]. rewrite numeric_bridge. cbv zeta.
  destruct (last_numeric parse_num (skipn ds lines) || Nat.eqb ds 0).
  - destruct header; reflexivity.
  - destruct header as [[|a h]|]; reflexivity.
Qed.

(* the hand-written extract_tsv is the regenerated pieces around data_rows *)
Theorem extract_tsv_through_gen : forall parse_num lines,
  extract_tsv parse_num lines =
  let '(header, ds) := find_header lines None 0%nat in
  match extract_ids (isfloat parse_num) lines [TAB] header ds with
  | RErr e => RErr e
  | ROk (numeric, md_name, metadata, samp_ids) =>
      match data_rows parse_num numeric (skipn ds lines) with
      | RErr e => RErr e
      | ROk rows =>
          ROk (mkE samp_ids (map (fun r => fst (fst r)) rows)
                   (all_triples 0 (map (fun r => snd (fst r)) rows))
                   (if numeric then None else Some (map (fun r => snd r) rows))
                   md_name)
      end
  end.
Proof.
  intros parse_num lines. unfold extract_tsv.
  destruct (find_header lines None 0%nat) as [header ds].
  rewrite extract_ids_gen_is_source. cbv zeta.
  destruct (last_numeric parse_num (skipn ds lines) || Nat.eqb ds 0).
  - destruct header; reflexivity.
  - destruct header as [[|a h]|]; reflexivity.
Qed.
