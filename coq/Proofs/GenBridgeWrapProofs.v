(* Bridges between the hand-written Model/Transform.v and the definitions regenerated from
   biom/table.py by tools/py2v_wrap (Gen/TransformWrapGen.v over Gen/WrapPrelude.v). *)
From Coq Require Import List Arith ZArith QArith Bool Lia.
From BiomV Require Import Base.Tree Base.ListUtil Base.Matrix Model.Table Model.Stored Model.Reorder
  Model.Transform Gen.WrapPrelude Gen.TransformWrapGen.
Import ListNotations.
Close Scope Q_scope.

Lemma w_nth_map_seq {B} (g : nat -> B) n i d : i < n -> nth i (map g (seq 0 n)) d = g i.
Proof.
  intros Hi. rewrite (nth_indep _ d (g 0)) by (rewrite map_length, seq_length; exact Hi).
  rewrite (map_nth g). rewrite seq_nth by exact Hi. reflexivity.
Qed.

(* ---- what a position of the dense vector reads *)
Definition look (j : nat) (l : list nat) (v : list Z) : Z :=
  match nfind j l with Some k => nth k v 0%Z | None => 0%Z end.

Lemma look_cons j x l y v : look j (x :: l) (y :: v) = if Nat.eqb j x then y else look j l v.
Proof.
  unfold look, nfind. cbn [index_of]. destruct (Nat.eqb j x); [reflexivity|].
  destruct (index_of Nat.eqb j l); reflexivity.
Qed.

Lemma look_nilv j l : look j l [] = 0%Z.
Proof. unfold look. destruct (nfind j l) as [k|]; [destruct k; reflexivity|reflexivity]. Qed.

Lemma look_notin j l v : ~ In j l -> look j l v = 0%Z.
Proof.
  revert v. induction l as [|x l IH]; intros v H; [reflexivity|].
  destruct v as [|y v]; [apply look_nilv|]. rewrite look_cons.
  destruct (Nat.eqb_spec j x) as [E|E]; [exfalso; apply H; left; symmetry; exact E|].
  apply IH. intros K. apply H. right. exact K.
Qed.

Lemma look_nz j l v : NoDup l ->
  look j (map fst (nz_pairs l v)) (map snd (nz_pairs l v)) = look j l v.
Proof.
  revert v. induction l as [|x l IH]; intros v H; [reflexivity|].
  destruct v as [|y v]; [rewrite (look_nilv j (x :: l)); reflexivity|].
  inversion H as [|x' l' Hx Hl]; subst.
  unfold nz_pairs. cbn [combine filter snd]. fold (nz_pairs l v).
  destruct (Z.eqb_spec y 0) as [E|E]; cbn [negb].
  - rewrite (IH v Hl), look_cons. destruct (Nat.eqb_spec j x) as [J|J]; [|reflexivity].
    subst. apply look_notin. exact Hx.
  - cbn [map fst snd]. rewrite !look_cons. destruct (Nat.eqb j x); [reflexivity|]. apply IH. exact Hl.
Qed.

Lemma scatter_nz len l v : NoDup l ->
  scatter 0%Z len (map fst (nz_pairs l v)) (map snd (nz_pairs l v)) = scatter 0%Z len l v.
Proof. intros H. unfold scatter. apply map_ext. intros j. exact (look_nz j l v H). Qed.

Lemma scatter_all_nth (vs : list (list Z)) : forall lay outs,
  scatter_all 0%Z vs lay outs
  = map (fun i => scatter 0%Z (length (nth i vs [])) (nth i lay []) (nth i outs [])) (seq 0 (length vs)).
Proof.
  induction vs as [|v vs IH]; intros lay outs; [reflexivity|].
  cbn [scatter_all length seq map nth]. f_equal.
  - destruct lay, outs; reflexivity.
  - rewrite IH, <- seq_shift, map_map. apply map_ext. intros i.
    destruct lay, outs; cbn [tl nth]; try reflexivity; destruct i; reflexivity.
Qed.

(* eliminate_zeros does not change what the matrix stands for *)
Lemma dense_eliminate a vs lay outs : Forall (@NoDup nat) lay ->
  sp_dense (sp_eliminate_zeros (mkSp a (map (@length Z) vs) lay outs)) = scatter_all 0%Z vs lay outs.
Proof.
  intros HN. rewrite scatter_all_nth. unfold sp_dense, sp_eliminate_zeros.
  cbn [sp_axis sp_lens sp_lay sp_vals]. rewrite map_length. apply map_ext. intros i.
  change 0 with (@length Z []) at 1. rewrite (map_nth (@length Z)).
  destruct (Nat.lt_ge_cases i (length lay)) as [Hi|Hi].
  - rewrite !(w_nth_map_seq _ (length lay) i) by exact Hi. apply scatter_nz.
    apply (proj1 (Forall_forall _ _) HN). apply nth_In. exact Hi.
  - rewrite !(nth_overflow (map _ (seq 0 (length lay)))) by (rewrite map_length, seq_length; exact Hi).
    rewrite (nth_overflow lay) by exact Hi. unfold scatter, nfind. reflexivity.
Qed.

(* the kernel call on what _get_sparse_data hands over *)
Definition outs_of (f : userfn) (a : axis) (lay : list (list nat)) (t : table) : list (list Z) :=
  map (fun c : call => f (fst (fst c)) (snd (fst c)) (snd c)) (transform_calls a lay t).

Lemma kernel_call lay f a t lens :
  py_transform (mkSp a lens lay (map (fun i => gather 0%Z (nth i lay []) (vec a t i)) (seq 0 (length (ids a t)))))
               (ids a t) (mds a t) f (match a with Obs => 0 | Samp => 1 end)
  = if outs_fit a lay (outs_of f a lay t) t then ROk (mkSp a lens lay (outs_of f a lay t)) else RErr E_VALUE.
Proof.
  unfold py_transform. cbn [sp_axis sp_lens sp_lay sp_vals].
  replace (Nat.eqb (match a with Obs => 0 | Samp => 1 end) (match a with Obs => 0 | Samp => 1 end)) with true
    by (destruct a; reflexivity).
  cbn [negb].
  assert (E : map (fun i => f (nth i (map (fun i0 => gather 0%Z (nth i0 lay []) (vec a t i0)) (seq 0 (length (ids a t)))) [])
                              (nth i (ids a t) 0%Z) (md_entry (mds a t) i)) (seq 0 (length (ids a t)))
              = outs_of f a lay t).
  { unfold outs_of, transform_calls. rewrite map_map. apply map_ext_in. intros i Hi.
    apply in_seq in Hi. rewrite (w_nth_map_seq _ (length (ids a t)) i) by lia. reflexivity. }
  rewrite E. unfold outs_fit.
  assert (F : forall p q : nat -> bool, (forall i, In i (seq 0 (length (ids a t))) -> p i = q i) ->
              forallb p (seq 0 (length (ids a t))) = forallb q (seq 0 (length (ids a t)))).
  { intros p q. generalize (seq 0 (length (ids a t))). induction l as [|x l IH]; intros H; [reflexivity|].
    cbn [forallb]. rewrite (H x (or_introl eq_refl)), IH; [reflexivity|]. intros i Hi. apply H. right. exact Hi. }
  rewrite (F _ (fun i => Nat.eqb (length (nth i (outs_of f a lay t) [])) (length (nth i lay [])))); [reflexivity|].
  intros i Hi. apply in_seq in Hi. rewrite (w_nth_map_seq _ (length (ids a t)) i) by lia.
  unfold gather. rewrite map_length. reflexivity.
Qed.

Lemma copy_normal t : normal t -> copy t = t.
Proof. intros [A B]. unfold copy. unfold md_normal in A, B. rewrite A, B. destruct t; reflexivity. Qed.

(* Table.transform.  Hypotheses: no position is stored twice in a vector (canonical format, part of
   lay_wf), and for inplace=False the receiver's metadata is in the constructor's normal form (copy()
   goes through the constructor; the hand model returns the receiver's metadata as it is). *)
Theorem transform_bridge : forall lay f a inplace t,
  Forall (@NoDup nat) lay -> (inplace = true \/ normal t) ->
  transform_gen lay t f a inplace = transform a inplace lay (outs_of f a lay t) t.
Proof.
  intros lay f a inplace t HN HI. unfold transform_gen, transform.
  assert (K : forall t0 : table, t0 = t -> forall h table0, deref h table0 = t0 ->
    rbind2 h (py_transform (tb_get_sparse_data lay h table0 a) (tb_ids h table0 a) (tb_metadata h table0 a) f
                           (tb_axis_to_num h table0 a))
      (fun v_arr => py_return (tb_set_data h table0 (sp_eliminate_zeros v_arr)) table0)
    = if outs_fit a lay (outs_of f a lay t) t
      then (h_self (store h table0 (transform_table a lay (outs_of f a lay t) t)), ROk (transform_table a lay (outs_of f a lay t) t))
      else (h_self h, RErr E_VALUE)).
  { intros t0 -> h table0 D. unfold tb_get_sparse_data, tb_ids, tb_metadata, tb_axis_to_num. rewrite D.
    rewrite kernel_call. destruct (outs_fit a lay (outs_of f a lay t) t); [|reflexivity].
    cbn [rbind2]. unfold tb_set_data, py_return. rewrite D.
    cbn [sp_axis sp_eliminate_zeros]. rewrite (dense_eliminate a (axis_vecs a t) lay _ HN).
    fold (transform_table a lay (outs_of f a lay t) t).
    destruct table0; reflexivity. }
  destruct inplace; cbn [negb].
  - cbn [obj_keep]. rewrite (K t eq_refl (heap0 t) RSelf eq_refl).
    destruct (outs_fit a lay (outs_of f a lay t) t); reflexivity.
  - destruct HI as [HI|HI]; [discriminate|]. unfold tb_copy. cbn [heap0 deref h_self h_new].
    rewrite (copy_normal t HI). rewrite (K t eq_refl (mkH t t) RNew eq_refl).
    destruct (outs_fit a lay (outs_of f a lay t) t); reflexivity.
Qed.

(* the function pa hands over is Model/Transform.v pa_fn *)
Lemma pa_fn_bridge one data : np_where (np_ne data 0%Z) one 0%Z = pa_fn one data.
Proof. unfold np_where, np_ne, pa_fn. rewrite map_map. apply map_ext. intros x. destruct (Z.eqb x 0); reflexivity. Qed.

Theorem pa_bridge : forall lay one inplace t,
  Forall (@NoDup nat) lay -> (inplace = true \/ normal t) ->
  pa_gen lay one t inplace = pa one inplace lay t.
Proof.
  intros lay one inplace t HN HI. unfold pa_gen, pa, transform_with. cbn [heap0 deref h_self].
  rewrite (transform_bridge lay _ Samp inplace t HN HI). f_equal.
  unfold outs_of, apply_fn. apply map_ext. intros c. apply pa_fn_bridge.
Qed.

Theorem rankdata_bridge : forall lay (rk : Z -> list Z -> list Z) a inplace m t,
  Forall (@NoDup nat) lay -> (inplace = true \/ normal t) ->
  rankdata_gen lay rk t a inplace m = rankdata (rk m) a inplace lay t.
Proof.
  intros lay rk a inplace m t HN HI. unfold rankdata_gen, rankdata, transform_with. cbn [heap0 deref h_self].
  rewrite (transform_bridge lay _ a inplace t HN HI). reflexivity.
Qed.

(* norm: the function handed over is Model/Transform.v norm_fn, on the chosen axis; unconditional *)
Lemma norm_fn_bridge val : np_div_q val (py_float (np_sum val)) = norm_fn val.
Proof. reflexivity. Qed.

Theorem norm_bridge : forall lay a inplace t, norm_gen lay t a inplace = norm_vecs a lay t.
Proof.
  intros lay a inplace t. unfold norm_gen, norm_vecs, tb_transform_q, transform_calls. cbn [heap0 deref h_self].
  rewrite map_map. reflexivity.
Qed.
