(* Bridge: the writer regenerated from biom/table.py (Gen/Hdf5Gen.v, translator tools/py2v_h5) is the
   hand-written writer of Model/Hdf5.v, for every table state, generator text, date and compress flag. *)
From Coq Require Import String.
From Coq Require Import List Arith ZArith Lia Bool.
From BiomV Require Import Base.Tree Base.TreeStr Base.ListUtil Base.Matrix Model.Table Model.Sparse Model.Hdf5
     Gen.H5Prelude Gen.Hdf5Gen.
Import ListNotations.
Open Scope list_scope.

Definition default_formatters : fmap :=
  fm_set (fm_set (fm_set (fm_set (fm_new general_formatter) s_taxonomy vlen_list_of_str_formatter)
     s_Taxonomy vlen_list_of_str_formatter) s_KEGG vlen_list_of_str_formatter) s_collapsed vlen_list_of_str_formatter.

Lemma fm_get_default : forall k col, fm_get default_formatters k k col = format_category k col.
Proof.
  intros k col. unfold fm_get, default_formatters, fm_set, fm_new, format_category, reserved. cbn [fm_items fm_default fm_find].
  destruct (lz_eqb k s_collapsed), (lz_eqb k s_KEGG), (lz_eqb k s_Taxonomy), (lz_eqb k s_taxonomy); reflexivity.
Qed.

Lemma mapM_ext : forall A B (f g : A -> result B) l, (forall x, f x = g x) -> mapM f l = mapM g l.
Proof. intros A B f g l H. induction l as [|x t IH]; [reflexivity|]. cbn [mapM]. rewrite H, IH. reflexivity. Qed.

Lemma format_md_with_default : forall md, format_md_with default_formatters md = format_md md.
Proof.
  intros [[|r0 rest]|]; try reflexivity. unfold format_md_with, format_md.
  rewrite (mapM_ext _ _ (fun k => fm_get default_formatters k k (column (r0 :: rest) k))
                        (fun k => format_category k (column (r0 :: rest) k))); [reflexivity|].
  intro k. apply fm_get_default.
Qed.

Lemma to_hdf5_gen_eq : forall st genby compress date now,
  to_hdf5_gen st genby compress None date now
  = to_hdf5 st genby (match date with Some d => d | None => now end).
Proof.
  intros st genby compress date now.
  unfold to_hdf5_gen.
  change (fm_update _ (opt_default None [])) with default_formatters.
  unfold h5_run, to_hdf5, bind.
  destruct st as [oids sids f c omd smd ty id ogmd sgmd].
  destruct date as [d|]; destruct id as [[|c0 i0]|]; destruct ty as [[|c1 t1]|]; destruct oids as [|o0 oids]; destruct sids as [|s0 sids].
  all: lazy -[format_md_with format_md format_gmd eliminate_zeros asformat utf8_encode under default_formatters map].
  all: rewrite !format_md_with_default.
  all: destruct (format_md omd) as [xo|]; [|reflexivity].
  all: destruct (format_gmd ogmd) as [xog|]; [|reflexivity].
  all: destruct (format_md smd) as [xs|]; [|reflexivity].
  all: destruct (format_gmd sgmd) as [xsg|]; [|reflexivity].
  all: assert (Hl : forall l : list str, length (map utf8_encode l) = length l) by (intro; apply map_length).
  all: unfold length in Hl; rewrite ?Hl; reflexivity.
Qed.

(* the date handed over by the caller / the clock when none is given; format_fs left at its default *)
Theorem to_hdf5_is_source : forall st genby compress date now,
  to_hdf5_gen st genby compress None (Some date) now = to_hdf5 st genby date.
Proof. intros. apply (to_hdf5_gen_eq st genby compress (Some date) now). Qed.

Theorem to_hdf5_clock_is_source : forall st genby compress now,
  to_hdf5_gen st genby compress None None now = to_hdf5 st genby now.
Proof. intros. apply (to_hdf5_gen_eq st genby compress None now). Qed.

Theorem default_formatters_is_source : forall k col,
  fm_get default_formatters k k col = format_category k col.
Proof. exact fm_get_default. Qed.
