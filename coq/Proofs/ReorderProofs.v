(* proofs for C06: reordering, sorting, aligning, copying and renaming keep every value and
   every metadata entry with its ids *)
From Coq Require Import List Arith ZArith Lia Bool Permutation.
From BiomV Require Import Base.Tree Base.ListUtil Base.Matrix Model.Table Model.Orient Model.Reorder Proofs.OrientProofs.
Import ListNotations.

(* ---------------- small list facts ---------------- *)
Lemma nth_map_lt {A B} (f : A -> B) (l : list A) k dA dB :
  k < length l -> nth k (map f l) dB = f (nth k l dA).
Proof.
  intros Hk. rewrite (nth_indep _ dB (f dA)) by (rewrite map_length; exact Hk). apply map_nth.
Qed.

Lemma zdup_true_not_NoDup l : zdup l = true <-> ~ NoDup l.
Proof.
  split.
  - intros H N. apply zdup_false_NoDup in N. congruence.
  - intros H. destruct (zdup l) eqn:E; [reflexivity|]. exfalso. apply H. apply zdup_false_NoDup. exact E.
Qed.

Lemma NoDup_map_inj_on (f : Z -> Z) l :
  NoDup l -> (forall x y, In x l -> In y l -> f x = f y -> x = y) -> NoDup (map f l).
Proof.
  induction l as [|a l IH]; intros N Inj; simpl; [constructor|].
  inversion N as [|? ? Ha Nl]; subst. constructor.
  - intros Hin. apply in_map_iff in Hin. destruct Hin as [b [Hb Hbl]].
    assert (b = a) by (apply Inj; [right; exact Hbl|left; reflexivity|exact Hb]). subst. contradiction.
  - apply IH; [exact Nl|]. intros x y Hx Hy. apply Inj; right; assumption.
Qed.

Lemma NoDup_map_inv_on (f : Z -> Z) l x y :
  NoDup (map f l) -> In x l -> In y l -> f x = f y -> x = y.
Proof.
  induction l as [|a l IH]; intros N Hx Hy E; simpl in *; [contradiction|].
  inversion N as [|? ? Ha Nl]; subst.
  destruct Hx as [Hx|Hx], Hy as [Hy|Hy]; subst.
  - reflexivity.
  - exfalso. apply Ha. rewrite E. apply in_map. exact Hy.
  - exfalso. apply Ha. rewrite <- E. apply in_map. exact Hx.
  - apply IH; assumption.
Qed.

Lemma pos_map_inj_on (f : Z -> Z) l x :
  In x l -> (forall a b, In a l -> In b l -> f a = f b -> a = b) -> pos (f x) (map f l) = pos x l.
Proof.
  unfold pos. induction l as [|y l IH]; intros Hx Inj; simpl in *; [contradiction|].
  destruct (Z.eqb_spec x y) as [->|Hne].
  - rewrite Z.eqb_refl. reflexivity.
  - destruct (Z.eqb_spec (f x) (f y)) as [E|E].
    + exfalso. apply Hne. apply Inj; [|left; reflexivity|exact E].
      destruct Hx as [Hx|Hx]; [left; exact Hx|right; exact Hx].
    + rewrite IH; [reflexivity| |].
      * destruct Hx as [Hx|Hx]; [congruence|exact Hx].
      * intros a b Ha Hb. apply Inj; right; assumption.
Qed.

Lemma pos_Some_In x l i : pos x l = Some i -> In x l.
Proof.
  intros H. destruct (In_dec Z.eq_dec x l) as [Hi|Hn]; [exact Hi|].
  apply pos_None in Hn. congruence.
Qed.

Lemma In_pos x l : In x l -> exists i, pos x l = Some i.
Proof. apply pos_In. Qed.

(* ---------------- constructor normalisation of metadata (Model/Orient.v ctor_md) ---------------- *)
Lemma md_falsy_cast m : md_falsy (cast_entry m) = md_falsy m.
Proof.
  unfold cast_entry. destruct (tree_eqb m md_none) eqn:E; [|reflexivity].
  apply tree_eqb_eq in E. subst. reflexivity.
Qed.

Lemma forallb_falsy_cast l : forallb md_falsy (map cast_entry l) = forallb md_falsy l.
Proof. induction l as [|x l IH]; simpl; [reflexivity|]. rewrite md_falsy_cast, IH. reflexivity. Qed.

Lemma map_cast_idem l : map cast_entry (map cast_entry l) = map cast_entry l.
Proof. rewrite map_map. apply map_ext. intros x. apply cast_entry_idem. Qed.

Lemma ctor_md_cast l : ctor_md (Some (map cast_entry l)) = ctor_md (Some l).
Proof. unfold ctor_md. rewrite forallb_falsy_cast. destruct (forallb md_falsy l); [reflexivity|]. rewrite map_cast_idem. reflexivity. Qed.

Lemma ctor_md_idem md : ctor_md (ctor_md md) = ctor_md md.
Proof.
  destruct md as [l|]; [|reflexivity]. simpl.
  destruct (forallb md_falsy l) eqn:F; [reflexivity|]. rewrite ctor_md_cast. simpl. rewrite F. reflexivity.
Qed.

(* selecting entries commutes with the normalisation (positions in range) *)
Lemma take_md_ctor fancy md n :
  md_ok md n -> Forall (fun i => i < n) fancy ->
  ctor_md (take_md fancy (ctor_md md)) = ctor_md (take_md fancy md).
Proof.
  intros Hok Hb. destruct md as [l|]; [|reflexivity]. simpl in Hok. subst n.
  destruct (forallb md_falsy l) eqn:F.
  - replace (ctor_md (Some l)) with (@None (list Tree)) by (simpl; rewrite F; reflexivity).
    assert (G : forallb md_falsy (map (fun i => nth i l (I 0%Z)) fancy) = true).
    { apply forallb_forall. intros m Hm. apply in_map_iff in Hm. destruct Hm as [i [<- Hi]].
      rewrite forallb_forall in F. apply F. apply nth_In. rewrite Forall_forall in Hb. apply Hb. exact Hi. }
    simpl. rewrite G. reflexivity.
  - replace (ctor_md (Some l)) with (Some (map cast_entry l)) by (simpl; rewrite F; reflexivity).
    unfold take_md, option_map.
    replace (map (fun i => nth i (map cast_entry l) (I 0%Z)) fancy)
      with (map cast_entry (map (fun i => nth i l (I 0%Z)) fancy)); [apply ctor_md_cast|].
    rewrite map_map. apply map_ext_in. intros i Hi. symmetry.
    apply (nth_map_lt cast_entry l i (I 0%Z) (I 0%Z)). rewrite Forall_forall in Hb. apply Hb. exact Hi.
Qed.

Lemma ctor_md_None_iff md : ctor_md md = None <-> forall i, entry_view md i = md_empty.
Proof.
  destruct md as [l|]; [|split; reflexivity]. unfold ctor_md. destruct (forallb md_falsy l) eqn:F.
  - split; [|reflexivity]. intros _ i. simpl. destruct (nth_error l i) as [m|] eqn:E; [|reflexivity].
    apply cast_entry_falsy. rewrite forallb_forall in F. apply F. eapply nth_error_In. exact E.
  - split; [discriminate|]. intros H. exfalso.
    assert (exists m, In m l /\ md_falsy m = false) as (m & Hm & Hf).
    { clear H. induction l as [|x l IH]; simpl in F; [discriminate|]. destruct (md_falsy x) eqn:Ex.
      - destruct (IH F) as (m & Hm & Hf). exists m. split; [right; exact Hm|exact Hf].
      - exists x. split; [left; reflexivity|exact Ex]. }
    destruct (In_nth_error _ _ Hm) as [i Hi]. specialize (H i). simpl in H. rewrite Hi in H.
    unfold md_falsy in Hf. apply orb_false_iff in Hf. destruct Hf as [F1 F2].
    unfold cast_entry in H. rewrite F1 in H. subst m. rewrite tree_eqb_refl in F2. discriminate.
Qed.

Lemma entry_view_take fancy md n k :
  md_ok md n -> k < length fancy -> nth k fancy 0 < n ->
  entry_view (take_md fancy md) k = entry_view md (nth k fancy 0).
Proof.
  intros Hok Hk Hb. destruct md as [l|]; [|reflexivity]. simpl in Hok. subst n. simpl.
  rewrite (nth_error_nth' _ (I 0%Z)) by (rewrite map_length; exact Hk).
  rewrite (nth_error_nth' l (I 0%Z)) by exact Hb.
  rewrite (nth_map_lt (fun i => nth i l (I 0%Z)) fancy k 0 (I 0%Z)) by exact Hk. reflexivity.
Qed.

(* a table whose metadata of an axis is the normalised metadata of another, same ids: same view *)
Lemma md_view_ctor b t t' x : ids b t' = ids b t -> mds b t' = ctor_md (mds b t) -> md_view b t' x = md_view b t x.
Proof. intros E1 E2. rewrite !md_view_entry, E1, E2. destruct (pos x (ids b t)); [apply entry_view_ctor|reflexivity]. Qed.

Lemma md_view_same b t t' x : ids b t' = ids b t -> mds b t' = mds b t -> md_view b t' x = md_view b t x.
Proof. intros E1 E2. rewrite !md_view_entry, E1, E2. reflexivity. Qed.

(* ---------------- lookup_all ---------------- *)
Lemma lookup_all_spec order l fancy :
  lookup_all order l = Some fancy ->
  length fancy = length order /\
  forall k, k < length order -> pos (nth k order 0%Z) l = Some (nth k fancy 0).
Proof.
  revert fancy. induction order as [|x rest IH]; intros fancy H; simpl in H.
  - inversion H; subst. split; [reflexivity|]. intros k Hk. simpl in Hk. lia.
  - destruct (pos x l) as [i|] eqn:Ei; [|discriminate].
    destruct (lookup_all rest l) as [f'|] eqn:Er; [|discriminate].
    inversion H; subst. destruct (IH f' eq_refl) as [Hl Hn]. split; [simpl; lia|].
    intros [|k] Hk; simpl in *; [exact Ei|]. apply Hn. lia.
Qed.

Lemma lookup_all_total order l :
  (forall x, In x order -> In x l) -> exists fancy, lookup_all order l = Some fancy.
Proof.
  induction order as [|x rest IH]; intros H; simpl.
  - exists []. reflexivity.
  - destruct (In_pos x l (H x (or_introl eq_refl))) as [i Hi]. rewrite Hi.
    destruct IH as [f Hf]; [intros y Hy; apply H; right; exact Hy|]. rewrite Hf. eexists. reflexivity.
Qed.

Lemma lookup_all_unknown order l :
  (exists x, In x order /\ ~ In x l) -> lookup_all order l = None.
Proof.
  intros [x [Hx Hn]]. induction order as [|y rest IH]; simpl in *; [contradiction|].
  destruct Hx as [->|Hx].
  - apply pos_None in Hn. rewrite Hn. reflexivity.
  - rewrite (IH Hx). destruct (pos y l); reflexivity.
Qed.

Lemma lookup_all_bound order l fancy :
  lookup_all order l = Some fancy -> Forall (fun i => i < length l) fancy.
Proof.
  revert fancy. induction order as [|x rest IH]; intros fancy H; simpl in H.
  - inversion H. constructor.
  - destruct (pos x l) as [i|] eqn:Ei; [|discriminate].
    destruct (lookup_all rest l) as [f'|] eqn:Er; [|discriminate].
    inversion H; subst. constructor; [apply pos_Some in Ei; tauto|apply IH; reflexivity].
Qed.

Lemma nth_fancy_lt order l fancy k :
  lookup_all order l = Some fancy -> k < length order -> nth k fancy 0 < length l.
Proof.
  intros H Hk. destruct (lookup_all_spec _ _ _ H) as [_ Hn]. specialize (Hn k Hk).
  apply pos_Some in Hn. tauto.
Qed.

(* the positions of a permutation and of its inverse undo each other *)
Lemma inverse_positions l order fancy fancy' :
  NoDup l -> lookup_all order l = Some fancy -> lookup_all l order = Some fancy' ->
  forall i, i < length l -> nth i fancy' 0 < length fancy /\ nth (nth i fancy' 0) fancy 0 = i.
Proof.
  intros N H H' i Hi.
  destruct (lookup_all_spec _ _ _ H) as [Hl Hn]. destruct (lookup_all_spec _ _ _ H') as [Hl' Hn'].
  specialize (Hn' i Hi). apply pos_Some in Hn'. destruct Hn' as [E Hk]. split; [lia|].
  specialize (Hn _ Hk). rewrite E in Hn. rewrite (pos_nth_NoDup l i N Hi) in Hn. congruence.
Qed.

(* ---------------- wf of a reordered table ---------------- *)
Lemma md_ok_take fancy md : md_ok (take_md fancy md) (length fancy).
Proof. destruct md; simpl; [apply map_length|exact Logic.I]. Qed.

Lemma wf_reorder fancy order a t :
  wf t -> lookup_all order (ids a t) = Some fancy -> NoDup order -> wf (reorder fancy order a t).
Proof.
  intros (H1 & H2 & H3 & H4 & H5 & H6) H N.
  destruct (lookup_all_spec _ _ _ H) as [Hl _]. pose proof (lookup_all_bound _ _ _ H) as Hb.
  destruct a; unfold wf, reorder, nobs, nsamp in *; simpl in *.
  - repeat split; try assumption.
    + rewrite perm_rows_length. exact Hl.
    + apply perm_rows_rect; [exact H2|]. rewrite H1. exact Hb.
    + apply md_ok_ctor. rewrite <- Hl. apply md_ok_take.
    + apply md_ok_ctor. exact H6.
  - repeat split; try assumption.
    + rewrite perm_cols_length. exact H1.
    + rewrite <- Hl. apply perm_cols_rect.
    + apply md_ok_ctor. exact H5.
    + apply md_ok_ctor. rewrite <- Hl. apply md_ok_take.
Qed.

Lemma errcheck_ok t : NoDup (oids t) -> NoDup (sids t) -> errcheck t = ROk t.
Proof.
  intros A B. unfold errcheck. apply zdup_false_NoDup in A. apply zdup_false_NoDup in B.
  rewrite A, B. reflexivity.
Qed.

Lemma errcheck_inv t t' : errcheck t = ROk t' -> t' = t.
Proof. unfold errcheck. destruct (_ || _); intros H; [discriminate|]. inversion H. reflexivity. Qed.

Lemma errcheck_NoDup t t' : errcheck t = ROk t' -> t' = t /\ NoDup (oids t) /\ NoDup (sids t).
Proof.
  unfold errcheck. destruct (zdup (oids t)) eqn:A; [discriminate|]. destruct (zdup (sids t)) eqn:B; [discriminate|].
  simpl. intros H. inversion H; subst. split; [reflexivity|]. split; apply zdup_false_NoDup; assumption.
Qed.

Lemma wf_md_ok a t : wf t -> md_ok (mds a t) (length (ids a t)).
Proof. intros (_ & _ & _ & _ & H5 & H6). destruct a; assumption. Qed.

Lemma wf_NoDup a t : wf t -> NoDup (ids a t).
Proof. intros (_ & _ & H3 & H4 & _). destruct a; assumption. Qed.

(* ---------------- copy: the content through the constructor ---------------- *)
Lemma wf_copy t : wf t -> wf (copy t).
Proof.
  intros (H1 & H2 & H3 & H4 & H5 & H6). unfold wf, copy, nobs, nsamp in *; simpl.
  repeat split; try assumption; apply md_ok_ctor; assumption.
Qed.

Theorem copy_id t : normal t -> copy t = t.
Proof. intros [A B]. unfold md_normal in *. destruct t; unfold copy; simpl in *. rewrite A, B. reflexivity. Qed.

Lemma copy_normal t : normal (copy t).
Proof. split; unfold md_normal; simpl; apply ctor_md_idem. Qed.

Lemma copy_copy t : copy (copy t) = copy t.
Proof. apply copy_id. apply copy_normal. Qed.

Theorem copy_content_same t :
  oids (copy t) = oids t /\ sids (copy t) = sids t /\ mat (copy t) = mat t /\ ttype (copy t) = ttype t /\
  (forall o s, cell (copy t) o s = cell t o s) /\ (forall b x, md_view b (copy t) x = md_view b t x) /\
  omd (copy t) = ctor_md (omd t) /\ smd (copy t) = ctor_md (smd t).
Proof.
  repeat split; try reflexivity. intros b x. apply md_view_ctor; destruct b; reflexivity.
Qed.

(* ---------------- values and metadata travel with the ids ---------------- *)
(* every id that is named in [order] keeps its values (also when [order] only selects) *)
Lemma reorder_cell_in fancy order a t x y :
  lookup_all order (ids a t) = Some fancy -> In x order ->
  cell_ax a (reorder fancy order a t) x y = cell_ax a t x y.
Proof.
  intros H Hx. destruct (lookup_all_spec _ _ _ H) as [Hl Hn].
  destruct (In_pos x order Hx) as [k Hk]. pose proof (pos_Some _ _ _ Hk) as [Ek Hklt].
  specialize (Hn k Hklt). rewrite Ek in Hn.
  destruct a; unfold cell_ax, cell, reorder; simpl in *; rewrite Hk, Hn.
  - destruct (pos y (sids t)) as [j|]; [|reflexivity]. f_equal. apply get_perm_rows. lia.
  - destruct (pos y (oids t)) as [i|]; [|reflexivity]. f_equal. apply get_perm_cols. lia.
Qed.

Lemma reorder_cell_out fancy order a t x y :
  ~ In x order -> ~ In x (ids a t) ->
  cell_ax a (reorder fancy order a t) x y = cell_ax a t x y.
Proof.
  intros H1 H2. apply pos_None in H1. apply pos_None in H2.
  destruct a; unfold cell_ax, cell, reorder; simpl in *; rewrite H1, H2.
  - reflexivity.
  - destruct (pos y (oids t)); reflexivity.
Qed.

Lemma reorder_parts fancy order a t :
  ids a (reorder fancy order a t) = order /\
  ids (other a) (reorder fancy order a t) = ids (other a) t /\
  mds a (reorder fancy order a t) = ctor_md (take_md fancy (mds a t)) /\
  mds (other a) (reorder fancy order a t) = ctor_md (mds (other a) t) /\
  ttype (reorder fancy order a t) = ttype t.
Proof. destruct a; simpl; repeat split; reflexivity. Qed.

(* metadata as a user sees it (None and the empty dict identified: Model/Orient.v md_view) *)
Lemma reorder_md_in fancy order a t x :
  md_ok (mds a t) (length (ids a t)) ->
  lookup_all order (ids a t) = Some fancy -> In x order ->
  md_view a (reorder fancy order a t) x = md_view a t x.
Proof.
  intros Hmd H Hx. destruct (lookup_all_spec _ _ _ H) as [Hl Hn].
  destruct (In_pos x order Hx) as [k Hk]. pose proof (pos_Some _ _ _ Hk) as [Ek Hklt].
  specialize (Hn k Hklt). rewrite Ek in Hn. pose proof (pos_Some _ _ _ Hn) as [_ Hb].
  destruct (reorder_parts fancy order a t) as (E1 & _ & E3 & _).
  rewrite !md_view_entry, E1, E3, Hk, Hn, entry_view_ctor.
  apply (entry_view_take fancy (mds a t) (length (ids a t))); [exact Hmd|lia|exact Hb].
Qed.

Lemma reorder_md_out fancy order a t x :
  ~ In x order -> ~ In x (ids a t) -> md_view a (reorder fancy order a t) x = md_view a t x.
Proof.
  intros H1 H2. apply pos_None in H1. apply pos_None in H2.
  destruct (reorder_parts fancy order a t) as (E1 & _). rewrite !md_view_entry, E1, H1, H2. reflexivity.
Qed.

Lemma reorder_md_other fancy order a t x :
  md_view (other a) (reorder fancy order a t) x = md_view (other a) t x.
Proof. destruct (reorder_parts fancy order a t) as (_ & E2 & _ & E4 & _). apply md_view_ctor; assumption. Qed.

Lemma reorder_normal fancy order a t : normal (reorder fancy order a t).
Proof. destruct a; split; unfold md_normal; simpl; apply ctor_md_idem. Qed.

Lemma cell_ax_cell a t' t :
  (forall x y, cell_ax a t' x y = cell_ax a t x y) -> forall o s, cell t' o s = cell t o s.
Proof. intros H o s. destruct a; [exact (H o s)|exact (H s o)]. Qed.

(* ---------------- sort_order on a permutation ---------------- *)
Theorem sort_order_perm order a t :
  wf t -> Permutation order (ids a t) ->
  exists t', sort_order order a t = ROk t' /\
    ids a t' = order /\
    (forall o s, cell t' o s = cell t o s) /\
    (forall b x, md_view b t' x = md_view b t x) /\
    ids (other a) t' = ids (other a) t /\ mds (other a) t' = ctor_md (mds (other a) t) /\
    ttype t' = ttype t /\ normal t' /\ wf t'.
Proof.
  intros W P.
  assert (Nord : NoDup order) by (eapply Permutation_NoDup; [apply Permutation_sym; exact P|apply wf_NoDup; exact W]).
  destruct (lookup_all_total order (ids a t)) as [fancy Hf].
  { intros x Hx. eapply Permutation_in; eassumption. }
  exists (reorder fancy order a t).
  pose proof (wf_reorder fancy order a t W Hf Nord) as W'.
  destruct (reorder_parts fancy order a t) as (E1 & E2 & E3 & E4 & E5).
  split.
  { unfold sort_order. rewrite Hf. apply errcheck_ok.
    - apply (wf_NoDup Obs _ W').
    - apply (wf_NoDup Samp _ W'). }
  split; [exact E1|]. split.
  { apply (cell_ax_cell a). intros x y.
    destruct (In_dec Z.eq_dec x order) as [Hi|Hn].
    - apply reorder_cell_in; assumption.
    - apply reorder_cell_out; [exact Hn|]. intros Hin. apply Hn.
      eapply Permutation_in; [apply Permutation_sym; exact P|exact Hin]. }
  split.
  { intros b x. assert (Hb : b = a \/ b = other a) by (destruct a, b; tauto). destruct Hb as [->| ->].
    - destruct (In_dec Z.eq_dec x order) as [Hi|Hn].
      + apply reorder_md_in; [apply wf_md_ok; exact W|exact Hf|exact Hi].
      + apply reorder_md_out; [exact Hn|]. intros Hin. apply Hn.
        eapply Permutation_in; [apply Permutation_sym; exact P|exact Hin].
    - apply reorder_md_other. }
  split; [exact E2|]. split; [exact E4|]. split; [exact E5|]. split; [apply reorder_normal|exact W'].
Qed.

(* an order that only selects (distinct known ids): the named ids keep values and metadata; the
   axis ends up WITHOUT metadata exactly when every kept id's metadata is empty / None *)
Theorem sort_order_select order a t :
  wf t -> NoDup order -> (forall x, In x order -> In x (ids a t)) ->
  exists t', sort_order order a t = ROk t' /\ ids a t' = order /\
    (forall x y, In x order -> cell_ax a t' x y = cell_ax a t x y) /\
    (forall x, In x order -> md_view a t' x = md_view a t x) /\
    (forall x, md_view (other a) t' x = md_view (other a) t x) /\
    (mds a t' = None <-> forall x, In x order -> md_view a t x = md_empty) /\
    normal t' /\ wf t'.
Proof.
  intros W N Hin. destruct (lookup_all_total order (ids a t) Hin) as [fancy Hf].
  exists (reorder fancy order a t). pose proof (wf_reorder fancy order a t W Hf N) as W'.
  destruct (reorder_parts fancy order a t) as (E1 & E2 & E3 & E4 & E5).
  assert (Hmd : forall x, In x order -> md_view a (reorder fancy order a t) x = md_view a t x).
  { intros x Hx. apply reorder_md_in; [apply wf_md_ok; exact W|exact Hf|exact Hx]. }
  split.
  { unfold sort_order. rewrite Hf. apply errcheck_ok; [apply (wf_NoDup Obs _ W')|apply (wf_NoDup Samp _ W')]. }
  split; [exact E1|]. split.
  { intros x y Hx. apply reorder_cell_in; assumption. }
  split; [exact Hmd|]. split; [intros x; apply reorder_md_other|]. split.
  { split.
    - intros Hnone x Hx. rewrite <- (Hmd x Hx). rewrite md_view_entry, Hnone. destruct (pos x _); reflexivity.
    - intros Hall. rewrite E3. apply ctor_md_None_iff. intros k.
      destruct (Nat.lt_ge_cases k (length order)) as [Hk|Hk].
      + assert (Hx : In (nth k order 0%Z) order) by (apply nth_In; exact Hk).
        specialize (Hall _ Hx). rewrite <- (Hmd _ Hx) in Hall.
        rewrite md_view_entry, E1, E3, (pos_nth_NoDup order k N Hk), entry_view_ctor in Hall. exact Hall.
      + destruct (lookup_all_spec _ _ _ Hf) as [Hl _].
        destruct (mds a t) as [l|]; [|reflexivity]. simpl.
        replace (nth_error (map (fun i => nth i l (I 0%Z)) fancy) k) with (@None Tree); [reflexivity|].
        symmetry. apply nth_error_None. rewrite map_length. lia. }
  split; [apply reorder_normal|exact W'].
Qed.

Theorem sort_order_unknown order a t :
  (exists x, In x order /\ ~ In x (ids a t)) -> sort_order order a t = RErr E_UNKNOWN.
Proof. intros H. unfold sort_order. rewrite (lookup_all_unknown _ _ H). reflexivity. Qed.

Theorem sort_order_repeated order a t :
  (forall x, In x order -> In x (ids a t)) -> ~ NoDup order -> sort_order order a t = RErr E_TABLE.
Proof.
  intros Hin Hd. destruct (lookup_all_total order (ids a t) Hin) as [fancy Hf].
  unfold sort_order. rewrite Hf. unfold errcheck. apply zdup_true_not_NoDup in Hd.
  destruct a; simpl; rewrite Hd; [reflexivity|rewrite orb_true_r; reflexivity].
Qed.

(* ---------------- a permutation and then the original order ---------------- *)
Lemma take_md_inverse fancy fancy' md n :
  md_ok md n -> length fancy' = n ->
  (forall i, i < n -> nth i fancy' 0 < length fancy /\ nth (nth i fancy' 0) fancy 0 = i) ->
  take_md fancy' (take_md fancy md) = md.
Proof.
  intros Hok Hl Hinv. destruct md as [l|]; simpl in *; [|reflexivity]. f_equal.
  apply (nth_ext _ _ (I 0%Z) (I 0%Z)).
  - rewrite map_length. lia.
  - intros k Hk. rewrite map_length in Hk.
    rewrite (nth_map_lt _ fancy' k 0 (I 0%Z)) by exact Hk.
    destruct (Hinv k) as [A B]; [lia|].
    rewrite (nth_map_lt _ fancy (nth k fancy' 0) 0 (I 0%Z)) by exact A. rewrite B. reflexivity.
Qed.

(* the result is the original table as the constructor normalises it: [copy t], which is [t]
   itself when its metadata is constructor-normal *)
Theorem sort_order_back order a t t' :
  wf t -> Permutation order (ids a t) -> sort_order order a t = ROk t' ->
  sort_order (ids a t) a t' = ROk (copy t).
Proof.
  intros W P H.
  assert (Nord : NoDup order) by (eapply Permutation_NoDup; [apply Permutation_sym; exact P|apply wf_NoDup; exact W]).
  unfold sort_order in H. destruct (lookup_all order (ids a t)) as [fancy|] eqn:Hf; [|discriminate].
  apply errcheck_inv in H. subst t'.
  pose proof (wf_reorder fancy order a t W Hf Nord) as W'.
  destruct (lookup_all_total (ids a t) order) as [fancy' Hf'].
  { intros x Hx. eapply Permutation_in; [apply Permutation_sym; exact P|exact Hx]. }
  destruct (lookup_all_spec _ _ _ Hf) as [Hl _]. destruct (lookup_all_spec _ _ _ Hf') as [Hl' _].
  pose proof (inverse_positions _ _ _ _ (wf_NoDup a t W) Hf Hf') as Inv.
  pose proof (lookup_all_bound _ _ _ Hf) as Hb. pose proof (lookup_all_bound _ _ _ Hf') as Hb'.
  unfold sort_order. replace (ids a (reorder fancy order a t)) with order by (destruct a; reflexivity).
  rewrite Hf'.
  assert (Hmd : forall md, md_ok md (length (ids a t)) ->
            ctor_md (take_md fancy' (ctor_md (take_md fancy md))) = ctor_md md).
  { intros md Hok. rewrite (take_md_ctor fancy' (take_md fancy md) (length fancy)).
    - rewrite (take_md_inverse fancy fancy' md (length (ids a t))); [reflexivity|exact Hok|exact Hl'|exact Inv].
    - apply md_ok_take.
    - rewrite Hl. exact Hb'. }
  assert (E : reorder fancy' (ids a t) a (reorder fancy order a t) = copy t).
  { pose proof (wf_md_ok a t W) as Hok.
    destruct W as (H1 & H2 & H3 & H4 & H5 & H6). destruct t as [oi si m om sm ty].
    unfold nobs, nsamp in *; simpl in *.
    destruct a; unfold reorder, copy; simpl in *; f_equal.
    - (* rows *)
      apply (mat_ext (length si)).
      + rewrite perm_rows_length. lia.
      + apply perm_rows_rect.
        * apply perm_rows_rect; [exact H2|]. rewrite H1. exact Hb.
        * rewrite perm_rows_length. rewrite Hl. exact Hb'.
      + exact H2.
      + intros i j Hi Hj. rewrite perm_rows_length in Hi.
        rewrite get_perm_rows by exact Hi.
        destruct (Inv i) as [A B]; [lia|].
        rewrite get_perm_rows by exact A. rewrite B. reflexivity.
    - apply Hmd. exact Hok.
    - apply ctor_md_idem.
    - (* columns *)
      apply (mat_ext (length si)).
      + rewrite !perm_cols_length. reflexivity.
      + rewrite <- Hl'. apply perm_cols_rect.
      + exact H2.
      + intros i j Hi Hj. rewrite !perm_cols_length in Hi.
        rewrite get_perm_cols by lia.
        destruct (Inv j) as [A B]; [lia|].
        rewrite get_perm_cols by exact A. rewrite B. reflexivity.
    - apply ctor_md_idem.
    - apply Hmd. exact Hok. }
  rewrite E. apply errcheck_ok; [apply (wf_NoDup Obs _ W)|apply (wf_NoDup Samp _ W)].
Qed.

(* ---------------- sort ---------------- *)
Section SortProofs.
  Variable sortf : list Z -> list Z.
  Hypothesis sortf_perm : forall l, Permutation (sortf l) l.

  Theorem sort_perm a t :
    wf t ->
    exists t', sort sortf a t = ROk t' /\
      ids a t' = sortf (ids a t) /\
      (forall o s, cell t' o s = cell t o s) /\
      (forall b x, md_view b t' x = md_view b t x) /\
      ids (other a) t' = ids (other a) t /\ mds (other a) t' = ctor_md (mds (other a) t) /\
      ttype t' = ttype t /\ normal t' /\ wf t'.
  Proof. intros W. unfold sort. apply sort_order_perm; [exact W|apply sortf_perm]. Qed.
End SortProofs.

(* ---------------- transpose through the constructor ---------------- *)
Theorem transpose_c_spec t : wf t ->
  oids (transpose_c t) = sids t /\ sids (transpose_c t) = oids t /\
  (forall o s, cell (transpose_c t) s o = cell t o s) /\
  (forall b x, md_view b (transpose_c t) x = md_view (other b) t x) /\
  omd (transpose_c t) = ctor_md (smd t) /\ smd (transpose_c t) = ctor_md (omd t) /\
  normal (transpose_c t) /\ wf (transpose_c t).
Proof.
  intros W. split; [reflexivity|]. split; [reflexivity|]. split.
  { intros o s. rewrite <- (transpose_cell t o s W). reflexivity. }
  split.
  { intros b x. rewrite !md_view_entry. destruct b; simpl; destruct (pos x _); try reflexivity; apply entry_view_ctor. }
  split; [reflexivity|]. split; [reflexivity|]. split.
  { split; unfold md_normal; simpl; apply ctor_md_idem. }
  pose proof (wf_transpose t W) as (H1 & H2 & H3 & H4 & H5 & H6).
  unfold wf, transpose_c, transpose_t, nobs, nsamp in *; simpl in *.
  repeat split; try assumption; apply md_ok_ctor; assumption.
Qed.

Theorem transpose_c_twice t : wf t -> transpose_c (transpose_c t) = mkT (oids t) (sids t) (mat t) (ctor_md (omd t)) (ctor_md (smd t)) NOTYPE.
Proof.
  intros (H1 & H2 & _). unfold transpose_c, nsamp, nobs in *; simpl.
  rewrite !ctor_md_idem. f_equal. rewrite <- H1. apply transpose_involutive. exact H2.
Qed.

Theorem transpose_swaps a t :
  ids a (transpose_t t) = ids (other a) t /\ mds a (transpose_t t) = mds (other a) t /\
  (forall x, md_of a (transpose_t t) x = md_of (other a) t x).
Proof. destruct a; simpl; repeat split; reflexivity. Qed.

(* ---------------- update_ids ---------------- *)
Lemma wf_set_ids a new t : wf t -> NoDup new -> length new = length (ids a t) -> wf (set_ids a new t).
Proof.
  intros (H1 & H2 & H3 & H4 & H5 & H6) N L.
  destruct a; unfold wf, set_ids, nobs, nsamp in *; simpl in *; rewrite ?L; repeat split; assumption.
Qed.

Lemma set_ids_copy a new t : set_ids a new (copy t) = copy (set_ids a new t).
Proof. destruct a; reflexivity. Qed.

Lemma new_ids_ok m strict l :
  (strict = true -> forall x, In x l -> mapped m x = true) -> new_ids m strict l = Some (map (rename m) l).
Proof.
  intros H. unfold new_ids. destruct strict; simpl; [|reflexivity].
  replace (forallb (mapped m) l) with true; [reflexivity|].
  symmetry. apply forallb_forall. apply H. reflexivity.
Qed.

Lemma new_ids_strict_unmapped m l :
  (exists x, In x l /\ mapped m x = false) -> new_ids m true l = None.
Proof.
  intros [x [Hx Hm]]. unfold new_ids. simpl.
  destruct (forallb (mapped m) l) eqn:E; [|reflexivity].
  rewrite forallb_forall in E. rewrite (E x Hx) in Hm. discriminate.
Qed.

Definition rmap {A B} (f : A -> B) (r : result A) : result B :=
  match r with ROk a => ROk (f a) | RErr c => RErr c end.

Lemma errcheck_copy t : errcheck (copy t) = rmap copy (errcheck t).
Proof. unfold errcheck. simpl. destruct (_ || _); reflexivity. Qed.

(* the copying variant returns the copy (= constructor-normalised content) of what the in-place
   variant leaves in the receiver; same refusals *)
Theorem update_ids_new_is_copy m a strict t :
  update_ids m a strict false t = rmap copy (update_ids m a strict true t).
Proof.
  unfold update_ids. destruct (new_ids m strict (ids a t)) as [new|]; [|reflexivity].
  rewrite set_ids_copy, errcheck_copy. destruct (zdup new) eqn:E; [|reflexivity].
  unfold errcheck. destruct a; simpl; rewrite E; [reflexivity|rewrite orb_true_r; reflexivity].
Qed.

Lemma errcheck_normal_copy t : normal t -> rmap copy (errcheck t) = errcheck t.
Proof. intros N. unfold errcheck. destruct (_ || _); simpl; [reflexivity|]. rewrite (copy_id t N). reflexivity. Qed.

Theorem update_ids_inplace_same m a strict t :
  normal t -> update_ids m a strict true t = update_ids m a strict false t.
Proof.
  intros N. rewrite update_ids_new_is_copy. unfold update_ids.
  destruct (new_ids m strict (ids a t)) as [new|]; [|reflexivity].
  destruct (zdup new); [reflexivity|]. symmetry. apply errcheck_normal_copy.
  destruct N as [A B]. destruct a; split; simpl; assumption.
Qed.

Theorem update_ids_injective m a strict inplace t :
  wf t ->
  (strict = true -> forall x, In x (ids a t) -> mapped m x = true) ->
  (forall x y, In x (ids a t) -> In y (ids a t) -> rename m x = rename m y -> x = y) ->
  exists t', update_ids m a strict inplace t = ROk t' /\
    ids a t' = map (rename m) (ids a t) /\
    (forall x y, In x (ids a t) -> cell_ax a t' (rename m x) y = cell_ax a t x y) /\
    (forall x, In x (ids a t) -> md_view a t' (rename m x) = md_view a t x) /\
    (forall x, md_view (other a) t' x = md_view (other a) t x) /\
    ids (other a) t' = ids (other a) t /\
    (forall b, mds b t' = if inplace then mds b t else ctor_md (mds b t)) /\
    mat t' = mat t /\ ttype t' = ttype t /\ wf t'.
Proof.
  intros W Hs Inj.
  assert (N : NoDup (map (rename m) (ids a t))) by (apply NoDup_map_inj_on; [apply wf_NoDup; exact W|exact Inj]).
  set (t1 := set_ids a (map (rename m) (ids a t)) t).
  assert (W1 : wf t1) by (apply wf_set_ids; [exact W|exact N|apply map_length]).
  assert (E1 : update_ids m a strict true t = ROk t1).
  { unfold update_ids. rewrite (new_ids_ok m strict _ Hs).
    replace (zdup (map (rename m) (ids a t))) with false by (symmetry; apply zdup_false_NoDup; exact N).
    apply errcheck_ok; [apply (wf_NoDup Obs _ W1)|apply (wf_NoDup Samp _ W1)]. }
  assert (Hcell : forall x y, In x (ids a t) -> cell_ax a t1 (rename m x) y = cell_ax a t x y).
  { intros x y Hx. unfold t1. destruct a; unfold cell_ax, cell, set_ids; simpl in *;
      rewrite (pos_map_inj_on (rename m) _ x Hx Inj); reflexivity. }
  assert (Hmd : forall x, In x (ids a t) -> md_view a t1 (rename m x) = md_view a t x).
  { intros x Hx. unfold t1. rewrite !md_view_entry. destruct a; simpl in *;
      rewrite (pos_map_inj_on (rename m) _ x Hx Inj); reflexivity. }
  assert (Hoth : forall x, md_view (other a) t1 x = md_view (other a) t x).
  { intros x. apply md_view_same; unfold t1; destruct a; reflexivity. }
  destruct inplace.
  - exists t1. split; [exact E1|]. split; [unfold t1; destruct a; reflexivity|].
    split; [exact Hcell|]. split; [exact Hmd|]. split; [exact Hoth|].
    split; [unfold t1; destruct a; reflexivity|]. split; [intros b; unfold t1; destruct a, b; reflexivity|].
    split; [unfold t1; destruct a; reflexivity|]. split; [unfold t1; destruct a; reflexivity|exact W1].
  - exists (copy t1). split; [rewrite update_ids_new_is_copy, E1; reflexivity|].
    destruct (copy_content_same t1) as (C1 & C2 & C3 & C4 & C5 & C6 & C7 & C8).
    split; [unfold t1; destruct a; reflexivity|].
    split; [intros x y Hx; rewrite <- (Hcell x y Hx); destruct a; unfold cell_ax; apply C5|].
    split; [intros x Hx; rewrite C6; apply Hmd; exact Hx|].
    split; [intros x; rewrite C6; apply Hoth|].
    split; [unfold t1; destruct a; reflexivity|]. split; [intros b; unfold t1; destruct a, b; reflexivity|].
    split; [unfold t1; destruct a; reflexivity|]. split; [unfold t1; destruct a; reflexivity|apply wf_copy; exact W1].
Qed.

Theorem update_ids_collision m a strict inplace t :
  (exists x y, In x (ids a t) /\ In y (ids a t) /\ x <> y /\ rename m x = rename m y) ->
  update_ids m a strict inplace t = RErr E_TABLE.
Proof.
  intros (x & y & Hx & Hy & Hne & E).
  assert (D : zdup (map (rename m) (ids a t)) = true).
  { apply zdup_true_not_NoDup. intros N. apply Hne. eapply NoDup_map_inv_on; eassumption. }
  assert (G : update_ids m a strict true t = RErr E_TABLE).
  { unfold update_ids, new_ids. destruct (strict && negb (forallb (mapped m) (ids a t))); [reflexivity|].
    rewrite D. reflexivity. }
  destruct inplace; [exact G|]. rewrite update_ids_new_is_copy, G. reflexivity.
Qed.

Theorem update_ids_strict_missing m a inplace t :
  (exists x, In x (ids a t) /\ mapped m x = false) -> update_ids m a true inplace t = RErr E_TABLE.
Proof. intros H. unfold update_ids. rewrite (new_ids_strict_unmapped _ _ H). reflexivity. Qed.

Lemma rename_unmapped m x : mapped m x = false -> rename m x = x.
Proof. unfold mapped, rename. destruct (lookup_map m x); [discriminate|reflexivity]. Qed.

Lemma map_rename_nil l : map (rename []) l = l.
Proof. induction l as [|x l IH]; simpl; [reflexivity|]. rewrite IH. reflexivity. Qed.

(* the renaming that renames nothing: the receiver as it is / its copy *)
Theorem update_ids_nothing a inplace t : wf t -> update_ids [] a false inplace t = ROk (if inplace then t else copy t).
Proof.
  intros W.
  assert (G : update_ids [] a false true t = ROk t).
  { unfold update_ids, new_ids. simpl. rewrite map_rename_nil.
    replace (zdup (ids a t)) with false by (symmetry; apply zdup_false_NoDup; apply wf_NoDup; exact W).
    replace (set_ids a (ids a t) t) with t by (destruct t, a; reflexivity).
    apply errcheck_ok; [apply (wf_NoDup Obs _ W)|apply (wf_NoDup Samp _ W)]. }
  destruct inplace; [exact G|]. rewrite update_ids_new_is_copy, G. reflexivity.
Qed.

(* ---------------- align_to ---------------- *)
Lemma same_set_perm l1 l2 : NoDup l1 -> NoDup l2 -> same_set l1 l2 = true -> Permutation l2 l1.
Proof.
  intros N1 N2 H. unfold same_set in H. apply andb_true_iff in H. destruct H as [A B].
  rewrite forallb_forall in A, B. apply NoDup_Permutation; try assumption.
  intros x. split; intros Hx; apply zmem_In; [apply B|apply A]; exact Hx.
Qed.

Lemma align_one other_t a t :
  wf t -> wf other_t -> same_set (ids a t) (ids a other_t) = true ->
  exists t', sort_order (ids a other_t) a t = ROk t' /\
    ids a t' = ids a other_t /\
    (forall o s, cell t' o s = cell t o s) /\
    (forall b x, md_view b t' x = md_view b t x) /\
    ids (other a) t' = ids (other a) t /\ ttype t' = ttype t /\ normal t' /\ wf t'.
Proof.
  intros W Wo S.
  destruct (sort_order_perm (ids a other_t) a t W) as (t' & E & A & B & C & D & F & G & Hn & H).
  { apply same_set_perm; [apply wf_NoDup; exact W|apply wf_NoDup; exact Wo|exact S]. }
  exists t'. split; [exact E|]. split; [exact A|]. split; [exact B|]. split; [exact C|].
  split; [exact D|]. split; [exact G|]. split; [exact Hn|exact H].
Qed.

(* which axes a mode aligns, and when the call is accepted (table.py align_to) *)
Definition aligned (m : amode) (a : axis) (t other_t : table) : bool :=
  match m with
  | ASample => match a with Samp => true | Obs => false end
  | AObservation => match a with Obs => true | Samp => false end
  | ABoth => true
  | ADetect => same_set (ids a t) (ids a other_t)
  | AUnknown => false
  end.
Definition align_ok (m : amode) (t other_t : table) : bool :=
  let al_o := same_set (oids t) (oids other_t) in
  let al_s := same_set (sids t) (sids other_t) in
  match m with
  | ASample => al_s | AObservation => al_o | ABoth => al_o && al_s | ADetect => al_o || al_s
  | AUnknown => false
  end.

Theorem align_to_ok other_t m t :
  wf t -> wf other_t -> align_ok m t other_t = true ->
  exists t', align_to other_t m t = ROk t' /\
    (forall a, ids a t' = if aligned m a t other_t then ids a other_t else ids a t) /\
    (forall o s, cell t' o s = cell t o s) /\
    (forall a x, md_view a t' x = md_view a t x) /\
    ttype t' = ttype t /\ normal t' /\ wf t'.
Proof.
  intros W Wo Hok. unfold align_ok in Hok. unfold align_to.
  destruct m; simpl in Hok.
  - (* sample *)
    change (sids t) with (ids Samp t) in *. change (sids other_t) with (ids Samp other_t) in *. rewrite Hok.
    destruct (align_one other_t Samp t W Wo Hok) as (t' & E & A & B & C & D & F & Hn & G).
    exists t'. split; [exact E|]. split; [intros [|]; simpl; assumption|].
    split; [exact B|]. split; [exact C|]. split; [exact F|]. split; [exact Hn|exact G].
  - (* observation *)
    change (oids t) with (ids Obs t) in *. change (oids other_t) with (ids Obs other_t) in *. rewrite Hok.
    destruct (align_one other_t Obs t W Wo Hok) as (t' & E & A & B & C & D & F & Hn & G).
    exists t'. split; [exact E|]. split; [intros [|]; simpl; assumption|].
    split; [exact B|]. split; [exact C|]. split; [exact F|]. split; [exact Hn|exact G].
  - (* both *)
    rewrite Hok. apply andb_true_iff in Hok. destruct Hok as [Ho Hs].
    destruct (align_one other_t Obs t W Wo Ho) as (t1 & E1 & A1 & B1 & C1 & D1 & F1 & N1 & G1).
    assert (Hs1 : same_set (ids Samp t1) (ids Samp other_t) = true) by (simpl in *; rewrite D1; exact Hs).
    destruct (align_one other_t Samp t1 G1 Wo Hs1) as (t2 & E2 & A2 & B2 & C2 & D2 & F2 & N2 & G2).
    exists t2. simpl in *. rewrite E1. simpl. split; [exact E2|].
    split; [intros [|]; simpl; congruence|].
    split; [intros o s; rewrite B2; apply B1|].
    split; [intros a x; rewrite C2; apply C1|].
    split; [congruence|]. split; [exact N2|exact G2].
  - (* detect *)
    rewrite Hok.
    destruct (same_set (sids t) (sids other_t)) eqn:Hs.
    + destruct (align_one other_t Samp t W Wo Hs) as (t1 & E1 & A1 & B1 & C1 & D1 & F1 & N1 & G1).
      simpl in *. rewrite E1. simpl.
      destruct (same_set (oids t) (oids other_t)) eqn:Ho.
      * assert (Ho1 : same_set (ids Obs t1) (ids Obs other_t) = true) by (simpl; rewrite D1; exact Ho).
        destruct (align_one other_t Obs t1 G1 Wo Ho1) as (t2 & E2 & A2 & B2 & C2 & D2 & F2 & N2 & G2).
        exists t2. simpl in *. split; [exact E2|].
        split; [intros [|]; simpl; rewrite ?Ho, ?Hs; congruence|].
        split; [intros o s; rewrite B2; apply B1|].
        split; [intros a x; rewrite C2; apply C1|].
        split; [congruence|]. split; [exact N2|exact G2].
      * exists t1. split; [reflexivity|].
        split; [intros [|]; simpl; rewrite ?Ho, ?Hs; assumption|].
        split; [exact B1|]. split; [exact C1|]. split; [exact F1|]. split; [exact N1|exact G1].
    + simpl in Hok. rewrite orb_false_r in Hok.
      destruct (align_one other_t Obs t W Wo Hok) as (t1 & E1 & A1 & B1 & C1 & D1 & F1 & N1 & G1).
      simpl in *. rewrite Hok. exists t1. split; [exact E1|].
      split; [intros [|]; simpl; rewrite ?Hok, ?Hs; assumption|].
      split; [exact B1|]. split; [exact C1|]. split; [exact F1|]. split; [exact N1|exact G1].
  - discriminate.
Qed.

Theorem align_to_refused other_t m t :
  align_ok m t other_t = false ->
  align_to other_t m t = RErr (match m with AUnknown => E_UNKNOWN | _ => E_DISJOINT end).
Proof.
  unfold align_ok, align_to. destruct m; intros H; try rewrite H; reflexivity.
Qed.

(* ---------------- restatements used by Props/C06.v ---------------- *)
(* transposing twice (each time through the constructor) restores ids, order, values and the metadata
   as the constructor normalises it *)
Theorem transpose_twice t : wf t ->
  let t2 := transpose_c (transpose_c t) in
  oids t2 = oids t /\ sids t2 = sids t /\ mat t2 = mat t /\ omd t2 = ctor_md (omd t) /\ smd t2 = ctor_md (smd t) /\
  (forall o s, cell t2 o s = cell t o s) /\ (forall b x, md_view b t2 x = md_view b t x).
Proof.
  intros W. cbv zeta. rewrite (transpose_c_twice t W). simpl.
  split; [reflexivity|]. split; [reflexivity|]. split; [reflexivity|]. split; [reflexivity|]. split; [reflexivity|].
  split; [intros o s; reflexivity|]. intros b x. apply md_view_ctor; destruct b; reflexivity.
Qed.

(* strict=False: an id without a mapping stays, with its values and metadata *)
Theorem update_ids_unmapped_kept m a inplace t t' :
  wf t -> (forall x y, In x (ids a t) -> In y (ids a t) -> rename m x = rename m y -> x = y) ->
  update_ids m a false inplace t = ROk t' ->
  forall x, In x (ids a t) -> mapped m x = false ->
    In x (ids a t') /\ (forall y, cell_ax a t' x y = cell_ax a t x y) /\ md_view a t' x = md_view a t x.
Proof.
  intros W Inj H x Hx Hm.
  destruct (update_ids_injective m a false inplace t W (fun E => False_ind _ (Bool.diff_false_true E)) Inj)
    as (t1 & E1 & A & B & C & _).
  rewrite E1 in H. inversion H; subst t1. pose proof (rename_unmapped m x Hm) as R.
  split; [rewrite A, <- R; apply in_map; exact Hx|].
  split; [intros y; rewrite <- R at 1; apply B; exact Hx|].
  rewrite <- R at 1. apply C. exact Hx.
Qed.

Lemma perm_by_compute l1 l2 : zdup l1 = false -> zdup l2 = false -> same_set l2 l1 = true -> Permutation l1 l2.
Proof.
  intros A B. apply same_set_perm; apply zdup_false_NoDup; assumption.
Qed.

(* ---------------- unconditional coherence preservation (used by C05) ----------------
   for ANY arguments: whenever the operation returns a table, that table is coherent *)
Theorem sort_order_wf order a t t' : wf t -> sort_order order a t = ROk t' -> wf t'.
Proof.
  intros W H. unfold sort_order in H. destruct (lookup_all order (ids a t)) as [fancy|] eqn:Hf; [|discriminate].
  apply errcheck_NoDup in H. destruct H as (-> & No & Ns).
  apply wf_reorder; [exact W|exact Hf|]. destruct a; simpl in *; assumption.
Qed.

Theorem sort_wf (sortf : list Z -> list Z) a t t' : wf t -> sort sortf a t = ROk t' -> wf t'.
Proof. unfold sort. apply sort_order_wf. Qed.

Theorem update_ids_wf m a strict inplace t t' : wf t -> update_ids m a strict inplace t = ROk t' -> wf t'.
Proof.
  intros W H.
  assert (G : forall t1, update_ids m a strict true t = ROk t1 -> wf t1).
  { intros t1 H1. unfold update_ids, new_ids in H1.
    destruct (strict && negb (forallb (mapped m) (ids a t))); [discriminate|].
    destruct (zdup (map (rename m) (ids a t))); [discriminate|].
    apply errcheck_NoDup in H1. destruct H1 as (-> & No & Ns).
    apply wf_set_ids; [exact W| |apply map_length]. destruct a; simpl in *; assumption. }
  destruct inplace; [apply G; exact H|].
  rewrite update_ids_new_is_copy in H. destruct (update_ids m a strict true t) as [t1|] eqn:E; [|discriminate].
  simpl in H. inversion H; subst. apply wf_copy. apply G. reflexivity.
Qed.

Theorem align_to_wf_gen other_t m t t' : wf t -> align_to other_t m t = ROk t' -> wf t'.
Proof.
  intros W H. unfold align_to in H. destruct m.
  - destruct (same_set (sids t) (sids other_t)); [|discriminate]. eapply sort_order_wf; eassumption.
  - destruct (same_set (oids t) (oids other_t)); [|discriminate]. eapply sort_order_wf; eassumption.
  - destruct (same_set (oids t) (oids other_t) && same_set (sids t) (sids other_t)); [|discriminate].
    destruct (sort_order (oids other_t) Obs t) as [t1|] eqn:E1; simpl in H; [|discriminate].
    eapply sort_order_wf; [|exact H]. eapply sort_order_wf; eassumption.
  - destruct (same_set (oids t) (oids other_t) || same_set (sids t) (sids other_t)); [|discriminate].
    assert (G : forall t1, wf t1 ->
              (if same_set (oids t) (oids other_t) then sort_order (oids other_t) Obs t1 else ROk t1) = ROk t' -> wf t').
    { intros t1 W1 H1. destruct (same_set (oids t) (oids other_t)).
      - eapply sort_order_wf; eassumption.
      - inversion H1; subst. exact W1. }
    destruct (same_set (sids t) (sids other_t)).
    + destruct (sort_order (sids other_t) Samp t) as [t1|] eqn:E1; simpl in H; [|discriminate].
      apply (G t1); [eapply sort_order_wf; eassumption|exact H].
    + simpl in H. apply (G t); assumption.
  - discriminate.
Qed.

Theorem align_to_wf other_t m t t' : wf t -> wf other_t -> align_to other_t m t = ROk t' -> wf t'.
Proof. intros W _. apply align_to_wf_gen. exact W. Qed.

(* ---------------- constructor-normal metadata is an invariant ----------------
   every table the constructor built has normal metadata (ctor_md is idempotent); the operations
   below keep it (sort_order, sort, align_to, copy, transpose even establish it) *)
Theorem sort_order_normal order a t t' : sort_order order a t = ROk t' -> normal t'.
Proof.
  intros H. unfold sort_order in H. destruct (lookup_all order (ids a t)) as [fancy|]; [|discriminate].
  apply errcheck_inv in H. subst. apply reorder_normal.
Qed.

Theorem sort_normal (sortf : list Z -> list Z) a t t' : sort sortf a t = ROk t' -> normal t'.
Proof. unfold sort. apply sort_order_normal. Qed.

Theorem update_ids_normal m a strict inplace t t' : normal t -> update_ids m a strict inplace t = ROk t' -> normal t'.
Proof.
  intros N H.
  assert (G : forall t1, update_ids m a strict true t = ROk t1 -> normal t1).
  { intros t1 H1. unfold update_ids in H1. destruct (new_ids m strict (ids a t)) as [new|]; [|discriminate].
    destruct (zdup new); [discriminate|]. apply errcheck_inv in H1. subst.
    destruct N as [A B]. destruct a; split; simpl; assumption. }
  destruct inplace; [apply G; exact H|].
  rewrite update_ids_new_is_copy in H. destruct (update_ids m a strict true t) as [t1|]; [|discriminate].
  simpl in H. inversion H; subst. apply copy_normal.
Qed.

Theorem align_to_normal other_t m t t' : normal t -> align_to other_t m t = ROk t' -> normal t'.
Proof.
  intros N H. unfold align_to in H. destruct m.
  - destruct (same_set (sids t) (sids other_t)); [|discriminate]. eapply sort_order_normal; eassumption.
  - destruct (same_set (oids t) (oids other_t)); [|discriminate]. eapply sort_order_normal; eassumption.
  - destruct (same_set (oids t) (oids other_t) && same_set (sids t) (sids other_t)); [|discriminate].
    destruct (sort_order (oids other_t) Obs t) as [t1|]; simpl in H; [|discriminate].
    eapply sort_order_normal; eassumption.
  - destruct (same_set (oids t) (oids other_t) || same_set (sids t) (sids other_t)); [|discriminate].
    destruct (same_set (sids t) (sids other_t)).
    + destruct (sort_order (sids other_t) Samp t) as [t1|] eqn:E1; simpl in H; [|discriminate].
      destruct (same_set (oids t) (oids other_t)); [eapply sort_order_normal; eassumption|].
      inversion H; subst. eapply sort_order_normal; eassumption.
    + simpl in H. destruct (same_set (oids t) (oids other_t)); [eapply sort_order_normal; eassumption|].
      inversion H; subst. exact N.
  - discriminate.
Qed.

(* under normal metadata the exact statements hold *)
Theorem sort_order_back_normal order a t t' :
  wf t -> normal t -> Permutation order (ids a t) -> sort_order order a t = ROk t' ->
  sort_order (ids a t) a t' = ROk t.
Proof. intros W N P H. rewrite (sort_order_back order a t t' W P H), (copy_id t N). reflexivity. Qed.

(* for a normal table the metadata view determines the stored entry *)
Lemma normal_md_of b t x m : md_normal (mds b t) -> md_of b t x = Some m -> md_view b t x = m.
Proof.
  intros N H. unfold md_view. rewrite H. unfold cast_entry. destruct (tree_eqb m md_none) eqn:E; [|reflexivity].
  exfalso. apply tree_eqb_eq in E. subst m. unfold md_of, md_at in H. destruct (pos x (ids b t)) as [i|]; [|discriminate].
  unfold md_normal in N. destruct (mds b t) as [l|]; [|discriminate]. simpl in N.
  destruct (forallb md_falsy l); [discriminate|]. inversion N as [N1].
  assert (In md_none (map cast_entry l)) by (rewrite N1; eapply nth_error_In; exact H).
  apply in_map_iff in H0. destruct H0 as [y [Hy _]]. unfold cast_entry in Hy.
  destruct (tree_eqb y md_none) eqn:Ey; [discriminate|]. subst y. rewrite tree_eqb_refl in Ey. discriminate.
Qed.
