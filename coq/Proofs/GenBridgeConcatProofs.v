(* Bridge between the generated Gen/ConcatGen.v (tools/py2v_cat, from Table.concat of biom/table.py)
   and the hand-written model Model/Concat.v. *)
From Coq Require Import List Arith ZArith Lia Bool.
From BiomV Require Import Base.Tree Base.ListUtil Base.Matrix Model.Table Model.Orient Model.Concat
  Proofs.OrientProofs Gen.CatPrelude Gen.ConcatGen.
Import ListNotations.

Definition same_mem (s s' : list Z) : Prop := forall x, zmem x s = zmem x s'.

Lemma existsb_fext {A} (f g : A -> bool) l : (forall x, f x = g x) -> existsb f l = existsb g l.
Proof. intros H. induction l; cbn; [reflexivity|]. rewrite H, IHl. reflexivity. Qed.

Lemma filter_fext {A} (f g : A -> bool) l : (forall x, f x = g x) -> filter f l = filter g l.
Proof. intros H. induction l; cbn; [reflexivity|]. rewrite H, IHl. reflexivity. Qed.

Lemma zmem_app x a b : zmem x (a ++ b) = zmem x a || zmem x b.
Proof. unfold zmem. apply existsb_app. Qed.

Lemma same_mem_app s s' l : same_mem s s' -> same_mem (s ++ l) (s' ++ l).
Proof. intros H x. rewrite !zmem_app, H. reflexivity. Qed.

Lemma disjoint_ok_mem ts : forall s s', same_mem s s' -> disjoint_ok s ts = disjoint_ok s' ts.
Proof.
  induction ts as [|t r IH]; intros s s' H; cbn [disjoint_ok]; [reflexivity|].
  rewrite (existsb_fext (fun x => zmem x s) (fun x => zmem x s') _ H).
  destruct (existsb _ _); [reflexivity|]. apply IH, same_mem_app, H.
Qed.

Lemma same_mem_update s s' l : same_mem s s' -> same_mem (set_update_list s l) (s' ++ l).
Proof.
  intros H x. unfold set_update_list, set_update. rewrite !zmem_app, <- H.
  destruct (zmem x s) eqn:E; [reflexivity|]. cbn [orb].
  apply eq_true_iff_eq. rewrite !zmem_In, filter_In, nodup_In, negb_true_iff. tauto.
Qed.

Lemma dict_set_fresh m k v : ~ In k (map fst m) -> dict_set m k v = m ++ [(k, v)].
Proof.
  intros H. unfold dict_set. destruct (existsb _ m) eqn:E; [|reflexivity].
  apply existsb_exists in E. destruct E as [p [Hp Hk]]. apply Z.eqb_eq in Hk. subst k.
  exfalso. apply H, in_map, Hp.
Qed.

(* the inner loop: the metadata of the ids a table brings in *)
Lemma scan_loop2_spec a t : forall fresh md,
  NoDup fresh -> (forall k, In k fresh -> ~ In k (map fst md)) ->
  gen_concat_scan_loop2 a t md fresh = ROk (md ++ map (fun y => (y, tb_metadata_of a t y)) fresh).
Proof.
  induction fresh as [|k r IH]; intros md Hnd Hk; cbn [gen_concat_scan_loop2 map].
  - rewrite app_nil_r. reflexivity.
  - rewrite dict_set_fresh by (apply Hk; left; reflexivity).
    inversion Hnd; subst. rewrite IH; [rewrite <- app_assoc; reflexivity|assumption|].
    intros k' Hin. rewrite map_app, in_app_iff. cbn. intros [Hm|[He|[]]].
    + apply (Hk k'); [right; assumption|assumption].
    + subst k'. contradiction.
Qed.

Lemma md_lookup_orient a t y : md_lookup (orient a t) y = tb_metadata_of (other a) t y.
Proof. destruct a; reflexivity. Qed.

(* the first loop: the disjointness check and the union of the other axis' ids with their metadata *)
Lemma scan_loop1_spec a : forall l ax ax' inv md,
  same_mem ax ax' -> map fst md = inv -> Forall (fun t => NoDup (ids (other a) t)) l ->
  match gen_concat_scan_loop1 a (other a) ax inv md l with
  | ROk (_, s, m) => disjoint_ok ax' (map (orient a) l) = true /\ collect inv md (map (orient a) l) = (s, m)
  | RErr c => c = E_DISJOINT /\ disjoint_ok ax' (map (orient a) l) = false
  end.
Proof.
  induction l as [|t r IH]; intros ax ax' inv md Hm Hk Hnd;
    cbn [gen_concat_scan_loop1 map disjoint_ok collect].
  - split; reflexivity.
  - inversion Hnd as [|? ? Ht Hr]; subst.
    cbn [gen_concat_scan_loop1 map disjoint_ok collect].
    rewrite oids_orient, sids_orient. unfold tb_ids, set_isdisjoint, set_copy, set_iter, py_set.
    rewrite negb_involutive, (nodup_fixed_point Z.eq_dec Ht).
    rewrite (existsb_fext (fun x => zmem x ax) (fun x => zmem x ax') _ Hm).
    destruct (existsb (fun x => zmem x ax') (ids a t)) eqn:E; [split; reflexivity|].
    unfold set_diff, set_update.
    remember (filter (fun y => negb (zmem y (map fst md))) (ids (other a) t)) as fresh eqn:Hfresh.
    assert (Hf : NoDup fresh) by (subst fresh; apply filter_NoDup, Ht).
    assert (Hfk : forall k, In k fresh -> ~ In k (map fst md)).
    { intros k Hin. rewrite Hfresh in Hin. apply filter_In in Hin. destruct Hin as [_ Hn]. apply negb_true_iff in Hn.
      intros Hc. apply zmem_In in Hc. congruence. }
    rewrite (map_ext (fun y => (y, md_lookup (orient a t) y)) (fun y => (y, tb_metadata_of (other a) t y)))
      by (intros y; rewrite md_lookup_orient; reflexivity).
    assert (Hnext : forall md2, map fst md2 = map fst md ++ fresh ->
      match gen_concat_scan_loop1 a (other a) (set_update_list ax (ids a t)) (map fst md ++ fresh) md2 r with
      | ROk (_, s, m) => disjoint_ok (ax' ++ ids a t) (map (orient a) r) = true /\
                         collect (map fst md ++ fresh) md2 (map (orient a) r) = (s, m)
      | RErr c => c = E_DISJOINT /\ disjoint_ok (ax' ++ ids a t) (map (orient a) r) = false
      end).
    { intros md2 H2. apply IH; [apply same_mem_update, Hm|exact H2|exact Hr]. }
    clear Hfresh. destruct fresh as [|z f].
    + cbn [set_nonempty rbind map]. specialize (Hnext md). rewrite !app_nil_r in *.
      apply Hnext. reflexivity.
    + cbn [set_nonempty]. rewrite scan_loop2_spec by assumption. cbn [rbind].
      apply Hnext. rewrite map_app, map_map. cbn [fst]. rewrite map_id. reflexivity.
Qed.

(* what Model/Concat.v computes up to the common order of the other axis (concat_rows: disjoint_ok,
   collect, isort), on the operands as the code sees them; the three function values are the ones the
   axis test selects *)
Definition scan_source (self : table) (others : others_arg) (a : axis)
  : result (list table * axis * getter * stackfn * stackfn * idset * mddict * list Z) :=
  let ts := self :: normalise_others others in
  if disjoint_ok [] (map (orient a) ts) then
    let '(inv, mdm) := collect [] [] (map (orient a) ts) in
    ROk (ts, other a, Getter (match a with Samp => 1 | Obs => 0 end),
         match a with Samp => HStack | Obs => VStack end,
         match a with Samp => VStack | Obs => HStack end,
         inv, mdm, isort inv)
  else RErr E_DISJOINT.

(* hypothesis: no operand repeats an id on the other axis (every constructed table satisfies it) *)
Theorem gen_concat_scan_is_source_partial : forall (self : table) (others : others_arg) (a : axis),
  Forall (fun t => NoDup (ids (other a) t)) (self :: normalise_others others) ->
  gen_concat_scan self others a = scan_source self others a.
Proof.
  intros self others a H.
  pose proof (scan_loop1_spec a (self :: normalise_others others) [] [] [] []
                (fun x => eq_refl) eq_refl H) as L.
  unfold gen_concat_scan, scan_source.
  assert (Hl : list_insert (list_copy (normalise_others others)) 0 self = self :: normalise_others others)
    by reflexivity.
  destruct a; cbn [axis_is_sample rbind invert_axis]; rewrite Hl; unfold set_empty, dict_empty, py_sorted, py_itemgetter;
    destruct (gen_concat_scan_loop1 _ _ [] [] [] (self :: normalise_others others)) as [[[ax s] m]|c];
    cbn [rbind]; destruct L as [L1 L2]; rewrite L1; try rewrite L2; subst; reflexivity.
Qed.

(* the front half of concat_t is the translated code: refusal, the common order and the remembered metadata *)
Theorem concat_t_scan_is_source_partial : forall (self : table) (others : others_arg) (a : axis),
  Forall (fun t => NoDup (ids (other a) t)) (self :: normalise_others others) ->
  concat_t (self :: normalise_others others) a =
  match gen_concat_scan self others a with
  | ROk (all_tables, _, _, _, _, _, mdmap, order) =>
      ROk (orient a (stack_rows order (ttype self) (map (pad_table order mdmap) (map (orient a) all_tables))))
  | RErr c => RErr c
  end.
Proof.
  intros self others a H. rewrite gen_concat_scan_is_source_partial by exact H.
  unfold scan_source, concat_t, concat_rows. cbn [map].
  destruct (disjoint_ok [] _); cbn [negb]; [|reflexivity].
  destruct (collect [] [] _) as [inv mdm]. rewrite ttype_orient. reflexivity.
Qed.

(* the hypothesis is satisfiable, on both shapes of the argument *)
Example scan_hypothesis_satisfiable :
  let t1 := mkT [1%Z] [10%Z; 11%Z] [[1%Z; 2%Z]] None None 0%Z in
  let t2 := mkT [2%Z] [11%Z; 12%Z] [[3%Z; 4%Z]] None None 0%Z in
  Forall (fun t => NoDup (ids (other Obs) t)) (t1 :: normalise_others (OneTable t2)) /\
  Forall (fun t => NoDup (ids (other Samp) t)) (t1 :: normalise_others (ManyTables [t2; t2])) /\
  exists r, gen_concat_scan t1 (OneTable t2) Obs = ROk r.
Proof.
  cbn. split; [|split]; [| |eexists; vm_compute; reflexivity];
    repeat (constructor; cbn; try (intuition discriminate)).
Qed.

(* ================= the whole method (gen_concat), concatenation on the observation axis ================= *)
Lemma loop2_same : forall l a t md, gen_concat_loop2 a t md l = gen_concat_scan_loop2 a t md l.
Proof. induction l; intros; cbn [gen_concat_loop2 gen_concat_scan_loop2]; [reflexivity|apply IHl]. Qed.

Lemma loop1_same : forall l a ia ax inv md,
  gen_concat_loop1 a ia ax inv md l = gen_concat_scan_loop1 a ia ax inv md l.
Proof.
  induction l; intros; cbn [gen_concat_loop1 gen_concat_scan_loop1]; [reflexivity|].
  rewrite loop2_same. destruct (negb _); [reflexivity|].
  match goal with |- rbind ?X _ = _ => destruct X as [[? ?]|?] end; cbn [rbind]; [apply IHl|reflexivity].
Qed.

Lemma isort_cons x l : isort (x :: l) = insert x (isort l).
Proof. reflexivity. Qed.

Lemma insert_le_all x l : (forall z, In z l -> (x <= z)%Z) -> insert x l = x :: l.
Proof.
  destruct l as [|y r]; cbn [insert]; [reflexivity|]. intros H.
  rewrite (proj2 (Z.leb_le x y)); [reflexivity|apply H; left; reflexivity].
Qed.

Lemma filter_insert (p : Z -> bool) x l : Sorted.StronglySorted Z.le l ->
  filter p (insert x l) = if p x then insert x (filter p l) else filter p l.
Proof.
  induction 1 as [|y r Hs IH Hall]; cbn [insert filter].
  - destruct (p x); reflexivity.
  - destruct (Z.leb x y) eqn:E; cbn [filter].
    + destruct (p x) eqn:Px; [|reflexivity]. destruct (p y) eqn:Py.
      * cbn [insert]. rewrite E. reflexivity.
      * rewrite insert_le_all; [reflexivity|]. intros z Hz. apply filter_In in Hz. destruct Hz as [Hz _].
        rewrite Forall_forall in Hall. apply Z.leb_le in E. specialize (Hall z Hz). lia.
    + rewrite IH. destruct (p x) eqn:Px, (p y) eqn:Py; try reflexivity. cbn [insert]. rewrite E. reflexivity.
Qed.

(* list(<set difference>) in sorted order is the hand model's filter over the common order *)
Lemma isort_filter (p : Z -> bool) l : isort (filter p l) = filter p (isort l).
Proof.
  induction l as [|x l IH]; [reflexivity|]. rewrite isort_cons, filter_insert by apply isort_sorted.
  cbn [filter]. destruct (p x); [rewrite isort_cons, IH; reflexivity|exact IH].
Qed.

Lemma zip_app_zero k : forall m n, length m = n ->
  zip_app m (repeat (zero_row k) n) = map (fun r => r ++ zero_row k) m.
Proof.
  induction m as [|r m IH]; intros n H; destruct n; cbn [zip_app repeat map length] in *; try discriminate; try reflexivity.
  f_equal. apply IH. lia.
Qed.

(* the second loop: pad with zeros where an operand lacks an id, reorder where its order differs *)
Lemma loop3_spec self inv mdm : forall l acc,
  Forall wf l ->
  gen_concat_loop3 self Obs Samp HStack inv mdm (isort inv) acc l = ROk (acc ++ map (pad_table (isort inv) mdm) l).
Proof.
  induction l as [|t r IH]; intros acc H; cbn [gen_concat_loop3 map].
  - rewrite app_nil_r; reflexivity.
  - inversion H as [|? ? Ht Hr]; subst. destruct Ht as (Hlen & _ & _ & Hnd & _ & _).
    unfold tb_ids, py_set, set_to_list, set_diff. cbn [ids]. rewrite (nodup_fixed_point Z.eq_dec Hnd).
    rewrite isort_filter. unfold pad_table, pad_only.
    destruct (filter (fun y => negb (zmem y (sids t))) (isort inv)) as [|z f] eqn:F.
    + cbn [list_nonempty rbind]. unfold ids_all_eq, list_append, tb_sort_order.
      destruct (list_eqb Z.eqb (sids t) (isort inv)); cbn [rbind]; rewrite IH by assumption;
        rewrite <- app_assoc; reflexivity.
    + cbn [list_nonempty axis_is_sample rbind]. unfold zero_matrix, apply_stack. cbn [fst snd fold_left rbind].
      rewrite zip_app_zero by exact Hlen.
      unfold tb_metadata, mds, tb_matrix_data, list_copy, list_extend, tb_new, dict_getitem, none_list, md_list, nsamp.
      destruct (smd t) as [sm|]; cbn [optmd_is_none list_of_optmd rbind];
        unfold ids_all_eq, list_append, tb_sort_order;
        match goal with |- context [list_eqb Z.eqb ?A ?B] => destruct (list_eqb Z.eqb A B) end;
        cbn [rbind]; rewrite IH by assumption; rewrite <- app_assoc; reflexivity.
Qed.

(* the third loop: the metadata of the concatenation axis, None per id where an operand has none *)
Lemma loop4_spec : forall l acc,
  gen_concat_loop4 Obs (py_itemgetter 0) acc l =
  ROk (acc ++ concat (map (fun t => md_list (omd t) (length (mat t))) l)).
Proof.
  induction l as [|t l IH]; intros acc; cbn [gen_concat_loop4 map concat].
  - rewrite app_nil_r. reflexivity.
  - unfold tb_metadata, mds. destruct (omd t);
      cbn [optmd_is_none rbind apply_getter py_itemgetter tb_shape fst list_extend_opt md_list none_list];
      rewrite IH, <- app_assoc; reflexivity.
Qed.

(* Table.concat(others, axis='observation') as translated = Model/Concat.v concat_t, on coherent operands.
   MISSING: axis='sample' (the hand model works on the transposed operands there; the generated code
   stacks the other way round - relating the two needs the transposition lemmas for hstack / padding). *)
Theorem gen_concat_is_source_partial : forall (self : table) (others : others_arg),
  Forall wf (self :: normalise_others others) ->
  gen_concat self others Obs = concat_t (self :: normalise_others others) Obs.
Proof.
  intros self others H.
  assert (Hnd : Forall (fun t => NoDup (ids (other Obs) t)) (self :: normalise_others others)).
  { eapply Forall_impl; [|exact H]. intros t Ht. apply Ht. }
  pose proof (scan_loop1_spec Obs _ [] [] [] [] (fun x => eq_refl) eq_refl Hnd) as L.
  assert (Hid : map (orient Obs) (self :: normalise_others others) = self :: normalise_others others)
    by exact (map_id _).
  rewrite Hid in L. cbn [other] in L.
  unfold gen_concat, concat_t. rewrite Hid. unfold concat_rows.
  cbn [axis_is_sample rbind invert_axis other].
  change (list_insert (list_copy (normalise_others others)) 0 self) with (self :: normalise_others others).
  rewrite loop1_same. unfold set_empty, dict_empty.
  destruct (gen_concat_scan_loop1 Obs Samp [] [] [] (self :: normalise_others others)) as [[[ax s] m]|c];
    destruct L as [L1 L2]; cbn [rbind]; [|subst c; rewrite L2; reflexivity].
  rewrite L1, L2. cbn [negb]. unfold py_sorted. rewrite loop3_spec by exact H. cbn [rbind app map].
  unfold apply_stack. cbn [rbind]. rewrite loop4_spec. cbn [rbind app list_getitem nth_error].
  reflexivity.
Qed.

(* the hypothesis is satisfiable: two coherent operands with partly different samples, padded and stacked *)
Example concat_hypothesis_satisfiable :
  let t1 := mkT [1%Z] [10%Z; 11%Z] [[1%Z; 2%Z]] None None 0%Z in
  let t2 := mkT [2%Z] [12%Z; 11%Z] [[3%Z; 4%Z]] None None 0%Z in
  Forall wf (t1 :: normalise_others (OneTable t2)) /\
  gen_concat t1 (OneTable t2) Obs =
  ROk (mkT [1%Z; 2%Z] [10%Z; 11%Z; 12%Z] [[1%Z; 2%Z; 0%Z]; [0%Z; 4%Z; 3%Z]] None None 0%Z).
Proof.
  cbn zeta. split; [|vm_compute; reflexivity].
  repeat (apply Forall_cons; [apply wfb_wf; vm_compute; reflexivity|]). apply Forall_nil.
Qed.
