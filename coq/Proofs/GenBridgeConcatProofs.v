(* Bridge between the generated Gen/ConcatGen.v (tools/py2v_cat, from Table.concat of biom/table.py)
   and the hand-written model Model/Concat.v. *)
From Coq Require Import List Arith ZArith Lia Bool.
From BiomV Require Import Base.Tree Base.ListUtil Base.Matrix Model.Table Model.Orient Model.Concat
  Proofs.OrientProofs Gen.CatPrelude Gen.ConcatGen.
Import ListNotations.

Definition same_mem (s s' : list Z) : Prop := forall x, zmem x s = zmem x s'.

Lemma existsb_fext {A} (f g : A -> bool) l : (forall x, f x = g x) -> existsb f l = existsb g l.
Proof. intros H. induction l; cbn; [reflexivity|]. rewrite H, IHl. reflexivity. Qed.

Lemma filter_fext {A} (f g : A -> bool) l : (forall x, f x = g x) -> filter f l = filter g l.
Proof. intros H. induction l; cbn; [reflexivity|]. rewrite H, IHl. reflexivity. Qed.

Lemma zmem_app x a b : zmem x (a ++ b) = zmem x a || zmem x b.
Proof. unfold zmem. apply existsb_app. Qed.

Lemma same_mem_app s s' l : same_mem s s' -> same_mem (s ++ l) (s' ++ l).
Proof. intros H x. rewrite !zmem_app, H. reflexivity. Qed.

Lemma disjoint_ok_mem ts : forall s s', same_mem s s' -> disjoint_ok s ts = disjoint_ok s' ts.
Proof.
  induction ts as [|t r IH]; intros s s' H; cbn [disjoint_ok]; [reflexivity|].
  rewrite (existsb_fext (fun x => zmem x s) (fun x => zmem x s') _ H).
  destruct (existsb _ _); [reflexivity|]. apply IH, same_mem_app, H.
Qed.

Lemma same_mem_update s s' l : same_mem s s' -> same_mem (set_update_list s l) (s' ++ l).
Proof.
  intros H x. unfold set_update_list, set_update. rewrite !zmem_app, <- H.
  destruct (zmem x s) eqn:E; [reflexivity|]. cbn [orb].
  apply eq_true_iff_eq. rewrite !zmem_In, filter_In, nodup_In, negb_true_iff. tauto.
Qed.

Lemma dict_set_fresh m k v : ~ In k (map fst m) -> dict_set m k v = m ++ [(k, v)].
Proof.
  intros H. unfold dict_set. destruct (existsb _ m) eqn:E; [|reflexivity].
  apply existsb_exists in E. destruct E as [p [Hp Hk]]. apply Z.eqb_eq in Hk. subst k.
  exfalso. apply H, in_map, Hp.
Qed.

(* the inner loop: the metadata of the ids a table brings in *)
Lemma scan_loop2_spec a t : forall fresh md,
  NoDup fresh -> (forall k, In k fresh -> ~ In k (map fst md)) ->
  gen_concat_scan_loop2 a t md fresh = ROk (md ++ map (fun y => (y, tb_metadata_of a t y)) fresh).
Proof.
  induction fresh as [|k r IH]; intros md Hnd Hk; cbn [gen_concat_scan_loop2 map].
  - rewrite app_nil_r. reflexivity.
  - rewrite dict_set_fresh by (apply Hk; left; reflexivity).
    inversion Hnd; subst. rewrite IH; [rewrite <- app_assoc; reflexivity|assumption|].
    intros k' Hin. rewrite map_app, in_app_iff. cbn. intros [Hm|[He|[]]].
    + apply (Hk k'); [right; assumption|assumption].
    + subst k'. contradiction.
Qed.

Lemma md_lookup_orient a t y : md_lookup (orient a t) y = tb_metadata_of (other a) t y.
Proof. destruct a; reflexivity. Qed.

(* the first loop: the disjointness check and the union of the other axis' ids with their metadata *)
Lemma scan_loop1_spec a : forall l ax ax' inv md,
  same_mem ax ax' -> map fst md = inv -> Forall (fun t => NoDup (ids (other a) t)) l ->
  match gen_concat_scan_loop1 a (other a) ax inv md l with
  | ROk (_, s, m) => disjoint_ok ax' (map (orient a) l) = true /\ collect inv md (map (orient a) l) = (s, m)
  | RErr c => c = E_DISJOINT /\ disjoint_ok ax' (map (orient a) l) = false
  end.
Proof.
  induction l as [|t r IH]; intros ax ax' inv md Hm Hk Hnd;
    cbn [gen_concat_scan_loop1 map disjoint_ok collect].
  - split; reflexivity.
  - inversion Hnd as [|? ? Ht Hr]; subst.
    cbn [gen_concat_scan_loop1 map disjoint_ok collect].
    rewrite oids_orient, sids_orient. unfold tb_ids, set_isdisjoint, set_copy, set_iter, py_set.
    rewrite negb_involutive, (nodup_fixed_point Z.eq_dec Ht).
    rewrite (existsb_fext (fun x => zmem x ax) (fun x => zmem x ax') _ Hm).
    destruct (existsb (fun x => zmem x ax') (ids a t)) eqn:E; [split; reflexivity|].
    unfold set_diff, set_update.
    remember (filter (fun y => negb (zmem y (map fst md))) (ids (other a) t)) as fresh eqn:Hfresh.
    assert (Hf : NoDup fresh) by (subst fresh; apply filter_NoDup, Ht).
    assert (Hfk : forall k, In k fresh -> ~ In k (map fst md)).
    { intros k Hin. rewrite Hfresh in Hin. apply filter_In in Hin. destruct Hin as [_ Hn]. apply negb_true_iff in Hn.
      intros Hc. apply zmem_In in Hc. congruence. }
    rewrite (map_ext (fun y => (y, md_lookup (orient a t) y)) (fun y => (y, tb_metadata_of (other a) t y)))
      by (intros y; rewrite md_lookup_orient; reflexivity).
    assert (Hnext : forall md2, map fst md2 = map fst md ++ fresh ->
      match gen_concat_scan_loop1 a (other a) (set_update_list ax (ids a t)) (map fst md ++ fresh) md2 r with
      | ROk (_, s, m) => disjoint_ok (ax' ++ ids a t) (map (orient a) r) = true /\
                         collect (map fst md ++ fresh) md2 (map (orient a) r) = (s, m)
      | RErr c => c = E_DISJOINT /\ disjoint_ok (ax' ++ ids a t) (map (orient a) r) = false
      end).
    { intros md2 H2. apply IH; [apply same_mem_update, Hm|exact H2|exact Hr]. }
    clear Hfresh. destruct fresh as [|z f].
    + cbn [set_nonempty rbind map]. specialize (Hnext md). rewrite !app_nil_r in *.
      apply Hnext. reflexivity.
    + cbn [set_nonempty]. rewrite scan_loop2_spec by assumption. cbn [rbind].
      apply Hnext. rewrite map_app, map_map. cbn [fst]. rewrite map_id. reflexivity.
Qed.

(* what Model/Concat.v computes up to the common order of the other axis (concat_rows: disjoint_ok,
   collect, isort), on the operands as the code sees them; the three function values are the ones the
   axis test selects *)
Definition scan_source (self : table) (others : others_arg) (a : axis)
  : result (list table * axis * getter * stackfn * stackfn * idset * mddict * list Z) :=
  let ts := self :: normalise_others others in
  if disjoint_ok [] (map (orient a) ts) then
    let '(inv, mdm) := collect [] [] (map (orient a) ts) in
    ROk (ts, other a, Getter (match a with Samp => 1 | Obs => 0 end),
         match a with Samp => HStack | Obs => VStack end,
         match a with Samp => VStack | Obs => HStack end,
         inv, mdm, isort inv)
  else RErr E_DISJOINT.

(* hypothesis: no operand repeats an id on the other axis (every constructed table satisfies it) *)
Theorem gen_concat_scan_is_source_partial : forall (self : table) (others : others_arg) (a : axis),
  Forall (fun t => NoDup (ids (other a) t)) (self :: normalise_others others) ->
  gen_concat_scan self others a = scan_source self others a.
Proof.
  intros self others a H.
  pose proof (scan_loop1_spec a (self :: normalise_others others) [] [] [] []
                (fun x => eq_refl) eq_refl H) as L.
  unfold gen_concat_scan, scan_source.
  assert (Hl : list_insert (list_copy (normalise_others others)) 0 self = self :: normalise_others others)
    by reflexivity.
  destruct a; cbn [axis_is_sample rbind invert_axis]; rewrite Hl; unfold set_empty, dict_empty, py_sorted, py_itemgetter;
    destruct (gen_concat_scan_loop1 _ _ [] [] [] (self :: normalise_others others)) as [[[ax s] m]|c];
    cbn [rbind]; destruct L as [L1 L2]; rewrite L1; try rewrite L2; subst; reflexivity.
Qed.

(* the front half of concat_t is the translated code: refusal, the common order and the remembered metadata *)
Theorem concat_t_scan_is_source_partial : forall (self : table) (others : others_arg) (a : axis),
  Forall (fun t => NoDup (ids (other a) t)) (self :: normalise_others others) ->
  concat_t (self :: normalise_others others) a =
  match gen_concat_scan self others a with
  | ROk (all_tables, _, _, _, _, _, mdmap, order) =>
      ROk (orient a (stack_rows order (ttype self) (map (pad_table order mdmap) (map (orient a) all_tables))))
  | RErr c => RErr c
  end.
Proof.
  intros self others a H. rewrite gen_concat_scan_is_source_partial by exact H.
  unfold scan_source, concat_t, concat_rows. cbn [map].
  destruct (disjoint_ok [] _); cbn [negb]; [|reflexivity].
  destruct (collect [] [] _) as [inv mdm]. rewrite ttype_orient. reflexivity.
Qed.

(* the hypothesis is satisfiable, on both shapes of the argument *)
Example scan_hypothesis_satisfiable :
  let t1 := mkT [1%Z] [10%Z; 11%Z] [[1%Z; 2%Z]] None None 0%Z in
  let t2 := mkT [2%Z] [11%Z; 12%Z] [[3%Z; 4%Z]] None None 0%Z in
  Forall (fun t => NoDup (ids (other Obs) t)) (t1 :: normalise_others (OneTable t2)) /\
  Forall (fun t => NoDup (ids (other Samp) t)) (t1 :: normalise_others (ManyTables [t2; t2])) /\
  exists r, gen_concat_scan t1 (OneTable t2) Obs = ROk r.
Proof.
  cbn. split; [|split]; [| |eexists; vm_compute; reflexivity];
    repeat (constructor; cbn; try (intuition discriminate)).
Qed.
