(* Bridge between the generated Gen/ConcatGen.v (tools/py2v_cat, from Table.concat of biom/table.py)
   and the hand-written model Model/Concat.v. *)
From Coq Require Import List Arith ZArith Lia Bool.
From BiomV Require Import Base.Tree Base.ListUtil Base.Matrix Model.Table Model.Orient Model.Concat
  Proofs.OrientProofs Proofs.ConcatProofs Gen.CatPrelude Gen.ConcatGen.
Import ListNotations.

Definition same_mem (s s' : list Z) : Prop := forall x, zmem x s = zmem x s'.

Lemma existsb_fext {A} (f g : A -> bool) l : (forall x, f x = g x) -> existsb f l = existsb g l.
Proof. intros H. induction l; cbn; [reflexivity|]. rewrite H, IHl. reflexivity. Qed.

Lemma filter_fext {A} (f g : A -> bool) l : (forall x, f x = g x) -> filter f l = filter g l.
Proof. intros H. induction l; cbn; [reflexivity|]. rewrite H, IHl. reflexivity. Qed.

Lemma zmem_app x a b : zmem x (a ++ b) = zmem x a || zmem x b.
Proof. unfold zmem. apply existsb_app. Qed.

Lemma same_mem_app s s' l : same_mem s s' -> same_mem (s ++ l) (s' ++ l).
Proof. intros H x. rewrite !zmem_app, H. reflexivity. Qed.

Lemma disjoint_ok_mem ts : forall s s', same_mem s s' -> disjoint_ok s ts = disjoint_ok s' ts.
Proof.
  induction ts as [|t r IH]; intros s s' H; cbn [disjoint_ok]; [reflexivity|].
  rewrite (existsb_fext (fun x => zmem x s) (fun x => zmem x s') _ H).
  destruct (existsb _ _); [reflexivity|]. apply IH, same_mem_app, H.
Qed.

Lemma same_mem_update s s' l : same_mem s s' -> same_mem (set_update_list s l) (s' ++ l).
Proof.
  intros H x. unfold set_update_list, set_update. rewrite !zmem_app, <- H.
  destruct (zmem x s) eqn:E; [reflexivity|]. cbn [orb].
  apply eq_true_iff_eq. rewrite !zmem_In, filter_In, nodup_In, negb_true_iff. tauto.
Qed.

Lemma dict_set_fresh m k v : ~ In k (map fst m) -> dict_set m k v = m ++ [(k, v)].
Proof.
  intros H. unfold dict_set. destruct (existsb _ m) eqn:E; [|reflexivity].
  apply existsb_exists in E. destruct E as [p [Hp Hk]]. apply Z.eqb_eq in Hk. subst k.
  exfalso. apply H, in_map, Hp.
Qed.

(* the inner loop: the metadata of the ids a table brings in *)
Lemma scan_loop2_spec a t : forall fresh md,
  NoDup fresh -> (forall k, In k fresh -> ~ In k (map fst md)) ->
  gen_concat_scan_loop2 a t md fresh = ROk (md ++ map (fun y => (y, tb_metadata_of a t y)) fresh).
Proof.
  induction fresh as [|k r IH]; intros md Hnd Hk; cbn [gen_concat_scan_loop2 map].
  - rewrite app_nil_r. reflexivity.
  - rewrite dict_set_fresh by (apply Hk; left; reflexivity).
    inversion Hnd; subst. rewrite IH; [rewrite <- app_assoc; reflexivity|assumption|].
    intros k' Hin. rewrite map_app, in_app_iff. cbn. intros [Hm|[He|[]]].
    + apply (Hk k'); [right; assumption|assumption].
    + subst k'. contradiction.
Qed.

Lemma md_lookup_orient a t y : md_lookup (orient a t) y = tb_metadata_of (other a) t y.
Proof. destruct a; reflexivity. Qed.

(* the first loop: the disjointness check and the union of the other axis' ids with their metadata *)
Lemma scan_loop1_spec a : forall l ax ax' inv md,
  same_mem ax ax' -> map fst md = inv -> Forall (fun t => NoDup (ids (other a) t)) l ->
  match gen_concat_scan_loop1 a (other a) ax inv md l with
  | ROk (_, s, m) => disjoint_ok ax' (map (orient a) l) = true /\ collect inv md (map (orient a) l) = (s, m)
  | RErr c => c = E_DISJOINT /\ disjoint_ok ax' (map (orient a) l) = false
  end.
Proof.
  induction l as [|t r IH]; intros ax ax' inv md Hm Hk Hnd;
    cbn [gen_concat_scan_loop1 map disjoint_ok collect].
  - split; reflexivity.
  - inversion Hnd as [|? ? Ht Hr]; subst.
    cbn [gen_concat_scan_loop1 map disjoint_ok collect].
    rewrite oids_orient, sids_orient. unfold tb_ids, set_isdisjoint, set_copy, set_iter, py_set.
    rewrite negb_involutive, (nodup_fixed_point Z.eq_dec Ht).
    rewrite (existsb_fext (fun x => zmem x ax) (fun x => zmem x ax') _ Hm).
    destruct (existsb (fun x => zmem x ax') (ids a t)) eqn:E; [split; reflexivity|].
    unfold set_diff, set_update.
    remember (filter (fun y => negb (zmem y (map fst md))) (ids (other a) t)) as fresh eqn:Hfresh.
    assert (Hf : NoDup fresh) by (subst fresh; apply filter_NoDup, Ht).
    assert (Hfk : forall k, In k fresh -> ~ In k (map fst md)).
    { intros k Hin. rewrite Hfresh in Hin. apply filter_In in Hin. destruct Hin as [_ Hn]. apply negb_true_iff in Hn.
      intros Hc. apply zmem_In in Hc. congruence. }
    rewrite (map_ext (fun y => (y, md_lookup (orient a t) y)) (fun y => (y, tb_metadata_of (other a) t y)))
      by (intros y; rewrite md_lookup_orient; reflexivity).
    assert (Hnext : forall md2, map fst md2 = map fst md ++ fresh ->
      match gen_concat_scan_loop1 a (other a) (set_update_list ax (ids a t)) (map fst md ++ fresh) md2 r with
      | ROk (_, s, m) => disjoint_ok (ax' ++ ids a t) (map (orient a) r) = true /\
                         collect (map fst md ++ fresh) md2 (map (orient a) r) = (s, m)
      | RErr c => c = E_DISJOINT /\ disjoint_ok (ax' ++ ids a t) (map (orient a) r) = false
      end).
    { intros md2 H2. apply IH; [apply same_mem_update, Hm|exact H2|exact Hr]. }
    clear Hfresh. destruct fresh as [|z f].
    + cbn [set_nonempty rbind map]. specialize (Hnext md). rewrite !app_nil_r in *.
      apply Hnext. reflexivity.
    + cbn [set_nonempty]. rewrite scan_loop2_spec by assumption. cbn [rbind].
      apply Hnext. rewrite map_app, map_map. cbn [fst]. rewrite map_id. reflexivity.
Qed.

(* what Model/Concat.v computes up to the common order of the other axis (concat_rows: disjoint_ok,
   collect, isort), on the operands as the code sees them; the three function values are the ones the
   axis test selects *)
Definition scan_source (self : table) (others : others_arg) (a : axis)
  : result (list table * axis * getter * stackfn * stackfn * idset * mddict * list Z) :=
  let ts := self :: normalise_others others in
  if disjoint_ok [] (map (orient a) ts) then
    let '(inv, mdm) := collect [] [] (map (orient a) ts) in
    ROk (ts, other a, Getter (match a with Samp => 1 | Obs => 0 end),
         match a with Samp => HStack | Obs => VStack end,
         match a with Samp => VStack | Obs => HStack end,
         inv, mdm, isort inv)
  else RErr E_DISJOINT.

(* hypothesis: no operand repeats an id on the other axis (every constructed table satisfies it) *)
Theorem gen_concat_scan_is_source_partial : forall (self : table) (others : others_arg) (a : axis),
  Forall (fun t => NoDup (ids (other a) t)) (self :: normalise_others others) ->
  gen_concat_scan self others a = scan_source self others a.
Proof.
  intros self others a H.
  pose proof (scan_loop1_spec a (self :: normalise_others others) [] [] [] []
                (fun x => eq_refl) eq_refl H) as L.
  unfold gen_concat_scan, scan_source.
  assert (Hl : list_insert (list_copy (normalise_others others)) 0 self = self :: normalise_others others)
    by reflexivity.
  destruct a; cbn [axis_is_sample rbind invert_axis]; rewrite Hl; unfold set_empty, dict_empty, py_sorted, py_itemgetter;
    destruct (gen_concat_scan_loop1 _ _ [] [] [] (self :: normalise_others others)) as [[[ax s] m]|c];
    cbn [rbind]; destruct L as [L1 L2]; rewrite L1; try rewrite L2; subst; reflexivity.
Qed.

(* the front half of concat_t is the translated code: refusal, the common order and the remembered metadata *)
Theorem concat_t_scan_is_source_partial : forall (self : table) (others : others_arg) (a : axis),
  Forall (fun t => NoDup (ids (other a) t)) (self :: normalise_others others) ->
  concat_t (self :: normalise_others others) a =
  match gen_concat_scan self others a with
  | ROk (all_tables, _, _, _, _, _, mdmap, order) =>
      ROk (orient a (stack_rows order (ttype self) (map (pad_table order mdmap) (map (orient a) all_tables))))
  | RErr c => RErr c
  end.
Proof.
  intros self others a H. rewrite gen_concat_scan_is_source_partial by exact H.
  unfold scan_source, concat_t, concat_rows. cbn [map].
  destruct (disjoint_ok [] _); cbn [negb]; [|reflexivity].
  destruct (collect [] [] _) as [inv mdm]. rewrite ttype_orient. reflexivity.
Qed.

(* the hypothesis is satisfiable, on both shapes of the argument *)
Example scan_hypothesis_satisfiable :
  let t1 := mkT [1%Z] [10%Z; 11%Z] [[1%Z; 2%Z]] None None 0%Z in
  let t2 := mkT [2%Z] [11%Z; 12%Z] [[3%Z; 4%Z]] None None 0%Z in
  Forall (fun t => NoDup (ids (other Obs) t)) (t1 :: normalise_others (OneTable t2)) /\
  Forall (fun t => NoDup (ids (other Samp) t)) (t1 :: normalise_others (ManyTables [t2; t2])) /\
  exists r, gen_concat_scan t1 (OneTable t2) Obs = ROk r.
Proof.
  cbn. split; [|split]; [| |eexists; vm_compute; reflexivity];
    repeat (constructor; cbn; try (intuition discriminate)).
Qed.

(* ================= the whole method (gen_concat), concatenation on the observation axis ================= *)
Lemma loop2_same : forall l a t md, gen_concat_loop2 a t md l = gen_concat_scan_loop2 a t md l.
Proof. induction l; intros; cbn [gen_concat_loop2 gen_concat_scan_loop2]; [reflexivity|apply IHl]. Qed.

Lemma loop1_same : forall l a ia ax inv md,
  gen_concat_loop1 a ia ax inv md l = gen_concat_scan_loop1 a ia ax inv md l.
Proof.
  induction l; intros; cbn [gen_concat_loop1 gen_concat_scan_loop1]; [reflexivity|].
  rewrite loop2_same. destruct (negb _); [reflexivity|].
  match goal with |- rbind ?X _ = _ => destruct X as [[? ?]|?] end; cbn [rbind]; [apply IHl|reflexivity].
Qed.

Lemma isort_cons x l : isort (x :: l) = insert x (isort l).
Proof. reflexivity. Qed.

Lemma insert_le_all x l : (forall z, In z l -> (x <= z)%Z) -> insert x l = x :: l.
Proof.
  destruct l as [|y r]; cbn [insert]; [reflexivity|]. intros H.
  rewrite (proj2 (Z.leb_le x y)); [reflexivity|apply H; left; reflexivity].
Qed.

Lemma filter_insert (p : Z -> bool) x l : Sorted.StronglySorted Z.le l ->
  filter p (insert x l) = if p x then insert x (filter p l) else filter p l.
Proof.
  induction 1 as [|y r Hs IH Hall]; cbn [insert filter].
  - destruct (p x); reflexivity.
  - destruct (Z.leb x y) eqn:E; cbn [filter].
    + destruct (p x) eqn:Px; [|reflexivity]. destruct (p y) eqn:Py.
      * cbn [insert]. rewrite E. reflexivity.
      * rewrite insert_le_all; [reflexivity|]. intros z Hz. apply filter_In in Hz. destruct Hz as [Hz _].
        rewrite Forall_forall in Hall. apply Z.leb_le in E. specialize (Hall z Hz). lia.
    + rewrite IH. destruct (p x) eqn:Px, (p y) eqn:Py; try reflexivity. cbn [insert]. rewrite E. reflexivity.
Qed.

(* list(<set difference>) in sorted order is the hand model's filter over the common order *)
Lemma isort_filter (p : Z -> bool) l : isort (filter p l) = filter p (isort l).
Proof.
  induction l as [|x l IH]; [reflexivity|]. rewrite isort_cons, filter_insert by apply isort_sorted.
  cbn [filter]. destruct (p x); [rewrite isort_cons, IH; reflexivity|exact IH].
Qed.

Lemma zip_app_zero k : forall m n, length m = n ->
  zip_app m (repeat (zero_row k) n) = map (fun r => r ++ zero_row k) m.
Proof.
  induction m as [|r m IH]; intros n H; destruct n; cbn [zip_app repeat map length] in *; try discriminate; try reflexivity.
  f_equal. apply IH. lia.
Qed.

(* the second loop: pad with zeros where an operand lacks an id, reorder where its order differs *)
Lemma loop3_spec self inv mdm : forall l acc,
  Forall wf l ->
  gen_concat_loop3 self Obs Samp HStack inv mdm (isort inv) acc l = ROk (acc ++ map (pad_table (isort inv) mdm) l).
Proof.
  induction l as [|t r IH]; intros acc H; cbn [gen_concat_loop3 map].
  - rewrite app_nil_r; reflexivity.
  - inversion H as [|? ? Ht Hr]; subst. destruct Ht as (Hlen & _ & _ & Hnd & _ & _).
    unfold tb_ids, py_set, set_to_list, set_diff. cbn [ids]. rewrite (nodup_fixed_point Z.eq_dec Hnd).
    rewrite isort_filter. unfold pad_table, pad_only.
    destruct (filter (fun y => negb (zmem y (sids t))) (isort inv)) as [|z f] eqn:F.
    + cbn [list_nonempty rbind]. unfold ids_all_eq, list_append, tb_sort_order.
      destruct (list_eqb Z.eqb (sids t) (isort inv)); cbn [rbind]; rewrite IH by assumption;
        rewrite <- app_assoc; reflexivity.
    + cbn [list_nonempty axis_is_sample rbind]. unfold zero_matrix, apply_stack. cbn [fst snd fold_left rbind].
      rewrite zip_app_zero by exact Hlen.
      unfold tb_metadata, mds, tb_matrix_data, list_copy, list_extend, tb_new, dict_getitem, none_list, md_list, nsamp.
      destruct (smd t) as [sm|]; cbn [optmd_is_none list_of_optmd rbind];
        unfold ids_all_eq, list_append, tb_sort_order;
        match goal with |- context [list_eqb Z.eqb ?A ?B] => destruct (list_eqb Z.eqb A B) end;
        cbn [rbind]; rewrite IH by assumption; rewrite <- app_assoc; reflexivity.
Qed.

(* the third loop: the metadata of the concatenation axis, None per id where an operand has none *)
Lemma loop4_spec : forall l acc,
  gen_concat_loop4 Obs (py_itemgetter 0) acc l =
  ROk (acc ++ concat (map (fun t => md_list (omd t) (length (mat t))) l)).
Proof.
  induction l as [|t l IH]; intros acc; cbn [gen_concat_loop4 map concat].
  - rewrite app_nil_r. reflexivity.
  - unfold tb_metadata, mds. destruct (omd t);
      cbn [optmd_is_none rbind apply_getter py_itemgetter tb_shape fst list_extend_opt md_list none_list];
      rewrite IH, <- app_assoc; reflexivity.
Qed.

(* Table.concat(others, axis='observation') as translated = Model/Concat.v concat_t, on coherent operands *)
Theorem gen_concat_observation_is_source_partial : forall (self : table) (others : others_arg),
  Forall wf (self :: normalise_others others) ->
  gen_concat self others Obs = concat_t (self :: normalise_others others) Obs.
Proof.
  intros self others H.
  assert (Hnd : Forall (fun t => NoDup (ids (other Obs) t)) (self :: normalise_others others)).
  { eapply Forall_impl; [|exact H]. intros t Ht. apply Ht. }
  pose proof (scan_loop1_spec Obs _ [] [] [] [] (fun x => eq_refl) eq_refl Hnd) as L.
  assert (Hid : map (orient Obs) (self :: normalise_others others) = self :: normalise_others others)
    by exact (map_id _).
  rewrite Hid in L. cbn [other] in L.
  unfold gen_concat, concat_t. rewrite Hid. unfold concat_rows.
  cbn [axis_is_sample rbind invert_axis other].
  change (list_insert (list_copy (normalise_others others)) 0 self) with (self :: normalise_others others).
  rewrite loop1_same. unfold set_empty, dict_empty.
  destruct (gen_concat_scan_loop1 Obs Samp [] [] [] (self :: normalise_others others)) as [[[ax s] m]|c];
    destruct L as [L1 L2]; cbn [rbind]; [|subst c; rewrite L2; reflexivity].
  rewrite L1, L2. cbn [negb]. unfold py_sorted. rewrite loop3_spec by exact H. cbn [rbind app map].
  unfold apply_stack. cbn [rbind]. rewrite loop4_spec. cbn [rbind app list_getitem nth_error].
  reflexivity.
Qed.

(* the hypothesis is satisfiable: two coherent operands with partly different samples, padded and stacked *)
Example concat_hypothesis_satisfiable :
  let t1 := mkT [1%Z] [10%Z; 11%Z] [[1%Z; 2%Z]] None None 0%Z in
  let t2 := mkT [2%Z] [12%Z; 11%Z] [[3%Z; 4%Z]] None None 0%Z in
  Forall wf (t1 :: normalise_others (OneTable t2)) /\
  gen_concat t1 (OneTable t2) Obs =
  ROk (mkT [1%Z; 2%Z] [10%Z; 11%Z; 12%Z] [[1%Z; 2%Z; 0%Z]; [0%Z; 4%Z; 3%Z]] None None 0%Z).
Proof.
  cbn zeta. split; [|vm_compute; reflexivity].
  repeat (apply Forall_cons; [apply wfb_wf; vm_compute; reflexivity|]). apply Forall_nil.
Qed.

(* ================= the whole method, concatenation on the sample axis =================
   Model/Concat.v transposes the operands, runs the row version and transposes back; the code stacks the
   other way round (hstack for the result, vstack for the padding).  The lemmas below relate the two. *)
Lemma zip_app_map {A} (f g : A -> list Z) l :
  zip_app (map f l) (map g l) = map (fun x => f x ++ g x) l.
Proof. induction l; cbn [map zip_app]; [reflexivity|]. rewrite IHl. reflexivity. Qed.

Lemma mcol_app a b j : mcol (a ++ b) j = mcol a j ++ mcol b j.
Proof. unfold mcol. apply map_app. Qed.

(* the columns of a vertical stack: transposition turns vstack into hstack *)
Lemma transpose_app c a b : transpose c (a ++ b) = zip_app (transpose c a) (transpose c b).
Proof.
  unfold transpose. rewrite zip_app_map. apply map_ext. intros j. apply mcol_app.
Qed.

Lemma nth_zero_row c j : nth j (zero_row c) 0%Z = 0%Z.
Proof. unfold zero_row. revert j. induction c; intros [|j]; cbn; auto. Qed.

Lemma mcol_zeros c k j : mcol (repeat (zero_row c) k) j = zero_row k.
Proof.
  unfold mcol, zero_row at 2. induction k; cbn [repeat map]; [reflexivity|].
  rewrite nth_zero_row, IHk. reflexivity.
Qed.

(* zero rows below = zero columns to the right of the transposed block *)
Lemma transpose_pad_rows c k m :
  transpose c (m ++ repeat (zero_row c) k) = map (fun r => r ++ zero_row k) (transpose c m).
Proof.
  rewrite transpose_app. unfold transpose. rewrite zip_app_map, map_map.
  apply map_ext. intros j. rewrite mcol_zeros. reflexivity.
Qed.

Lemma rect_app c a b : rect c a -> rect c b -> rect c (a ++ b).
Proof. unfold rect. intros. apply Forall_app. split; assumption. Qed.

Lemma rect_zeros c k : rect c (repeat (zero_row c) k).
Proof.
  unfold rect. apply Forall_forall. intros r Hr. apply repeat_spec in Hr. subst.
  unfold zero_row. apply repeat_length.
Qed.

Lemma transpose_pad_cols c k m n : length m = n -> rect c m ->
  transpose (n + k) (map (fun r => r ++ zero_row k) (transpose c m)) = m ++ repeat (zero_row c) k.
Proof.
  intros Hl Hr. rewrite <- transpose_pad_rows.
  replace (n + k) with (length (m ++ repeat (zero_row c) k)) by (rewrite app_length, repeat_length; lia).
  apply transpose_involutive. apply rect_app; [exact Hr|apply rect_zeros].
Qed.

Lemma transpose_concat c : forall (ms : list matrix) acc,
  fold_left zip_app (map (transpose c) ms) (transpose c acc) = transpose c (acc ++ concat ms).
Proof.
  induction ms as [|m ms IH]; intros acc; cbn [map fold_left concat].
  - rewrite app_nil_r. reflexivity.
  - rewrite <- transpose_app, IH, app_assoc. reflexivity.
Qed.

Lemma sids_pad_table order mdm t : sids (pad_table order mdm t) = order.
Proof.
  unfold pad_table. destruct (list_eqb Z.eqb _ order) eqn:E; [apply list_eqb_Z_eq, E|reflexivity].
Qed.

(* the padded block as the code builds it on the sample axis and as Model/Concat.v builds it on the
   transposed operand are each other's transpose *)
Lemma pad_block_flip t ms mdm imd : wf t ->
  let G := mkT (oids t ++ ms) (sids t) (mat t ++ repeat (zero_row (length (sids t))) (length ms))
               (ctor_md (Some (imd ++ map (fun i : Z => md_get mdm i) ms))) (ctor_md (smd t)) NOTYPE in
  let P := mkT (sids t) (oids t ++ ms) (map (fun r => r ++ zero_row (length ms)) (transpose (nsamp t) (mat t)))
               (ctor_md (smd t)) (ctor_md (Some (imd ++ map (md_get mdm) ms))) NOTYPE in
  flip G = P /\ G = flip P.
Proof.
  intros (Hlen & Hrect & _). cbv zeta. unfold flip, nsamp. cbn [oids sids mat omd smd ttype]. split; f_equal.
  - apply transpose_pad_rows.
  - rewrite app_length. symmetry. apply transpose_pad_cols; assumption.
Qed.

Lemma loop3_samp_spec self inv mdm : forall l acc,
  Forall wf l ->
  gen_concat_loop3 self Samp Obs VStack inv mdm (isort inv) acc l =
  ROk (acc ++ map (fun t => flip (pad_table (isort inv) mdm (flip t))) l).
Proof.
  induction l as [|t r IH]; intros acc H; cbn [gen_concat_loop3 map].
  - rewrite app_nil_r; reflexivity.
  - inversion H as [|? ? Ht Hr]; subst. pose proof Ht as (Hlen & Hrect & Hndo & _).
    unfold tb_ids, py_set, set_to_list, set_diff. cbn [ids]. rewrite (nodup_fixed_point Z.eq_dec Hndo).
    rewrite isort_filter. unfold pad_table, pad_only.
    change (sids (flip t)) with (oids t). change (oids (flip t)) with (sids t).
    change (mat (flip t)) with (transpose (nsamp t) (mat t)).
    change (omd (flip t)) with (smd t). change (smd (flip t)) with (omd t).
    change (nsamp (flip t)) with (length (oids t)).
    destruct (filter (fun y => negb (zmem y (oids t))) (isort inv)) as [|z f] eqn:F.
    + cbn [list_nonempty rbind]. unfold ids_all_eq, list_append, tb_sort_order.
      change (sids (flip t)) with (oids t).
      destruct (list_eqb Z.eqb (oids t) (isort inv)); cbn [rbind]; rewrite IH by assumption; rewrite <- app_assoc.
      * rewrite flip_flip by exact Ht. reflexivity.
      * reflexivity.
    + cbn [list_nonempty axis_is_sample rbind]. unfold zero_matrix, apply_stack. cbn [fst snd concat rbind].
      rewrite app_nil_r.
      unfold tb_metadata, mds, tb_matrix_data, list_copy, list_extend, tb_new, dict_getitem, none_list.
      destruct (pad_block_flip t (z :: f) mdm (md_list (omd t) (length (oids t))) Ht) as [HG1 HG2].
      cbv zeta in HG1, HG2.
      destruct (omd t) as [om|]; cbn [optmd_is_none list_of_optmd rbind md_list] in *;
        unfold ids_all_eq, list_append, tb_sort_order; cbn [oids sids];
        match goal with |- context [list_eqb Z.eqb ?A ?B] => destruct (list_eqb Z.eqb A B) end;
        cbn [rbind]; rewrite IH by assumption; rewrite <- app_assoc; cbn [app];
        try (rewrite HG1; reflexivity); try (rewrite <- HG2; reflexivity).
Qed.

Lemma loop4_samp_spec : forall l acc,
  gen_concat_loop4 Samp (py_itemgetter 1) acc (map flip l) =
  ROk (acc ++ concat (map (fun p => md_list (omd p) (length (oids p))) l)).
Proof.
  induction l as [|p l IH]; intros acc; cbn [gen_concat_loop4 map concat].
  - rewrite app_nil_r. reflexivity.
  - unfold tb_metadata, mds. change (smd (flip p)) with (omd p).
    destruct (omd p); cbn [optmd_is_none rbind apply_getter py_itemgetter tb_shape snd list_extend_opt md_list none_list];
      [|change (nsamp (flip p)) with (length (oids p))]; rewrite IH, <- app_assoc; reflexivity.
Qed.

Lemma hstack_transposes c ms : ms <> [] ->
  apply_stack HStack (map (transpose c) ms) = ROk (transpose c (concat ms)).
Proof.
  destruct ms as [|m ms]; [congruence|]. intros _. cbn [map apply_stack concat].
  rewrite transpose_concat. reflexivity.
Qed.

Lemma mat_flip_padded order m l :
  map (fun t => tb_matrix_data t) (map flip (map (pad_table order m) l)) =
  map (transpose (length order)) (map mat (map (pad_table order m) l)).
Proof.
  rewrite !map_map. apply map_ext. intros t. unfold tb_matrix_data, flip, nsamp. cbn [mat].
  rewrite sids_pad_table. reflexivity.
Qed.

(* Table.concat(others, axis='sample') as translated = Model/Concat.v concat_t, on coherent operands *)
Theorem gen_concat_sample_is_source_partial : forall (self : table) (others : others_arg),
  Forall wf (self :: normalise_others others) ->
  gen_concat self others Samp = concat_t (self :: normalise_others others) Samp.
Proof.
  intros self others H.
  assert (Hnd : Forall (fun t => NoDup (ids (other Samp) t)) (self :: normalise_others others)).
  { eapply Forall_impl; [|exact H]. intros t Ht. apply Ht. }
  pose proof (scan_loop1_spec Samp _ [] [] [] [] (fun x => eq_refl) eq_refl Hnd) as L. cbn [other] in L.
  pose proof (padded_stackable _ (Forall_wf_orient Samp _ H)) as Hst.
  unfold padded_of, order_of, mdmap_of in Hst.
  unfold gen_concat, concat_t.
  cbn [axis_is_sample rbind invert_axis other].
  change (list_insert (list_copy (normalise_others others)) 0 self) with (self :: normalise_others others).
  rewrite loop1_same. unfold set_empty, dict_empty.
  remember (self :: normalise_others others) as ts eqn:Hts.
  assert (Hne : ts <> []) by (subst ts; discriminate).
  assert (Hcr : concat_rows (map (orient Samp) ts) =
                if negb (disjoint_ok [] (map (orient Samp) ts)) then RErr E_DISJOINT
                else let '(inv_ids, mdmap) := collect [] [] (map (orient Samp) ts) in
                     ROk (stack_rows (isort inv_ids) (ttype self)
                            (map (pad_table (isort inv_ids) mdmap) (map (orient Samp) ts))))
    by (subst ts; reflexivity).
  rewrite Hcr. clear Hcr.
  destruct (gen_concat_scan_loop1 Samp Obs [] [] [] ts) as [[[ax s] m]|c];
    destruct L as [L1 L2]; cbn [rbind]; [|subst c; rewrite L2; reflexivity].
  rewrite L1, L2 in *. cbn [negb fst snd] in *. unfold py_sorted. rewrite loop3_samp_spec by exact H. cbn [rbind app].
  change (map (orient Samp) ts) with (map flip ts) in *.
  replace (map (fun t => flip (pad_table (isort s) m (flip t))) ts)
    with (map flip (map (pad_table (isort s) m) (map flip ts))) by (rewrite !map_map; reflexivity).
  set (ps := map (pad_table (isort s) m) (map flip ts)) in *.
  assert (Hps : ps <> []) by (subst ps; destruct ts; [congruence|discriminate]).
  unfold ps at 1. rewrite mat_flip_padded. fold ps.
  rewrite hstack_transposes by (destruct ps; [congruence|discriminate]). cbn [rbind].
  rewrite loop4_samp_spec. cbn [rbind app].
  destruct ps as [|p0 ps'] eqn:Eps; [congruence|]. cbn [map list_getitem nth_error rbind].
  unfold tb_new, stack_rows, orient, flip, nsamp, tb_metadata, mds, tb_type, np_concatenate.
  cbn [oids sids mat omd smd ttype map]. f_equal. f_equal.
  - rewrite map_map. reflexivity.
  - f_equal. f_equal.
    change (md_list (omd p0) (length (oids p0)) :: map (fun p => md_list (omd p) (length (oids p))) ps')
      with (map (fun p => md_list (omd p) (length (oids p))) (p0 :: ps')).
    change (md_list (omd p0) (length (mat p0)) :: map (fun t => md_list (omd t) (length (mat t))) ps')
      with (map (fun t => md_list (omd t) (length (mat t))) (p0 :: ps')).
    f_equal. apply map_ext_in. intros p Hp. rewrite Forall_forall in Hst. destruct (Hst p Hp) as [Hl _].
    rewrite Hl. reflexivity.
Qed.

(* the whole method, both axes *)
Theorem gen_concat_is_source_partial : forall (self : table) (others : others_arg) (a : axis),
  Forall wf (self :: normalise_others others) ->
  gen_concat self others a = concat_t (self :: normalise_others others) a.
Proof.
  intros self others [|] H;
    [apply gen_concat_observation_is_source_partial|apply gen_concat_sample_is_source_partial]; exact H.
Qed.

Example concat_sample_hypothesis_satisfiable :
  let t1 := mkT [1%Z; 2%Z] [10%Z] [[1%Z]; [2%Z]] None None 0%Z in
  let t2 := mkT [3%Z; 2%Z] [11%Z] [[3%Z]; [4%Z]] None None 0%Z in
  Forall wf (t1 :: normalise_others (ManyTables [t2])) /\
  gen_concat t1 (ManyTables [t2]) Samp =
  ROk (mkT [1%Z; 2%Z; 3%Z] [10%Z; 11%Z] [[1%Z; 0%Z]; [2%Z; 4%Z]; [0%Z; 3%Z]] None None 0%Z).
Proof.
  cbn zeta. split; [|vm_compute; reflexivity].
  repeat (apply Forall_cons; [apply wfb_wf; vm_compute; reflexivity|]). apply Forall_nil.
Qed.
