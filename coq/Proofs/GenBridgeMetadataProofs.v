(* Bridges between the hand-written model of metadata updates (Model/Metadata.v: add_metadata,
   del_metadata) and the definitions tools/py2v_dyn (state mode) regenerates from
   biom/table.py on every run (Gen/MetadataGen.v, vocabulary Gen/MetaPrelude.v). *)
From Coq Require Import String.
From Coq Require Import List Arith ZArith Lia Bool.
From BiomV Require Import Base.Tree Base.ListUtil Base.Matrix Model.Table Model.Tsv Proofs.TsvProofs
  Proofs.MetadataProofs Model.Metadata Gen.MetaPrelude Gen.MetadataGen.
Import ListNotations.

(* a cast metadata field (None or one dict per id) as the code stores it *)
Definition raw (o : option (list assoc)) : mdraw := option_map (map (@Some assoc)) o.
Definition raw_state (t : mtab) : tstate := mkS (m_oids t) (m_sids t) (raw (m_omd t)) (raw (m_smd t)).
Definition axis_text (a : axis) : text :=
  match a with Samp => txt "sample" | Obs => txt "observation" end.
Definition sel_text (s : axsel) : text :=
  match s with SelObs => txt "observation" | SelSamp => txt "sample" | SelWhole => txt "whole" end.
(* what every Table satisfies (errcheck): an axis with metadata has one entry per id *)
Definition mlen_ok (t : mtab) : Prop :=
  forall a l, m_mds a t = Some l -> length l = length (m_ids a t).

Lemma ax_of_axis_text a : ax_of (axis_text a) = ROk a.
Proof. destruct a; reflexivity. Qed.

Lemma index_of_lt {A} (eqb : A -> A -> bool) x l : forall i, index_of eqb x l = Some i -> (i < length l)%nat.
Proof.
  induction l as [|y l IH]; simpl; intros i H; [discriminate|].
  destruct (eqb x y).
  - inversion H; lia.
  - destruct (index_of eqb x l) as [j|]; simpl in H; [|discriminate].
    inversion H; subst. specialize (IH j eq_refl). lia.
Qed.

Lemma upd_map {A B} (f : A -> B) l i v : map f (upd l i v) = upd (map f l) i (f v).
Proof.
  unfold upd. rewrite map_app, firstn_map, skipn_map.
  destruct (skipn i l); reflexivity.
Qed.

Lemma nth_error_map_Some (l : list assoc) i : (i < length l)%nat ->
  nth_error (map (@Some assoc) l) i = Some (Some (nth i l [])).
Proof.
  revert i; induction l as [|x l IH]; simpl; intros i H; [lia|].
  destruct i; simpl; [reflexivity|]. apply IH; lia.
Qed.

Lemma cast_raw_raw o : cast_raw (raw o) = raw (cast_md o).
Proof.
  destruct o as [l|]; [|reflexivity]. cbn [raw option_map cast_raw cast_md].
  assert (E : forallb (fun e => negb (entry_truthy e)) (map (@Some assoc) l) = forallb is_nil l).
  { induction l as [|x l IH]; simpl; [reflexivity|]. rewrite IH, negb_involutive. reflexivity. }
  rewrite E. destruct (forallb is_nil l); [reflexivity|].
  cbn [option_map]. f_equal. rewrite map_map. reflexivity.
Qed.

Lemma cast_raw_opt l : cast_raw (Some l) = raw (cast_opt l).
Proof.
  cbn [cast_raw]. unfold cast_opt.
  assert (E : forallb (fun e => negb (entry_truthy e)) l = forallb opt_empty l).
  { induction l as [|x l IH]; simpl; [reflexivity|]. rewrite IH.
    destruct x as [d|]; simpl; [rewrite negb_involutive|]; reflexivity. }
  rewrite E. destruct (forallb opt_empty l); [reflexivity|].
  cbn [raw option_map]. f_equal. rewrite map_map. reflexivity.
Qed.

Lemma set_md_set_md a st x y : set_md a (set_md a st x) y = set_md a st y.
Proof. destruct a; reflexivity. Qed.
Lemma s_md_set_md a st x : s_md a (set_md a st x) = x.
Proof. destruct a; reflexivity. Qed.
Lemma s_ids_set_md a st x : s_ids a (set_md a st x) = s_ids a st.
Proof. destruct a; reflexivity. Qed.

(* ---- add_metadata: the loop over md.items() is the fold of add_step ---- *)
Lemma add_loop_bridge a m : forall st l,
  s_md a st = Some (map (@Some assoc) l) -> length l = length (s_ids a st) ->
  add_metadata_gen_loop1 (axis_text a) m st
  = ROk (set_md a st (Some (map (@Some assoc) (fold_left (add_step (s_ids a st)) m l)))).
Proof.
  induction m as [|[id e] m IH]; intros st l Hmd Hlen.
  - cbn [add_metadata_gen_loop1 fold_left]. rewrite <- Hmd. destruct a, st; reflexivity.
  - cbn [add_metadata_gen_loop1 fold_left].
    unfold tb_exists, tb_index. rewrite ax_of_axis_text. cbn [bind].
    unfold add_step at 2. cbn [fst snd].
    destruct (tpos id (s_ids a st)) as [i|] eqn:Ei.
    + cbn [bind].
      assert (Hi : (i < length l)%nat) by (rewrite Hlen; exact (index_of_lt _ _ _ _ Ei)).
      unfold tb_entry_update, tb_entry, tb_entry_put. rewrite ax_of_axis_text. cbn [bind].
      rewrite Hmd, (nth_error_map_Some _ _ Hi). cbn [bind].
      rewrite (IH _ (upd l i (aupdate (nth i l []) e))).
      * rewrite set_md_set_md, s_ids_set_md. reflexivity.
      * rewrite s_md_set_md, upd_map. reflexivity.
      * rewrite s_ids_set_md, upd_length. exact Hlen.
    + apply IH; assumption.
Qed.

Lemma lookup_map m ids :
  map (fun id => match mlookup id m with Some w => Some w | None => None end) ids
  = map (fun id => mlookup id m) ids.
Proof. apply map_ext. intros id. destruct (mlookup id m); reflexivity. Qed.

Theorem add_metadata_bridge t m a : mlen_ok t ->
  add_metadata_gen (raw_state t) m (axis_text a) = ROk (raw_state (add_metadata t m a)).
Proof.
  intros Hok. unfold add_metadata_gen, tb_metadata, tb_ids. rewrite ax_of_axis_text. cbn [bind].
  destruct (m_mds a t) as [l|] eqn:El.
  - assert (Hmd : s_md a (raw_state t) = Some (map (@Some assoc) l))
      by (destruct a; cbn [s_md raw_state s_omd s_smd m_mds] in *; rewrite El; reflexivity).
    rewrite Hmd. cbn [mdraw_is_none negb].
    rewrite (add_loop_bridge a m (raw_state t) l Hmd).
    2:{ rewrite (Hok a l El). destruct a; reflexivity. }
    cbn [bind]. unfold tb_cast_metadata.
    destruct a; cbn [m_mds] in El;
      cbn [set_md set_omd set_smd raw_state s_oids s_sids s_omd s_smd s_ids add_metadata add_axis];
      rewrite El; rewrite cast_raw_raw;
      change (Some (map (@Some assoc) ?x)) with (raw (Some x)); rewrite cast_raw_raw; reflexivity.
  - assert (Hmd : s_md a (raw_state t) = None)
      by (destruct a; cbn [s_md raw_state s_omd s_smd m_mds] in *; rewrite El; reflexivity).
    rewrite Hmd. cbn [mdraw_is_none negb bind].
    destruct a; cbn [m_mds] in El.
    + change (text_eqb (axis_text Obs) (txt "sample")) with false.
      change (text_eqb (axis_text Obs) (txt "observation")) with true. cbv iota.
      unfold tb_cast_metadata.
      cbn [set_omd raw_state s_oids s_sids s_omd s_smd s_ids add_metadata add_axis].
      rewrite El, lookup_map, cast_raw_opt, cast_raw_raw. reflexivity.
    + change (text_eqb (axis_text Samp) (txt "sample")) with true. cbv iota.
      unfold tb_cast_metadata.
      cbn [set_smd raw_state s_oids s_sids s_omd s_smd s_ids add_metadata add_axis].
      rewrite El, lookup_map, cast_raw_opt, cast_raw_raw. reflexivity.
Qed.

(* an axis name other than the two is UnknownAxisError, whatever the table *)
Theorem add_metadata_unknown_axis st m s :
  text_eqb s (txt "sample") = false -> text_eqb s (txt "observation") = false ->
  add_metadata_gen st m s = RErr E_UNKNOWN.
Proof.
  intros H1 H2. unfold add_metadata_gen, tb_metadata, ax_of. rewrite H1, H2. reflexivity.
Qed.

(* ---- del_metadata ---- *)

Lemma adel_absent a k : aget a k = None -> adel a k = a.
Proof.
  induction a as [|[k' v] a IH]; simpl; intros H; [reflexivity|].
  rewrite text_eqb_sym. destruct (text_eqb k k'); [discriminate|]. simpl. rewrite IH; auto.
Qed.

Lemma upd_cons_S {A} (x : A) l i v : upd (x :: l) (S i) v = x :: upd l i v.
Proof. reflexivity. Qed.
Lemma upd_upd {A} (l : list A) i x y : upd (upd l i x) i y = upd l i y.
Proof.
  revert i; induction l as [|z l IH]; intros [|i]; try reflexivity.
  rewrite !upd_cons_S, IH. reflexivity.
Qed.
Lemma upd_nth_same {A} (l : list A) i d : (i < length l)%nat -> upd l i (nth i l d) = l.
Proof.
  revert i; induction l as [|z l IH]; simpl; intros [|i] H; try lia; try reflexivity.
  rewrite upd_cons_S, IH by lia. reflexivity.
Qed.
Lemma nth_upd_same {A} (l : list A) i v d : (i < length l)%nat -> nth i (upd l i v) d = v.
Proof. apply nth_upd_eq. Qed.
Lemma upd_app_here {A} (pre : list A) x suf v : upd (pre ++ x :: suf) (length pre) v = pre ++ v :: suf.
Proof. induction pre as [|z pre IH]; [reflexivity|]. simpl app. simpl length. rewrite upd_cons_S, IH. reflexivity. Qed.

Lemma set_md_same a st : set_md a st (s_md a st) = st.
Proof. destruct a, st; reflexivity. Qed.

(* the loop over the keys on the dict object at position i *)
Lemma del_keys_bridge a i ks : forall st l,
  s_md a st = Some (map (@Some assoc) l) -> (i < length l)%nat ->
  del_metadata_gen_loop3 (axis_text a) i ks st
  = ROk (set_md a st (Some (map (@Some assoc) (upd l i (adel_all (nth i l []) ks))))).
Proof.
  induction ks as [|k ks IH]; intros st l Hmd Hi.
  - cbn [del_metadata_gen_loop3 adel_all fold_left]. rewrite upd_nth_same by exact Hi.
    rewrite <- Hmd, set_md_same. reflexivity.
  - cbn [del_metadata_gen_loop3]. unfold tb_entry_has, tb_entry_del, tb_entry, tb_entry_put.
    rewrite ax_of_axis_text. cbn [bind]. rewrite Hmd, (nth_error_map_Some _ _ Hi). cbn [bind].
    unfold adel_all. cbn [fold_left]. fold (adel_all (adel (nth i l []) k) ks).
    destruct (aget (nth i l []) k) eqn:Eg.
    + cbn [bind]. rewrite (IH _ (upd l i (adel (nth i l []) k))).
      * rewrite set_md_set_md, upd_upd, nth_upd_same by exact Hi. reflexivity.
      * rewrite s_md_set_md, upd_map. reflexivity.
      * rewrite upd_length. exact Hi.
    + rewrite (adel_absent _ _ Eg). apply IH; assumption.
Qed.

(* the loop over zip(ids, metadata): positions *)
Definition del_at (ks : list text) (l : list assoc) (p : text * nat) : list assoc :=
  upd l (snd p) (adel_all (nth (snd p) l []) ks).
Lemma del_positions_bridge a ks ps : forall st l,
  s_md a st = Some (map (@Some assoc) l) -> (forall p, In p ps -> (snd p < length l)%nat) ->
  del_metadata_gen_loop2 ks (axis_text a) ps st
  = ROk (set_md a st (Some (map (@Some assoc) (fold_left (del_at ks) ps l)))).
Proof.
  induction ps as [|[id j] ps IH]; intros st l Hmd Hps.
  - cbn [del_metadata_gen_loop2 fold_left]. rewrite <- Hmd, set_md_same. reflexivity.
  - cbn [del_metadata_gen_loop2 fold_left].
    assert (Hj : (j < length l)%nat) by (apply (Hps (id, j)); left; reflexivity).
    rewrite (del_keys_bridge a j ks st l Hmd Hj). cbn [bind].
    rewrite (IH _ (del_at ks l (id, j))).
    + rewrite set_md_set_md. reflexivity.
    + rewrite s_md_set_md. reflexivity.
    + intros p Hp. unfold del_at. rewrite upd_length. apply Hps. right. exact Hp.
Qed.

Lemma fold_positions {A} (f : A -> A) d (suf : list A) : forall pre ids,
  length ids = length suf ->
  fold_left (fun l (p : text * nat) => upd l (snd p) (f (nth (snd p) l d)))
            (combine ids (seq (length pre) (length suf))) (pre ++ suf)
  = pre ++ map f suf.
Proof.
  induction suf as [|x suf IH]; intros pre ids Hl.
  - destruct ids; reflexivity.
  - destruct ids as [|id ids]; [discriminate|]. simpl in Hl.
    cbn [length seq combine fold_left snd map].
    rewrite app_nth2, Nat.sub_diag by lia. cbn [nth].
    rewrite upd_app_here.
    change (pre ++ f x :: suf) with (pre ++ [f x] ++ suf). rewrite app_assoc.
    replace (S (length pre)) with (length (pre ++ [f x])) by (rewrite app_length; simpl; lia).
    rewrite IH by lia. rewrite <- app_assoc. reflexivity.
Qed.

Lemma empties_test l :
  bset_eqb (bset_of (map (fun e : option assoc => if negb (entry_truthy e) then true else false)
                         (map (@Some assoc) l))) (bset_of [true])
  = negb (is_nil l) && forallb is_nil l.
Proof.
  rewrite map_map. unfold bset_eqb, bset_of. cbn [fst snd existsb negb orb].
  assert (A : existsb negb (map (fun x : assoc => if negb (entry_truthy (Some x)) then true else false) l)
              = negb (forallb is_nil l)).
  { induction l as [|x l IH]; [reflexivity|]. cbn [map existsb forallb]. rewrite IH.
    destruct x; reflexivity. }
  assert (B : forallb is_nil l = true ->
              existsb (fun b : bool => b) (map (fun x : assoc => if negb (entry_truthy (Some x)) then true else false) l)
              = negb (is_nil l)).
  { destruct l as [|x l]; [reflexivity|]. cbn [map existsb forallb]. destruct x; [|discriminate]. reflexivity. }
  rewrite A. destruct (forallb is_nil l) eqn:F.
  - rewrite (B eq_refl). destruct (is_nil l); reflexivity.
  - rewrite !andb_false_r. reflexivity.
Qed.

(* one turn of the loop over the axes *)
Lemma del_axis_step a ks rest st o :
  s_md a st = raw o -> (forall l, o = Some l -> length l = length (s_ids a st)) ->
  del_metadata_gen_loop1 ks (axis_text a :: rest) st
  = del_metadata_gen_loop1 ks rest (set_md a st (raw (del_axis (Some ks) o))).
Proof.
  intros Hmd Hlen. cbn [del_metadata_gen_loop1].
  unfold tb_metadata at 1. rewrite ax_of_axis_text. cbn [bind]. rewrite Hmd.
  destruct o as [l|]; cbn [raw option_map mdraw_is_none].
  - unfold tb_zip_ids_md. rewrite ax_of_axis_text. cbn [bind]. rewrite Hmd. cbn [raw option_map bind].
    rewrite map_length.
    rewrite (del_positions_bridge a ks _ st l Hmd).
    2:{ intros [pi pj] Hp. apply in_combine_r in Hp. cbn [snd]. apply in_seq in Hp. lia. }
    cbn [bind]. unfold tb_metadata. rewrite ax_of_axis_text. cbn [bind]. rewrite s_md_set_md.
    cbn [py_iter_md bind]. rewrite empties_test.
    pose proof (fold_positions (fun e => adel_all e ks) [] l [] (s_ids a st)) as F.
    cbn [app length] in F. unfold del_at. rewrite F by (symmetry; apply Hlen; reflexivity).
    cbn [del_axis].
    destruct (negb (is_nil (map (fun e => adel_all e ks) l)) && forallb is_nil (map (fun e => adel_all e ks) l)).
    + destruct a.
      * change (text_eqb (axis_text Obs) (txt "sample")) with false. cbv iota.
        change (set_omd ?s None) with (set_md Obs s None). rewrite set_md_set_md. reflexivity.
      * change (text_eqb (axis_text Samp) (txt "sample")) with true. cbv iota.
        change (set_smd ?s None) with (set_md Samp s None). rewrite set_md_set_md. reflexivity.
    + reflexivity.
  - cbn [del_axis raw option_map]. change (@None (list (option assoc))) with (raw None).
    rewrite <- Hmd, set_md_same. reflexivity.
Qed.

Theorem del_metadata_bridge t keys s : mlen_ok t ->
  del_metadata_gen (raw_state t) keys (sel_text s) = ROk (raw_state (del_metadata t keys s)).
Proof.
  intros Hok. destruct keys as [ks|].
  - assert (HS : forall l, m_smd t = Some l -> length l = length (s_ids Samp (raw_state t)))
      by (intros l E; exact (Hok Samp l E)).
    assert (HO : forall l, m_omd t = Some l -> length l = length (s_ids Obs (raw_state t)))
      by (intros l E; exact (Hok Obs l E)).
    destruct s; unfold del_metadata_gen, sel_text.
    + change (text_eqb (txt "observation") (txt "whole")) with false.
      change (tmem (txt "observation") [txt "sample"; txt "observation"]) with true. cbv iota zeta.
      change (txt "observation") with (axis_text Obs).
      rewrite (del_axis_step Obs ks [] (raw_state t) (m_omd t) eq_refl HO).
      cbn [del_metadata_gen_loop1 bind]. destruct t; reflexivity.
    + change (text_eqb (txt "sample") (txt "whole")) with false.
      change (tmem (txt "sample") [txt "sample"; txt "observation"]) with true. cbv iota zeta.
      change (txt "sample") with (axis_text Samp).
      rewrite (del_axis_step Samp ks [] (raw_state t) (m_smd t) eq_refl HS).
      cbn [del_metadata_gen_loop1 bind]. destruct t; reflexivity.
    + change (text_eqb (txt "whole") (txt "whole")) with true. cbv iota zeta.
      change (txt "sample") with (axis_text Samp). change (txt "observation") with (axis_text Obs).
      rewrite (del_axis_step Samp ks _ (raw_state t) (m_smd t) eq_refl HS).
      rewrite (del_axis_step Obs ks [] _ (m_omd t)); [| reflexivity | exact HO].
      cbn [del_metadata_gen_loop1 bind]. destruct t; reflexivity.
  - destruct s, t; reflexivity.
Qed.

Theorem del_metadata_unknown_axis st keys s :
  text_eqb s (txt "whole") = false -> tmem s [txt "sample"; txt "observation"] = false ->
  del_metadata_gen st keys s = RErr E_UNKNOWN.
Proof. intros H1 H2. unfold del_metadata_gen. rewrite H1, H2. reflexivity. Qed.
