(* Bridges between the hand-written model of metadata updates (Model/Metadata.v: add_metadata,
   del_metadata) and the definitions tools/py2v_dyn (state mode) regenerates from
   biom/table.py on every run (Gen/MetadataGen.v, vocabulary Gen/MetaPrelude.v). *)
From Coq Require Import String.
From Coq Require Import List Arith ZArith Lia Bool.
From BiomV Require Import Base.Tree Base.ListUtil Base.Matrix Model.Table Model.Tsv Model.Metadata
  Gen.MetaPrelude Gen.MetadataGen.
Import ListNotations.

(* a cast metadata field (None or one dict per id) as the code stores it *)
Definition raw (o : option (list assoc)) : mdraw := option_map (map (@Some assoc)) o.
Definition raw_state (t : mtab) : tstate := mkS (m_oids t) (m_sids t) (raw (m_omd t)) (raw (m_smd t)).
Definition axis_text (a : axis) : text :=
  match a with Samp => txt "sample" | Obs => txt "observation" end.
Definition sel_text (s : axsel) : text :=
  match s with SelObs => txt "observation" | SelSamp => txt "sample" | SelWhole => txt "whole" end.
(* what every Table satisfies (errcheck): an axis with metadata has one entry per id *)
Definition mlen_ok (t : mtab) : Prop :=
  forall a l, m_mds a t = Some l -> length l = length (m_ids a t).

Lemma ax_of_axis_text a : ax_of (axis_text a) = ROk a.
Proof. destruct a; reflexivity. Qed.

Lemma index_of_lt {A} (eqb : A -> A -> bool) x l : forall i, index_of eqb x l = Some i -> (i < length l)%nat.
Proof.
  induction l as [|y l IH]; simpl; intros i H; [discriminate|].
  destruct (eqb x y).
  - inversion H; lia.
  - destruct (index_of eqb x l) as [j|]; simpl in H; [|discriminate].
    inversion H; subst. specialize (IH j eq_refl). lia.
Qed.

Lemma upd_map {A B} (f : A -> B) l i v : map f (upd l i v) = upd (map f l) i (f v).
Proof.
  unfold upd. rewrite map_app, firstn_map, skipn_map.
  destruct (skipn i l); reflexivity.
Qed.

Lemma nth_error_map_Some (l : list assoc) i : (i < length l)%nat ->
  nth_error (map (@Some assoc) l) i = Some (Some (nth i l [])).
Proof.
  revert i; induction l as [|x l IH]; simpl; intros i H; [lia|].
  destruct i; simpl; [reflexivity|]. apply IH; lia.
Qed.

Lemma cast_raw_raw o : cast_raw (raw o) = raw (cast_md o).
Proof.
  destruct o as [l|]; [|reflexivity]. cbn [raw option_map cast_raw cast_md].
  assert (E : forallb (fun e => negb (entry_truthy e)) (map (@Some assoc) l) = forallb is_nil l).
  { induction l as [|x l IH]; simpl; [reflexivity|]. rewrite IH, negb_involutive. reflexivity. }
  rewrite E. destruct (forallb is_nil l); [reflexivity|].
  cbn [option_map]. f_equal. rewrite map_map. reflexivity.
Qed.

Lemma cast_raw_opt l : cast_raw (Some l) = raw (cast_opt l).
Proof.
  cbn [cast_raw]. unfold cast_opt.
  assert (E : forallb (fun e => negb (entry_truthy e)) l = forallb opt_empty l).
  { induction l as [|x l IH]; simpl; [reflexivity|]. rewrite IH.
    destruct x as [d|]; simpl; [rewrite negb_involutive|]; reflexivity. }
  rewrite E. destruct (forallb opt_empty l); [reflexivity|].
  cbn [raw option_map]. f_equal. rewrite map_map. reflexivity.
Qed.

Lemma set_md_set_md a st x y : set_md a (set_md a st x) y = set_md a st y.
Proof. destruct a; reflexivity. Qed.
Lemma s_md_set_md a st x : s_md a (set_md a st x) = x.
Proof. destruct a; reflexivity. Qed.
Lemma s_ids_set_md a st x : s_ids a (set_md a st x) = s_ids a st.
Proof. destruct a; reflexivity. Qed.

(* ---- add_metadata: the loop over md.items() is the fold of add_step ---- *)
Lemma add_loop_bridge a m : forall st l,
  s_md a st = Some (map (@Some assoc) l) -> length l = length (s_ids a st) ->
  add_metadata_gen_loop1 (axis_text a) m st
  = ROk (set_md a st (Some (map (@Some assoc) (fold_left (add_step (s_ids a st)) m l)))).
Proof.
  induction m as [|[id e] m IH]; intros st l Hmd Hlen.
  - cbn [add_metadata_gen_loop1 fold_left]. rewrite <- Hmd. destruct a, st; reflexivity.
  - cbn [add_metadata_gen_loop1 fold_left].
    unfold tb_exists, tb_index. rewrite ax_of_axis_text. cbn [bind].
    unfold add_step at 2. cbn [fst snd].
    destruct (tpos id (s_ids a st)) as [i|] eqn:Ei.
    + cbn [bind].
      assert (Hi : (i < length l)%nat) by (rewrite Hlen; exact (index_of_lt _ _ _ _ Ei)).
      unfold tb_entry_update, tb_entry, tb_entry_put. rewrite ax_of_axis_text. cbn [bind].
      rewrite Hmd, (nth_error_map_Some _ _ Hi). cbn [bind].
      rewrite (IH _ (upd l i (aupdate (nth i l []) e))).
      * rewrite set_md_set_md, s_ids_set_md. reflexivity.
      * rewrite s_md_set_md, upd_map. reflexivity.
      * rewrite s_ids_set_md, upd_length. exact Hlen.
    + apply IH; assumption.
Qed.

Lemma lookup_map m ids :
  map (fun id => match mlookup id m with Some w => Some w | None => None end) ids
  = map (fun id => mlookup id m) ids.
Proof. apply map_ext. intros id. destruct (mlookup id m); reflexivity. Qed.

Theorem add_metadata_bridge t m a : mlen_ok t ->
  add_metadata_gen (raw_state t) m (axis_text a) = ROk (raw_state (add_metadata t m a)).
Proof.
  intros Hok. unfold add_metadata_gen, tb_metadata, tb_ids. rewrite ax_of_axis_text. cbn [bind].
  destruct (m_mds a t) as [l|] eqn:El.
  - assert (Hmd : s_md a (raw_state t) = Some (map (@Some assoc) l))
      by (destruct a; cbn [s_md raw_state s_omd s_smd m_mds] in *; rewrite El; reflexivity).
    rewrite Hmd. cbn [mdraw_is_none negb].
    rewrite (add_loop_bridge a m (raw_state t) l Hmd).
    2:{ rewrite (Hok a l El). destruct a; reflexivity. }
    cbn [bind]. unfold tb_cast_metadata.
    destruct a; cbn [m_mds] in El;
      cbn [set_md set_omd set_smd raw_state s_oids s_sids s_omd s_smd s_ids add_metadata add_axis];
      rewrite El; rewrite cast_raw_raw;
      change (Some (map (@Some assoc) ?x)) with (raw (Some x)); rewrite cast_raw_raw; reflexivity.
  - assert (Hmd : s_md a (raw_state t) = None)
      by (destruct a; cbn [s_md raw_state s_omd s_smd m_mds] in *; rewrite El; reflexivity).
    rewrite Hmd. cbn [mdraw_is_none negb bind].
    destruct a; cbn [m_mds] in El.
    + change (text_eqb (axis_text Obs) (txt "sample")) with false.
      change (text_eqb (axis_text Obs) (txt "observation")) with true. cbv iota.
      unfold tb_cast_metadata.
      cbn [set_omd raw_state s_oids s_sids s_omd s_smd s_ids add_metadata add_axis].
      rewrite El, lookup_map, cast_raw_opt, cast_raw_raw. reflexivity.
    + change (text_eqb (axis_text Samp) (txt "sample")) with true. cbv iota.
      unfold tb_cast_metadata.
      cbn [set_smd raw_state s_oids s_sids s_omd s_smd s_ids add_metadata add_axis].
      rewrite El, lookup_map, cast_raw_opt, cast_raw_raw. reflexivity.
Qed.

(* an axis name other than the two is UnknownAxisError, whatever the table *)
Theorem add_metadata_unknown_axis st m s :
  text_eqb s (txt "sample") = false -> text_eqb s (txt "observation") = false ->
  add_metadata_gen st m s = RErr E_UNKNOWN.
Proof.
  intros H1 H2. unfold add_metadata_gen, tb_metadata, ax_of. rewrite H1, H2. reflexivity.
Qed.
