(* Bridge between _summarize_table as tools/py2v_sum regenerates it from biom/cli/table_summarizer.py
   (Gen/SummaryReportGen.v) and the hand model r_report of Model/Summary.v. *)
From Coq Require Import List Arith ZArith Lia Bool.
From BiomV Require Import Base.Tree Base.ListUtil Base.Matrix Model.Table Model.Sparse Model.Summary
                          Gen.SumPrelude Gen.SumTablePrelude Gen.SumReportPrelude
                          Gen.SummaryGen Gen.SummaryTableGen Gen.SummaryReportGen
                          Proofs.SummaryProofs Proofs.GenBridgeSummaryProofs Proofs.GenBridgeSummaryTableProofs.
Import ListNotations.

Definition detail_line (kv : Z * Z) : rline := LDetail (fst kv) (FZ (snd kv)).

Lemma detail_loop (f : list rline -> Z * Z -> list rline) :
  (forall st k v, f st (k, v) = st ++ [LDetail k (FZ v)]) ->
  forall items lines, fold_left f items lines = lines ++ map detail_line items.
Proof.
  intros Hf. induction items as [|[k v] t IH]; intro lines; cbn [fold_left map].
  - rewrite app_nil_r. reflexivity.
  - rewrite Hf, IH, <- app_assoc. reflexivity.
Qed.

Lemma figures_details items : figures (map detail_line items) = [].
Proof. induction items as [|x t IH]; [reflexivity|]. cbn. exact IH. Qed.
Lemma titles_details items : titles (map detail_line items) = [].
Proof. induction items as [|x t IH]; [reflexivity|]. cbn. exact IH. Qed.
Lemma details_details items : details (map detail_line items) = items.
Proof. induction items as [|[k v] t IH]; [reflexivity|]. cbn. f_equal. exact IH. Qed.

Lemma keys_eq m : (if omd_is_none m then keys_none else entry_keys_of (md_first m)) = md_keys m.
Proof. destruct m as [[|e l]|]; reflexivity. Qed.

Lemma values_of_counts q t : wf_r t ->
  py_list (dict_values (combine (r_sids t) (r_sample_counts q t))) = r_sample_counts q t.
Proof.
  intros (_ & _ & D & _). unfold py_list, dict_values. apply values_combine.
  unfold r_sample_counts. rewrite map_length. apply samp_vectors_length. exact D.
Qed.

Theorem summarize_table_bridge : forall q o rt, wf_r rt ->
  figures (summarize_table rt q o) = fst (r_report q o rt) /\
  details (summarize_table rt q o) = snd (r_report q o rt) /\
  titles (summarize_table rt q o) = ([0; if q then (if o then 1 else 2) else 3; 0; if q then 4 else 5])%Z.
Proof.
  intros q o rt W.
  assert (Wt : wf_r (if o then rt_transpose rt else rt)) by (destruct o; [apply wf_rt_transpose|]; exact W).
  unfold summarize_table, r_report. cbv zeta. unfold tb_transpose.
  set (t := if o then rt_transpose rt else rt) in *.
  rewrite (counts_per_sample_stats_bridge_wf q t Wt). unfold r_stats, report_lines.
  destruct (stats (r_sample_counts q t)) as [[[mn mx] med] avg] eqn:E. cbv beta iota.
  rewrite (values_of_counts q t Wt), get_table_density_bridge.
  unfold tb_metadata. rewrite !keys_eq.
  rewrite (detail_loop _ (fun st k v => eq_refl)).
  unfold join_lines, figures, details, titles. rewrite !flat_map_app.
  fold (figures (map detail_line (sorted_by_value (dict_items (combine (r_sids t) (r_sample_counts q t)))))).
  fold (details (map detail_line (sorted_by_value (dict_items (combine (r_sids t) (r_sample_counts q t)))))).
  fold (titles (map detail_line (sorted_by_value (dict_items (combine (r_sids t) (r_sample_counts q t)))))).
  rewrite figures_details, details_details, titles_details, !app_nil_r.
  destruct q, o; cbn; repeat split; reflexivity.
Qed.
