(* proofs for C13: the transform kernel (K3), Table.transform at the content level, norm / pa /
   rankdata, element-wise axis independence *)
From Coq Require Import List Arith ZArith QArith Lia Bool Permutation.
From BiomV Require Import Base.Tree Base.ListUtil Base.Matrix Model.Table Model.Filter Model.Stored
  Model.Transform Proofs.FilterProofs Proofs.StoredProofs.
Import ListNotations.
Close Scope Q_scope.

(* ------------------------------------------------------------------ coherence, unconditionally
   (any layout, any outputs; used by C05) *)
Lemma scatter_all_shape {V} (zero : V) : forall vs lay (outs : list (list V)),
  Forall2 (fun (v : list Z) (v' : list V) => length v' = length v) vs (scatter_all zero vs lay outs).
Proof.
  induction vs as [|v vs IH]; intros lay outs; simpl; constructor; [apply scatter_length|apply IH].
Qed.

Lemma F2_len {A B} (R : A -> B -> Prop) l l' : Forall2 R l l' -> length l = length l'.
Proof. induction 1; simpl; congruence. Qed.

Lemma same_len_rect_gen {V} C (vs : list (list Z)) (vs1 : list (list V)) :
  Forall2 (fun (v : list Z) (v' : list V) => length v' = length v) vs vs1 -> rect C vs ->
  Forall (fun r => length r = C) vs1 /\ length vs1 = length vs.
Proof.
  intros H R. split; [|symmetry; eapply F2_len; exact H].
  unfold rect in *. induction H as [|v v' vs vs1 L _ IH]; [constructor|].
  inversion R; subst. constructor; [congruence|apply IH; assumption].
Qed.

Theorem transform_table_wf a lay outs t : wf t -> wf (transform_table a lay outs t).
Proof.
  intros W. unfold transform_table.
  destruct (same_len_rect_gen (n_other a t) _ _ (scatter_all_shape 0%Z (axis_vecs a t) lay outs) (axis_vecs_rect a t W))
    as [Rc Rl].
  rewrite (axis_vecs_length a t W) in Rl. apply wf_with_axis_vecs; assumption.
Qed.

Theorem transform_wf a inplace lay outs t t' :
  wf t -> snd (transform a inplace lay outs t) = ROk t' -> wf t' /\ wf (fst (transform a inplace lay outs t)).
Proof.
  intros W. unfold transform. destruct (outs_fit a lay outs t); simpl; [|discriminate].
  intros H. inversion H; subst. split; [apply transform_table_wf; exact W|].
  destruct inplace; [apply transform_table_wf|]; exact W.
Qed.

Theorem transform_with_wf f a inplace lay t t' :
  wf t -> snd (transform_with f a inplace lay t) = ROk t' -> wf t' /\ wf (fst (transform_with f a inplace lay t)).
Proof. apply transform_wf. Qed.

Theorem pa_wf one inplace lay t t' :
  wf t -> snd (pa one inplace lay t) = ROk t' -> wf t' /\ wf (fst (pa one inplace lay t)).
Proof. apply transform_wf. Qed.

Theorem rank_wf rk a inplace lay t t' :
  wf t -> snd (rankdata rk a inplace lay t) = ROk t' -> wf t' /\ wf (fst (rankdata rk a inplace lay t)).
Proof. apply transform_wf. Qed.

(* norm leaves ids / metadata / type alone and its rational matrix has the table's shape *)
Lemma ptranspose_shape {V} (zero : V) c (m : list (list V)) :
  length (ptranspose zero c m) = c /\ Forall (fun r => length r = length m) (ptranspose zero c m).
Proof.
  unfold ptranspose. split; [rewrite map_length, seq_length; reflexivity|].
  apply Forall_forall. intros r Hr. apply in_map_iff in Hr. destruct Hr as [j [<- _]]. apply map_length.
Qed.

Theorem norm_wf a lay t : wf t ->
  length (norm_mat a lay t) = nobs t /\ Forall (fun r => length r = nsamp t) (norm_mat a lay t).
Proof.
  intros W. unfold norm_mat, norm_vecs.
  destruct (same_len_rect_gen (n_other a t) _ _
              (scatter_all_shape 0%Q (axis_vecs a t) lay
                 (map (fun c : call => norm_fn (fst (fst c))) (transform_calls a lay t)))
              (axis_vecs_rect a t W)) as [Rc Rl].
  rewrite (axis_vecs_length a t W) in Rl.
  destruct a; unfold mat_of_vecs, n_other in *; simpl in *.
  - split; assumption.
  - destruct (ptranspose_shape 0%Q (length (oids t)) (scatter_all 0%Q (transpose (nsamp t) (mat t)) lay
        (map (fun c : call => norm_fn (fst (fst c))) (transform_calls Samp lay t)))) as [A B].
    split; [exact A|]. rewrite Rl in B. exact B.
Qed.

(* ------------------------------------------------------------------ K3: the kernel on its arrays *)
Lemma mono_tail x l : mono (x :: l) -> mono l.
Proof. destruct l as [|y l]; simpl; [trivial|tauto]. Qed.

Lemma mono_step l : mono l -> forall i, S i < length l -> nth i l 0 <= nth (S i) l 0.
Proof.
  induction l as [|x l IH]; intros M i Hi; simpl in Hi; [lia|].
  destruct l as [|y l]; [simpl in Hi; lia|]. destruct M as [Hxy M].
  destruct i as [|i]; [exact Hxy|]. apply (IH M i). simpl in *. lia.
Qed.

Lemma mono_nth l : mono l -> forall i j, i <= j -> j < length l -> nth i l 0 <= nth j l 0.
Proof.
  intros M i j Hij. induction Hij as [|j Hij IH]; intros Hj; [lia|].
  pose proof (mono_step l M j Hj). specialize (IH ltac:(lia)). lia.
Qed.

Lemma skipn_app_exact {A} (a b : list A) k : length a = k -> skipn k (a ++ b) = b.
Proof. intros <-. rewrite skipn_app, skipn_all, Nat.sub_diag. reflexivity. Qed.

Lemma firstn_app_exact {A} (a b : list A) k : length a = k -> firstn k (a ++ b) = a.
Proof. intros <-. rewrite firstn_app, firstn_all, Nat.sub_diag. simpl. apply app_nil_r. Qed.

Lemma skipn_app_ge {A} (a b : list A) e : length a <= e -> skipn e (a ++ b) = skipn (e - length a) b.
Proof. intros H. rewrite skipn_app. rewrite skipn_all2 by exact H. reflexivity. Qed.

Lemma skipn_skipn' {A} (l : list A) x y : skipn x (skipn y l) = skipn (y + x) l.
Proof.
  revert l. induction y as [|y IH]; intros l; simpl; [reflexivity|]. destruct l as [|z l]; [destruct x; reflexivity|]. apply IH.
Qed.

Section K3.
  Variable n : nat.
  Variable indptr : list nat.
  Variable ids : list Z.
  Variable md : option (list Tree).
  Variable outs : list (list Z).
  Variable data : list Z.
  Hypothesis HP : ptr_wf n indptr (length data).
  Hypothesis HO : outs_fit_ptr n indptr outs.

  Let p (i : nat) := nth i indptr 0.
  Let the_call (i : nat) : call := (slice data (p i) (p (S i)), nth i ids 0%Z, kernel_md md i).
  Let the_out (i : nat) : list Z := nth i outs [].

  Lemma p_mono i j : i <= j -> j <= n -> p i <= p j.
  Proof. destruct HP as (L & _ & M & _). intros Hij Hj. unfold p. apply mono_nth; [exact M|exact Hij|lia]. Qed.

  Lemma p_last : p n = length data.
  Proof. destruct HP as (_ & _ & _ & E). exact E. Qed.

  Lemma p_first : p 0 = 0.
  Proof. destruct HP as (_ & E & _). exact E. Qed.

  Lemma concat_outs_length k : k <= n -> length (concat (map the_out (seq 0 k))) = p k.
  Proof.
    induction k as [|k IH]; intros Hk; [simpl; symmetry; exact p_first|].
    rewrite seq_S, map_app, concat_app, app_length, IH by lia. simpl. rewrite app_nil_r.
    unfold the_out. rewrite (HO k) by lia. fold (p k) (p (S k)). pose proof (p_mono k (S k)). lia.
  Qed.

  Lemma kernel_inv k : k <= n ->
    fold_left (kernel_body indptr ids md outs) (seq 0 k) (data, []) =
    (concat (map the_out (seq 0 k)) ++ skipn (p k) data, map the_call (seq 0 k)).
  Proof.
    induction k as [|k IH]; intros Hk.
    - simpl. rewrite p_first. reflexivity.
    - rewrite seq_S, fold_left_app, IH by lia. simpl fold_left. unfold kernel_body.
      fold (p k) (p (S k)).
      pose proof (concat_outs_length k ltac:(lia)) as LA. pose proof (p_mono k (S k) ltac:(lia) Hk) as Hm.
      set (A := concat (map the_out (seq 0 k))) in *.
      f_equal.
      + unfold splice. rewrite (firstn_app_exact A _ (p k) LA).
        rewrite (skipn_app_ge A _ (p (S k))) by lia. rewrite LA, skipn_skipn'.
        replace (p k + (p (S k) - p k)) with (p (S k)) by lia.
        rewrite map_app, concat_app. simpl. rewrite app_nil_r. fold (the_out k). rewrite <- app_assoc. reflexivity.
      + rewrite map_app. simpl. f_equal. unfold the_call, slice. rewrite (skipn_app_exact A _ (p k) LA). reflexivity.
  Qed.

  (* the user function is called once per vector, in order, with the stored values of that vector
     as they were BEFORE the call, its id and its metadata entry; afterwards the value array is the
     concatenation of what it returned; indptr and indices are untouched *)
  Theorem kernel_spec (indices : list nat) :
    let r := mkA indptr indices data in
    snd (kernel_arr n ids md outs r) = map the_call (seq 0 n) /\
    a_data (fst (kernel_arr n ids md outs r)) = concat (map the_out (seq 0 n)) /\
    length (a_data (fst (kernel_arr n ids md outs r))) = length data /\
    a_indptr (fst (kernel_arr n ids md outs r)) = indptr /\ a_indices (fst (kernel_arr n ids md outs r)) = indices.
  Proof.
    unfold kernel_arr, kernel. simpl. rewrite (kernel_inv n (le_n n)). simpl.
    rewrite p_last, skipn_all, app_nil_r.
    repeat split; try reflexivity. rewrite (concat_outs_length n (le_n n)). exact p_last.
  Qed.
  (* after the kernel, the slice of vector i is exactly what the function returned for it *)
  Lemma slice_after i : i < n ->
    slice (concat (map the_out (seq 0 n))) (p i) (p (S i)) = the_out i.
  Proof.
    intros Hi. replace n with (i + (1 + (n - S i))) at 1 by lia. rewrite !seq_app, !map_app, !concat_app. simpl.
    rewrite app_nil_r. pose proof (concat_outs_length i ltac:(lia)) as LA. pose proof (p_mono i (S i) ltac:(lia) ltac:(lia)).
    unfold slice. rewrite skipn_app, skipn_all2 by lia. rewrite LA, Nat.sub_diag. simpl skipn. simpl app.
    rewrite firstn_app_exact; [reflexivity|]. unfold the_out. rewrite (HO i Hi). reflexivity.
  Qed.

  (* The content-level model is the denotation of the kernel-level model.  With
       lay_i = indices[indptr[i]:indptr[i+1]]  and  denote i = the dense vector stored in segment i,
     the function receives  gather lay_i (denote i)  and afterwards segment i denotes
     scatter lay_i (what the function returned): exactly Table.transform's content-level definition. *)
  Theorem kernel_denotes (indices : list nat) (minor : nat) :
    let lay i := slice indices (p i) (p (S i)) in
    let denote (d : list Z) i := scatter 0%Z minor (lay i) (slice d (p i) (p (S i))) in
    forall i, i < n -> NoDup (lay i) -> (forall j, In j (lay i) -> j < minor) -> length indices = length data ->
      fst (fst (nth i (snd (kernel n indptr ids md outs data)) ([], 0%Z, None))) = gather 0%Z (lay i) (denote data i) /\
      denote (fst (kernel n indptr ids md outs data)) i = scatter 0%Z minor (lay i) (the_out i).
  Proof.
    intros lay denote i Hi Hn Hb Hlen.
    pose proof (kernel_spec indices) as (C & D & _). unfold kernel_arr in C, D. simpl in C, D.
    split.
    - rewrite C. rewrite (nth_map_seq the_call n i _ Hi). unfold the_call. cbn [fst].
      unfold denote. symmetry. apply gather_scatter; [exact Hn|exact Hb|].
      unfold lay, slice. rewrite !firstn_length, !skipn_length, Hlen. reflexivity.
    - unfold denote. rewrite D, (slice_after i Hi). reflexivity.
  Qed.
End K3.

(* ------------------------------------------------------------------ Table.transform at the content level *)
Lemma nth_scatter_all {V} (zero : V) : forall vs lay (outs : list (list V)) i, i < length vs ->
  nth i (scatter_all zero vs lay outs) [] = scatter zero (length (nth i vs [])) (nth i lay []) (nth i outs []).
Proof.
  induction vs as [|v vs IH]; intros lay outs i Hi; simpl in Hi; [lia|].
  destruct i as [|i]; simpl.
  - destruct lay, outs; reflexivity.
  - rewrite IH by lia. destruct lay, outs; simpl; try reflexivity; destruct i; reflexivity.
Qed.

Lemma scatter_all_length {V} (zero : V) vs lay (outs : list (list V)) : length (scatter_all zero vs lay outs) = length vs.
Proof. revert lay outs. induction vs as [|v vs IH]; intros; simpl; [reflexivity|]. rewrite IH. reflexivity. Qed.

Lemma transform_table_vecs a lay outs t : wf t ->
  axis_vecs a (transform_table a lay outs t) = scatter_all 0%Z (axis_vecs a t) lay outs.
Proof.
  intros W. unfold transform_table.
  destruct (same_len_rect_gen (n_other a t) _ _ (scatter_all_shape 0%Z (axis_vecs a t) lay outs) (axis_vecs_rect a t W))
    as [Rc Rl].
  rewrite (axis_vecs_length a t W) in Rl. apply axis_vecs_with; assumption.
Qed.

Lemma vec_nth_axis_vecs a t i : wf t -> i < length (ids a t) -> vec a t i = nth i (axis_vecs a t) [].
Proof.
  intros W Hi. rewrite (axis_vecs_vec a t W).
  rewrite (nth_map_seq (vec a t) (length (ids a t)) i [] Hi). reflexivity.
Qed.

Lemma ids_transform_table b a lay outs t : ids b (transform_table a lay outs t) = ids b t.
Proof. destruct b; reflexivity. Qed.

(* the vector at position i after the transform: the outputs scattered to the stored positions *)
Lemma transform_table_vec a lay outs t i : wf t -> i < length (ids a t) ->
  vec a (transform_table a lay outs t) i = scatter 0%Z (length (vec a t i)) (nth i lay []) (nth i outs []).
Proof.
  intros W Hi. rewrite (vec_nth_axis_vecs a _ i (transform_table_wf a lay outs t W)) by (rewrite ids_transform_table; exact Hi).
  rewrite (transform_table_vecs a lay outs t W).
  rewrite nth_scatter_all by (rewrite (axis_vecs_length a t W); exact Hi).
  rewrite <- (vec_nth_axis_vecs a t i W Hi). reflexivity.
Qed.

Lemma Forall2_nth_lay (R : list Z -> list nat -> Prop) vs lay i :
  Forall2 R vs lay -> i < length vs -> R (nth i vs []) (nth i lay []).
Proof.
  intros H. revert i. induction H as [|v o vs lay Hvo _ IH]; intros i Hi; simpl in Hi; [lia|].
  destruct i as [|i]; [exact Hvo|]. apply IH. lia.
Qed.

(* zero cells: untouched as long as no zero is stored *)
Lemma scatter_all_zero_stays vs lay outs : lay_ok vs lay ->
  forall i j, get vs i j = 0%Z -> get (scatter_all 0%Z vs lay outs) i j = 0%Z.
Proof.
  intros H i j Hz. unfold get in *. destruct (Nat.lt_ge_cases i (length vs)) as [Hi|Hi].
  - rewrite nth_scatter_all by exact Hi. apply nth_scatter_absent.
    destruct (Forall2_nth_lay ord_ok vs lay i H Hi) as [_ Hnz]. intros Hin. apply (Hnz j Hin). exact Hz.
  - rewrite (nth_overflow (scatter_all _ _ _ _)) by (rewrite scatter_all_length; exact Hi). destruct j; reflexivity.
Qed.

Lemma count_nz_mono : forall r r' : list Z, length r' = length r ->
  (forall j, j < length r -> nth j r 0%Z = 0%Z -> nth j r' 0%Z = 0%Z) -> count_nz r' <= count_nz r.
Proof.
  unfold count_nz. induction r as [|x r IH]; intros [|y r'] L H; simpl in *; try discriminate; [lia|].
  assert (IH' : length (filter (fun v => negb (v =? 0)%Z) r') <= length (filter (fun v => negb (v =? 0)%Z) r)).
  { apply IH; [lia|]. intros j Hj Hz. apply (H (S j)); [lia|exact Hz]. }
  destruct (Z.eqb_spec x 0) as [->|Hx]; simpl.
  - rewrite (H 0); [simpl; exact IH'|lia|reflexivity].
  - destruct (y =? 0)%Z; simpl; lia.
Qed.

Lemma nnz_mono c : forall M M' : matrix, length M' = length M -> rect c M -> rect c M' ->
  (forall i j, i < length M -> j < c -> get M i j = 0%Z -> get M' i j = 0%Z) -> nnz M' <= nnz M.
Proof.
  unfold nnz. induction M as [|r M IH]; intros [|r' M'] L R R' H; simpl in *; try discriminate; [lia|].
  inversion R; subst. inversion R'; subst.
  assert (count_nz r' <= count_nz r).
  { apply count_nz_mono; [congruence|]. intros j Hj Hz. apply (H 0 j); [lia|exact Hj|exact Hz]. }
  assert (nsum (map count_nz M') <= nsum (map count_nz M)).
  { apply IH; try assumption; [lia|]. intros i j Hi Hj Hz. apply (H (S i) j); [lia|exact Hj|exact Hz]. }
  lia.
Qed.

Lemma aget_zero_stays a vs lay outs : lay_ok vs lay ->
  forall i j, aget a vs i j = 0%Z -> aget a (scatter_all 0%Z vs lay outs) i j = 0%Z.
Proof. intros H i j. destruct a; simpl; apply scatter_all_zero_stays; exact H. Qed.

Theorem transform_cells_spec a lay outs t :
  wf t -> lay_ok (axis_vecs a t) lay ->
  let t' := transform_table a lay outs t in
  (forall o s, cell t o s = Some 0%Z -> cell t' o s = Some 0%Z) /\
  nnz (mat t') <= nnz (mat t) /\
  (forall i k, i < length (ids a t) -> k < length (nth i lay []) ->
     nth (nth k (nth i lay []) 0) (vec a t' i) 0%Z = nth k (nth i outs []) 0%Z).
Proof.
  intros W HL t'. split; [|split].
  - intros o s Hc. unfold t', transform_table. rewrite cell_with_axis_vecs. rewrite (cell_axis_vecs a t o s W) in Hc.
    destruct (pos o (oids t)) as [i|]; [|discriminate]. destruct (pos s (sids t)) as [j|]; [|discriminate].
    injection Hc as Hc. f_equal. apply aget_zero_stays; assumption.
  - pose proof (transform_table_wf a lay outs t W) as W'. fold t' in W'.
    destruct W as (H1 & H2 & _). destruct W' as (H1' & H2' & _).
    apply (nnz_mono (nsamp t)).
    + unfold nobs in *. rewrite H1', H1. destruct a; reflexivity.
    + exact H2.
    + replace (nsamp t) with (nsamp t') by (destruct a; reflexivity). exact H2'.
    + intros i j Hi Hj Hz. unfold t', transform_table. rewrite get_with_axis_vecs by (unfold nobs in *; lia).
      rewrite (get_axis_vecs a t i j Hj) in Hz. apply aget_zero_stays; assumption.
  - intros i k Hi Hk. unfold t'. rewrite (transform_table_vec a lay outs t i W Hi).
    assert (Hv : i < length (axis_vecs a t)) by (rewrite (axis_vecs_length a t W); exact Hi).
    destruct (Forall2_nth_lay ord_ok _ lay i HL Hv) as [(Hn & Hb & _) _].
    rewrite <- (vec_nth_axis_vecs a t i W Hi) in Hb.
    apply nth_scatter_stored; [exact Hn|exact Hk|]. apply Hb. apply nth_In. exact Hk.
Qed.

(* ... and with an explicitly stored zero the user function reaches a zero cell: x + 1 makes it 1 *)
Lemma stored_zero_breaks : exists a lay outs t,
  wf t /\ lay_wf (axis_vecs a t) lay /\ outs_fit a lay outs t = true /\
  cell t 1%Z 20%Z = Some 0%Z /\ cell (transform_table a lay outs t) 1%Z 20%Z = Some 1%Z /\
  nnz (mat t) < nnz (mat (transform_table a lay outs t)).
Proof.
  exists Obs, [[0;1]], [[2;1]]%Z, (mkT [1]%Z [10;20]%Z [[1;0]]%Z None None 0%Z).
  split; [apply wfb_wf; vm_compute; reflexivity|].
  split; [apply lay_wfb_wf; vm_compute; reflexivity|].
  vm_compute. repeat split; try reflexivity; try lia.
Qed.

(* ------------------------------------------------------------------ fixed functions *)
Lemma transform_calls_length a lay t : length (transform_calls a lay t) = length (ids a t).
Proof. unfold transform_calls. rewrite map_length, seq_length. reflexivity. Qed.

Lemma nth_apply_fn f a lay t i : i < length (ids a t) ->
  nth i (apply_fn f (transform_calls a lay t)) [] = f (gather 0%Z (nth i lay []) (vec a t i)).
Proof.
  intros Hi. unfold apply_fn, transform_calls. rewrite map_map.
  rewrite (nth_map_seq (fun x => f (fst (fst (gather 0%Z (nth x lay []) (vec a t x), nth x (ids a t) 0%Z, md_at a t x))))
             (length (ids a t)) i [] Hi).
  reflexivity.
Qed.

(* a length-preserving function is never refused *)
Lemma outs_fit_apply_fn f a lay t : (forall l, length (f l) = length l) ->
  outs_fit a lay (apply_fn f (transform_calls a lay t)) t = true.
Proof.
  intros Hf. unfold outs_fit. apply forallb_forall. intros i Hi. apply in_seq in Hi.
  rewrite nth_apply_fn by lia. rewrite Hf, gather_length. apply Nat.eqb_refl.
Qed.

Lemma transform_with_ok f a inplace lay t : (forall l, length (f l) = length l) ->
  transform_with f a inplace lay t =
  (if inplace then transform_table a lay (apply_fn f (transform_calls a lay t)) t else t,
   ROk (transform_table a lay (apply_fn f (transform_calls a lay t)) t)).
Proof. intros Hf. unfold transform_with, transform. rewrite outs_fit_apply_fn by exact Hf. reflexivity. Qed.

Lemma transform_with_vec f a lay t i : wf t -> i < length (ids a t) ->
  vec a (transform_table a lay (apply_fn f (transform_calls a lay t)) t) i
  = scatter 0%Z (length (vec a t i)) (nth i lay []) (f (gather 0%Z (nth i lay []) (vec a t i))).
Proof. intros W Hi. rewrite transform_table_vec by assumption. rewrite nth_apply_fn by exact Hi. reflexivity. Qed.

(* an element-wise function through one vector: zeros untouched, g elsewhere *)
Lemma guard_0 g : guard g 0%Z = 0%Z.
Proof. reflexivity. Qed.

Lemma scatter_elementwise g v ord :
  ord_wf v ord -> (ord_ok v ord \/ g 0%Z = 0%Z) ->
  scatter 0%Z (length v) ord (map g (gather 0%Z ord v)) = map (guard g) v.
Proof.
  intros W Hg. pose proof W as (Hn & Hb & Hs). apply (list_ext 0%Z).
  - rewrite scatter_length, map_length. reflexivity.
  - intros j Hj. rewrite scatter_length in Hj. rewrite nth_scatter by exact Hj.
    rewrite (nth_map_in (guard g) v j 0%Z 0%Z Hj). unfold guard.
    destruct (nfind j ord) as [k|] eqn:E.
    + apply nfind_Some in E. destruct E as [E Hk].
      rewrite (nth_map_in g (gather 0%Z ord v) k 0%Z 0%Z) by (rewrite gather_length; exact Hk).
      unfold gather. rewrite (nth_map_in _ ord k 0 0%Z Hk). rewrite E.
      destruct (Z.eqb_spec (nth j v 0%Z) 0) as [Z0|NZ]; [|reflexivity].
      destruct Hg as [[_ Hok]|Hg0].
      * exfalso. apply (Hok j); [rewrite <- E; apply nth_In; exact Hk|exact Z0].
      * rewrite Z0. exact Hg0.
    + apply nfind_None in E. destruct (Z.eqb_spec (nth j v 0%Z) 0) as [Z0|NZ]; [reflexivity|].
      exfalso. apply E. apply Hs; assumption.
Qed.

Lemma mcol_map_map h (N : matrix) i : h 0%Z = 0%Z -> mcol (map (map h) N) i = map h (mcol N i).
Proof.
  intros H0. unfold mcol. rewrite !map_map. apply map_ext. intros r.
  destruct (Nat.lt_ge_cases i (length r)) as [Hi|Hi].
  - apply (nth_map_in h r i 0%Z 0%Z Hi).
  - rewrite !nth_overflow by (rewrite ?map_length; exact Hi). symmetry. exact H0.
Qed.

Lemma transpose_map_map h c (N : matrix) : h 0%Z = 0%Z -> transpose c (map (map h) N) = map (map h) (transpose c N).
Proof. intros H0. unfold transpose. rewrite map_map. apply map_ext. intros i. apply mcol_map_map. exact H0. Qed.

(* the whole table: every cell x becomes  guard g x  (0 stays 0, g x elsewhere), whichever axis
   the function is applied along and whatever the stored layout *)
Theorem transform_elementwise a lay g t :
  wf t -> lay_wf (axis_vecs a t) lay -> (lay_ok (axis_vecs a t) lay \/ g 0%Z = 0%Z) ->
  mat (transform_table a lay (apply_fn (elementwise g) (transform_calls a lay t)) t) = map (map (guard g)) (mat t).
Proof.
  intros W HL Hg.
  assert (E : scatter_all 0%Z (axis_vecs a t) lay (apply_fn (elementwise g) (transform_calls a lay t))
              = map (map (guard g)) (axis_vecs a t)).
  { apply (list_ext []).
    - rewrite scatter_all_length, map_length. reflexivity.
    - intros i Hi. rewrite scatter_all_length in Hi. rewrite nth_scatter_all by exact Hi.
      assert (Hi' : i < length (ids a t)) by (rewrite <- (axis_vecs_length a t W); exact Hi).
      rewrite nth_apply_fn by exact Hi'. rewrite (vec_nth_axis_vecs a t i W Hi').
      rewrite (nth_map_in (map (guard g)) (axis_vecs a t) i [] [] Hi).
      apply scatter_elementwise; [apply (Forall2_nth_lay ord_wf _ lay i HL Hi)|].
      destruct Hg as [Hok|H0]; [left; apply (Forall2_nth_lay ord_ok _ lay i Hok Hi)|right; exact H0]. }
  unfold transform_table, with_axis_vecs. simpl mat. rewrite E.
  destruct a; unfold mat_of_vecs, n_other; simpl; [reflexivity|].
  change (ptranspose 0%Z (length (oids t)) (map (map (guard g)) (transpose (nsamp t) (mat t))))
    with (transpose (length (oids t)) (map (map (guard g)) (transpose (nsamp t) (mat t)))).
  rewrite transpose_map_map by apply guard_0. destruct W as (H1 & H2 & _). unfold nobs in H1. rewrite <- H1.
  rewrite (transpose_involutive (nsamp t) (mat t) H2). reflexivity.
Qed.

Corollary elementwise_axis_indep_gen g lay1 lay2 t :
  wf t -> lay_ok (axis_vecs Obs t) lay1 -> lay_ok (axis_vecs Samp t) lay2 ->
  mat (transform_table Obs lay1 (apply_fn (elementwise g) (transform_calls Obs lay1 t)) t)
  = mat (transform_table Samp lay2 (apply_fn (elementwise g) (transform_calls Samp lay2 t)) t).
Proof.
  intros W H1 H2. rewrite !transform_elementwise; try assumption; try (left; assumption); try reflexivity;
    apply lay_ok_wf; assumption.
Qed.

(* pa: 1 exactly where the table is non-zero, for EVERY layout (the function guards zeros itself) *)
Lemma pa_fn_elementwise one : pa_fn one = elementwise (fun x => if Z.eqb x 0 then 0%Z else one).
Proof. reflexivity. Qed.

Theorem pa_table_spec one inplace lay t :
  wf t -> lay_wf (axis_vecs Samp t) lay ->
  exists t', pa one inplace lay t = (if inplace then t' else t, ROk t') /\
    mat t' = map (map (fun x => if Z.eqb x 0 then 0%Z else one)) (mat t) /\
    oids t' = oids t /\ sids t' = sids t /\ omd t' = omd t /\ smd t' = smd t /\ ttype t' = ttype t.
Proof.
  intros W HL. eexists. split.
  - unfold pa. apply transform_with_ok. intros l. apply map_length.
  - split; [|repeat split; reflexivity].
    rewrite pa_fn_elementwise. rewrite transform_elementwise; [|exact W|exact HL|right; reflexivity].
    apply map_ext. intros r. apply map_ext. intros x. unfold guard. destruct (x =? 0)%Z; reflexivity.
Qed.

(* ------------------------------------------------------------------ rankdata *)
Lemma NoDup_filter_gen {A} (f : A -> bool) l : NoDup l -> NoDup (filter f l).
Proof.
  induction 1 as [|x l Hx _ IH]; simpl; [constructor|]. destruct (f x); [|exact IH].
  constructor; [|exact IH]. intros H. apply filter_In in H. tauto.
Qed.

Lemma filter_map_comm {A B} (P : B -> bool) (f : A -> B) l : filter P (map f l) = map f (filter (fun x => P (f x)) l).
Proof. induction l as [|x l IH]; simpl; [reflexivity|]. destruct (P (f x)); simpl; rewrite IH; reflexivity. Qed.

Lemma canon_ord_length v : length (canon_ord v) = count_nz v.
Proof.
  unfold canon_ord, count_nz.
  transitivity (length (filter (fun x => negb (x =? 0)%Z) (map (fun i => nth i v 0%Z) (seq 0 (length v))))).
  - rewrite filter_map_comm, map_length. reflexivity.
  - rewrite map_nth_seq. reflexivity.
Qed.

Lemma ord_ok_count v ord : ord_ok v ord -> length ord = count_nz v.
Proof.
  intros ((Hn & Hb & Hs) & Hnz). rewrite <- canon_ord_length. apply Permutation_length.
  apply NoDup_Permutation; [exact Hn|apply NoDup_filter_gen; apply seq_NoDup|].
  intros j. unfold canon_ord. rewrite filter_In, in_seq, negb_true_iff, Z.eqb_neq. split.
  - intros H. split; [split; [lia|apply Hb; exact H]|apply Hnz; exact H].
  - intros [[_ H1] H2]. apply Hs; assumption.
Qed.

Section Rank.
  Variable rk : list Z -> list Z.                        (* scipy.stats.rankdata(., method) *)
  Hypothesis rk_len : forall l, length (rk l) = length l.

  Theorem rank_table_spec a inplace lay t :
    wf t -> lay_ok (axis_vecs a t) lay ->
    exists t', rankdata rk a inplace lay t = (if inplace then t' else t, ROk t') /\
      forall i, i < length (ids a t) ->
        length (nth i lay []) = count_nz (vec a t i) /\
        Forall (fun x => x <> 0%Z) (gather 0%Z (nth i lay []) (vec a t i)) /\
        (forall k, k < length (nth i lay []) ->
           nth (nth k (nth i lay []) 0) (vec a t i) 0%Z <> 0%Z /\
           nth (nth k (nth i lay []) 0) (vec a t' i) 0%Z = nth k (rk (gather 0%Z (nth i lay []) (vec a t i))) 0%Z) /\
        (forall j, nth j (vec a t i) 0%Z = 0%Z -> nth j (vec a t' i) 0%Z = 0%Z).
  Proof.
    intros W HL. eexists. split; [unfold rankdata; apply transform_with_ok; exact rk_len|].
    intros i Hi.
    assert (Hv : i < length (axis_vecs a t)) by (rewrite (axis_vecs_length a t W); exact Hi).
    pose proof (Forall2_nth_lay ord_ok _ lay i HL Hv) as Hok. rewrite <- (vec_nth_axis_vecs a t i W Hi) in Hok.
    pose proof Hok as ((Hn & Hb & Hs) & Hnz).
    split; [apply ord_ok_count; exact Hok|]. split; [|split].
    - unfold gather. apply Forall_forall. intros x Hx. apply in_map_iff in Hx. destruct Hx as [j [<- Hj]]. apply Hnz. exact Hj.
    - intros k Hk. split; [apply Hnz; apply nth_In; exact Hk|].
      rewrite transform_with_vec by assumption. apply nth_scatter_stored; [exact Hn|exact Hk|].
      apply Hb. apply nth_In. exact Hk.
    - intros j Hz. rewrite transform_with_vec by assumption. apply nth_scatter_absent. intros Hin. apply (Hnz j Hin Hz).
  Qed.
End Rank.

(* ------------------------------------------------------------------ norm *)
Open Scope Q_scope.
Lemma Qmake_plus x y p : (x # p) + (y # p) == (x + y # p).
Proof. unfold Qeq, Qplus. simpl. rewrite Pos2Z.inj_mul. ring. Qed.

Lemma qsum_scaled l p : qsum (map (fun x => x # p) l) == (zsum l # p).
Proof.
  induction l as [|x l IH]; simpl.
  - unfold Qeq. simpl. reflexivity.
  - rewrite IH. apply Qmake_plus.
Qed.

Lemma qsum_pointwise : forall a b : list Q, length a = length b ->
  (forall j, nth j a 0 == nth j b 0) -> qsum a == qsum b.
Proof.
  induction a as [|x a IH]; intros [|y b] L H; simpl in *; try discriminate; [reflexivity|].
  rewrite (H 0%nat). rewrite (IH b); [reflexivity|lia|]. intros j. apply (H (S j)).
Qed.

Lemma Qmake_self s : (0 < s)%Z -> (s # Z.to_pos s) == 1.
Proof. intros H. unfold Qeq. simpl. rewrite Z2Pos.id by exact H. ring. Qed.
Close Scope Q_scope.

Lemma norm_vec_nth v ord j : ord_wf v ord ->
  Qeq (nth j (scatter 0%Q (length v) ord (norm_fn (gather 0%Z ord v))) 0%Q) (Qmake (nth j v 0%Z) (Z.to_pos (zsum v))).
Proof.
  intros W. pose proof W as (Hn & Hb & Hs). destruct (Nat.lt_ge_cases j (length v)) as [Hj|Hj].
  - rewrite nth_scatter by exact Hj. destruct (nfind j ord) as [k|] eqn:E.
    + apply nfind_Some in E. destruct E as [E Hk]. unfold norm_fn.
      rewrite (nth_map_in _ (gather 0%Z ord v) k 0%Z 0%Q) by (rewrite gather_length; exact Hk).
      rewrite (zsum_gather v ord W). unfold gather. rewrite (nth_map_in _ ord k 0 0%Z Hk). rewrite E. reflexivity.
    + apply nfind_None in E. destruct (Z.eq_dec (nth j v 0%Z) 0) as [Z0|NZ].
      * rewrite Z0. unfold Qeq. simpl. reflexivity.
      * exfalso. apply E. apply Hs; assumption.
  - rewrite nth_overflow by (rewrite scatter_length; exact Hj). rewrite (nth_overflow v) by exact Hj.
    unfold Qeq. simpl. reflexivity.
Qed.

Lemma norm_vecs_nth a lay t i : wf t -> i < length (ids a t) ->
  nth i (norm_vecs a lay t) [] = scatter 0%Q (length (vec a t i)) (nth i lay []) (norm_fn (gather 0%Z (nth i lay []) (vec a t i))).
Proof.
  intros W Hi. unfold norm_vecs.
  rewrite nth_scatter_all by (rewrite (axis_vecs_length a t W); exact Hi).
  rewrite <- (vec_nth_axis_vecs a t i W Hi). f_equal.
  unfold transform_calls. rewrite map_map.
  rewrite (nth_map_seq (fun x => norm_fn (fst (fst (gather 0%Z (nth x lay []) (vec a t x), nth x (ids a t) 0%Z, md_at a t x))))
             (length (ids a t)) i [] Hi).
  reflexivity.
Qed.

(* every vector: entry j is x_j / total (so proportions are preserved and zeros stay zero);
   a vector with a positive total sums to 1 *)
Theorem norm_vecs_spec a lay t :
  wf t -> lay_wf (axis_vecs a t) lay ->
  forall i, i < length (ids a t) ->
    length (nth i (norm_vecs a lay t) []) = length (vec a t i) /\
    (forall j, Qeq (nth j (nth i (norm_vecs a lay t) []) 0%Q) (Qmake (nth j (vec a t i) 0%Z) (Z.to_pos (zsum (vec a t i))))) /\
    ((0 < zsum (vec a t i))%Z -> Qeq (qsum (nth i (norm_vecs a lay t) [])) 1%Q) /\
    (forall j k, Qeq (Qmult (nth j (nth i (norm_vecs a lay t) []) 0%Q) (inject_Z (nth k (vec a t i) 0%Z)))
                     (Qmult (nth k (nth i (norm_vecs a lay t) []) 0%Q) (inject_Z (nth j (vec a t i) 0%Z)))).
Proof.
  intros W HL i Hi. rewrite (norm_vecs_nth a lay t i W Hi).
  assert (Hv : i < length (axis_vecs a t)) by (rewrite (axis_vecs_length a t W); exact Hi).
  pose proof (Forall2_nth_lay ord_wf _ lay i HL Hv) as Hw. rewrite <- (vec_nth_axis_vecs a t i W Hi) in Hw.
  set (v := vec a t i) in *. set (ord := nth i lay []) in *.
  assert (P : forall j, Qeq (nth j (scatter 0%Q (length v) ord (norm_fn (gather 0%Z ord v))) 0%Q)
                            (Qmake (nth j v 0%Z) (Z.to_pos (zsum v)))) by (intros j; apply norm_vec_nth; exact Hw).
  split; [apply scatter_length|]. split; [exact P|]. split.
  - intros Hpos.
    rewrite (qsum_pointwise _ (map (fun x => Qmake x (Z.to_pos (zsum v))) v)).
    + rewrite qsum_scaled. apply Qmake_self. exact Hpos.
    + rewrite scatter_length, map_length. reflexivity.
    + intros j. rewrite (P j). destruct (Nat.lt_ge_cases j (length v)) as [Hj|Hj].
      * rewrite (nth_map_in _ v j 0%Z 0%Q Hj). reflexivity.
      * rewrite !nth_overflow by (rewrite ?map_length; exact Hj). unfold Qeq. simpl. reflexivity.
  - intros j k. rewrite (P j), (P k). unfold Qeq, Qmult, inject_Z. simpl. ring.
Qed.
