(* proofs for C13: the transform kernel (K3), Table.transform at the content level, norm / pa /
   rankdata, element-wise axis independence *)
From Coq Require Import List Arith ZArith QArith Lia Bool.
From BiomV Require Import Base.Tree Base.ListUtil Base.Matrix Model.Table Model.Filter Model.Stored
  Model.Transform Proofs.FilterProofs Proofs.StoredProofs.
Import ListNotations.
Close Scope Q_scope.

(* ------------------------------------------------------------------ coherence, unconditionally
   (any layout, any outputs; used by C05) *)
Lemma scatter_all_shape {V} (zero : V) : forall vs lay (outs : list (list V)),
  Forall2 (fun (v : list Z) (v' : list V) => length v' = length v) vs (scatter_all zero vs lay outs).
Proof.
  induction vs as [|v vs IH]; intros lay outs; simpl; constructor; [apply scatter_length|apply IH].
Qed.

Lemma F2_len {A B} (R : A -> B -> Prop) l l' : Forall2 R l l' -> length l = length l'.
Proof. induction 1; simpl; congruence. Qed.

Lemma same_len_rect_gen {V} C (vs : list (list Z)) (vs1 : list (list V)) :
  Forall2 (fun (v : list Z) (v' : list V) => length v' = length v) vs vs1 -> rect C vs ->
  Forall (fun r => length r = C) vs1 /\ length vs1 = length vs.
Proof.
  intros H R. split; [|symmetry; eapply F2_len; exact H].
  unfold rect in *. induction H as [|v v' vs vs1 L _ IH]; [constructor|].
  inversion R; subst. constructor; [congruence|apply IH; assumption].
Qed.

Theorem transform_table_wf a lay outs t : wf t -> wf (transform_table a lay outs t).
Proof.
  intros W. unfold transform_table.
  destruct (same_len_rect_gen (n_other a t) _ _ (scatter_all_shape 0%Z (axis_vecs a t) lay outs) (axis_vecs_rect a t W))
    as [Rc Rl].
  rewrite (axis_vecs_length a t W) in Rl. apply wf_with_axis_vecs; assumption.
Qed.

Theorem transform_wf a inplace lay outs t t' :
  wf t -> snd (transform a inplace lay outs t) = ROk t' -> wf t' /\ wf (fst (transform a inplace lay outs t)).
Proof.
  intros W. unfold transform. destruct (outs_fit a lay outs t); simpl; [|discriminate].
  intros H. inversion H; subst. split; [apply transform_table_wf; exact W|].
  destruct inplace; [apply transform_table_wf|]; exact W.
Qed.

Theorem transform_with_wf f a inplace lay t t' :
  wf t -> snd (transform_with f a inplace lay t) = ROk t' -> wf t' /\ wf (fst (transform_with f a inplace lay t)).
Proof. apply transform_wf. Qed.

Theorem pa_wf one inplace lay t t' :
  wf t -> snd (pa one inplace lay t) = ROk t' -> wf t' /\ wf (fst (pa one inplace lay t)).
Proof. apply transform_wf. Qed.

Theorem rank_wf rk a inplace lay t t' :
  wf t -> snd (rankdata rk a inplace lay t) = ROk t' -> wf t' /\ wf (fst (rankdata rk a inplace lay t)).
Proof. apply transform_wf. Qed.

(* norm leaves ids / metadata / type alone and its rational matrix has the table's shape *)
Lemma ptranspose_shape {V} (zero : V) c (m : list (list V)) :
  length (ptranspose zero c m) = c /\ Forall (fun r => length r = length m) (ptranspose zero c m).
Proof.
  unfold ptranspose. split; [rewrite map_length, seq_length; reflexivity|].
  apply Forall_forall. intros r Hr. apply in_map_iff in Hr. destruct Hr as [j [<- _]]. apply map_length.
Qed.

Theorem norm_wf a lay t : wf t ->
  length (norm_mat a lay t) = nobs t /\ Forall (fun r => length r = nsamp t) (norm_mat a lay t).
Proof.
  intros W. unfold norm_mat, norm_vecs.
  destruct (same_len_rect_gen (n_other a t) _ _
              (scatter_all_shape 0%Q (axis_vecs a t) lay
                 (map (fun c : call => norm_fn (fst (fst c))) (transform_calls a lay t)))
              (axis_vecs_rect a t W)) as [Rc Rl].
  rewrite (axis_vecs_length a t W) in Rl.
  destruct a; unfold mat_of_vecs, n_other in *; simpl in *.
  - split; assumption.
  - destruct (ptranspose_shape 0%Q (length (oids t)) (scatter_all 0%Q (transpose (nsamp t) (mat t)) lay
        (map (fun c : call => norm_fn (fst (fst c))) (transform_calls Samp lay t)))) as [A B].
    split; [exact A|]. rewrite Rl in B. exact B.
Qed.
