(* C19: proofs about the summary model (Model/Summary.v) over the compressed-sparse
   segment view of Model/Sparse.v. *)
From Coq Require Import List Arith ZArith Lia Bool Permutation Sorted.
From BiomV Require Import Base.Tree Base.ListUtil Base.Matrix Model.Table Model.Sparse Model.Summary.
Import ListNotations.

(* ------------------------------------------------------------------ lists *)
Lemma map_nth_seq {A B} (f : A -> B) (l : list A) (d : A) :
  map (fun i => f (nth i l d)) (seq 0 (length l)) = map f l.
Proof.
  induction l as [|x l IH]; simpl; [reflexivity|].
  f_equal. rewrite <- seq_shift, map_map. exact IH.
Qed.

Lemma zsum_map_add {A} (f g : A -> Z) l :
  zsum (map (fun x => (f x + g x)%Z) l) = (zsum (map f l) + zsum (map g l))%Z.
Proof. induction l as [|x l IH]; simpl; [reflexivity|]. rewrite IH. lia. Qed.

Lemma zsum_map_zero {A} (f : A -> Z) l : (forall x, In x l -> f x = 0%Z) -> zsum (map f l) = 0%Z.
Proof.
  induction l as [|x l IH]; simpl; intros H; [reflexivity|].
  rewrite (H x) by (left; reflexivity). rewrite IH; [reflexivity|]. intros y Hy. apply H. right. exact Hy.
Qed.

Lemma zsum_map_ext {A} (f g : A -> Z) l : (forall x, In x l -> f x = g x) -> zsum (map f l) = zsum (map g l).
Proof. intros H. f_equal. apply map_ext_in. exact H. Qed.

Lemma zsum_concat (ll : list (list Z)) : zsum (concat ll) = zsum (map zsum ll).
Proof. induction ll as [|l ll IH]; simpl; [reflexivity|]. rewrite zsum_app, IH. reflexivity. Qed.

Lemma nsum_map_length_concat {A} (ll : list (list A)) : length (concat ll) = nsum (map (@length A) ll).
Proof. induction ll as [|l ll IH]; simpl; [reflexivity|]. rewrite app_length, IH. reflexivity. Qed.

(* sum over a range of an indicator-like function that is [v] at k and [f] elsewhere *)
Lemma zsum_point (k : nat) (v : Z) (f : nat -> Z) a n :
  zsum (map (fun j => if Nat.eqb k j then v else f j) (seq a n)) =
  Z.add (if (a <=? k) && (k <? a + n) then Z.sub v (f k) else 0%Z) (zsum (map f (seq a n))).
Proof.
  revert a. induction n as [|n IH]; intros a; simpl.
  - destruct (a <=? k) eqn:E1, (k <? a + 0) eqn:E2; simpl; try reflexivity.
    apply Nat.leb_le in E1. apply Nat.ltb_lt in E2. lia.
  - rewrite IH. destruct (Nat.eqb k a) eqn:E.
    + apply Nat.eqb_eq in E. subst a.
      replace (S k <=? k) with false by (symmetry; apply Nat.leb_gt; lia). simpl.
      replace (k <=? k) with true by (symmetry; apply Nat.leb_le; lia).
      replace (k <? k + S n) with true by (symmetry; apply Nat.ltb_lt; lia). simpl. lia.
    + apply Nat.eqb_neq in E.
      assert (H : (a <=? k) && (k <? a + S n) = (S a <=? k) && (k <? S a + n)).
      { destruct (a <=? k) eqn:E1, (S a <=? k) eqn:E2, (k <? a + S n) eqn:E3, (k <? S a + n) eqn:E4;
          try reflexivity;
          repeat match goal with
                 | H : (_ <=? _) = true |- _ => apply Nat.leb_le in H
                 | H : (_ <=? _) = false |- _ => apply Nat.leb_gt in H
                 | H : (_ <? _) = true |- _ => apply Nat.ltb_lt in H
                 | H : (_ <? _) = false |- _ => apply Nat.ltb_ge in H
                 end; lia. }
      rewrite H. lia.
Qed.

(* ------------------------------------------------------------------ segments: lookup *)
Lemma find_idx_app j a b :
  find_idx j (a ++ b) = match find_idx j a with Some v => Some v | None => find_idx j b end.
Proof.
  induction a as [|[k v] a IH]; simpl; [reflexivity|].
  destruct (Nat.eqb k j); [reflexivity|exact IH].
Qed.

Lemma find_idx_In j s v : find_idx j s = Some v -> In (j, v) s.
Proof.
  induction s as [|[k w] s IH]; simpl; [discriminate|].
  destruct (Nat.eqb k j) eqn:E.
  - intros H. inversion H; subst. apply Nat.eqb_eq in E. subst. left. reflexivity.
  - intros H. right. apply IH. exact H.
Qed.

Lemma find_idx_None j s : ~ In j (map fst s) -> find_idx j s = None.
Proof.
  induction s as [|[k w] s IH]; simpl; intros H; [reflexivity|].
  destruct (Nat.eqb k j) eqn:E.
  - apply Nat.eqb_eq in E. exfalso. apply H. left. exact E.
  - apply IH. intros Hin. apply H. right. exact Hin.
Qed.

Lemma find_idx_NoDup j v s : NoDup (map fst s) -> In (j, v) s -> find_idx j s = Some v.
Proof.
  induction s as [|[k w] s IH]; simpl; intros Hn Hin; [contradiction|].
  inversion Hn as [|? ? Hk Hn']; subst.
  destruct Hin as [Heq|Hin].
  - inversion Heq; subst. rewrite Nat.eqb_refl. reflexivity.
  - destruct (Nat.eqb k j) eqn:E.
    + apply Nat.eqb_eq in E. subst. exfalso. apply Hk. apply in_map_iff. exists (j, v). split; [reflexivity|exact Hin].
    + apply IH; assumption.
Qed.

Lemma lookup_None j s : ~ In j (map fst s) -> lookup j s = 0%Z.
Proof. intros H. unfold lookup. rewrite find_idx_None by exact H. reflexivity. Qed.

Lemma nth_row_of_seg mn s j : j < mn -> nth j (row_of_seg mn s) 0%Z = lookup j s.
Proof.
  intros Hj. unfold row_of_seg.
  rewrite (nth_indep _ 0%Z (lookup 0 s)) by (rewrite map_length, seq_length; exact Hj).
  rewrite (map_nth (fun j => lookup j s)). rewrite seq_nth by exact Hj. reflexivity.
Qed.

Lemma row_of_seg_length mn s : length (row_of_seg mn s) = mn.
Proof. unfold row_of_seg. rewrite map_length, seq_length. reflexivity. Qed.

Lemma dense_of_segs_length mn ss : length (dense_of_segs mn ss) = length ss.
Proof. unfold dense_of_segs. apply map_length. Qed.

Lemma dense_of_segs_rect mn ss : rect mn (dense_of_segs mn ss).
Proof.
  unfold rect, dense_of_segs. apply Forall_forall. intros r Hr. apply in_map_iff in Hr.
  destruct Hr as [s [Hs _]]. subst. apply row_of_seg_length.
Qed.

(* sum of any zero-preserving function of the cells of a dense row = the same over the stored entries *)
Lemma gsum_row (g : Z -> Z) mn s :
  g 0%Z = 0%Z -> seg_ok mn s ->
  zsum (map g (row_of_seg mn s)) = zsum (map (fun e => g (snd e)) s).
Proof.
  intros G0 [Hn Hb]. unfold row_of_seg. rewrite map_map.
  induction s as [|[k v] s IH]; simpl.
  - apply zsum_map_zero. intros j _. exact G0.
  - inversion Hn as [|? ? Hk Hn']; subst. inversion Hb as [|? ? Hkb Hb']; subst. simpl in Hkb.
    rewrite <- IH by assumption.
    rewrite (zsum_map_ext _ (fun j => if Nat.eqb k j then g v else g (lookup j s))).
    + rewrite zsum_point. simpl.
      replace (k <? mn) with true by (symmetry; apply Nat.ltb_lt; exact Hkb). simpl.
      rewrite (lookup_None k s Hk), G0. lia.
    + intros j _. unfold lookup. simpl. destruct (Nat.eqb k j); reflexivity.
Qed.

Lemma zsum_row mn s : seg_ok mn s -> zsum (row_of_seg mn s) = seg_sum s.
Proof.
  intros H. pose proof (gsum_row (fun x => x) mn s eq_refl H) as G.
  rewrite map_id in G. rewrite G. unfold seg_sum. reflexivity.
Qed.

Definition ind (v : Z) : Z := if nzb v then 1%Z else 0%Z.

Lemma count_nz_ind l : Z.of_nat (count_nz l) = zsum (map ind l).
Proof.
  unfold count_nz. induction l as [|x l IH]; simpl; [reflexivity|].
  unfold ind at 1. unfold nzb. destruct (negb (x =? 0)%Z); simpl length; rewrite <- IH; lia.
Qed.

Lemma length_elim_ind s : Z.of_nat (length (elim_seg s)) = zsum (map (fun e => ind (snd e)) s).
Proof.
  unfold elim_seg. induction s as [|e s IH]; simpl; [reflexivity|].
  unfold ind at 1. destruct (nzb (snd e)); simpl length; rewrite <- IH; lia.
Qed.

Lemma count_nz_row mn s : seg_ok mn s -> count_nz (row_of_seg mn s) = length (elim_seg s).
Proof.
  intros H. apply Nat2Z.inj. rewrite count_nz_ind, length_elim_ind.
  apply gsum_row; [reflexivity|exact H].
Qed.

(* ------------------------------------------------------------------ conversion = transposition *)
Lemma find_idx_tag i i0 c s :
  find_idx i (tag i0 c s) = if Nat.eqb i0 i then find_idx c s else None.
Proof.
  unfold tag. induction s as [|[k v] s IH]; simpl.
  - destruct (Nat.eqb i0 i); reflexivity.
  - destruct (Nat.eqb k c) eqn:E; simpl.
    + destruct (Nat.eqb i0 i); [reflexivity|exact IH].
    + exact IH.
Qed.

Lemma find_idx_bucket_from c ss : forall k i,
  find_idx i (bucket_from k c ss) = if Nat.ltb i k then None else find_idx c (nth (i - k) ss []).
Proof.
  induction ss as [|s ss IH]; intros k i; simpl.
  - destruct (Nat.ltb i k); [reflexivity|]. destruct (i - k); reflexivity.
  - rewrite find_idx_app, find_idx_tag, IH.
    destruct (Nat.eqb k i) eqn:E.
    + apply Nat.eqb_eq in E. subst.
      replace (i <? i) with false by (symmetry; apply Nat.ltb_ge; lia).
      replace (i - i) with 0 by lia.
      destruct (find_idx c s); [reflexivity|].
      replace (i <? S i) with true by (symmetry; apply Nat.ltb_lt; lia). reflexivity.
    + apply Nat.eqb_neq in E. destruct (Nat.ltb i k) eqn:E1.
      * apply Nat.ltb_lt in E1. replace (i <? S k) with true by (symmetry; apply Nat.ltb_lt; lia). reflexivity.
      * apply Nat.ltb_ge in E1. replace (i <? S k) with false by (symmetry; apply Nat.ltb_ge; lia).
        destruct (i - k) as [|d] eqn:D; [lia|]. replace (i - S k) with d by lia. reflexivity.
Qed.

Lemma lookup_bucket c ss i : lookup i (bucket c ss) = lookup c (nth i ss []).
Proof.
  unfold lookup, bucket. rewrite find_idx_bucket_from. simpl. rewrite Nat.sub_0_r. reflexivity.
Qed.

Lemma swap_segs_length mn ss : length (swap_segs mn ss) = mn.
Proof. unfold swap_segs. rewrite map_length, seq_length. reflexivity. Qed.

(* the dense matrix of the converted representation is the transpose; no hypothesis needed *)
Theorem dense_swap mn ss :
  dense_of_segs (length ss) (swap_segs mn ss) = transpose mn (dense_of_segs mn ss).
Proof.
  unfold dense_of_segs, swap_segs, transpose. rewrite map_map.
  apply map_ext_in. intros c Hc. apply in_seq in Hc.
  unfold row_of_seg, mcol. rewrite map_map.
  rewrite (map_ext _ (fun i => lookup c (nth i ss []))) by (intros i; apply lookup_bucket).
  rewrite (map_nth_seq (fun s => lookup c s) ss []).
  apply map_ext. intros s. symmetry.
  pose proof (nth_row_of_seg mn s c) as H. unfold row_of_seg in H. apply H. lia.
Qed.

(* entries of a bucket come from the rows, in row order, at most one per row *)
Lemma tag_cases i c s : NoDup (map fst s) -> tag i c s = [] \/ exists v, tag i c s = [(i, v)] /\ In (c, v) s.
Proof.
  unfold tag. induction s as [|[k v] s IH]; simpl; intros Hn; [left; reflexivity|].
  inversion Hn as [|? ? Hk Hn']; subst.
  destruct (Nat.eqb k c) eqn:E; simpl.
  - apply Nat.eqb_eq in E. subst. right. exists v. split; [|left; reflexivity].
    f_equal. replace (filter (fun e => fst e =? c) s) with (@nil entry); [reflexivity|].
    symmetry. clear IH Hn Hn'. induction s as [|[k w] s IH]; simpl; [reflexivity|].
    destruct (Nat.eqb k c) eqn:E.
    + apply Nat.eqb_eq in E. subst. exfalso. apply Hk. left. reflexivity.
    + apply IH. intros H. apply Hk. right. exact H.
  - destruct (IH Hn') as [H|[w [H1 H2]]]; [left; exact H|right; exists w; split; [exact H1|right; exact H2]].
Qed.

Lemma bucket_from_bounds c ss : Forall (fun s => NoDup (map fst s)) ss -> forall k,
  Forall (fun x => k <= x < k + length ss) (map fst (bucket_from k c ss)) /\
  NoDup (map fst (bucket_from k c ss)) /\ increasing (map fst (bucket_from k c ss)).
Proof.
  induction ss as [|s ss IH]; intros F k; simpl.
  - repeat split; constructor.
  - inversion F as [|? ? Hs F']; subst. destruct (IH F' (S k)) as (B & N & I).
    assert (B' : Forall (fun x => k <= x < k + S (length ss)) (map fst (bucket_from (S k) c ss))).
    { eapply Forall_impl; [|exact B]. simpl. intros; lia. }
    destruct (tag_cases k c s Hs) as [E|[v [E _]]]; rewrite E; simpl.
    + repeat split; assumption.
    + repeat split.
      * constructor; [lia|exact B'].
      * constructor; [|exact N]. intros Hin. rewrite Forall_forall in B. specialize (B k Hin). lia.
      * destruct (map fst (bucket_from (S k) c ss)) as [|b t] eqn:Eb; [exact Logic.I|].
        split; [|exact I]. inversion B; subst. lia.
Qed.

Lemma In_bucket_from e c ss : forall k, In e (bucket_from k c ss) ->
  exists s v, In s ss /\ In (c, v) s /\ snd e = v.
Proof.
  induction ss as [|s ss IH]; intros k H; simpl in H; [contradiction|].
  apply in_app_or in H. destruct H as [H|H].
  - unfold tag in H. apply in_map_iff in H. destruct H as [[j v] [He Hin]]. apply filter_In in Hin.
    destruct Hin as [Hin Hc]. simpl in Hc. apply Nat.eqb_eq in Hc. subst. exists s, v. simpl.
    repeat split; [left; reflexivity|exact Hin].
  - destruct (IH _ H) as (s' & v & A & B & C). exists s', v. repeat split; [right; exact A|exact B|exact C].
Qed.

Lemma seg_ok_swap mn ss :
  Forall (seg_ok mn) ss -> Forall (seg_ok (length ss)) (swap_segs mn ss).
Proof.
  intros F. assert (F' : Forall (fun s => NoDup (map fst s)) ss).
  { eapply Forall_impl; [|exact F]. intros s [H _]. exact H. }
  unfold swap_segs. apply Forall_forall. intros b Hb. apply in_map_iff in Hb. destruct Hb as [c [Hc _]]. subst.
  unfold bucket. destruct (bucket_from_bounds c ss F' 0) as (B & N & _). split; [exact N|].
  rewrite Forall_forall in *. intros e He. apply (B (fst e)). apply in_map. exact He.
Qed.

Lemma sorted_swap mn ss : Forall (seg_ok mn) ss -> sorted_segs (swap_segs mn ss).
Proof.
  intros F. assert (F' : Forall (fun s => NoDup (map fst s)) ss).
  { eapply Forall_impl; [|exact F]. intros s [H _]. exact H. }
  unfold sorted_segs, swap_segs. apply Forall_forall. intros b Hb. apply in_map_iff in Hb.
  destruct Hb as [c [Hc _]]. subst. unfold bucket. apply (bucket_from_bounds c ss F' 0).
Qed.

Lemma nz_swap mn ss : nz_segs ss -> nz_segs (swap_segs mn ss).
Proof.
  unfold nz_segs, swap_segs. intros F. apply Forall_forall. intros b Hb. apply in_map_iff in Hb.
  destruct Hb as [c [Hc _]]. subst. apply Forall_forall. intros e He. unfold bucket in He.
  destruct (In_bucket_from e c ss 0 He) as (s & v & A & B & C). rewrite C.
  rewrite Forall_forall in F. specialize (F s A). rewrite Forall_forall in F. exact (F (c, v) B).
Qed.

(* eliminating stored zeros does not change the dense matrix *)
Lemma lookup_elim j s : NoDup (map fst s) -> lookup j (elim_seg s) = lookup j s.
Proof.
  unfold lookup, elim_seg. induction s as [|[k v] s IH]; simpl; intros Hn; [reflexivity|].
  inversion Hn as [|? ? Hk Hn']; subst. unfold nzb at 1. simpl.
  destruct (Z.eqb v 0) eqn:Ev; simpl.
  - apply Z.eqb_eq in Ev. subst. destruct (Nat.eqb k j) eqn:E.
    + apply Nat.eqb_eq in E. subst. rewrite IH by exact Hn'. rewrite (find_idx_None j s Hk). reflexivity.
    + apply IH. exact Hn'.
  - destruct (Nat.eqb k j); [reflexivity|apply IH; exact Hn'].
Qed.

Lemma dense_elim mn ss : Forall (seg_ok mn) ss -> dense_of_segs mn (map elim_seg ss) = dense_of_segs mn ss.
Proof.
  intros F. unfold dense_of_segs. rewrite map_map. apply map_ext_in. intros s Hs.
  rewrite Forall_forall in F. destruct (F s Hs) as [Hn _].
  unfold row_of_seg. apply map_ext. intros j. apply lookup_elim. exact Hn.
Qed.

Lemma seg_ok_elim mn s : seg_ok mn s -> seg_ok mn (elim_seg s).
Proof.
  intros [Hn Hb]. unfold elim_seg. split.
  - clear Hb. induction s as [|e s IH]; simpl; [constructor|].
    inversion Hn as [|? ? Hk Hn']; subst. destruct (nzb (snd e)); simpl; [|apply IH; exact Hn'].
    constructor; [|apply IH; exact Hn']. intros Hin. apply Hk. apply in_map_iff in Hin.
    destruct Hin as [x [Hx Hin]]. apply filter_In in Hin. apply in_map_iff. exists x. tauto.
  - apply Forall_forall. intros e He. apply filter_In in He. rewrite Forall_forall in Hb. apply Hb. tauto.
Qed.

Lemma nz_elim ss : nz_segs (map elim_seg ss).
Proof.
  unfold nz_segs. apply Forall_forall. intros s Hs. apply in_map_iff in Hs. destruct Hs as [s0 [E _]]. subst.
  apply Forall_forall. intros e He. unfold elim_seg in He. apply filter_In in He. destruct He as [_ H].
  unfold nzb in H. apply negb_true_iff in H. apply Z.eqb_neq in H. exact H.
Qed.

(* ------------------------------------------------------------------ sums of a function of all cells *)
Definition gsum (g : Z -> Z) (m : matrix) : Z := zsum (map (fun r => zsum (map g r)) m).

Lemma gsum_transpose g c m : rect c m -> gsum g (transpose c m) = gsum g m.
Proof.
  unfold gsum, transpose. rewrite map_map. induction m as [|r m IH]; intros R.
  - simpl. apply zsum_map_zero. intros j _. reflexivity.
  - inversion R as [|? ? Hr R']; subst. simpl.
    rewrite zsum_map_add, IH by exact R'. f_equal.
    rewrite (map_nth_seq g r 0%Z). reflexivity.
Qed.

Lemma msum_gsum m : msum m = gsum (fun x => x) m.
Proof. unfold msum, gsum. f_equal. apply map_ext. intros r. rewrite map_id. reflexivity. Qed.

Lemma msum_transpose' c m : rect c m -> msum (transpose c m) = msum m.
Proof. intros R. rewrite !msum_gsum. apply gsum_transpose. exact R. Qed.

Lemma Z_of_nsum l : Z.of_nat (nsum l) = zsum (map Z.of_nat l).
Proof. induction l as [|x l IH]; simpl; [reflexivity|]. rewrite Nat2Z.inj_add, IH. reflexivity. Qed.

Lemma count_nonzero_gsum m : Z.of_nat (count_nonzero m) = gsum ind m.
Proof.
  unfold count_nonzero, gsum. rewrite Z_of_nsum, map_map. f_equal. apply map_ext. intros r. apply count_nz_ind.
Qed.

Lemma count_nonzero_transpose c m : rect c m -> count_nonzero (transpose c m) = count_nonzero m.
Proof. intros R. apply Nat2Z.inj. rewrite !count_nonzero_gsum. apply gsum_transpose. exact R. Qed.

(* ------------------------------------------------------------------ shape of a well-formed representation *)
Lemma wf_dims rt : wf_r rt ->
  Forall (seg_ok (r_mn rt)) (r_segs rt) /\
  match r_fmt rt with
  | CSR => length (r_segs rt) = r_nobs rt /\ r_mn rt = r_nsamp rt
  | CSC => length (r_segs rt) = r_nsamp rt /\ r_mn rt = r_nobs rt
  end.
Proof. intros (_ & _ & D & F & _). split; [exact F|exact D]. Qed.

Lemma dense_shape rt : wf_r rt -> length (dense rt) = r_nobs rt /\ rect (r_nsamp rt) (dense rt).
Proof.
  intros W. destruct (wf_dims rt W) as [_ D]. unfold dense. destruct (r_fmt rt); destruct D as [D1 D2].
  - split; [rewrite dense_of_segs_length; exact D1|rewrite <- D2; apply dense_of_segs_rect].
  - split; [rewrite transpose_length; exact D2|].
    rewrite <- D1, <- (dense_of_segs_length (r_mn rt)). apply transpose_rect.
Qed.

(* iter_data(dense=True): the dense vectors handed out are the rows / the columns of the matrix *)
Theorem vectors_agree rt : wf_r rt ->
  r_vectors Obs rt = dense rt /\ r_vectors Samp rt = transpose (r_nsamp rt) (dense rt).
Proof.
  intros W. destruct (wf_dims rt W) as [_ D].
  unfold r_vectors, dense, row_segs, row_mn, col_segs, col_mn. destruct (r_fmt rt); destruct D as [D1 D2].
  - split; [reflexivity|]. rewrite dense_swap, D2. reflexivity.
  - split; [apply dense_swap|].
    rewrite <- D1, <- (dense_of_segs_length (r_mn rt)). symmetry. apply transpose_involutive. apply dense_of_segs_rect.
Qed.

Lemma axis_segs_ok rt : wf_r rt ->
  Forall (seg_ok (row_mn rt)) (row_segs rt) /\ Forall (seg_ok (col_mn rt)) (col_segs rt).
Proof.
  intros W. destruct (wf_dims rt W) as [F _]. unfold row_segs, row_mn, col_segs, col_mn.
  destruct (r_fmt rt); split; try exact F; apply seg_ok_swap; exact F.
Qed.

Lemma axis_segs_nz rt : nz_segs (r_segs rt) -> nz_segs (row_segs rt) /\ nz_segs (col_segs rt).
Proof.
  intros N. unfold row_segs, col_segs. destruct (r_fmt rt); split; try exact N; apply nz_swap; exact N.
Qed.

Lemma axis_dims rt : wf_r rt ->
  row_mn rt = r_nsamp rt /\ length (row_segs rt) = r_nobs rt /\ col_mn rt = r_nobs rt /\ length (col_segs rt) = r_nsamp rt.
Proof.
  intros W. destruct (wf_dims rt W) as [_ D]. unfold row_segs, row_mn, col_segs, col_mn.
  destruct (r_fmt rt); destruct D as [D1 D2]; rewrite ?swap_segs_length; repeat split; assumption.
Qed.

(* ------------------------------------------------------------------ sum *)
Lemma major_sums_dense mn ss : Forall (seg_ok mn) ss -> major_sums ss = row_sums (dense_of_segs mn ss).
Proof.
  intros F. unfold major_sums, row_sums, dense_of_segs. rewrite map_map. apply map_ext_in. intros s Hs.
  rewrite Forall_forall in F. symmetry. apply zsum_row. apply F. exact Hs.
Qed.

Lemma snd_bucket_from j ss : forall k,
  map snd (bucket_from k j ss) = map snd (filter (fun e => Nat.eqb (fst e) j) (concat ss)).
Proof.
  induction ss as [|s ss IH]; intros k; simpl; [reflexivity|].
  rewrite filter_app, !map_app, IH. f_equal. unfold tag. rewrite map_map. reflexivity.
Qed.

Lemma minor_sums_swap mn ss : minor_sums mn ss = major_sums (swap_segs mn ss).
Proof.
  unfold minor_sums, major_sums, swap_segs. rewrite map_map. apply map_ext. intros j.
  unfold seg_sum, bucket. rewrite snd_bucket_from. reflexivity.
Qed.

Lemma minor_sums_dense mn ss : Forall (seg_ok mn) ss -> minor_sums mn ss = col_sums mn (dense_of_segs mn ss).
Proof.
  intros F. rewrite minor_sums_swap, (major_sums_dense (length ss)) by (apply seg_ok_swap; exact F).
  rewrite dense_swap. reflexivity.
Qed.

Lemma whole_sum_dense mn ss : Forall (seg_ok mn) ss -> zsum (map snd (concat ss)) = msum (dense_of_segs mn ss).
Proof.
  intros F. rewrite concat_map, zsum_concat, map_map. unfold msum.
  change (map zsum (dense_of_segs mn ss)) with (row_sums (dense_of_segs mn ss)).
  rewrite <- (major_sums_dense mn ss F). reflexivity.
Qed.

Theorem sum_agree rt : wf_r rt ->
  r_sum_whole rt = d_sum_whole (content_of rt) /\
  r_sum Obs rt = d_sum Obs (content_of rt) /\
  r_sum Samp rt = d_sum Samp (content_of rt).
Proof.
  intros W. destruct (wf_dims rt W) as [F D].
  unfold r_sum_whole, r_sum, d_sum_whole, d_sum, content_of, nsamp; simpl. unfold dense.
  destruct (r_fmt rt); destruct D as [D1 D2].
  - rewrite (whole_sum_dense _ _ F), (major_sums_dense _ _ F), (minor_sums_dense _ _ F), D2. repeat split; reflexivity.
  - rewrite (whole_sum_dense _ _ F), (major_sums_dense _ _ F), (minor_sums_dense _ _ F).
    rewrite msum_transpose' by apply dense_of_segs_rect.
    repeat split; try reflexivity.
    unfold col_sums. change (length (r_sids rt)) with (r_nsamp rt).
    rewrite <- D1, <- (dense_of_segs_length (r_mn rt)).
    rewrite transpose_involutive by apply dense_of_segs_rect. reflexivity.
Qed.

(* ------------------------------------------------------------------ nonzero_counts *)
Lemma vcount_whole (binary : bool) c m : rect c m ->
  zsum (map (vcount binary) (transpose c m)) = if binary then Z.of_nat (count_nonzero m) else msum m.
Proof.
  intros R. destruct binary; unfold vcount.
  - rewrite <- (count_nonzero_transpose c m R). unfold count_nonzero. rewrite Z_of_nsum, map_map. reflexivity.
  - rewrite <- (msum_transpose' c m R). reflexivity.
Qed.

Theorem nonzero_counts_agree a binary rt : wf_r rt ->
  r_nonzero_counts a binary rt = d_nonzero_counts a binary (content_of rt).
Proof.
  intros W. destruct (vectors_agree rt W) as [VO VS]. destruct (dense_shape rt W) as [_ R].
  unfold r_nonzero_counts, d_nonzero_counts. rewrite VO, VS. simpl.
  destruct a; try reflexivity. unfold nsamp; simpl. rewrite (vcount_whole binary _ _ R). reflexivity.
Qed.

(* ------------------------------------------------------------------ reduce *)
Lemma rmap_map {A B C} (f : B -> result C) (g : A -> B) l : rmap f (map g l) = rmap (fun x => f (g x)) l.
Proof. induction l as [|x l IH]; simpl; [reflexivity|]. rewrite IH. reflexivity. Qed.

Lemma rmap_ext_in {A B} (f g : A -> result B) l : (forall x, In x l -> f x = g x) -> rmap f l = rmap g l.
Proof.
  induction l as [|x l IH]; simpl; intros H; [reflexivity|].
  rewrite (H x) by (left; reflexivity). rewrite IH; [reflexivity|]. intros y Hy. apply H. right. exact Hy.
Qed.

Lemma rmap_ok {A B} (f : A -> B) l : rmap (fun x => ROk (f x)) l = ROk (map f l).
Proof. induction l as [|x l IH]; simpl; [reflexivity|]. rewrite IH. reflexivity. Qed.

Theorem reduce_agree (f : Z -> Z -> Z) a rt : wf_r rt ->
  r_reduce f a rt = if r_empty rt then RErr E_TABLE else rmap (reduce1 f) (vectors_of a (content_of rt)).
Proof.
  intros W. destruct (vectors_agree rt W) as [VO VS]. unfold r_reduce, vectors_of, content_of, nsamp; simpl.
  destruct (r_empty rt); [reflexivity|]. destruct a; [rewrite VO|rewrite VS]; reflexivity.
Qed.

Lemma fold_left_add t x : fold_left Z.add t x = (x + zsum t)%Z.
Proof. revert x. induction t as [|y t IH]; intros x; simpl; [lia|]. rewrite IH. lia. Qed.

Lemma reduce_add_rows (m : matrix) : Forall (fun v => v <> []) m -> rmap (reduce1 Z.add) m = ROk (map zsum m).
Proof.
  intros F. rewrite <- rmap_ok. apply rmap_ext_in. intros v Hv. rewrite Forall_forall in F. specialize (F v Hv).
  destruct v as [|x t]; [contradiction|]. simpl. rewrite fold_left_add. reflexivity.
Qed.

Theorem reduce_add_agree a rt : wf_r rt -> r_empty rt = false ->
  r_reduce Z.add a rt = ROk (d_sum a (content_of rt)).
Proof.
  intros W E. rewrite reduce_agree by exact W. rewrite E.
  destruct (dense_shape rt W) as [L R]. unfold r_empty in E. apply orb_false_iff in E. destruct E as [E1 E2].
  apply Nat.eqb_neq in E1. apply Nat.eqb_neq in E2.
  unfold vectors_of, d_sum, content_of, nsamp; simpl. destruct a.
  - apply reduce_add_rows. unfold rect in R. eapply Forall_impl; [|exact R]. intros v Hv Hn. subst. simpl in Hv. lia.
  - unfold col_sums. apply reduce_add_rows. pose proof (transpose_rect (r_nsamp rt) (dense rt)) as T.
    unfold rect in T. eapply Forall_impl; [|exact T]. intros v Hv Hn. subst. simpl in Hv. lia.
Qed.

(* ------------------------------------------------------------------ nnz, density *)
Lemma nnz_segs_dense mn ss : Forall (seg_ok mn) ss ->
  nsum (map (fun s => length (elim_seg s)) ss) = count_nonzero (dense_of_segs mn ss).
Proof.
  intros F. unfold count_nonzero, dense_of_segs. rewrite map_map. f_equal. apply map_ext_in. intros s Hs.
  rewrite Forall_forall in F. symmetry. apply count_nz_row. apply F. exact Hs.
Qed.

Theorem nnz_agree rt : wf_r rt -> r_nnz rt = count_nonzero (dense rt).
Proof.
  intros W. destruct (wf_dims rt W) as [F _]. unfold r_nnz, dense. rewrite (nnz_segs_dense _ _ F).
  destruct (r_fmt rt); [reflexivity|]. symmetry. apply count_nonzero_transpose. apply dense_of_segs_rect.
Qed.

Theorem density_agree rt : wf_r rt -> r_density rt = d_density (content_of rt).
Proof.
  intros W. unfold r_density, d_density, r_empty, content_of, nsamp, nobs; simpl.
  rewrite (nnz_agree rt W). reflexivity.
Qed.

Lemma vectors_of_content a rt : wf_r rt -> vectors_of a (content_of rt) = r_vectors a rt.
Proof.
  intros W. destruct (vectors_agree rt W) as [VO VS]. unfold vectors_of, content_of, nsamp; simpl.
  destruct a; [rewrite VO|rewrite VS]; reflexivity.
Qed.

(* ------------------------------------------------------------------ min / max *)
Section Extreme.
  Variable op : Z -> Z -> Z.
  Variable le : Z -> Z -> Prop.
  Hypothesis op_cases : forall a b, op a b = a \/ op a b = b.
  Hypothesis op_le_l : forall a b, le (op a b) a.
  Hypothesis op_le_r : forall a b, le (op a b) b.
  Hypothesis le_refl : forall a, le a a.
  Hypothesis le_trans : forall a b c, le a b -> le b c -> le a c.
  Hypothesis le_antisym : forall a b, le a b -> le b a -> a = b.

  Lemma fold_op_spec t : forall x,
    In (fold_left op t x) (x :: t) /\ forall y, In y (x :: t) -> le (fold_left op t x) y.
  Proof.
    induction t as [|z t IH]; intros x; simpl.
    - split; [left; reflexivity|]. intros y [H|[]]. subst. apply le_refl.
    - destruct (IH (op x z)) as [A B]. split.
      + destruct A as [A|A]; [|right; right; exact A].
        destruct (op_cases x z) as [E|E]; [left|right; left]; rewrite <- A; symmetry; exact E.
      + intros y [H|[H|H]].
        * subst. eapply le_trans; [apply B; left; reflexivity|apply op_le_l].
        * subst. eapply le_trans; [apply B; left; reflexivity|apply op_le_r].
        * apply B. right. exact H.
  Qed.

  Lemma lred_spec l m : lred op l = ROk m <-> (In m l /\ forall y, In y l -> le m y).
  Proof.
    destruct l as [|x t]; simpl.
    - split; [discriminate|intros [[] _]].
    - split.
      + intros H. inversion H; subst. apply fold_op_spec.
      + intros [A B]. f_equal. destruct (fold_op_spec t x) as [C D].
        apply le_antisym; [apply D; exact A|apply B; exact C].
  Qed.

  Lemma lred_nil l : lred op l = RErr E_VALUE <-> l = [].
  Proof. destruct l; simpl; split; intros H; try reflexivity; discriminate. Qed.

  Lemma lred_ext a b : (forall x, In x a <-> In x b) -> lred op a = lred op b.
  Proof.
    intros H. destruct a as [|x a].
    - destruct b as [|y b]; [reflexivity|]. exfalso. apply (H y). left. reflexivity.
    - destruct (lred op (x :: a)) as [m|c] eqn:E; [|discriminate].
      symmetry. apply lred_spec. apply lred_spec in E. destruct E as [A B]. split.
      + apply H. exact A.
      + intros y Hy. apply B. apply H. exact Hy.
  Qed.

  (* stored values of a segment without stored zeros = non-zero values of the dense vector *)
  Lemma seg_values mn s : seg_ok mn s -> Forall (fun e => snd e <> 0%Z) s ->
    forall x, In x (map snd s) <-> In x (nonzeros (row_of_seg mn s)).
  Proof.
    intros [Hn Hb] Hz x. unfold nonzeros. rewrite filter_In. split.
    - intros H. apply in_map_iff in H. destruct H as [[k v] [E Hin]]. simpl in E. subst v.
      rewrite Forall_forall in Hb, Hz. pose proof (Hb _ Hin) as Hk. pose proof (Hz _ Hin) as Hx. simpl in *.
      split.
      + unfold row_of_seg. apply in_map_iff. exists k. split; [|apply in_seq; lia].
        unfold lookup. rewrite (find_idx_NoDup k x s Hn Hin). reflexivity.
      + unfold nzb. apply negb_true_iff. apply Z.eqb_neq. exact Hx.
    - intros [H Hx]. unfold row_of_seg in H. apply in_map_iff in H. destruct H as [j [E _]].
      unfold lookup in E. destruct (find_idx j s) as [v|] eqn:Ef.
      + subst v. apply find_idx_In in Ef. apply in_map_iff. exists (j, x). split; [reflexivity|exact Ef].
      + subst x. discriminate.
  Qed.

  Theorem extreme_agree a rt : wf_r rt -> nz_segs (r_segs rt) ->
    r_extreme op a rt = d_extreme op a (content_of rt).
  Proof.
    intros W N. destruct (axis_segs_ok rt W) as [FO FS]. destruct (axis_segs_nz rt N) as [NO NS].
    unfold r_extreme, d_extreme. rewrite (vectors_of_content a rt W).
    unfold r_vectors, axis_segs, dense_of_segs. destruct a; rewrite rmap_map; apply rmap_ext_in; intros s Hs;
      apply lred_ext; apply seg_values.
    - rewrite Forall_forall in FO. apply FO. exact Hs.
    - unfold nz_segs in NO. rewrite Forall_forall in NO. apply NO. exact Hs.
    - rewrite Forall_forall in FS. apply FS. exact Hs.
    - unfold nz_segs in NS. rewrite Forall_forall in NS. apply NS. exact Hs.
  Qed.

  Theorem extreme_whole_agree rt : wf_r rt -> nz_segs (r_segs rt) ->
    r_extreme_whole op rt = d_extreme_whole op (content_of rt).
  Proof. intros W N. unfold r_extreme_whole, d_extreme_whole. rewrite (extreme_agree Samp rt W N). reflexivity. Qed.

  (* what the figure is for one dense vector *)
  Theorem vec_extreme_spec v :
    ((exists x, In x v /\ x <> 0%Z) ->
       exists m, lred op (nonzeros v) = ROk m /\ In m v /\ m <> 0%Z /\ forall x, In x v -> x <> 0%Z -> le m x) /\
    ((forall x, In x v -> x = 0%Z) -> lred op (nonzeros v) = RErr E_VALUE).
  Proof.
    split.
    - intros [x [Hx Hnz]]. destruct (lred op (nonzeros v)) as [m|c] eqn:E.
      + exists m. split; [reflexivity|]. apply lred_spec in E. destruct E as [A B].
        unfold nonzeros in A. apply filter_In in A. destruct A as [A1 A2].
        split; [exact A1|]. split.
        * unfold nzb in A2. apply negb_true_iff in A2. apply Z.eqb_neq in A2. exact A2.
        * intros y Hy Hyz. apply B. unfold nonzeros. apply filter_In. split; [exact Hy|].
          unfold nzb. apply negb_true_iff. apply Z.eqb_neq. exact Hyz.
      + exfalso. assert (H : In x (nonzeros v)).
        { unfold nonzeros. apply filter_In. split; [exact Hx|]. unfold nzb. apply negb_true_iff. apply Z.eqb_neq. exact Hnz. }
        destruct (nonzeros v); [contradiction|discriminate].
    - intros H. apply lred_nil. unfold nonzeros. destruct (filter nzb v) as [|y t] eqn:E; [reflexivity|].
      exfalso. assert (Hy : In y (filter nzb v)) by (rewrite E; left; reflexivity).
      apply filter_In in Hy. destruct Hy as [Hy1 Hy2]. rewrite (H y Hy1) in Hy2. discriminate.
  Qed.
End Extreme.

Definition ge (a b : Z) : Prop := (b <= a)%Z.
Lemma min_cases a b : Z.min a b = a \/ Z.min a b = b. Proof. lia. Qed.
Lemma max_cases a b : Z.max a b = a \/ Z.max a b = b. Proof. lia. Qed.

Theorem min_agree a rt : wf_r rt -> nz_segs (r_segs rt) -> r_min a rt = d_extreme Z.min a (content_of rt).
Proof.
  apply (extreme_agree Z.min Z.le min_cases); intros; lia.
Qed.
Theorem max_agree a rt : wf_r rt -> nz_segs (r_segs rt) -> r_max a rt = d_extreme Z.max a (content_of rt).
Proof.
  apply (extreme_agree Z.max ge max_cases); unfold ge; intros; lia.
Qed.
Theorem min_whole_agree rt : wf_r rt -> nz_segs (r_segs rt) ->
  r_extreme_whole Z.min rt = d_extreme_whole Z.min (content_of rt).
Proof. apply (extreme_whole_agree Z.min Z.le min_cases); intros; lia. Qed.
Theorem max_whole_agree rt : wf_r rt -> nz_segs (r_segs rt) ->
  r_extreme_whole Z.max rt = d_extreme_whole Z.max (content_of rt).
Proof. apply (extreme_whole_agree Z.max ge max_cases); unfold ge; intros; lia. Qed.

Theorem vec_min_spec v :
  ((exists x, In x v /\ x <> 0%Z) ->
     exists m, lred Z.min (nonzeros v) = ROk m /\ In m v /\ m <> 0%Z /\ forall x, In x v -> x <> 0%Z -> (m <= x)%Z) /\
  ((forall x, In x v -> x = 0%Z) -> lred Z.min (nonzeros v) = RErr E_VALUE).
Proof. apply (vec_extreme_spec Z.min Z.le min_cases); intros; lia. Qed.
Theorem vec_max_spec v :
  ((exists x, In x v /\ x <> 0%Z) ->
     exists m, lred Z.max (nonzeros v) = ROk m /\ In m v /\ m <> 0%Z /\ forall x, In x v -> x <> 0%Z -> (x <= m)%Z) /\
  ((forall x, In x v -> x = 0%Z) -> lred Z.max (nonzeros v) = RErr E_VALUE).
Proof. apply (vec_extreme_spec Z.max ge max_cases); unfold ge; intros; lia. Qed.

(* ------------------------------------------------------------------ nonzero *)
Lemma get_dense mn ss i j : i < length ss -> j < mn -> get (dense_of_segs mn ss) i j = lookup j (nth i ss []).
Proof.
  intros Hi Hj. unfold get, dense_of_segs.
  rewrite (nth_indep _ [] (row_of_seg mn [])) by (rewrite map_length; exact Hi).
  rewrite (map_nth (row_of_seg mn)). apply nth_row_of_seg. exact Hj.
Qed.

Lemma dense_rows rt : wf_r rt -> dense rt = dense_of_segs (r_nsamp rt) (row_segs rt).
Proof.
  intros W. destruct (vectors_agree rt W) as [VO _]. destruct (axis_dims rt W) as (A & _).
  rewrite <- VO. unfold r_vectors. rewrite A. reflexivity.
Qed.

Lemma In_combine_nth {A B} (a : list A) (b : list B) (da : A) (db : B) x y :
  length a = length b ->
  (In (x, y) (combine a b) <-> exists i, i < length a /\ nth i a da = x /\ nth i b db = y).
Proof.
  intros L. split.
  - intros H. destruct (In_nth _ _ (da, db) H) as [i [Hi E]].
    rewrite combine_length, <- L, Nat.min_id in Hi. rewrite combine_nth in E by exact L.
    inversion E; subst. exists i. repeat split. exact Hi.
  - intros [i [Hi [E1 E2]]]. subst. rewrite <- (combine_nth a b i da db L). apply nth_In.
    rewrite combine_length, <- L, Nat.min_id. exact Hi.
Qed.

Theorem nonzero_members rt : wf_r rt -> nz_segs (r_segs rt) ->
  forall o s, In (o, s) (r_nonzero rt) <-> exists v, cell (content_of rt) o s = Some v /\ v <> 0%Z.
Proof.
  intros W N o s. pose proof W as (NDo & NDs & _).
  destruct (axis_segs_ok rt W) as [FO _]. destruct (axis_segs_nz rt N) as [NO _].
  destruct (axis_dims rt W) as (A1 & A2 & _). rewrite A1 in FO.
  unfold r_nonzero, cell, content_of; simpl. rewrite (dense_rows rt W).
  rewrite in_concat. split.
  - intros [l [Hl Hin]]. apply in_map_iff in Hl. destruct Hl as [[o' sg] [El Hos]]. subst l. simpl in Hin.
    apply in_map_iff in Hin. destruct Hin as [[k v] [Ee He]]. simpl in Ee. inversion Ee; subst o' s. clear Ee.
    apply (In_combine_nth _ _ 0%Z []) in Hos; [|symmetry; exact A2]. destruct Hos as [i [Hi [E1 E2]]]. subst o sg.
    assert (Hsg : In (nth i (row_segs rt) []) (row_segs rt)) by (apply nth_In; unfold r_nobs in A2; lia).
    rewrite Forall_forall in FO. destruct (FO _ Hsg) as [Hn Hb]. rewrite Forall_forall in Hb.
    pose proof (Hb _ He) as Hk. simpl in Hk.
    unfold nz_segs in NO. rewrite Forall_forall in NO. pose proof (NO _ Hsg) as Hz. rewrite Forall_forall in Hz.
    pose proof (Hz _ He) as Hv. simpl in Hv.
    rewrite (pos_nth_NoDup (r_oids rt) i NDo Hi), (pos_nth_NoDup (r_sids rt) k NDs Hk).
    exists v. split; [|exact Hv]. f_equal. rewrite get_dense by (unfold r_nobs in *; lia).
    unfold lookup. rewrite (find_idx_NoDup k v _ Hn He). reflexivity.
  - intros [v [Hc Hv]].
    destruct (pos o (r_oids rt)) as [i|] eqn:Ei; [|discriminate].
    destruct (pos s (r_sids rt)) as [j|] eqn:Ej; [|discriminate].
    apply pos_Some in Ei. apply pos_Some in Ej. destruct Ei as [Eo Hi]. destruct Ej as [Es Hj].
    inversion Hc as [Hg]. clear Hc. rewrite get_dense in Hg by (unfold r_nobs, r_nsamp in *; lia).
    unfold lookup in Hg. destruct (find_idx j (nth i (row_segs rt) [])) as [w|] eqn:Ef; [|congruence].
    subst w. apply find_idx_In in Ef.
    exists (map (fun e => (o, nth (fst e) (r_sids rt) 0%Z)) (nth i (row_segs rt) [])). split.
    + apply in_map_iff. exists (o, nth i (row_segs rt) []). split; [reflexivity|].
      apply (In_combine_nth _ _ 0%Z []); [symmetry; exact A2|]. exists i. repeat split; assumption.
    + apply in_map_iff. exists (j, v). simpl. split; [rewrite Es; reflexivity|exact Ef].
Qed.

Lemma elim_seg_nz s : Forall (fun e => snd e <> 0%Z) s -> elim_seg s = s.
Proof.
  unfold elim_seg. induction s as [|e s IH]; simpl; intros F; [reflexivity|].
  inversion F as [|? ? He F']; subst. unfold nzb at 1. apply Z.eqb_neq in He. rewrite He. simpl.
  f_equal. apply IH. exact F'.
Qed.

Lemma map_snd_combine {A B} (a : list A) (b : list B) : length a = length b -> map snd (combine a b) = b.
Proof.
  revert b. induction a as [|x a IH]; intros [|y b] L; simpl in *; try discriminate; [reflexivity|].
  f_equal. apply IH. lia.
Qed.

Theorem nonzero_length rt : wf_r rt -> nz_segs (r_segs rt) -> length (r_nonzero rt) = count_nonzero (dense rt).
Proof.
  intros W N. destruct (axis_segs_ok rt W) as [FO _]. destruct (axis_segs_nz rt N) as [NO _].
  destruct (axis_dims rt W) as (A1 & A2 & _). rewrite A1 in FO.
  rewrite (dense_rows rt W), <- (nnz_segs_dense _ _ FO).
  unfold r_nonzero. rewrite nsum_map_length_concat, map_map.
  rewrite (map_ext _ (fun os => length (snd os))) by (intros os; apply map_length).
  rewrite <- (map_map snd (@length entry)), map_snd_combine by (symmetry; exact A2).
  f_equal. apply map_ext_in. intros s Hs. unfold nz_segs in NO. rewrite Forall_forall in NO.
  rewrite (elim_seg_nz s (NO s Hs)). reflexivity.
Qed.

(* sorted indices: the pairs come out in row-major order with ascending columns *)
Lemma increasing_head_lt a l : increasing (a :: l) -> Forall (fun x => a < x) l.
Proof.
  revert a. induction l as [|b l IH]; intros a H; [constructor|].
  simpl in H. destruct H as [H1 H2]. constructor; [exact H1|].
  specialize (IH b H2). eapply Forall_impl; [|exact IH]. intros x Hx. simpl in Hx. lia.
Qed.

Lemma increasing_tail a l : increasing (a :: l) -> increasing l.
Proof. destruct l as [|b l]; simpl; [trivial|]. intros [_ H]. exact H. Qed.

Lemma sorted_seg_indices s : forall n a,
  increasing (map fst s) -> Forall (fun e => a <= fst e < a + n) s -> Forall (fun e => snd e <> 0%Z) s ->
  map fst s = filter (fun j => nzb (lookup j s)) (seq a n).
Proof.
  intros n. revert s. induction n as [|n IH]; intros s a I B Z0.
  - destruct s as [|e s]; [reflexivity|]. inversion B; subst. lia.
  - simpl. destruct s as [|[k v] s].
    + simpl. rewrite <- (IH [] (S a)); [reflexivity|exact Logic.I|constructor|constructor].
    + inversion B as [|? ? Bk B']; subst. inversion Z0 as [|? ? Zv Z']; subst. simpl in Bk, Zv.
      pose proof (increasing_head_lt k (map fst s) I) as Hlt. pose proof (increasing_tail k (map fst s) I) as It.
      destruct (Nat.eq_dec k a) as [E|E].
      * subst k. unfold lookup at 1. simpl. rewrite Nat.eqb_refl. unfold nzb at 1.
        apply Z.eqb_neq in Zv. rewrite Zv. simpl. f_equal.
        rewrite (IH s (S a) It); [| |exact Z'].
        -- apply filter_ext_in. intros j Hj. apply in_seq in Hj. unfold lookup. simpl.
           replace (a =? j) with false by (symmetry; apply Nat.eqb_neq; lia). reflexivity.
        -- rewrite Forall_forall in *. intros e He. specialize (B' e He).
           assert (a < fst e) by (apply Hlt; apply in_map; exact He). lia.
      * assert (Ha : lookup a ((k, v) :: s) = 0%Z).
        { apply lookup_None. simpl. intros [H|H]; [lia|].
          rewrite Forall_forall in Hlt. specialize (Hlt a H). lia. }
        rewrite Ha. simpl. apply (IH ((k, v) :: s) (S a) I); [|exact Z0].
        constructor; [simpl; lia|]. rewrite Forall_forall in *. intros e He. specialize (B' e He).
        assert (k < fst e) by (apply Hlt; apply in_map; exact He). lia.
Qed.

Lemma combine_seq_map_from {A} (l : list A) (d : A) (f : nat -> Z) : forall a,
  combine l (map f (seq a (length l))) = map (fun j => (nth (j - a) l d, f j)) (seq a (length l)).
Proof.
  induction l as [|x l IH]; intros a; [reflexivity|]. simpl. rewrite Nat.sub_diag. f_equal.
  rewrite IH. apply map_ext_in. intros j Hj. apply in_seq in Hj.
  destruct (j - a) as [|k] eqn:E; [lia|]. replace (j - S a) with k by lia. reflexivity.
Qed.

Lemma combine_seq_map {A} (l : list A) (d : A) (f : nat -> Z) :
  combine l (map f (seq 0 (length l))) = map (fun j => (nth j l d, f j)) (seq 0 (length l)).
Proof.
  rewrite (combine_seq_map_from l d f 0). apply map_ext. intros j. rewrite Nat.sub_0_r. reflexivity.
Qed.

Lemma filter_map_comm {A B} (p : B -> bool) (h : A -> B) l :
  filter p (map h l) = map h (filter (fun x => p (h x)) l).
Proof. induction l as [|x l IH]; simpl; [reflexivity|]. destruct (p (h x)); simpl; rewrite IH; reflexivity. Qed.

Lemma combine_map_r {A B C} (a : list A) (b : list B) (f : B -> C) :
  combine a (map f b) = map (fun p => (fst p, f (snd p))) (combine a b).
Proof.
  revert b. induction a as [|x a IH]; intros [|y b]; simpl; try reflexivity. f_equal. apply IH.
Qed.

Theorem nonzero_sorted_exact rt : wf_r rt -> nz_segs (r_segs rt) -> sorted_segs (row_segs rt) ->
  r_nonzero rt = d_nonzero (content_of rt).
Proof.
  intros W N S. destruct (axis_segs_ok rt W) as [FO _]. destruct (axis_segs_nz rt N) as [NO _].
  destruct (axis_dims rt W) as (A1 & A2 & _). rewrite A1 in FO.
  unfold r_nonzero, d_nonzero, content_of; simpl. rewrite (dense_rows rt W).
  unfold dense_of_segs. rewrite combine_map_r, map_map. f_equal.
  apply map_ext_in. intros [o sg] Hos. simpl.
  apply in_combine_r in Hos.
  rewrite Forall_forall in FO. destruct (FO _ Hos) as [_ Hb].
  unfold nz_segs in NO. rewrite Forall_forall in NO. pose proof (NO _ Hos) as Hz.
  unfold sorted_segs in S. rewrite Forall_forall in S. pose proof (S _ Hos) as Hi.
  unfold row_of_seg, r_nsamp. rewrite (combine_seq_map (r_sids rt) 0%Z), filter_map_comm, map_map. simpl.
  rewrite <- (sorted_seg_indices sg (length (r_sids rt)) 0 Hi); [rewrite map_map; reflexivity| |exact Hz].
  eapply Forall_impl; [|exact Hb]. intros e He. unfold r_nsamp in He. simpl. lia.
Qed.

Corollary nonzero_csc_exact rt : wf_r rt -> nz_segs (r_segs rt) -> r_fmt rt = CSC ->
  r_nonzero rt = d_nonzero (content_of rt).
Proof.
  intros W N E. apply nonzero_sorted_exact; try assumption.
  unfold row_segs. rewrite E. apply (sorted_swap (r_mn rt)). apply (wf_dims rt W).
Qed.

(* ------------------------------------------------------------------ per-sample statistics *)
Lemma zinsert_perm x l : Permutation (zinsert x l) (x :: l).
Proof.
  induction l as [|y t IH]; simpl; [apply Permutation_refl|].
  destruct (Z.leb x y); [apply Permutation_refl|].
  eapply Permutation_trans; [apply perm_skip; exact IH|apply perm_swap].
Qed.

Lemma zsort_perm l : Permutation (zsort l) l.
Proof.
  induction l as [|x l IH]; simpl; [constructor|].
  eapply Permutation_trans; [apply zinsert_perm|apply perm_skip; exact IH].
Qed.

Lemma zinsert_sorted x l : StronglySorted Z.le l -> StronglySorted Z.le (zinsert x l).
Proof.
  induction l as [|y t IH]; simpl; intros H.
  - constructor; constructor.
  - inversion H as [|? ? Ht Hy]; subst. destruct (Z.leb x y) eqn:E.
    + apply Z.leb_le in E. constructor; [exact H|]. constructor; [exact E|].
      eapply Forall_impl; [|exact Hy]. intros z Hz. simpl in Hz. lia.
    + apply Z.leb_gt in E. constructor; [apply IH; exact Ht|].
      apply Forall_forall. intros z Hz. apply (Permutation_in _ (zinsert_perm x t)) in Hz.
      destruct Hz as [Hz|Hz]; [subst; lia|]. rewrite Forall_forall in Hy. apply Hy. exact Hz.
Qed.

Lemma zsort_sorted l : StronglySorted Z.le (zsort l).
Proof. induction l as [|x l IH]; simpl; [constructor|apply zinsert_sorted; exact IH]. Qed.

Lemma zsort_length l : length (zsort l) = length l.
Proof. apply Permutation_length. apply zsort_perm. Qed.

Theorem stats_spec_nonempty l : l <> [] ->
  let '(mn, mx, med, avg) := stats l in
  (In mn l /\ forall x, In x l -> (mn <= x)%Z) /\
  (In mx l /\ forall x, In x l -> (x <= mx)%Z) /\
  (exists s, Permutation s l /\ StronglySorted Z.le s /\
             med = if Nat.even (length l)
                   then ((nth (length l / 2 - 1) s 0 + nth (length l / 2) s 0)%Z, 2%Z)
                   else (nth (length l / 2) s 0%Z, 1%Z)) /\
  avg = (zsum l, Z.of_nat (length l)).
Proof.
  intros Hl. destruct l as [|x t]; [contradiction|]. unfold stats, fold1. repeat split.
  - apply (fold_op_spec Z.min Z.le min_cases); intros; lia.
  - apply (fold_op_spec Z.min Z.le min_cases); intros; lia.
  - apply (fold_op_spec Z.max ge max_cases); unfold ge; intros; lia.
  - intros y Hy. apply (fold_op_spec Z.max ge max_cases); unfold ge; intros; try lia. exact Hy.
  - exists (zsort (x :: t)). split; [apply zsort_perm|]. split; [apply zsort_sorted|]. reflexivity.
Qed.

Lemma sample_counts_agree binary rt : wf_r rt -> r_sample_counts binary rt = d_sample_counts binary (content_of rt).
Proof.
  intros W. destruct (vectors_agree rt W) as [_ VS].
  unfold r_sample_counts, d_sample_counts. rewrite VS. reflexivity.
Qed.

Theorem stats_agree binary rt : wf_r rt -> r_stats binary rt = d_stats binary (content_of rt).
Proof. intros W. unfold r_stats, d_stats. rewrite (sample_counts_agree binary rt W). reflexivity. Qed.

(* ------------------------------------------------------------------ transpose on the representation *)
Theorem content_transpose rt : wf_r rt -> content_of (rt_transpose rt) = transpose_t (content_of rt).
Proof.
  intros W. destruct (vectors_agree rt W) as [_ VS]. destruct (axis_segs_ok rt W) as [_ FS].
  unfold content_of, rt_transpose, transpose_t, dense, nsamp; simpl.
  rewrite (dense_elim _ _ FS). unfold r_vectors in VS. rewrite VS. reflexivity.
Qed.

Theorem wf_rt_transpose rt : wf_r rt -> wf_r (rt_transpose rt).
Proof.
  intros W. pose proof W as (NDo & NDs & _ & _ & Mo & Ms).
  destruct (axis_segs_ok rt W) as [_ FS]. destruct (axis_dims rt W) as (_ & _ & A3 & A4).
  unfold wf_r, rt_transpose, dims_ok, r_nobs, r_nsamp; simpl. repeat split; try assumption.
  - rewrite map_length. exact A4.
  - apply Forall_forall. intros s Hs. apply in_map_iff in Hs. destruct Hs as [s0 [E Hs0]]. subst.
    apply seg_ok_elim. rewrite Forall_forall in FS. apply FS. exact Hs0.
Qed.

(* ------------------------------------------------------------------ the report *)
Definition r_report_on (o q : bool) (t : rtable) : list (Z * figure) * list (Z * Z) :=
  let counts := r_sample_counts q t in
  (report_lines o q (r_nsamp t) (r_nobs t) counts (r_density t) (md_keys (r_smd t)) (md_keys (r_omd t)),
   ksort (combine (r_sids t) counts)).
Definition d_report_on (o q : bool) (t : table) : list (Z * figure) * list (Z * Z) :=
  let counts := d_sample_counts q t in
  (report_lines o q (nsamp t) (nobs t) counts (d_density t) (md_keys (smd t)) (md_keys (omd t)),
   ksort (combine (sids t) counts)).

Lemma report_on_agree o q t : wf_r t -> r_report_on o q t = d_report_on o q (content_of t).
Proof.
  intros W. unfold r_report_on, d_report_on.
  rewrite (sample_counts_agree q t W), (density_agree t W). reflexivity.
Qed.

Theorem report_agree q o rt : wf_r rt -> r_report q o rt = d_report q o (content_of rt).
Proof.
  intros W. change (r_report q o rt) with (r_report_on o q (if o then rt_transpose rt else rt)).
  change (d_report q o (content_of rt)) with (d_report_on o q (if o then transpose_t (content_of rt) else content_of rt)).
  destruct o.
  - rewrite <- (content_transpose rt W). apply report_on_agree. apply wf_rt_transpose. exact W.
  - apply report_on_agree. exact W.
Qed.

(* the labels of the two counts and of the two key lists change places with --observations *)
Lemma report_lines_swap q ns no counts dens sk ok :
  report_lines true q ns no counts dens sk ok = report_lines false q no ns counts dens ok sk.
Proof. unfold report_lines. destruct (stats counts) as [[[mn mx] med] avg]. reflexivity. Qed.

Lemma wf_content rt : wf_r rt -> wf (content_of rt).
Proof.
  intros W. destruct (dense_shape rt W) as [L R]. destruct W as (NDo & NDs & _ & _ & Mo & Ms).
  unfold wf, content_of, nobs, nsamp; simpl. repeat split; assumption.
Qed.

(* per-observation figures: the sample vectors of the transposed table are the rows *)
Lemma counts_transposed q t : wf t -> d_sample_counts q (transpose_t t) = map (vcount q) (mat t).
Proof.
  intros (H1 & H2 & _). unfold d_sample_counts, transpose_t, nsamp, nobs in *; simpl.
  rewrite <- H1. rewrite transpose_involutive by exact H2. reflexivity.
Qed.

Lemma density_transposed t : wf t -> d_density (transpose_t t) = d_density t.
Proof.
  intros (H1 & H2 & _). unfold d_density, transpose_t, nsamp, nobs in *; simpl.
  rewrite (count_nonzero_transpose _ _ H2), orb_comm, Nat.mul_comm. reflexivity.
Qed.

Theorem report_transposed_spec q t : wf t ->
  d_report q true t =
  (report_lines false q (nsamp t) (nobs t) (map (vcount q) (mat t)) (d_density t) (md_keys (smd t)) (md_keys (omd t)),
   ksort (combine (oids t) (map (vcount q) (mat t)))).
Proof.
  intros W. unfold d_report. rewrite report_lines_swap, (counts_transposed q t W), (density_transposed t W).
  reflexivity.
Qed.

(* the detail lines: every (id, count) once, in ascending order of count *)
Lemma kinsert_perm x l : Permutation (kinsert x l) (x :: l).
Proof.
  induction l as [|y t IH]; simpl; [apply Permutation_refl|].
  destruct (Z.leb (snd x) (snd y)); [apply Permutation_refl|].
  eapply Permutation_trans; [apply perm_skip; exact IH|apply perm_swap].
Qed.

Lemma ksort_perm l : Permutation (ksort l) l.
Proof.
  induction l as [|x l IH]; simpl; [constructor|].
  eapply Permutation_trans; [apply kinsert_perm|apply perm_skip; exact IH].
Qed.

Definition kle (a b : Z * Z) : Prop := (snd a <= snd b)%Z.

Lemma kinsert_sorted x l : StronglySorted kle l -> StronglySorted kle (kinsert x l).
Proof.
  induction l as [|y t IH]; simpl; intros H.
  - constructor; constructor.
  - inversion H as [|? ? Ht Hy]; subst. destruct (Z.leb (snd x) (snd y)) eqn:E.
    + apply Z.leb_le in E. constructor; [exact H|]. constructor; [exact E|].
      eapply Forall_impl; [|exact Hy]. intros z Hz. unfold kle in *. lia.
    + apply Z.leb_gt in E. constructor; [apply IH; exact Ht|].
      apply Forall_forall. intros z Hz. apply (Permutation_in _ (kinsert_perm x t)) in Hz.
      destruct Hz as [Hz|Hz]; [subst; unfold kle; lia|]. rewrite Forall_forall in Hy. apply Hy. exact Hz.
Qed.

Theorem ksort_spec l : Permutation (ksort l) l /\ StronglySorted kle (ksort l).
Proof.
  split; [apply ksort_perm|]. induction l as [|x l IH]; simpl; [constructor|apply kinsert_sorted; exact IH].
Qed.

(* ------------------------------------------------------------------ head *)
Lemma nth_firstn {A} (l : list A) n i d : i < n -> nth i (firstn n l) d = nth i l d.
Proof.
  revert n i. induction l as [|x l IH]; intros n i H; [rewrite firstn_nil; reflexivity|].
  destruct n as [|n]; [lia|]. destruct i as [|i]; simpl; [reflexivity|]. apply IH. lia.
Qed.

Lemma map_fst_combine {A B} (a : list A) (b : list B) : length a = length b -> map fst (combine a b) = a.
Proof.
  revert b. induction a as [|x a IH]; intros [|y b] L; simpl in *; try discriminate; [reflexivity|].
  f_equal. apply IH. lia.
Qed.

Lemma nth_map_firstn {A} m (l : list (list A)) i : nth i (map (firstn m) l) [] = firstn m (nth i l []).
Proof.
  transitivity (nth i (map (firstn m) l) (firstn m [])).
  - f_equal. symmetry. apply firstn_nil.
  - apply map_nth.
Qed.

Theorem cli_head_spec n m rt ss rows : wf_r rt -> cli_head n m rt = ROk (ss, rows) ->
  (0 < n)%Z /\ (0 < m)%Z /\
  ss = firstn (Z.to_nat m) (r_sids rt) /\ map fst rows = firstn (Z.to_nat n) (r_oids rt) /\
  forall i j, i < Nat.min (Z.to_nat n) (r_nobs rt) -> j < Z.to_nat m ->
    nth j (snd (nth i rows (0%Z, []))) 0%Z = get (dense rt) i j.
Proof.
  intros W H. destruct (dense_shape rt W) as [LD _]. unfold cli_head in H.
  destruct ((n <=? 0)%Z || (m <=? 0)%Z) eqn:E; [discriminate|].
  apply orb_false_iff in E. destruct E as [E1 E2]. apply Z.leb_gt in E1. apply Z.leb_gt in E2.
  destruct (r_empty rt); [discriminate|]. inversion H; subst ss rows; clear H.
  assert (LL : length (firstn (Z.to_nat n) (r_oids rt)) =
               length (map (firstn (Z.to_nat m)) (firstn (Z.to_nat n) (dense rt)))).
  { rewrite map_length, !firstn_length, LD. reflexivity. }
  repeat split; try assumption.
  - apply map_fst_combine. exact LL.
  - intros i j Hi Hj. rewrite (combine_nth _ _ i 0%Z [] LL). simpl.
    rewrite nth_map_firstn.
    rewrite (nth_firstn _ (Z.to_nat m) j) by exact Hj. rewrite (nth_firstn _ (Z.to_nat n) i) by lia. reflexivity.
Qed.

Theorem cli_head_refuses n m rt : (n <= 0)%Z \/ (m <= 0)%Z -> cli_head n m rt = RErr E_VALUE.
Proof.
  intros H. unfold cli_head. replace ((n <=? 0)%Z || (m <=? 0)%Z) with true; [reflexivity|].
  symmetry. apply orb_true_iff. destruct H as [H|H]; [left|right]; apply Z.leb_le; exact H.
Qed.

(* ------------------------------------------------------------------ to_dataframe *)
Lemma nth_map_seq {A} (F : nat -> A) n i d : i < n -> nth i (map F (seq 0 n)) d = F i.
Proof.
  intros H. rewrite (nth_indep _ d (F 0)) by (rewrite map_length, seq_length; exact H).
  rewrite map_nth, seq_nth by exact H. reflexivity.
Qed.

Lemma dense_cell rt i j : wf_r rt -> i < r_nobs rt -> j < r_nsamp rt ->
  get (dense rt) i j = match r_fmt rt with
                       | CSR => lookup j (nth i (r_segs rt) [])
                       | CSC => lookup i (nth j (r_segs rt) [])
                       end.
Proof.
  intros W Hi Hj. destruct (wf_dims rt W) as [_ D]. unfold dense. destruct (r_fmt rt); destruct D as [D1 D2].
  - apply get_dense; lia.
  - rewrite get_transpose by lia. apply get_dense; lia.
Qed.

Theorem df_sparse_cells rt i j : wf_r rt -> i < r_nobs rt -> j < r_nsamp rt ->
  match nth j (nth i (df_sparse rt) []) None with
  | Some v => get (dense rt) i j = v
  | None => get (dense rt) i j = 0%Z
  end.
Proof.
  intros W Hi Hj. rewrite (dense_cell rt i j W Hi Hj). unfold df_sparse.
  rewrite nth_map_seq by exact Hi. rewrite nth_map_seq by exact Hj.
  unfold lookup. destruct (r_fmt rt).
  - destruct (find_idx j (nth i (r_segs rt) [])); reflexivity.
  - destruct (find_idx i (nth j (r_segs rt) [])); reflexivity.
Qed.

Theorem df_sparse_missing_iff rt i j : wf_r rt -> nz_segs (r_segs rt) -> i < r_nobs rt -> j < r_nsamp rt ->
  (nth j (nth i (df_sparse rt) []) None = None <-> get (dense rt) i j = 0%Z).
Proof.
  intros W N Hi Hj. pose proof (df_sparse_cells rt i j W Hi Hj) as C.
  destruct (wf_dims rt W) as [_ D].
  unfold df_sparse in *. rewrite nth_map_seq in * by exact Hi. rewrite nth_map_seq in * by exact Hj.
  unfold nz_segs in N. rewrite Forall_forall in N.
  destruct (r_fmt rt); destruct D as [D1 D2].
  - destruct (find_idx j (nth i (r_segs rt) [])) as [v|] eqn:E; [|tauto].
    split; [discriminate|]. intros Hz. exfalso. apply find_idx_In in E.
    assert (Hs : In (nth i (r_segs rt) []) (r_segs rt)) by (apply nth_In; lia).
    specialize (N _ Hs). rewrite Forall_forall in N. apply (N _ E). simpl. congruence.
  - destruct (find_idx i (nth j (r_segs rt) [])) as [v|] eqn:E; [|tauto].
    split; [discriminate|]. intros Hz. exfalso. apply find_idx_In in E.
    assert (Hs : In (nth j (r_segs rt) []) (r_segs rt)) by (apply nth_In; lia).
    specialize (N _ Hs). rewrite Forall_forall in N. apply (N _ E). simpl. congruence.
Qed.

(* ------------------------------------------------------------------ metadata_to_dataframe *)
Definition no_seq (md : list Tree) : Prop :=
  Forall (fun e => Forall (fun kv => is_seq (kv_val kv) = false) (tL e)) md.
Definition zero_widths (w : list (Tree * nat)) : Prop := Forall (fun kn => snd kn = 0) w.

Lemma wset_zero k w : zero_widths w -> zero_widths (wset k 0 w).
Proof.
  unfold zero_widths. induction w as [|[k' n'] w IH]; simpl; intros H.
  - constructor; [reflexivity|constructor].
  - inversion H as [|? ? H1 H2]; subst. simpl in H1. destruct (tree_eqb k k').
    + constructor; [simpl; lia|exact H2].
    + constructor; [exact H1|apply IH; exact H2].
Qed.

Lemma widths_entry_zero kvs : Forall (fun kv => is_seq (kv_val kv) = false) kvs -> forall w,
  zero_widths w -> zero_widths (fold_left (fun w kv => wset (kv_key kv) (kv_width kv) w) kvs w).
Proof.
  induction kvs as [|kv kvs IH]; intros F w Hw; simpl; [exact Hw|].
  inversion F as [|? ? F1 F2]; subst. apply IH; [exact F2|].
  unfold kv_width. rewrite F1. apply wset_zero. exact Hw.
Qed.

Lemma widths_zero md : no_seq md -> zero_widths (widths md).
Proof.
  unfold widths. intros F. assert (G : zero_widths []) by constructor. revert G. generalize (@nil (Tree * nat)).
  induction md as [|e md IH]; intros w Hw; simpl; [exact Hw|].
  inversion F as [|? ? F1 F2]; subst. apply IH; [exact F2|]. apply widths_entry_zero; assumption.
Qed.

Lemma flat_map_zero_cols w : zero_widths w -> flat_map key_columns w = map (fun kn => L [fst kn]) w.
Proof.
  induction w as [|[k n] w IH]; simpl; intros H; [reflexivity|].
  inversion H as [|? ? H1 H2]; subst. simpl in H1. subst n. simpl. f_equal. apply IH. exact H2.
Qed.

Lemma flat_map_zero_cells e w : zero_widths w -> flat_map (key_cells e) w = map (fun kn => md_get (fst kn) e) w.
Proof.
  induction w as [|[k n] w IH]; simpl; intros H; [reflexivity|].
  inversion H as [|? ? H1 H2]; subst. simpl in H1. subst n. simpl. f_equal. apply IH. exact H2.
Qed.

(* scalar metadata: one column per key, every cell is the value found under THAT key for THAT id *)
Theorem md_export_by_key ids md : no_seq md ->
  md_df ids (Some md) =
  ROk (map (fun k => L [k]) (map fst (widths md)), combine ids (d_md_rows (map fst (widths md)) md)).
Proof.
  intros F. pose proof (widths_zero md F) as Z0. unfold md_df, d_md_rows.
  rewrite (flat_map_zero_cols _ Z0), map_map. do 3 f_equal.
  apply map_ext. intros e. rewrite (flat_map_zero_cells e _ Z0), map_map. reflexivity.
Qed.

(* every key of every id has its column *)
Lemma wset_has_key k n w : In k (map fst (wset k n w)).
Proof.
  induction w as [|[k' n'] w IH]; simpl; [left; reflexivity|].
  destruct (tree_eqb k k') eqn:E; simpl.
  - apply tree_eqb_eq in E. left. symmetry. exact E.
  - right. exact IH.
Qed.

Lemma wset_keeps k n w k0 : In k0 (map fst w) -> In k0 (map fst (wset k n w)).
Proof.
  induction w as [|[k' n'] w IH]; simpl; [intros []|].
  intros [H|H]; destruct (tree_eqb k k'); simpl; auto.
Qed.

Lemma widths_entry_keys kvs k0 : forall w,
  In k0 (map fst w) \/ In k0 (map kv_key kvs) ->
  In k0 (map fst (fold_left (fun w kv => wset (kv_key kv) (kv_width kv) w) kvs w)).
Proof.
  induction kvs as [|kv kvs IH]; intros w H; simpl.
  - destruct H as [H|[]]. exact H.
  - apply IH. destruct H as [H|[H|H]].
    + left. apply wset_keeps. exact H.
    + left. subst. apply wset_has_key.
    + right. exact H.
Qed.

Theorem widths_complete md e kv : In e md -> In kv (tL e) -> In (kv_key kv) (map fst (widths md)).
Proof.
  unfold widths. generalize (@nil (Tree * nat)). induction md as [|e0 md IH]; intros w He Hkv; [contradiction|].
  simpl. destruct He as [He|He].
  - subst e0. clear IH.
    assert (G : In (kv_key kv) (map fst (fold_left (fun w kv => wset (kv_key kv) (kv_width kv) w) (tL e) w))).
    { apply widths_entry_keys. right. apply in_map. exact Hkv. }
    revert G. generalize (fold_left (fun w kv => wset (kv_key kv) (kv_width kv) w) (tL e) w).
    induction md as [|e1 md IH]; intros w1 G; simpl; [exact G|].
    apply IH. apply widths_entry_keys. left. exact G.
  - apply IH; assumption.
Qed.

(* ------------------------------------------------------------------ from the array view (Sparse.cs) *)
Lemma In_firstn {A} (x : A) n l : In x (firstn n l) -> In x l.
Proof.
  revert n. induction l as [|y l IH]; intros n H; [rewrite firstn_nil in H; exact H|].
  destruct n as [|n]; [contradiction|]. simpl in H. destruct H as [H|H]; [left; exact H|right; apply (IH n); exact H].
Qed.

Lemma In_skipn {A} (x : A) n l : In x (skipn n l) -> In x l.
Proof.
  revert n. induction l as [|y l IH]; intros n H; [rewrite skipn_nil in H; exact H|].
  destruct n as [|n]; [exact H|]. right. apply (IH n). exact H.
Qed.

Lemma In_seg r i e : In e (seg r i) -> In (fst e) (indices r) /\ In (snd e) (data r).
Proof.
  unfold seg, entries. intros H. apply In_firstn in H. apply In_skipn in H. destruct e as [k v]. simpl.
  split; [eapply in_combine_l|eapply in_combine_r]; exact H.
Qed.

Lemma wf_cs_segs r : wf_cs r -> Forall (seg_ok (minor r)) (segs r) /\ length (segs r) = major r.
Proof.
  intros (_ & _ & _ & _ & _ & Hb & Hn). split.
  - apply Forall_forall. intros s Hs. split.
    + rewrite Forall_forall in Hn. apply Hn. exact Hs.
    + unfold segs in Hs. apply in_map_iff in Hs. destruct Hs as [i [E _]]. subst s.
      apply Forall_forall. intros e He. apply In_seg in He. rewrite Forall_forall in Hb. apply Hb. tauto.
  - unfold segs. rewrite map_length, seq_length. reflexivity.
Qed.

Lemma no_stored_zero_segs r : no_stored_zero r -> nz_segs (segs r).
Proof.
  unfold no_stored_zero, nz_segs. intros H. apply Forall_forall. intros s Hs.
  unfold segs in Hs. apply in_map_iff in Hs. destruct Hs as [i [E _]]. subst s.
  apply Forall_forall. intros e He. apply In_seg in He. rewrite Forall_forall in H. apply H. tauto.
Qed.

Definition wf_table_cs (oids sids : list Z) (f : fmt) (r : cs) (omd smd : option (list Tree)) : Prop :=
  NoDup oids /\ NoDup sids /\ wf_cs r /\
  match f with
  | CSR => major r = length oids /\ minor r = length sids
  | CSC => major r = length sids /\ minor r = length oids
  end /\ md_ok omd (length oids) /\ md_ok smd (length sids).

Theorem of_cs_wf oids sids f r omd smd :
  wf_table_cs oids sids f r omd smd -> wf_r (of_cs oids sids f r omd smd).
Proof.
  intros (A & B & C & D & E & F). destruct (wf_cs_segs r C) as [S L].
  unfold wf_r, of_cs, dims_ok, r_nobs, r_nsamp; simpl. repeat split; try assumption.
  destruct f; destruct D as [D1 D2]; rewrite L; split; assumption.
Qed.

Theorem of_cs_dense oids sids f r omd smd : dense (of_cs oids sids f r omd smd) = matrix_of f r.
Proof. unfold dense, of_cs, matrix_of, dense_of; simpl. destruct f; reflexivity. Qed.

(* ------------------------------------------------------------------ boolean well-formedness (for the examples) *)
Lemma nmem_In x l : nmem x l = true <-> In x l.
Proof.
  unfold nmem. rewrite existsb_exists. split.
  - intros [y [Hy He]]. apply Nat.eqb_eq in He. subst. exact Hy.
  - intros H. exists x. split; [exact H|apply Nat.eqb_refl].
Qed.

Lemma ndup_false_NoDup l : ndup l = false <-> NoDup l.
Proof.
  induction l as [|x t IH]; simpl.
  - split; [constructor|reflexivity].
  - rewrite orb_false_iff. split.
    + intros [A B]. constructor; [|apply IH; exact B]. intros Hin. apply nmem_In in Hin. congruence.
    + intros H. inversion H as [|? ? Hn Hd]; subst. split; [|apply IH; exact Hd].
      destruct (nmem x t) eqn:E; [|reflexivity]. apply nmem_In in E. contradiction.
Qed.

Lemma seg_okb_ok mn s : seg_okb mn s = true <-> seg_ok mn s.
Proof.
  unfold seg_okb, seg_ok. rewrite andb_true_iff, negb_true_iff, ndup_false_NoDup, forallb_forall, Forall_forall.
  split; intros [A B]; (split; [exact A|]); intros e He; specialize (B e He); apply Nat.ltb_lt; exact B.
Qed.

Lemma wf_rb_wf rt : wf_rb rt = true -> wf_r rt.
Proof.
  unfold wf_rb, wf_r, dims_ok. rewrite !andb_true_iff, !negb_true_iff, !zdup_false_NoDup, !md_okb_ok.
  intros (((((A & B) & C) & D) & E) & F). repeat split; try assumption.
  - destruct (r_fmt rt); apply andb_true_iff in C; destruct C as [C1 C2];
      apply Nat.eqb_eq in C1; apply Nat.eqb_eq in C2; split; assumption.
  - apply Forall_forall. intros s Hs. apply seg_okb_ok. rewrite forallb_forall in D. apply D. exact Hs.
Qed.

Lemma nz_segsb_nz ss : nz_segsb ss = true -> nz_segs ss.
Proof.
  unfold nz_segsb, nz_segs. rewrite forallb_forall. intros H. apply Forall_forall. intros s Hs.
  specialize (H s Hs). rewrite forallb_forall in H. apply Forall_forall. intros e He. specialize (H e He).
  unfold nzb in H. apply negb_true_iff in H. apply Z.eqb_neq in H. exact H.
Qed.

(* the numeric lines (3..9) and the detail of the --observations report are those of the plain report of the
   transposed table *)
Definition numeric_lines (r : list (Z * figure) * list (Z * Z)) : list (Z * figure) :=
  filter (fun lf => Z.leb 3 (fst lf) && Z.leb (fst lf) 9) (fst r).

Lemma report_numeric_transposed q t :
  numeric_lines (d_report q true t) = numeric_lines (d_report q false (transpose_t t)) /\
  snd (d_report q true t) = snd (d_report q false (transpose_t t)).
Proof.
  unfold numeric_lines, d_report, report_lines; simpl.
  destruct (stats (d_sample_counts q (transpose_t t))) as [[[mn mx] med] avg]. destruct q; split; reflexivity.
Qed.

(* ------------------------------------------------------------------ metadata export: every key fills exactly its columns *)
Fixpoint wget (k : Tree) (w : list (Tree * nat)) : option nat :=
  match w with
  | [] => None
  | (k', n) :: t => if tree_eqb k k' then Some n else wget k t
  end.

Lemma tree_eqb_neq a b : tree_eqb a b = false <-> a <> b.
Proof.
  split.
  - intros H E. subst. rewrite tree_eqb_refl in H. discriminate.
  - intros H. destruct (tree_eqb a b) eqn:E; [|reflexivity]. apply tree_eqb_eq in E. contradiction.
Qed.

Lemma wget_wset k0 k m w :
  wget k0 (wset k m w) =
  if tree_eqb k0 k then Some (match wget k w with Some n' => Nat.max n' m | None => m end) else wget k0 w.
Proof.
  induction w as [|[k' n'] w IH]; simpl.
  - destruct (tree_eqb k0 k); reflexivity.
  - destruct (tree_eqb k k') eqn:E; simpl.
    + apply tree_eqb_eq in E. subst k'. destruct (tree_eqb k0 k); reflexivity.
    + destruct (tree_eqb k0 k') eqn:E2.
      * apply tree_eqb_eq in E2. subst k'. replace (tree_eqb k0 k) with false; [reflexivity|].
        symmetry. apply tree_eqb_neq. apply tree_eqb_neq in E. congruence.
      * exact IH.
Qed.

Lemma wset_keys_NoDup k m w : NoDup (map fst w) -> NoDup (map fst (wset k m w)).
Proof.
  induction w as [|[k' n'] w IH]; simpl; intros H.
  - constructor; [intros []|constructor].
  - inversion H as [|? ? Hk Hn]; subst. destruct (tree_eqb k k') eqn:E; simpl.
    + constructor; assumption.
    + constructor; [|apply IH; exact Hn]. intros Hin. apply Hk. clear IH H Hn Hk.
      induction w as [|[k2 n2] w IH]; simpl in *.
      * destruct Hin as [Hin|[]]. apply tree_eqb_neq in E. congruence.
      * destruct (tree_eqb k k2); simpl in Hin; destruct Hin as [Hin|Hin]; auto.
Qed.

Lemma wget_In k n w : NoDup (map fst w) -> In (k, n) w -> wget k w = Some n.
Proof.
  induction w as [|[k' n'] w IH]; simpl; intros H Hin; [contradiction|].
  inversion H as [|? ? Hk Hn]; subst. destruct Hin as [Hin|Hin].
  - inversion Hin; subst. rewrite tree_eqb_refl. reflexivity.
  - destruct (tree_eqb k k') eqn:E.
    + apply tree_eqb_eq in E. subst. exfalso. apply Hk. apply in_map_iff. exists (k', n). split; [reflexivity|exact Hin].
    + apply IH; assumption.
Qed.

Definition wbound (w : list (Tree * nat)) (kv : Tree) : Prop :=
  exists n, wget (kv_key kv) w = Some n /\ kv_width kv <= n.

Lemma wbound_wset_keep k m w kv : wbound w kv -> wbound (wset k m w) kv.
Proof.
  intros [n [G L]]. unfold wbound. rewrite wget_wset. destruct (tree_eqb (kv_key kv) k) eqn:E.
  - apply tree_eqb_eq in E. rewrite <- E, G. exists (Nat.max n m). split; [reflexivity|lia].
  - exists n. split; assumption.
Qed.

Lemma wbound_wset_new w kv : wbound (wset (kv_key kv) (kv_width kv) w) kv.
Proof.
  unfold wbound. rewrite wget_wset, tree_eqb_refl.
  destruct (wget (kv_key kv) w) as [n'|]; eexists; split; try reflexivity; lia.
Qed.

Definition wstep (w : list (Tree * nat)) (kv : Tree) := wset (kv_key kv) (kv_width kv) w.

Lemma entry_fold_inv kvs : forall w,
  NoDup (map fst w) ->
  NoDup (map fst (fold_left wstep kvs w)) /\
  (forall kv, wbound w kv -> wbound (fold_left wstep kvs w) kv) /\
  (forall kv, In kv kvs -> wbound (fold_left wstep kvs w) kv).
Proof.
  induction kvs as [|kv0 kvs IH]; intros w N; simpl.
  - split; [exact N|]. split; [auto|intros kv []].
  - destruct (IH (wstep w kv0) (wset_keys_NoDup _ _ _ N)) as (A & B & C). split; [exact A|]. split.
    + intros kv H. apply B. apply wbound_wset_keep. exact H.
    + intros kv [H|H]; [subst; apply B; apply wbound_wset_new|apply C; exact H].
Qed.

Lemma widths_inv md : forall w,
  NoDup (map fst w) ->
  NoDup (map fst (fold_left (fun w e => fold_left wstep (tL e) w) md w)) /\
  (forall kv, wbound w kv -> wbound (fold_left (fun w e => fold_left wstep (tL e) w) md w) kv) /\
  (forall e kv, In e md -> In kv (tL e) -> wbound (fold_left (fun w e => fold_left wstep (tL e) w) md w) kv).
Proof.
  induction md as [|e0 md IH]; intros w N; simpl.
  - split; [exact N|]. split; [auto|intros e kv []].
  - destruct (entry_fold_inv (tL e0) w N) as (A0 & B0 & C0).
    destruct (IH _ A0) as (A & B & C). split; [exact A|]. split.
    + intros kv H. apply B. apply B0. exact H.
    + intros e kv [He|He] Hkv; [subst; apply B; apply C0; exact Hkv|apply (C e kv He Hkv)].
Qed.

Lemma lookup_kv_In k kvs v : lookup_kv k kvs = Some v -> exists kv, In kv kvs /\ kv_key kv = k /\ kv_val kv = v.
Proof.
  induction kvs as [|kv kvs IH]; simpl; [discriminate|].
  destruct (tree_eqb k (kv_key kv)) eqn:E.
  - intros H. inversion H; subst. apply tree_eqb_eq in E. exists kv. repeat split; [left; reflexivity|symmetry; exact E].
  - intros H. destruct (IH H) as (kv' & A & B & C). exists kv'. repeat split; [right; exact A|exact B|exact C].
Qed.

(* whatever the metadata: in every row, every key fills exactly the columns that carry its label
   (no value can land under another key's label, no row is longer or shorter than the label list) *)
Theorem md_df_aligned md e kn : In e md -> In kn (widths md) ->
  length (key_cells e kn) = length (key_columns kn).
Proof.
  intros He Hkn. destruct kn as [k n]. unfold key_cells, key_columns. cbn [fst snd].
  destruct n as [|n']; [reflexivity|]. lazy iota beta. rewrite map_length, seq_length, app_length, repeat_length.
  assert (Hlen : length (if is_seq (md_get k e) then seq_items (md_get k e)
                         else if tree_eqb (md_get k e) md_nan then [] else [md_get k e]) <= S n').
  { destruct (is_seq (md_get k e)) eqn:S1.
    - unfold md_get in *. destruct (lookup_kv k (tL e)) as [v|] eqn:Lk; [|discriminate].
      destruct (lookup_kv_In _ _ _ Lk) as (kv & Hkv & Ek & Ev).
      destruct (widths_inv md [] (NoDup_nil _)) as (N & _ & C).
      destruct (C e kv He Hkv) as [n2 [G L]]. fold (widths md) in N, G.
      change (fold_left (fun w e => fold_left wstep (tL e) w) md []) with (widths md) in G, N.
      rewrite Ek in G. rewrite (wget_In k (S n') (widths md) N Hkn) in G. inversion G; subst n2.
      unfold kv_width in L. rewrite Ev, S1 in L. exact L.
    - destruct (tree_eqb (md_get k e) md_nan); simpl; lia. }
  lia.
Qed.

Corollary md_df_rect ids md cols rows :
  md_df ids (Some md) = ROk (cols, rows) -> Forall (fun r => length (snd r) = length cols) rows.
Proof.
  unfold md_df. intros H. inversion H; subst; clear H. apply Forall_forall. intros [i r] Hr.
  apply in_combine_r in Hr. apply in_map_iff in Hr. destruct Hr as [e [E He]]. subst r. simpl.
  assert (G : forall kn, In kn (widths md) -> length (key_cells e kn) = length (key_columns kn))
    by (intros kn0 H0; apply (md_df_aligned md); assumption).
  revert G. generalize (widths md). intros w0 G.
  induction w0 as [|kn0 w0 IH]; simpl; [reflexivity|].
  rewrite !app_length, (G kn0) by (left; reflexivity). f_equal. apply IH. intros kn1 H1. apply G. right. exact H1.
Qed.
