(* Proofs about Model/Partition.v (property C11): partition and one-to-one collapse. *)
From Coq Require Import List Arith ZArith Lia Bool Permutation Sorted.
From BiomV Require Import Base.Tree Base.ListUtil Base.Matrix Model.Table Model.Orient Model.Filter
  Model.Partition Proofs.OrientProofs Proofs.FilterProofs.
Import ListNotations.

(* ---------------------------------------------------------------- buckets *)
Definition gkeys (g : list (Z * list vrec)) : list Z := map fst g.
Fixpoint bucket (g : list (Z * list vrec)) (l : Z) : list vrec :=
  match g with
  | [] => []
  | (l', b) :: r => if Z.eqb l l' then b else bucket r l
  end.
Definition kept (ign : bool) (l : Z) : bool := negb (ign && Z.eqb l NONE_LABEL).
Definition nonempty_buckets (g : list (Z * list vrec)) : Prop := Forall (fun lb => snd lb <> []) g.

Lemma group_add_bucket g l v l' :
  bucket (group_add g l v) l' = if Z.eqb l' l then bucket g l ++ [v] else bucket g l'.
Proof.
  induction g as [|[l0 b] r IH]; simpl.
  - destruct (Z.eqb l' l); reflexivity.
  - destruct (Z.eqb l l0) eqn:E; simpl.
    + apply Z.eqb_eq in E. subst l0. destruct (Z.eqb l' l); reflexivity.
    + rewrite IH. destruct (Z.eqb l' l0) eqn:E0; [|reflexivity].
      apply Z.eqb_eq in E0. subst l0. rewrite Z.eqb_sym in E. rewrite E. reflexivity.
Qed.

Lemma group_add_keys g l v :
  gkeys (group_add g l v) = if zmem l (gkeys g) then gkeys g else gkeys g ++ [l].
Proof.
  unfold gkeys. induction g as [|[l0 b] r IH]; simpl; [reflexivity|].
  destruct (Z.eqb l l0) eqn:E; simpl; [reflexivity|]. rewrite IH.
  destruct (zmem l (map fst r)); reflexivity.
Qed.

Lemma group_add_NoDup g l v : NoDup (gkeys g) -> NoDup (gkeys (group_add g l v)).
Proof.
  intros H. rewrite group_add_keys. destruct (zmem l (gkeys g)) eqn:E; [exact H|].
  apply NoDup_app_intro; [exact H|constructor; [intros []|constructor]|].
  intros x Hx [Hx'|[]]. subst. apply zmem_In in Hx. congruence.
Qed.

Lemma group_add_nonempty g l v : nonempty_buckets g -> nonempty_buckets (group_add g l v).
Proof.
  unfold nonempty_buckets. induction g as [|[l0 b] r IH]; simpl; intros H.
  - constructor; [simpl; discriminate|constructor].
  - inversion H as [|? ? Hb Hr]; subst. destruct (Z.eqb l l0).
    + constructor; [simpl; destruct b; discriminate|exact Hr].
    + constructor; [exact Hb|apply IH; exact Hr].
Qed.

Lemma bucket_In g l b : NoDup (gkeys g) -> In (l, b) g -> bucket g l = b.
Proof.
  induction g as [|[l0 b0] r IH]; simpl; intros Hn Hi; [contradiction|].
  inversion Hn as [|? ? Hx Hn']; subst. destruct Hi as [Hi|Hi].
  - inversion Hi; subst. rewrite Z.eqb_refl. reflexivity.
  - destruct (Z.eqb l l0) eqn:E; [|apply IH; assumption].
    apply Z.eqb_eq in E. subst. exfalso. apply Hx. apply in_map_iff. exists (l0, b). split; [reflexivity|exact Hi].
Qed.

Lemma fold_groups ign items : forall g,
  NoDup (gkeys g) -> nonempty_buckets g ->
  let g' := fold_left (group_step ign) items g in
  NoDup (gkeys g') /\ nonempty_buckets g' /\
  (forall l, bucket g' l =
             bucket g l ++ map snd (filter (fun lv => Z.eqb l (fst lv) && kept ign (fst lv)) items)) /\
  (forall l, In l (gkeys g') <->
             In l (gkeys g) \/ ((exists v, In (l, v) items) /\ kept ign l = true)).
Proof.
  induction items as [|[l0 v0] items IH]; intros g Hn Hne; simpl.
  - repeat split; try assumption.
    + intros l. rewrite app_nil_r. reflexivity.
    + intros H; left; exact H.
    + intros [H|[[v []] _]]. exact H.
  - assert (Hs : group_step ign g (l0, v0) = if kept ign l0 then group_add g l0 v0 else g).
    { unfold group_step, kept. simpl. destruct (ign && Z.eqb l0 NONE_LABEL); reflexivity. }
    rewrite Hs. destruct (kept ign l0) eqn:Ek.
    + destruct (IH (group_add g l0 v0) (group_add_NoDup g l0 v0 Hn) (group_add_nonempty g l0 v0 Hne))
        as (A & B & C & D). cbv zeta in *. repeat split; try assumption.
      * intros l. rewrite C, group_add_bucket. destruct (Z.eqb l l0) eqn:E; simpl.
        -- apply Z.eqb_eq in E. subst l0. rewrite <- app_assoc. reflexivity.
        -- reflexivity.
      * intros H. apply D in H. rewrite group_add_keys in H. destruct H as [H|[[v Hv] Hk]].
        -- destruct (zmem l0 (gkeys g)); [left; exact H|]. apply in_app_iff in H.
           destruct H as [H|[H|[]]]; [left; exact H|]. subst l0. right. split; [exists v0; left; reflexivity|exact Ek].
        -- right. split; [exists v; right; exact Hv|exact Hk].
      * intros H. apply D. rewrite group_add_keys. destruct H as [H|[[v [Hv|Hv]] Hk]].
        -- left. destruct (zmem l0 (gkeys g)); [exact H|apply in_or_app; left; exact H].
        -- inversion Hv; subst. left. destruct (zmem l (gkeys g)) eqn:Z; [apply zmem_In; exact Z|apply in_or_app; right; left; reflexivity].
        -- right. split; [exists v; exact Hv|exact Hk].
    + destruct (IH g Hn Hne) as (A & B & C & D). cbv zeta in *. repeat split; try assumption.
      * intros l. rewrite C. rewrite andb_false_r. reflexivity.
      * intros H. apply D in H. destruct H as [H|[[v Hv] Hk]]; [left; exact H|].
        right. split; [exists v; right; exact Hv|exact Hk].
      * intros H. apply D. destruct H as [H|[[v [Hv|Hv]] Hk]]; [left; exact H| |right; split; [exists v; exact Hv|exact Hk]].
        inversion Hv; subst. congruence.
Qed.

Lemma filter_combine_select {A} (f : Z -> bool) ls (vs : list A) :
  map snd (filter (fun lv => f (fst lv)) (combine ls vs)) = select (map f ls) vs.
Proof.
  revert vs. induction ls as [|l ls IH]; intros [|v vs]; simpl; try reflexivity.
  destruct (f l); simpl; rewrite IH; reflexivity.
Qed.

Lemma In_combine_same_length {A} (ls : list Z) (vs : list A) (l : Z) :
  length ls = length vs -> ((exists v, In (l, v) (combine ls vs)) <-> In l ls).
Proof.
  revert vs. induction ls as [|x ls IH]; intros [|v vs] H; simpl in *; try discriminate.
  - split; [intros [v Hv]; destruct Hv|intros Hv; destruct Hv].
  - injection H as H. split.
    + intros [w [Hw|Hw]]; [inversion Hw; left; reflexivity|right; apply (IH vs H); exists w; exact Hw].
    + intros [Hx|Hx]; [subst; exists v; left; reflexivity|].
      apply (IH vs H) in Hx. destruct Hx as [w Hw]. exists w. right. exact Hw.
Qed.

(* what the grouping loop computes *)
Lemma groups_spec labels (vs : list vrec) ign :
  length labels = length vs ->
  let g := groups labels vs ign in
  NoDup (gkeys g) /\
  (forall l, In l (gkeys g) <-> In l labels /\ kept ign l = true) /\
  (forall l b, In (l, b) g -> b = select (map (Z.eqb l) labels) vs /\ b <> [] /\ kept ign l = true).
Proof.
  intros Hl. cbv zeta. unfold groups.
  destruct (fold_groups ign (combine labels vs) [] (NoDup_nil _) (Forall_nil _)) as (A & B & C & D).
  cbv zeta in *. set (g := fold_left (group_step ign) (combine labels vs) []) in *.
  assert (D' : forall l, In l (gkeys g) <-> In l labels /\ kept ign l = true).
  { intros l. rewrite D. rewrite In_combine_same_length by exact Hl. simpl. tauto. }
  split; [exact A|]. split; [exact D'|].
  intros l b H.
  assert (Hk : kept ign l = true) by (apply D'; apply in_map_iff; exists (l, b); split; [reflexivity|exact H]).
  split; [|split; [|exact Hk]].
  - rewrite <- (bucket_In g l b A H). rewrite C. simpl.
    rewrite <- filter_combine_select. f_equal. apply filter_ext. intros [l' v]. simpl.
    destruct (Z.eqb l l') eqn:E; [|reflexivity]. apply Z.eqb_eq in E. subst. rewrite Hk. reflexivity.
  - unfold nonempty_buckets in B. rewrite Forall_forall in B. apply (B (l, b) H).
Qed.

(* ---------------------------------------------------------------- vectors of a table *)
Lemma map_fst_combine {A B} (a : list A) (b : list B) : length a = length b -> map fst (combine a b) = a.
Proof. revert b. induction a as [|x a IH]; intros [|y b] H; simpl in *; try discriminate; [reflexivity|]. f_equal. apply IH. lia. Qed.
Lemma map_snd_combine {A B} (a : list A) (b : list B) : length a = length b -> map snd (combine a b) = b.
Proof. revert b. induction a as [|x a IH]; intros [|y b] H; simpl in *; try discriminate; [reflexivity|]. f_equal. apply IH. lia. Qed.

Lemma select_map {A B} (f : A -> B) m (l : list A) : map f (select m l) = select m (map f l).
Proof.
  revert l. induction m as [|b m IH]; intros [|x l]; simpl; try reflexivity.
  destruct b; simpl; rewrite IH; reflexivity.
Qed.

Lemma md_list_len md n : md_ok md n -> length (md_list md n) = n.
Proof. destruct md; simpl; [trivial|intros _; apply repeat_length]. Qed.

Lemma vrecs_facts o :
  wf o ->
  length (vrecs o) = nobs o /\ map v_id (vrecs o) = oids o /\ map v_row (vrecs o) = mat o /\
  map v_md (vrecs o) = md_list (omd o) (nobs o).
Proof.
  intros (W1 & W2 & W3 & W4 & W5 & W6). unfold vrecs, v_id, v_row, v_md.
  assert (L1 : length (combine (oids o) (mat o)) = nobs o) by (rewrite combine_length, W1; unfold nobs; lia).
  assert (L2 : length (md_list (omd o) (nobs o)) = nobs o) by (apply md_list_len; exact W5).
  repeat split.
  - rewrite combine_length, L1, L2. lia.
  - rewrite <- (map_map fst fst). rewrite map_fst_combine by lia. apply map_fst_combine. unfold nobs in *; lia.
  - rewrite <- (map_map fst snd). rewrite map_fst_combine by lia. apply map_snd_combine. unfold nobs in *; lia.
  - apply map_snd_combine. lia.
Qed.

Lemma labels_of_length lab ids : lab_error lab = None -> length (labels_of lab ids) = length ids.
Proof.
  destruct lab; simpl; intros H; try discriminate; rewrite map_length; [apply seq_length|reflexivity|reflexivity].
Qed.

Lemma select_map_In {A} (f : Z -> bool) (ls : list Z) (xs : list A) x :
  In x (select (map f ls) xs) <->
  exists i l, nth_error xs i = Some x /\ nth_error ls i = Some l /\ f l = true.
Proof.
  revert xs. induction ls as [|l ls IH]; intros [|y xs]; simpl.
  - split; [intros []|intros [[|i] [l [H _]]]; discriminate].
  - split; [intros []|intros [[|i] [l [_ [H _]]]]; discriminate].
  - split; [intros []|intros [[|i] [l' [H _]]]; discriminate].
  - destruct (f l) eqn:F; simpl; rewrite IH; split.
    + intros [H|[i [l' [H1 [H2 H3]]]]]; [exists 0, l; subst; repeat split; assumption|exists (S i), l'; repeat split; assumption].
    + intros [[|i] [l' [H1 [H2 H3]]]]; simpl in *; [left; congruence|right; exists i, l'; repeat split; assumption].
    + intros [i [l' [H1 [H2 H3]]]]. exists (S i), l'. repeat split; assumption.
    + intros [[|i] [l' [H1 [H2 H3]]]]; simpl in *; [congruence|exists i, l'; repeat split; assumption].
Qed.

(* ---------------------------------------------------------------- one part (rows) *)
Lemma part_rows_spec o mask :
  wf o ->
  let p := part_rows o (select mask (vrecs o)) in
  oids p = select mask (oids o) /\ sids p = sids o /\ wf p /\ ttype p = ttype o /\
  (forall x y, In x (oids p) -> cell p x y = cell o x y) /\
  (forall x, In x (oids p) -> md_view Obs p x = md_view Obs o x) /\
  (forall y, md_view Samp p y = md_view Samp o y).
Proof.
  intros W. destruct (vrecs_facts o W) as (V1 & V2 & V3 & V4).
  pose proof W as (W1 & W2 & W3 & W4 & W5 & W6). cbv zeta. unfold part_rows.
  rewrite !select_map, V2, V3, V4. cbn [oids sids mat omd smd ttype].
  set (mdl := md_list (omd o) (nobs o)).
  assert (Lm : length mdl = length (oids o)) by (unfold mdl; rewrite md_list_len by exact W5; reflexivity).
  assert (Ls : length (select mask mdl) = length (select mask (oids o))) by (apply select_length_same; exact Lm).
  split; [reflexivity|]. split; [reflexivity|]. split; [|split; [reflexivity|split; [|split]]].
  - unfold wf, nobs, nsamp. cbn [oids sids mat omd smd]. repeat split.
    + apply select_length_same. exact W1.
    + apply (sel_rows_rect mask _ _ W2).
    + apply select_NoDup. exact W3.
    + exact W4.
    + apply md_ok_ctor. cbn [md_ok]. exact Ls.
    + apply md_ok_ctor. exact W6.
  - intros x y Hx.
    change (cell (filter_mask mask Obs o) x y = cell o x y).
    destruct (In_dec Z.eq_dec y (sids o)) as [Hy|Hy].
    + apply filter_mask_cell; [exact W|exact Hx|exact Hy].
    + unfold cell. cbn [filter_mask oids sids mat]. apply pos_None in Hy. rewrite Hy.
      destruct (pos x (select mask (oids o))); destruct (pos x (oids o)); reflexivity.
  - intros x Hx. rewrite !md_view_entry. cbn [ids mds oids omd].
    destruct (pos_In _ _ Hx) as [k Hk]. rewrite Hk.
    destruct (select_pos mask (oids o) mdl md_none x k W3 Lm Hk) as [i [P [Q _]]]. rewrite P.
    rewrite entry_view_ctor.
    pose proof (pos_Some _ _ _ Hk) as [_ Hklt]. pose proof (pos_Some _ _ _ P) as [_ Hilt].
    rewrite entry_view_Some_nth by (rewrite Ls; exact Hklt). rewrite Q.
    apply entry_view_md_list; assumption.
  - intros y. rewrite !md_view_entry. cbn [ids mds sids smd]. destruct (pos y (sids o)); [|reflexivity].
    apply entry_view_ctor.
Qed.

(* ---------------------------------------------------------------- partition, any axis *)
Lemma kept_iff ign l : kept ign l = true <-> (ign = true -> l <> NONE_LABEL).
Proof.
  unfold kept. destruct ign; simpl; [|split; [intros _ H; discriminate|reflexivity]].
  rewrite negb_true_iff, Z.eqb_neq. split; [intros H _; exact H|intros H; apply H; reflexivity].
Qed.

Theorem partition_refuses t a lab ign re c :
  partition_t t a lab ign re = RErr c <-> lab_error lab = Some c.
Proof.
  unfold partition_t. destruct (lab_error lab) as [c'|]; split; intros H; try discriminate; inversion H; reflexivity.
Qed.

Theorem partition_exact t a lab ign parts :
  wf t -> partition_t t a lab ign false = ROk parts ->
  let labels := labels_of lab (ids a t) in
  length labels = length (ids a t) /\
  NoDup (map fst parts) /\
  (forall l, In l (map fst parts) <-> In l labels /\ (ign = true -> l <> NONE_LABEL)) /\
  (forall l p, In (l, p) parts ->
     ids a p = select (map (Z.eqb l) labels) (ids a t) /\ ids a p <> [] /\
     ids (other a) p = ids (other a) t /\
     (forall x y, In x (ids a p) -> cellx a p x y = cellx a t x y) /\
     (forall x, In x (ids a p) -> md_view a p x = md_view a t x) /\
     (forall y, md_view (other a) p y = md_view (other a) t y) /\
     ttype p = ttype t /\ wf p).
Proof.
  intros W H. cbv zeta. unfold partition_t in H. destruct (lab_error lab) eqn:LE; [discriminate|].
  inversion H as [Hp]; clear H.
  set (o := orient a t) in *. assert (Wo : wf o) by (apply wf_orient; exact W).
  destruct (vrecs_facts o Wo) as (V1 & _).
  assert (Eo : oids o = ids a t) by apply oids_orient. rewrite Eo in *.
  set (labels := labels_of lab (ids a t)) in *.
  assert (Ll : length labels = length (ids a t)) by (apply labels_of_length; exact LE).
  assert (Ll' : length labels = length (vrecs o)) by (rewrite V1, Ll, <- Eo; reflexivity).
  destruct (groups_spec labels (vrecs o) ign Ll') as (G1 & G2 & G3). cbv zeta in *.
  set (g := groups labels (vrecs o) ign) in *.
  assert (Ek : map fst (map (fun g0 => (fst g0, orient a (part_rows o (snd g0)))) g) = gkeys g)
    by (rewrite map_map; reflexivity).
  split; [exact Ll|]. split; [rewrite Ek; exact G1|]. split.
  - intros l. rewrite Ek, G2, kept_iff. tauto.
  - intros l p Hin. apply in_map_iff in Hin. destruct Hin as [[l' b] [E Hg]]. simpl in E. inversion E; subst l' p. clear E.
    destruct (G3 l b Hg) as (Eb & Hne & _).
    pose proof (part_rows_spec o (map (Z.eqb l) labels) Wo) as P. cbv zeta in P. rewrite <- Eb in P.
    destruct P as (P1 & P2 & P3 & P4 & P5 & P6 & P7).
    rewrite ids_orient_back, ids_other_orient_back. rewrite Eo in P1.
    split; [exact P1|]. split.
    { unfold part_rows. cbn [oids]. destruct b; [contradiction|discriminate]. }
    split; [rewrite P2; apply sids_orient|]. split; [|split; [|split; [|split]]].
    + intros x y Hx. rewrite cellx_orient by exact P3. rewrite P5 by exact Hx. apply cell_orient. exact W.
    + intros x Hx. rewrite md_view_orient_back. rewrite P6 by exact Hx. apply md_view_orient.
    + intros y. rewrite md_view_orient_back_other, P7. apply md_view_orient_other.
    + rewrite ttype_orient, P4. apply ttype_orient.
    + apply wf_orient. exact P3.
Qed.

(* an id is in the part of label l iff l is its label: the parts are disjoint and cover *)
Theorem partition_membership t a lab ign parts i x l p :
  wf t -> partition_t t a lab ign false = ROk parts ->
  nth_error (ids a t) i = Some x -> In (l, p) parts ->
  (In x (ids a p) <-> nth_error (labels_of lab (ids a t)) i = Some l).
Proof.
  intros W H Hi Hp. destruct (partition_exact t a lab ign parts W H) as (Ll & _ & _ & P). cbv zeta in *.
  destruct (P l p Hp) as (E & _). rewrite E, select_map_In. split.
  - intros [j [l' [H1 [H2 H3]]]]. apply Z.eqb_eq in H3. subst l'.
    assert (i = j); [|subst; exact H2].
    assert (NoDup (ids a t)) as Hn by (destruct W as (_ & _ & W3 & W4 & _); destruct a; assumption).
    eapply NoDup_nth_error; [exact Hn|apply nth_error_Some; congruence|congruence].
  - intros H2. exists i, l. repeat split; [exact Hi|exact H2|apply Z.eqb_refl].
Qed.

Theorem partition_cover t a lab ign parts i x l :
  wf t -> partition_t t a lab ign false = ROk parts ->
  nth_error (ids a t) i = Some x -> nth_error (labels_of lab (ids a t)) i = Some l ->
  (ign = true -> l <> NONE_LABEL) ->
  exists p, In (l, p) parts /\ In x (ids a p).
Proof.
  intros W H Hi Hl Hk. destruct (partition_exact t a lab ign parts W H) as (_ & _ & K & _). cbv zeta in *.
  assert (In l (map fst parts)) as Hin by (apply K; split; [eapply nth_error_In; exact Hl|exact Hk]).
  apply in_map_iff in Hin. destruct Hin as [[l' p] [E Hp]]. simpl in E. subst l'.
  exists p. split; [exact Hp|]. apply (partition_membership t a lab ign parts i x l p W H Hi Hp). exact Hl.
Qed.

Theorem partition_disjoint t a lab ign parts l1 p1 l2 p2 x :
  wf t -> partition_t t a lab ign false = ROk parts ->
  In (l1, p1) parts -> In (l2, p2) parts -> In x (ids a p1) -> In x (ids a p2) -> l1 = l2.
Proof.
  intros W H H1 H2 X1 X2.
  destruct (partition_exact t a lab ign parts W H) as (_ & _ & _ & P). cbv zeta in *.
  assert (In x (ids a t)) as Hx.
  { destruct (P l1 p1 H1) as (E & _). rewrite E in X1. eapply select_In. exact X1. }
  apply In_nth_error in Hx. destruct Hx as [i Hi].
  apply (partition_membership t a lab ign parts i x l1 p1 W H Hi H1) in X1.
  apply (partition_membership t a lab ign parts i x l2 p2 W H Hi H2) in X2. congruence.
Qed.

(* an ignored id (label None with ignore_none) is in no part *)
Theorem partition_ignored t a lab parts i x p l :
  wf t -> partition_t t a lab true false = ROk parts ->
  nth_error (ids a t) i = Some x -> nth_error (labels_of lab (ids a t)) i = Some NONE_LABEL ->
  In (l, p) parts -> ~ In x (ids a p).
Proof.
  intros W H Hi Hl Hp Hx.
  apply (partition_membership t a lab true parts i x l p W H Hi Hp) in Hx.
  assert (l = NONE_LABEL) by congruence. subst l.
  destruct (partition_exact t a lab true parts W H) as (_ & _ & K & _). cbv zeta in *.
  assert (In NONE_LABEL (map fst parts)) as Hin by (apply in_map_iff; exists (NONE_LABEL, p); split; [reflexivity|exact Hp]).
  apply K in Hin. destruct Hin as [_ Hn]. apply Hn; reflexivity.
Qed.

(* remove_empty = True applies remove_empty (axis 'whole') of C08 to every part *)
Theorem partition_remove_empty t a lab ign :
  partition_t t a lab ign true =
  match partition_t t a lab ign false with
  | ROk parts => ROk (map (fun lp => (fst lp, remove_empty_whole (snd lp))) parts)
  | RErr c => RErr c
  end.
Proof.
  unfold partition_t. destruct (lab_error lab); [reflexivity|]. rewrite map_map. reflexivity.
Qed.

(* ---------------------------------------------------------------- collapse, one-to-one *)
Definition big_enough (min_group : Z) (g : Z * list vrec) : bool :=
  Z.leb min_group (Z.of_nat (length (snd g))).

Lemma NoDup_map_fst_filter {A} (p : Z * A -> bool) (g : list (Z * A)) :
  NoDup (map fst g) -> NoDup (map fst (filter p g)).
Proof.
  induction g as [|x g IH]; simpl; intros H; [constructor|].
  inversion H as [|? ? Hx H']; subst. destruct (p x); simpl; [|apply IH; exact H'].
  constructor; [|apply IH; exact H']. intros Hi. apply Hx.
  apply in_map_iff in Hi. destruct Hi as [y [E Hy]]. apply filter_In in Hy.
  apply in_map_iff. exists y. tauto.
Qed.

Lemma pos_map_fst {A} (g : list (Z * A)) l b d :
  NoDup (map fst g) -> In (l, b) g ->
  exists k, pos l (map fst g) = Some k /\ nth k g d = (l, b) /\ k < length g.
Proof.
  unfold pos. induction g as [|[l0 b0] g IH]; simpl; intros Hn Hi; [contradiction|].
  inversion Hn as [|? ? Hx Hn']; subst. destruct Hi as [Hi|Hi].
  - inversion Hi; subst. rewrite Z.eqb_refl. exists 0. repeat split; lia.
  - destruct (Z.eqb l l0) eqn:E.
    + apply Z.eqb_eq in E. subst. exfalso. apply Hx. apply in_map_iff. exists (l0, b). split; [reflexivity|exact Hi].
    + destruct (IH Hn' Hi) as [k [K1 [K2 K3]]]. exists (S k). rewrite K1. simpl. repeat split; [exact K2|lia].
Qed.

Lemma nth_col_sums c m j : j < c -> nth j (col_sums c m) 0%Z = zsum (map (fun r => nth j r 0%Z) m).
Proof.
  intros H. unfold col_sums, transpose. rewrite map_map.
  rewrite (nth_indep _ 0%Z (zsum (mcol m 0))) by (rewrite map_length, seq_length; exact H).
  rewrite (map_nth (fun x => zsum (mcol m x))). rewrite seq_nth by exact H. reflexivity.
Qed.

Lemma col_sums_length c m : length (col_sums c m) = c.
Proof. unfold col_sums. rewrite map_length. apply transpose_length. Qed.

(* the value a vector record holds for an other-axis id *)
Lemma vrec_cell o v y j :
  wf o -> In v (vrecs o) -> pos y (sids o) = Some j -> nth j (v_row v) 0%Z = cell0 o (v_id v) y.
Proof.
  intros W Hv Hj. destruct (vrecs_facts o W) as (V1 & V2 & V3 & V4).
  pose proof W as (W1 & W2 & W3 & W4 & W5 & W6).
  destruct (In_nth _ _ (0%Z, [], md_none) Hv) as [i [Hi Ei]].
  assert (Eid : v_id v = nth i (oids o) 0%Z).
  { rewrite <- V2. rewrite (nth_indep _ 0%Z (v_id (0%Z, [], md_none))) by (rewrite map_length; exact Hi).
    rewrite (map_nth v_id). rewrite Ei. reflexivity. }
  assert (Erow : v_row v = nth i (mat o) []).
  { rewrite <- V3. rewrite (nth_indep _ [] (v_row (0%Z, [], md_none))) by (rewrite map_length; exact Hi).
    rewrite (map_nth v_row). rewrite Ei. reflexivity. }
  unfold cell0, cell. rewrite Eid, Erow. rewrite V1 in Hi.
  rewrite pos_nth_NoDup by assumption. rewrite Hj. reflexivity.
Qed.

Definition kept_groups (o : table) (labels : list Z) (min_group : Z) : list (Z * list vrec) :=
  filter (big_enough min_group) (groups labels (vrecs o) false).

Lemma collapse_rows_inv o labels norm min_group incl c :
  collapse_rows o labels norm min_group incl = c ->
  let gs := kept_groups o labels min_group in
  c = mkC (mkT (map fst gs) (sids o)
               (map (fun g => col_sums (nsamp o) (map v_row (snd g))) gs)
               (if incl then ctor_md (Some (map (fun g => collapsed_md (map v_id (snd g))) gs)) else None)
               (ctor_md (smd o)) (ttype o))
          (map (fun g => if norm then Z.of_nat (length (snd g)) else 1%Z) gs).
Proof. intros <-. reflexivity. Qed.

Section CollapseRows.
  Variables (o : table) (labels : list Z) (norm : bool) (min_group : Z) (incl : bool) (c : collapsed).
  Hypothesis W : wf o.
  Hypothesis Hl : length labels = nobs o.
  Hypothesis Hc : collapse_rows o labels norm min_group incl = c.

  Let gs := kept_groups o labels min_group.
  Let members (l : Z) := select (map (Z.eqb l) labels) (oids o).

  Lemma cr_len : length labels = length (vrecs o).
  Proof. destruct (vrecs_facts o W) as (V1 & _). rewrite V1. exact Hl. Qed.

  Lemma cr_group l b :
    In (l, b) gs -> b = select (map (Z.eqb l) labels) (vrecs o) /\ map v_id b = members l /\
                    (min_group <= Z.of_nat (length (members l)))%Z /\ In l labels /\
                    (forall v, In v b -> In v (vrecs o)).
  Proof.
    intros H. unfold gs, kept_groups in H. apply filter_In in H. destruct H as [Hg Hb].
    destruct (groups_spec labels (vrecs o) false cr_len) as (G1 & G2 & G3). cbv zeta in *.
    destruct (G3 l b Hg) as (Eb & _ & _).
    destruct (vrecs_facts o W) as (_ & V2 & _).
    assert (Em : map v_id b = members l) by (rewrite Eb, select_map, V2; reflexivity).
    repeat split; try assumption.
    - unfold big_enough in Hb. simpl in Hb. apply Z.leb_le in Hb. rewrite <- Em, map_length. exact Hb.
    - apply G2. apply in_map_iff. exists (l, b). split; [reflexivity|exact Hg].
    - intros v Hv. rewrite Eb in Hv. eapply select_In. exact Hv.
  Qed.

  Lemma cr_keys_NoDup : NoDup (map fst gs).
  Proof.
    unfold gs, kept_groups. apply NoDup_map_fst_filter.
    destruct (groups_spec labels (vrecs o) false cr_len) as (G1 & _). exact G1.
  Qed.

  Lemma cr_keys l :
    In l (map fst gs) <-> In l labels /\ (min_group <= Z.of_nat (length (members l)))%Z.
  Proof.
    split.
    - intros H. apply in_map_iff in H. destruct H as [[l' b] [E Hg]]. simpl in E. subst l'.
      destruct (cr_group l b Hg) as (_ & _ & A & B & _). split; assumption.
    - intros [Hin Hm]. destruct (groups_spec labels (vrecs o) false cr_len) as (G1 & G2 & G3). cbv zeta in *.
      assert (In l (gkeys (groups labels (vrecs o) false))) as Hk by (apply G2; split; [exact Hin|reflexivity]).
      apply in_map_iff in Hk. destruct Hk as [[l' b] [E Hg]]. simpl in E. subst l'.
      apply in_map_iff. exists (l, b). split; [reflexivity|]. unfold gs, kept_groups. apply filter_In. split; [exact Hg|].
      destruct (G3 l b Hg) as (Eb & _ & _). destruct (vrecs_facts o W) as (_ & V2 & _).
      unfold big_enough. simpl. apply Z.leb_le.
      assert (length b = length (members l)) as ->; [|exact Hm].
      rewrite <- (map_length v_id b). rewrite Eb, select_map, V2. reflexivity.
  Qed.

  Lemma cr_ids : oids (ctab c) = map fst gs /\ sids (ctab c) = sids o /\ ttype (ctab c) = ttype o.
  Proof. rewrite (collapse_rows_inv _ _ _ _ _ _ Hc). cbv zeta. repeat split. Qed.

  Lemma cr_wf : wf (ctab c).
  Proof.
    pose proof W as (W1 & W2 & W3 & W4 & W5 & W6).
    rewrite (collapse_rows_inv _ _ _ _ _ _ Hc). cbv zeta. fold gs. unfold wf, nobs, nsamp. cbn [ctab oids sids mat omd smd].
    repeat split.
    - rewrite !map_length. reflexivity.
    - apply Forall_forall. intros r Hr. apply in_map_iff in Hr. destruct Hr as [g [<- _]]. apply col_sums_length.
    - apply cr_keys_NoDup.
    - exact W4.
    - destruct incl; [|exact Logic.I]. apply md_ok_ctor. cbn [md_ok]. rewrite !map_length. reflexivity.
    - apply md_ok_ctor. exact W6.
  Qed.

  (* a collapsed vector is the element-wise sum of its members *)
  Lemma cr_cell l b y j :
    In (l, b) gs -> pos y (sids o) = Some j ->
    cell (ctab c) l y = Some (zsum (map (fun x => cell0 o x y) (members l))).
  Proof.
    intros Hg Hj. destruct (cr_group l b Hg) as (Eb & Em & _ & _ & Hsub).
    destruct (pos_map_fst gs l b (0%Z, []) cr_keys_NoDup Hg) as [k [K1 [K2 K3]]].
    rewrite (collapse_rows_inv _ _ _ _ _ _ Hc). cbv zeta. fold gs. unfold cell. cbn [ctab oids sids mat].
    rewrite K1, Hj. f_equal. unfold get.
    rewrite (nth_indep _ [] ((fun g => col_sums (nsamp o) (map v_row (snd g))) (0%Z, [])))
      by (rewrite map_length; exact K3).
    rewrite (map_nth (fun g => col_sums (nsamp o) (map v_row (snd g)))). rewrite K2. cbn [snd].
    pose proof (pos_Some _ _ _ Hj) as [_ Hjlt].
    rewrite nth_col_sums by exact Hjlt. rewrite map_map. rewrite <- Em, map_map. f_equal.
    apply map_ext_in. intros v Hv. apply vrec_cell; [exact W|apply Hsub; exact Hv|exact Hj].
  Qed.

  Lemma cr_div k l :
    nth_error (map fst gs) k = Some l ->
    nth_error (cdiv c) k = Some (if norm then Z.of_nat (length (members l)) else 1%Z).
  Proof.
    intros H. rewrite (collapse_rows_inv _ _ _ _ _ _ Hc). cbv zeta. fold gs. cbn [cdiv].
    rewrite nth_error_map in *. destruct (nth_error gs k) as [[l' b]|] eqn:E; [|discriminate].
    simpl in *. inversion H; subst l'. f_equal. destruct norm; [|reflexivity].
    destruct (cr_group l b (nth_error_In _ _ E)) as (_ & Em & _). rewrite <- Em, map_length. reflexivity.
  Qed.

  Lemma collapsed_md_cast ids0 : cast_entry (collapsed_md ids0) = collapsed_md ids0.
  Proof. reflexivity. Qed.

  Lemma cr_md l :
    incl = true -> In l (map fst gs) -> md_of Obs (ctab c) l = Some (collapsed_md (members l)).
  Proof.
    intros Hi Hin. apply in_map_iff in Hin. destruct Hin as [[l' b] [E Hg]]. simpl in E. subst l'.
    destruct (cr_group l b Hg) as (_ & Em & _).
    destruct (pos_map_fst gs l b (0%Z, []) cr_keys_NoDup Hg) as [k [K1 [K2 K3]]].
    rewrite (collapse_rows_inv _ _ _ _ _ _ Hc). cbv zeta. fold gs. rewrite Hi.
    unfold md_of, md_at. cbn [ctab ids mds oids omd]. rewrite K1.
    unfold ctor_md.
    assert (F : forallb md_falsy (map (fun g => collapsed_md (map v_id (snd g))) gs) = false).
    { destruct gs as [|g0 gs']; [simpl in K3; lia|]. reflexivity. }
    rewrite F. rewrite !nth_error_map.
    rewrite (nth_error_nth' gs (0%Z, [])) by exact K3. rewrite K2. cbn [option_map snd]. rewrite Em. reflexivity.
  Qed.

  Lemma cr_md_off : incl = false -> omd (ctab c) = None.
  Proof. intros Hi. rewrite (collapse_rows_inv _ _ _ _ _ _ Hc). cbv zeta. rewrite Hi. reflexivity. Qed.

  Lemma cr_other_md y : md_view Samp (ctab c) y = md_view Samp o y.
  Proof.
    rewrite !md_view_entry. rewrite (collapse_rows_inv _ _ _ _ _ _ Hc). cbv zeta. cbn [ctab ids mds sids smd].
    destruct (pos y (sids o)); [apply entry_view_ctor|reflexivity].
  Qed.
End CollapseRows.

(* ---- conservation: the buckets hold every vector exactly once ---- *)
Definition gsum (f : vrec -> Z) (g : list (Z * list vrec)) : Z :=
  zsum (map (fun lb => zsum (map f (snd lb))) g).

Lemma gsum_group_add f g l v : gsum f (group_add g l v) = (gsum f g + f v)%Z.
Proof.
  unfold gsum. induction g as [|[l0 b] r IH]; simpl; [lia|].
  destruct (Z.eqb l l0); simpl.
  - rewrite map_app, zsum_app. simpl. lia.
  - rewrite IH. lia.
Qed.

Lemma gsum_fold f items : forall g,
  gsum f (fold_left (group_step false) items g) = (gsum f g + zsum (map (fun lv => f (snd lv)) items))%Z.
Proof.
  induction items as [|[l v] items IH]; intros g; simpl; [lia|].
  rewrite IH. unfold group_step at 1. simpl. rewrite gsum_group_add. lia.
Qed.

Lemma gsum_groups f labels (vs : list vrec) :
  length labels = length vs -> gsum f (groups labels vs false) = zsum (map f vs).
Proof.
  intros H. unfold groups. rewrite gsum_fold. unfold gsum at 1. simpl.
  rewrite <- (map_map snd f). rewrite map_snd_combine by exact H. reflexivity.
Qed.

Lemma filter_all {A} (p : A -> bool) l : (forall x, In x l -> p x = true) -> filter p l = l.
Proof.
  induction l as [|x l IH]; simpl; intros H; [reflexivity|].
  rewrite (H x) by (left; reflexivity). f_equal. apply IH. intros y Hy. apply H. right. exact Hy.
Qed.

Lemma cr_conserves o labels norm min_group incl c y j :
  wf o -> length labels = nobs o -> collapse_rows o labels norm min_group incl = c ->
  (min_group <= 1)%Z -> pos y (sids o) = Some j ->
  zsum (map (fun l => cell0 (ctab c) l y) (oids (ctab c))) = zsum (map (fun x => cell0 o x y) (oids o)).
Proof.
  intros W Hl Hc Hm Hj.
  destruct (cr_ids o labels norm min_group incl c Hc) as (E1 & _). rewrite E1.
  set (f := fun v : vrec => cell0 o (v_id v) y).
  destruct (vrecs_facts o W) as (V1 & V2 & _).
  assert (Ll : length labels = length (vrecs o)) by (rewrite V1; exact Hl).
  assert (Eg : kept_groups o labels min_group = groups labels (vrecs o) false).
  { unfold kept_groups. apply filter_all. intros [l b] Hg.
    destruct (groups_spec labels (vrecs o) false Ll) as (_ & _ & G3). cbv zeta in G3.
    destruct (G3 l b Hg) as (_ & Hne & _). unfold big_enough. simpl. apply Z.leb_le.
    destruct b; [contradiction|]. simpl length. lia. }
  transitivity (gsum f (kept_groups o labels min_group)).
  - unfold gsum. rewrite map_map. f_equal. apply map_ext_in. intros [l b] Hg. cbn [fst snd].
    unfold cell0 at 1. rewrite (cr_cell o labels norm min_group incl c W Hl Hc l b y j Hg Hj).
    destruct (cr_group o labels min_group W Hl l b Hg) as (_ & Em & _). rewrite <- Em, map_map. reflexivity.
  - rewrite Eg, gsum_groups by exact Ll. unfold f. rewrite <- (map_map v_id (fun x => cell0 o x y)), V2. reflexivity.
Qed.

(* ---------------------------------------------------------------- collapse one-to-one, any axis *)
Definition mode_ok (mode : Z) : bool := Z.eqb mode 0 || Z.eqb mode 1.

Lemma collapse_o2o_inv t a lab min_group norm incl mode c :
  collapse_t t a (OneToOne lab min_group) norm incl mode = ROk c ->
  mode_ok mode = true /\ lab_error lab = None /\
  exists c', collapse_rows (orient a t) (labels_of lab (ids a t)) norm min_group incl = c' /\
             c = mkC (orient a (ctab c')) (cdiv c').
Proof.
  unfold collapse_t. fold (mode_ok mode). destruct (mode_ok mode); cbn [negb]; [|discriminate].
  destruct (lab_error lab); [discriminate|]. rewrite oids_orient.
  intros H. inversion H. repeat split. eexists. split; reflexivity.
Qed.

Lemma md_of_orient_back a t x : md_of a (orient a t) x = md_of Obs t x.
Proof. unfold md_of, md_at. rewrite ids_orient_back, mds_orient_back. reflexivity. Qed.

Section CollapseAxis.
  Variables (t : table) (a : axis) (lab : labelling) (min_group : Z) (norm incl : bool) (mode : Z) (c : collapsed).
  Hypothesis W : wf t.
  Hypothesis Hc : collapse_t t a (OneToOne lab min_group) norm incl mode = ROk c.
  Let labels := labels_of lab (ids a t).
  Let members (l : Z) := select (map (Z.eqb l) labels) (ids a t).

  Lemma ca_setup :
    exists c', collapse_rows (orient a t) labels norm min_group incl = c' /\
               c = mkC (orient a (ctab c')) (cdiv c') /\ wf (orient a t) /\
               length labels = nobs (orient a t) /\ oids (orient a t) = ids a t.
  Proof.
    destruct (collapse_o2o_inv _ _ _ _ _ _ _ _ Hc) as (_ & LE & c' & H1 & H2).
    exists c'. split; [exact H1|]. split; [exact H2|]. split; [apply wf_orient; exact W|].
    split; [|apply oids_orient].
    unfold nobs. rewrite oids_orient. apply labels_of_length. exact LE.
  Qed.

  Theorem collapse_ids :
    NoDup (ids a (ctab c)) /\
    (forall l, In l (ids a (ctab c)) <-> In l labels /\ (min_group <= Z.of_nat (length (members l)))%Z) /\
    ids (other a) (ctab c) = ids (other a) t /\
    (forall y, md_view (other a) (ctab c) y = md_view (other a) t y) /\
    ttype (ctab c) = ttype t /\ wf (ctab c) /\ length (cdiv c) = length (ids a (ctab c)).
  Proof.
    destruct ca_setup as (c' & H1 & -> & Wo & Ll & Eo). cbn [ctab cdiv].
    destruct (cr_ids _ _ _ _ _ _ H1) as (I1 & I2 & I3).
    rewrite ids_orient_back, ids_other_orient_back, I1, I2, ttype_orient, I3, ttype_orient, sids_orient.
    split; [apply (cr_keys_NoDup _ _ _ Wo Ll)|]. split.
    { intros l. rewrite (cr_keys _ _ _ Wo Ll l). rewrite Eo. reflexivity. }
    split; [reflexivity|]. split.
    { intros y. rewrite md_view_orient_back_other. rewrite (cr_other_md _ _ _ _ _ _ H1). apply md_view_orient_other. }
    split; [reflexivity|]. split; [apply wf_orient; apply (cr_wf _ _ _ _ _ _ Wo Ll H1)|].
    rewrite (collapse_rows_inv _ _ _ _ _ _ H1). cbv zeta. cbn [cdiv]. rewrite !map_length. reflexivity.
  Qed.

  Theorem collapse_sum l y :
    In l (ids a (ctab c)) -> In y (ids (other a) t) ->
    cellx a (ctab c) l y = Some (zsum (map (fun x => cellx0 a t x y) (members l))).
  Proof.
    destruct ca_setup as (c' & H1 & -> & Wo & Ll & Eo). cbn [ctab]. intros Hin Hy.
    destruct (cr_ids _ _ _ _ _ _ H1) as (I1 & I2 & I3).
    rewrite ids_orient_back, I1 in Hin. apply in_map_iff in Hin. destruct Hin as [[l' b] [E Hg]]. simpl in E. subst l'.
    rewrite <- sids_orient in Hy. destruct (pos_In _ _ Hy) as [j Hj].
    rewrite cellx_orient by (apply (cr_wf _ _ _ _ _ _ Wo Ll H1)).
    rewrite (cr_cell _ _ _ _ _ _ Wo Ll H1 l b y j Hg Hj). rewrite Eo. f_equal. f_equal.
    apply map_ext. intros x. unfold cell0. rewrite cell_orient by exact W. reflexivity.
  Qed.

  Theorem collapse_divisor k l :
    nth_error (ids a (ctab c)) k = Some l ->
    nth_error (cdiv c) k = Some (if norm then Z.of_nat (length (members l)) else 1%Z).
  Proof.
    destruct ca_setup as (c' & H1 & -> & Wo & Ll & Eo). cbn [ctab cdiv]. intros H.
    destruct (cr_ids _ _ _ _ _ _ H1) as (I1 & _). rewrite ids_orient_back, I1 in H.
    rewrite (cr_div _ _ _ _ _ _ Wo Ll H1 k l H). rewrite Eo. reflexivity.
  Qed.

  Theorem collapse_members l :
    incl = true -> In l (ids a (ctab c)) -> md_of a (ctab c) l = Some (collapsed_md (members l)).
  Proof.
    destruct ca_setup as (c' & H1 & -> & Wo & Ll & Eo). cbn [ctab]. intros Hi Hin.
    destruct (cr_ids _ _ _ _ _ _ H1) as (I1 & _). rewrite ids_orient_back, I1 in Hin.
    rewrite md_of_orient_back. rewrite (cr_md _ _ _ _ _ _ Wo Ll H1 l Hi Hin). rewrite Eo. reflexivity.
  Qed.

  Theorem collapse_no_md : incl = false -> mds a (ctab c) = None.
  Proof.
    destruct ca_setup as (c' & H1 & -> & _). cbn [ctab]. intros Hi.
    rewrite mds_orient_back. apply (cr_md_off _ _ _ _ _ _ H1 Hi).
  Qed.

  Theorem collapse_conserves y :
    (min_group <= 1)%Z -> In y (ids (other a) t) ->
    zsum (map (fun l => cellx0 a (ctab c) l y) (ids a (ctab c))) =
    zsum (map (fun x => cellx0 a t x y) (ids a t)).
  Proof.
    destruct ca_setup as (c' & H1 & -> & Wo & Ll & Eo). cbn [ctab]. intros Hm Hy.
    rewrite <- sids_orient in Hy. destruct (pos_In _ _ Hy) as [j Hj].
    rewrite ids_orient_back.
    pose proof (cr_conserves _ _ _ _ _ _ y j Wo Ll H1 Hm Hj) as K. rewrite Eo in K.
    transitivity (zsum (map (fun l => cell0 (ctab c') l y) (oids (ctab c')))).
    - f_equal. apply map_ext. intros l. unfold cellx0. rewrite cellx_orient by (apply (cr_wf _ _ _ _ _ _ Wo Ll H1)). reflexivity.
    - rewrite K. f_equal. apply map_ext. intros x. unfold cell0. rewrite cell_orient by exact W. reflexivity.
  Qed.
End CollapseAxis.

(* when is a one-to-one collapse refused: an unknown mode or a rejected dict, nothing else *)
Theorem collapse_o2o_refuses t a lab min_group norm incl mode e :
  collapse_t t a (OneToOne lab min_group) norm incl mode = RErr e <->
  (mode_ok mode = false /\ e = E_VALUE) \/ (mode_ok mode = true /\ lab_error lab = Some e).
Proof.
  unfold collapse_t. fold (mode_ok mode). destruct (mode_ok mode); cbn [negb].
  2:{ split; [intros H; inversion H; left; split; reflexivity|].
      intros [[_ ->]|[H _]]; [reflexivity|discriminate]. }
  destruct (lab_error lab) as [e'|].
  - split; [intros H; inversion H; right; split; reflexivity|].
    intros [[H _]|[_ H]]; [discriminate|inversion H; reflexivity].
  - split; [discriminate|]. intros [[H _]|[_ H]]; discriminate.
Qed.

(* no label reaches min_group_size: the empty table over the complete other axis *)
Theorem collapse_below_min t a lab min_group norm incl mode c :
  wf t -> collapse_t t a (OneToOne lab min_group) norm incl mode = ROk c ->
  (forall l, In l (labels_of lab (ids a t)) ->
     (Z.of_nat (length (select (map (Z.eqb l) (labels_of lab (ids a t))) (ids a t))) < min_group)%Z) ->
  ids a (ctab c) = [] /\ ids (other a) (ctab c) = ids (other a) t /\ wf (ctab c).
Proof.
  intros W H Hall. destruct (collapse_ids t a lab min_group norm incl mode c W H) as (_ & K & E & _ & _ & Wc & _).
  split; [|split; assumption].
  destruct (ids a (ctab c)) as [|l r] eqn:El; [reflexivity|]. exfalso.
  assert (In l (l :: r)) as Hin by (left; reflexivity). apply K in Hin. destruct Hin as [Hin Hm].
  specialize (Hall l Hin). lia.
Qed.

(* ---------------------------------------------------------------- one-to-many *)
Definition dkeys (d : list (Z * Tree)) : list Z := map fst d.

Lemma dset_keys d k v : dkeys (dset d k v) = if zmem k (dkeys d) then dkeys d else dkeys d ++ [k].
Proof.
  unfold dkeys. induction d as [|[k0 v0] r IH]; simpl; [reflexivity|].
  destruct (Z.eqb k k0) eqn:E; simpl.
  - apply Z.eqb_eq in E. subst. reflexivity.
  - rewrite IH. destruct (zmem k (map fst r)); reflexivity.
Qed.

Lemma dset_NoDup d k v : NoDup (dkeys d) -> NoDup (dkeys (dset d k v)).
Proof.
  intros H. rewrite dset_keys. destruct (zmem k (dkeys d)) eqn:E; [exact H|].
  apply NoDup_app_intro; [exact H|constructor; [intros []|constructor]|].
  intros x Hx [Hx'|[]]. subst. apply zmem_In in Hx. congruence.
Qed.

Lemma dset_keys_In d k v g : In g (dkeys (dset d k v)) <-> In g (dkeys d) \/ g = k.
Proof.
  rewrite dset_keys. destruct (zmem k (dkeys d)) eqn:E.
  - split; [intros H; left; exact H|]. intros [H| ->]; [exact H|apply zmem_In; exact E].
  - rewrite in_app_iff. simpl. split; [intros [H|[H|[]]]; [left; exact H|right; symmetry; exact H]|].
    intros [H| ->]; [left; exact H|right; left; reflexivity].
Qed.

Definition md_inner (d : list (Z * Tree)) (p : list (Tree * Z)) : list (Z * Tree) :=
  fold_left (fun d pg => dset d (snd pg) (fst pg)) p d.

Lemma md_inner_spec p : forall d,
  NoDup (dkeys d) ->
  NoDup (dkeys (md_inner d p)) /\
  (forall g, In g (dkeys (md_inner d p)) <-> In g (dkeys d) \/ exists pw, In (pw, g) p).
Proof.
  unfold md_inner. induction p as [|[pw0 g0] p IH]; intros d Hn; simpl.
  - split; [exact Hn|]. intros g. split; [intros H; left; exact H|intros [H|[pw []]]; exact H].
  - destruct (IH (dset d g0 pw0) (dset_NoDup d g0 pw0 Hn)) as [A B]. split; [exact A|].
    intros g. rewrite B, dset_keys_In. split.
    + intros [[H| ->]|[pw H]]; [left; exact H|right; exists pw0; left; reflexivity|right; exists pw; right; exact H].
    + intros [H|[pw [H|H]]]; [left; left; exact H|inversion H; subst; left; right; reflexivity|right; exists pw; exact H].
Qed.

Lemma new_md_spec paths : forall d,
  NoDup (dkeys d) ->
  let d' := fold_left (fun d p => fold_left (fun d pg => dset d (snd pg) (fst pg)) p d) paths d in
  NoDup (dkeys d') /\
  (forall g, In g (dkeys d') <-> In g (dkeys d) \/ exists p pw, In p paths /\ In (pw, g) p).
Proof.
  induction paths as [|p paths IH]; intros d Hn; simpl.
  - split; [exact Hn|]. intros g. split; [intros H; left; exact H|intros [H|[p [pw [[] _]]]]; exact H].
  - destruct (md_inner_spec p d Hn) as [A B]. unfold md_inner in A, B.
    destruct (IH _ A) as [C D]. cbv zeta in *. split; [exact C|].
    intros g. rewrite D, B. split.
    + intros [[H|[pw H]]|[p' [pw [H1 H2]]]]; [left; exact H|right; exists p, pw; split; [left; reflexivity|exact H]|
                                               right; exists p', pw; split; [right; exact H1|exact H2]].
    + intros [H|[p' [pw [[ <- |H1] H2]]]]; [left; left; exact H|left; right; exists pw; exact H2|right; exists p', pw; split; assumption].
Qed.

(* the accumulation loop keeps the shape of new_data *)
Definition acc_step (order : list Z) (w : Z) (v : list Z) (rows : matrix) (pg : Tree * Z) : matrix :=
  let c := pos0 (snd pg) order in upd rows c (vadd (nth c rows []) (map (Z.mul w) v)).
Definition acc_one (order : list Z) (w : Z) (v : list Z) (p : list (Tree * Z)) (rows : matrix) : matrix :=
  fold_left (acc_step order w v) p rows.
Definition o2m_weight (k : Z) (divide : bool) (p : list (Tree * Z)) : Z :=
  if divide then (k / Z.of_nat (length p))%Z else 1%Z.

Lemma o2m_accumulate_eq rows0 order vecs paths k divide :
  o2m_accumulate rows0 order vecs paths k divide =
  fold_left (fun rows vp => acc_one order (o2m_weight k divide (snd vp)) (fst vp) (snd vp) rows)
            (combine vecs paths) rows0.
Proof. reflexivity. Qed.

Definition shape (n c : nat) (rows : matrix) : Prop := length rows = n /\ rect c rows.

Lemma Forall_upd {A} (P : A -> Prop) (l : list A) i x :
  Forall P l -> (i < length l -> P x) -> Forall P (upd l i x).
Proof.
  intros H Hx. unfold upd. apply Forall_app. split.
  - rewrite Forall_forall in *. intros y Hy. apply H. eapply In_firstn. exact Hy.
  - destruct (skipn i l) as [|y r] eqn:E; [constructor|].
    assert (i < length l) as Hi.
    { destruct (Nat.lt_ge_cases i (length l)) as [Hlt|Hge]; [exact Hlt|]. rewrite skipn_all2 in E by exact Hge. discriminate. }
    constructor; [apply Hx; exact Hi|].
    rewrite Forall_forall in *. intros z Hz. apply H. rewrite <- (firstn_skipn i l). apply in_or_app. right.
    rewrite E. right. exact Hz.
Qed.

Lemma vadd_length a b : length (vadd a b) = Nat.min (length a) (length b).
Proof. unfold vadd. rewrite map_length. apply combine_length. Qed.

Lemma acc_step_shape n c order w v rows pg :
  shape n c rows -> length v = c -> shape n c (acc_step order w v rows pg).
Proof.
  intros [S1 S2] Hv. unfold acc_step. cbv zeta. split; [rewrite upd_length; exact S1|].
  apply Forall_upd; [exact S2|]. intros Hlt.
  rewrite vadd_length, map_length, Hv. rewrite (rect_nth_length c rows _ S2 Hlt). apply Nat.min_id.
Qed.

Lemma acc_one_shape n c order w v p : forall rows,
  shape n c rows -> length v = c -> shape n c (acc_one order w v p rows).
Proof.
  unfold acc_one. induction p as [|pg p IH]; intros rows S Hv; simpl; [exact S|].
  apply IH; [apply acc_step_shape; assumption|exact Hv].
Qed.

Lemma accumulate_shape n c order k divide : forall vps rows,
  shape n c rows -> Forall (fun vp => length (fst vp) = c) vps ->
  shape n c (fold_left (fun rows (vp : list Z * list (Tree * Z)) =>
                          acc_one order (o2m_weight k divide (snd vp)) (fst vp) (snd vp) rows) vps rows).
Proof.
  induction vps as [|vp vps IH]; intros rows S Hf; simpl; [exact S|].
  pose proof (Forall_inv Hf) as Hv. pose proof (Forall_inv_tail Hf) as Hf'. cbv beta in Hv.
  apply IH; [apply acc_one_shape; [exact S|exact Hv]|exact Hf'].
Qed.

Lemma zero_shape n c : shape n c (repeat (zero_row c) n).
Proof.
  split; [apply repeat_length|]. apply Forall_forall. intros r Hr. apply repeat_spec in Hr. subst.
  unfold zero_row. apply repeat_length.
Qed.

Lemma o2m_rows_inv o paths raises strict divide incl key c :
  o2m_rows o paths raises strict divide incl key = ROk c ->
  omd o <> None /\ (strict && existsb (fun b => b) raises) = false /\
  let new_md := new_md_of paths in
  let order := isort (map fst new_md) in
  let k := if divide then lcm_counts paths else 1%Z in
  c = mkC (mkT order (sids o)
               (o2m_accumulate (repeat (zero_row (nsamp o)) (length order)) order (mat o) paths k divide)
               (if incl then ctor_md (Some (map (fun g => path_md key (dget new_md g)) order)) else None)
               (ctor_md (smd o)) (ttype o))
          (repeat k (length order)).
Proof.
  unfold o2m_rows. destruct (omd o); [|discriminate].
  destruct (strict && existsb (fun b => b) raises); [discriminate|].
  intros H. inversion H. repeat split. discriminate.
Qed.

Lemma new_md_keys_NoDup paths : NoDup (map fst (new_md_of paths)).
Proof. destruct (new_md_spec paths [] (NoDup_nil _)) as [A _]. exact A. Qed.

Lemma o2m_rows_wf o paths raises strict divide incl key c :
  wf o -> o2m_rows o paths raises strict divide incl key = ROk c -> wf (ctab c).
Proof.
  intros W H. destruct (o2m_rows_inv _ _ _ _ _ _ _ _ H) as (_ & _ & ->). cbv zeta. cbn [ctab].
  pose proof W as (W1 & W2 & W3 & W4 & W5 & W6).
  set (order := isort (map fst (new_md_of paths))).
  set (k := if divide then lcm_counts paths else 1%Z).
  assert (S : shape (length order) (nsamp o)
                    (o2m_accumulate (repeat (zero_row (nsamp o)) (length order)) order (mat o) paths k divide)).
  { rewrite o2m_accumulate_eq. apply accumulate_shape; [apply zero_shape|].
    apply Forall_forall. intros [v p] Hvp. apply in_combine_l in Hvp. simpl.
    unfold rect in W2. rewrite Forall_forall in W2. apply W2. exact Hvp. }
  destruct S as [S1 S2].
  unfold wf, nobs, nsamp. cbn [oids sids mat omd smd]. repeat split.
  - exact S1.
  - exact S2.
  - apply isort_NoDup. apply new_md_keys_NoDup.
  - exact W4.
  - destruct incl; [|exact Logic.I]. apply md_ok_ctor. cbn [md_ok]. rewrite map_length. reflexivity.
  - apply md_ok_ctor. exact W6.
Qed.

(* ---------------------------------------------------------------- coherence is preserved (for C05) *)
Lemma wf_remove_empty_whole t : wf t -> wf (remove_empty_whole t).
Proof. intros W. unfold remove_empty_whole, remove_empty_axis. apply wf_filter_table. apply wf_filter_table. exact W. Qed.

Theorem partition_wf t a lab ignore_none remove_empty parts :
  wf t -> partition_t t a lab ignore_none remove_empty = ROk parts -> Forall (fun p => wf (snd p)) parts.
Proof.
  intros W H.
  assert (K : forall parts0, partition_t t a lab ignore_none false = ROk parts0 -> Forall (fun p => wf (snd p)) parts0).
  { intros parts0 H0. destruct (partition_exact t a lab ignore_none parts0 W H0) as (_ & _ & _ & P). cbv zeta in P.
    apply Forall_forall. intros [l p] Hin. simpl. destruct (P l p Hin) as (_ & _ & _ & _ & _ & _ & _ & Wp). exact Wp. }
  destruct remove_empty; [|apply K; exact H].
  rewrite partition_remove_empty in H. destruct (partition_t t a lab ignore_none false) as [parts0|e]; [|discriminate].
  inversion H; subst parts. specialize (K parts0 eq_refl). rewrite Forall_forall in *.
  intros lp Hin. apply in_map_iff in Hin. destruct Hin as [lp0 [E Hin]]. subst lp.
  cbn [snd]. apply wf_remove_empty_whole. apply (K lp0 Hin).
Qed.

Theorem collapse_wf t a m norm incl mode c :
  wf t -> collapse_t t a m norm incl mode = ROk c -> wf (ctab c).
Proof.
  intros W H. destruct m as [lab min_group|paths raises strict key].
  - destruct (collapse_ids t a lab min_group norm incl mode c W H) as (_ & _ & _ & _ & _ & Wc & _). exact Wc.
  - unfold collapse_t in H. destruct (negb (Z.eqb mode 0 || Z.eqb mode 1)); [discriminate|].
    destruct norm; [discriminate|].
    destruct (o2m_rows (orient a t) paths raises strict (Z.eqb mode 1) incl key) as [c'|e] eqn:E; [|discriminate].
    inversion H; subst c. cbn [ctab]. apply wf_orient.
    apply (o2m_rows_wf _ _ _ _ _ _ _ _ (wf_orient a t W) E).
Qed.

(* ---------------------------------------------------------------- one-to-many: values *)
Lemma nth_vadd a b y : length a = length b -> nth y (vadd a b) 0%Z = (nth y a 0 + nth y b 0)%Z.
Proof.
  unfold vadd. revert b y. induction a as [|x a IH]; intros [|z b] y H; simpl in *; try discriminate.
  - destruct y; reflexivity.
  - destruct y; [reflexivity|]. apply IH. lia.
Qed.

Lemma nth_scale w v y : nth y (map (Z.mul w) v) 0%Z = (w * nth y v 0)%Z.
Proof. revert y. induction v as [|x v IH]; intros [|y]; simpl; try lia. apply IH. Qed.

Definition cnt (order : list Z) (r : nat) (p : list (Tree * Z)) : nat :=
  length (filter (fun pg => Nat.eqb (pos0 (snd pg) order) r) p).
(* how many times a vector maps to group g *)
Definition mult (g : Z) (p : list (Tree * Z)) : Z :=
  Z.of_nat (length (filter (fun pg => Z.eqb (snd pg) g) p)).

Lemma acc_step_get n c order w v rows pg r y :
  shape n c rows -> length v = c -> pos0 (snd pg) order < n ->
  get (acc_step order w v rows pg) r y =
  (get rows r y + (if Nat.eqb (pos0 (snd pg) order) r then w * nth y v 0 else 0))%Z.
Proof.
  intros [S1 S2] Hv Hlt. unfold acc_step, get. cbv zeta. set (c0 := pos0 (snd pg) order) in *.
  destruct (Nat.eqb c0 r) eqn:E.
  - apply Nat.eqb_eq in E. subst r. rewrite nth_upd_eq by (rewrite S1; exact Hlt).
    rewrite nth_vadd; [rewrite nth_scale; reflexivity|].
    rewrite map_length, Hv. apply (rect_nth_length c rows c0 S2). rewrite S1. exact Hlt.
  - apply Nat.eqb_neq in E. rewrite nth_upd_neq by exact E. lia.
Qed.

Lemma acc_one_get n c order w v p : forall rows r y,
  shape n c rows -> length v = c -> Forall (fun pg => pos0 (snd pg) order < n) p ->
  get (acc_one order w v p rows) r y = (get rows r y + Z.of_nat (cnt order r p) * (w * nth y v 0))%Z.
Proof.
  unfold acc_one, cnt. induction p as [|pg p IH]; intros rows r y S Hv Hf; simpl; [lia|].
  pose proof (Forall_inv Hf) as H1. pose proof (Forall_inv_tail Hf) as H2. cbv beta in H1.
  rewrite IH by (try apply acc_step_shape; assumption).
  rewrite (acc_step_get n c) by assumption.
  destruct (Nat.eqb (pos0 (snd pg) order) r); simpl length; lia.
Qed.

Lemma accumulate_get n c order k divide : forall vps rows r y,
  shape n c rows ->
  Forall (fun vp : list Z * list (Tree * Z) =>
            length (fst vp) = c /\ Forall (fun pg => pos0 (snd pg) order < n) (snd vp)) vps ->
  get (fold_left (fun rows (vp : list Z * list (Tree * Z)) =>
                    acc_one order (o2m_weight k divide (snd vp)) (fst vp) (snd vp) rows) vps rows) r y =
  (get rows r y +
   zsum (map (fun vp : list Z * list (Tree * Z) =>
                Z.of_nat (cnt order r (snd vp)) * (o2m_weight k divide (snd vp) * nth y (fst vp) 0)) vps))%Z.
Proof.
  induction vps as [|vp vps IH]; intros rows r y S Hf; simpl; [lia|].
  pose proof (Forall_inv Hf) as [H1 H2]. pose proof (Forall_inv_tail Hf) as H3.
  rewrite IH by (try apply acc_one_shape; assumption).
  rewrite (acc_one_get n c) by assumption. lia.
Qed.

Lemma get_zero n c r y : get (repeat (zero_row c) n) r y = 0%Z.
Proof.
  unfold get. destruct (Nat.lt_ge_cases r n) as [H|H].
  - rewrite (nth_indep _ [] (zero_row c)) by (rewrite repeat_length; exact H).
    rewrite nth_repeat. unfold zero_row. apply nth_repeat.
  - rewrite (nth_overflow (repeat (zero_row c) n)) by (rewrite repeat_length; exact H). destruct y; reflexivity.
Qed.

Lemma cnt_mult order g p :
  NoDup order -> In g order -> (forall pg, In pg p -> In (snd pg) order) ->
  Z.of_nat (cnt order (pos0 g order) p) = mult g p.
Proof.
  intros Hn Hg Hp. unfold cnt, mult. f_equal. f_equal. apply filter_ext_in. intros pg Hin.
  specialize (Hp pg Hin). destruct (pos0_lt _ _ Hp) as [_ E1]. destruct (pos0_lt _ _ Hg) as [_ E2].
  destruct (Z.eqb (snd pg) g) eqn:E.
  - apply Z.eqb_eq in E. rewrite E. apply Nat.eqb_refl.
  - apply Nat.eqb_neq. intros Heq. apply Z.eqb_neq in E. apply E. rewrite <- E1, <- E2, Heq. reflexivity.
Qed.

Lemma combine_map_l {A B C} (f : A -> B) (xs : list A) (ps : list C) :
  combine (map f xs) ps = map (fun xp => (f (fst xp), snd xp)) (combine xs ps).
Proof. revert ps. induction xs as [|x xs IH]; intros [|p ps]; simpl; try reflexivity. f_equal. apply IH. Qed.

Lemma mat_as_rows o : wf o -> mat o = map (fun x => nth (pos0 x (oids o)) (mat o) []) (oids o).
Proof.
  intros (W1 & _ & W3 & _). set (F := fun x => nth (pos0 x (oids o)) (mat o) []).
  apply (nth_ext _ _ [] (F 0%Z)); [rewrite map_length; exact W1|].
  intros i Hi. rewrite W1 in Hi. rewrite (map_nth F). unfold F. rewrite pos0_nth by assumption. reflexivity.
Qed.

Lemma new_md_groups paths g :
  In g (isort (map fst (new_md_of paths))) <-> exists p pw, In p paths /\ In (pw, g) p.
Proof.
  rewrite isort_In. destruct (new_md_spec paths [] (NoDup_nil _)) as [_ B]. cbv zeta in B.
  unfold new_md_of. fold (dkeys (fold_left (fun d p => fold_left (fun d pg => dset d (snd pg) (fst pg)) p d) paths [])).
  rewrite B. simpl. tauto.
Qed.

Definition o2m_k (divide : bool) (paths : list (list (Tree * Z))) : Z :=
  if divide then lcm_counts paths else 1%Z.

(* rows: the value for (group g, other-axis id y) *)
Lemma o2m_rows_cell o paths raises strict divide incl key c g y :
  wf o -> o2m_rows o paths raises strict divide incl key = ROk c ->
  In g (oids (ctab c)) -> In y (sids o) ->
  cell (ctab c) g y =
  Some (zsum (map (fun xp => mult g (snd xp) * (o2m_weight (o2m_k divide paths) divide (snd xp) * cell0 o (fst xp) y))
                  (combine (oids o) paths)))%Z.
Proof.
  intros W H Hg Hy. destruct (o2m_rows_inv _ _ _ _ _ _ _ _ H) as (_ & _ & ->). cbv zeta in *. cbn [ctab oids] in Hg.
  pose proof W as (W1 & W2 & W3 & W4 & W5 & W6).
  set (order := isort (map fst (new_md_of paths))) in *. fold (o2m_k divide paths).
  set (k := o2m_k divide paths).
  assert (Hno : NoDup order) by (apply isort_NoDup, new_md_keys_NoDup).
  destruct (pos_In _ _ Hg) as [r Hr]. destruct (pos_In _ _ Hy) as [j Hj].
  assert (Er : r = pos0 g order) by (unfold pos0; rewrite Hr; reflexivity).
  unfold cell. cbn [ctab oids sids mat]. rewrite Hr, Hj. f_equal.
  rewrite o2m_accumulate_eq.
  assert (Hf : Forall (fun vp : list Z * list (Tree * Z) =>
                         length (fst vp) = nsamp o /\
                         Forall (fun pg => pos0 (snd pg) order < length order) (snd vp)) (combine (mat o) paths)).
  { apply Forall_forall. intros [v p] Hvp. simpl. split.
    - apply in_combine_l in Hvp. unfold rect in W2. rewrite Forall_forall in W2. apply W2. exact Hvp.
    - apply in_combine_r in Hvp. apply Forall_forall. intros [pw g'] Hpg. simpl.
      apply pos0_lt. apply new_md_groups. exists p, pw. split; assumption. }
  rewrite (accumulate_get (length order) (nsamp o)) by (try apply zero_shape; exact Hf).
  rewrite get_zero, Z.add_0_l.
  rewrite (mat_as_rows o W) at 1. rewrite combine_map_l, map_map. f_equal.
  apply map_ext_in. intros [x p] Hxp. cbn [fst snd].
  assert (In x (oids o)) as Hx by (eapply in_combine_l; exact Hxp).
  assert (In p paths) as Hp by (eapply in_combine_r; exact Hxp).
  rewrite Er. rewrite cnt_mult; [|exact Hno|exact Hg|].
  2:{ intros [pw g'] Hpg. simpl. apply new_md_groups. exists p, pw. split; assumption. }
  f_equal. f_equal. unfold cell0, cell. destruct (pos_In _ _ Hx) as [i Hi]. unfold pos0. rewrite Hi, Hj. reflexivity.
Qed.

(* the lcm of the group counts is positive and divisible by every non-zero count *)
Lemma lcm_counts_pos paths : (0 < lcm_counts paths)%Z.
Proof.
  induction paths as [|p paths IH]; simpl; [lia|]. destruct p as [|pg p]; [exact IH|].
  set (d := Z.of_nat (length (pg :: p))). assert (0 < d)%Z by (unfold d; simpl length; lia).
  pose proof (Z.lcm_nonneg d (lcm_counts paths)).
  assert (Z.lcm d (lcm_counts paths) <> 0)%Z; [|lia].
  intros E. apply Z.lcm_eq_0 in E. lia.
Qed.

Lemma lcm_counts_div paths p :
  In p paths -> p <> [] -> (Z.of_nat (length p) | lcm_counts paths)%Z.
Proof.
  induction paths as [|q paths IH]; simpl; intros Hin Hne; [contradiction|].
  destruct Hin as [->|Hin].
  - destruct p as [|pg p]; [contradiction|]. apply Z.divide_lcm_l.
  - destruct q as [|qg q]; [apply IH; assumption|].
    eapply Z.divide_trans; [apply IH; assumption|apply Z.divide_lcm_r].
Qed.

Lemma divide_weight paths p :
  In p paths -> p <> [] ->
  (Z.of_nat (length p) * (lcm_counts paths / Z.of_nat (length p)) = lcm_counts paths)%Z.
Proof.
  intros Hin Hne. destruct (lcm_counts_div paths p Hin Hne) as [q Hq].
  assert (Z.of_nat (length p) <> 0)%Z by (destruct p; [contradiction|simpl length; lia]).
  rewrite Hq. rewrite Z.div_mul by assumption. lia.
Qed.

Lemma zsum_indicator (x : Z) l :
  NoDup l -> In x l -> zsum (map (fun g => if Z.eqb x g then 1 else 0)%Z l) = 1%Z.
Proof.
  induction l as [|y l IH]; simpl; intros Hn Hi; [contradiction|].
  inversion Hn as [|? ? Hy Hn']; subst. destruct (Z.eqb x y) eqn:E.
  - apply Z.eqb_eq in E. subst y.
    assert (zsum (map (fun g => if Z.eqb x g then 1 else 0)%Z l) = 0%Z) as ->; [|lia].
    clear -Hy. induction l as [|z l IH]; simpl; [reflexivity|].
    destruct (Z.eqb x z) eqn:E; [apply Z.eqb_eq in E; subst; exfalso; apply Hy; left; reflexivity|].
    rewrite IH; [reflexivity|]. intros H. apply Hy. right. exact H.
  - destruct Hi as [Hi|Hi]; [subst; rewrite Z.eqb_refl in E; discriminate|]. rewrite IH by assumption. lia.
Qed.

Lemma mult_total order p :
  NoDup order -> (forall pg, In pg p -> In (snd pg) order) ->
  zsum (map (fun g => mult g p) order) = Z.of_nat (length p).
Proof.
  intros Hn. unfold mult. induction p as [|pg p IH]; intros Hp; simpl.
  - clear. induction order as [|g order IH]; simpl; [reflexivity|exact IH].
  - transitivity (zsum (map (fun g => (if Z.eqb (snd pg) g then 1 else 0) +
                                      Z.of_nat (length (filter (fun pg0 : Tree * Z => Z.eqb (snd pg0) g) p)))%Z order)).
    + f_equal. apply map_ext. intros g. destruct (Z.eqb (snd pg) g); simpl length; lia.
    + rewrite (zsum_map_add (fun g => if Z.eqb (snd pg) g then 1 else 0)%Z).
      rewrite zsum_indicator by (try assumption; apply Hp; left; reflexivity).
      rewrite IH by (intros pg' H; apply Hp; right; exact H). lia.
Qed.

Lemma zsum_swap {A B} (f : A -> B -> Z) (xs : list A) (ys : list B) :
  zsum (map (fun x => zsum (map (fun y => f x y) ys)) xs) =
  zsum (map (fun y => zsum (map (fun x => f x y) xs)) ys).
Proof.
  induction xs as [|x xs IH]; simpl.
  - induction ys as [|y ys IHy]; simpl; [reflexivity|]. rewrite <- IHy. reflexivity.
  - rewrite IH. rewrite <- (zsum_map_add (fun y => f x y) (fun y => zsum (map (fun x0 => f x0 y) xs))). reflexivity.
Qed.

Lemma zsum_scale (k : Z) {A} (f : A -> Z) l : zsum (map (fun x => k * f x)%Z l) = (k * zsum (map f l))%Z.
Proof. induction l as [|x l IH]; simpl; [lia|]. rewrite IH. lia. Qed.

(* rows: 'divide' conserves every other-axis total (scaled by the common denominator) *)
Lemma o2m_rows_conserves o paths raises strict incl key c y :
  wf o -> length paths = nobs o -> o2m_rows o paths raises strict true incl key = ROk c ->
  (forall p, In p paths -> p <> []) -> In y (sids o) ->
  zsum (map (fun g => cell0 (ctab c) g y) (oids (ctab c))) =
  (lcm_counts paths * zsum (map (fun x => cell0 o x y) (oids o)))%Z.
Proof.
  intros W Hl H Hne Hy.
  assert (E : forall g, In g (oids (ctab c)) ->
            cell0 (ctab c) g y =
            zsum (map (fun xp => mult g (snd xp) * (o2m_weight (lcm_counts paths) true (snd xp) * cell0 o (fst xp) y))%Z
                      (combine (oids o) paths))).
  { intros g Hg. unfold cell0 at 1. rewrite (o2m_rows_cell _ _ _ _ _ _ _ _ g y W H Hg Hy). reflexivity. }
  rewrite (map_ext_in _ _ _ E). clear E.
  destruct (o2m_rows_inv _ _ _ _ _ _ _ _ H) as (_ & _ & ->). cbv zeta. cbn [ctab oids].
  set (order := isort (map fst (new_md_of paths))).
  rewrite (zsum_swap (fun g xp => mult g (snd xp) * (o2m_weight (lcm_counts paths) true (snd xp) * cell0 o (fst xp) y))%Z).
  assert (Hno : NoDup order) by (apply isort_NoDup, new_md_keys_NoDup).
  transitivity (zsum (map (fun xp : Z * list (Tree * Z) => lcm_counts paths * cell0 o (fst xp) y)%Z (combine (oids o) paths))).
  - f_equal. apply map_ext_in. intros [x p] Hxp. cbn [fst snd].
    assert (In p paths) as Hp by (eapply in_combine_r; exact Hxp).
    set (X := cell0 o x y). set (w := o2m_weight (lcm_counts paths) true p).
    transitivity (zsum (map (fun g => mult g p) order) * (w * X))%Z.
    + clear. induction order as [|g order IH]; simpl; [reflexivity|]. rewrite IH. lia.
    + rewrite mult_total; [|exact Hno|].
      2:{ intros [pw g'] Hpg. simpl. apply new_md_groups. exists p, pw. split; assumption. }
      unfold w, o2m_weight. rewrite Z.mul_assoc. rewrite divide_weight by (try apply Hne; assumption). reflexivity.
  - rewrite (zsum_scale (lcm_counts paths) (fun xp : Z * list (Tree * Z) => cell0 o (fst xp) y)). f_equal.
    rewrite <- (map_map fst (fun x => cell0 o x y)). rewrite map_fst_combine by (rewrite Hl; reflexivity). reflexivity.
Qed.

(* the pathway remembered for a group is one of the pathways yielded with it *)
Lemma dset_entries d k v k' v' : In (k', v') (dset d k v) -> In (k', v') d \/ (k', v') = (k, v).
Proof.
  induction d as [|[k0 v0] r IH]; simpl; [intros [H|[]]; right; symmetry; exact H|].
  destruct (Z.eqb k k0); simpl.
  - intros [H|H]; [right; symmetry; exact H|left; right; exact H].
  - intros [H|H]; [left; left; exact H|]. destruct (IH H) as [H'|H']; [left; right; exact H'|right; exact H'].
Qed.

Lemma new_md_entries paths : forall d k v,
  In (k, v) (fold_left (fun d p => fold_left (fun d pg => dset d (snd pg) (fst pg)) p d) paths d) ->
  In (k, v) d \/ exists p, In p paths /\ In (v, k) p.
Proof.
  induction paths as [|p paths IH]; intros d k v H; simpl in H; [left; exact H|].
  destruct (IH _ k v H) as [H1|[p' [A B]]]; [|right; exists p'; split; [right; exact A|exact B]].
  assert (In (k, v) d \/ In (v, k) p) as K.
  { clear -H1. revert d H1. induction p as [|[pw g] p IHp]; intros d H1; simpl in H1; [left; exact H1|].
    destruct (IHp _ H1) as [H2|H2]; [|right; right; exact H2].
    destruct (dset_entries _ _ _ _ _ H2) as [H3|H3]; [left; exact H3|]. inversion H3; subst. right. left. reflexivity. }
  destruct K as [K|K]; [left; exact K|right; exists p; split; [left; reflexivity|exact K]].
Qed.

Lemma dget_In d k : In k (dkeys d) -> In (k, dget d k) d.
Proof.
  unfold dkeys. induction d as [|[k0 v0] r IH]; simpl; intros H; [contradiction|].
  destruct (Z.eqb k k0) eqn:E.
  - apply Z.eqb_eq in E. subst. left. reflexivity.
  - right. apply IH. destruct H as [H|H]; [subst; rewrite Z.eqb_refl in E; discriminate|exact H].
Qed.

(* ---------------------------------------------------------------- one-to-many, any axis *)
Lemma collapse_o2m_inv t a paths raises strict key norm incl mode c :
  collapse_t t a (OneToMany paths raises strict key) norm incl mode = ROk c ->
  mode_ok mode = true /\ norm = false /\
  exists c', o2m_rows (orient a t) paths raises strict (Z.eqb mode 1) incl key = ROk c' /\
             c = mkC (orient a (ctab c')) (cdiv c').
Proof.
  unfold collapse_t. fold (mode_ok mode). destruct (mode_ok mode); cbn [negb]; [|discriminate].
  destruct norm; [discriminate|].
  destruct (o2m_rows (orient a t) paths raises strict (Z.eqb mode 1) incl key) as [c'|e]; [|discriminate].
  intros H. inversion H. repeat split. exists c'. split; reflexivity.
Qed.

Section O2MAxis.
  Variables (t : table) (a : axis) (paths : list (list (Tree * Z))) (raises : list bool) (strict : bool)
            (key : Tree) (norm incl : bool) (mode : Z) (c : collapsed).
  Hypothesis W : wf t.
  Hypothesis Hc : collapse_t t a (OneToMany paths raises strict key) norm incl mode = ROk c.
  Let divide := Z.eqb mode 1.
  Let K := o2m_k divide paths.

  Theorem o2m_ids :
    StronglySorted Z.lt (ids a (ctab c)) /\
    (forall g, In g (ids a (ctab c)) <-> exists p pw, In p paths /\ In (pw, g) p) /\
    ids (other a) (ctab c) = ids (other a) t /\
    (forall y, md_view (other a) (ctab c) y = md_view (other a) t y) /\
    ttype (ctab c) = ttype t /\
    cdiv c = repeat K (length (ids a (ctab c))) /\ (0 < K)%Z /\ mds a t <> None /\ norm = false.
  Proof.
    destruct (collapse_o2m_inv _ _ _ _ _ _ _ _ _ _ Hc) as (_ & Hn & c' & H1 & ->). cbn [ctab cdiv].
    destruct (o2m_rows_inv _ _ _ _ _ _ _ _ H1) as (Hmd & _ & E). cbv zeta in E. subst c'. cbn [ctab cdiv].
    rewrite ids_orient_back, ids_other_orient_back, ttype_orient. cbn [oids sids ttype].
    rewrite omd_orient in Hmd. rewrite !sids_orient.
    split; [apply isort_strict, new_md_keys_NoDup|]. split; [apply new_md_groups|]. split; [reflexivity|].
    split.
    { intros y. rewrite md_view_orient_back_other. rewrite !md_view_entry. cbn [ids mds sids smd].
      rewrite <- sids_orient, <- smd_orient. destruct (pos y (sids (orient a t))); [apply entry_view_ctor|reflexivity]. }
    split; [rewrite ?ttype_orient; cbn [ttype]; rewrite ?ttype_orient; reflexivity|]. split; [reflexivity|]. split; [|split; [exact Hmd|exact Hn]].
    unfold K, o2m_k. destruct divide; [apply lcm_counts_pos|lia].
  Qed.

  Theorem o2m_value g y :
    In g (ids a (ctab c)) -> In y (ids (other a) t) ->
    cellx a (ctab c) g y =
    Some (zsum (map (fun xp => mult g (snd xp) * (o2m_weight K divide (snd xp) * cellx0 a t (fst xp) y))%Z
                    (combine (ids a t) paths))).
  Proof.
    destruct (collapse_o2m_inv _ _ _ _ _ _ _ _ _ _ Hc) as (_ & Hn & c' & H1 & ->). cbn [ctab]. intros Hg Hy.
    assert (Wo : wf (orient a t)) by (apply wf_orient; exact W).
    rewrite ids_orient_back in Hg. rewrite <- sids_orient in Hy.
    rewrite cellx_orient by (apply (o2m_rows_wf _ _ _ _ _ _ _ _ Wo H1)).
    rewrite (o2m_rows_cell _ _ _ _ _ _ _ _ g y Wo H1 Hg Hy). rewrite oids_orient. f_equal. f_equal.
    apply map_ext. intros xp. unfold cell0. rewrite cell_orient by exact W. reflexivity.
  Qed.

  (* 'add': a vector contributes its full counts to each group it maps to, once per occurrence *)
  Theorem o2m_add g y :
    mode = 0%Z -> In g (ids a (ctab c)) -> In y (ids (other a) t) ->
    cellx a (ctab c) g y =
    Some (zsum (map (fun xp => mult g (snd xp) * cellx0 a t (fst xp) y)%Z (combine (ids a t) paths))) /\
    cdiv c = repeat 1%Z (length (ids a (ctab c))).
  Proof.
    intros Hm Hg Hy. split.
    - rewrite (o2m_value g y Hg Hy). f_equal. f_equal. apply map_ext. intros xp.
      unfold o2m_weight, divide. rewrite Hm. simpl. destruct (cellx0 a t (fst xp) y); reflexivity.
    - destruct o2m_ids as (_ & _ & _ & _ & _ & E & _). rewrite E. unfold K, o2m_k, divide. rewrite Hm. reflexivity.
  Qed.

  (* 'divide': weight * number of groups = the common denominator, so the value is counts / number of groups *)
  Theorem o2m_divide_weight p :
    mode = 1%Z -> In p paths -> p <> [] ->
    (Z.of_nat (length p) * o2m_weight K divide p = K)%Z.
  Proof.
    intros Hm Hp Hne. unfold o2m_weight, K, o2m_k, divide. rewrite Hm. simpl. apply divide_weight; assumption.
  Qed.

  Theorem o2m_divide_conserves y :
    mode = 1%Z -> length paths = length (ids a t) -> (forall p, In p paths -> p <> []) ->
    In y (ids (other a) t) ->
    zsum (map (fun g => cellx0 a (ctab c) g y) (ids a (ctab c))) =
    (K * zsum (map (fun x => cellx0 a t x y) (ids a t)))%Z.
  Proof.
    intros Hm Hl Hne Hy.
    destruct (collapse_o2m_inv _ _ _ _ _ _ _ _ _ _ Hc) as (_ & Hn & c' & H1 & ->). cbn [ctab].
    assert (Wo : wf (orient a t)) by (apply wf_orient; exact W).
    rewrite ids_orient_back. rewrite <- sids_orient in Hy.
    assert (Hd : Z.eqb mode 1 = true) by (rewrite Hm; reflexivity). rewrite Hd in H1.
    assert (Hl' : length paths = nobs (orient a t)) by (unfold nobs; rewrite oids_orient; exact Hl).
    pose proof (o2m_rows_conserves _ _ _ _ _ _ _ y Wo Hl' H1 Hne Hy) as E. rewrite oids_orient in E.
    unfold K, o2m_k, divide. rewrite Hd.
    transitivity (zsum (map (fun g => cell0 (ctab c') g y) (oids (ctab c')))).
    - f_equal. apply map_ext. intros g. unfold cellx0. rewrite cellx_orient by (apply (o2m_rows_wf _ _ _ _ _ _ _ _ Wo H1)). reflexivity.
    - rewrite E. f_equal. f_equal. apply map_ext. intros x. unfold cell0. rewrite cell_orient by exact W. reflexivity.
  Qed.

  (* metadata of a group: {key: pathway} for one of the pathways yielded with that group *)
  Theorem o2m_md g :
    incl = true -> In g (ids a (ctab c)) ->
    exists pw p, md_of a (ctab c) g = Some (path_md key pw) /\ In p paths /\ In (pw, g) p.
  Proof.
    intros Hi Hg.
    destruct (collapse_o2m_inv _ _ _ _ _ _ _ _ _ _ Hc) as (_ & Hn & c' & H1 & ->). cbn [ctab] in *.
    destruct (o2m_rows_inv _ _ _ _ _ _ _ _ H1) as (_ & _ & E). cbv zeta in E. subst c'. cbn [ctab] in *.
    rewrite ids_orient_back in Hg. cbn [oids] in Hg. rewrite md_of_orient_back.
    set (nm := new_md_of paths) in *. set (order := isort (map fst nm)) in *.
    assert (Hk : In g (dkeys nm)) by (apply isort_In; exact Hg).
    pose proof (dget_In nm g Hk) as Hent.
    destruct (new_md_entries paths [] g (dget nm g) Hent) as [[]|[p [Hp Hpg]]].
    exists (dget nm g), p. split; [|split; assumption].
    rewrite Hi. unfold md_of, md_at. cbn [ids mds oids omd].
    destruct (pos_In _ _ Hg) as [r Hr]. rewrite Hr. pose proof (pos_Some _ _ _ Hr) as [Hnth Hlt].
    unfold ctor_md.
    assert (F : forallb md_falsy (map (fun g0 => path_md key (dget nm g0)) order) = false).
    { destruct order as [|g0 order']; [simpl in Hlt; lia|]. reflexivity. }
    rewrite F. rewrite !nth_error_map. rewrite (nth_error_nth' order 0%Z) by exact Hlt. rewrite Hnth. reflexivity.
  Qed.
End O2MAxis.

Theorem o2m_refuses t a paths raises strict key norm incl mode e :
  collapse_t t a (OneToMany paths raises strict key) norm incl mode = RErr e <->
  (mode_ok mode = false /\ e = E_VALUE) \/
  (mode_ok mode = true /\ norm = true /\ e = E_OTHER) \/
  (mode_ok mode = true /\ norm = false /\ mds a t = None /\ e = E_TYPE) \/
  (mode_ok mode = true /\ norm = false /\ mds a t <> None /\ strict = true /\
   existsb (fun b => b) raises = true /\ e = E_OTHER).
Proof.
  unfold collapse_t. fold (mode_ok mode). destruct (mode_ok mode); cbn [negb].
  2:{ split; [intros H; inversion H; left; split; reflexivity|].
      intros [[_ ->]|[(H & _)|[(H & _)|(H & _)]]]; [reflexivity|discriminate|discriminate|discriminate]. }
  destruct norm.
  { split; [intros H; inversion H; right; left; repeat split|].
    intros [[H _]|[(_ & _ & ->)|[(_ & H & _)|(_ & H & _)]]]; [discriminate|reflexivity|discriminate|discriminate]. }
  unfold o2m_rows. rewrite omd_orient. destruct (mds a t) as [md|].
  - destruct strict; simpl andb.
    + destruct (existsb (fun b => b) raises) eqn:R.
      * split; [intros H; inversion H; right; right; right; repeat split; discriminate|].
        intros [[H _]|[(_ & H & _)|[(_ & _ & H & _)|(_ & _ & _ & _ & _ & ->)]]]; [discriminate|discriminate|discriminate|reflexivity].
      * split; [discriminate|].
        intros [[H _]|[(_ & H & _)|[(_ & _ & H & _)|(_ & _ & _ & _ & H & _)]]]; discriminate.
    + split; [discriminate|].
      intros [[H _]|[(_ & H & _)|[(_ & _ & H & _)|(_ & _ & _ & H & _)]]]; discriminate.
  - split; [intros H; inversion H; right; right; left; repeat split|].
    intros [[H _]|[(_ & H & _)|[(_ & _ & _ & ->)|(_ & _ & H & _)]]]; [discriminate|discriminate|reflexivity|contradiction].
Qed.

(* ---------------------------------------------------------------- every id exactly once *)
Lemma partition_concat_NoDup t a lab ign parts :
  wf t -> partition_t t a lab ign false = ROk parts ->
  forall ps, (forall lp, In lp ps -> In lp parts) -> NoDup (map fst ps) ->
  NoDup (concat (map (fun lp => ids a (snd lp)) ps)).
Proof.
  intros W H. destruct (partition_exact t a lab ign parts W H) as (_ & _ & _ & P). cbv zeta in P.
  induction ps as [|[l p] ps IH]; intros Hsub Hn; simpl; [constructor|].
  inversion Hn as [|? ? Hl Hn']; subst.
  assert (In (l, p) parts) as Hp by (apply Hsub; left; reflexivity).
  apply NoDup_app_intro.
  - destruct (P l p Hp) as (_ & _ & _ & _ & _ & _ & _ & Wp). destruct Wp as (_ & _ & W3 & W4 & _). destruct a; assumption.
  - apply IH; [intros lp Hlp; apply Hsub; right; exact Hlp|exact Hn'].
  - intros x Hx Hx'. apply in_concat in Hx'. destruct Hx' as [l0 [Hl0 Hx0]].
    apply in_map_iff in Hl0. destruct Hl0 as [[l' p'] [E Hin]]. simpl in E. subst l0.
    assert (In (l', p') parts) as Hp' by (apply Hsub; right; exact Hin).
    pose proof (partition_disjoint t a lab ign parts l p l' p' x W H Hp Hp' Hx Hx0) as El. subst l'.
    apply Hl. apply in_map_iff. exists (l, p'). split; [reflexivity|exact Hin].
Qed.

(* the parts together hold every id whose label is not ignored exactly once *)
Theorem partition_cover_once t a lab ign parts :
  wf t -> partition_t t a lab ign false = ROk parts ->
  Permutation (concat (map (fun lp => ids a (snd lp)) parts))
              (select (map (fun l => negb (ign && Z.eqb l NONE_LABEL)) (labels_of lab (ids a t))) (ids a t)).
Proof.
  intros W H. destruct (partition_exact t a lab ign parts W H) as (Ll & Hk & K & P). cbv zeta in *.
  assert (Hn : NoDup (ids a t)) by (destruct W as (_ & _ & W3 & W4 & _); destruct a; assumption).
  apply NoDup_Permutation.
  - apply (partition_concat_NoDup t a lab ign parts W H parts); [intros lp Hlp; exact Hlp|exact Hk].
  - apply select_NoDup. exact Hn.
  - intros x. rewrite (select_map_In (fun l => negb (ign && Z.eqb l NONE_LABEL))). split.
    + intros Hx. apply in_concat in Hx. destruct Hx as [l0 [Hl0 Hx]]. apply in_map_iff in Hl0.
      destruct Hl0 as [[l p] [E Hp]]. simpl in E. subst l0.
      destruct (P l p Hp) as (Ei & _). rewrite Ei in Hx. apply select_map_In in Hx.
      destruct Hx as [i [l' [H1 [H2 H3]]]]. apply Z.eqb_eq in H3. subst l'.
      exists i, l. repeat split; try assumption.
      assert (In l (map fst parts)) as Hin by (apply in_map_iff; exists (l, p); split; [reflexivity|exact Hp]).
      apply K in Hin. destruct Hin as [_ Hkept]. apply (proj2 (kept_iff ign l)). exact Hkept.
    + intros [i [l [H1 [H2 H3]]]]. fold (kept ign l) in H3. pose proof (proj1 (kept_iff ign l) H3) as H3'.
      destruct (partition_cover t a lab ign parts i x l W H H1 H2 H3') as [p [Hp Hx]].
      apply in_concat. exists (ids a p). split; [|exact Hx].
      apply in_map_iff. exists (l, p). split; [reflexivity|exact Hp].
Qed.

(* ---------------------------------------------------------------- remove_empty on a part *)
Theorem remove_empty_whole_cell p o s :
  wf p -> In o (oids (remove_empty_whole p)) -> In s (sids (remove_empty_whole p)) ->
  cell (remove_empty_whole p) o s = cell p o s.
Proof.
  intros W Ho Hs. unfold remove_empty_whole, remove_empty_axis in *.
  set (p1 := filter_table (nonempty_mask Samp p) Samp p) in *.
  assert (W1 : wf p1) by (apply wf_filter_table; exact W).
  rewrite filter_table_cell by assumption.
  assert (Ho1 : In o (oids p1)).
  { rewrite ft_oids_obs in Ho. eapply select_In. exact Ho. }
  assert (Hs1 : In s (sids p1)) by (rewrite ft_sids_obs in Hs; exact Hs).
  apply filter_table_cell; assumption.
Qed.

Theorem remove_empty_whole_ids p :
  (forall s, In s (sids (remove_empty_whole p)) <->
     exists j, j < length (sids p) /\ nth j (sids p) 0%Z = s /\ all_zero (vec Samp p j) = false) /\
  (forall o, In o (oids (remove_empty_whole p)) <->
     exists i, i < length (oids p) /\ nth i (oids p) 0%Z = o /\
               all_zero (vec Obs (remove_empty_axis Samp p) i) = false).
Proof.
  split.
  - intros s. unfold remove_empty_whole.
    change (sids (remove_empty_axis Obs (remove_empty_axis Samp p))) with (ids Samp (remove_empty_axis Samp p)).
    apply (remove_empty_ids Samp p s).
  - intros o. unfold remove_empty_whole.
    change (oids (remove_empty_axis Obs (remove_empty_axis Samp p))) with (ids Obs (remove_empty_axis Obs (remove_empty_axis Samp p))).
    rewrite (remove_empty_ids Obs (remove_empty_axis Samp p) o). reflexivity.
Qed.
