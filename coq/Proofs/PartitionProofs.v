(* Proofs about Model/Partition.v (property C11): partition and one-to-one collapse. *)
From Coq Require Import List Arith ZArith Lia Bool Permutation.
From BiomV Require Import Base.Tree Base.ListUtil Base.Matrix Model.Table Model.Orient Model.Filter
  Model.Partition Proofs.OrientProofs Proofs.FilterProofs.
Import ListNotations.

(* ---------------------------------------------------------------- buckets *)
Definition gkeys (g : list (Z * list vrec)) : list Z := map fst g.
Fixpoint bucket (g : list (Z * list vrec)) (l : Z) : list vrec :=
  match g with
  | [] => []
  | (l', b) :: r => if Z.eqb l l' then b else bucket r l
  end.
Definition kept (ign : bool) (l : Z) : bool := negb (ign && Z.eqb l NONE_LABEL).
Definition nonempty_buckets (g : list (Z * list vrec)) : Prop := Forall (fun lb => snd lb <> []) g.

Lemma group_add_bucket g l v l' :
  bucket (group_add g l v) l' = if Z.eqb l' l then bucket g l ++ [v] else bucket g l'.
Proof.
  induction g as [|[l0 b] r IH]; simpl.
  - destruct (Z.eqb l' l); reflexivity.
  - destruct (Z.eqb l l0) eqn:E; simpl.
    + apply Z.eqb_eq in E. subst l0. destruct (Z.eqb l' l); reflexivity.
    + rewrite IH. destruct (Z.eqb l' l0) eqn:E0; [|reflexivity].
      apply Z.eqb_eq in E0. subst l0. rewrite Z.eqb_sym in E. rewrite E. reflexivity.
Qed.

Lemma group_add_keys g l v :
  gkeys (group_add g l v) = if zmem l (gkeys g) then gkeys g else gkeys g ++ [l].
Proof.
  unfold gkeys. induction g as [|[l0 b] r IH]; simpl; [reflexivity|].
  destruct (Z.eqb l l0) eqn:E; simpl; [reflexivity|]. rewrite IH.
  destruct (zmem l (map fst r)); reflexivity.
Qed.

Lemma group_add_NoDup g l v : NoDup (gkeys g) -> NoDup (gkeys (group_add g l v)).
Proof.
  intros H. rewrite group_add_keys. destruct (zmem l (gkeys g)) eqn:E; [exact H|].
  apply NoDup_app_intro; [exact H|constructor; [intros []|constructor]|].
  intros x Hx [Hx'|[]]. subst. apply zmem_In in Hx. congruence.
Qed.

Lemma group_add_nonempty g l v : nonempty_buckets g -> nonempty_buckets (group_add g l v).
Proof.
  unfold nonempty_buckets. induction g as [|[l0 b] r IH]; simpl; intros H.
  - constructor; [simpl; discriminate|constructor].
  - inversion H as [|? ? Hb Hr]; subst. destruct (Z.eqb l l0).
    + constructor; [simpl; destruct b; discriminate|exact Hr].
    + constructor; [exact Hb|apply IH; exact Hr].
Qed.

Lemma bucket_In g l b : NoDup (gkeys g) -> In (l, b) g -> bucket g l = b.
Proof.
  induction g as [|[l0 b0] r IH]; simpl; intros Hn Hi; [contradiction|].
  inversion Hn as [|? ? Hx Hn']; subst. destruct Hi as [Hi|Hi].
  - inversion Hi; subst. rewrite Z.eqb_refl. reflexivity.
  - destruct (Z.eqb l l0) eqn:E; [|apply IH; assumption].
    apply Z.eqb_eq in E. subst. exfalso. apply Hx. apply in_map_iff. exists (l0, b). split; [reflexivity|exact Hi].
Qed.

Lemma fold_groups ign items : forall g,
  NoDup (gkeys g) -> nonempty_buckets g ->
  let g' := fold_left (group_step ign) items g in
  NoDup (gkeys g') /\ nonempty_buckets g' /\
  (forall l, bucket g' l =
             bucket g l ++ map snd (filter (fun lv => Z.eqb l (fst lv) && kept ign (fst lv)) items)) /\
  (forall l, In l (gkeys g') <->
             In l (gkeys g) \/ ((exists v, In (l, v) items) /\ kept ign l = true)).
Proof.
  induction items as [|[l0 v0] items IH]; intros g Hn Hne; simpl.
  - repeat split; try assumption.
    + intros l. rewrite app_nil_r. reflexivity.
    + intros H; left; exact H.
    + intros [H|[[v []] _]]. exact H.
  - assert (Hs : group_step ign g (l0, v0) = if kept ign l0 then group_add g l0 v0 else g).
    { unfold group_step, kept. simpl. destruct (ign && Z.eqb l0 NONE_LABEL); reflexivity. }
    rewrite Hs. destruct (kept ign l0) eqn:Ek.
    + destruct (IH (group_add g l0 v0) (group_add_NoDup g l0 v0 Hn) (group_add_nonempty g l0 v0 Hne))
        as (A & B & C & D). cbv zeta in *. repeat split; try assumption.
      * intros l. rewrite C, group_add_bucket. destruct (Z.eqb l l0) eqn:E; simpl.
        -- apply Z.eqb_eq in E. subst l0. rewrite <- app_assoc. reflexivity.
        -- reflexivity.
      * intros H. apply D in H. rewrite group_add_keys in H. destruct H as [H|[[v Hv] Hk]].
        -- destruct (zmem l0 (gkeys g)); [left; exact H|]. apply in_app_iff in H.
           destruct H as [H|[H|[]]]; [left; exact H|]. subst l0. right. split; [exists v0; left; reflexivity|exact Ek].
        -- right. split; [exists v; right; exact Hv|exact Hk].
      * intros H. apply D. rewrite group_add_keys. destruct H as [H|[[v [Hv|Hv]] Hk]].
        -- left. destruct (zmem l0 (gkeys g)); [exact H|apply in_or_app; left; exact H].
        -- inversion Hv; subst. left. destruct (zmem l (gkeys g)) eqn:Z; [apply zmem_In; exact Z|apply in_or_app; right; left; reflexivity].
        -- right. split; [exists v; exact Hv|exact Hk].
    + destruct (IH g Hn Hne) as (A & B & C & D). cbv zeta in *. repeat split; try assumption.
      * intros l. rewrite C. rewrite andb_false_r. reflexivity.
      * intros H. apply D in H. destruct H as [H|[[v Hv] Hk]]; [left; exact H|].
        right. split; [exists v; right; exact Hv|exact Hk].
      * intros H. apply D. destruct H as [H|[[v [Hv|Hv]] Hk]]; [left; exact H| |right; split; [exists v; exact Hv|exact Hk]].
        inversion Hv; subst. congruence.
Qed.

Lemma filter_combine_select {A} (f : Z -> bool) ls (vs : list A) :
  map snd (filter (fun lv => f (fst lv)) (combine ls vs)) = select (map f ls) vs.
Proof.
  revert vs. induction ls as [|l ls IH]; intros [|v vs]; simpl; try reflexivity.
  destruct (f l); simpl; rewrite IH; reflexivity.
Qed.

Lemma In_combine_same_length {A} (ls : list Z) (vs : list A) (l : Z) :
  length ls = length vs -> ((exists v, In (l, v) (combine ls vs)) <-> In l ls).
Proof.
  revert vs. induction ls as [|x ls IH]; intros [|v vs] H; simpl in *; try discriminate.
  - split; [intros [v Hv]; destruct Hv|intros Hv; destruct Hv].
  - injection H as H. split.
    + intros [w [Hw|Hw]]; [inversion Hw; left; reflexivity|right; apply (IH vs H); exists w; exact Hw].
    + intros [Hx|Hx]; [subst; exists v; left; reflexivity|].
      apply (IH vs H) in Hx. destruct Hx as [w Hw]. exists w. right. exact Hw.
Qed.

(* what the grouping loop computes *)
Lemma groups_spec labels (vs : list vrec) ign :
  length labels = length vs ->
  let g := groups labels vs ign in
  NoDup (gkeys g) /\
  (forall l, In l (gkeys g) <-> In l labels /\ kept ign l = true) /\
  (forall l b, In (l, b) g -> b = select (map (Z.eqb l) labels) vs /\ b <> [] /\ kept ign l = true).
Proof.
  intros Hl. cbv zeta. unfold groups.
  destruct (fold_groups ign (combine labels vs) [] (NoDup_nil _) (Forall_nil _)) as (A & B & C & D).
  cbv zeta in *. set (g := fold_left (group_step ign) (combine labels vs) []) in *.
  assert (D' : forall l, In l (gkeys g) <-> In l labels /\ kept ign l = true).
  { intros l. rewrite D. rewrite In_combine_same_length by exact Hl. simpl. tauto. }
  split; [exact A|]. split; [exact D'|].
  intros l b H.
  assert (Hk : kept ign l = true) by (apply D'; apply in_map_iff; exists (l, b); split; [reflexivity|exact H]).
  split; [|split; [|exact Hk]].
  - rewrite <- (bucket_In g l b A H). rewrite C. simpl.
    rewrite <- filter_combine_select. f_equal. apply filter_ext. intros [l' v]. simpl.
    destruct (Z.eqb l l') eqn:E; [|reflexivity]. apply Z.eqb_eq in E. subst. rewrite Hk. reflexivity.
  - unfold nonempty_buckets in B. rewrite Forall_forall in B. apply (B (l, b) H).
Qed.
