(* C05: every operation keeps the table coherent; hence every reachable state is coherent. *)
From Coq Require Import List Arith ZArith Lia Bool.
From BiomV Require Import Base.Tree Base.ListUtil Base.Matrix Model.Table Model.Filter Model.Reorder
  Model.Merge Model.Concat Model.Partition Model.Stored Model.Subsample Model.Transform Model.Ops.
From BiomV Require Import Proofs.FilterProofs Proofs.ReorderProofs Proofs.MergeProofs Proofs.ConcatProofs
  Proofs.PartitionProofs Proofs.SubsampleProofs Proofs.TransformProofs.
Import ListNotations.

(* sort_order_wf, update_ids_wf, align_to_wf, copy_id: Proofs/ReorderProofs.v *)

(* ---- the locally defined steps ---- *)
Lemma set_md_wf sel o s t t' : wf t -> set_md sel o s t = ROk t' -> wf t'.
Proof.
  intros (H1 & H2 & H3 & H4 & H5 & H6). unfold set_md.
  destruct sel as [|p|p]; try destruct p.
  all: try (destruct (md_okb o (nobs t) && md_okb s (nsamp t)) eqn:E; [|discriminate];
            apply andb_true_iff in E; destruct E as [Eo Es]; apply md_okb_ok in Eo; apply md_okb_ok in Es;
            intros H; inversion H; subst; unfold wf, nobs, nsamp in *; simpl; repeat split; assumption).
  - destruct (md_okb o (nobs t)) eqn:E; [|discriminate]. apply md_okb_ok in E.
    intros H; inversion H; subst. unfold wf, nobs, nsamp in *; simpl. repeat split; assumption.
  - destruct (md_okb s (nsamp t)) eqn:E; [|discriminate]. apply md_okb_ok in E.
    intros H; inversion H; subst. unfold wf, nobs, nsamp in *; simpl. repeat split; assumption.
Qed.

Lemma set_mat_wf m t t' : wf t -> set_mat m t = ROk t' -> wf t'.
Proof.
  intros (H1 & H2 & H3 & H4 & H5 & H6). unfold set_mat.
  destruct (Nat.eqb (length m) (nobs t) && rectb (nsamp t) m) eqn:E; [|discriminate].
  apply andb_true_iff in E. destruct E as [El Er]. apply Nat.eqb_eq in El. apply rectb_rect in Er.
  intros H; inversion H; subst. unfold wf, nobs, nsamp in *; simpl. repeat split; assumption.
Qed.

Lemma forallb_wfb l : forallb wfb l = true -> Forall wf l.
Proof.
  intros H. apply Forall_forall. intros x Hx. apply wfb_wf. rewrite forallb_forall in H. apply H. exact Hx.
Qed.

Lemma of_result_wf t r : wf t -> (forall t', r = ROk t' -> wf t') -> wf (fst (of_result t r)).
Proof. intros W H. destruct r as [t'|c]; simpl; [apply H; reflexivity|exact W]. Qed.

(* ---- one step ---- *)
Theorem step_wf t o : wf t -> wf (fst (step t o)).
Proof.
  intros W. destruct o; cbn [step].
  - apply of_result_wf; [exact W|]. intros t' H. unfold filter_ids in H.
    destruct (forallb _ keep); [|discriminate].
    assert (E : t' = filter_table (map (fun i => xorb (zmem i keep) invert) (ids a t)) a t) by congruence.
    rewrite E. apply wf_filter_table. exact W.
  - cbn [fst]. unfold filter_pred. apply wf_filter_table. exact W.
  - destruct axis3 as [|[p|p|]|p]; cbv beta iota; cbn [fst];
      first [apply wf_remove_empty_whole; exact W | unfold remove_empty_axis; apply wf_filter_table; exact W].
  - apply of_result_wf; [exact W|]. intros t' H. unfold head in H.
    destruct ((n <=? 0)%Z || (m <=? 0)%Z); [discriminate|].
    assert (E : t' = filter_table (head_mask (Z.to_nat m) (nsamp t)) Samp
                       (filter_table (head_mask (Z.to_nat n) (nobs t)) Obs t)) by congruence.
    rewrite E. apply wf_filter_table. apply wf_filter_table. exact W.
  - apply of_result_wf; [exact W|]. intros t' H. eapply sort_order_wf; eassumption.
  - simpl. apply wf_transpose. exact W.
  - cbn [fst]. apply wf_copy. exact W.
  - apply of_result_wf; [exact W|]. intros t' H. eapply update_ids_wf; eassumption.
  - apply of_result_wf; [exact W|]. intros t' H. eapply set_md_wf; eassumption.
  - apply of_result_wf; [exact W|]. intros t' H. eapply set_mat_wf; eassumption.
  - destruct (wfb t0) eqn:E; simpl; [apply wfb_wf; exact E|exact W].
  - destruct (forallb wfb others) eqn:E; [|exact W].
    apply of_result_wf; [exact W|]. intros t' H. eapply concat_wf; [|exact H].
    constructor; [exact W|apply forallb_wfb; exact E].
  - destruct (wfb other) eqn:E; [|exact W].
    apply of_result_wf; [exact W|]. intros t' H. eapply align_to_wf; [exact W|apply wfb_wf; exact E|exact H].
  - destruct (forallb wfb others) eqn:E; [|exact W].
    apply of_result_wf; [exact W|]. intros t' H.
    eapply merge_dispatch_wf; [exact W|apply forallb_wfb; exact E|exact H].
  - apply of_result_wf; [exact W|]. intros t' H.
    destruct (collapse_t t a m norm incl mode) as [c|e] eqn:E; [|discriminate].
    inversion H; subst. eapply collapse_wf; eassumption.
  - apply of_result_wf; [exact W|]. intros t' H.
    destruct (partition_t t a lab ignore_none remove_empty) as [parts|e] eqn:E; [|discriminate].
    destruct (nth_error parts k) as [p|] eqn:N; [|discriminate]. inversion H; subst.
    pose proof (partition_wf t a lab ignore_none remove_empty parts W E) as F.
    rewrite Forall_forall in F. apply F. eapply nth_error_In. exact N.
  - apply of_result_wf; [exact W|]. intros t' H. eapply subsample_wf; eassumption.
  - apply of_result_wf; [exact W|]. intros t' H.
    destruct (transform_wf a false lay outs t t' W H) as [A _]. exact A.
  - exact W.
  - exact W.
Qed.

(* ---- every reachable state ---- *)
Theorem run_wf ops : forall t, wf t -> wf (run_ops t ops).
Proof.
  unfold run_ops. induction ops as [|o ops IH]; intros t W; simpl; [exact W|].
  apply IH. apply step_wf. exact W.
Qed.

Theorem trace_wf ops : forall t, wf t -> Forall (fun ct => wf (snd ct)) (trace t ops).
Proof.
  induction ops as [|o ops IH]; intros t W; simpl; [constructor|].
  pose proof (step_wf t o W) as W1. destruct (step t o) as [t1 c]. simpl in W1.
  constructor; [exact W1|apply IH; exact W1].
Qed.

(* a refused operation leaves the table unchanged *)
Theorem step_refused_unchanged t o : snd (step t o) <> 0%Z -> fst (step t o) = t.
Proof.
  destruct o; cbn [step]; try (simpl; intros H; congruence);
    try (match goal with |- context [of_result t ?r] => destruct r; simpl; intros H; congruence end).
  - destruct (wfb t0); simpl; intros H; congruence.
  - destruct (forallb wfb others); [|reflexivity].
    match goal with |- context [of_result t ?r] => destruct r; simpl; intros H; congruence end.
  - destruct (wfb other); [|reflexivity].
    match goal with |- context [of_result t ?r] => destruct r; simpl; intros H; congruence end.
  - destruct (forallb wfb others); [|reflexivity].
    match goal with |- context [of_result t ?r] => destruct r; simpl; intros H; congruence end.
Qed.

(* ---- id lookups in a coherent table ---- *)
Theorem lookup_total a t : wf t ->
  (forall i, i < length (ids a t) -> index_of_id a t (nth i (ids a t) 0%Z) = Some i) /\
  (forall x k, index_of_id a t x = Some k -> nth k (ids a t) 0%Z = x /\ k < length (ids a t)) /\
  (forall x, index_of_id a t x = None <-> ~ In x (ids a t)).
Proof.
  intros W. unfold index_of_id. repeat split.
  - intros i Hi. apply pos_nth_NoDup; [apply wf_NoDup; exact W|exact Hi].
  - apply pos_Some in H. tauto.
  - apply pos_Some in H. tauto.
  - apply pos_None.
  - apply pos_None.
Qed.
