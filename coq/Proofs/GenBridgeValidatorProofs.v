(* Bridges for C15: the definitions that tools/py2v_dyn regenerates from
   biom/cli/table_validator.py on every run (Gen/ValidatorGen.v, over the dynamic-Python
   vocabulary of Gen/DynPrelude.v) equal the hand-written model of Model/Validator.v, for all
   inputs.  A change of the source changes the generated text and breaks the bridge of the
   function it touches. *)
From Coq Require Import String.
From Coq Require Import List Arith ZArith Lia Bool.
From BiomV Require Import Base.Tree Base.ListUtil Base.Matrix Model.Table Model.Json Model.Validator.
From BiomV Require Import Gen.DynPrelude Gen.ValidatorGen.
Import ListNotations.
Open Scope Z_scope.

(* one step of a case analysis along the monadic sequence *)
Ltac bstep :=
  match goal with
  | |- context [bind (ROk _) _] => cbn [bind]
  | |- context [bind (RErr _) _] => cbn [bind]
  | |- context [bind ?e _] => destruct e eqn:?
  | |- context [if negb ?b then _ else _] => destruct b eqn:?; cbn [negb]
  | |- context [if ?b then _ else _] => destruct b eqn:?
  end.
Ltac crunch := repeat (bstep; try reflexivity; try discriminate).

(* ------------------------------------------------------------------ class constants *)
Lemma FormatURL_bridge : gen_FormatURL = FORMAT_URL.
Proof. reflexivity. Qed.
Lemma TableTypes_bridge : gen_TableTypes = TABLE_TYPES.
Proof. reflexivity. Qed.
Lemma MatrixTypes_bridge : gen_MatrixTypes = MATRIX_TYPES.
Proof. reflexivity. Qed.
Lemma ElementTypes_bridge : gen_ElementTypes = ELEMENT_TYPES.
Proof. reflexivity. Qed.
Lemma formal_name : K "Biological Observation Matrix " ++ FORMAT_VERSION = FORMAT_1_0.
Proof. vm_compute. reflexivity. Qed.

(* ------------------------------------------------------------------ helpers *)
Lemma json_or_hdf5_get_bridge : forall j k, gen_json_or_hdf5_get j k = py_get j k.
Proof. reflexivity. Qed.
Lemma json_or_hdf5_key_bridge : forall j k, gen_json_or_hdf5_key j k = k.
Proof. reflexivity. Qed.
Lemma is_int_bridge : forall x, gen_is_int x = py_is_int x.
Proof. reflexivity. Qed.

(* ------------------------------------------------------------------ per-key validators *)
Lemma valid_format_url_bridge : forall j, gen_valid_format_url j = valid_format_url j.
Proof.
  intro j. unfold gen_valid_format_url, valid_format_url, gen_json_or_hdf5_get, gen_json_or_hdf5_key.
  rewrite FormatURL_bridge. crunch.
Qed.

Lemma valid_shape_bridge : forall j, gen_valid_shape j = valid_shape j.
Proof.
  intro j. unfold gen_valid_shape, valid_shape, gen_json_or_hdf5_get, gen_is_int. crunch.
Qed.

Lemma valid_matrix_type_bridge : forall j, gen_valid_matrix_type j = valid_matrix_type j.
Proof.
  intro j. unfold gen_valid_matrix_type, valid_matrix_type, py_in_strset. rewrite MatrixTypes_bridge.
  destruct (py_getitem j (K "matrix_type")) as [mt|c]; cbn [bind]; [|reflexivity].
  destruct (py_hashable mt); cbn [bind negb]; [|reflexivity].
  destruct (existsb _ MATRIX_TYPES); reflexivity.
Qed.

Lemma existsb_map_fst : forall (A : Type) (f : str -> bool) (l : list (str * A)),
  existsb f (map fst l) = existsb (fun p => f (fst p)) l.
Proof. induction l as [|p l IH]; simpl; [reflexivity|now rewrite IH]. Qed.

Lemma valid_matrix_element_type_bridge : forall j, gen_valid_matrix_element_type j = valid_matrix_element_type j.
Proof.
  intro j. unfold gen_valid_matrix_element_type, valid_matrix_element_type, py_in_strset.
  rewrite ElementTypes_bridge.
  destruct (py_getitem j (K "matrix_element_type")) as [mt|c]; cbn [bind]; [|reflexivity].
  destruct (py_hashable mt); cbn [bind negb]; [|reflexivity].
  rewrite existsb_map_fst.
  destruct (existsb _ ELEMENT_TYPES); reflexivity.
Qed.

Lemma valid_datetime_bridge : forall j, gen_valid_datetime j = valid_datetime j.
Proof.
  intro j. unfold gen_valid_datetime, valid_datetime, py_valid_date.
  destruct (py_getitem j (K "date")) as [v|c]; cbn [bind]; [|reflexivity].
  destruct v; try reflexivity. destruct (date_ok s); reflexivity.
Qed.

Lemma valid_format_bridge : forall j, gen_valid_format j = valid_format j.
Proof.
  intro j. unfold gen_valid_format, valid_format. cbv zeta. rewrite formal_name. crunch.
Qed.

Lemma valid_type_bridge : forall j, gen_valid_type j = valid_type j.
Proof.
  intro j. unfold gen_valid_type, valid_type, gen_json_or_hdf5_get, gen_json_or_hdf5_key.
  rewrite TableTypes_bridge. change (K "") with (@nil Z).
  destruct (py_get j (K "type")) as [v|c]; cbn [bind]; [|reflexivity].
  destruct (is_null v), (py_eq v (JStr [])); cbn [orb]; try reflexivity.
  crunch.
Qed.

Lemma valid_generated_by_bridge : forall j, gen_valid_generated_by j = valid_generated_by j.
Proof.
  intro j. unfold gen_valid_generated_by, valid_generated_by, gen_json_or_hdf5_get, gen_json_or_hdf5_key. crunch.
Qed.

Lemma valid_nullable_id_bridge : forall j, ROk (gen_valid_nullable_id j) = valid_nullable_id j.
Proof. reflexivity. Qed.

(* ------------------------------------------------------------------ sparse data *)
Lemma isinstance_sparse : forall v dt, is_bool v || negb (py_isinstance_t v dt) = negb (py_isinstance v dt).
Proof. intros v dt. destruct v, dt; reflexivity. Qed.
Lemma isinstance_dense : forall v dt, py_isinstance_t v dt && negb (is_bool v) = py_isinstance v dt.
Proof. intros v dt. destruct v, dt; reflexivity. Qed.

Lemma py_lt_int_zero : forall a, py_lt (JInt a) (JInt 0) = ROk (a <? 0).
Proof.
  intro a. unfold py_lt, numval, SCALE. f_equal.
  destruct (Z.ltb_spec (64 * a) (64 * 0)), (Z.ltb_spec a 0); try reflexivity; lia.
Qed.
Lemma py_lt_num_int : forall n v a, numval n = Some v -> py_lt n (JInt a) = ROk (v <? SCALE * a).
Proof. intros n v a H. unfold py_lt. rewrite H. reflexivity. Qed.

Lemma sub_int_sub1 : forall a,
  match py_sub_int a 1, py_sub1 a with
  | ROk n, ROk v => numval n = Some v
  | RErr c, RErr c' => c = c'
  | _, _ => False
  end.
Proof.
  intro a. destruct a as [|b|z|k|s|l|kv]; unfold py_sub_int, py_sub1, numval; try reflexivity.
  all: try (destruct b; reflexivity).
  all: f_equal; unfold SCALE; lia.
Qed.

Definition lift_status (s : status) : option status :=
  match s with Some m => Some (Some m) | None => None end.

Lemma sparse_loop_bridge : forall dt nr nc nr1 nc1 l idx,
  numval nr = Some nr1 -> numval nc = Some nc1 ->
  gen_valid_sparse_data_loop1 dt nr nc idx l = ROk (lift_status (sparse_loop dt nr1 nc1 idx l)).
Proof.
  intros dt nr nc nr1 nc1 l. induction l as [|cd t IH]; intros idx Hr Hc; [reflexivity|].
  cbn [gen_valid_sparse_data_loop1 sparse_loop].
  destruct (unpack3 cd) as [[[x y] v]|]; [|reflexivity].
  unfold gen_is_int.
  destruct x; try reflexivity.
  destruct y; try reflexivity.
  cbn [py_is_int negb orb].
  rewrite isinstance_sparse.
  destruct (py_isinstance v dt); cbn [negb]; [|reflexivity].
  rewrite py_lt_int_zero. cbn [bind]. rewrite (py_lt_num_int _ _ _ Hr).
  unfold r_or at 1. cbn [bind].
  destruct (z <? 0); cbn [orb bind].
  - reflexivity.
  - destruct (nr1 <? SCALE * z); [reflexivity|].
    rewrite py_lt_int_zero. cbn [bind]. rewrite (py_lt_num_int _ _ _ Hc).
    unfold r_or. cbn [bind].
    destruct (z0 <? 0); cbn [orb bind]; [reflexivity|].
    destruct (nc1 <? SCALE * z0); [reflexivity|].
    apply IH; assumption.
Qed.

Lemma const_dict_get_dtype : forall j,
  (t1 <- py_getitem j (K "matrix_element_type") ;; py_const_dict_get gen_ElementTypes t1) = element_dtype j.
Proof.
  intro j. unfold element_dtype, py_const_dict_get. rewrite ElementTypes_bridge.
  destruct (py_getitem j (K "matrix_element_type")) as [met|c]; cbn [bind]; [|reflexivity].
  destruct (py_hashable met); reflexivity.
Qed.

Lemma bind_assoc : forall (A B C : Type) (m : result A) (f : A -> result B) (g : B -> result C),
  bind (bind m f) g = bind m (fun x => bind (f x) g).
Proof. intros. destruct m; reflexivity. Qed.

Lemma valid_sparse_data_bridge : forall j, gen_valid_sparse_data j = valid_sparse_data j.
Proof.
  intro j. unfold gen_valid_sparse_data, valid_sparse_data.
  rewrite <- const_dict_get_dtype. rewrite bind_assoc.
  destruct (py_getitem j (K "matrix_element_type")) as [met|c]; cbn [bind]; [|reflexivity].
  destruct (py_const_dict_get gen_ElementTypes met) as [dt|c]; cbn [bind]; [|reflexivity].
  destruct (py_getitem j (K "shape")) as [sh|c]; cbn [bind]; [|reflexivity].
  destruct (py_unpack2 sh) as [ab|c]; cbn [bind]; [|reflexivity].
  cbv zeta.
  pose proof (sub_int_sub1 (fst ab)) as H1.
  destruct (py_sub_int (fst ab) 1) as [nr|c], (py_sub1 (fst ab)) as [nr1|c']; try contradiction; cbn [bind];
    [|now subst].
  pose proof (sub_int_sub1 (snd ab)) as H2.
  destruct (py_sub_int (snd ab) 1) as [nc|c], (py_sub1 (snd ab)) as [nc1|c']; try contradiction; cbn [bind];
    [|now subst].
  destruct (py_getitem j (K "data")) as [d|c]; cbn [bind]; [|reflexivity].
  destruct (py_iter d) as [entries|c]; cbn [bind]; [|reflexivity].
  rewrite (sparse_loop_bridge dt nr nc nr1 nc1 entries 0 H1 H2). cbn [bind].
  destruct (sparse_loop dt nr1 nc1 0 entries); reflexivity.
Qed.

(* ------------------------------------------------------------------ dense data *)
Lemma forallb_id_map : forall (A : Type) (f : A -> bool) (l : list A),
  forallb (fun b => b) (map f l) = forallb f l.
Proof. induction l as [|x l IH]; simpl; [reflexivity|now rewrite IH]. Qed.

Lemma forallb_ext' : forall (A : Type) (f g : A -> bool) (l : list A),
  (forall x, f x = g x) -> forallb f l = forallb g l.
Proof. intros A f g l H. induction l as [|x l IH]; simpl; [reflexivity|now rewrite H, IH]. Qed.

Lemma reduce_and_bridge : forall dt items,
  py_reduce_and (map (fun v => py_isinstance_t v dt && negb (is_bool v)) items)
  = match items with [] => RErr E_TYPE | _ => ROk (forallb (fun v => py_isinstance v dt) items) end.
Proof.
  intros dt items. destruct items as [|x t]; [reflexivity|].
  unfold py_reduce_and. cbn [map]. rewrite <- (map_cons (fun v => py_isinstance_t v dt && negb (is_bool v))).
  rewrite forallb_id_map. f_equal. apply forallb_ext'. intro v. apply isinstance_dense.
Qed.

Lemma dense_loop_bridge : forall dt nc l,
  gen_valid_dense_data_loop1 dt nc l = (s <- dense_loop dt nc l ;; ROk (lift_status s)).
Proof.
  intros dt nc l. induction l as [|r t IH]; [reflexivity|].
  cbn [gen_valid_dense_data_loop1 dense_loop].
  destruct (py_len r) as [n|c]; cbn [bind]; [|reflexivity].
  destruct (py_ne_nat n nc); cbn [bind]; [reflexivity|].
  destruct (py_iter r) as [items|c]; cbn [bind]; [|reflexivity].
  rewrite reduce_and_bridge.
  destruct items as [|x items']; cbn [bind]; [reflexivity|].
  destruct (forallb (fun v => py_isinstance v dt) (x :: items')); cbn [negb bind]; [apply IH|reflexivity].
Qed.

Lemma valid_dense_data_bridge : forall j, gen_valid_dense_data j = valid_dense_data j.
Proof.
  intro j. unfold gen_valid_dense_data, valid_dense_data.
  rewrite <- const_dict_get_dtype. rewrite bind_assoc.
  destruct (py_getitem j (K "matrix_element_type")) as [met|c]; cbn [bind]; [|reflexivity].
  destruct (py_const_dict_get gen_ElementTypes met) as [dt|c]; cbn [bind]; [|reflexivity].
  destruct (py_getitem j (K "shape")) as [sh|c]; cbn [bind]; [|reflexivity].
  destruct (py_unpack2 sh) as [ab|c]; cbn [bind]; [|reflexivity].
  cbv zeta.
  destruct (py_getitem j (K "data")) as [d|c]; cbn [bind]; [|reflexivity].
  destruct (py_iter d) as [rows|c]; cbn [bind]; [|reflexivity].
  rewrite dense_loop_bridge.
  destruct (dense_loop dt (snd ab) rows) as [s|c]; cbn [bind]; [|reflexivity].
  destruct s; cbn [lift_status]; [reflexivity|].
  destruct (py_len d) as [n|c]; cbn [bind]; [|reflexivity].
  destruct (py_ne_nat n (fst ab)); reflexivity.
Qed.

(* ------------------------------------------------------------------ data *)
Lemma valid_data_bridge : forall j, gen_valid_data j = valid_data j.
Proof.
  intro j. unfold gen_valid_data, valid_data.
  rewrite valid_sparse_data_bridge, valid_dense_data_bridge.
  destruct (py_getitem j (K "data")) as [d|c]; cbn [bind]; [|reflexivity].
  replace (is_arr d) with (match d with JArr _ => true | _ => false end) by (destruct d; reflexivity).
  destruct (match d with JArr _ => true | _ => false end); cbn [negb]; [|reflexivity].
  destruct (py_getitem j (K "matrix_type")) as [mt|c]; cbn [bind]; [|reflexivity].
  destruct (py_lower mt) as [l|c]; cbn [bind]; [|reflexivity].
  destruct (str_eqb l (K "sparse")); [reflexivity|].
  destruct (str_eqb l (K "dense")); reflexivity.
Qed.

(* ------------------------------------------------------------------ rows / columns *)
Lemma valid_id_unfold : forall r, gen_valid_id r =
  (v <- py_getitem r (K "id") ;; if py_truthy v then ROk None else ROk (Some [MSG_ID_EMPTY])).
Proof. intro r. unfold gen_valid_id. destruct (py_getitem r (K "id")) as [v|c]; cbn [bind]; [|reflexivity].
  destruct (py_truthy v); reflexivity. Qed.
Lemma valid_metadata_unfold : forall r, gen_valid_metadata r =
  (md <- py_getitem r (K "metadata") ;; if is_null md || is_obj md then ROk None else ROk (Some [MSG_MD])).
Proof. intro r. unfold gen_valid_metadata. destruct (py_getitem r (K "metadata")) as [v|c]; cbn [bind]; [|reflexivity].
  destruct (is_null v), (is_obj v); reflexivity. Qed.

Lemma rec_key_code_id : rec_key_code (K "id") = 0.
Proof. reflexivity. Qed.
Lemma rec_key_code_metadata : rec_key_code (K "metadata") = 1.
Proof. reflexivity. Qed.

(* the two loops of one axis, with the list of required record keys as the source builds it *)
Section Axis.
  Variable axis : Z.
  Variable inner : Z -> json -> methods -> result (option status).
  Variable outer : methods -> Z -> list json -> list json -> result (option status).
  Hypothesis inner_nil : forall idx r, inner idx r [] = ROk None.
  Hypothesis inner_cons : forall idx r p rest, inner idx r (p :: rest) =
    (t4 <- py_in (fst p) r ;;
     if negb t4 then ROk (Some (Some [MSG_REC_MISSING; axis; idx; rec_key_code (fst p)]))
     else res <- snd p r ;; if status_nonempty res then ROk (Some res) else inner idx r rest).
  Hypothesis outer_nil : forall rk idx seen, outer rk idx seen [] = ROk None.
  Hypothesis outer_cons : forall rk idx seen r rest, outer rk idx seen (r :: rest) =
    (t5 <- inner idx r rk ;;
     match t5 with
     | Some s => ROk (Some s)
     | None =>
         t6 <- py_getitem r (K "id") ;;
         t7 <- py_in_set t6 seen ;;
         if t7 then ROk (Some (Some [MSG_DUP; axis; idx]))
         else t8 <- py_getitem r (K "id") ;; seen' <- py_set_add t8 seen ;; outer rk (idx + 1) seen' rest
     end).

  Lemma axis_loop_bridge : forall l idx seen,
    outer [(K "id", gen_valid_id); (K "metadata", gen_valid_metadata)] idx seen l
    = (s <- axis_loop axis idx l seen ;; ROk (lift_status s)).
  Proof.
    induction l as [|r t IH]; intros idx seen; [now rewrite outer_nil|].
    rewrite outer_cons. rewrite !inner_cons, inner_nil. cbn [fst snd axis_loop].
    rewrite valid_id_unfold, valid_metadata_unfold, rec_key_code_id, rec_key_code_metadata.
    destruct (py_in (K "id") r) as [b1|c]; cbn [bind]; [|reflexivity].
    destruct b1; cbn [negb bind]; [|reflexivity].
    destruct (py_getitem r (K "id")) as [idv|c]; cbn [bind]; [|reflexivity].
    destruct (py_truthy idv); cbn [negb bind status_nonempty]; [|reflexivity].
    destruct (py_in (K "metadata") r) as [b2|c]; cbn [bind]; [|reflexivity].
    destruct b2; cbn [negb bind]; [|reflexivity].
    destruct (py_getitem r (K "metadata")) as [md|c]; cbn [bind]; [|reflexivity].
    destruct (is_null md || is_obj md); cbn [negb bind status_nonempty]; [|reflexivity].
    unfold py_in_set, py_set_add.
    destruct (py_hashable idv); cbn [negb bind]; [|reflexivity].
    destruct (existsb (py_eq idv) seen); cbn [bind]; [reflexivity|].
    apply IH.
  Qed.
End Axis.

Lemma rows_loop_bridge : forall l idx seen,
  gen_valid_rows_loop1 [(K "id", gen_valid_id); (K "metadata", gen_valid_metadata)] idx seen l
  = (s <- axis_loop 0 idx l seen ;; ROk (lift_status s)).
Proof.
  apply (axis_loop_bridge 0 gen_valid_rows_loop2 gen_valid_rows_loop1); intros; reflexivity.
Qed.
Lemma columns_loop_bridge : forall l idx seen,
  gen_valid_columns_loop1 [(K "id", gen_valid_id); (K "metadata", gen_valid_metadata)] idx seen l
  = (s <- axis_loop 1 idx l seen ;; ROk (lift_status s)).
Proof.
  apply (axis_loop_bridge 1 gen_valid_columns_loop2 gen_valid_columns_loop1); intros; reflexivity.
Qed.

Lemma valid_rows_bridge : forall j, gen_valid_rows j = valid_rows j.
Proof.
  intro j. unfold gen_valid_rows, valid_rows, valid_axis. cbv zeta.
  destruct (py_get j (K "type")) as [ty|c]; cbn [bind]; [|reflexivity].
  change (K "") with (@nil Z).
  destruct (py_lower (if is_null ty then JStr [] else ty)) as [lw|c]; cbn [bind]; [|reflexivity].
  destruct (py_getitem j (K "rows")) as [rs|c]; cbn [bind]; [|reflexivity].
  destruct rs; try reflexivity. cbn [is_arr negb py_iter bind].
  rewrite rows_loop_bridge.
  destruct (axis_loop 0 0 l []) as [s|c]; cbn [bind]; [|reflexivity].
  destruct s; reflexivity.
Qed.
Lemma valid_columns_bridge : forall j, gen_valid_columns j = valid_columns j.
Proof.
  intro j. unfold gen_valid_columns, valid_columns, valid_axis. cbv zeta.
  destruct (py_get j (K "type")) as [ty|c]; cbn [bind]; [|reflexivity].
  change (K "") with (@nil Z).
  destruct (py_lower (if is_null ty then JStr [] else ty)) as [lw|c]; cbn [bind]; [|reflexivity].
  destruct (py_getitem j (K "columns")) as [rs|c]; cbn [bind]; [|reflexivity].
  destruct rs; try reflexivity. cbn [is_arr negb py_iter bind].
  rewrite columns_loop_bridge.
  destruct (axis_loop 1 0 l []) as [s|c]; cbn [bind]; [|reflexivity].
  destruct s; reflexivity.
Qed.

(* ------------------------------------------------------------------ _validate_json *)
Definition is_nil {A} (l : list A) : bool := match l with [] => true | _ => false end.

(* two lists of (key, validator) agree: same keys, validators equal on every document *)
Definition same_methods (l l' : methods) : Prop :=
  Forall2 (fun p q => fst p = fst q /\ forall j, snd p j = snd q j) l l'.

Lemma required_loop_bridge : forall j l l', same_methods l l' -> forall idx vt lines,
  (forall i p, nth_error l i = Some p -> key_index (fst p) = idx + Z.of_nat i) ->
  gen_validate_json_loop1 j vt lines l
  = (rest <- run_required j l' idx ;; ROk (vt && is_nil rest, lines ++ rest)).
Proof.
  intros j l l' H. induction H as [|p q l l' [Hk Hm] Hrest IH]; intros idx vt lines Hidx.
  - cbn [gen_validate_json_loop1 run_required bind is_nil]. now rewrite andb_true_r, app_nil_r.
  - cbn [gen_validate_json_loop1 run_required]. destruct q as [k m]. cbn [fst snd] in *.
    assert (Hidx' : forall i p0, nth_error l i = Some p0 -> key_index (fst p0) = idx + 1 + Z.of_nat i).
    { intros i p0 Hn. rewrite (Hidx (S i) p0 Hn). lia. }
    assert (Hk0 : key_index (fst p) = idx) by (rewrite (Hidx 0%nat p eq_refl); simpl; lia).
    rewrite Hk in *. rewrite Hm.
    destruct (py_in k j) as [b|c]; cbn [bind]; [|reflexivity].
    destruct b; cbn [negb].
    + destruct (m j) as [s|c]; cbn [bind]; [|reflexivity].
      destruct s as [x|]; cbn [status_nonempty status_line].
      * rewrite (IH (idx + 1) false (lines ++ [x]) Hidx').
        destruct (run_required j l' (idx + 1)) as [rest|c]; cbn [bind is_nil]; [|reflexivity].
        now rewrite andb_false_r, <- app_assoc.
      * rewrite (IH (idx + 1) vt lines Hidx').
        destruct (run_required j l' (idx + 1)) as [rest|c]; reflexivity.
    + rewrite Hk0. rewrite (IH (idx + 1) false (lines ++ [[MSG_MISSING; idx]]) Hidx').
      destruct (run_required j l' (idx + 1)) as [rest|c]; cbn [bind is_nil]; [|reflexivity].
      now rewrite andb_false_r, <- app_assoc.
Qed.

Lemma count_check_bridge : forall j key pos m,
  (t3 <- py_in key j ;;
   r_and (ROk t3) (t4 <- py_getitem j key ;; t5 <- py_len t4 ;; t6 <- py_getitem j (K "shape") ;;
                   t7 <- py_index t6 pos ;; ROk (py_ne_nat t5 t7)))
  = (a <- count_check j key pos m ;; ROk (negb (is_nil a))).
Proof.
  intros j key pos m. unfold count_check, r_and.
  destruct (py_in key j) as [b|c]; cbn [bind]; [|reflexivity].
  destruct b; cbn [bind is_nil negb]; [|reflexivity].
  destruct (py_getitem j key) as [rs|c]; cbn [bind]; [|reflexivity].
  destruct (py_len rs) as [n|c]; cbn [bind]; [|reflexivity].
  destruct (py_getitem j (K "shape")) as [sh|c]; cbn [bind]; [|reflexivity].
  destruct (py_index sh pos) as [s|c]; cbn [bind]; [|reflexivity].
  destruct (py_ne_nat n s); reflexivity.
Qed.

Lemma is_nil_app : forall (A : Type) (a b : list A), is_nil (a ++ b) = is_nil a && is_nil b.
Proof. intros A a b. destruct a; reflexivity. Qed.

Ltac bstep' :=
  match goal with
  | |- context [bind (ROk _) _] => cbn [bind]
  | |- context [bind (RErr _) _] => cbn [bind]
  | |- context [if ?b then _ else _] => is_var b; destruct b
  | |- context [bind (py_in ?a ?b) _] => destruct (py_in a b) as [[|]|]
  | |- context [bind (py_getitem ?a ?b) _] => destruct (py_getitem a b)
  | |- context [bind (py_len ?a) _] => destruct (py_len a)
  | |- context [bind (py_index ?a ?b) _] => destruct (py_index a b)
  | |- context [if py_ne_nat ?a ?b then _ else _] => destruct (py_ne_nat a b)
  end; cbv beta iota zeta.
Ltac finish_report :=
  rewrite ?is_nil_app, ?app_nil_r, <- ?app_assoc; cbn [is_nil app andb];
  rewrite ?andb_false_r, ?andb_true_r; reflexivity.

(* the validator's answer: valid_table is True exactly when no line was reported *)
Lemma validate_json_bridge : forall j,
  gen_validate_json j = (r <- validate_json_report j ;; ROk (is_nil r, r)).
Proof.
  intro j. unfold gen_validate_json, validate_json_report. cbv zeta.
  rewrite (required_loop_bridge j _ REQUIRED) with (idx := 0).
  - destruct (run_required j REQUIRED 0) as [a|c]; cbn [bind]; [|reflexivity].
    cbn [andb app]. unfold shape_checks, count_check, r_and.
    repeat (bstep'; try reflexivity; try discriminate; try finish_report).
  - unfold same_methods, REQUIRED.
    repeat (apply Forall2_cons; [split; [reflexivity|intro j0; cbn [snd]]|]); try apply Forall2_nil.
    all: first [ apply valid_format_bridge | apply valid_format_url_bridge | apply valid_type_bridge
               | apply valid_rows_bridge | apply valid_columns_bridge | apply valid_shape_bridge
               | apply valid_data_bridge | apply valid_matrix_type_bridge
               | apply valid_matrix_element_type_bridge | apply valid_generated_by_bridge
               | apply valid_datetime_bridge | reflexivity ].
  - intros i p Hn.
    do 12 (destruct i as [|i]; [cbn in Hn; injection Hn as <-; reflexivity|]).
    destruct i; discriminate.
Qed.

(* in the vocabulary of the theorems of C15 *)
Lemma validate_json_verdict_bridge : forall j,
  validate_json j = match gen_validate_json j with ROk (true, _) => true | _ => false end.
Proof.
  intro j. rewrite validate_json_bridge. unfold validate_json.
  destruct (validate_json_report j) as [r|c]; cbn [bind]; [|reflexivity].
  destruct r; reflexivity.
Qed.
