(* proofs for C09: union / intersection order, the general merge, the fast merge, the entry point *)
From Coq Require Import List Arith ZArith Lia Bool Permutation Sorted.
From BiomV Require Import Base.Tree Base.ListUtil Base.Matrix Model.Table Model.Orient Model.Merge.
Import ListNotations.

(* ================================================================ lists *)
Lemma nth_map_Z {A} (g : A -> Z) (l : list A) d j : j < length l -> nth j (map g l) 0%Z = g (nth j l d).
Proof.
  intros H. rewrite (nth_indep _ 0%Z (g d)) by (rewrite map_length; exact H). apply map_nth.
Qed.

Lemma nth_map_gen {A B} (g : A -> B) (l : list A) d d' j : j < length l -> nth j (map g l) d' = g (nth j l d).
Proof.
  intros H. rewrite (nth_indep _ d' (g d)) by (rewrite map_length; exact H). apply map_nth.
Qed.

Lemma nth_map_seq {B} (g : nat -> B) n d i : i < n -> nth i (map g (seq 0 n)) d = g i.
Proof.
  intros H. rewrite (nth_map_gen g (seq 0 n) 0 d) by (rewrite seq_length; exact H).
  rewrite seq_nth by exact H. reflexivity.
Qed.

Lemma map_nth_seq {A} (l : list A) d : map (fun i => nth i l d) (seq 0 (length l)) = l.
Proof.
  induction l as [|x l IH]; simpl; [reflexivity|]. f_equal.
  rewrite <- seq_shift, map_map. exact IH.
Qed.

Lemma map_via_seq {A B} (g : A -> B) (l : list A) d :
  map g l = map (fun i => g (nth i l d)) (seq 0 (length l)).
Proof. rewrite <- (map_nth_seq l d) at 1. rewrite map_map. reflexivity. Qed.

Lemma pos_In x l : In x l -> exists i, pos x l = Some i.
Proof.
  intros H. destruct (pos x l) as [i|] eqn:E; [exists i; reflexivity|].
  apply pos_None in E. contradiction.
Qed.

Lemma pos_Some_In x l i : pos x l = Some i -> In x l.
Proof. intros H. apply pos_Some in H. destruct H as [A B]. rewrite <- A. apply nth_In. exact B. Qed.

Lemma pos0_Some x l i : pos x l = Some i -> pos0 x l = i.
Proof. unfold pos0. intros ->. reflexivity. Qed.

Lemma pos0_nth_In x l : In x l -> nth (pos0 x l) l 0%Z = x /\ pos0 x l < length l.
Proof. intros H. destruct (pos_In x l H) as [i E]. rewrite (pos0_Some _ _ _ E). apply pos_Some. exact E. Qed.

Lemma pos0_inj x y l : In x l -> In y l -> pos0 x l = pos0 y l -> x = y.
Proof.
  intros Hx Hy E. destruct (pos0_nth_In x l Hx) as [A _]. destruct (pos0_nth_In y l Hy) as [B _].
  rewrite <- A, <- B, E. reflexivity.
Qed.

Lemma NoDup_snoc (l : list Z) x : NoDup l -> ~ In x l -> NoDup (l ++ [x]).
Proof.
  intros Hn Hx. apply (Permutation_NoDup (l := x :: l)); [apply Permutation_cons_append|].
  constructor; assumption.
Qed.

(* ================================================================ sums *)
Lemma zsum_map_add {A} (f g : A -> Z) l :
  zsum (map (fun x => (f x + g x)%Z) l) = (zsum (map f l) + zsum (map g l))%Z.
Proof. induction l as [|x l IH]; simpl; [reflexivity|]. rewrite IH. lia. Qed.

Lemma zsum_map_zero {A} (f : A -> Z) l : (forall x, In x l -> f x = 0%Z) -> zsum (map f l) = 0%Z.
Proof.
  induction l as [|x l IH]; simpl; intros H; [reflexivity|].
  rewrite (H x (or_introl eq_refl)), IH; [reflexivity|]. intros y Hy. apply H. right. exact Hy.
Qed.

Lemma zsum_map_ext {A} (f g : A -> Z) l : (forall x, In x l -> f x = g x) -> zsum (map f l) = zsum (map g l).
Proof. intros H. f_equal. apply map_ext_in. exact H. Qed.

Lemma zsum_perm a b : Permutation a b -> zsum a = zsum b.
Proof. induction 1; simpl; lia. Qed.

(* summing over a duplicate-free superset adds only zeros *)
Lemma zsum_superset (g : Z -> Z) (A R : list Z) :
  NoDup A -> NoDup R -> incl A R -> (forall x, In x R -> ~ In x A -> g x = 0%Z) ->
  zsum (map g R) = zsum (map g A).
Proof.
  revert R. induction A as [|x A IH]; intros R HA HR Hincl Hz.
  - simpl. apply zsum_map_zero. intros y Hy. apply Hz; [exact Hy|intros []].
  - inversion HA as [|? ? Hx HA']; subst.
    assert (Hin : In x R) by (apply Hincl; left; reflexivity).
    destruct (in_split x R Hin) as [l1 [l2 E]]. subst R.
    rewrite (zsum_perm _ _ (Permutation_map g (Permutation_sym (Permutation_middle l1 l2 x)))).
    simpl. f_equal. apply IH.
    + exact HA'.
    + apply NoDup_remove_1 in HR. exact HR.
    + intros y Hy. assert (Hy' : In y (l1 ++ x :: l2)) by (apply Hincl; right; exact Hy).
      apply in_app_iff in Hy'. apply in_app_iff. destruct Hy' as [H|[H|H]]; auto.
      subst. contradiction.
    + intros y Hy Hn. apply Hz.
      * apply in_app_iff in Hy. apply in_app_iff. destruct Hy; [left|right; right]; assumption.
      * intros [H|H]; [|contradiction]. subst. apply NoDup_remove_2 in HR. contradiction.
Qed.

(* exactly one element of a duplicate-free list passes the test *)
Lemma ind_sum_in (l : list nat) (P : nat -> bool) (f : nat -> Z) k :
  NoDup l -> In k l -> (forall x, In x l -> (P x = true <-> x = k)) ->
  zsum (map (fun x => if P x then f x else 0%Z) l) = f k.
Proof.
  induction l as [|x l IH]; intros Hn Hk HP; [destruct Hk|].
  inversion Hn as [|? ? Hx Hn']; subst. simpl.
  destruct (P x) eqn:E.
  - assert (x = k) by (apply HP; [left; reflexivity|exact E]). subst x.
    rewrite zsum_map_zero; [lia|]. intros y Hy.
    destruct (P y) eqn:Ey; [|reflexivity].
    assert (y = k) by (apply HP; [right; exact Hy|exact Ey]). subst. contradiction.
  - destruct Hk as [Hk|Hk].
    + subst. assert (P k = true) by (apply HP; [left; reflexivity|reflexivity]). congruence.
    + rewrite IH; [lia|exact Hn'|exact Hk|]. intros y Hy. apply HP. right. exact Hy.
Qed.

Lemma ind_sum_out (l : list nat) (P : nat -> bool) (f : nat -> Z) :
  (forall x, In x l -> P x = false) -> zsum (map (fun x => if P x then f x else 0%Z) l) = 0%Z.
Proof. intros H. apply zsum_map_zero. intros x Hx. rewrite (H x Hx). reflexivity. Qed.

(* ================================================================ union / intersection order *)
Lemma uniq_fold_In l acc x : In x (fold_left uniq_step l acc) <-> In x acc \/ In x l.
Proof.
  revert acc. induction l as [|y l IH]; intros acc; simpl; [tauto|].
  rewrite IH. unfold uniq_step. destruct (zmem y acc) eqn:E.
  - apply zmem_In in E. split; [intros [H|H]; auto|intros [H|[H|H]]; auto]. subst. auto.
  - rewrite in_app_iff. simpl. tauto.
Qed.

Lemma uniq_fold_NoDup l acc : NoDup acc -> NoDup (fold_left uniq_step l acc).
Proof.
  revert acc. induction l as [|y l IH]; intros acc H; simpl; [exact H|].
  apply IH. unfold uniq_step. destruct (zmem y acc) eqn:E; [exact H|].
  apply NoDup_snoc; [exact H|]. intros Hin. apply zmem_In in Hin. congruence.
Qed.

Lemma uniq_fold_char l acc :
  NoDup l -> fold_left uniq_step l acc = acc ++ filter (fun x => negb (zmem x acc)) l.
Proof.
  revert acc. induction l as [|y l IH]; intros acc Hn; simpl; [rewrite app_nil_r; reflexivity|].
  inversion Hn as [|? ? Hy Hn']; subst. rewrite (IH _ Hn'). unfold uniq_step.
  destruct (zmem y acc) eqn:E; simpl; [reflexivity|].
  rewrite <- app_assoc. simpl. f_equal. f_equal. apply filter_ext_in. intros x Hx.
  f_equal. unfold zmem. rewrite existsb_app. simpl. rewrite orb_false_r.
  destruct (Z.eqb x y) eqn:Exy; [|apply orb_false_r].
  apply Z.eqb_eq in Exy. subst. contradiction.
Qed.

(* a's ids in a's order, then the ids only b has, in b's order *)
Lemma union_order_char a b :
  NoDup a -> NoDup b -> union_order a b = a ++ filter (fun x => negb (zmem x a)) b.
Proof.
  intros Ha Hb. unfold union_order. rewrite fold_left_app.
  assert (E : fold_left uniq_step a [] = a).
  { rewrite (uniq_fold_char a [] Ha). change ([] ++ ?l) with l.
    clear. induction a as [|x a IH]; [reflexivity|].
    change (x :: filter (fun x0 : Z => negb (zmem x0 [])) a = x :: a). rewrite IH. reflexivity. }
  rewrite E. apply uniq_fold_char. exact Hb.
Qed.

Lemma union_order_In a b x : In x (union_order a b) <-> In x a \/ In x b.
Proof. unfold union_order. rewrite uniq_fold_In, in_app_iff. simpl. tauto. Qed.

Lemma union_order_NoDup a b : NoDup (union_order a b).
Proof. apply uniq_fold_NoDup. constructor. Qed.

Lemma intersect_order_In a b x : In x (intersect_order a b) <-> In x a /\ In x b.
Proof. unfold intersect_order. rewrite filter_In, zmem_In. tauto. Qed.

Lemma intersect_order_NoDup a b : NoDup a -> NoDup (intersect_order a b).
Proof. apply NoDup_filter. Qed.

Lemma order_for_NoDup m a b l : NoDup a -> order_for m a b = Some l -> NoDup l.
Proof.
  intros Ha. destruct m; simpl; intros H; inversion H; subst.
  - apply union_order_NoDup.
  - apply intersect_order_NoDup. exact Ha.
Qed.

Lemma order_for_In m a b l x :
  order_for m a b = Some l ->
  (In x l <-> pair_ids m a b x).
Proof.
  destruct m; simpl; intros H; inversion H; subst.
  - apply union_order_In.
  - apply intersect_order_In.
Qed.

(* ================================================================ cells *)
Lemma cell0_no_obs t o s : ~ In o (oids t) -> cell0 t o s = 0%Z.
Proof. intros H. apply pos_None in H. unfold cell0, cell. rewrite H. reflexivity. Qed.

Lemma cell0_no_samp t o s : ~ In s (sids t) -> cell0 t o s = 0%Z.
Proof.
  intros H. apply pos_None in H. unfold cell0, cell. rewrite H.
  destruct (pos o (oids t)); reflexivity.
Qed.

Lemma cell_cell0 t o s v : cell t o s = Some v -> cell0 t o s = v.
Proof. unfold cell0. intros ->. reflexivity. Qed.

Lemma cell_in t o s : In o (oids t) -> In s (sids t) -> cell t o s = Some (cell0 t o s).
Proof.
  intros Ho Hs. destruct (pos_In _ _ Ho) as [i Ei]. destruct (pos_In _ _ Hs) as [j Ej].
  unfold cell0, cell. rewrite Ei, Ej. reflexivity.
Qed.

Lemma cell0_nth t i j :
  wf t -> i < nobs t -> j < nsamp t -> cell0 t (nth i (oids t) 0%Z) (nth j (sids t) 0%Z) = get (mat t) i j.
Proof.
  intros (_ & _ & H3 & H4 & _) Hi Hj. unfold cell0, cell, nobs, nsamp in *.
  rewrite (pos_nth_NoDup _ _ H3 Hi), (pos_nth_NoDup _ _ H4 Hj). reflexivity.
Qed.

Lemma pick_cell t o i s : pos o (oids t) = Some i -> pick t (mrow (mat t) i) s = cell0 t o s.
Proof.
  intros H. unfold pick, cell0, cell, mrow, get. rewrite H.
  destruct (pos s (sids t)); reflexivity.
Qed.

Lemma cell0_pos_none t o s : pos o (oids t) = None -> cell0 t o s = 0%Z.
Proof. intros H. unfold cell0, cell. rewrite H. reflexivity. Qed.

Lemma merged_row_length a b sord o : length (merged_row a b sord o) = length sord.
Proof.
  unfold merged_row. destruct (vec_at b o), (vec_at a o); apply map_length.
Qed.

Lemma merged_row_nth a b sord o j :
  j < length sord ->
  nth j (merged_row a b sord o) 0%Z = (cell0 a o (nth j sord 0%Z) + cell0 b o (nth j sord 0%Z))%Z.
Proof.
  intros Hj. unfold merged_row, vec_at.
  destruct (pos o (oids b)) as [ib|] eqn:Eb; destruct (pos o (oids a)) as [ia|] eqn:Ea; simpl;
    rewrite (nth_map_Z _ sord 0%Z j Hj).
  - rewrite (pick_cell a o ia _ Ea), (pick_cell b o ib _ Eb). reflexivity.
  - rewrite (pick_cell b o ib _ Eb), (cell0_pos_none a o _ Ea). lia.
  - rewrite (pick_cell a o ia _ Ea), (cell0_pos_none b o _ Eb). lia.
  - rewrite (cell0_pos_none a o _ Ea), (cell0_pos_none b o _ Eb). reflexivity.
Qed.

(* ================================================================ constructor metadata *)
Definition norm_entry (m : Tree) : option Tree := if md_falsy m then None else Some m.

Lemma md_none_falsy : md_falsy md_none = true.
Proof. reflexivity. Qed.

Lemma norm_entry_cast m : norm_entry (cast_entry m) = norm_entry m.
Proof.
  unfold norm_entry, cast_entry. destruct (tree_eqb m md_none) eqn:E; [|reflexivity].
  apply tree_eqb_eq in E. subst. reflexivity.
Qed.

Lemma norm_entry_of o : norm_entry (entry_of o) = md_norm o.
Proof. destruct o; reflexivity. Qed.

Lemma md_ok_ctor md n : md_ok md n -> md_ok (ctor_md md) n.
Proof.
  destruct md as [l|]; simpl; [|tauto]. intros H.
  destruct (forallb md_falsy l); simpl; [exact Logic.I|]. rewrite map_length. exact H.
Qed.

Lemma ctor_md_nth l k :
  k < length l ->
  md_norm (match ctor_md (Some l) with Some l' => nth_error l' k | None => None end)
  = norm_entry (nth k l md_none).
Proof.
  intros Hk. simpl. destruct (forallb md_falsy l) eqn:F.
  - rewrite forallb_forall in F. unfold norm_entry. rewrite (F _ (nth_In l md_none Hk)). reflexivity.
  - rewrite (nth_error_nth' (map cast_entry l) md_none) by (rewrite map_length; exact Hk).
    rewrite (nth_map_gen cast_entry l md_none md_none k Hk).
    change (norm_entry (cast_entry (nth k l md_none)) = norm_entry (nth k l md_none)).
    apply norm_entry_cast.
Qed.

Lemma merged_md_ok f ax a b idl : md_ok (merged_md f ax a b idl) (length idl).
Proof. unfold merged_md. apply md_ok_ctor. simpl. apply map_length. Qed.

Lemma merged_md_at f ax a b idl k :
  k < length idl ->
  md_norm (match merged_md f ax a b idl with Some l' => nth_error l' k | None => None end)
  = md_norm (f (md_of ax a (nth k idl 0%Z)) (md_of ax b (nth k idl 0%Z))).
Proof.
  intros Hk. unfold merged_md. rewrite ctor_md_nth by (rewrite map_length; exact Hk).
  rewrite (nth_map_gen _ idl 0%Z md_none k Hk). apply norm_entry_of.
Qed.

(* ================================================================ the general merge *)
Lemma merge_general_inv a b sm om fs fo r :
  merge_general a b sm om fs fo = ROk r ->
  exists sord oord,
    order_for sm (sids a) (sids b) = Some sord /\ order_for om (oids a) (oids b) = Some oord /\
    sord <> [] /\ oord <> [] /\
    r = mkT oord sord (map (merged_row a b sord) oord)
            (merged_md (f_or_drop fo) Obs a b oord) (merged_md (f_or_drop fs) Samp a b sord) NOTYPE.
Proof.
  unfold merge_general.
  destruct (order_for sm (sids a) (sids b)) as [sord|]; [|discriminate].
  destruct (order_for om (oids a) (oids b)) as [oord|]; [|discriminate].
  destruct sord as [|s0 sord]; [discriminate|]. destruct oord as [|o0 oord]; [discriminate|].
  intros H. inversion H; subst. exists (s0 :: sord), (o0 :: oord).
  repeat split; try reflexivity; discriminate.
Qed.

Lemma general_wf a b sord oord f_o f_s :
  NoDup sord -> NoDup oord ->
  wf (mkT oord sord (map (merged_row a b sord) oord)
          (merged_md f_o Obs a b oord) (merged_md f_s Samp a b sord) NOTYPE).
Proof.
  intros Hs Ho. unfold wf, nobs, nsamp; simpl. repeat split.
  - apply map_length.
  - apply Forall_forall. intros r Hr. apply in_map_iff in Hr. destruct Hr as [o [E _]]. subst.
    apply merged_row_length.
  - exact Ho.
  - exact Hs.
  - apply merged_md_ok.
  - apply merged_md_ok.
Qed.

Lemma general_cell a b sord oord mo ms ty o s :
  In o oord -> In s sord ->
  cell (mkT oord sord (map (merged_row a b sord) oord) mo ms ty) o s
  = Some (cell0 a o s + cell0 b o s)%Z.
Proof.
  intros Ho Hs. destruct (pos_In _ _ Ho) as [i Ei]. destruct (pos_In _ _ Hs) as [j Ej].
  unfold cell; simpl. rewrite Ei, Ej. f_equal.
  destruct (pos_Some _ _ _ Ei) as [Ni Li]. destruct (pos_Some _ _ _ Ej) as [Nj Lj].
  unfold get. rewrite (nth_map_gen (merged_row a b sord) oord 0%Z [] i Li).
  rewrite merged_row_nth by exact Lj. rewrite Ni, Nj. reflexivity.
Qed.

Lemma general_md f ax a b idl (t : table) i :
  ids ax t = idl -> mds ax t = merged_md f ax a b idl -> In i idl ->
  md_norm (md_of ax t i) = md_norm (f (md_of ax a i) (md_of ax b i)).
Proof.
  intros Eids Emd Hi. destruct (pos_In _ _ Hi) as [k Ek].
  unfold md_of at 1. rewrite Eids, Ek. unfold md_at. rewrite Emd.
  destruct (pos_Some _ _ _ Ek) as [Nk Lk].
  rewrite (merged_md_at f ax a b idl k Lk). rewrite Nk. reflexivity.
Qed.


(* the property, for one pairwise merge through the general path *)
Theorem merge_general_spec_proof a b sm om fs fo r :
  wf a -> wf b -> merge_general a b sm om fs fo = ROk r ->
  order_for sm (sids a) (sids b) = Some (sids r) /\
  order_for om (oids a) (oids b) = Some (oids r) /\
  (forall o s, In o (oids r) -> In s (sids r) -> cell r o s = Some (cell0 a o s + cell0 b o s)%Z) /\
  (forall ax i, In i (ids ax r) ->
     md_norm (md_of ax r i) = md_norm (axis_f ax (f_or_drop fs) (f_or_drop fo) (md_of ax a i) (md_of ax b i))) /\
  ttype r = NOTYPE /\ wf r.
Proof.
  intros Wa Wb H. destruct (merge_general_inv _ _ _ _ _ _ _ H) as (sord & oord & Es & Eo & Ns & No & Er).
  subst r. simpl. split; [exact Es|]. split; [exact Eo|]. split.
  - intros o s Ho Hs. apply general_cell; assumption.
  - split.
    + intros ax i Hi. destruct ax; simpl in *.
      * eapply general_md; [reflexivity|reflexivity|exact Hi].
      * eapply general_md; [reflexivity|reflexivity|exact Hi].
    + split; [reflexivity|]. apply general_wf.
      * destruct Wa as (_ & _ & _ & Ha & _). eapply order_for_NoDup; [exact Ha|exact Es].
      * destruct Wa as (_ & _ & Ha & _). eapply order_for_NoDup; [exact Ha|exact Eo].
Qed.

(* refusals: an axis on which no id is left *)
Theorem merge_general_empty_refused a b sm om fs fo :
  (sm = Inter /\ (forall x, In x (sids a) -> ~ In x (sids b))) \/
  (om = Inter /\ (forall x, In x (oids a) -> ~ In x (oids b))) \/ sm = BadMode \/ om = BadMode ->
  merge_general a b sm om fs fo = RErr E_TABLE.
Proof.
  assert (G : forall x y, (forall z, In z x -> ~ In z y) -> intersect_order x y = []).
  { intros x y Hd. destruct (intersect_order x y) as [|z l] eqn:E; [reflexivity|].
    assert (Hz : In z (intersect_order x y)) by (rewrite E; left; reflexivity).
    apply intersect_order_In in Hz. destruct Hz as [A B]. exfalso. exact (Hd z A B). }
  intros [[-> Hd]|[[-> Hd]|[->| ->]]]; unfold merge_general; simpl.
  - rewrite (G _ _ Hd). destruct (order_for om (oids a) (oids b)); reflexivity.
  - rewrite (G _ _ Hd). destruct (order_for sm (sids a) (sids b)) as [[|? ?]|]; reflexivity.
  - reflexivity.
  - destruct (order_for sm (sids a) (sids b)); reflexivity.
Qed.

Lemma merged_md_drop ax a b idl : merged_md drop_md ax a b idl = None.
Proof.
  unfold merged_md, drop_md. simpl.
  assert (E : forallb md_falsy (map (fun _ : Z => md_none) idl) = true).
  { apply forallb_forall. intros m Hm. apply in_map_iff in Hm. destruct Hm as [x [<- _]]. reflexivity. }
  rewrite E. reflexivity.
Qed.

(* a function that is None: no metadata on that axis *)
Theorem merge_general_none_md a b sm om fs fo r :
  merge_general a b sm om fs fo = ROk r -> (fs = None -> smd r = None) /\ (fo = None -> omd r = None).
Proof.
  intros H. destruct (merge_general_inv _ _ _ _ _ _ _ H) as (sord & oord & _ & _ & _ & _ & ->).
  split; intros ->; simpl; apply merged_md_drop.
Qed.

(* ... and nothing else is refused *)
Theorem merge_general_succeeds a b sm om fs fo :
  (match sm with Union => sids a <> [] \/ sids b <> [] | Inter => exists x, In x (sids a) /\ In x (sids b) | BadMode => False end) ->
  (match om with Union => oids a <> [] \/ oids b <> [] | Inter => exists x, In x (oids a) /\ In x (oids b) | BadMode => False end) ->
  exists r, merge_general a b sm om fs fo = ROk r.
Proof.
  assert (G : forall m x y,
    (match m with Union => x <> [] \/ y <> [] | Inter => exists z, In z x /\ In z y | BadMode => False end) ->
    exists z l, order_for m x y = Some (z :: l)).
  { intros m x y Hm. destruct m; simpl; [| |destruct Hm].
    - destruct (union_order x y) as [|z l] eqn:E; [|exists z, l; reflexivity]. exfalso.
      assert (Hall : forall w, In w x \/ In w y -> False).
      { intros w Hw. apply union_order_In in Hw. rewrite E in Hw. exact Hw. }
      destruct Hm as [Hm|Hm]; [destruct x as [|w x]|destruct y as [|w y]]; try congruence;
        apply (Hall w); [left|right]; left; reflexivity.
    - destruct Hm as [w [Hx Hy]]. destruct (intersect_order x y) as [|z l] eqn:E; [|exists z, l; reflexivity].
      exfalso. assert (Hw : In w (intersect_order x y)) by (apply intersect_order_In; split; assumption).
      rewrite E in Hw. exact Hw. }
  intros Hs Ho. destruct (G _ _ _ Hs) as (s0 & sl & Es). destruct (G _ _ _ Ho) as (o0 & ol & Eo).
  unfold merge_general. rewrite Es, Eo. eexists. reflexivity.
Qed.

(* ================================================================ grand totals *)
Definition sum_over (Ro Rs : list Z) (g : Z -> Z -> Z) : Z :=
  zsum (map (fun o => zsum (map (fun s => g o s) Rs)) Ro).

Lemma msum_cells t : wf t -> total t = sum_over (oids t) (sids t) (cell0 t).
Proof.
  intros W. pose proof W as (H1 & H2 & _). unfold total, sum_over, msum, nobs, nsamp in *.
  rewrite (map_via_seq (fun o => zsum (map (fun s => cell0 t o s) (sids t))) (oids t) 0%Z).
  rewrite <- (map_nth_seq (mat t) []) at 1. rewrite map_map. rewrite H1.
  apply zsum_map_ext. intros i Hi. apply in_seq in Hi. f_equal.
  rewrite (map_via_seq (fun s => cell0 t (nth i (oids t) 0%Z) s) (sids t) 0%Z).
  assert (Hr : length (nth i (mat t) []) = length (sids t)) by (apply rect_nth_length; [exact H2|lia]).
  rewrite <- (map_nth_seq (nth i (mat t) []) 0%Z) at 1. rewrite Hr.
  apply map_ext_in. intros j Hj. apply in_seq in Hj.
  symmetry. apply cell0_nth; unfold nobs, nsamp; [exact W|lia|lia].
Qed.

(* summing a table's cells over any duplicate-free superset of its ids gives its total *)
Lemma total_by_ids t Ro Rs :
  wf t -> NoDup Ro -> NoDup Rs -> incl (oids t) Ro -> incl (sids t) Rs ->
  sum_over Ro Rs (cell0 t) = total t.
Proof.
  intros W Ho Hs Io Is. pose proof W as (_ & _ & H3 & H4 & _).
  rewrite (msum_cells t W). unfold sum_over.
  rewrite (zsum_superset (fun o => zsum (map (fun s => cell0 t o s) Rs)) (oids t) Ro H3 Ho Io).
  - apply zsum_map_ext. intros o _.
    apply (zsum_superset (fun s => cell0 t o s) (sids t) Rs H4 Hs Is).
    intros s _ Hn. apply cell0_no_samp. exact Hn.
  - intros o _ Hn. apply zsum_map_zero. intros s _. apply cell0_no_obs. exact Hn.
Qed.

Lemma sum_over_add Ro Rs f g :
  sum_over Ro Rs (fun o s => (f o s + g o s)%Z) = (sum_over Ro Rs f + sum_over Ro Rs g)%Z.
Proof.
  unfold sum_over. rewrite <- zsum_map_add. apply zsum_map_ext. intros o _. apply zsum_map_add.
Qed.

Lemma sum_over_ext Ro Rs f g :
  (forall o s, In o Ro -> In s Rs -> f o s = g o s) -> sum_over Ro Rs f = sum_over Ro Rs g.
Proof.
  intros H. unfold sum_over. apply zsum_map_ext. intros o Ho. apply zsum_map_ext. intros s Hs.
  apply H; assumption.
Qed.

Lemma sum_cells_total Ro Rs ts :
  NoDup Ro -> NoDup Rs -> Forall wf ts ->
  (forall t, In t ts -> incl (oids t) Ro /\ incl (sids t) Rs) ->
  sum_over Ro Rs (cell_sum ts) = zsum (map total ts).
Proof.
  intros Ho Hs. induction ts as [|t ts IH]; intros W Hi.
  - simpl. unfold sum_over. apply zsum_map_zero. intros o _. apply zsum_map_zero. reflexivity.
  - inversion W as [|? ? Wt Wts]; subst. simpl.
    change (cell_sum (t :: ts)) with (fun o s => (cell0 t o s + cell_sum ts o s)%Z).
    rewrite sum_over_add. rewrite IH; [|exact Wts|intros u Hu; apply Hi; right; exact Hu].
    destruct (Hi t (or_introl eq_refl)) as [A B].
    rewrite (total_by_ids t Ro Rs Wt Ho Hs A B). reflexivity.
Qed.

Lemma total_of_cells r ts :
  wf r -> Forall wf ts ->
  (forall t, In t ts -> incl (oids t) (oids r) /\ incl (sids t) (sids r)) ->
  (forall o s, In o (oids r) -> In s (sids r) -> cell r o s = Some (cell_sum ts o s)) ->
  total r = zsum (map total ts).
Proof.
  intros W Wts Hi Hc. pose proof W as (_ & _ & H3 & H4 & _).
  rewrite (msum_cells r W).
  rewrite (sum_over_ext _ _ (cell0 r) (cell_sum ts)).
  - apply sum_cells_total; assumption.
  - intros o s Ho Hs. apply cell_cell0. apply Hc; assumption.
Qed.

(* ================================================================ sorted(set(...)) *)
Lemma uinsert_In x l z : In z (uinsert x l) <-> z = x \/ In z l.
Proof.
  induction l as [|y r IH]; simpl.
  - split; [intros [H|[]]; left; congruence|intros [H|[]]; left; congruence].
  - destruct (Z.ltb x y) eqn:E1; simpl.
    + split; [intros [H|H]; [left; congruence|right; exact H]|intros [H|H]; [left; congruence|right; exact H]].
    + destruct (Z.eqb x y) eqn:E2; simpl.
      * apply Z.eqb_eq in E2. subst. split; [intros H; right; exact H|intros [H|H]; [left; congruence|exact H]].
      * rewrite IH. split; [intros [H|[H|H]]; auto|intros [H|[H|H]]; auto].
Qed.

Lemma usort_In l z : In z (usort l) <-> In z l.
Proof.
  induction l as [|x l IH]; simpl; [tauto|]. rewrite uinsert_In, IH. split; intros [H|H]; auto.
Qed.

Lemma uinsert_sorted x l : StronglySorted Z.lt l -> StronglySorted Z.lt (uinsert x l).
Proof.
  induction l as [|y r IH]; simpl; intros H.
  - constructor; constructor.
  - inversion H as [|? ? Hs Hf]; subst.
    destruct (Z.ltb x y) eqn:E1.
    + apply Z.ltb_lt in E1. constructor; [exact H|]. constructor; [exact E1|].
      eapply Forall_impl; [|exact Hf]. intros z Hz. simpl in Hz. lia.
    + apply Z.ltb_ge in E1. destruct (Z.eqb x y) eqn:E2; [exact H|].
      apply Z.eqb_neq in E2. constructor; [apply IH; exact Hs|].
      rewrite Forall_forall. intros z Hz. apply uinsert_In in Hz. destruct Hz as [Hz|Hz]; [subst; lia|].
      rewrite Forall_forall in Hf. apply Hf. exact Hz.
Qed.

Lemma usort_sorted l : StronglySorted Z.lt (usort l).
Proof. induction l as [|x l IH]; simpl; [constructor|apply uinsert_sorted; exact IH]. Qed.

Lemma sorted_lt_NoDup l : StronglySorted Z.lt l -> NoDup l.
Proof.
  induction 1 as [|x r Hs IH Hf]; constructor; [|exact IH].
  intros Hin. rewrite Forall_forall in Hf. specialize (Hf x Hin). lia.
Qed.

Lemma usort_NoDup l : NoDup (usort l).
Proof. apply sorted_lt_NoDup, usort_sorted. Qed.

(* ================================================================ the fast merge *)
Definition esum (i j : nat) (es : list triple) : Z := zsum (map t_val (filter (hits i j) es)).

Lemma esum_app i j a b : esum i j (a ++ b) = (esum i j a + esum i j b)%Z.
Proof. unfold esum. rewrite filter_app, map_app, zsum_app. reflexivity. Qed.

Lemma esum_flat_map {A} i j (F : A -> list triple) l :
  esum i j (flat_map F l) = zsum (map (fun x => esum i j (F x)) l).
Proof.
  induction l as [|x l IH]; simpl; [reflexivity|]. rewrite esum_app, IH. reflexivity.
Qed.

Lemma map_flat_map {A B C} (h : B -> C) (F : A -> list B) l :
  map h (flat_map F l) = flat_map (fun x => map h (F x)) l.
Proof. induction l as [|x l IH]; simpl; [reflexivity|]. rewrite map_app, IH. reflexivity. Qed.

Lemma flat_map_ext_in {A B} (F G : A -> list B) l :
  (forall x, In x l -> F x = G x) -> flat_map F l = flat_map G l.
Proof.
  induction l as [|x l IH]; simpl; intros H; [reflexivity|].
  rewrite (H x (or_introl eq_refl)), IH; [reflexivity|]. intros y Hy. apply H. right. exact Hy.
Qed.

Lemma coo_dense_get nr nc es i j : i < nr -> j < nc -> get (coo_dense nr nc es) i j = esum i j es.
Proof.
  intros Hi Hj. unfold get, coo_dense. rewrite (nth_map_seq _ nr [] i Hi).
  rewrite (nth_map_seq _ nc 0%Z j Hj). reflexivity.
Qed.

Lemma coo_dense_length nr nc es : length (coo_dense nr nc es) = nr.
Proof. unfold coo_dense. rewrite map_length, seq_length. reflexivity. Qed.

Lemma coo_dense_rect nr nc es : rect nc (coo_dense nr nc es).
Proof.
  apply Forall_forall. intros r Hr. apply in_map_iff in Hr. destruct Hr as [i [E _]]. subst.
  rewrite map_length, seq_length. reflexivity.
Qed.

(* one stored cell, re-indexed *)
Lemma esum_one i j r c v :
  esum i j (if Z.eqb v 0 then [] else [(r, c, v)]) = if Nat.eqb r i && Nat.eqb c j then v else 0%Z.
Proof.
  destruct (Z.eqb v 0) eqn:E.
  - apply Z.eqb_eq in E. subst. destruct (Nat.eqb r i && Nat.eqb c j); reflexivity.
  - unfold esum. simpl. unfold hits, t_row, t_col. simpl.
    destruct (Nat.eqb r i && Nat.eqb c j); simpl; [lia|reflexivity].
Qed.

Lemma remap_unfold fo so t :
  remap fo so t =
  flat_map (fun i => flat_map (fun j => let v := get (mat t) i j in
              if Z.eqb v 0 then [] else [(nth i (map (gpos fo) (oids t)) 0, nth j (map (gpos so) (sids t)) 0, v)])
            (seq 0 (nsamp t))) (seq 0 (nobs t)).
Proof.
  unfold remap, coo_of. rewrite map_flat_map. apply flat_map_ext_in. intros i _.
  rewrite map_flat_map. apply flat_map_ext_in. intros j _. simpl.
  destruct (Z.eqb (get (mat t) i j) 0); reflexivity.
Qed.

(* what one operand contributes to the global cell of (o, s) is its own cell (absent = 0) *)
Lemma remap_esum fo so t o s :
  wf t -> incl (oids t) fo -> incl (sids t) so -> In o fo -> In s so ->
  esum (gpos fo o) (gpos so s) (remap fo so t) = cell0 t o s.
Proof.
  intros W Io Is Ho Hs. pose proof W as (H1 & H2 & H3 & H4 & _).
  rewrite remap_unfold. rewrite esum_flat_map.
  (* rewrite every summand *)
  rewrite (zsum_map_ext _ (fun i => if Nat.eqb (gpos fo (nth i (oids t) 0%Z)) (gpos fo o)
                                    then zsum (map (fun j => if Nat.eqb (gpos so (nth j (sids t) 0%Z)) (gpos so s)
                                                             then get (mat t) i j else 0%Z) (seq 0 (nsamp t)))
                                    else 0%Z)).
  2:{ intros i Hi. apply in_seq in Hi. rewrite esum_flat_map.
      rewrite (nth_map_gen (gpos fo) (oids t) 0%Z 0 i) by (unfold nobs in Hi; lia).
      destruct (Nat.eqb (gpos fo (nth i (oids t) 0%Z)) (gpos fo o)) eqn:E.
      - apply zsum_map_ext. intros j Hj. apply in_seq in Hj. cbv zeta. rewrite esum_one.
        rewrite (nth_map_gen (gpos so) (sids t) 0%Z 0 j) by (unfold nsamp in Hj; lia).
        rewrite E. reflexivity.
      - apply zsum_map_zero. intros j Hj. cbv zeta. rewrite esum_one. rewrite E. reflexivity. }
  assert (Rk : forall (l g : list Z) x k, NoDup l -> incl l g -> In x g -> k < length l ->
             (Nat.eqb (gpos g (nth k l 0%Z)) (gpos g x) = true <-> nth k l 0%Z = x)).
  { intros l g x k Hn Hi Hx Hk. rewrite Nat.eqb_eq. split; [|intros ->; reflexivity].
    apply pos0_inj; [apply Hi, nth_In; exact Hk|exact Hx]. }
  destruct (pos o (oids t)) as [i0|] eqn:Ei.
  - destruct (pos_Some _ _ _ Ei) as [Ni Li].
    rewrite (ind_sum_in (seq 0 (nobs t)) _ _ i0).
    + destruct (pos s (sids t)) as [j0|] eqn:Ej.
      * destruct (pos_Some _ _ _ Ej) as [Nj Lj].
        rewrite (ind_sum_in (seq 0 (nsamp t)) _ _ j0).
        -- unfold cell0, cell. rewrite Ei, Ej. reflexivity.
        -- apply seq_NoDup.
        -- apply in_seq. unfold nsamp. lia.
        -- intros j Hj. apply in_seq in Hj. unfold nsamp in Hj.
           rewrite (Rk (sids t) so s j H4 Is Hs) by lia. split.
           ++ intros E. assert (P : pos (nth j (sids t) 0%Z) (sids t) = Some j) by (apply pos_nth_NoDup; [exact H4|lia]).
              rewrite E, Ej in P. congruence.
           ++ intros ->. exact Nj.
      * rewrite ind_sum_out.
        -- unfold cell0, cell. rewrite Ei, Ej. reflexivity.
        -- intros j Hj. apply in_seq in Hj. unfold nsamp in Hj.
           destruct (Nat.eqb (gpos so (nth j (sids t) 0%Z)) (gpos so s)) eqn:E; [|reflexivity].
           apply (Rk (sids t) so s j H4 Is Hs) in E; [|lia].
           apply pos_None in Ej. exfalso. apply Ej. rewrite <- E. apply nth_In. lia.
    + apply seq_NoDup.
    + apply in_seq. unfold nobs. lia.
    + intros i Hi. apply in_seq in Hi. unfold nobs in Hi.
      rewrite (Rk (oids t) fo o i H3 Io Ho) by lia. split.
      * intros E. assert (P : pos (nth i (oids t) 0%Z) (oids t) = Some i) by (apply pos_nth_NoDup; [exact H3|lia]).
        rewrite E, Ei in P. congruence.
      * intros ->. exact Ni.
  - rewrite ind_sum_out.
    + unfold cell0, cell. rewrite Ei. reflexivity.
    + intros i Hi. apply in_seq in Hi. unfold nobs in Hi.
      destruct (Nat.eqb (gpos fo (nth i (oids t) 0%Z)) (gpos fo o)) eqn:E; [|reflexivity].
      apply (Rk (oids t) fo o i H3 Io Ho) in E; [|lia].
      apply pos_None in Ei. exfalso. apply Ei. rewrite <- E. apply nth_In. lia.
Qed.

Lemma in_some_flat ax ts x : In x (flat_map (ids ax) ts) <-> in_some ax ts x.
Proof.
  unfold in_some. rewrite in_flat_map. split; intros [t H]; exists t; exact H.
Qed.

Theorem fast_merge_spec_proof ts :
  Forall wf ts ->
  let r := fast_merge ts in
  wf r /\ StronglySorted Z.lt (oids r) /\ StronglySorted Z.lt (sids r) /\
  (forall ax x, In x (ids ax r) <-> in_some ax ts x) /\
  (forall o s, In o (oids r) -> In s (sids r) -> cell r o s = Some (cell_sum ts o s)) /\
  omd r = None /\ smd r = None /\ ttype r = NOTYPE.
Proof.
  intros W r. subst r. unfold fast_merge. cbv zeta.
  set (fo := usort (flat_map oids ts)). set (so := usort (flat_map sids ts)).
  assert (Io : forall t, In t ts -> incl (oids t) fo).
  { intros t Ht x Hx. apply usort_In. apply in_flat_map. exists t. split; assumption. }
  assert (Is : forall t, In t ts -> incl (sids t) so).
  { intros t Ht x Hx. apply usort_In. apply in_flat_map. exists t. split; assumption. }
  split; [|split; [apply usort_sorted|split; [apply usort_sorted|split; [|split]]]].
  - unfold wf, nobs, nsamp; simpl. repeat split.
    + apply coo_dense_length.
    + apply coo_dense_rect.
    + apply usort_NoDup.
    + apply usort_NoDup.
  - intros ax x. destruct ax; simpl; unfold fo, so; rewrite usort_In.
    + apply (in_some_flat Obs).
    + apply (in_some_flat Samp).
  - simpl. intros o s Ho Hs. destruct (pos_In _ _ Ho) as [i Ei]. destruct (pos_In _ _ Hs) as [j Ej].
    unfold cell; simpl. rewrite Ei, Ej. f_equal.
    destruct (pos_Some _ _ _ Ei) as [_ Li]. destruct (pos_Some _ _ _ Ej) as [_ Lj].
    rewrite coo_dense_get by assumption. rewrite esum_flat_map. unfold cell_sum.
    apply zsum_map_ext. intros t Ht.
    rewrite <- (pos0_Some _ _ _ Ei), <- (pos0_Some _ _ _ Ej).
    rewrite Forall_forall in W.
    apply (remap_esum fo so t o s (W t Ht) (Io t Ht) (Is t Ht) Ho Hs).
  - simpl. repeat split; reflexivity.
Qed.

(* ================================================================ the entry point *)
Lemma no_md_spec t : no_md t = true <-> omd t = None /\ smd t = None.
Proof.
  unfold no_md. destruct (omd t), (smd t); split; try discriminate; try tauto;
    intros [A B]; discriminate.
Qed.

Lemma fast_ok_inv ts sm om fs fo :
  fast_ok ts sm om fs fo = true ->
  sm = Union /\ om = Union /\ (forallb no_md ts = true \/ (fs = None /\ fo = None)).
Proof.
  unfold fast_ok. intros F. apply andb_true_iff in F. destruct F as [F Fo].
  apply andb_true_iff in F. destruct F as [F Fs].
  destruct sm; try discriminate. destruct om; try discriminate.
  split; [reflexivity|]. split; [reflexivity|].
  apply orb_true_iff in F. destruct F as [F|F]; [left; exact F|right].
  apply andb_true_iff in F. destruct F as [A B]. destruct fs; [discriminate|]. destruct fo; [discriminate|].
  split; reflexivity.
Qed.

Lemma cell_none t o s : ~ In o (oids t) \/ ~ In s (sids t) -> cell t o s = None.
Proof.
  intros [H|H]; apply pos_None in H; unfold cell; rewrite H; [reflexivity|].
  destruct (pos o (oids t)); reflexivity.
Qed.

Lemma md_of_no_md ax t x : mds ax t = None -> md_of ax t x = None.
Proof. intros H. unfold md_of, md_at. rewrite H. destruct (pos x (ids ax t)); reflexivity. Qed.

(* one pairwise step, whichever path it takes *)
Lemma merge_pair_spec sm om fs fo a b r :
  wf a -> wf b -> merge_pair sm om fs fo a b = ROk r ->
  wf r /\
  (forall x, In x (sids r) <-> pair_ids sm (sids a) (sids b) x) /\
  (forall x, In x (oids r) <-> pair_ids om (oids a) (oids b) x) /\
  (forall o s, In o (oids r) -> In s (sids r) -> cell r o s = Some (cell0 a o s + cell0 b o s)%Z).
Proof.
  intros Wa Wb. unfold merge_pair. destruct (fast_ok [a; b] sm om fs fo) eqn:F.
  - intros H. inversion H; subst; clear H.
    destruct (fast_ok_inv _ _ _ _ _ F) as (-> & -> & _).
    destruct (fast_merge_spec_proof [a; b] (Forall_cons _ Wa (Forall_cons _ Wb (Forall_nil _))))
      as (W & _ & _ & Hid & Hc & _).
    split; [exact W|]. split; [|split].
    + intros x. rewrite (Hid Samp x). unfold in_some, pair_ids. simpl. split.
      * intros [t [[<-|[<-|[]]] Hx]]; auto.
      * intros [H|H]; [exists a|exists b]; auto.
    + intros x. rewrite (Hid Obs x). unfold in_some, pair_ids. simpl. split.
      * intros [t [[<-|[<-|[]]] Hx]]; auto.
      * intros [H|H]; [exists a|exists b]; auto.
    + intros o s Ho Hs. rewrite (Hc o s Ho Hs). unfold cell_sum. simpl. f_equal. lia.
  - intros H. destruct (merge_general_spec_proof _ _ _ _ _ _ _ Wa Wb H) as (Es & Eo & Hc & _ & _ & W).
    split; [exact W|]. split; [|split].
    + intros x. apply (order_for_In _ _ _ _ x Es).
    + intros x. apply (order_for_In _ _ _ _ x Eo).
    + exact Hc.
Qed.

Definition Inv (sm om : mode) (ts : list table) (m : table) : Prop :=
  wf m /\ (forall x, In x (sids m) <-> id_set sm Samp ts x) /\
  (forall x, In x (oids m) <-> id_set om Obs ts x) /\
  (forall o s, In o (oids m) -> In s (sids m) -> cell m o s = Some (cell_sum ts o s)).

Lemma id_set_snoc m ax ts t x :
  id_set m ax (ts ++ [t]) x <->
  match m with
  | Union => id_set Union ax ts x \/ In x (ids ax t)
  | Inter => id_set Inter ax ts x /\ In x (ids ax t)
  | BadMode => False
  end.
Proof.
  destruct m; simpl; [| |tauto].
  - unfold in_some. split.
    + intros [u [Hu Hx]]. apply in_app_iff in Hu. destruct Hu as [Hu|[<-|[]]]; [left; exists u; auto|right; exact Hx].
    + intros [[u [Hu Hx]]|Hx]; [exists u|exists t]; split; auto; apply in_app_iff; [left|right; left]; auto.
  - unfold in_all. split.
    + intros H. split; [intros u Hu; apply H, in_app_iff; left; exact Hu|apply H, in_app_iff; right; left; reflexivity].
    + intros [H Hx] u Hu. apply in_app_iff in Hu. destruct Hu as [Hu|[<-|[]]]; [apply H; exact Hu|exact Hx].
Qed.

Lemma cell_sum_snoc ts t o s : cell_sum (ts ++ [t]) o s = (cell_sum ts o s + cell0 t o s)%Z.
Proof. unfold cell_sum. rewrite map_app, zsum_app. simpl. lia. Qed.

Lemma cell_sum_zero ts o s :
  (forall t, In t ts -> ~ In o (oids t) \/ ~ In s (sids t)) -> cell_sum ts o s = 0%Z.
Proof.
  intros H. unfold cell_sum. apply zsum_map_zero. intros t Ht.
  destruct (H t Ht) as [A|A]; [apply cell0_no_obs|apply cell0_no_samp]; exact A.
Qed.

Lemma inv_step sm om fs fo ts m other r :
  Inv sm om ts m -> wf other -> merge_pair sm om fs fo m other = ROk r -> Inv sm om (ts ++ [other]) r.
Proof.
  intros (Wm & Is & Io & Ic) Wo H.
  destruct (merge_pair_spec _ _ _ _ _ _ _ Wm Wo H) as (Wr & Ps & Po & Pc).
  split; [exact Wr|]. split; [|split].
  - intros x. rewrite (Ps x), id_set_snoc. specialize (Is x). unfold pair_ids. destruct sm; simpl in *; tauto.
  - intros x. rewrite (Po x), id_set_snoc. specialize (Io x). unfold pair_ids. destruct om; simpl in *; tauto.
  - intros o s Ho Hs. rewrite (Pc o s Ho Hs). f_equal. rewrite cell_sum_snoc. f_equal.
    destruct (in_dec Z.eq_dec o (oids m)) as [Hom|Hom]; destruct (in_dec Z.eq_dec s (sids m)) as [Hsm|Hsm].
    + apply cell_cell0, Ic; assumption.
    + rewrite (cell0_no_samp m o s Hsm). symmetry. apply cell_sum_zero. intros t Ht. right. intros Hin.
      apply (Ps s) in Hs. specialize (Is s). unfold pair_ids in Hs. destruct sm; simpl in *.
      * apply Hsm, Is. exists t. split; assumption.
      * destruct Hs as [A _]. contradiction.
      * exact Hs.
    + rewrite (cell0_no_obs m o s Hom). symmetry. apply cell_sum_zero. intros t Ht. left. intros Hin.
      apply (Po o) in Ho. specialize (Io o). unfold pair_ids in Ho. destruct om; simpl in *.
      * apply Hom, Io. exists t. split; assumption.
      * destruct Ho as [A _]. contradiction.
      * exact Ho.
    + rewrite (cell0_no_obs m o s Hom). symmetry. apply cell_sum_zero. intros t Ht. left. intros Hin.
      apply (Po o) in Ho. specialize (Io o). unfold pair_ids in Ho. destruct om; simpl in *.
      * apply Hom, Io. exists t. split; assumption.
      * destruct Ho as [A _]. contradiction.
      * exact Ho.
Qed.

Lemma fold_err sm om fs fo l c : fold_left (pair_step sm om fs fo) l (RErr c) = RErr c.
Proof. induction l as [|x l IH]; [reflexivity|exact IH]. Qed.

Lemma inv_fold sm om fs fo others : forall ts m r,
  Inv sm om ts m -> Forall wf others ->
  fold_left (pair_step sm om fs fo) others (ROk m) = ROk r -> Inv sm om (ts ++ others) r.
Proof.
  induction others as [|o others IH]; intros ts m r HI W H.
  - inversion H; subst. rewrite app_nil_r. exact HI.
  - inversion W as [|? ? Wo Wr]; subst. cbn [fold_left pair_step] in H.
    destruct (merge_pair sm om fs fo m o) as [m'|c] eqn:E.
    + replace (ts ++ o :: others) with ((ts ++ [o]) ++ others) by (rewrite <- app_assoc; reflexivity).
      apply (IH (ts ++ [o]) m' r); [eapply inv_step; eassumption|exact Wr|exact H].
    + rewrite fold_err in H. discriminate.
Qed.

Lemma inv_init sm om self : wf self -> sm <> BadMode -> om <> BadMode -> Inv sm om [self] self.
Proof.
  intros W Hs Ho. split; [exact W|]. split; [|split].
  - intros x. destruct sm; simpl; [| |congruence].
    + unfold in_some. split; [intros H; exists self; split; [left; reflexivity|exact H]|].
      intros [t [[<-|[]] H]]. exact H.
    + unfold in_all. split; [intros H t [<-|[]]; exact H|intros H; apply (H self); left; reflexivity].
  - intros x. destruct om; simpl; [| |congruence].
    + unfold in_some. split; [intros H; exists self; split; [left; reflexivity|exact H]|].
      intros [t [[<-|[]] H]]. exact H.
    + unfold in_all. split; [intros H t [<-|[]]; exact H|intros H; apply (H self); left; reflexivity].
  - intros o s Hoo Hss. rewrite (cell_in self o s Hoo Hss). unfold cell_sum. simpl. f_equal. lia.
Qed.

(* when the fast path is not taken the entry point is the pairwise fold (a single other included) *)
Lemma dispatch_unfold self others sm om fs fo :
  fast_ok (self :: others) sm om fs fo = false ->
  merge_dispatch self others sm om fs fo = fold_left (pair_step sm om fs fo) others (ROk self).
Proof.
  intros F. unfold merge_dispatch. rewrite F. destruct others as [|o [|o2 rest]]; try reflexivity.
  cbn [fold_left pair_step]. unfold merge_pair. rewrite F. reflexivity.
Qed.

Lemma dispatch_single self other sm om fs fo :
  fast_ok [self; other] sm om fs fo = false ->
  merge_dispatch self [other] sm om fs fo = merge_general self other sm om fs fo.
Proof. intros F. unfold merge_dispatch. rewrite F. reflexivity. Qed.

Theorem merge_dispatch_spec_proof self others sm om fs fo r :
  wf self -> Forall wf others -> sm <> BadMode -> om <> BadMode ->
  merge_dispatch self others sm om fs fo = ROk r ->
  let ts := self :: others in
  wf r /\
  (forall x, In x (sids r) <-> id_set sm Samp ts x) /\
  (forall x, In x (oids r) <-> id_set om Obs ts x) /\
  (forall o s, In o (oids r) -> In s (sids r) -> cell r o s = Some (cell_sum ts o s)) /\
  (sm = Union -> om = Union -> total r = zsum (map total ts)) /\
  (fast_ok ts sm om fs fo = true ->
     r = fast_merge ts /\ omd r = None /\ smd r = None /\
     ((forall t, In t ts -> omd t = None /\ smd t = None) \/ (fs = None /\ fo = None))) /\
  (fast_ok ts sm om fs fo = false ->
     fold_left (pair_step sm om fs fo) others (ROk self) = ROk r /\
     forall other, others = [other] ->
         order_for sm (sids self) (sids other) = Some (sids r) /\
         order_for om (oids self) (oids other) = Some (oids r) /\
         forall ax i, In i (ids ax r) ->
           md_norm (md_of ax r i)
           = md_norm (axis_f ax (f_or_drop fs) (f_or_drop fo) (md_of ax self i) (md_of ax other i))).
Proof.
  intros Ws Wo Hsm Hom H ts.
  assert (Wts : Forall wf ts) by (constructor; assumption).
  assert (Core : wf r /\ (forall x, In x (sids r) <-> id_set sm Samp ts x) /\
                 (forall x, In x (oids r) <-> id_set om Obs ts x) /\
                 (forall o s, In o (oids r) -> In s (sids r) -> cell r o s = Some (cell_sum ts o s))).
  { destruct (fast_ok ts sm om fs fo) eqn:F.
    - unfold merge_dispatch in H. fold ts in H. rewrite F in H. inversion H; subst r; clear H.
      destruct (fast_ok_inv _ _ _ _ _ F) as (-> & -> & _).
      destruct (fast_merge_spec_proof ts Wts) as (W & _ & _ & Hid & Hc & _).
      split; [exact W|]. split; [intros x; apply (Hid Samp x)|]. split; [intros x; apply (Hid Obs x)|exact Hc].
    - rewrite (dispatch_unfold _ _ _ _ _ _ F) in H.
      apply (inv_fold sm om fs fo others [self] self r (inv_init sm om self Ws Hsm Hom) Wo H). }
  destruct Core as (Wr & Is & Io & Ic).
  split; [exact Wr|]. split; [exact Is|]. split; [exact Io|]. split; [exact Ic|]. split; [|split].
  - intros -> ->. apply total_of_cells; try assumption.
    intros t Ht. split; intros x Hx.
    + apply Io. exists t. split; assumption.
    + apply Is. exists t. split; assumption.
  - intros F. unfold merge_dispatch in H. fold ts in H. rewrite F in H. inversion H; subst r; clear H.
    split; [reflexivity|]. split; [reflexivity|]. split; [reflexivity|].
    destruct (fast_ok_inv _ _ _ _ _ F) as (_ & _ & [A|A]); [left|right; exact A].
    intros t Ht. rewrite forallb_forall in A. apply no_md_spec. apply A. exact Ht.
  - intros F. split; [rewrite <- (dispatch_unfold _ _ _ _ _ _ F); exact H|].
    intros other ->. rewrite (dispatch_single _ _ _ _ _ _ F) in H.
    inversion Wo as [|? ? Wother _]; subst.
    destruct (merge_general_spec_proof _ _ _ _ _ _ _ Ws Wother H) as (Es & Eo & _ & C & _).
    split; [exact Es|]. split; [exact Eo|exact C].
Qed.

Theorem merge_dispatch_bad_mode self others sm om fs fo :
  sm = BadMode \/ om = BadMode -> others <> [] ->
  merge_dispatch self others sm om fs fo = RErr E_TABLE.
Proof.
  intros Hb Hne.
  assert (F : forall ts, fast_ok ts sm om fs fo = false).
  { intros ts. unfold fast_ok. destruct Hb as [-> | ->]; simpl.
    - rewrite andb_false_r. reflexivity.
    - apply andb_false_r. }
  rewrite (dispatch_unfold _ _ _ _ _ _ (F _)). destruct others as [|o rest]; [congruence|].
  cbn [fold_left pair_step]. unfold merge_pair. rewrite F.
  rewrite merge_general_empty_refused by (right; right; exact Hb). apply fold_err.
Qed.

(* the two paths agree: same id sets, same cells, same totals; and the same (absent) metadata when
   neither operand has any and the functions do not create metadata out of nothing *)
Theorem fast_general_agree_proof a b f_s f_o rg :
  wf a -> wf b ->
  merge_general a b Union Union (Some f_s) (Some f_o) = ROk rg ->
  let rf := fast_merge [a; b] in
  (forall ax x, In x (ids ax rf) <-> In x (ids ax rg)) /\
  (forall o s, cell rf o s = cell rg o s) /\
  total rf = total rg /\
  (no_md a = true -> no_md b = true -> f_s None None = None -> f_o None None = None ->
   forall ax x, md_norm (md_of ax rf x) = None /\ md_norm (md_of ax rg x) = None).
Proof.
  intros Wa Wb H rf.
  assert (Wab : Forall wf [a; b]) by (constructor; [exact Wa|constructor; [exact Wb|constructor]]).
  destruct (fast_merge_spec_proof [a; b] Wab) as (Wf & _ & _ & Hid & Hc & Mo & Ms & _). fold rf in Wf, Hid, Hc, Mo, Ms.
  destruct (merge_general_spec_proof _ _ _ _ _ _ _ Wa Wb H) as (Es & Eo & Gc & Gm & _ & Wg).
  assert (IdS : forall x, In x (sids rf) <-> In x (sids rg)).
  { intros x. rewrite (Hid Samp x). rewrite (order_for_In _ _ _ _ x Es). unfold in_some, pair_ids. simpl. split.
    - intros [t [[<-|[<-|[]]] Hx]]; auto.
    - intros [Hx|Hx]; [exists a|exists b]; auto. }
  assert (IdO : forall x, In x (oids rf) <-> In x (oids rg)).
  { intros x. rewrite (Hid Obs x). rewrite (order_for_In _ _ _ _ x Eo). unfold in_some, pair_ids. simpl. split.
    - intros [t [[<-|[<-|[]]] Hx]]; auto.
    - intros [Hx|Hx]; [exists a|exists b]; auto. }
  assert (Cells : forall o s, cell rf o s = cell rg o s).
  { intros o s.
    destruct (in_dec Z.eq_dec o (oids rf)) as [Ho|Ho]; [destruct (in_dec Z.eq_dec s (sids rf)) as [Hs|Hs]|].
    - rewrite (Hc o s Ho Hs). rewrite (Gc o s (proj1 (IdO o) Ho) (proj1 (IdS s) Hs)).
      unfold cell_sum. simpl. f_equal. lia.
    - rewrite (cell_none rf o s) by (right; exact Hs).
      rewrite (cell_none rg o s) by (right; intros Hin; apply Hs, IdS; exact Hin). reflexivity.
    - rewrite (cell_none rf o s) by (left; exact Ho).
      rewrite (cell_none rg o s) by (left; intros Hin; apply Ho, IdO; exact Hin). reflexivity. }
  split; [intros ax x; destruct ax; [apply IdO|apply IdS]|]. split; [exact Cells|]. split.
  - assert (Tf : total rf = zsum (map total [a; b])).
    { apply total_of_cells; try assumption. intros t Ht. split; intros x Hx.
      - apply (Hid Obs). exists t. split; assumption.
      - apply (Hid Samp). exists t. split; assumption. }
    assert (Tg : total rg = zsum (map total [a; b])).
    { apply total_of_cells; try assumption.
      - intros t Ht. split; intros x Hx.
        + apply IdO, (Hid Obs). exists t. split; assumption.
        + apply IdS, (Hid Samp). exists t. split; assumption.
      - intros o s Ho Hs. rewrite (Gc o s Ho Hs). unfold cell_sum. simpl. f_equal. lia. }
    rewrite Tf, Tg. reflexivity.
  - intros Na Nb Fs Fo ax x.
    apply no_md_spec in Na. apply no_md_spec in Nb. destruct Na as [Nao Nas]. destruct Nb as [Nbo Nbs].
    assert (Ma : md_of ax a x = None) by (apply md_of_no_md; destruct ax; assumption).
    assert (Mb : md_of ax b x = None) by (apply md_of_no_md; destruct ax; assumption).
    split.
    + rewrite md_of_no_md; [reflexivity|]. destruct ax; assumption.
    + destruct (in_dec Z.eq_dec x (ids ax rg)) as [Hin|Hn].
      * rewrite (Gm ax x Hin), Ma, Mb. destruct ax; simpl; [rewrite Fo|rewrite Fs]; reflexivity.
      * unfold md_of. apply pos_None in Hn. rewrite Hn. reflexivity.
Qed.

Theorem merge_total_proof a b fs fo r :
  wf a -> wf b -> merge_general a b Union Union fs fo = ROk r -> total r = (total a + total b)%Z.
Proof.
  intros Wa Wb H.
  destruct (merge_general_spec_proof _ _ _ _ _ _ _ Wa Wb H) as (Es & Eo & Gc & _ & _ & Wg).
  rewrite (total_of_cells r [a; b]).
  - simpl. lia.
  - exact Wg.
  - constructor; [exact Wa|constructor; [exact Wb|constructor]].
  - intros t Ht. split; intros x Hx.
    + apply (order_for_In _ _ _ _ x Eo). simpl. destruct Ht as [<-|[<-|[]]]; auto.
    + apply (order_for_In _ _ _ _ x Es). simpl. destruct Ht as [<-|[<-|[]]]; auto.
  - intros o s Ho Hs. rewrite (Gc o s Ho Hs). unfold cell_sum. simpl. f_equal. lia.
Qed.

Theorem fast_merge_total_proof ts : Forall wf ts -> total (fast_merge ts) = zsum (map total ts).
Proof.
  intros W. destruct (fast_merge_spec_proof ts W) as (Wf & _ & _ & Hid & Hc & _).
  apply total_of_cells; try assumption.
  intros t Ht. split; intros x Hx.
  - apply (Hid Obs). exists t. split; assumption.
  - apply (Hid Samp). exists t. split; assumption.
Qed.

(* ================================================================ metadata, list form included *)
Lemma md_truthy_norm o : md_truthy o = match md_norm o with Some _ => true | None => false end.
Proof. destruct o as [m|]; simpl; [destruct (md_falsy m)|]; reflexivity. Qed.

(* the repaired default is what the property text says *)
Lemma prefer_self_text_eq x y : prefer_self x y = prefer_self_text x y.
Proof. unfold prefer_self, prefer_self_text. rewrite md_truthy_norm. destruct (md_norm x); reflexivity. Qed.

Lemma prefer_self_respects : respects_norm prefer_self.
Proof.
  split; [|reflexivity]. intros x x' y y' Hx Hy. unfold prefer_self.
  rewrite (md_truthy_norm x), (md_truthy_norm x'). rewrite <- Hx.
  destruct (md_norm x) eqn:E; [|exact Hy]. rewrite E. exact Hx.
Qed.

Lemma md_of_absent ax t i : ~ In i (ids ax t) -> md_of ax t i = None.
Proof. intros H. apply pos_None in H. unfold md_of. rewrite H. reflexivity. Qed.

Lemma md_fold_snoc f ax self others t i :
  md_fold f ax self (others ++ [t]) i = f (md_fold f ax self others i) (md_of ax t i).
Proof. unfold md_fold. rewrite fold_left_app. reflexivity. Qed.

Lemma md_fold_none f ax others i :
  respects_norm f -> forall acc, md_norm acc = None -> (forall t, In t others -> md_of ax t i = None) ->
  md_norm (fold_left (fun acc t => f acc (md_of ax t i)) others acc) = None.
Proof.
  intros [R N]. induction others as [|t others IH]; intros acc Ha Ht; simpl; [exact Ha|].
  apply IH; [|intros u Hu; apply Ht; right; exact Hu].
  rewrite (Ht t (or_introl eq_refl)). transitivity (md_norm (f None None)); [apply R; [exact Ha|reflexivity]|exact N].
Qed.

Lemma drop_md_respects : respects_norm drop_md.
Proof. split; reflexivity. Qed.

Lemma md_fold_drop ax self others i : others <> [] -> md_fold drop_md ax self others i = None.
Proof.
  intros Hne. destruct (exists_last Hne) as (l & t & ->). rewrite md_fold_snoc. reflexivity.
Qed.

Definition InvMd (fs fo : option mdf) (self : table) (done : list table) (m : table) : Prop :=
  forall ax i, In i (ids ax m) ->
    md_norm (md_of ax m i) = md_norm (md_fold (axis_f ax (f_or_drop fs) (f_or_drop fo)) ax self done i).

Lemma inv_md_step sm om fs fo self done m other r :
  respects_norm (f_or_drop fs) -> respects_norm (f_or_drop fo) ->
  Inv sm om (self :: done) m -> InvMd fs fo self done m -> wf other ->
  merge_pair sm om fs fo m other = ROk r ->
  InvMd fs fo self (done ++ [other]) r.
Proof.
  intros Rs Ro (Wm & Is & Io & Ic) HM Wo H ax i Hi.
  rewrite md_fold_snoc.
  assert (Rf : respects_norm (axis_f ax (f_or_drop fs) (f_or_drop fo))) by (destruct ax; assumption).
  destruct (merge_pair_spec _ _ _ _ _ _ _ Wm Wo H) as (_ & Ps & Po & _).
  assert (Pax : In i (ids ax r) <-> pair_ids (axis_f ax sm om) (ids ax m) (ids ax other) i)
    by (destruct ax; [apply Po|apply Ps]).
  assert (Iax : In i (ids ax m) <-> id_set (axis_f ax sm om) ax (self :: done) i)
    by (destruct ax; [apply Io|apply Is]).
  assert (Key : md_norm (md_of ax m i)
                = md_norm (md_fold (axis_f ax (f_or_drop fs) (f_or_drop fo)) ax self done i)).
  { destruct (in_dec Z.eq_dec i (ids ax m)) as [Him|Him]; [apply HM; exact Him|].
    rewrite (md_of_absent ax m i Him). symmetry.
    assert (Abs : forall t, In t (self :: done) -> ~ In i (ids ax t)).
    { apply Pax in Hi. destruct (axis_f ax sm om); simpl in Hi, Iax.
      - intros t Ht Hin. apply Him, Iax. exists t. split; assumption.
      - destruct Hi as [A _]. contradiction.
      - destruct Hi. }
    unfold md_fold. apply md_fold_none; [exact Rf| |].
    - rewrite (md_of_absent ax self i); [reflexivity|]. apply Abs. left. reflexivity.
    - intros t Ht. apply md_of_absent. apply Abs. right. exact Ht. }
  unfold merge_pair in H. destruct (fast_ok [m; other] sm om fs fo) eqn:F.
  - inversion H; subst r; clear H.
    rewrite (md_of_no_md ax (fast_merge [m; other]) i) by (destruct ax; reflexivity).
    destruct (fast_ok_inv _ _ _ _ _ F) as (_ & _ & [A|[-> ->]]).
    + simpl in A. apply andb_true_iff in A. destruct A as [Nm A]. apply andb_true_iff in A. destruct A as [No _].
      apply no_md_spec in Nm. apply no_md_spec in No.
      rewrite (md_of_no_md ax other i) by (destruct ax; tauto).
      rewrite (md_of_no_md ax m i) in Key by (destruct ax; tauto).
      symmetry. transitivity (md_norm (axis_f ax (f_or_drop fs) (f_or_drop fo) None None));
        [apply (proj1 Rf); [symmetry; exact Key|reflexivity]|exact (proj2 Rf)].
    + destruct ax; reflexivity.
  - destruct (merge_general_spec_proof _ _ _ _ _ _ _ Wm Wo H) as (_ & _ & _ & Gm & _).
    rewrite (Gm ax i Hi). apply (proj1 Rf); [exact Key|reflexivity].
Qed.

Lemma inv_md_fold sm om fs fo self others :
  respects_norm (f_or_drop fs) -> respects_norm (f_or_drop fo) -> forall done m r,
  Inv sm om (self :: done) m -> InvMd fs fo self done m -> Forall wf others ->
  fold_left (pair_step sm om fs fo) others (ROk m) = ROk r ->
  InvMd fs fo self (done ++ others) r.
Proof.
  intros Rs Ro. induction others as [|o others IH]; intros done m r HI HM W H.
  - inversion H; subst. rewrite app_nil_r. exact HM.
  - inversion W as [|? ? Wo Wr]; subst. cbn [fold_left pair_step] in H.
    destruct (merge_pair sm om fs fo m o) as [m'|c] eqn:E.
    + replace (done ++ o :: others) with ((done ++ [o]) ++ others) by (rewrite <- app_assoc; reflexivity).
      apply (IH (done ++ [o]) m' r).
      * change (self :: done ++ [o]) with ((self :: done) ++ [o]). eapply inv_step; eassumption.
      * eapply inv_md_step; eassumption.
      * exact Wr.
      * exact H.
    + rewrite fold_err in H. discriminate.
Qed.

(* whatever path is taken, the metadata of an id is the function applied from left to right to the
   operands' metadata for that id (up to None = empty dict); a function that is None drops the metadata *)
Theorem merge_dispatch_md_proof self others sm om fs fo r :
  wf self -> Forall wf others -> sm <> BadMode -> om <> BadMode ->
  respects_norm (f_or_drop fs) -> respects_norm (f_or_drop fo) ->
  others <> [] \/ ~ (fs = None /\ fo = None) ->
  merge_dispatch self others sm om fs fo = ROk r ->
  forall ax i, In i (ids ax r) ->
    md_norm (md_of ax r i) = md_norm (md_fold (axis_f ax (f_or_drop fs) (f_or_drop fo)) ax self others i).
Proof.
  intros Ws Wo Hsm Hom Rs Ro Hdom H.
  destruct (fast_ok (self :: others) sm om fs fo) eqn:F.
  - unfold merge_dispatch in H. rewrite F in H. inversion H; subst r; clear H.
    intros ax i _.
    rewrite (md_of_no_md ax (fast_merge (self :: others)) i) by (destruct ax; reflexivity).
    destruct (fast_ok_inv _ _ _ _ _ F) as (_ & _ & [A|[E1 E2]]).
    + rewrite forallb_forall in A.
      symmetry. unfold md_fold. apply md_fold_none; [destruct ax; assumption| |].
      * rewrite md_of_no_md; [reflexivity|].
        assert (N : no_md self = true) by (apply A; left; reflexivity). apply no_md_spec in N. destruct ax; tauto.
      * intros t Ht. apply md_of_no_md.
        assert (N : no_md t = true) by (apply A; right; exact Ht). apply no_md_spec in N. destruct ax; tauto.
    + destruct Hdom as [Hne|Hn]; [|exfalso; apply Hn; split; assumption].
      subst fs fo. replace (axis_f ax (f_or_drop None) (f_or_drop None)) with drop_md by (destruct ax; reflexivity).
      rewrite (md_fold_drop ax self others i Hne). reflexivity.
  - rewrite (dispatch_unfold _ _ _ _ _ _ F) in H.
    apply (inv_md_fold sm om fs fo self others Rs Ro [] self r); try assumption.
    + apply inv_init; assumption.
    + intros ax i _. reflexivity.
Qed.

(* ================================================================ coherence is preserved (used by C05) *)
(* no hypothesis on the modes or on the metadata functions: a refusal returns no table *)
Lemma fast_merge_wf ts : Forall wf ts -> wf (fast_merge ts).
Proof. intros W. destruct (fast_merge_spec_proof ts W) as (Wr & _). exact Wr. Qed.

Lemma merge_general_wf a b sm om fs fo r :
  wf a -> wf b -> merge_general a b sm om fs fo = ROk r -> wf r.
Proof.
  intros Wa Wb H. destruct (merge_general_spec_proof _ _ _ _ _ _ _ Wa Wb H) as (_ & _ & _ & _ & _ & W). exact W.
Qed.

Lemma merge_pair_wf sm om fs fo a b r : wf a -> wf b -> merge_pair sm om fs fo a b = ROk r -> wf r.
Proof. intros Wa Wb H. destruct (merge_pair_spec _ _ _ _ _ _ _ Wa Wb H) as (W & _). exact W. Qed.

Lemma fold_pair_wf sm om fs fo others : forall m r,
  wf m -> Forall wf others -> fold_left (pair_step sm om fs fo) others (ROk m) = ROk r -> wf r.
Proof.
  induction others as [|o others IH]; intros m r Wm W H.
  - inversion H; subst. exact Wm.
  - inversion W as [|? ? Wo Wr]; subst. cbn [fold_left pair_step] in H.
    destruct (merge_pair sm om fs fo m o) as [m'|c] eqn:E.
    + apply (IH m' r); [exact (merge_pair_wf sm om fs fo m o m' Wm Wo E)|exact Wr|exact H].
    + rewrite fold_err in H. discriminate.
Qed.

Lemma merge_dispatch_wf self others sm om fs fo r :
  wf self -> Forall wf others -> merge_dispatch self others sm om fs fo = ROk r -> wf r.
Proof.
  intros Ws Wo H. destruct (fast_ok (self :: others) sm om fs fo) eqn:F.
  - unfold merge_dispatch in H. rewrite F in H. inversion H; subst. apply fast_merge_wf. constructor; assumption.
  - rewrite (dispatch_unfold _ _ _ _ _ _ F) in H. eapply fold_pair_wf; eassumption.
Qed.
