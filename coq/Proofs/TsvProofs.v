(* Proofs about the classic TSV format model (property C03). *)
From Coq Require Import List Arith ZArith Lia Bool.
From BiomV Require Import Base.Tree Base.ListUtil Base.Matrix Model.Table Model.Tsv.
Import ListNotations.
Open Scope Z_scope.

(* ------------------------------------------------------------------ text equality *)
Lemma text_eqb_eq a b : text_eqb a b = true <-> a = b.
Proof. apply list_eqb_Z_eq. Qed.

Lemma tmem_In x l : tmem x l = true <-> In x l.
Proof.
  unfold tmem. rewrite existsb_exists. split.
  - intros [y [Hy He]]. apply text_eqb_eq in He. subst. exact Hy.
  - intros H. exists x. split; [exact H|]. apply text_eqb_eq. reflexivity.
Qed.

Lemma tdup_false_NoDup l : tdup l = false <-> NoDup l.
Proof.
  induction l as [|x t IH]; simpl.
  - split; [constructor|reflexivity].
  - rewrite orb_false_iff. split.
    + intros [A B]. constructor; [|apply IH; exact B].
      intros Hin. apply tmem_In in Hin. congruence.
    + intros H. inversion H as [|? ? Hn Hd]; subst. split; [|apply IH; exact Hd].
      destruct (tmem x t) eqn:E; [|reflexivity]. apply tmem_In in E. contradiction.
Qed.

(* ------------------------------------------------------------------ generic list facts *)
Lemma last_snoc {A} (l : list A) x d : last (l ++ [x]) d = x.
Proof. induction l as [|a l IH]; simpl; [reflexivity|]. destruct (l ++ [x]) eqn:E; [destruct l; discriminate|exact IH]. Qed.

Lemma removelast_snoc {A} (l : list A) x : removelast (l ++ [x]) = l.
Proof. rewrite removelast_app by discriminate. simpl. apply app_nil_r. Qed.

Lemma last_cons_ne {A} (a : A) l d : l <> [] -> last (a :: l) d = last l d.
Proof. destruct l; [congruence|reflexivity]. Qed.

Lemma snoc_exists {A} (l : list A) : l <> [] -> exists l' x, l = l' ++ [x].
Proof.
  intros H. destruct l as [|a l]; [congruence|]. exists (removelast (a :: l)), (last (a :: l) a).
  apply app_removelast_last. discriminate.
Qed.

(* ------------------------------------------------------------------ split / join *)
Definition avoids (f : Z -> bool) (p : text) : Prop := Forall (fun c => f c = false) p.

Lemma split_when_ne f t : split_when f t <> [].
Proof. destruct t as [|c r]; simpl; [discriminate|]. destruct (f c); [discriminate|]. destruct (split_when f r); discriminate. Qed.

Lemma split_when_piece f p rest : avoids f p ->
  split_when f (p ++ rest) =
  match split_when f rest with q :: qs => (p ++ q) :: qs | [] => [p] end.
Proof.
  intros H. induction H as [|c p Hc Hp IH]; simpl.
  - destruct (split_when f rest) eqn:E; [exfalso; exact (split_when_ne f rest E)|reflexivity].
  - rewrite Hc, IH. destruct (split_when f rest); reflexivity.
Qed.

Lemma split_when_avoids f p : avoids f p -> split_when f p = [p].
Proof. intros H. rewrite <- (app_nil_r p) at 1. rewrite split_when_piece by exact H. simpl. rewrite app_nil_r. reflexivity. Qed.

Lemma join_cons d a l : l <> [] -> join d (a :: l) = a ++ [d] ++ join d l.
Proof. destruct l as [|b l]; [congruence|]. intros _. reflexivity. Qed.

Lemma flat_map_snoc {A B} (f : A -> list B) l x : flat_map f (l ++ [x]) = flat_map f l ++ f x.
Proof. rewrite flat_map_app. simpl. rewrite app_nil_r. reflexivity. Qed.

Lemma join_snoc d l m : l <> [] -> join d (l ++ [m]) = join d l ++ [d] ++ m.
Proof.
  destruct l as [|a l]; [congruence|]. intros _. simpl. rewrite flat_map_snoc, <- app_assoc. reflexivity.
Qed.

Lemma split_when_join f d ps : f d = true -> Forall (avoids f) ps -> ps <> [] ->
  split_when f (join d ps) = ps.
Proof.
  intros Hd HF. induction HF as [|p r Hp Hr IH]; intros Hne; [congruence|].
  destruct r as [|q r'].
  - simpl. rewrite app_nil_r. apply split_when_avoids. exact Hp.
  - rewrite join_cons by discriminate. rewrite split_when_piece by exact Hp.
    cbn [app split_when]. rewrite Hd. rewrite IH by discriminate. rewrite app_nil_r. reflexivity.
Qed.

Lemma split_on_join d ps : Forall (fun p => ~ In d p) ps -> ps <> [] -> split_on d (join d ps) = ps.
Proof.
  intros H Hne. unfold split_on. apply split_when_join; [apply Z.eqb_refl| |exact Hne].
  eapply Forall_impl; [|exact H]. intros p Hp. apply Forall_forall. intros c Hc.
  apply Z.eqb_neq. intros E. subst. contradiction.
Qed.

Lemma split_when_snoc f t c : f c = false ->
  split_when f (t ++ [c]) = removelast (split_when f t) ++ [last (split_when f t) [] ++ [c]].
Proof.
  intros Hc. induction t as [|a t IH]; simpl.
  - rewrite Hc. reflexivity.
  - destruct (f a).
    + rewrite IH. destruct (split_when f t) eqn:E; [exfalso; exact (split_when_ne f t E)|]. reflexivity.
    + rewrite IH. destruct (split_when f t) as [|p ps] eqn:E; [exfalso; exact (split_when_ne f t E)|].
      destruct ps as [|p2 ps']; simpl; [reflexivity|].
      destruct (removelast (p2 :: ps') ++ [last (p2 :: ps') [] ++ [c]]) eqn:E2.
      * destruct (removelast (p2 :: ps')); discriminate.
      * simpl in E2. destruct ps'; simpl in *; inversion E2; subst; reflexivity.
Qed.

(* ------------------------------------------------------------------ strip *)
Lemma lstrip_cons_nospace c t : is_space c = false -> lstrip (c :: t) = c :: t.
Proof. intros H. simpl. rewrite H. reflexivity. Qed.

Lemma lstrip_snoc_nospace u c : is_space c = false -> exists a v, lstrip (u ++ [c]) = a :: v.
Proof.
  intros H. induction u as [|x u IH]; simpl.
  - rewrite H. eauto.
  - destruct (is_space x); [exact IH|eauto].
Qed.

Lemma lstrip_snoc_nospace_id u c : is_space c = false -> lstrip (rev u ++ [c]) = rev u ++ [c] -> True.
Proof. trivial. Qed.

Lemma rstrip_snoc_nospace t c : is_space c = false -> rstrip (t ++ [c]) = t ++ [c].
Proof. intros H. unfold rstrip. rewrite rev_app_distr. simpl. rewrite H. simpl. rewrite rev_involutive. reflexivity. Qed.

Lemma rstrip_snoc_space t c : is_space c = true -> rstrip (t ++ [c]) = rstrip t.
Proof. intros H. unfold rstrip. rewrite rev_app_distr. simpl. rewrite H. reflexivity. Qed.

Lemma rstrip_nil : rstrip [] = [].
Proof. reflexivity. Qed.

Lemma lstrip_app_space x c : is_space c = true ->
  lstrip (x ++ [c]) = match lstrip x with [] => [] | y => y ++ [c] end.
Proof.
  intros H. induction x as [|a x IH]; simpl.
  - rewrite H. reflexivity.
  - destruct (is_space a); [exact IH|reflexivity].
Qed.

Lemma strip_snoc_space x c : is_space c = true -> strip (x ++ [c]) = strip x.
Proof.
  intros H. unfold strip. rewrite lstrip_app_space by exact H.
  destruct (lstrip x) as [|a y]; [reflexivity|]. apply rstrip_snoc_space. exact H.
Qed.

(* a text whose first and last characters are not white space is left alone by strip *)
Definition edges_ok (t : text) : Prop := is_space (hd 0 t) = false /\ is_space (last t 0) = false.

Lemma strip_edges t : t <> [] -> edges_ok t -> strip t = t.
Proof.
  intros Hne [H1 H2]. destruct t as [|c r]; [congruence|]. simpl in H1.
  unfold strip. rewrite lstrip_cons_nospace by exact H1.
  destruct (snoc_exists (c :: r)) as [l' [x E]]; [discriminate|].
  rewrite E in *. rewrite last_snoc in H2. apply rstrip_snoc_nospace. exact H2.
Qed.

Lemma strip_cons_nospace_ne c t : is_space c = false -> strip (c :: t) <> [].
Proof.
  intros H. unfold strip. rewrite lstrip_cons_nospace by exact H.
  unfold rstrip. simpl. destruct (lstrip_snoc_nospace (rev t) c H) as [a [v E]]. rewrite E.
  simpl. intros E2. apply app_eq_nil in E2. destruct E2; discriminate.
Qed.

Lemma blank_cons_nospace c t : is_space c = false -> blank (c :: t) = false.
Proof. intros H. unfold blank. pose proof (strip_cons_nospace_ne c t H). destruct (strip (c :: t)); congruence. Qed.

Lemma is_space_NL : is_space NL = true.
Proof. reflexivity. Qed.

(* ------------------------------------------------------------------ a kept line terminator is invisible to the reader *)
(* l' is l, or l followed by one white-space character (the kept terminator) *)
Definition sameline (l l' : text) : Prop := l' = l \/ exists c, (is_space c = true /\ c <> TAB) /\ l' = l ++ [c].

Lemma sameline_strip l l' : sameline l l' -> strip l' = strip l.
Proof. intros [E|[c [[Hc Hct] E]]]; subst; [reflexivity|]. apply strip_snoc_space. exact Hc. Qed.

Lemma sameline_rstrip l l' : sameline l l' -> rstrip l' = rstrip l.
Proof. intros [E|[c [[Hc Hct] E]]]; subst; [reflexivity|]. apply rstrip_snoc_space. exact Hc. Qed.

Lemma sameline_blank l l' : sameline l l' -> blank l' = blank l.
Proof. intros H. unfold blank. rewrite (sameline_strip _ _ H). reflexivity. Qed.

Lemma space_not_hash c : is_space c = true -> (c =? HASH) = false.
Proof.
  intros H. destruct (c =? HASH) eqn:E; [|reflexivity]. apply Z.eqb_eq in E. subst. discriminate.
Qed.

Lemma space_not_tab_split c : is_space c = true -> c <> TAB -> (TAB =? c) = false.
Proof. intros _ H. apply Z.eqb_neq. congruence. Qed.

Lemma sameline_hash l l' : sameline l l' -> starts_hash l' = starts_hash l.
Proof.
  intros [E|[c [[Hc Hct] E]]]; subst; [reflexivity|]. destruct l as [|a l]; simpl; [|reflexivity].
  apply space_not_hash. exact Hc.
Qed.

Lemma sameline_split l l' : sameline l l' ->
  removelast (split_on TAB l') = removelast (split_on TAB l)
  /\ strip (last (split_on TAB l') []) = strip (last (split_on TAB l) []).
Proof.
  intros [E|[c [[Hc Hct] E]]]; subst; [split; reflexivity|].
  unfold split_on. rewrite split_when_snoc by (apply Z.eqb_neq; congruence).
  rewrite removelast_snoc, last_snoc. split; [reflexivity|apply strip_snoc_space; exact Hc].
Qed.

Lemma sameline_fields l l' : sameline l l' -> fields_of l' = fields_of l.
Proof. intros H. unfold fields_of. destruct (sameline_split l l' H) as [A B]. cbv zeta. rewrite A, B. reflexivity. Qed.

Lemma sameline_last_value l l' : sameline l l' -> last_value l' = last_value l.
Proof. intros H. unfold last_value. apply (sameline_split l l' H). Qed.

Lemma find_header_sameline ls ls' : Forall2 sameline ls ls' ->
  forall h i, find_header ls' h i = find_header ls h i.
Proof.
  induction 1 as [|l l' ls ls' Hl Hls IH]; intros h i; simpl; [reflexivity|].
  rewrite (sameline_blank _ _ Hl), (sameline_hash _ _ Hl), (sameline_rstrip _ _ Hl), (sameline_strip _ _ Hl), !IH.
  reflexivity.
Qed.

Lemma Forall2_skipn {A B} (R : A -> B -> Prop) n : forall l l', Forall2 R l l' -> Forall2 R (skipn n l) (skipn n l').
Proof.
  induction n as [|n IH]; intros l l' H; simpl; [exact H|].
  destruct H; [constructor|apply IH; assumption].
Qed.

Lemma keepends_sameline ls : Forall2 sameline ls (keepends ls).
Proof.
  induction ls as [|l r IH]; [constructor|].
  destruct r as [|l2 r'].
  - constructor; [left; reflexivity|constructor].
  - change (keepends (l :: l2 :: r')) with ((l ++ [NL]) :: keepends (l2 :: r')).
    constructor; [|exact IH]. right. exists NL. split; [split; [reflexivity|discriminate]|reflexivity].
Qed.

Section Reader.
  Variable parse_num : text -> option Z.
  Variable process : text -> Tree.

  Lemma last_numeric_sameline ls ls' : Forall2 sameline ls ls' ->
    last_numeric parse_num ls' = last_numeric parse_num ls.
  Proof.
    induction 1 as [|l l' ls ls' Hl Hls IH]; simpl; [reflexivity|].
    rewrite (sameline_last_value _ _ Hl), IH. reflexivity.
  Qed.

  Lemma data_rows_sameline b ls ls' : Forall2 sameline ls ls' ->
    data_rows parse_num b ls' = data_rows parse_num b ls.
  Proof.
    induction 1 as [|l l' ls ls' Hl Hls IH]; simpl; [reflexivity|].
    rewrite (sameline_blank _ _ Hl), (sameline_hash _ _ Hl), (sameline_fields _ _ Hl), IH. reflexivity.
  Qed.

  (* the reader does not see kept line terminators *)
  Lemma extract_sameline ls ls' : Forall2 sameline ls ls' ->
    extract_tsv parse_num ls' = extract_tsv parse_num ls.
  Proof.
    intros H. unfold extract_tsv. rewrite (find_header_sameline _ _ H).
    destruct (find_header ls None 0%nat) as [h ds].
    pose proof (Forall2_skipn sameline ds _ _ H) as Hs.
    rewrite (last_numeric_sameline _ _ Hs), (data_rows_sameline _ _ _ Hs). reflexivity.
  Qed.

  Lemma from_tsv_sameline ls ls' : Forall2 sameline ls ls' ->
    from_tsv parse_num process ls' = from_tsv parse_num process ls.
  Proof. intros H. unfold from_tsv. rewrite (extract_sameline _ _ H). reflexivity. Qed.

  Lemma from_tsv_keepends ls : from_tsv parse_num process (keepends ls) = from_tsv parse_num process ls.
  Proof. apply from_tsv_sameline. apply keepends_sameline. Qed.
End Reader.

(* ------------------------------------------------------------------ triples -> dense *)
Lemma lookup3_cons t ts i j :
  lookup3 (t :: ts) i j = if Nat.eqb (fst (fst t)) i && Nat.eqb (snd (fst t)) j then snd t else lookup3 ts i j.
Proof. unfold lookup3. simpl. destruct (Nat.eqb (fst (fst t)) i && Nat.eqb (snd (fst t)) j); reflexivity. Qed.

Lemma lookup3_row_other r j0 vals rest i j : i <> r ->
  lookup3 (row_triples r j0 vals ++ rest) i j = lookup3 rest i j.
Proof.
  intros Hne. revert j0. induction vals as [|v t IH]; intros j0; simpl; [reflexivity|].
  destruct (v =? 0); simpl; [apply IH|].
  rewrite lookup3_cons. simpl.
  destruct (Nat.eqb r i) eqn:E; [apply Nat.eqb_eq in E; congruence|]. simpl. apply IH.
Qed.

Lemma lookup3_row_same r vals rest j : forall j0,
  lookup3 (row_triples r j0 vals ++ rest) r j =
  if (Nat.leb j0 j && Nat.ltb j (j0 + length vals))%nat && negb (nth (j - j0) vals 0 =? 0)
  then nth (j - j0) vals 0 else lookup3 rest r j.
Proof.
  induction vals as [|v t IH]; intros j0.
  - simpl. replace (Nat.ltb j (j0 + 0)) with (negb (Nat.leb j0 j)).
    + destruct (Nat.leb j0 j); reflexivity.
    + destruct (Nat.leb j0 j) eqn:A, (Nat.ltb j (j0 + 0)) eqn:B; try reflexivity;
        [apply Nat.leb_le in A; apply Nat.ltb_lt in B; lia
        |apply Nat.leb_gt in A; apply Nat.ltb_ge in B; lia].
  - cbn [row_triples length].
    destruct (Nat.eq_dec j j0) as [Ej|Ej].
    + subst j0. replace (j - j)%nat with 0%nat by lia. cbn [nth].
      replace (Nat.leb j j) with true by (symmetry; apply Nat.leb_le; lia).
      replace (Nat.ltb j (j + S (length t))) with true by (symmetry; apply Nat.ltb_lt; lia).
      cbn [andb]. destruct (v =? 0) eqn:Ev; cbn [negb app].
      * rewrite IH. replace (Nat.leb (S j) j) with false by (symmetry; apply Nat.leb_gt; lia). reflexivity.
      * rewrite lookup3_cons. cbn [fst snd]. rewrite !Nat.eqb_refl. reflexivity.
    + assert (Hcont : lookup3 ((if v =? 0 then [] else [(r, j0, v)]) ++ row_triples r (S j0) t ++ rest) r j
                      = lookup3 (row_triples r (S j0) t ++ rest) r j).
      { destruct (v =? 0); [reflexivity|]. cbn [app]. rewrite lookup3_cons. cbn [fst snd].
        destruct (Nat.eqb j0 j) eqn:E; [apply Nat.eqb_eq in E; congruence|]. rewrite andb_false_r. reflexivity. }
      rewrite <- app_assoc. etransitivity; [exact Hcont|]. rewrite IH.
      destruct (Nat.lt_ge_cases j j0) as [Hlt|Hge].
      * replace (Nat.leb (S j0) j) with false by (symmetry; apply Nat.leb_gt; lia).
        replace (Nat.leb j0 j) with false by (symmetry; apply Nat.leb_gt; lia). reflexivity.
      * assert (Hj : (j - j0 = S (j - S j0))%nat) by lia. rewrite Hj. cbn [nth].
        replace (Nat.leb (S j0) j) with true by (symmetry; apply Nat.leb_le; lia).
        replace (Nat.leb j0 j) with true by (symmetry; apply Nat.leb_le; lia).
        replace (Nat.ltb j (S j0 + length t)) with (Nat.ltb j (j0 + S (length t))); [reflexivity|].
        destruct (Nat.ltb j (S j0 + length t)) eqn:A, (Nat.ltb j (j0 + S (length t))) eqn:B; try reflexivity;
          [apply Nat.ltb_lt in A; apply Nat.ltb_ge in B; lia|apply Nat.ltb_ge in A; apply Nat.ltb_lt in B; lia].
Qed.

Lemma lookup3_all_below rows : forall r0 i j, (i < r0)%nat -> lookup3 (all_triples r0 rows) i j = 0.
Proof.
  induction rows as [|vs t IH]; intros r0 i j Hi; simpl; [reflexivity|].
  rewrite lookup3_row_other by lia. apply IH. lia.
Qed.

Lemma lookup3_all rows : forall r0 k j,
  lookup3 (all_triples r0 rows) (r0 + k) j = nth j (nth k rows []) 0.
Proof.
  induction rows as [|vs t IH]; intros r0 k j.
  - simpl. destruct k, j; reflexivity.
  - cbn [all_triples]. destruct k as [|k].
    + replace (r0 + 0)%nat with r0 by lia. cbn [nth]. rewrite lookup3_row_same.
      replace (j - 0)%nat with j by lia. cbn [Nat.leb andb Nat.add].
      rewrite lookup3_all_below by lia.
      destruct (Nat.ltb j (length vs)) eqn:A; cbn [andb].
      * destruct (nth j vs 0 =? 0) eqn:B; cbn [negb]; [apply Z.eqb_eq in B; congruence|reflexivity].
      * apply Nat.ltb_ge in A. rewrite nth_overflow by exact A. reflexivity.
    + rewrite lookup3_row_other by lia. replace (r0 + S k)%nat with (S r0 + k)%nat by lia.
      rewrite IH. reflexivity.
Qed.

Lemma dense_of_all_triples m (mx : matrix) : rect m mx ->
  dense_of (length mx) m (all_triples 0 mx) = mx.
Proof.
  intros R. apply (mat_ext m).
  - unfold dense_of. rewrite map_length, seq_length. reflexivity.
  - apply Forall_forall. intros r Hr. unfold dense_of in Hr. apply in_map_iff in Hr.
    destruct Hr as [i [Hi _]]. subst. rewrite map_length, seq_length. reflexivity.
  - exact R.
  - intros i j Hi Hj. unfold dense_of in Hi. rewrite map_length, seq_length in Hi.
    unfold get, dense_of.
    rewrite (nth_indep _ [] (map (fun j0 => lookup3 (all_triples 0 mx) 0 j0) (seq 0 m)))
      by (rewrite map_length, seq_length; exact Hi).
    rewrite (map_nth (fun i0 => map (fun j0 => lookup3 (all_triples 0 mx) i0 j0) (seq 0 m))).
    rewrite seq_nth by exact Hi.
    rewrite (nth_indep _ 0 (lookup3 (all_triples 0 mx) (0 + i) 0)) by (rewrite map_length, seq_length; exact Hj).
    rewrite (map_nth (fun j0 => lookup3 (all_triples 0 mx) (0 + i) j0)).
    rewrite seq_nth by exact Hj. apply lookup3_all.
Qed.

Lemma row_triples_bounds r vals : forall j0,
  Forall (fun t => fst (fst t) = r /\ (snd (fst t) < j0 + length vals)%nat) (row_triples r j0 vals).
Proof.
  induction vals as [|v t IH]; intros j0; simpl; [constructor|].
  apply Forall_app. split.
  - destruct (v =? 0); constructor; [simpl; split; [reflexivity|lia]|constructor].
  - eapply Forall_impl; [|apply IH]. intros a [A B]. split; [exact A|lia].
Qed.

Lemma all_triples_in_shape m rows : rect m rows -> forall r0,
  Forall (fun t => (fst (fst t) < r0 + length rows)%nat /\ (snd (fst t) < m)%nat) (all_triples r0 rows).
Proof.
  intros R. induction R as [|vs t Hv Ht IH]; intros r0; simpl; [constructor|].
  apply Forall_app. split.
  - eapply Forall_impl; [|apply (row_triples_bounds r0 vs 0)]. intros a [A B]. split; [lia|]. simpl in B. lia.
  - eapply Forall_impl; [|apply (IH (S r0))]. intros a [A B]. split; [lia|exact B].
Qed.

Lemma in_shape_all_triples m mx : rect m mx -> in_shape (length mx) m (all_triples 0 mx) = true.
Proof.
  intros R. unfold in_shape. apply forallb_forall. intros t Ht.
  pose proof (all_triples_in_shape m mx R 0%nat) as F. rewrite Forall_forall in F.
  destruct (F t Ht) as [A B]. apply andb_true_iff. split; apply Nat.ltb_lt; [lia|exact B].
Qed.

(* ------------------------------------------------------------------ more list facts *)
Lemma last_app_ne {A} (x p : list A) d : p <> [] -> last (x ++ p) d = last p d.
Proof.
  intros H. induction x as [|a x IH]; simpl; [reflexivity|].
  destruct (x ++ p) eqn:E; [apply app_eq_nil in E; destruct E; congruence|exact IH].
Qed.

Lemma last_map_ne {A B} (f : A -> B) l d d' : l <> [] -> last (map f l) d' = f (last l d).
Proof.
  intros H. destruct (snoc_exists l H) as [l' [x E]]. subst. rewrite map_app. simpl. rewrite !last_snoc. reflexivity.
Qed.

Lemma last_In {A} (l : list A) d : l <> [] -> In (last l d) l.
Proof. intros H. destruct (snoc_exists l H) as [l' [x E]]. subst. rewrite last_snoc. apply in_or_app. right. left. reflexivity. Qed.

Lemma map_fst_combine {A B} (a : list A) (b : list B) : length a = length b -> map fst (combine a b) = a.
Proof. revert b. induction a as [|x a IH]; intros [|y b] H; simpl in *; try discriminate; [reflexivity|]. f_equal. apply IH. lia. Qed.

Lemma map_snd_combine {A B} (a : list A) (b : list B) : length a = length b -> map snd (combine a b) = b.
Proof. revert b. induction a as [|x a IH]; intros [|y b] H; simpl in *; try discriminate; [reflexivity|]. f_equal. apply IH. lia. Qed.

Lemma Forall_combine {A B} (P : A -> Prop) (Q : B -> Prop) a b :
  Forall P a -> Forall Q b -> Forall (fun p => P (fst p) /\ Q (snd p)) (combine a b).
Proof.
  intros Ha. revert b. induction Ha as [|x a Hx Ha IH]; intros b Hb; simpl; [constructor|].
  destruct Hb as [|y b Hy Hb]; [constructor|]. constructor; [split; assumption|apply IH; exact Hb].
Qed.

Lemma forallb_false_Exists {A} (f : A -> bool) l : Exists (fun x => f x = false) l -> forallb f l = false.
Proof.
  induction 1 as [x l H|x l H IH]; simpl; [rewrite H; reflexivity|]. rewrite IH. apply andb_false_r.
Qed.

Lemma avoids_app f a b : avoids f a -> avoids f b -> avoids f (a ++ b).
Proof. intros A B. apply Forall_app. split; assumption. Qed.

Lemma avoids_join f d ps : f d = false -> Forall (avoids f) ps -> avoids f (join d ps).
Proof.
  intros Hd H. destruct H as [|p r Hp Hr]; [constructor|]. simpl. apply avoids_app; [exact Hp|].
  induction Hr as [|q r Hq Hr IH]; simpl; [constructor|].
  constructor; [exact Hd|]. apply avoids_app; [exact Hq|exact IH].
Qed.

Lemma last_join_snoc d ps p : p <> [] -> last (join d (ps ++ [p])) 0 = last p 0.
Proof.
  intros H. destruct ps as [|a ps].
  - simpl. rewrite app_nil_r. reflexivity.
  - rewrite join_snoc by discriminate. rewrite app_assoc. apply last_app_ne. exact H.
Qed.

Definition cell_l (cell : option text) : list text := match cell with Some m => [m] | None => [] end.

Section Round.
  Variable fmt : Z -> text.
  Variable parse_num : text -> option Z.
  Variable format : Tree -> text.
  Variable process : text -> Tree.
  Variable brk : Z -> bool.

  (* the class of line-breaking characters contains NL, not TAB, and none of the fixed texts *)
  Definition good_brk : Prop := brk NL = true /\ brk TAB = false /\ avoids brk CONSTRUCTED /\ avoids brk OCN.
  Definition txt_ok (t : text) : Prop := ~ In TAB t /\ avoids brk t.
  (* IDs: non-empty, no tab, no line break, not starting with '#', no leading/trailing blank *)
  Definition id_safe (t : text) : Prop := t <> [] /\ txt_ok t /\ hd 0 t <> HASH /\ edges_ok t.
  (* the number-text contract for one value *)
  Definition num_ok (v : Z) : Prop := parse_num (fmt v) = Some v /\ txt_ok (fmt v) /\ strip (fmt v) = fmt v.

  Hypothesis GB : good_brk.

  Lemma row_line_join id vals cell : vals <> [] ->
    row_line fmt id vals cell = join TAB ((id :: map fmt vals) ++ cell_l cell).
  Proof.
    intros H. assert (Hm : map fmt vals <> []) by (destruct vals; [congruence|discriminate]).
    destruct cell as [m|]; simpl cell_l.
    - rewrite join_snoc by discriminate. rewrite join_cons by exact Hm. unfold row_line.
      rewrite <- !app_assoc. reflexivity.
    - rewrite app_nil_r. rewrite join_cons by exact Hm. reflexivity.
  Qed.

  Definition rowrec := (text * (list Z * option text))%type.
  Definition line_of (r : rowrec) : text := row_line fmt (fst r) (fst (snd r)) (snd (snd r)).
  Definition row_ok (r : rowrec) : Prop :=
    id_safe (fst r) /\ fst (snd r) <> [] /\ Forall num_ok (fst (snd r))
    /\ match snd (snd r) with Some m => txt_ok m | None => True end.
  Definition lastf (r : rowrec) : text :=
    match snd (snd r) with Some m => strip m | None => fmt (last (fst (snd r)) 0) end.

  Lemma row_lines_map ids : forall m cells,
    row_lines fmt ids m cells = map line_of (combine ids (combine m cells)).
  Proof.
    induction ids as [|id ids IH]; intros [|vals m] [|cell cells]; simpl; try reflexivity.
    unfold line_of at 1. simpl. f_equal. apply IH.
  Qed.

  Lemma row_fields_notab r : row_ok r ->
    Forall (fun p => ~ In TAB p) ((fst r :: map fmt (fst (snd r))) ++ cell_l (snd (snd r))).
  Proof.
    destruct r as [id [vals cell]]. intros (Hid & Hv & Hn & Hc). simpl in *.
    rewrite app_comm_cons. apply Forall_app. split.
    - constructor; [apply Hid|]. apply Forall_forall. intros p Hp. apply in_map_iff in Hp.
      destruct Hp as [v [E Hin]]. subst. rewrite Forall_forall in Hn. apply (Hn v Hin).
    - destruct cell as [m|]; simpl; [constructor; [apply Hc|constructor]|constructor].
  Qed.

  Lemma row_fields_avoid r : row_ok r ->
    Forall (avoids brk) ((fst r :: map fmt (fst (snd r))) ++ cell_l (snd (snd r))).
  Proof.
    destruct r as [id [vals cell]]. intros (Hid & Hv & Hn & Hc). simpl in *.
    rewrite app_comm_cons. apply Forall_app. split.
    - constructor; [apply Hid|]. apply Forall_forall. intros p Hp. apply in_map_iff in Hp.
      destruct Hp as [v [E Hin]]. subst. rewrite Forall_forall in Hn. apply (Hn v Hin).
    - destruct cell as [m|]; simpl; [constructor; [apply Hc|constructor]|constructor].
  Qed.

  Lemma line_of_shape r : row_ok r -> exists c t, line_of r = c :: t /\ is_space c = false /\ c <> HASH.
  Proof.
    destruct r as [id [vals cell]]. intros (Hid & Hv & Hn & Hc). simpl in *.
    destruct Hid as (Hne & _ & Hh & [He _]). destruct id as [|c id']; [congruence|].
    exists c. unfold line_of, row_line. simpl. destruct cell; eexists; (split; [reflexivity|split; assumption]).
  Qed.

  Lemma row_read r : row_ok r ->
    blank (line_of r) = false /\ starts_hash (line_of r) = false /\ avoids brk (line_of r)
    /\ fields_of (line_of r) = (fst r :: map fmt (fst (snd r))) ++ map strip (cell_l (snd (snd r)))
    /\ last_value (line_of r) = lastf r.
  Proof.
    intros Hr. destruct (line_of_shape r Hr) as [c [t [E [Hc Hh]]]].
    split; [rewrite E; apply blank_cons_nospace; exact Hc|].
    split; [rewrite E; simpl; apply Z.eqb_neq; exact Hh|].
    pose proof (row_fields_notab r Hr) as Hnt. pose proof (row_fields_avoid r Hr) as Hav.
    destruct r as [id [vals cell]]. destruct Hr as (Hid & Hv & Hn & Hcell). simpl in *.
    assert (EL : line_of (id, (vals, cell)) = join TAB ((id :: map fmt vals) ++ cell_l cell))
      by (apply row_line_join; exact Hv).
    split; [rewrite EL; apply avoids_join; [apply GB|exact Hav]|].
    assert (ES : split_on TAB (line_of (id, (vals, cell))) = (id :: map fmt vals) ++ cell_l cell).
    { rewrite EL. apply split_on_join; [exact Hnt|discriminate]. }
    unfold fields_of, last_value, lastf. rewrite ES. cbv zeta. simpl snd. simpl fst.
    destruct cell as [m|]; simpl cell_l.
    - rewrite removelast_snoc, last_snoc. simpl map. split; reflexivity.
    - rewrite app_nil_r. destruct (snoc_exists vals Hv) as [vs [x Ex]]. subst vals.
      rewrite map_app. simpl map. rewrite app_comm_cons. rewrite removelast_snoc, !last_snoc.
      rewrite Forall_forall in Hn. destruct (Hn x) as (_ & _ & Hs); [apply in_or_app; right; left; reflexivity|].
      rewrite Hs. rewrite app_nil_r. split; reflexivity.
  Qed.

  Lemma parse_all_fmt vals : Forall num_ok vals -> parse_all parse_num (map fmt vals) = Some vals.
  Proof.
    induction 1 as [|v vals Hv Hvs IH]; simpl; [reflexivity|].
    destruct Hv as (Hp & _). rewrite Hp, IH. reflexivity.
  Qed.

  Lemma data_rows_lines numeric l : Forall row_ok l ->
    Forall (fun r => is_some (snd (snd r)) = negb numeric) l ->
    data_rows parse_num numeric (map line_of l)
    = ROk (map (fun r => (fst r, fst (snd r), lastf r)) l).
  Proof.
    intros H. induction H as [|r l Hr Hl IH]; intros Hc; [reflexivity|].
    inversion Hc as [|? ? Hc1 Hc2]; subst.
    cbn [map data_rows].
    destruct (row_read r Hr) as (Hb & Hh & _ & Hf & _). rewrite Hb, Hh. cbv zeta. rewrite Hf.
    rewrite (IH Hc2).
    destruct r as [id [vals cell]]. destruct Hr as (Hid & Hv & Hn & Hcell). cbn [fst snd] in *.
    assert (Hm : map fmt vals <> []) by (destruct vals; [congruence|discriminate]).
    destruct numeric, cell as [m|]; cbn [is_some negb] in Hc1; try discriminate; cbn [cell_l map].
    - rewrite app_nil_r. cbn [tl hd]. rewrite parse_all_fmt by exact Hn.
      rewrite last_cons_ne by exact Hm. rewrite (last_map_ne fmt vals 0 []) by exact Hv.
      unfold lastf. cbn [fst snd]. reflexivity.
    - cbn [app tl hd]. rewrite removelast_snoc. rewrite parse_all_fmt by exact Hn.
      rewrite app_comm_cons, last_snoc. unfold lastf. cbn [fst snd]. reflexivity.
  Qed.

  Lemma last_numeric_lines l : Forall row_ok l ->
    last_numeric parse_num (map line_of l) = forallb (fun r => isfloat parse_num (lastf r)) l.
  Proof.
    induction 1 as [|r l Hr Hl IH]; simpl; [reflexivity|].
    destruct (row_read r Hr) as (_ & _ & _ & _ & Hlv). rewrite Hlv, IH. reflexivity.
  Qed.

  Lemma lines_avoid l : Forall row_ok l -> Forall (avoids brk) (map line_of l).
  Proof.
    induction 1 as [|r l Hr Hl IH]; simpl; constructor; [|exact IH].
    apply (row_read r Hr).
  Qed.

  (* ---------------- the header line ---------------- *)
  Definition hv_l (o : opts) : list text := match header_value o with Some ((_ :: _) as hv) => [hv] | _ => [] end.

  Lemma header_line_join c o : x_sids c <> [] ->
    header_line c o = join TAB ((ocn o :: x_sids c) ++ hv_l o).
  Proof.
    intros H. unfold header_line, hv_l. destruct (header_value o) as [[|h hs]|].
    - rewrite app_nil_r, join_cons by exact H. reflexivity.
    - rewrite join_snoc by discriminate. rewrite join_cons by exact H. rewrite <- !app_assoc. reflexivity.
    - rewrite app_nil_r, join_cons by exact H. reflexivity.
  Qed.

  Lemma OCN_notab : ~ In TAB OCN.
  Proof. intros H. vm_compute in H. repeat (destruct H as [H|H]; [discriminate|]). exact H. Qed.

  Lemma blank_last_nospace t : t <> [] -> is_space (last t 0) = false -> blank t = false.
  Proof.
    intros Hne Hl. destruct (snoc_exists t Hne) as [l [c E]]. subst t. rewrite last_snoc in Hl.
    unfold blank, strip.
    assert (Hk : exists y, lstrip (l ++ [c]) = y ++ [c]).
    { clear Hne. induction l as [|a l IH]; simpl; [rewrite Hl; exists []; reflexivity|].
      destruct (is_space a); [exact IH|exists (a :: l); reflexivity]. }
    destruct Hk as [y Ey]. rewrite Ey, rstrip_snoc_nospace by exact Hl. destruct y; reflexivity.
  Qed.

  (* what the header loop finds in the written lines: the columns behind the corner cell oc of
     the header line, and the data start right behind it - whether the corner cell starts with
     '#' (the default "#OTU ID") or not ('', ' ', "Taxon": the header is then the first line that
     does not start with '#') *)
  Lemma find_header_written oc cols hl r0 rest :
    row_ok r0 -> ~ In TAB oc -> cols <> [] -> Forall (fun p => ~ In TAB p) cols ->
    is_space (last (last cols []) 0) = false -> last cols [] <> [] ->
    hl = join TAB (oc :: cols) ->
    find_header (CONSTRUCTED :: hl :: line_of r0 :: rest) None 0 = (Some cols, 2%nat).
  Proof.
    intros Hr Hoc Hne Hnt Hlast Hlne Ehl.
    cbn [find_header].
    replace (blank CONSTRUCTED) with false by (vm_compute; reflexivity).
    replace (starts_hash CONSTRUCTED) with true by (vm_compute; reflexivity).
    replace (tl (split_on TAB (strip CONSTRUCTED))) with (@nil text) by (vm_compute; reflexivity).
    cbn [negb].
    assert (Hlast_hl : is_space (last hl 0) = false).
    { rewrite Ehl. destruct (snoc_exists cols Hne) as [cs [x Ex]]. subst cols.
      rewrite last_snoc in Hlast, Hlne. rewrite app_comm_cons. rewrite last_join_snoc by exact Hlne. exact Hlast. }
    assert (Hhl_ne : hl <> []).
    { rewrite Ehl. rewrite join_cons by exact Hne. intros E. apply app_eq_nil in E. destruct E as [_ E]. discriminate. }
    assert (Hb : blank hl = false) by (apply blank_last_nospace; assumption).
    assert (Hsp : split_on TAB hl = oc :: cols).
    { rewrite Ehl. apply split_on_join; [constructor; [exact Hoc|exact Hnt]|discriminate]. }
    rewrite Hb. destruct (starts_hash hl) eqn:Hh; cbn [negb].
    - assert (Hs : strip hl = hl).
      { apply strip_edges; [exact Hhl_ne|]. split; [|exact Hlast_hl].
        destruct hl as [|c0 t]; [discriminate|]. simpl in Hh. apply Z.eqb_eq in Hh. subst c0. reflexivity. }
      rewrite Hs, Hsp. cbn [tl].
      destruct (row_read r0 Hr) as (Hb0 & Hh0 & _). rewrite Hb0, Hh0. cbn [negb].
      destruct cols; [congruence|]. reflexivity.
    - cbn [truthy].
      assert (Hrs : rstrip hl = hl).
      { destruct (snoc_exists hl Hhl_ne) as [l [c E]]. rewrite E in *. rewrite last_snoc in Hlast_hl.
        apply rstrip_snoc_nospace. exact Hlast_hl. }
      rewrite Hrs, Hsp. reflexivity.
  Qed.

  (* ---------------- the table-level hypotheses ---------------- *)
  Definition ids_tsv_safe (c : ttab) : Prop := Forall id_safe (x_oids c) /\ Forall id_safe (x_sids c).
  Definition faithful_on (c : ttab) : Prop := Forall (Forall num_ok) (x_mat c).

  Lemma rows_ok c cells : xwf c -> x_sids c <> [] -> ids_tsv_safe c -> faithful_on c ->
    length cells = length (x_oids c) ->
    Forall (fun cell => match cell with Some m => txt_ok m | None => True end) cells ->
    Forall row_ok (combine (x_oids c) (combine (x_mat c) cells)).
  Proof.
    intros (W1 & W2 & _) Hs [Ho _] Hf Hl Hc.
    assert (Hm : Forall (fun vals => vals <> [] /\ Forall num_ok vals) (x_mat c)).
    { unfold rect in W2. unfold faithful_on in Hf. rewrite Forall_forall in *. intros vals Hin. split; [|apply Hf; exact Hin].
      specialize (W2 vals Hin). destruct vals; [|discriminate]. destruct (x_sids c); [congruence|discriminate]. }
    pose proof (Forall_combine _ _ _ _ Ho (Forall_combine _ _ _ _ Hm Hc)) as F.
    eapply Forall_impl; [|exact F]. intros [id [vals cell]] (A & (B1 & B2) & C). simpl in *.
    unfold row_ok. simpl. tauto.
  Qed.

  Lemma combine3_proj (a : list text) (b : matrix) (c : list (option text)) :
    length b = length a -> length c = length a ->
    map (fun r : rowrec => fst r) (combine a (combine b c)) = a
    /\ map (fun r : rowrec => fst (snd r)) (combine a (combine b c)) = b
    /\ map (fun r : rowrec => snd (snd r)) (combine a (combine b c)) = c.
  Proof.
    revert b c. induction a as [|x a IH]; intros [|y b] [|z c] H1 H2; simpl in *; try discriminate.
    - repeat split.
    - destruct (IH b c) as (A & B & C); [lia|lia|]. rewrite A, B, C. repeat split.
  Qed.

  (* the written lines come back from the text *)
  Lemma feed_written keep ls : ls <> [] -> Forall (avoids brk) ls ->
    from_tsv parse_num process (feed brk keep (join NL ls)) = from_tsv parse_num process ls.
  Proof.
    intros Hne Hav. unfold feed.
    rewrite split_when_join; [|apply GB|exact Hav|exact Hne].
    destruct keep; [apply from_tsv_keepends|reflexivity].
  Qed.

  (* ---------------- what the reader makes of written lines ---------------- *)
  Lemma extract_written oc l cols numeric :
    Forall row_ok l -> l <> [] -> ~ In TAB oc ->
    cols <> [] -> Forall (fun p => ~ In TAB p) cols ->
    is_space (last (last cols []) 0) = false -> last cols [] <> [] ->
    Forall (fun r => is_some (snd (snd r)) = negb numeric) l ->
    forallb (fun r => isfloat parse_num (lastf r)) l = numeric ->
    extract_tsv parse_num (CONSTRUCTED :: join TAB (oc :: cols) :: map line_of l)
    = ROk (mkE (if numeric then cols else removelast cols)
               (map (fun r : rowrec => fst r) l)
               (all_triples 0 (map (fun r : rowrec => fst (snd r)) l))
               (if numeric then None else Some (map lastf l))
               (if numeric then None else Some (last cols []))).
  Proof.
    intros Hrows Hl Hoc Hc1 Hc2 Hc3 Hc4 Hcells Hnum.
    destruct l as [|r0 l']; [congruence|].
    pose proof (Forall_inv Hrows) as Hr0.
    unfold extract_tsv. cbn [map].
    rewrite (find_header_written oc cols _ r0 (map line_of l') Hr0 Hoc Hc1 Hc2 Hc3 Hc4 eq_refl).
    cbn [skipn].
    change (line_of r0 :: map line_of l') with (map line_of (r0 :: l')).
    rewrite (last_numeric_lines _ Hrows), Hnum.
    rewrite (data_rows_lines numeric (r0 :: l') Hrows Hcells).
    destruct numeric; cbn [orb Nat.eqb].
    - rewrite !map_map. reflexivity.
    - destruct cols as [|c0 cols']; [congruence|]. rewrite !map_map. reflexivity.
  Qed.

  (* the constructor on what extract_written returns *)
  Lemma construct_written (oids sids : list text) (mx : matrix) (md : option (list text)) (name : option text) :
    length mx = length oids -> rect (length sids) mx -> NoDup oids -> NoDup sids ->
    (if negb (in_shape (length oids) (length sids) (all_triples 0 mx)) then RErr E_TABLE
     else if tdup oids || tdup sids then RErr E_TABLE
     else ROk (mkX oids sids (dense_of (length oids) (length sids) (all_triples 0 mx))
                   (match md with
                    | Some ((_ :: _) as l) => Some (map (fun v => [(match name with Some n => n | None => [] end, process v)]) l)
                    | _ => None
                    end)))
    = ROk (mkX oids sids mx
               (match md with
                | Some ((_ :: _) as l) => Some (map (fun v => [(match name with Some n => n | None => [] end, process v)]) l)
                | _ => None
                end)).
  Proof.
    intros W1 W2 W3 W4. rewrite <- W1. rewrite (in_shape_all_triples _ _ W2). cbn [negb].
    apply tdup_false_NoDup in W3. apply tdup_false_NoDup in W4. rewrite W3, W4. cbn [orb].
    rewrite (dense_of_all_triples _ _ W2). reflexivity.
  Qed.

  Lemma sids_cols c : x_sids c <> [] -> Forall id_safe (x_sids c) ->
    is_space (last (last (x_sids c) []) 0) = false /\ last (x_sids c) [] <> []
    /\ Forall (fun p => ~ In TAB p) (x_sids c) /\ Forall (avoids brk) (x_sids c).
  Proof.
    intros Hs Hsi.
    pose proof (last_In (x_sids c) [] Hs) as Hin. pose proof Hsi as Hsi'. rewrite Forall_forall in Hsi'.
    split; [apply (Hsi' _ Hin)|]. split; [apply (Hsi' _ Hin)|].
    split; (eapply Forall_impl; [|exact Hsi]); intros t Ht; apply Ht.
  Qed.

  (* ---------------- round trip without a metadata column ---------------- *)
  Theorem roundtrip_plain_oc oc c keep :
    ~ In TAB oc -> avoids brk oc ->
    xwf c -> x_empty c = false -> ids_tsv_safe c -> faithful_on c ->
    roundtrip fmt parse_num format process brk keep c (mkO3 None None oc)
    = ROk (mkX (x_oids c) (x_sids c) (x_mat c) None).
  Proof.
    intros Hoc1 Hoc2 W Hne Hids Hf. set (no_opts := mkO3 None None oc).
    assert (Ho : x_oids c <> []) by (unfold x_empty in Hne; destruct (x_oids c); [discriminate|discriminate]).
    assert (Hs : x_sids c <> []) by (unfold x_empty in Hne; destruct (x_oids c), (x_sids c); try discriminate).
    unfold roundtrip, to_tsv_text, to_tsv. rewrite Hne. simpl header_key. simpl header_value. cbn [is_some andb negb].
    set (cells := md_cells format c no_opts).
    assert (Ecells : cells = map (fun _ => None) (x_oids c)) by reflexivity.
    assert (Lc : length cells = length (x_oids c)) by (rewrite Ecells; apply map_length).
    assert (Fc : Forall (fun cell : option text => match cell with Some m => txt_ok m | None => True end) cells).
    { rewrite Ecells. apply Forall_forall. intros x Hx. apply in_map_iff in Hx. destruct Hx as [? [E _]]. subst. trivial. }
    pose proof (rows_ok c cells W Hs Hids Hf Lc Fc) as Hrows.
    rewrite row_lines_map. set (l := combine (x_oids c) (combine (x_mat c) cells)) in *.
    destruct W as (W1 & W2 & W3 & W4 & W5).
    destruct (combine3_proj (x_oids c) (x_mat c) cells W1 Lc) as (P1 & P2 & P3). fold l in P1, P2, P3.
    assert (Hl : l <> []).
    { intros E. rewrite E in P1. simpl in P1. congruence. }
    assert (Hhl : header_line c no_opts = join TAB (oc :: x_sids c)).
    { rewrite header_line_join by exact Hs. simpl hv_l. rewrite app_nil_r. reflexivity. }
    destruct (sids_cols c Hs (proj2 Hids)) as (Hs1 & Hs2 & Hs3 & Hs4).
    assert (Hhav : avoids brk (header_line c no_opts)).
    { rewrite Hhl. apply avoids_join; [apply GB|]. constructor; [exact Hoc2|exact Hs4]. }
    rewrite feed_written; [|discriminate|constructor; [apply GB|constructor; [exact Hhav|apply lines_avoid; exact Hrows]]].
    assert (Hcn : forall r, In r l -> snd (snd r) = None).
    { intros r Hin.
      assert (H : In (snd (snd r)) (map (fun r : rowrec => snd (snd r)) l)) by (apply (in_map (fun r : rowrec => snd (snd r))); exact Hin).
      rewrite P3, Ecells in H. apply in_map_iff in H. destruct H as [? [E _]]. congruence. }
    unfold from_tsv. rewrite Hhl.
    rewrite (extract_written oc l (x_sids c) true Hrows Hl Hoc1 Hs Hs3 Hs1 Hs2).
    - cbn [e_md e_oids e_sids e_data e_name]. rewrite P1, P2.
      apply (construct_written (x_oids c) (x_sids c) (x_mat c) None None W1 W2 W3 W4).
    - apply Forall_forall. intros r Hin. rewrite (Hcn r Hin). reflexivity.
    - apply forallb_forall. intros r Hin. pose proof Hrows as Hr. rewrite Forall_forall in Hr. specialize (Hr r Hin).
      unfold lastf. rewrite (Hcn r Hin). destruct Hr as (_ & Hv & Hn & _).
      rewrite Forall_forall in Hn. destruct (Hn _ (last_In _ 0 Hv)) as (Hp & _).
      unfold isfloat. rewrite Hp. reflexivity.
  Qed.

  Theorem roundtrip_plain c keep :
    xwf c -> x_empty c = false -> ids_tsv_safe c -> faithful_on c ->
    roundtrip fmt parse_num format process brk keep c no_opts
    = ROk (mkX (x_oids c) (x_sids c) (x_mat c) None).
  Proof. apply roundtrip_plain_oc; [exact OCN_notab|apply GB]. Qed.

  (* ---------------- round trip with one observation-metadata category ---------------- *)
  (* the formatted texts of the exported category, in observation order *)
  Definition md_texts (key : text) (c : ttab) : list text :=
    match x_omd c with Some es => map (fun e => format (md_get key e)) es | None => [] end.

  Theorem roundtrip_md_oc oc c keep key hv es :
    ~ In TAB oc -> avoids brk oc ->
    xwf c -> x_empty c = false -> ids_tsv_safe c -> faithful_on c ->
    key <> [] -> hv <> [] -> txt_ok hv -> is_space (last hv 0) = false ->
    x_omd c = Some es ->
    Forall txt_ok (md_texts key c) ->
    Exists (fun m => isfloat parse_num (strip m) = false) (md_texts key c) ->
    roundtrip fmt parse_num format process brk keep c (mkO3 (Some key) (Some hv) oc)
    = ROk (mkX (x_oids c) (x_sids c) (x_mat c)
               (Some (map (fun m => [(hv, process (strip m))]) (md_texts key c)))).
  Proof.
    intros Hoc1 Hoc2 W Hne Hids Hf Hkey Hhv Hhvok Hhvl Homd Hms Hex.
    assert (Ho : x_oids c <> []) by (unfold x_empty in Hne; destruct (x_oids c); [discriminate|discriminate]).
    assert (Hs : x_sids c <> []) by (unfold x_empty in Hne; destruct (x_oids c), (x_sids c); try discriminate).
    set (o := mkO3 (Some key) (Some hv) oc).
    unfold roundtrip, to_tsv_text, to_tsv. rewrite Hne. simpl header_key. simpl header_value. cbn [is_some andb negb].
    set (ms := md_texts key c) in *.
    assert (Ems : ms = map (fun e => format (md_get key e)) es) by (unfold ms, md_texts; rewrite Homd; reflexivity).
    set (cells := md_cells format c o).
    assert (Ecells : cells = map Some ms).
    { unfold cells, md_cells, o. simpl header_key. rewrite Homd. destruct key as [|k0 ks]; [congruence|].
      rewrite Ems, map_map. reflexivity. }
    pose proof W as (W1 & W2 & W3 & W4 & W5). rewrite Homd in W5.
    assert (Lc : length cells = length (x_oids c)).
    { rewrite Ecells, map_length, Ems, map_length. exact W5. }
    assert (Fc : Forall (fun cell : option text => match cell with Some m => txt_ok m | None => True end) cells).
    { rewrite Ecells. apply Forall_forall. intros x Hx. apply in_map_iff in Hx. destruct Hx as [m [E Hin]]. subst.
      rewrite Forall_forall in Hms. apply Hms. exact Hin. }
    pose proof (rows_ok c cells W Hs Hids Hf Lc Fc) as Hrows.
    rewrite row_lines_map. set (l := combine (x_oids c) (combine (x_mat c) cells)) in *.
    destruct (combine3_proj (x_oids c) (x_mat c) cells W1 Lc) as (P1 & P2 & P3). fold l in P1, P2, P3.
    assert (Hl : l <> []).
    { intros E. rewrite E in P1. simpl in P1. congruence. }
    assert (Hhl : header_line c o = join TAB (oc :: (x_sids c ++ [hv]))).
    { rewrite header_line_join by exact Hs. unfold hv_l, o. simpl header_value. destruct hv as [|h0 hs]; [congruence|].
      rewrite app_comm_cons. reflexivity. }
    destruct (sids_cols c Hs (proj2 Hids)) as (Hs1 & Hs2 & Hs3 & Hs4).
    assert (Hhav : avoids brk (header_line c o)).
    { rewrite Hhl. apply avoids_join; [apply GB|]. constructor; [exact Hoc2|].
      apply Forall_app. split; [exact Hs4|constructor; [apply Hhvok|constructor]]. }
    rewrite feed_written; [|discriminate|constructor; [apply GB|constructor; [exact Hhav|apply lines_avoid; exact Hrows]]].
    assert (Hlast : map lastf l = map strip ms).
    { assert (E : map lastf l = map (fun cell => match cell with Some m => strip m | None => [] end)
                                   (map (fun r : rowrec => snd (snd r)) l)).
      { rewrite map_map. apply map_ext_in. intros r Hin.
        assert (H : In (snd (snd r)) (map (fun r : rowrec => snd (snd r)) l)) by (apply (in_map (fun r : rowrec => snd (snd r))); exact Hin).
        rewrite P3, Ecells in H. apply in_map_iff in H. destruct H as [m [E _]]. unfold lastf. rewrite <- E. reflexivity. }
      rewrite E, P3, Ecells, map_map. reflexivity. }
    unfold from_tsv. rewrite Hhl.
    rewrite (extract_written oc l (x_sids c ++ [hv]) false Hrows Hl Hoc1).
    - cbn [e_md e_oids e_sids e_data e_name]. rewrite P1, P2, removelast_snoc, last_snoc, Hlast.
      assert (Hmne : ms <> []).
      { intros E. rewrite Ems in E. apply map_eq_nil in E. rewrite E in W5. simpl in W5. destruct (x_oids c); [congruence|discriminate]. }
      destruct (map strip ms) as [|m0 r0] eqn:Em; [apply map_eq_nil in Em; congruence|].
      etransitivity; [exact (construct_written (x_oids c) (x_sids c) (x_mat c) (Some (m0 :: r0)) (Some hv) W1 W2 W3 W4)|].
      cbv iota. rewrite <- Em, map_map. reflexivity.
    - destruct (x_sids c); discriminate.
    - apply Forall_app. split; [exact Hs3|constructor; [apply Hhvok|constructor]].
    - rewrite !last_snoc. exact Hhvl.
    - rewrite last_snoc. exact Hhv.
    - apply Forall_forall. intros r Hin.
      assert (H : In (snd (snd r)) (map (fun r : rowrec => snd (snd r)) l)) by (apply (in_map (fun r : rowrec => snd (snd r))); exact Hin).
      rewrite P3, Ecells in H. apply in_map_iff in H. destruct H as [m [E _]]. rewrite <- E. reflexivity.
    - assert (E : forallb (fun r => isfloat parse_num (lastf r)) l = forallb (isfloat parse_num) (map lastf l)).
      { clear. induction l as [|r l IH]; simpl; [reflexivity|]. rewrite IH. reflexivity. }
      rewrite E, Hlast. clear E.
      assert (E2 : forallb (isfloat parse_num) (map strip ms) = forallb (fun m => isfloat parse_num (strip m)) ms).
      { clear. induction ms as [|m ms IH]; simpl; [reflexivity|]. rewrite IH. reflexivity. }
      rewrite E2. apply forallb_false_Exists. exact Hex.
  Qed.

  Theorem roundtrip_md c keep key hv es :
    xwf c -> x_empty c = false -> ids_tsv_safe c -> faithful_on c ->
    key <> [] -> hv <> [] -> txt_ok hv -> is_space (last hv 0) = false ->
    x_omd c = Some es ->
    Forall txt_ok (md_texts key c) ->
    Exists (fun m => isfloat parse_num (strip m) = false) (md_texts key c) ->
    roundtrip fmt parse_num format process brk keep c (mkO (Some key) (Some hv))
    = ROk (mkX (x_oids c) (x_sids c) (x_mat c)
               (Some (map (fun m => [(hv, process (strip m))]) (md_texts key c)))).
  Proof. apply roundtrip_md_oc; [exact OCN_notab|apply GB]. Qed.

  (* when the processing function inverts the formatter the category itself comes back *)
  Corollary roundtrip_md_inverse c keep key hv es :
    xwf c -> x_empty c = false -> ids_tsv_safe c -> faithful_on c ->
    key <> [] -> hv <> [] -> txt_ok hv -> is_space (last hv 0) = false ->
    x_omd c = Some es ->
    Forall txt_ok (md_texts key c) ->
    Exists (fun m => isfloat parse_num (strip m) = false) (md_texts key c) ->
    Forall (fun e => process (strip (format (md_get key e))) = md_get key e) es ->
    roundtrip fmt parse_num format process brk keep c (mkO (Some key) (Some hv))
    = ROk (mkX (x_oids c) (x_sids c) (x_mat c) (Some (map (fun e => [(hv, md_get key e)]) es))).
  Proof.
    intros W Hne Hids Hf Hkey Hhv Hhvok Hhvl Homd Hms Hex Hinv.
    rewrite (roundtrip_md c keep key hv es W Hne Hids Hf Hkey Hhv Hhvok Hhvl Homd Hms Hex).
    do 2 f_equal. unfold md_texts. rewrite Homd, map_map. f_equal. apply map_ext_in. intros e Hin.
    rewrite Forall_forall in Hinv. rewrite (Hinv e Hin). reflexivity.
  Qed.
End Round.

(* ------------------------------------------------------------------ the three feeders *)
Lemma good_brk_nl : good_brk brk_nl.
Proof. repeat split; try reflexivity; apply Forall_forall; intros c H; vm_compute in H;
  repeat (destruct H as [H|H]; [subst; reflexivity|]); contradiction. Qed.
Lemma good_brk_univ : good_brk brk_univ.
Proof. repeat split; try reflexivity; apply Forall_forall; intros c H; vm_compute in H;
  repeat (destruct H as [H|H]; [subst; reflexivity|]); contradiction. Qed.
Lemma good_brk_gz : good_brk brk_gz.
Proof. repeat split; try reflexivity; apply Forall_forall; intros c H; vm_compute in H;
  repeat (destruct H as [H|H]; [subst; reflexivity|]); contradiction. Qed.

Lemma avoids_nl t : avoids brk_nl t <-> ~ In NL t.
Proof.
  unfold avoids, brk_nl. rewrite Forall_forall. split.
  - intros H Hin. specialize (H _ Hin). rewrite Z.eqb_refl in H. discriminate.
  - intros H c Hc. apply Z.eqb_neq. intros E. subst. contradiction.
Qed.

Lemma avoids_univ t : avoids brk_univ t <-> ~ In NL t /\ ~ In 13 t.
Proof.
  unfold avoids, brk_univ. rewrite Forall_forall. split.
  - intros H. split; intros Hin; specialize (H _ Hin); discriminate.
  - intros [H1 H2] c Hc. apply orb_false_iff. split; apply Z.eqb_neq; intros E; subst; contradiction.
Qed.

(* ------------------------------------------------------------------ header detection *)
Definition cols_of (l : text) : list text := tl (split_on TAB (strip l)).
Definition count_nonblank (ls : list text) : nat := length (filter (fun l => negb (blank l)) ls).

Lemma find_header_blank mid : Forall (fun l => blank l = true) mid ->
  forall rest h i, find_header (mid ++ rest) h i = find_header rest h i.
Proof. induction 1 as [|l mid Hl Hm IH]; intros rest h i; simpl; [reflexivity|]. rewrite Hl. apply IH. Qed.

(* The header is the LAST line starting with '#' in the leading block of comment and blank
   lines, provided it has at least one column besides the first; the data start is counted in
   non-blank lines only (blank lines do not advance the index, table.py:5206-5207). *)
Lemma header_found pre h mid d rest :
  Forall (fun l => blank l = true \/ starts_hash l = true) pre ->
  blank h = false -> starts_hash h = true -> cols_of h <> [] ->
  Forall (fun l => blank l = true) mid ->
  blank d = false -> starts_hash d = false ->
  forall hdr0 i0,
  find_header (pre ++ h :: mid ++ d :: rest) hdr0 i0
  = (Some (cols_of h), (i0 + count_nonblank pre + 1)%nat).
Proof.
  intros Hpre Hb Hh Hc Hmid Hdb Hdh.
  induction Hpre as [|l pre Hl Hp IH]; intros hdr0 i0.
  - cbn [app find_header]. rewrite Hb, Hh. cbn [negb]. rewrite (find_header_blank mid Hmid).
    cbn [find_header]. rewrite Hdb, Hdh. cbn [negb]. fold (cols_of h).
    destruct (cols_of h) eqn:E; [congruence|]. cbn [truthy]. f_equal. unfold count_nonblank. simpl. lia.
  - cbn [app find_header]. unfold count_nonblank. cbn [filter].
    destruct (blank l) eqn:El.
    + cbn [negb]. rewrite IH. reflexivity.
    + destruct Hl as [Hl|Hl]; [congruence|]. rewrite Hl. cbn [negb length]. rewrite IH.
      f_equal. unfold count_nonblank. lia.
Qed.

(* without any '#' line the first non-blank line is the header and the data start behind it *)
Lemma header_first_line pre d rest :
  Forall (fun l => blank l = true) pre -> blank d = false -> starts_hash d = false ->
  find_header (pre ++ d :: rest) None 0 = (Some (tl (split_on TAB (rstrip d))), 1%nat).
Proof.
  intros Hpre Hb Hh. rewrite (find_header_blank pre Hpre). cbn [find_header]. rewrite Hb, Hh. reflexivity.
Qed.

(* ------------------------------------------------------------------ the last-column heuristic *)
Section Heuristic.
  Variable parse_num : text -> option Z.

  (* over lines given by their fields: the last column counts as numeric iff the stripped last
     field of EVERY remaining line (data, comment or blank) is accepted by float() *)
  Lemma last_col_numeric_iff (rows : list (list text)) :
    Forall (fun fs => fs <> [] /\ Forall (fun p => ~ In TAB p) fs) rows ->
    (last_numeric parse_num (map (join TAB) rows) = true
     <-> Forall (fun fs => isfloat parse_num (strip (last fs [])) = true) rows).
  Proof.
    intros H. unfold last_numeric. rewrite forallb_forall, Forall_forall. split.
    - intros A fs Hin. rewrite Forall_forall in H. destruct (H fs Hin) as [Hne Hnt].
      specialize (A (join TAB fs) (in_map _ _ _ Hin)). unfold last_value in A.
      rewrite split_on_join in A by assumption. exact A.
    - intros A l Hin. apply in_map_iff in Hin. destruct Hin as [fs [E Hin]]. subst.
      rewrite Forall_forall in H. destruct (H fs Hin) as [Hne Hnt].
      unfold last_value. rewrite split_on_join by assumption. apply A. exact Hin.
  Qed.

  (* a blank line among the lines behind the header makes the last column "not numeric" as
     soon as float('') is refused: this is why trailing blank lines are outside the format *)
  Lemma blank_line_not_numeric ls : parse_num [] = None -> In [] ls -> last_numeric parse_num ls = false.
  Proof.
    intros Hp Hin. unfold last_numeric. apply forallb_false_Exists. apply Exists_exists.
    exists []. split; [exact Hin|]. unfold isfloat, last_value. simpl. unfold strip, rstrip. simpl. rewrite Hp. reflexivity.
  Qed.
End Heuristic.

(* ------------------------------------------------------------------ the sc_separated pair *)
Lemma join2_join e r : join2 (e :: r) = join SEMI (e :: map (cons SP) r).
Proof. simpl. f_equal. induction r as [|q r IH]; simpl; [reflexivity|]. rewrite IH. reflexivity. Qed.

Lemma strip_sp_cons e : e <> [] -> edges_ok e -> strip (SP :: e) = e.
Proof. intros Hne He. unfold strip. simpl lstrip. change (is_space SP) with true. cbv iota. apply (strip_edges e Hne He). Qed.

(* a taxonomy-like value: a non-empty list of non-empty strings without ';' and without
   leading/trailing blanks comes back from '; '.join followed by split(';') + strip *)
Lemma sc_inverse (l : list text) :
  l <> [] -> Forall (fun e => e <> [] /\ ~ In SEMI e /\ edges_ok e) l ->
  proc_sc (strip (fmt_sc (tList (map tStr l)))) = tList (map tStr l).
Proof.
  intros Hne H. unfold fmt_sc, tList, tnth. cbn [tL nth].
  assert (Es : map str_of (map tStr l) = l).
  { rewrite map_map. rewrite <- (map_id l) at 2. apply map_ext. intros e. unfold str_of, tStr, tnth, tLZ, eLZ. cbn [tL nth].
    rewrite map_map. rewrite <- (map_id e) at 2. apply map_ext. reflexivity. }
  rewrite Es. destruct l as [|e r]; [congruence|].
  inversion H as [|? ? He Hr]; subst. destruct He as (He1 & He2 & He3).
  assert (Hst : strip (join2 (e :: r)) = join2 (e :: r)).
  { apply strip_edges.
    - destruct e; [congruence|discriminate].
    - split.
      + destruct e as [|c e']; [congruence|]. simpl. apply He3.
      + destruct (snoc_exists (e :: r)) as [l' [x Ex]]; [discriminate|].
        assert (Hx : x <> [] /\ edges_ok x).
        { assert (In x (e :: r)) by (rewrite Ex; apply in_or_app; right; left; reflexivity).
          rewrite Forall_forall in H. destruct (H x H0) as (A & _ & B). split; assumption. }
        rewrite Ex. destruct l' as [|a l'].
        * simpl. rewrite app_nil_r. apply Hx.
        * change ((a :: l') ++ [x]) with (a :: (l' ++ [x])). rewrite join2_join, map_app. simpl map.
          rewrite app_comm_cons, last_join_snoc by discriminate.
          change (last (SP :: x) 0) with (last ([SP] ++ x) 0). rewrite last_app_ne by apply Hx. apply Hx. }
  rewrite Hst. unfold proc_sc. rewrite join2_join.
  rewrite split_on_join; [|constructor; [exact He2|]|discriminate].
  - cbn [map]. rewrite (strip_edges e He1 He3).
    assert (Em : map (fun e0 : text => tStr (strip e0)) (map (cons SP) r) = map tStr r).
    { rewrite map_map. apply map_ext_in. intros q Hq. f_equal.
      rewrite Forall_forall in Hr. destruct (Hr q Hq) as (A & _ & B). apply strip_sp_cons; assumption. }
    rewrite Em. reflexivity.
  - apply Forall_forall. intros q Hq. apply in_map_iff in Hq. destruct Hq as [q' [E Hq']]. subst.
    rewrite Forall_forall in Hr. destruct (Hr q' Hq') as (_ & A & _). intros [F|F]; [discriminate|contradiction].
Qed.

(* ------------------------------------------------------------------ decidable forms of the hypotheses *)
Definition avoidsb (f : Z -> bool) (t : text) : bool := forallb (fun c => negb (f c)) t.
Definition notinb (d : Z) (t : text) : bool := negb (zmem d t).
Definition edges_okb (t : text) : bool := negb (is_space (hd 0 t)) && negb (is_space (last t 0)).
Definition is_nil {A} (l : list A) : bool := match l with [] => true | _ => false end.
Definition txt_okb (brk : Z -> bool) (t : text) : bool := notinb TAB t && avoidsb brk t.
Definition id_safeb (brk : Z -> bool) (t : text) : bool :=
  negb (is_nil t) && txt_okb brk t && negb (hd 0 t =? HASH) && edges_okb t.
Definition num_okb (fmt : Z -> text) (parse_num : text -> option Z) (brk : Z -> bool) (v : Z) : bool :=
  match parse_num (fmt v) with Some v' => v' =? v | None => false end
  && txt_okb brk (fmt v) && text_eqb (strip (fmt v)) (fmt v).
Definition ids_tsv_safeb (brk : Z -> bool) (c : ttab) : bool :=
  forallb (id_safeb brk) (x_oids c) && forallb (id_safeb brk) (x_sids c).
Definition faithful_onb fmt parse_num brk (c : ttab) : bool := forallb (forallb (num_okb fmt parse_num brk)) (x_mat c).

Lemma avoidsb_ok f t : avoidsb f t = true -> avoids f t.
Proof.
  unfold avoidsb, avoids. rewrite forallb_forall, Forall_forall. intros H c Hc.
  specialize (H c Hc). destruct (f c); [discriminate|reflexivity].
Qed.
Lemma notinb_ok d t : notinb d t = true -> ~ In d t.
Proof. unfold notinb. intros H Hin. apply zmem_In in Hin. rewrite Hin in H. discriminate. Qed.
Lemma edges_okb_ok t : edges_okb t = true -> edges_ok t.
Proof. unfold edges_okb, edges_ok. rewrite andb_true_iff, !negb_true_iff. tauto. Qed.
Lemma txt_okb_ok brk t : txt_okb brk t = true -> txt_ok brk t.
Proof. unfold txt_okb, txt_ok. rewrite andb_true_iff. intros [A B]. split; [apply notinb_ok; exact A|apply avoidsb_ok; exact B]. Qed.
Lemma id_safeb_ok brk t : id_safeb brk t = true -> id_safe brk t.
Proof.
  unfold id_safeb, id_safe. rewrite !andb_true_iff, !negb_true_iff. intros [[[A B] C] D].
  split; [destruct t; [discriminate|discriminate]|]. split; [apply txt_okb_ok; exact B|].
  split; [apply Z.eqb_neq; exact C|apply edges_okb_ok; exact D].
Qed.
Lemma num_okb_ok fmt parse_num brk v : num_okb fmt parse_num brk v = true -> num_ok fmt parse_num brk v.
Proof.
  unfold num_okb, num_ok. rewrite !andb_true_iff. intros [[A B] C].
  split; [|split; [apply txt_okb_ok; exact B|apply text_eqb_eq; exact C]].
  destruct (parse_num (fmt v)) as [v'|]; [|discriminate]. apply Z.eqb_eq in A. congruence.
Qed.
Lemma forallb_Forall {A} (f : A -> bool) (P : A -> Prop) l :
  (forall x, f x = true -> P x) -> forallb f l = true -> Forall P l.
Proof. intros H Hl. rewrite forallb_forall in Hl. apply Forall_forall. intros x Hx. apply H, Hl, Hx. Qed.
Lemma ids_tsv_safeb_ok brk c : ids_tsv_safeb brk c = true -> ids_tsv_safe brk c.
Proof.
  unfold ids_tsv_safeb, ids_tsv_safe. rewrite andb_true_iff. intros [A B].
  split; eapply forallb_Forall; try eassumption; apply id_safeb_ok.
Qed.
Lemma faithful_onb_ok fmt parse_num brk c : faithful_onb fmt parse_num brk c = true -> faithful_on fmt parse_num brk c.
Proof.
  unfold faithful_onb, faithful_on. apply forallb_Forall. intros row. apply forallb_Forall. apply num_okb_ok.
Qed.
Lemma xwfb_xwf c : xwfb c = true -> xwf c.
Proof.
  unfold xwfb, xwf. rewrite !andb_true_iff, !negb_true_iff, Nat.eqb_eq, rectb_rect, !tdup_false_NoDup.
  intros [[[[A B] C] D] E]. repeat split; try assumption.
  destruct (x_omd c); [apply Nat.eqb_eq; exact E|trivial].
Qed.

(* ------------------------------------------------------------------ concrete witnesses *)
Module TsvExamples.
  (* number texts as str(numpy.float64) prints them *)
  Definition t00 : text := [48;46;48].                                           (* 0.0 *)
  Definition t1em7 : text := [49;101;45;48;55].                                  (* 1e-07 *)
  Definition t17 : text := [49;46;50;51;52;53;54;55;56;57;48;49;50;51;52;53;54;55]. (* 1.2345678901234567 *)
  Definition tm25 : text := [45;50;46;53].                                       (* -2.5 *)
  Definition t1e300 : text := [49;101;43;51;48;48].                              (* 1e+300 *)
  Definition ftab : list (Z * text) := [(0, t00); (1, t1em7); (2, t17); (3, tm25); (4, t1e300)].
  Definition ptab : list (text * Z) := map (fun kv => (snd kv, fst kv)) ftab.
  Definition fmt := tab_fmt ftab.
  Definition parse := tab_parse ptab.

  (* 3 x 2, an all-zero observation, ids with an inner blank, a quote and a non-ASCII letter *)
  Definition c32 : ttab :=
    mkX [[111;32;49]; [246;50]; [111;51]] [[115;49]; [115;34;50]]
        [[1; 0]; [0; 0]; [2; 3]] None.
  (* a single sample, a single observation, and an all-zero 1 x 1 table *)
  Definition c21 : ttab := mkX [[111;49]; [111;50]] [[115;49]] [[4]; [0]] None.
  Definition c13 : ttab := mkX [[111;49]] [[115;49]; [115;50]; [115;51]] [[0; 3; 0]] None.
  Definition c11z : ttab := mkX [[111;49]] [[115;49]] [[0]] None.

  Definition hyps (brk : Z -> bool) (c : ttab) : bool :=
    xwfb c && negb (x_empty c) && ids_tsv_safeb brk c && faithful_onb fmt parse brk c.

  Lemma hyps_ok brk c : hyps brk c = true ->
    xwf c /\ x_empty c = false /\ ids_tsv_safe brk c /\ faithful_on fmt parse brk c.
  Proof.
    unfold hyps. rewrite !andb_true_iff, negb_true_iff. intros [[[A B] C] D].
    split; [apply xwfb_xwf; exact A|]. split; [exact B|].
    split; [apply ids_tsv_safeb_ok; exact C|apply faithful_onb_ok; exact D].
  Qed.

  Lemma c32_hyps : hyps brk_univ c32 = true. Proof. vm_compute. reflexivity. Qed.
  Lemma c21_hyps : hyps brk_univ c21 = true. Proof. vm_compute. reflexivity. Qed.
  Lemma c13_hyps : hyps brk_univ c13 = true. Proof. vm_compute. reflexivity. Qed.
  Lemma c11z_hyps : hyps brk_univ c11z = true. Proof. vm_compute. reflexivity. Qed.

  (* the same round trips by evaluation of the model *)
  Lemma c32_runs : roundtrip fmt parse fmt_naive proc_naive brk_univ true c32 no_opts = ROk c32.
  Proof. vm_compute. reflexivity. Qed.
  Lemma c11z_runs : roundtrip fmt parse fmt_naive proc_naive brk_nl false c11z no_opts = ROk c11z.
  Proof. vm_compute. reflexivity. Qed.

  (* taxonomy exported through '; '.join and re-imported through sc_separated *)
  Definition k_tax : text := [116;97;120;111;110;111;109;121].          (* taxonomy *)
  Definition k_A : text := [107;95;95;65]. Definition p_B : text := [112;95;95;66].
  Definition five : text := [53].
  Definition tax1 : Tree := tList [tStr k_A; tStr p_B].
  Definition tax2 : Tree := tList [tStr five].                          (* formats as "5": numeric-looking *)
  Definition c22md : ttab :=
    mkX [[111;49]; [111;50]] [[115;49]; [115;50]] [[1; 0]; [0; 3]]
        (Some [[(k_tax, tax1)]; [(k_tax, tax2)]]).
  Definition ptab_md : list (text * Z) := (five, 5) :: ptab.
  Definition parse_md := tab_parse ptab_md.

  Lemma c22md_runs :
    roundtrip fmt parse_md fmt_sc proc_sc brk_univ true c22md (mkO (Some k_tax) (Some k_tax)) = ROk c22md.
  Proof. vm_compute. reflexivity. Qed.

  (* a metadata column whose every text is numeric is read as one more sample *)
  Definition c12num : ttab := mkX [[111;49]] [[115;49]] [[1]] (Some [[(k_tax, tax2)]]).
  Lemma numeric_md_becomes_sample :
    roundtrip fmt parse_md fmt_sc proc_sc brk_univ false c12num (mkO (Some k_tax) (Some k_tax))
    = ROk (mkX [[111;49]] [[115;49]; k_tax] [[1; 5]] None).
  Proof. vm_compute. reflexivity. Qed.

  (* a blank line behind the data turns the last sample into a metadata column *)
  Lemma trailing_blank_line :
    from_tsv parse proc_naive ([35;79;84;85;32;73;68;9;115;49;9;115;50] :: ([111;49;9] ++ t1em7 ++ [9] ++ tm25) :: [[]])
    = ROk (mkX [[111;49]] [[115;49]] [[1]] (Some [[([115;50], tStr tm25)]])).
  Proof. vm_compute. reflexivity. Qed.

  (* the gzip reader BEFORE repair a8aadd7c (codecs.StreamReader: lines cut at every
     str.splitlines boundary): a form feed inside an id broke the round trip *)
  Definition c22ff : ttab :=
    mkX [[111;12;49]; [111;50]] [[115;49]; [115;12;50]] [[1; 2]; [3; 0]] None.
  Lemma c22ff_hyps : hyps brk_univ c22ff = true. Proof. vm_compute. reflexivity. Qed.
  Lemma c22ff_old_gzip : roundtrip fmt parse fmt_naive proc_naive brk_gz true c22ff no_opts <> ROk c22ff.
  Proof. vm_compute. discriminate. Qed.
End TsvExamples.

(* ------------------------------------------------------------------ statements exported to Props/C03.v *)
Definition id_plain (t : text) : Prop :=
  t <> [] /\ ~ In TAB t /\ ~ In NL t /\ hd 0 t <> HASH
  /\ is_space (hd 0 t) = false /\ is_space (last t 0) = false.

Lemma ids_tsv_safe_nl_means c :
  ids_tsv_safe brk_nl c <-> (forall t, In t (x_oids c) \/ In t (x_sids c) -> id_plain t).
Proof.
  unfold ids_tsv_safe, id_safe, txt_ok, edges_ok, id_plain. rewrite !Forall_forall. split.
  - intros [A B] t [H|H]; [specialize (A t H)|specialize (B t H)];
      (destruct A as (A1 & (A2 & A3) & A4 & A5 & A6) || destruct B as (A1 & (A2 & A3) & A4 & A5 & A6));
      apply avoids_nl in A3; tauto.
  - intros H. split; intros t Ht; [specialize (H t (or_introl Ht))|specialize (H t (or_intror Ht))];
      destruct H as (A1 & A2 & A3 & A4 & A5 & A6); apply avoids_nl in A3; tauto.
Qed.

Lemma faithful_on_nl_means fmt parse_num c :
  faithful_on fmt parse_num brk_nl c <->
  (forall row v, In row (x_mat c) -> In v row ->
     parse_num (fmt v) = Some v /\ ~ In TAB (fmt v) /\ ~ In NL (fmt v) /\ strip (fmt v) = fmt v).
Proof.
  unfold faithful_on, num_ok, txt_ok. rewrite Forall_forall. split.
  - intros H row v Hr Hv. specialize (H row Hr). rewrite Forall_forall in H.
    destruct (H v Hv) as (A & (B & C) & D). apply avoids_nl in C. tauto.
  - intros H row Hr. apply Forall_forall. intros v Hv. destruct (H row v Hr Hv) as (A & B & C & D).
    apply avoids_nl in C. tauto.
Qed.

Lemma to_tsv_empty fmt format c o : x_empty c = true -> to_tsv fmt format c o = RErr E_TABLE.
Proof. intros H. unfold to_tsv. rewrite H. reflexivity. Qed.

Lemma tsv_roundtrip_nl fmt parse_num format process c keep :
  xwf c -> x_empty c = false -> ids_tsv_safe brk_nl c -> faithful_on fmt parse_num brk_nl c ->
  roundtrip fmt parse_num format process brk_nl keep c no_opts
  = ROk (mkX (x_oids c) (x_sids c) (x_mat c) None).
Proof. apply roundtrip_plain. exact good_brk_nl. Qed.

Lemma tsv_roundtrip_univ fmt parse_num format process c keep :
  xwf c -> x_empty c = false -> ids_tsv_safe brk_univ c -> faithful_on fmt parse_num brk_univ c ->
  roundtrip fmt parse_num format process brk_univ keep c no_opts
  = ROk (mkX (x_oids c) (x_sids c) (x_mat c) None).
Proof. apply roundtrip_plain. exact good_brk_univ. Qed.

Lemma old_gzip_refuted :
  exists fmt parse_num c,
    xwf c /\ x_empty c = false /\ ids_tsv_safe brk_univ c /\ faithful_on fmt parse_num brk_univ c
    /\ roundtrip fmt parse_num fmt_naive proc_naive brk_gz true c no_opts
       <> ROk (mkX (x_oids c) (x_sids c) (x_mat c) None).
Proof.
  exists TsvExamples.fmt, TsvExamples.parse, TsvExamples.c22ff.
  destruct (TsvExamples.hyps_ok _ _ TsvExamples.c22ff_hyps) as (A & B & C & D).
  split; [exact A|]. split; [exact B|]. split; [exact C|]. split; [exact D|]. exact TsvExamples.c22ff_old_gzip.
Qed.

Lemma numeric_metadata_not_promised :
  exists fmt parse_num c key hv,
    xwf c /\ x_empty c = false /\ ids_tsv_safe brk_univ c /\ faithful_on fmt parse_num brk_univ c
    /\ roundtrip fmt parse_num fmt_sc proc_sc brk_univ false c (mkO (Some key) (Some hv))
       = ROk (mkX (x_oids c) (x_sids c ++ [hv]) [[1; 5]] None).
Proof.
  exists TsvExamples.fmt, TsvExamples.parse_md, TsvExamples.c12num, TsvExamples.k_tax, TsvExamples.k_tax.
  split; [apply xwfb_xwf; vm_compute; reflexivity|]. split; [reflexivity|].
  split; [apply ids_tsv_safeb_ok; vm_compute; reflexivity|].
  split; [apply faithful_onb_ok; vm_compute; reflexivity|]. exact TsvExamples.numeric_md_becomes_sample.
Qed.

(* ------------------------------------------------------------------ further witnesses *)
Module TsvExamples2.
  Import TsvExamples.
  (* an empty corner cell (as R / pandas write it), a blank one, and "Taxon": the header line then
     does not start with '#' *)
  Lemma corner_cells_run :
    roundtrip fmt parse fmt_naive proc_naive brk_univ true c32 (mkO3 None None []) = ROk c32
    /\ roundtrip fmt parse fmt_naive proc_naive brk_nl false c32 (mkO3 None None [32]) = ROk c32
    /\ roundtrip fmt parse fmt_naive proc_naive brk_univ false c21 (mkO3 None None [84;97;120;111;110]) = ROk c21.
  Proof. vm_compute. repeat split. Qed.
  (* taxonomy with an empty level in the middle, at the end and at the start *)
  Definition k_C : text := [99;95;95;67].
  Definition c32tax : ttab :=
    mkX [[111;49]; [111;50]; [111;51]] [[115;49]] [[1]; [0]; [3]]
        (Some [[(k_tax, tList [tStr k_A; tStr []; tStr k_C])];
               [(k_tax, tList [tStr k_A; tStr p_B; tStr []])];
               [(k_tax, tList [tStr []; tStr k_A])]]).
  Lemma empty_levels_run :
    roundtrip fmt parse fmt_sc proc_sc brk_univ true c32tax (mkO (Some k_tax) (Some k_tax)) = ROk c32tax.
  Proof. vm_compute. reflexivity. Qed.
End TsvExamples2.
