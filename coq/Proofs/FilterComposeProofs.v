(* C08, "all prior histories": a filter applied to the result of an earlier filter is a filter of the
   ORIGINAL table (same axis: by the composed mask; other axis: the two commute), so a history of
   filters never changes what a later filter means.  Content level (Model/Filter.v). *)
From Coq Require Import List Arith ZArith Lia Bool.
From BiomV Require Import Base.Tree Base.ListUtil Base.Matrix Model.Table Model.Orient Model.Filter.
From BiomV Require Import Proofs.OrientProofs Proofs.FilterProofs.
Import ListNotations.

(* the mask that selects, among the positions m1 keeps, those m2 keeps (m2 runs over the survivors) *)
Fixpoint mask_then (m1 m2 : list bool) : list bool :=
  match m1 with
  | [] => []
  | false :: r => false :: mask_then r m2
  | true :: r => match m2 with
                 | [] => false :: mask_then r []
                 | b :: m2' => b :: mask_then r m2'
                 end
  end.

Lemma select_nil_r {A} (m : list bool) : select m (@nil A) = [].
Proof. destruct m; reflexivity. Qed.

Lemma select_select {A} (m1 : list bool) : forall (m2 : list bool) (l : list A),
  select m2 (select m1 l) = select (mask_then m1 m2) l.
Proof.
  induction m1 as [|b r IH]; intros m2 l.
  - cbn [select mask_then]. apply select_nil_r.
  - destruct l as [|x t].
    + cbn [select]. rewrite select_nil_r. rewrite select_nil_r. reflexivity.
    + destruct b; cbn [select mask_then].
      * destruct m2 as [|b2 m2']; cbn [select].
        -- rewrite <- IH. reflexivity.
        -- destruct b2; rewrite IH; reflexivity.
      * apply IH.
Qed.

Lemma select_map' {A B} (f : A -> B) m (l : list A) : select m (map f l) = map f (select m l).
Proof.
  revert l. induction m as [|b m IH]; intros [|x l]; simpl; try reflexivity.
  destruct b; simpl; rewrite IH; reflexivity.
Qed.

Lemma forallb_select {A} (p : A -> bool) m (l : list A) : forallb p l = true -> forallb p (select m l) = true.
Proof.
  revert l. induction m as [|b m IH]; intros [|x l] H; simpl; try reflexivity.
  simpl in H. apply andb_true_iff in H. destruct H as [Hx Hl].
  destruct b; simpl; [rewrite Hx; simpl|]; apply IH; exact Hl.
Qed.

Lemma md_falsy_cast m : md_falsy (cast_entry m) = md_falsy m.
Proof.
  unfold cast_entry. destruct (tree_eqb m md_none) eqn:E; [|reflexivity].
  apply tree_eqb_eq in E. subst m. reflexivity.
Qed.

Lemma forallb_falsy_cast l : forallb md_falsy (map cast_entry l) = forallb md_falsy l.
Proof. induction l as [|x l IH]; simpl; [reflexivity|]. rewrite md_falsy_cast, IH. reflexivity. Qed.

Lemma map_cast_idem l : map cast_entry (map cast_entry l) = map cast_entry l.
Proof. rewrite map_map. apply map_ext. intros x. apply cast_entry_idem. Qed.

(* the constructor's normalisation absorbs an earlier normalisation under a selection *)
Lemma ctor_md_select_ctor m x :
  ctor_md (option_map (select m) (ctor_md x)) = ctor_md (option_map (select m) x).
Proof.
  destruct x as [l|]; [|reflexivity]. cbn [ctor_md option_map].
  destruct (forallb md_falsy l) eqn:F.
  - cbn [option_map ctor_md]. rewrite (forallb_select md_falsy m l F). reflexivity.
  - cbn [option_map ctor_md]. rewrite select_map', forallb_falsy_cast, map_cast_idem. reflexivity.
Qed.

Lemma ctor_md_idem x : ctor_md (ctor_md x) = ctor_md x.
Proof.
  destruct x as [l|]; [|reflexivity]. cbn [ctor_md]. destruct (forallb md_falsy l) eqn:F; [reflexivity|].
  cbn [ctor_md]. rewrite forallb_falsy_cast, F, map_cast_idem. reflexivity.
Qed.

Lemma option_map_select_select m1 m2 (x : option (list Tree)) :
  option_map (select m2) (option_map (select m1) x) = option_map (select (mask_then m1 m2)) x.
Proof. destruct x as [l|]; [|reflexivity]. cbn [option_map]. rewrite select_select. reflexivity. Qed.

(* ---- same axis: filter after filter = one filter of the original ---- *)
Theorem filter_mask_twice m1 m2 a t :
  filter_mask m2 a (filter_mask m1 a t) = filter_mask (mask_then m1 m2) a t.
Proof.
  destruct a; unfold filter_mask; cbn [oids sids mat omd smd ttype]; f_equal;
    try apply select_select; try apply option_map_select_select.
  unfold sel_cols. rewrite map_map. apply map_ext. intros r. apply select_select.
Qed.

Theorem filter_table_twice m1 m2 a t :
  filter_table m2 a (filter_table m1 a t) = filter_table (mask_then m1 m2) a t.
Proof.
  unfold filter_table, norm_md. destruct a; unfold filter_mask; cbn [oids sids mat omd smd ttype]; f_equal;
    try apply select_select.
  - rewrite ctor_md_select_ctor, option_map_select_select. reflexivity.
  - apply ctor_md_idem.
  - unfold sel_cols. rewrite map_map. apply map_ext. intros r. apply select_select.
  - apply ctor_md_idem.
  - rewrite ctor_md_select_ctor, option_map_select_select. reflexivity.
Qed.

(* ---- different axes: the two filters commute ---- *)
Theorem filter_table_axes_commute mo ms t :
  filter_table mo Obs (filter_table ms Samp t) = filter_table ms Samp (filter_table mo Obs t).
Proof.
  unfold filter_table, norm_md, filter_mask; cbn [oids sids mat omd smd ttype]. f_equal.
  - unfold sel_rows, sel_cols. apply select_map'.
  - rewrite ctor_md_select_ctor, ctor_md_idem. reflexivity.
  - rewrite ctor_md_select_ctor, ctor_md_idem. reflexivity.
Qed.

(* ---- at the level of id lists: filtering by A and then by B keeps exactly the ids in both ---- *)
Lemma mask_then_filter {A} (f g : A -> bool) (l : list A) :
  mask_then (map f l) (map g (filter f l)) = map (fun x => f x && g x) l.
Proof.
  induction l as [|x l IH]; [reflexivity|]. cbn [map filter].
  destruct (f x) eqn:E; cbn [mask_then map andb]; rewrite IH; reflexivity.
Qed.

Theorem filter_ids_twice keepA keepB invA invB a t t1 t2 :
  filter_ids keepA invA a t = ROk t1 -> filter_ids keepB invB a t1 = ROk t2 ->
  t2 = filter_table (map (fun x => xorb (zmem x keepA) invA && xorb (zmem x keepB) invB) (ids a t)) a t.
Proof.
  intros H1 H2. pose proof (filter_ids_kept _ _ _ _ _ H1) as [I1 _].
  unfold filter_ids in H1, H2.
  destruct (forallb (fun x => zmem x (ids a t)) keepA); [|discriminate].
  destruct (forallb (fun x => zmem x (ids a t1)) keepB); [|discriminate].
  assert (E1 : t1 = filter_table (map (fun i => xorb (zmem i keepA) invA) (ids a t)) a t) by congruence.
  assert (E2 : t2 = filter_table (map (fun i => xorb (zmem i keepB) invB) (ids a t1)) a t1) by congruence.
  rewrite E2, I1. rewrite E1. rewrite filter_table_twice. rewrite mask_then_filter. reflexivity.
Qed.

(* non-vacuity: a 3 x 3 table, drop the first observation, then keep the (new) second one *)
Example twice_ex :
  let t := mkT [10; 20; 30]%Z [1; 2; 3]%Z [[1; 0; 2]; [0; 3; 0]; [4; 0; 5]]%Z
               (Some [L [I 6; L []]; L [I 0]; L [I 6; L [L [I 1; I 2]]]]%Z) None 0%Z in
  filter_ids [20; 30]%Z false Obs t = ROk (filter_table [false; true; true] Obs t) /\
  filter_table [false; true] Obs (filter_table [false; true; true] Obs t) = filter_table [false; false; true] Obs t /\
  oids (filter_table [false; false; true] Obs t) = [30]%Z.
Proof. vm_compute. repeat split; reflexivity. Qed.
