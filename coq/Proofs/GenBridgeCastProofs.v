(* Bridge for the metadata normalisation every model rests on (Model/Orient.v ctor_md / cast_entry /
   md_falsy): the inner function cast_metadata of Table._cast_metadata and the two metadata blocks of
   Table.__init__, as tools/py2v regenerates them from biom/table.py on every check
   (Gen/HelpersGen.v: cast_metadata_gen, cast_metadata_body, ctor_init_samp_gen, ctor_init_obs_gen).

   The models encode entries as Trees whose vocabulary is None or a mapping; for such metadata
   (md_entries_ok) the cast IS ctor_md.  Any other entry makes the cast raise TableException
   (cast_metadata_refuses), which is outside ctor_md's vocabulary -- hence the hypothesis. *)
From Coq Require Import String List Arith ZArith Lia Bool.
From BiomV Require Import Base.Tree Base.ListUtil Base.Matrix Model.Table Model.Orient.
From BiomV Require Import Gen.Prelude Gen.MdPrelude Gen.HelpersGen.
Import ListNotations.

(* every entry is None or a mapping *)
Definition md_entry_ok (m : Tree) : bool := tree_eqb m md_none || md_is_map m.
Definition md_entries_ok (md : option (list Tree)) : bool :=
  match md with None => true | Some l => forallb md_entry_ok l end.

Lemma is_map_not_none m : md_is_map m = true -> tree_eqb m md_none = false.
Proof.
  intros H. destruct (tree_eqb m md_none) eqn:E; [|reflexivity].
  apply tree_eqb_eq in E. subst. discriminate H.
Qed.

(* the test of the source, `m is None or (isinstance(m, dict) and not m)`, is md_falsy -- for every m *)
Lemma falsy_test m : (tree_eqb m md_none || (md_is_map m && negb (md_truth m))) = md_falsy m.
Proof.
  unfold md_truth, md_falsy. rewrite negb_involutive.
  destruct (tree_eqb m md_none) eqn:En; [reflexivity|]. cbn [orb].
  destruct (tree_eqb m md_empty) eqn:Ee.
  - apply tree_eqb_eq in Ee. subst. reflexivity.
  - apply andb_false_r.
Qed.

Lemma forallb_falsy_test l :
  forallb (fun m => tree_eqb m md_none || (md_is_map m && negb (md_truth m))) l = forallb md_falsy l.
Proof. induction l as [|m l IH]; [reflexivity|]. cbn [forallb]. rewrite falsy_test, IH. reflexivity. Qed.

Lemma cast_body_ok acc m : md_entry_ok m = true ->
  cast_metadata_body (acc, Ok tt) m = (acc ++ [cast_entry m], Ok tt).
Proof.
  unfold md_entry_ok, cast_metadata_body, cast_entry. intros H.
  destruct (md_is_map m) eqn:Em.
  - rewrite (is_map_not_none m Em). reflexivity.
  - rewrite orb_false_r in H. rewrite H. reflexivity.
Qed.

Lemma cast_fold_ok l : forall acc, forallb md_entry_ok l = true ->
  fold_left cast_metadata_body l (acc, Ok tt) = (acc ++ map cast_entry l, Ok tt).
Proof.
  induction l as [|m l IH]; intros acc H; cbn [fold_left map].
  - rewrite app_nil_r. reflexivity.
  - cbn [forallb] in H. apply andb_true_iff in H. destruct H as [Hm Hl].
    rewrite cast_body_ok by exact Hm. rewrite IH by exact Hl. rewrite <- app_assoc. reflexivity.
Qed.

Theorem cast_metadata_bridge md : md_entries_ok md = true -> cast_metadata_gen md = Ok (ctor_md md).
Proof.
  destruct md as [l|]; [|reflexivity]. cbn [md_entries_ok]. intros H.
  unfold cast_metadata_gen, ctor_md. rewrite forallb_falsy_test.
  destruct (forallb md_falsy l); [reflexivity|]. rewrite cast_fold_ok by exact H. reflexivity.
Qed.

(* an entry that is neither None nor a mapping: the cast raises *)
Lemma cast_fold_raised l : forall acc e, exists acc', fold_left cast_metadata_body l (acc, Raise e) = (acc', Raise e).
Proof. induction l as [|m l IH]; intros acc e; [exists acc; reflexivity|]. cbn [fold_left]. apply IH. Qed.

Lemma cast_fold_bad l : forall acc, forallb md_entry_ok l = false ->
  exists acc' e, fold_left cast_metadata_body l (acc, Ok tt) = (acc', Raise e).
Proof.
  induction l as [|m l IH]; intros acc H; [discriminate H|]. cbn [forallb] in H. cbn [fold_left].
  destruct (md_entry_ok m) eqn:Em.
  - rewrite cast_body_ok by exact Em. apply IH. exact H.
  - unfold md_entry_ok in Em. apply orb_false_iff in Em. destruct Em as [En Ep].
    unfold cast_metadata_body at 2. rewrite Ep, En.
    destruct (cast_fold_raised l acc (TableException "Unable to cast metadata")) as [acc' E].
    exists acc', (TableException "Unable to cast metadata"). exact E.
Qed.

Theorem cast_metadata_refuses l : md_entries_ok (Some l) = false -> exists e, cast_metadata_gen (Some l) = Raise e.
Proof.
  cbn [md_entries_ok]. intros H. unfold cast_metadata_gen. rewrite forallb_falsy_test.
  assert (F : forallb md_falsy l = false).
  { destruct (forallb md_falsy l) eqn:E; [|reflexivity]. exfalso.
    assert (G : forallb md_entry_ok l = true).
    { rewrite forallb_forall in *. intros m Hm. specialize (E m Hm). unfold md_falsy in E. unfold md_entry_ok.
      apply orb_true_iff in E. destruct E as [E|E]; [rewrite E; reflexivity|].
      apply tree_eqb_eq in E. subst. reflexivity. }
    congruence. }
  rewrite F. destruct (cast_fold_bad l [] H) as (acc' & e & E). rewrite E. exists e. reflexivity.
Qed.

(* ---- the constructor: Table.__init__ keeps the metadata as given unless every entry is falsy AND the
   size matches (a wrong size is left for errcheck to see); _cast_metadata then normalises it ---- *)
Theorem ctor_init_samp_spec ids l :
  ctor_init_samp_gen ids (Some l) =
  if forallb md_falsy l && Nat.eqb (length l) (length ids) then None else Some l.
Proof. unfold ctor_init_samp_gen. rewrite forallb_falsy_test. reflexivity. Qed.

Theorem ctor_init_obs_spec ids l :
  ctor_init_obs_gen ids (Some l) =
  if forallb md_falsy l && Nat.eqb (length l) (length ids) then None else Some l.
Proof. unfold ctor_init_obs_gen. rewrite forallb_falsy_test. reflexivity. Qed.

Lemma ctor_then_cast (init : list Z -> option (list Tree) -> option (list Tree)) (ids : list Z) md :
  (forall l, init ids (Some l) = if forallb md_falsy l && Nat.eqb (length l) (length ids) then None else Some l) ->
  init ids None = None ->
  md_entries_ok md = true ->
  cast_metadata_gen (init ids md) = Ok (ctor_md md).
Proof.
  intros S N H. destruct md as [l|]; [|rewrite N; reflexivity]. rewrite S.
  destruct (forallb md_falsy l) eqn:F; cbn [andb].
  - destruct (Nat.eqb (length l) (length ids)).
    + unfold ctor_md. rewrite F. reflexivity.
    + apply cast_metadata_bridge. exact H.
  - apply cast_metadata_bridge. exact H.
Qed.

(* constructor block followed by the cast = ctor_md, whatever the size (an all-falsy list of the wrong
   size survives the constructor block, is seen by errcheck, and is set to None by the cast) *)
Theorem ctor_metadata_bridge ids md : md_entries_ok md = true ->
  cast_metadata_gen (ctor_init_samp_gen ids md) = Ok (ctor_md md) /\
  cast_metadata_gen (ctor_init_obs_gen ids md) = Ok (ctor_md md).
Proof.
  intros H. split.
  - apply (ctor_then_cast ctor_init_samp_gen); [apply ctor_init_samp_spec|reflexivity|exact H].
  - apply (ctor_then_cast ctor_init_obs_gen); [apply ctor_init_obs_spec|reflexivity|exact H].
Qed.

(* what errcheck sees between the two: metadata of the wrong size is kept as given *)
Theorem ctor_init_keeps_wrong_size ids l : length l <> length ids ->
  ctor_init_samp_gen ids (Some l) = Some l /\ ctor_init_obs_gen ids (Some l) = Some l.
Proof.
  intros H. rewrite ctor_init_samp_spec, ctor_init_obs_spec.
  apply Nat.eqb_neq in H. rewrite H, andb_false_r. split; reflexivity.
Qed.

(* non-vacuity: a mapping, None and {} are in the vocabulary; an integer entry is refused *)
Example ex_md_ok : md_entries_ok (Some [L [I 6; L [L [L [I 103]; L [I 2; I 1]]]]; md_none; md_empty]%Z) = true.
Proof. vm_compute. reflexivity. Qed.
Example ex_cast :
  cast_metadata_gen (Some [L [I 6; L [L [L [I 103]; L [I 2; I 1]]]]; md_none; md_empty]%Z)
  = Ok (Some [L [I 6; L [L [L [I 103]; L [I 2; I 1]]]]; md_empty; md_empty]%Z).
Proof. vm_compute. reflexivity. Qed.
Example ex_cast_refuses :
  cast_metadata_gen (Some [md_none; L [I 2; I 5]]%Z) = Raise (TableException "Unable to cast metadata").
Proof. vm_compute. reflexivity. Qed.
