(* Proofs about Model/Concat.v (property C10). *)
From Coq Require Import List Arith ZArith Lia Bool Permutation Sorted.
From BiomV Require Import Base.Tree Base.ListUtil Base.Matrix Model.Table Model.Orient Model.Concat
  Proofs.OrientProofs.
Import ListNotations.

(* ---------------------------------------------------------------- (a) the disjointness test *)
Definition shares (ts : list table) : Prop :=
  exists i j ti tj x, i < j /\ nth_error ts i = Some ti /\ nth_error ts j = Some tj /\
                      In x (oids ti) /\ In x (oids tj).

Lemma disjoint_ok_false seen ts :
  disjoint_ok seen ts = false <->
  (exists j tj x, nth_error ts j = Some tj /\ In x (oids tj) /\ In x seen) \/ shares ts.
Proof.
  revert seen. induction ts as [|t r IH]; intros seen; simpl.
  - split; [discriminate|]. intros [[j [tj [x [H _]]]]|[i [j [ti [tj [x [_ [H _]]]]]]]];
      destruct j; try destruct i; discriminate.
  - destruct (existsb (fun x => zmem x seen) (oids t)) eqn:E.
    + split; [intros _|reflexivity]. left. apply existsb_exists in E. destruct E as [x [Hx Hs]].
      exists 0, t, x. repeat split; [exact Hx|apply zmem_In; exact Hs].
    + rewrite IH. pose proof (proj1 (existsb_zmem_false _ _) E) as D. split.
      * intros [[j [tj [x [Hj [Hx Hs]]]]]|[i [j [ti [tj [x [Hij [Hi [Hj [Hxi Hxj]]]]]]]]]].
        -- apply in_app_iff in Hs. destruct Hs as [Hs|Hs].
           ++ left. exists (S j), tj, x. repeat split; assumption.
           ++ right. exists 0, (S j), t, tj, x. repeat split; try assumption. lia.
        -- right. exists (S i), (S j), ti, tj, x. repeat split; try assumption. lia.
      * intros [[j [tj [x [Hj [Hx Hs]]]]]|[i [j [ti [tj [x [Hij [Hi [Hj [Hxi Hxj]]]]]]]]]].
        -- destruct j as [|j]; simpl in Hj.
           ++ inversion Hj; subst. exfalso. exact (D x Hx Hs).
           ++ left. exists j, tj, x. repeat split; try assumption. apply in_or_app. left. exact Hs.
        -- destruct j as [|j]; [lia|]. simpl in Hj. destruct i as [|i]; simpl in Hi.
           ++ inversion Hi; subst. left. exists j, tj, x. repeat split; try assumption.
              apply in_or_app. right. exact Hxi.
           ++ right. exists i, j, ti, tj, x. repeat split; try assumption. lia.
Qed.

Lemma disjoint_ok_NoDup seen ts :
  NoDup seen -> Forall (fun t => NoDup (oids t)) ts -> disjoint_ok seen ts = true ->
  NoDup (seen ++ concat (map oids ts)).
Proof.
  revert seen. induction ts as [|t r IH]; intros seen Hs Hf H; simpl in *.
  - rewrite app_nil_r. exact Hs.
  - inversion Hf as [|? ? Ht Hf']; subst.
    destruct (existsb (fun x => zmem x seen) (oids t)) eqn:E; [discriminate|].
    pose proof (proj1 (existsb_zmem_false _ _) E) as D.
    rewrite app_assoc. apply IH; [|exact Hf'|exact H].
    apply NoDup_app_intro; [exact Hs|exact Ht|]. intros x Hx Hx'. exact (D x Hx' Hx).
Qed.

(* ---------------------------------------------------------------- (b) collecting the other axis *)
Lemma collect_In seen m ts y :
  In y (fst (collect seen m ts)) <-> In y seen \/ exists t, In t ts /\ In y (sids t).
Proof.
  revert seen m. induction ts as [|t r IH]; intros seen m; simpl.
  - split; [intros H; left; exact H|]. intros [H|[t [[] _]]]. exact H.
  - rewrite IH. rewrite in_app_iff, filter_In. split.
    + intros [[H|[H _]]|[t' [Ht Hy]]].
      * left. exact H.
      * right. exists t. split; [left; reflexivity|exact H].
      * right. exists t'. split; [right; exact Ht|exact Hy].
    + intros [H|[t' [[Ht|Ht] Hy]]].
      * left. left. exact H.
      * subst t'. destruct (zmem y seen) eqn:E.
        -- left. left. apply zmem_In. exact E.
        -- left. right. split; [exact Hy|reflexivity].
      * right. exists t'. split; assumption.
Qed.

Lemma collect_NoDup seen m ts :
  NoDup seen -> Forall (fun t => NoDup (sids t)) ts -> NoDup (fst (collect seen m ts)).
Proof.
  revert seen m. induction ts as [|t r IH]; intros seen m Hs Hf; simpl; [exact Hs|].
  inversion Hf as [|? ? Ht Hf']; subst. apply IH; [|exact Hf'].
  apply NoDup_app_intro; [exact Hs|apply filter_NoDup; exact Ht|].
  intros x Hx Hx'. apply filter_In in Hx'. destruct Hx' as [_ Hx'].
  apply negb_true_iff in Hx'. apply zmem_In in Hx. congruence.
Qed.

Lemma md_get_app_l m m' y : In y (map fst m) -> md_get (m ++ m') y = md_get m y.
Proof.
  induction m as [|[k v] m IH]; simpl; intros H; [contradiction|].
  destruct (Z.eqb y k) eqn:E; [reflexivity|]. apply IH. destruct H as [H|H]; [|exact H].
  subst. rewrite Z.eqb_refl in E. discriminate.
Qed.

Lemma md_get_app_r m m' y : ~ In y (map fst m) -> md_get (m ++ m') y = md_get m' y.
Proof.
  induction m as [|[k v] m IH]; simpl; intros H; [reflexivity|].
  destruct (Z.eqb y k) eqn:E.
  - apply Z.eqb_eq in E. subst. exfalso. apply H. left. reflexivity.
  - apply IH. intros Hi. apply H. right. exact Hi.
Qed.

Lemma md_get_map (f : Z -> Tree) l y : In y l -> md_get (map (fun y => (y, f y)) l) y = f y.
Proof.
  induction l as [|x l IH]; simpl; intros H; [contradiction|].
  destruct (Z.eqb y x) eqn:E; [apply Z.eqb_eq in E; subst; reflexivity|].
  apply IH. destruct H as [H|H]; [subst; rewrite Z.eqb_refl in E; discriminate|exact H].
Qed.

(* the metadata remembered for an other-axis id is that of the first operand containing it *)
Lemma collect_md seen m ts y :
  map fst m = seen ->
  md_get (snd (collect seen m ts)) y =
    if zmem y seen then md_get m y
    else match find (fun t => zmem y (sids t)) ts with Some t => md_lookup t y | None => md_none end.
Proof.
  revert seen m. induction ts as [|t r IH]; intros seen m Hk; simpl.
  - destruct (zmem y seen) eqn:E; [reflexivity|].
    assert (~ In y (map fst m)) as Hn by (rewrite Hk; intros Hi; apply zmem_In in Hi; congruence).
    clear -Hn. induction m as [|[k v] m IH]; simpl in *; [reflexivity|].
    destruct (Z.eqb y k) eqn:E; [apply Z.eqb_eq in E; subst; exfalso; apply Hn; left; reflexivity|].
    apply IH. intros Hi. apply Hn. right. exact Hi.
  - set (fresh := filter (fun y0 => negb (zmem y0 seen)) (sids t)).
    rewrite IH by (rewrite map_app, map_map; simpl; rewrite map_id, Hk; reflexivity).
    destruct (zmem y seen) eqn:Es.
    + assert (zmem y (seen ++ fresh) = true) as -> by (apply zmem_In, in_or_app; left; apply zmem_In; exact Es).
      apply md_get_app_l. rewrite Hk. apply zmem_In. exact Es.
    + assert (~ In y (map fst m)) as Hn by (rewrite Hk; intros Hi; apply zmem_In in Hi; congruence).
      destruct (zmem y (sids t)) eqn:Et.
      * assert (In y fresh) as Hf by (apply filter_In; split; [apply zmem_In; exact Et|rewrite Es; reflexivity]).
        assert (zmem y (seen ++ fresh) = true) as -> by (apply zmem_In, in_or_app; right; exact Hf).
        rewrite md_get_app_r by exact Hn. apply md_get_map. exact Hf.
      * assert (zmem y (seen ++ fresh) = false) as ->.
        { destruct (zmem y (seen ++ fresh)) eqn:E; [|reflexivity]. apply zmem_In, in_app_iff in E.
          destruct E as [E|E]; [apply zmem_In in E; congruence|].
          apply filter_In in E. destruct E as [E _]. apply zmem_In in E. congruence. }
        reflexivity.
Qed.

(* ---------------------------------------------------------------- (c) padding one operand *)
Definition missing_of (order : list Z) (t : table) : list Z :=
  filter (fun y => negb (zmem y (sids t))) order.

Lemma md_list_length md n : md_ok md n -> length (md_list md n) = n.
Proof. destruct md; simpl; [trivial|intros _; apply repeat_length]. Qed.

Lemma pad_only_spec order mdmap t :
  wf t ->
  let ms := missing_of order t in
  let t1 := pad_only order mdmap t in
  oids t1 = oids t /\ sids t1 = sids t ++ ms /\
  mat t1 = map (fun r => r ++ zero_row (length ms)) (mat t) /\
  (forall i, entry_view (omd t1) i = entry_view (omd t) i) /\
  md_ok (omd t1) (nobs t) /\ md_ok (smd t1) (nsamp t + length ms) /\
  (forall j, j < nsamp t + length ms ->
     entry_view (smd t1) j = if j <? nsamp t then entry_view (smd t) j
                             else cast_entry (md_get mdmap (nth (j - nsamp t) ms 0%Z))).
Proof.
  intros (W1 & W2 & W3 & W4 & W5 & W6). unfold pad_only, missing_of.
  destruct (filter (fun y => negb (zmem y (sids t))) order) as [|y0 ms'] eqn:E; cbv zeta.
  - simpl. repeat split; try assumption.
    + rewrite app_nil_r. reflexivity.
    + rewrite <- (map_id (mat t)) at 1. apply map_ext. intros r. rewrite app_nil_r. reflexivity.
    + rewrite Nat.add_0_r. exact W6.
    + intros j Hj. assert (j <? nsamp t = true) as -> by (apply Nat.ltb_lt; lia). reflexivity.
  - set (ms := y0 :: ms'). cbn [oids sids mat omd smd].
    repeat split.
    + intros i. apply entry_view_ctor.
    + apply md_ok_ctor. exact W5.
    + apply md_ok_ctor. cbn [md_ok]. rewrite app_length, map_length, md_list_length by exact W6. reflexivity.
    + intros j Hj. rewrite entry_view_ctor.
      rewrite entry_view_Some_nth
        by (rewrite app_length, map_length, md_list_length by exact W6; exact Hj).
      destruct (j <? nsamp t) eqn:L.
      * apply Nat.ltb_lt in L. rewrite app_nth1 by (rewrite md_list_length by exact W6; exact L).
        apply entry_view_md_list; assumption.
      * apply Nat.ltb_ge in L. rewrite app_nth2 by (rewrite md_list_length by exact W6; exact L).
        rewrite md_list_length by exact W6.
        rewrite (nth_indep _ md_none (md_get mdmap 0%Z)) by (rewrite map_length; lia).
        rewrite (map_nth (md_get mdmap)). reflexivity.
Qed.

Lemma sort_step_spec order t1 n :
  length (mat t1) = n -> rect (length (sids t1)) (mat t1) -> NoDup (sids t1) -> NoDup order ->
  (forall y, In y order -> In y (sids t1)) ->
  md_ok (omd t1) n -> md_ok (smd t1) (length (sids t1)) ->
  let p := if list_eqb Z.eqb (sids t1) order then t1 else sort_order_cols order t1 in
  oids p = oids t1 /\ sids p = order /\ length (mat p) = n /\ rect (length order) (mat p) /\
  (forall i k, k < length order ->
     get (mat p) i k = get (mat t1) i (pos0 (nth k order 0%Z) (sids t1))) /\
  (forall i, entry_view (omd p) i = entry_view (omd t1) i) /\
  (forall k, k < length order ->
     entry_view (smd p) k = entry_view (smd t1) (pos0 (nth k order 0%Z) (sids t1))) /\
  md_ok (omd p) n /\ md_ok (smd p) (length order).
Proof.
  intros Hlen Hrect Hnd Hno Hin Hom Hsm.
  destruct (list_eqb Z.eqb (sids t1) order) eqn:E; cbv zeta.
  - apply list_eqb_Z_eq in E. rewrite <- E. repeat split; try assumption.
    + intros i k Hk. rewrite pos0_nth by assumption. reflexivity.
    + intros k Hk. rewrite pos0_nth by assumption. reflexivity.
  - unfold sort_order_cols. simpl.
    set (fancy := map (fun y => pos0 y (sids t1)) order).
    assert (Lf : length fancy = length order) by (unfold fancy; apply map_length).
    assert (Nf : forall k, k < length order -> nth k fancy 0 = pos0 (nth k order 0%Z) (sids t1)).
    { intros k Hk. unfold fancy.
      rewrite (nth_indep _ 0 (pos0 0%Z (sids t1))) by (rewrite map_length; exact Hk).
      apply (map_nth (fun y => pos0 y (sids t1))). }
    repeat split.
    + rewrite perm_cols_length. exact Hlen.
    + rewrite <- Lf. apply perm_cols_rect.
    + intros i k Hk. rewrite get_perm_cols by (rewrite Lf; exact Hk). rewrite Nf by exact Hk. reflexivity.
    + intros i. apply entry_view_ctor.
    + intros k Hk. rewrite entry_view_ctor. destruct (smd t1) as [l|]; simpl option_map; [|reflexivity].
      simpl in Hsm.
      rewrite entry_view_Some_nth by (rewrite map_length, Lf; exact Hk).
      rewrite (nth_indep _ md_none (nth 0 l md_none)) by (rewrite map_length, Lf; exact Hk).
      rewrite (map_nth (fun j => nth j l md_none)). rewrite Nf by exact Hk.
      rewrite entry_view_Some_nth; [reflexivity|].
      rewrite Hsm. apply pos0_lt. apply Hin. apply nth_In. exact Hk.
    + apply md_ok_ctor. exact Hom.
    + apply md_ok_ctor. destruct (smd t1) as [l|]; simpl; [|trivial]. rewrite map_length. exact Lf.
Qed.

Definition pad_get (t : table) (order : list Z) (i k : nat) : Z :=
  match pos (nth k order 0%Z) (sids t) with Some j => get (mat t) i j | None => 0%Z end.

Lemma pad_table_spec order mdmap t :
  wf t -> NoDup order -> (forall y, In y (sids t) -> In y order) ->
  let p := pad_table order mdmap t in
  oids p = oids t /\ sids p = order /\ length (mat p) = nobs t /\ rect (length order) (mat p) /\
  (forall i k, i < nobs t -> k < length order -> get (mat p) i k = pad_get t order i k) /\
  md_ok (omd p) (nobs t) /\ md_ok (smd p) (length order) /\
  (forall i, entry_view (omd p) i = entry_view (omd t) i) /\
  (forall k, k < length order ->
     entry_view (smd p) k =
       match pos (nth k order 0%Z) (sids t) with
       | Some j => entry_view (smd t) j
       | None => cast_entry (md_get mdmap (nth k order 0%Z))
       end).
Proof.
  intros W Hno Hincl.
  pose proof (pad_only_spec order mdmap t W) as P. cbv zeta in P.
  destruct P as (P1 & P2 & P3 & P4 & P5 & P6 & P7).
  set (ms := missing_of order t) in *. set (t1 := pad_only order mdmap t) in *.
  destruct W as (W1 & W2 & W3 & W4 & W5 & W6).
  assert (Hms : forall y, In y ms <-> In y order /\ ~ In y (sids t)).
  { intros y. unfold ms, missing_of. rewrite filter_In, negb_true_iff. split; intros [A B]; split; try exact A.
    - intros Hi. apply zmem_In in Hi. congruence.
    - destruct (zmem y (sids t)) eqn:E; [|reflexivity]. apply zmem_In in E. contradiction. }
  assert (Hnd1 : NoDup (sids t1)).
  { rewrite P2. apply NoDup_app_intro; [exact W4|apply filter_NoDup; exact Hno|].
    intros y Hy Hy'. apply Hms in Hy'. tauto. }
  assert (Hin1 : forall y, In y order -> In y (sids t1)).
  { intros y Hy. rewrite P2. apply in_or_app. destruct (zmem y (sids t)) eqn:E.
    - left. apply zmem_In. exact E.
    - right. apply Hms. split; [exact Hy|]. intros Hi. apply zmem_In in Hi. congruence. }
  assert (Hl1 : length (sids t1) = nsamp t + length ms) by (rewrite P2, app_length; reflexivity).
  assert (Hr1 : rect (length (sids t1)) (mat t1)).
  { rewrite P3, Hl1. apply Forall_forall. intros r Hr. apply in_map_iff in Hr. destruct Hr as [r0 [Hr0 Hin]].
    subst r. rewrite app_length. unfold zero_row. rewrite repeat_length.
    unfold rect in W2. rewrite Forall_forall in W2. rewrite (W2 r0 Hin). reflexivity. }
  assert (Hlen1 : length (mat t1) = nobs t) by (rewrite P3, map_length; exact W1).
  pose proof (sort_step_spec order t1 (nobs t) Hlen1 Hr1 Hnd1 Hno Hin1 P5) as S.
  rewrite Hl1 in S at 1. specialize (S P6). cbv zeta in S.
  fold (pad_table order mdmap t) in S. unfold pad_table. fold t1.
  destruct S as (S1 & S2 & S3 & S4 & S5 & S6 & S7 & S8 & S9).
  repeat split; try assumption.
  - rewrite S1. exact P1.
  - intros i k Hi Hk. rewrite S5 by exact Hk. unfold pad_get.
    set (y := nth k order 0%Z). assert (Hy : In y order) by (apply nth_In; exact Hk).
    unfold get. rewrite P3. rewrite nth_map_rows by (rewrite W1; exact Hi).
    assert (Hrow : length (nth i (mat t) []) = nsamp t) by (apply rect_nth_length; [exact W2|rewrite W1; exact Hi]).
    unfold pos0. rewrite P2. destruct (pos y (sids t)) as [j|] eqn:Ej.
    + assert (In y (sids t)) as Hys by (apply pos_Some in Ej; destruct Ej as [<- Hj]; apply nth_In; exact Hj).
      rewrite pos_app_l by exact Hys. rewrite Ej. apply app_nth1. apply pos_Some in Ej. rewrite Hrow. unfold nsamp. tauto.
    + apply pos_None in Ej. rewrite pos_app_r by exact Ej.
      assert (In y ms) as Hym by (apply Hms; split; assumption).
      destruct (pos_In y ms Hym) as [q Eq]. rewrite Eq. simpl.
      rewrite app_nth2 by (rewrite Hrow; unfold nsamp; lia).
      unfold zero_row. apply nth_repeat.
  - intros i. rewrite S6. apply P4.
  - intros k Hk. rewrite S7 by exact Hk.
    set (y := nth k order 0%Z). assert (Hy : In y order) by (apply nth_In; exact Hk).
    pose proof (pos0_lt y (sids t1) (Hin1 y Hy)) as [Hlt _].
    rewrite P7 by (rewrite <- Hl1; exact Hlt).
    unfold pos0. rewrite P2. destruct (pos y (sids t)) as [j|] eqn:Ej.
    + assert (In y (sids t)) as Hys by (apply pos_Some in Ej; destruct Ej as [<- Hj]; apply nth_In; exact Hj).
      rewrite pos_app_l by exact Hys. rewrite Ej.
      apply pos_Some in Ej. assert (j <? nsamp t = true) as -> by (apply Nat.ltb_lt; unfold nsamp; tauto).
      reflexivity.
    + apply pos_None in Ej. rewrite pos_app_r by exact Ej.
      assert (In y ms) as Hym by (apply Hms; split; assumption).
      destruct (pos_In y ms Hym) as [q Eq]. rewrite Eq. simpl.
      assert (length (sids t) + q <? nsamp t = false) as -> by (apply Nat.ltb_ge; unfold nsamp; lia).
      replace (length (sids t) + q - nsamp t) with q by (unfold nsamp; lia).
      apply pos_Some in Eq. destruct Eq as [-> _]. reflexivity.
Qed.

(* ---------------------------------------------------------------- (d) stacking *)
Definition stackable (p : table) : Prop :=
  length (mat p) = length (oids p) /\ md_ok (omd p) (length (mat p)).

Lemma stack_row ps : forall k p x i,
  Forall stackable ps -> NoDup (concat (map oids ps)) ->
  nth_error ps k = Some p -> pos x (oids p) = Some i ->
  exists q, pos x (concat (map oids ps)) = Some q /\
            nth q (concat (map mat ps)) [] = nth i (mat p) [] /\
            nth q (concat (map (fun t => md_list (omd t) (length (mat t))) ps)) md_none
              = nth i (md_list (omd p) (length (mat p))) md_none /\
            q < length (concat (map oids ps)).
Proof.
  induction ps as [|p0 r IH]; intros k p x i Hst Hnd Hk Hi; [destruct k; discriminate|].
  inversion Hst as [|? ? [S1 S2] Hst']; subst. simpl in Hnd |- *.
  destruct k as [|k]; simpl in Hk.
  - inversion Hk; subst p0. pose proof (pos_Some _ _ _ Hi) as [Hx Hlt].
    assert (In x (oids p)) as Hin by (rewrite <- Hx; apply nth_In; exact Hlt).
    exists i. rewrite pos_app_l by exact Hin. repeat split; [exact Hi| | |rewrite app_length; lia].
    + apply app_nth1. lia.
    + apply app_nth1. rewrite md_list_length by exact S2. lia.
  - pose proof (pos_Some _ _ _ Hi) as [Hx Hlt].
    assert (In x (oids p)) as Hin by (rewrite <- Hx; apply nth_In; exact Hlt).
    assert (In x (concat (map oids r))) as Hin2.
    { apply in_concat. exists (oids p). split; [|exact Hin]. apply in_map. eapply nth_error_In. exact Hk. }
    assert (~ In x (oids p0)) as Hn0.
    { intros H0. exact (NoDup_app_disj _ _ x Hnd H0 Hin2). }
    assert (NoDup (concat (map oids r))) as Hnd'.
    { clear -Hnd. induction (oids p0) as [|z l IHl]; simpl in Hnd; [exact Hnd|].
      inversion Hnd; subst. apply IHl. assumption. }
    destruct (IH k p x i Hst' Hnd' Hk Hi) as [q [Q1 [Q2 [Q3 Q4]]]].
    exists (length (oids p0) + q). rewrite pos_app_r by exact Hn0. rewrite Q1. simpl.
    repeat split; [| |rewrite app_length; lia].
    + rewrite app_nth2 by lia. rewrite <- Q2. f_equal. lia.
    + rewrite app_nth2 by (rewrite md_list_length by exact S2; lia).
      rewrite md_list_length by exact S2. rewrite <- Q3. f_equal. lia.
Qed.

Lemma concat_lengths ps :
  Forall stackable ps ->
  length (concat (map mat ps)) = length (concat (map oids ps)) /\
  length (concat (map (fun t => md_list (omd t) (length (mat t))) ps)) = length (concat (map oids ps)).
Proof.
  induction 1 as [|p r [S1 S2] _ [IH1 IH2]]; simpl; [split; reflexivity|].
  rewrite !app_length, IH1, IH2, md_list_length by exact S2. split; lia.
Qed.

Lemma rect_concat c (ms : list matrix) : Forall (rect c) ms -> rect c (concat ms).
Proof.
  induction 1 as [|m r Hm _ IH]; simpl; [constructor|]. apply Forall_app. split; assumption.
Qed.

Lemma msum_concat (ms : list matrix) : msum (concat ms) = zsum (map msum ms).
Proof. induction ms as [|m r IH]; simpl; [reflexivity|]. rewrite msum_app, IH. reflexivity. Qed.

(* a function that vanishes outside s sums over l as over s *)
Lemma zsum_support (f : Z -> Z) (l s : list Z) :
  NoDup l -> NoDup s -> (forall y, In y s -> In y l) -> (forall y, ~ In y s -> f y = 0%Z) ->
  zsum (map f l) = zsum (map f s).
Proof.
  intros Hl Hs Hin Hz.
  set (rest := filter (fun y => negb (zmem y s)) l).
  assert (P : Permutation l (s ++ rest)).
  { apply NoDup_Permutation; [exact Hl| |].
    - apply NoDup_app_intro; [exact Hs|apply filter_NoDup; exact Hl|].
      intros y Hy Hy'. apply filter_In in Hy'. destruct Hy' as [_ Hy']. apply negb_true_iff in Hy'.
      apply zmem_In in Hy. congruence.
    - intros y. rewrite in_app_iff. unfold rest. rewrite filter_In. split.
      + intros Hy. destruct (zmem y s) eqn:E; [left; apply zmem_In; exact E|right; split; [exact Hy|reflexivity]].
      + intros [Hy|[Hy _]]; [apply Hin; exact Hy|exact Hy]. }
  rewrite (zsum_perm _ _ (Permutation_map f P)). rewrite map_app, zsum_app.
  assert (zsum (map f rest) = 0%Z) as ->; [|lia].
  assert (forall y, In y rest -> f y = 0%Z) as Hr.
  { intros y Hy. apply Hz. unfold rest in Hy. apply filter_In in Hy. destruct Hy as [_ Hy].
    apply negb_true_iff in Hy. intros Hi. apply zmem_In in Hi. congruence. }
  clear -Hr. induction rest as [|y r IH]; simpl; [reflexivity|].
  rewrite (Hr y) by (left; reflexivity). rewrite IH; [reflexivity|]. intros z Hz. apply Hr. right. exact Hz.
Qed.

(* padding and re-sorting keeps the total of an operand *)
Lemma pad_table_total order mdmap t :
  wf t -> NoDup order -> (forall y, In y (sids t) -> In y order) ->
  msum (mat (pad_table order mdmap t)) = msum (mat t).
Proof.
  intros W Hno Hincl.
  pose proof (pad_table_spec order mdmap t W Hno Hincl) as P. cbv zeta in P.
  destruct P as (P1 & P2 & P3 & P4 & P5 & _).
  destruct W as (W1 & W2 & W3 & W4 & W5 & W6).
  set (p := pad_table order mdmap t) in *.
  unfold msum. f_equal. apply list_ext_Z; [rewrite !map_length; lia|].
  intros i Hi. rewrite map_length, P3 in Hi.
  change 0%Z with (zsum []). rewrite !(map_nth zsum).
  set (row := nth i (mat t) []).
  assert (Hrow : length row = nsamp t) by (apply rect_nth_length; [exact W2|rewrite W1; exact Hi]).
  set (f := fun y => match pos y (sids t) with Some j => nth j row 0%Z | None => 0%Z end).
  assert (E1 : nth i (mat p) [] = map f order).
  { apply list_ext_Z.
    - rewrite map_length. apply rect_nth_length; [exact P4|rewrite P3; exact Hi].
    - intros k Hk. rewrite (rect_nth_length _ _ _ P4) in Hk by (rewrite P3; exact Hi).
      change (nth k (nth i (mat p) []) 0%Z) with (get (mat p) i k).
      rewrite P5 by assumption. unfold pad_get.
      rewrite (nth_indep (map f order) 0%Z (f 0%Z)) by (rewrite map_length; exact Hk). rewrite (map_nth f).
      reflexivity. }
  assert (E2 : map f (sids t) = row).
  { apply list_ext_Z; [rewrite map_length, Hrow; reflexivity|].
    intros j Hj. rewrite map_length in Hj.
    rewrite (nth_indep (map f (sids t)) 0%Z (f 0%Z)) by (rewrite map_length; exact Hj). rewrite (map_nth f).
    unfold f. rewrite pos_nth_NoDup by assumption. reflexivity. }
  rewrite E1, <- E2. apply zsum_support; try assumption.
  intros y Hy. unfold f. apply pos_None in Hy. rewrite Hy. reflexivity.
Qed.

(* ---------------------------------------------------------------- (e) the row version *)
Definition order_of (ts : list table) : list Z := isort (fst (collect [] [] ts)).
Definition mdmap_of (ts : list table) : list (Z * Tree) := snd (collect [] [] ts).
Definition padded_of (ts : list table) : list table := map (pad_table (order_of ts) (mdmap_of ts)) ts.

Lemma concat_rows_ok self rest :
  disjoint_ok [] (self :: rest) = true ->
  concat_rows (self :: rest)
  = ROk (stack_rows (order_of (self :: rest)) (ttype self) (padded_of (self :: rest))).
Proof.
  intros H. unfold concat_rows. rewrite H. cbn [negb]. unfold padded_of, order_of, mdmap_of.
  destruct (collect [] [] (self :: rest)) as [ids0 mp]. reflexivity.
Qed.

Lemma concat_rows_inv ts r :
  concat_rows ts = ROk r ->
  exists self rest, ts = self :: rest /\ disjoint_ok [] ts = true /\
                    r = stack_rows (order_of ts) (ttype self) (padded_of ts).
Proof.
  destruct ts as [|self rest]; [discriminate|]. intros H. exists self, rest.
  destruct (disjoint_ok [] (self :: rest)) eqn:D.
  - rewrite (concat_rows_ok self rest D) in H. inversion H. repeat split.
  - unfold concat_rows in H. rewrite D in H. discriminate.
Qed.

Lemma wf_sids_NoDup ts : Forall wf ts -> Forall (fun t => NoDup (sids t)) ts.
Proof. apply Forall_impl. intros t (_ & _ & _ & H & _). exact H. Qed.
Lemma wf_oids_NoDup ts : Forall wf ts -> Forall (fun t => NoDup (oids t)) ts.
Proof. apply Forall_impl. intros t (_ & _ & H & _). exact H. Qed.

Lemma order_NoDup ts : Forall wf ts -> NoDup (order_of ts).
Proof. intros H. apply isort_NoDup, collect_NoDup; [constructor|apply wf_sids_NoDup; exact H]. Qed.

Lemma order_In ts y : In y (order_of ts) <-> exists t, In t ts /\ In y (sids t).
Proof.
  unfold order_of. rewrite isort_In, collect_In. split; [intros [[]|H]; exact H|intros H; right; exact H].
Qed.

Lemma order_sorted ts : Forall wf ts -> StronglySorted Z.lt (order_of ts).
Proof. intros H. apply isort_strict, collect_NoDup; [constructor|apply wf_sids_NoDup; exact H]. Qed.

Lemma padded_spec ts t :
  Forall wf ts -> In t ts ->
  let order := order_of ts in let p := pad_table order (mdmap_of ts) t in
  oids p = oids t /\ sids p = order /\ length (mat p) = nobs t /\ rect (length order) (mat p) /\
  (forall i k, i < nobs t -> k < length order -> get (mat p) i k = pad_get t order i k) /\
  md_ok (omd p) (nobs t) /\ md_ok (smd p) (length order) /\
  (forall i, entry_view (omd p) i = entry_view (omd t) i) /\
  (forall k, k < length order ->
     entry_view (smd p) k =
       match pos (nth k order 0%Z) (sids t) with
       | Some j => entry_view (smd t) j
       | None => cast_entry (md_get (mdmap_of ts) (nth k order 0%Z))
       end).
Proof.
  intros Hwf Hin. rewrite Forall_forall in Hwf.
  apply pad_table_spec; [apply Hwf; exact Hin|apply order_NoDup; apply Forall_forall; exact Hwf|].
  intros y Hy. apply order_In. exists t. split; assumption.
Qed.

Lemma padded_oids ts : Forall wf ts -> map oids (padded_of ts) = map oids ts.
Proof.
  intros Hwf. unfold padded_of. rewrite map_map. apply map_ext_in. intros t Ht.
  pose proof (padded_spec ts t Hwf Ht) as P. cbv zeta in P. tauto.
Qed.

Lemma padded_stackable ts : Forall wf ts -> Forall stackable (padded_of ts).
Proof.
  intros Hwf. unfold padded_of. apply Forall_forall. intros p Hp. apply in_map_iff in Hp.
  destruct Hp as [t [<- Ht]]. pose proof (padded_spec ts t Hwf Ht) as P. cbv zeta in P.
  destruct P as (P1 & P2 & P3 & P4 & P5 & P6 & _). split.
  - rewrite P3, P1. reflexivity.
  - rewrite P3. exact P6.
Qed.

Section RowResult.
  Variable ts : list table.
  Variable r : table.
  Hypothesis Hwf : Forall wf ts.
  Hypothesis Hr : concat_rows ts = ROk r.

  Lemma rows_oids : oids r = concat (map oids ts).
  Proof.
    destruct (concat_rows_inv ts r Hr) as (self & rest & E & D & ->). simpl.
    rewrite padded_oids by exact Hwf. reflexivity.
  Qed.

  Lemma rows_sids : sids r = order_of ts.
  Proof. destruct (concat_rows_inv ts r Hr) as (self & rest & E & D & ->). reflexivity. Qed.

  Lemma rows_type : exists self rest, ts = self :: rest /\ ttype r = ttype self.
  Proof. destruct (concat_rows_inv ts r Hr) as (self & rest & E & D & ->). exists self, rest. split; [exact E|reflexivity]. Qed.

  Lemma rows_oids_NoDup : NoDup (concat (map oids ts)).
  Proof.
    destruct (concat_rows_inv ts r Hr) as (self & rest & E & D & _).
    apply (disjoint_ok_NoDup [] ts); [constructor|apply wf_oids_NoDup; exact Hwf|exact D].
  Qed.

  Lemma rows_wf : wf r.
  Proof.
    pose proof rows_oids as Eo. pose proof rows_oids_NoDup as Hnd.
    destruct (concat_rows_inv ts r Hr) as (self & rest & E & D & Er).
    pose proof (padded_stackable ts Hwf) as Hst.
    pose proof (concat_lengths _ Hst) as [L1 L2].
    pose proof (padded_oids ts Hwf) as Po.
    subst r. unfold wf, nobs, nsamp, stack_rows. cbn [oids sids mat omd smd].
    repeat split.
    - rewrite L1. reflexivity.
    - apply rect_concat. unfold padded_of. rewrite map_map. apply Forall_forall. intros m Hm.
      apply in_map_iff in Hm. destruct Hm as [t [<- Ht]].
      pose proof (padded_spec ts t Hwf Ht) as P. cbv zeta in P. tauto.
    - rewrite Po. exact Hnd.
    - apply order_NoDup. exact Hwf.
    - apply md_ok_ctor. cbn [md_ok]. exact L2.
    - apply md_ok_ctor.
      assert (In self ts) as Hs by (rewrite E; left; reflexivity).
      pose proof (padded_spec ts self Hwf Hs) as P. cbv zeta in P.
      unfold padded_of. rewrite E at 3. cbn [map]. tauto.
  Qed.

  Variables (k : nat) (t : table) (x : Z).
  Hypothesis Hk : nth_error ts k = Some t.
  Hypothesis Hx : In x (oids t).

  Lemma rows_owner_pos :
    exists i q, pos x (oids t) = Some i /\ pos x (oids r) = Some q /\ i < nobs t /\
      nth q (mat r) [] = nth i (mat (pad_table (order_of ts) (mdmap_of ts) t)) [] /\
      entry_view (omd r) q = entry_view (omd t) i.
  Proof.
    pose proof rows_oids_NoDup as Hnd.
    destruct (concat_rows_inv ts r Hr) as (self & rest & E & D & Er).
    assert (In t ts) as Ht by (eapply nth_error_In; exact Hk).
    pose proof (padded_spec ts t Hwf Ht) as P. cbv zeta in P.
    destruct P as (P1 & P2 & P3 & P4 & P5 & P6 & P7 & P8 & P9).
    set (p := pad_table (order_of ts) (mdmap_of ts) t) in *.
    destruct (pos_In x (oids t) Hx) as [i Hi].
    assert (Hkp : nth_error (padded_of ts) k = Some p) by (unfold padded_of; apply map_nth_error; exact Hk).
    assert (Hip : pos x (oids p) = Some i) by (rewrite P1; exact Hi).
    pose proof (padded_stackable ts Hwf) as Hst.
    assert (Hnd' : NoDup (concat (map oids (padded_of ts)))) by (rewrite padded_oids by exact Hwf; exact Hnd).
    destruct (stack_row (padded_of ts) k p x i Hst Hnd' Hkp Hip) as [q [Q1 [Q2 [Q3 Q4]]]].
    pose proof (pos_Some _ _ _ Hi) as [_ Hlt].
    exists i, q. subst r. unfold stack_rows. cbn [oids sids mat omd smd]. repeat split; try assumption.
    rewrite entry_view_ctor.
    pose proof (concat_lengths _ Hst) as [_ L2].
    rewrite entry_view_Some_nth by (rewrite L2; exact Q4).
    rewrite Q3. rewrite P3. rewrite entry_view_md_list by assumption. apply P8.
  Qed.

  (* the value for (x, y): the owner's value, zero where the owner lacks y *)
  Lemma rows_cell y : In y (order_of ts) -> cell r x y = Some (cell0 t x y).
  Proof.
    intros Hy. destruct rows_owner_pos as (i & q & Hi & Hq & Hlt & Hrow & _).
    assert (In t ts) as Ht by (eapply nth_error_In; exact Hk).
    pose proof (padded_spec ts t Hwf Ht) as P. cbv zeta in P.
    destruct P as (_ & _ & _ & _ & P5 & _).
    destruct (pos_In y _ Hy) as [k' Hk'].
    unfold cell. rewrite Hq, rows_sids, Hk'. f_equal.
    unfold get at 1. rewrite Hrow.
    change (nth k' (nth i (mat (pad_table (order_of ts) (mdmap_of ts) t)) []) 0%Z)
      with (get (mat (pad_table (order_of ts) (mdmap_of ts) t)) i k').
    pose proof (pos_Some _ _ _ Hk') as [Hy' Hlt'].
    rewrite P5 by assumption. unfold pad_get. rewrite Hy'.
    unfold cell0, cell. rewrite Hi. destruct (pos y (sids t)); reflexivity.
  Qed.

  Lemma rows_md : md_view Obs r x = md_view Obs t x.
  Proof.
    destruct rows_owner_pos as (i & q & Hi & Hq & Hlt & _ & Hmd).
    rewrite !md_view_entry. simpl. rewrite Hq, Hi. exact Hmd.
  Qed.
End RowResult.

Lemma cast_md_lookup t y : cast_entry (md_lookup t y) = md_view Samp t y.
Proof. unfold md_lookup, md_view. destruct (md_of Samp t y); reflexivity. Qed.

(* other-axis metadata: from the first operand that has the id *)
Lemma rows_other_md ts r y tf :
  Forall wf ts -> concat_rows ts = ROk r ->
  find (fun t => zmem y (sids t)) ts = Some tf ->
  md_view Samp r y = md_view Samp tf y.
Proof.
  intros Hwf Hr Hf.
  destruct (concat_rows_inv ts r Hr) as (self & rest & E & D & Er).
  assert (In self ts) as Hs by (rewrite E; left; reflexivity).
  pose proof (padded_spec ts self Hwf Hs) as P. cbv zeta in P.
  destruct P as (_ & P2 & _ & _ & _ & _ & P7 & _ & P9).
  assert (Hy : In y (order_of ts)).
  { apply order_In. apply find_some in Hf. destruct Hf as [Hin Hz]. exists tf. split; [exact Hin|apply zmem_In; exact Hz]. }
  destruct (pos_In y _ Hy) as [k' Hk']. pose proof (pos_Some _ _ _ Hk') as [Hy' Hlt'].
  rewrite (md_view_entry Samp r). cbn [ids mds]. rewrite (rows_sids ts r Hr), Hk'.
  subst r. unfold stack_rows. cbn [smd]. unfold padded_of at 1. rewrite E at 3. cbn [map].
  rewrite entry_view_ctor.
  rewrite P9 by exact Hlt'. rewrite Hy'.
  rewrite E in Hf. simpl in Hf.
  destruct (zmem y (sids self)) eqn:Z.
  - inversion Hf; subst tf. apply zmem_In in Z. destruct (pos_In y _ Z) as [j Hj]. rewrite Hj.
    rewrite md_view_entry. simpl. rewrite Hj. reflexivity.
  - assert (pos y (sids self) = None) as -> by (apply pos_None; intros Hi; apply zmem_In in Hi; congruence).
    unfold mdmap_of. rewrite (collect_md [] [] ts y eq_refl). simpl zmem. cbv iota.
    rewrite E. simpl find. rewrite Z, Hf. apply cast_md_lookup.
Qed.

Lemma rows_total ts r :
  Forall wf ts -> concat_rows ts = ROk r -> msum (mat r) = zsum (map (fun t => msum (mat t)) ts).
Proof.
  intros Hwf Hr. destruct (concat_rows_inv ts r Hr) as (self & rest & E & D & ->). simpl.
  rewrite msum_concat. unfold padded_of. rewrite !map_map. f_equal. apply map_ext_in. intros t Ht.
  rewrite Forall_forall in Hwf. apply pad_table_total; [apply Hwf; exact Ht|apply order_NoDup; apply Forall_forall; exact Hwf|].
  intros y Hy. apply order_In. exists t. split; assumption.
Qed.

(* ---------------------------------------------------------------- (f) any axis *)
Definition shares_on (a : axis) (ts : list table) : Prop :=
  exists i j ti tj x, i < j /\ nth_error ts i = Some ti /\ nth_error ts j = Some tj /\
                      In x (ids a ti) /\ In x (ids a tj).

Lemma nth_error_map_Some {A B} (f : A -> B) l i y :
  nth_error (map f l) i = Some y <-> exists x, nth_error l i = Some x /\ f x = y.
Proof.
  rewrite nth_error_map. destruct (nth_error l i) as [x|]; simpl; split.
  - intros H. inversion H. exists x. split; reflexivity.
  - intros [x' [H1 H2]]. inversion H1. subst. reflexivity.
  - discriminate.
  - intros [x' [H1 _]]. discriminate.
Qed.

Lemma shares_orient a ts : shares (map (orient a) ts) <-> shares_on a ts.
Proof.
  unfold shares, shares_on. split.
  - intros (i & j & ti & tj & x & Hij & Hi & Hj & Hxi & Hxj).
    apply nth_error_map_Some in Hi, Hj. destruct Hi as [ui [Hi <-]]. destruct Hj as [uj [Hj <-]].
    rewrite oids_orient in Hxi, Hxj. exists i, j, ui, uj, x. repeat split; assumption.
  - intros (i & j & ti & tj & x & Hij & Hi & Hj & Hxi & Hxj).
    exists i, j, (orient a ti), (orient a tj), x. rewrite !oids_orient. repeat split; try assumption.
    + apply nth_error_map_Some. exists ti. split; [exact Hi|reflexivity].
    + apply nth_error_map_Some. exists tj. split; [exact Hj|reflexivity].
Qed.

Lemma concat_rows_refuses ts : concat_rows ts = RErr E_DISJOINT <-> shares ts.
Proof.
  destruct ts as [|self rest].
  - split; [discriminate|]. intros (i & j & ti & tj & x & _ & Hi & _). destruct i; discriminate.
  - unfold concat_rows. destruct (disjoint_ok [] (self :: rest)) eqn:D; cbn [negb].
    + destruct (collect [] [] (self :: rest)). split; [discriminate|]. intros Hs.
      assert (disjoint_ok [] (self :: rest) = false) by (apply disjoint_ok_false; right; exact Hs). congruence.
    + split; [intros _|reflexivity]. apply disjoint_ok_false in D.
      destruct D as [(j & tj & x & _ & _ & [])|D]. exact D.
Qed.

Theorem concat_refuses_iff ts a : concat_t ts a = RErr E_DISJOINT <-> shares_on a ts.
Proof.
  rewrite <- shares_orient, <- concat_rows_refuses. unfold concat_t.
  destruct (concat_rows (map (orient a) ts)) as [r|c]; split; try discriminate; intros H; inversion H; reflexivity.
Qed.

Theorem concat_errors ts a c : concat_t ts a = RErr c -> c = E_DISJOINT \/ (ts = [] /\ c = E_OTHER).
Proof.
  unfold concat_t, concat_rows. destruct ts as [|self rest]; simpl map.
  - intros H. inversion H. right. split; reflexivity.
  - destruct (disjoint_ok [] (orient a self :: map (orient a) rest)); cbn [negb].
    + destruct (collect [] [] (orient a self :: map (orient a) rest)). discriminate.
    + intros H. inversion H. left. reflexivity.
Qed.

Theorem concat_accepts ts a : ts <> [] -> ~ shares_on a ts -> exists r, concat_t ts a = ROk r.
Proof.
  intros Hne Hs. destruct (concat_t ts a) as [r|c] eqn:E; [exists r; reflexivity|].
  destruct (concat_errors ts a c E) as [->|[-> _]]; [|contradiction].
  apply concat_refuses_iff in E. contradiction.
Qed.

Lemma Forall_wf_orient a ts : Forall wf ts -> Forall wf (map (orient a) ts).
Proof.
  intros H. apply Forall_forall. intros t Ht. apply in_map_iff in Ht. destruct Ht as [u [<- Hu]].
  apply wf_orient. rewrite Forall_forall in H. apply H. exact Hu.
Qed.

Lemma concat_t_inv ts a r :
  concat_t ts a = ROk r -> exists r', concat_rows (map (orient a) ts) = ROk r' /\ r = orient a r'.
Proof.
  unfold concat_t. destruct (concat_rows (map (orient a) ts)) as [r'|c]; [|discriminate].
  intros H. inversion H. exists r'. split; reflexivity.
Qed.

Theorem concat_wf ts a r : Forall wf ts -> concat_t ts a = ROk r -> wf r.
Proof.
  intros Hwf H. destruct (concat_t_inv ts a r H) as [r' [Hr ->]].
  apply wf_orient. apply (rows_wf _ _ (Forall_wf_orient a ts Hwf) Hr).
Qed.

Theorem concat_ids ts a r :
  Forall wf ts -> concat_t ts a = ROk r ->
  ids a r = concat (map (ids a) ts) /\
  StronglySorted Z.lt (ids (other a) r) /\
  (forall y, In y (ids (other a) r) <-> exists t, In t ts /\ In y (ids (other a) t)).
Proof.
  intros Hwf H. destruct (concat_t_inv ts a r H) as [r' [Hr ->]].
  pose proof (Forall_wf_orient a ts Hwf) as Hwf'.
  rewrite ids_orient_back, ids_other_orient_back.
  rewrite (rows_oids _ _ Hwf' Hr), (rows_sids _ _ Hr). repeat split.
  - rewrite map_map. f_equal. apply map_ext. intros t. apply oids_orient.
  - apply order_sorted. exact Hwf'.
  - intros Hy. apply order_In in Hy. destruct Hy as [t' [Ht' Hy]]. apply in_map_iff in Ht'.
    destruct Ht' as [t [<- Ht]]. exists t. split; [exact Ht|]. rewrite sids_orient in Hy. exact Hy.
  - intros [t [Ht Hy]]. apply order_In. exists (orient a t). split; [apply in_map; exact Ht|].
    rewrite sids_orient. exact Hy.
Qed.

Lemma cellx0_absent a t x y : ~ In y (ids (other a) t) -> cellx0 a t x y = 0%Z.
Proof.
  intros H. unfold cellx0, cellx, cell. destruct a; simpl in H; apply pos_None in H; rewrite H.
  - destruct (pos x (oids t)); reflexivity.
  - reflexivity.
Qed.

Theorem concat_cell ts a r k t x y :
  Forall wf ts -> concat_t ts a = ROk r -> nth_error ts k = Some t ->
  In x (ids a t) -> In y (ids (other a) r) ->
  cellx a r x y = Some (if zmem y (ids (other a) t) then cellx0 a t x y else 0%Z).
Proof.
  intros Hwf H Hk Hx Hy. destruct (concat_t_inv ts a r H) as [r' [Hr ->]].
  pose proof (Forall_wf_orient a ts Hwf) as Hwf'.
  assert (wf t) as Wt by (rewrite Forall_forall in Hwf; apply Hwf; eapply nth_error_In; exact Hk).
  rewrite cellx_orient by (apply (rows_wf _ _ Hwf' Hr)).
  rewrite ids_other_orient_back, (rows_sids _ _ Hr) in Hy.
  assert (Hk' : nth_error (map (orient a) ts) k = Some (orient a t)) by (apply map_nth_error; exact Hk).
  rewrite (rows_cell _ _ Hwf' Hr k (orient a t) x Hk') by (rewrite ?oids_orient; assumption).
  f_equal. unfold cell0. rewrite cell_orient by exact Wt. fold (cellx0 a t x y).
  destruct (zmem y (ids (other a) t)) eqn:Z; [reflexivity|].
  apply cellx0_absent. intros Hi. apply zmem_In in Hi. congruence.
Qed.

Theorem concat_md ts a r k t x :
  Forall wf ts -> concat_t ts a = ROk r -> nth_error ts k = Some t -> In x (ids a t) ->
  md_view a r x = md_view a t x.
Proof.
  intros Hwf H Hk Hx. destruct (concat_t_inv ts a r H) as [r' [Hr ->]].
  pose proof (Forall_wf_orient a ts Hwf) as Hwf'.
  assert (Hk' : nth_error (map (orient a) ts) k = Some (orient a t)) by (apply map_nth_error; exact Hk).
  rewrite md_view_orient_back.
  rewrite (rows_md _ _ Hwf' Hr k (orient a t) x Hk') by (rewrite oids_orient; exact Hx).
  apply md_view_orient.
Qed.

Lemma find_map {A B} (f : B -> bool) (g : A -> B) l :
  find f (map g l) = option_map g (find (fun x => f (g x)) l).
Proof. induction l as [|x l IH]; simpl; [reflexivity|]. destruct (f (g x)); [reflexivity|exact IH]. Qed.

Theorem concat_other_md ts a r y tf :
  Forall wf ts -> concat_t ts a = ROk r ->
  find (fun t => zmem y (ids (other a) t)) ts = Some tf ->
  md_view (other a) r y = md_view (other a) tf y.
Proof.
  intros Hwf H Hf. destruct (concat_t_inv ts a r H) as [r' [Hr ->]].
  pose proof (Forall_wf_orient a ts Hwf) as Hwf'.
  rewrite md_view_orient_back_other.
  rewrite (rows_other_md _ _ y (orient a tf) Hwf' Hr); [apply md_view_orient_other|].
  rewrite find_map.
  assert ((fun x => zmem y (sids (orient a x))) = (fun t => zmem y (ids (other a) t))) as ->.
  { destruct a; reflexivity. }
  rewrite Hf. reflexivity.
Qed.

Theorem concat_total ts a r :
  Forall wf ts -> concat_t ts a = ROk r -> msum (mat r) = zsum (map (fun t => msum (mat t)) ts).
Proof.
  intros Hwf H. destruct (concat_t_inv ts a r H) as [r' [Hr ->]].
  pose proof (Forall_wf_orient a ts Hwf) as Hwf'.
  rewrite msum_orient by (apply (rows_wf _ _ Hwf' Hr)).
  rewrite (rows_total _ _ Hwf' Hr). rewrite map_map. f_equal. apply map_ext_in. intros t Ht.
  apply msum_orient. rewrite Forall_forall in Hwf. apply Hwf. exact Ht.
Qed.

Theorem concat_type ts a r : concat_t ts a = ROk r -> exists self rest, ts = self :: rest /\ ttype r = ttype self.
Proof.
  intros H. destruct (concat_t_inv ts a r H) as [r' [Hr ->]].
  destruct (concat_rows_inv _ _ Hr) as (self' & rest' & E & _ & ->).
  destruct ts as [|self rest]; [discriminate|]. simpl in E. inversion E; subst.
  exists self, rest. split; [reflexivity|]. rewrite ttype_orient. simpl. apply ttype_orient.
Qed.
