(* Bridge: the partition regenerated from biom/table.py (Gen/PartitionGen.v, tools/py2v_part) is the
   hand-written model Model/Partition.v partition_t, for every table, labelling, axis and flag. *)
From Coq Require Import List Arith ZArith Lia Bool.
From BiomV Require Import Gen.PartPrelude Gen.PartitionGen.
Import ListNotations.

(* a bucket of the hand model (the vectors appended) as the three lists the source keeps *)
Definition tri (b : list (Z * list Z * Tree)) : bucket := (map v_id b, map v_row b, map v_md b).
Definition tri_d (g : list (Z * list (Z * list Z * Tree))) : pdict := map (fun e => (fst e, tri (snd e))) g.

(* the labels the oracle gives along the iteration *)
Fixpoint plabels (pf : pfun) (idx : nat) (vs : list (Z * list Z * Tree)) : list Z :=
  match vs with
  | [] => []
  | v :: r => part_f_call pf idx (v_id v) (v_md v) :: plabels pf (S idx) r
  end.

Definition app3 (d : pdict) (l : Z) (v : Z * list Z * Tree) : pdict :=
  pd_append_md (pd_append_vals (pd_append_ids d l (v_id v)) l (v_row v)) l (v_md v).

Lemma app3_cons_ne l v k b r : Z.eqb l k = false -> app3 ((k, b) :: r) l v = (k, b) :: app3 r l v.
Proof.
  intros E. unfold app3, pd_append_md, pd_append_vals, pd_append_ids. cbn [pd_upd]. rewrite E.
  cbn [pd_upd]. rewrite E. cbn [pd_upd]. rewrite E. reflexivity.
Qed.

Lemma app3_cons_eq l v k b r : Z.eqb l k = true ->
  app3 ((k, tri b) :: r) l v = (k, tri (b ++ [v])) :: r.
Proof.
  intros E. unfold app3, pd_append_md, pd_append_vals, pd_append_ids. cbn [pd_upd]. rewrite E.
  cbn [pd_upd]. rewrite E. cbn [pd_upd]. rewrite E. unfold tri. cbn [fst snd].
  rewrite !map_app. reflexivity.
Qed.

Lemma dict_step g l v :
  (if negb (pd_mem (tri_d g) l) then app3 (pd_set (tri_d g) l bucket_empty) l v else app3 (tri_d g) l v)
  = tri_d (group_add g l v).
Proof.
  induction g as [|[k b] r IH].
  - cbn. unfold app3, pd_append_md, pd_append_vals, pd_append_ids. cbn [pd_upd].
    rewrite Z.eqb_refl. cbn [pd_upd]. rewrite Z.eqb_refl. cbn [pd_upd]. rewrite Z.eqb_refl.
    destruct v as [[i row] m]. reflexivity.
  - cbn [tri_d map fst snd group_add pd_mem existsb pd_set]. destruct (Z.eqb l k) eqn:E.
    + cbn [orb negb]. rewrite app3_cons_eq by exact E. reflexivity.
    + cbn [orb]. cbn [map fst snd]. fold (tri_d r). fold (tri_d (group_add r l v)).
      rewrite <- IH. fold (pd_mem (tri_d r) l).
      destruct (pd_mem (tri_d r) l); cbn [negb]; rewrite app3_cons_ne by exact E; reflexivity.
Qed.

Lemma loop1_is_groups self f a re ign pf vs : forall idx g,
  gen_partition_loop1 self f a re ign pf idx (tri_d g) vs
  = tri_d (fold_left (group_step ign) (combine (plabels pf idx vs) vs) g).
Proof.
  induction vs as [|v r IH]; intros idx g.
  - reflexivity.
  - destruct v as [[i row] m]. cbn [gen_partition_loop1 plabels combine fold_left].
    unfold group_step at 2. cbn [fst snd]. unfold label_is_none, label_hashable. cbn [negb].
    change (v_id (i, row, m)) with i. change (v_md (i, row, m)) with m.
    set (l := part_f_call pf idx i m).
    destruct (ign && Z.eqb l NONE_LABEL).
    + apply IH.
    + rewrite <- IH. f_equal.
      pose proof (dict_step g l (i, row, m)) as D. unfold app3 in D.
      change (v_id (i, row, m)) with i in D. change (v_md (i, row, m)) with m in D.
      change (v_row (i, row, m)) with row in D. rewrite <- D.
      destruct (pd_mem (tri_d g) l); reflexivity.
Qed.

Lemma labels_list labels vs : forall k n, length vs <= n ->
  combine (map (fun i => nth i labels NONE_LABEL) (seq k n)) vs = combine (plabels (PFList labels) k vs) vs.
Proof.
  induction vs as [|v r IH]; intros k n H.
  - destruct n; reflexivity.
  - destruct n as [|n]; [cbn in H; lia|]. cbn [seq map combine plabels part_f_call].
    f_equal. apply IH. cbn in H. lia.
Qed.

Lemma labels_map m ids : forall (mat : list (list Z)) (mdl : list Tree) k,
  combine (map (assoc m) ids) (combine (combine ids mat) mdl)
  = combine (plabels (PFMap m) k (combine (combine ids mat) mdl)) (combine (combine ids mat) mdl).
Proof.
  induction ids as [|i r IH]; intros mat mdl k.
  - reflexivity.
  - destruct mat as [|row mat]; [reflexivity|]. destruct mdl as [|d mdl]; [reflexivity|].
    cbn [map combine plabels part_f_call]. change (v_id (i, row, d)) with i. f_equal. apply IH.
Qed.

Lemma labels_ok lab pf o : partition_label_fn lab = ROk pf ->
  combine (labels_of lab (oids o)) (vrecs o) = combine (plabels pf 0 (vrecs o)) (vrecs o).
Proof.
  destruct lab; cbn [partition_label_fn]; intros H; inversion H; subst; cbn [labels_of].
  - apply labels_list. unfold vrecs. rewrite !combine_length. lia.
  - apply labels_map.
  - apply labels_map.
Qed.

Lemma loop2_is_parts t f a re ign pf d : forall l,
  gen_partition_loop2 t f a re ign pf d (tb_metadata t (tb_invert_axis t a)) (tri_d l)
  = map (fun g => (fst g, let p := orient a (part_rows (orient a t) (snd g)) in
                          if re then remove_empty_whole p else p)) l.
Proof.
  induction l as [|[k b] r IH].
  - reflexivity.
  - cbn [tri_d map fst snd]. fold (tri_d r). unfold tri at 1. cbn [gen_partition_loop2].
    destruct a, re; cbn zeta; rewrite IH; reflexivity.
Qed.

Theorem gen_partition_is_partition_t t lab a remove_empty ignore_none :
  gen_partition t lab a remove_empty ignore_none = partition_t t a lab ignore_none remove_empty.
Proof.
  unfold gen_partition, partition_t.
  destruct (partition_label_fn lab) as [pf|c] eqn:P.
  - assert (lab_error lab = None) as -> by (destruct lab; cbn in P; try discriminate; reflexivity).
    cbn [rbind]. unfold pd_items.
    change pd_empty with (tri_d []). rewrite loop1_is_groups, loop2_is_parts.
    unfold tb_iter_sparse, groups. rewrite (labels_ok lab pf) by exact P. reflexivity.
  - destruct lab; cbn in P; try discriminate; inversion P; reflexivity.
Qed.
