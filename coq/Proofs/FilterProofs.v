(* proofs for C08: the rebuild loop (K2) and the content-level filter *)
From Coq Require Import List Arith ZArith Lia Bool.
From BiomV Require Import Base.Tree Base.ListUtil Base.Matrix Model.Table Model.Orient Model.Filter Proofs.OrientProofs.
Import ListNotations.

Section K2.
Variable data : list Z.
Variable indices : list nat.

(* strictly increasing segment *)
Definition seg_sorted (s e : nat) : Prop :=
  forall a b, s <= a -> a < b -> b < e -> nth a indices 0 < nth b indices 0.

Lemma lookup_lt k s len :
  seg_sorted s (s+len) -> (len = 0 \/ k < nth s indices 0) -> seg_lookup data indices k s len = 0%Z.
Proof.
  revert s. induction len as [|len IH]; intros s Hs Hk; [reflexivity|].
  simpl. destruct Hk as [Hk|Hk]; [discriminate|].
  destruct (Nat.eqb_spec (nth s indices 0) k); [lia|].
  apply IH.
  - intros a b Ha Hab Hb. apply Hs; lia.
  - destruct len; [left; reflexivity|right].
    assert (nth s indices 0 < nth (S s) indices 0) by (apply Hs; lia). lia.
Qed.

(* invariant: after processing columns < j *)
Definition Inv (n s e j : nat) (st : nat * list Z) : Prop :=
  let '(cur, row) := st in
  length row = n /\ s <= cur /\ cur <= e /\
  (forall a, s <= a -> a < cur -> nth a indices 0 < j) /\
  (cur < e -> j <= nth cur indices 0) /\
  (forall k, k < j -> nth k row 0%Z = seg_lookup data indices k s (e - s)).

Lemma lookup_split k s len c :
  s <= c -> c <= s + len ->
  (forall a, s <= a -> a < c -> nth a indices 0 <> k) ->
  seg_lookup data indices k s len = seg_lookup data indices k c (s + len - c).
Proof.
  revert s. induction len as [|len IH]; intros s Hsc Hc Hne.
  - assert (c = s) by lia. subst. replace (s + 0 - s) with 0 by lia. reflexivity.
  - destruct (Nat.eq_dec s c) as [->|Hn].
    + replace (c + S len - c) with (S len) by lia. reflexivity.
    + simpl. destruct (Nat.eqb_spec (nth s indices 0) k) as [E|E].
      * exfalso. apply (Hne s); lia.
      * rewrite (IH (S s)); try lia.
        -- f_equal. lia.
        -- intros a Ha Hac. apply Hne; lia.
Qed.

Lemma body_inv n s e j st :
  e <= length indices -> seg_sorted s e -> j < n ->
  Inv n s e j st -> Inv n s e (S j) (rebuild_body data indices e st j).
Proof.
  intros He Hs Hj. destruct st as [cur row]. unfold Inv, rebuild_body.
  intros (Hlen & Hsc & Hce & Hbelow & Hnext & Hrow).
  destruct (Nat.leb_spec e cur) as [Hdone|Hmore]; simpl.
  - (* exhausted *)
    rewrite upd_length. repeat split; try lia.
    + intros a Ha Hac. specialize (Hbelow a Ha Hac). lia.
    + intros k Hk. destruct (Nat.eq_dec k j) as [->|Hkj].
      * rewrite nth_upd_eq by lia.
        rewrite (lookup_split j s (e - s) cur); try lia.
        -- replace (s + (e - s) - cur) with 0 by lia. reflexivity.
        -- intros a Ha Hac. specialize (Hbelow a Ha Hac). lia.
      * rewrite nth_upd_neq by lia. apply Hrow. lia.
  - specialize (Hnext Hmore).
    destruct (Nat.ltb_spec j (nth cur indices 0)) as [Hlt|Hge]; simpl.
    + rewrite upd_length. repeat split; try lia.
      * intros a Ha Hac. specialize (Hbelow a Ha Hac). lia.
      * intros k Hk. destruct (Nat.eq_dec k j) as [->|Hkj].
        -- rewrite nth_upd_eq by lia.
           rewrite (lookup_split j s (e - s) cur); try lia.
           ++ symmetry. apply lookup_lt.
              ** intros a b Ha Hab Hb. apply Hs; lia.
              ** right. exact Hlt.
           ++ intros a Ha Hac. specialize (Hbelow a Ha Hac). lia.
        -- rewrite nth_upd_neq by lia. apply Hrow. lia.
    + assert (Heq : nth cur indices 0 = j) by lia.
      rewrite Heq, Nat.eqb_refl.
      rewrite upd_length. repeat split; try lia.
      * intros a Ha Hac. destruct (Nat.eq_dec a cur) as [->|Hac']; [lia|].
        assert (nth a indices 0 < j) by (apply Hbelow; lia). lia.
      * intros Hc. assert (nth cur indices 0 < nth (S cur) indices 0) by (apply Hs; lia). lia.
      * intros k Hk. destruct (Nat.eq_dec k j) as [->|Hkj].
        -- rewrite nth_upd_eq by lia.
           rewrite (lookup_split j s (e - s) cur); try lia.
           ++ destruct (s + (e - s) - cur) eqn:El; [lia|]. simpl.
              rewrite Heq, Nat.eqb_refl. reflexivity.
           ++ intros a Ha Hac. specialize (Hbelow a Ha Hac). lia.
        -- rewrite nth_upd_neq by lia. apply Hrow. lia.
Qed.

Theorem rebuild_correct n s e row0 :
  length row0 = n -> s <= e -> e <= length indices -> seg_sorted s e ->
  forall k, k < n -> nth k (snd (rebuild data indices n s e row0)) 0%Z = seg_lookup data indices k s (e - s).
Proof.
  intros Hlen Hse He Hs.
  assert (G : forall m, m <= n -> Inv n s e m (fold_left (rebuild_body data indices e) (seq 0 m) (s, row0))).
  { induction m as [|m IH]; intros Hm.
    - simpl. unfold Inv. repeat split; try lia.
    - rewrite seq_S, fold_left_app. simpl. apply body_inv; try assumption; try lia.
      apply IH. lia. }
  intros k Hk. specialize (G n (le_n n)). unfold rebuild.
  destruct (fold_left (rebuild_body data indices e) (seq 0 n) (s, row0)) as [cur row]. simpl.
  destruct G as (_ & _ & _ & _ & _ & Hrow). apply Hrow. exact Hk.
Qed.
End K2.

(* ---------------- content level ---------------- *)

Lemma select_map_filter {A} (f : A -> bool) (l : list A) : select (map f l) l = filter f l.
Proof. induction l as [|x l IH]; simpl; [reflexivity|]. destruct (f x); rewrite IH; reflexivity. Qed.

Lemma select_In {A} (mask : list bool) (l : list A) x : In x (select mask l) -> In x l.
Proof.
  revert l. induction mask as [|b m IH]; intros [|y l] H; simpl in *; try contradiction.
  destruct b; simpl in H.
  - destruct H as [H|H]; [left; exact H|right; apply IH; exact H].
  - right. apply IH. exact H.
Qed.

Lemma select_NoDup {A} (mask : list bool) (l : list A) : NoDup l -> NoDup (select mask l).
Proof.
  revert l. induction mask as [|b m IH]; intros [|y l] H; simpl; try constructor.
  inversion H as [|? ? Hy Hl]; subst. destruct b.
  - constructor; [|apply IH; exact Hl]. intros Hin. apply Hy. eapply select_In. exact Hin.
  - apply IH. exact Hl.
Qed.

(* the element found at position k of the selected ids sits at position i of the
   original ids, and every list selected with the same mask is aligned with it *)
Lemma select_pos {A} (mask : list bool) (l : list Z) (vals : list A) d x k :
  NoDup l -> length vals = length l ->
  pos x (select mask l) = Some k ->
  exists i, pos x l = Some i /\ nth k (select mask vals) d = nth i vals d /\ nth i mask false = true.
Proof.
  unfold pos. revert l vals k. induction mask as [|b m IH]; intros [|y l] [|v vals] k Hn Hl H;
    simpl in *; try discriminate.
  inversion Hn as [|? ? Hy Hn']; subst. injection Hl as Hl.
  destruct b; simpl in H.
  - destruct (Z.eqb x y) eqn:E.
    + inversion H; subst. exists 0. repeat split; reflexivity.
    + destruct (index_of Z.eqb x (select m l)) as [k'|] eqn:K; simpl in H; [|discriminate].
      inversion H; subst. destruct (IH l vals k' Hn' Hl K) as [i [P [Q R]]].
      exists (S i). rewrite P. simpl. repeat split; assumption.
  - destruct (Z.eqb x y) eqn:E.
    + apply Z.eqb_eq in E. subst. exfalso. apply Hy.
      assert (Hin : In y (select m l)).
      { destruct (In_dec Z.eq_dec y (select m l)) as [Hi|Hni]; [exact Hi|].
        apply index_of_Z_None in Hni. rewrite Hni in H. discriminate. }
      eapply select_In. exact Hin.
    + destruct (IH l vals k Hn' Hl H) as [i [P [Q R]]].
      exists (S i). rewrite P. simpl. repeat split; assumption.
Qed.

Lemma select_length_same {A B} (mask : list bool) (a : list A) (b : list B) :
  length a = length b -> length (select mask a) = length (select mask b).
Proof.
  revert a b. induction mask as [|x m IH]; intros [|p a] [|q b] H; simpl in *; try discriminate; try reflexivity.
  injection H as H. destruct x; simpl; rewrite (IH a b H); reflexivity.
Qed.

Lemma sel_cols_rect mask c m (ids : list Z) :
  rect c m -> length ids = c -> rect (length (select mask ids)) (sel_cols mask m).
Proof.
  intros R Hl. unfold sel_cols. apply Forall_forall. intros r Hr. apply in_map_iff in Hr.
  destruct Hr as [r0 [E Hin]]. subst. unfold rect in R. rewrite Forall_forall in R.
  apply select_length_same. rewrite (R r0 Hin). reflexivity.
Qed.

Lemma sel_rows_rect mask c m : rect c m -> rect c (sel_rows mask m).
Proof.
  intros R. unfold sel_rows. apply Forall_forall. intros r Hr. apply select_In in Hr.
  unfold rect in R. rewrite Forall_forall in R. apply R. exact Hr.
Qed.

Lemma md_ok_select mask md (l : list Z) : md_ok md (length l) -> md_ok (option_map (select mask) md) (length (select mask l)).
Proof. destruct md as [x|]; simpl; [|tauto]. intros H. apply select_length_same. exact H. Qed.

Lemma wf_filter_mask mask a t : wf t -> wf (filter_mask mask a t).
Proof.
  intros (H1 & H2 & H3 & H4 & H5 & H6). destruct a; unfold filter_mask, wf, nobs, nsamp in *; simpl.
  - repeat split; try assumption.
    + unfold sel_rows. apply select_length_same. exact H1.
    + apply sel_rows_rect. exact H2.
    + apply select_NoDup. exact H3.
    + apply md_ok_select. exact H5.
  - repeat split; try assumption.
    + unfold sel_cols. rewrite map_length. exact H1.
    + apply sel_cols_rect with (c := length (sids t)); [exact H2|reflexivity].
    + apply select_NoDup. exact H4.
    + apply md_ok_select. exact H6.
Qed.

Lemma get_sel_cols mask m i k j :
  nth k (select mask (nth i m [])) 0%Z = nth j (nth i m []) 0%Z -> i < length m ->
  get (sel_cols mask m) i k = get m i j.
Proof.
  intros H Hi. unfold get, sel_cols.
  rewrite (nth_indep _ [] (select mask [])) by (rewrite map_length; exact Hi).
  rewrite (map_nth (select mask)). exact H.
Qed.

(* cells of kept id pairs are unchanged *)
Theorem filter_mask_cell mask a t o s :
  wf t -> In o (oids (filter_mask mask a t)) -> In s (sids (filter_mask mask a t)) ->
  cell (filter_mask mask a t) o s = cell t o s.
Proof.
  intros W Ho Hs. pose proof W as (H1 & H2 & H3 & H4 & H5 & H6).
  unfold nobs, nsamp in *. destruct a; unfold cell, filter_mask in *; simpl in *.
  - destruct (pos o (select mask (oids t))) as [k|] eqn:K.
    2:{ apply pos_None in K. contradiction. }
    destruct (select_pos mask (oids t) (mat t) [] o k H3 H1 K) as [i [P [Q _]]].
    rewrite P. destruct (pos s (sids t)); [|reflexivity]. f_equal. unfold get, sel_rows. rewrite Q. reflexivity.
  - destruct (pos s (select mask (sids t))) as [k|] eqn:K.
    2:{ apply pos_None in K. contradiction. }
    destruct (pos o (oids t)) as [i|] eqn:Pi; [|reflexivity].
    assert (Hi : i < length (mat t)) by (apply pos_Some in Pi; lia).
    assert (Hr : length (nth i (mat t) []) = length (sids t)) by (apply rect_nth_length; assumption).
    destruct (select_pos mask (sids t) (nth i (mat t) []) 0%Z s k H4 Hr K) as [j [P [Q _]]].
    rewrite P. f_equal. apply get_sel_cols; assumption.
Qed.

(* metadata travels with its id *)
Theorem filter_mask_md mask a t x :
  wf t -> In x (ids a (filter_mask mask a t)) -> md_of a (filter_mask mask a t) x = md_of a t x.
Proof.
  intros W Hx. pose proof W as (H1 & H2 & H3 & H4 & H5 & H6). unfold nobs, nsamp in *.
  destruct a; unfold md_of, md_at, filter_mask in *; simpl in *.
  - destruct (pos x (select mask (oids t))) as [k|] eqn:K.
    2:{ apply pos_None in K. contradiction. }
    destruct (omd t) as [md|]; simpl.
    + simpl in H5. destruct (select_pos mask (oids t) (map Some md) None x k H3 ltac:(rewrite map_length; exact H5) K) as [i [P [Q _]]].
      rewrite P. clear - Q.
      assert (G : forall (l : list Tree) n, nth_error l n = nth n (map Some l) None).
      { induction l as [|y l IH]; intros [|n]; simpl; try reflexivity. apply IH. }
      rewrite !G. rewrite <- Q. f_equal.
      clear. revert md. induction mask as [|b m IH]; intros [|y md]; simpl; try reflexivity.
      destruct b; simpl; rewrite IH; reflexivity.
    + destruct (select_pos mask (oids t) (oids t) 0%Z x k H3 eq_refl K) as [i [P _]]. rewrite P. reflexivity.
  - destruct (pos x (select mask (sids t))) as [k|] eqn:K.
    2:{ apply pos_None in K. contradiction. }
    destruct (smd t) as [md|]; simpl.
    + simpl in H6. destruct (select_pos mask (sids t) (map Some md) None x k H4 ltac:(rewrite map_length; exact H6) K) as [i [P [Q _]]].
      rewrite P. clear - Q.
      assert (G : forall (l : list Tree) n, nth_error l n = nth n (map Some l) None).
      { induction l as [|y l IH]; intros [|n]; simpl; try reflexivity. apply IH. }
      rewrite !G. rewrite <- Q. f_equal.
      clear. revert md. induction mask as [|b m IH]; intros [|y md]; simpl; try reflexivity.
      destruct b; simpl; rewrite IH; reflexivity.
    + destruct (select_pos mask (sids t) (sids t) 0%Z x k H4 eq_refl K) as [i [P _]]. rewrite P. reflexivity.
Qed.

(* the other axis, its metadata and the type are untouched *)
Theorem filter_mask_other mask a t :
  ids (other a) (filter_mask mask a t) = ids (other a) t /\
  mds (other a) (filter_mask mask a t) = mds (other a) t /\
  ttype (filter_mask mask a t) = ttype t.
Proof. destruct a; simpl; repeat split; reflexivity. Qed.

(* ---- filter_table = filter_mask followed by the metadata normalisation of _cast_metadata ---- *)
Lemma norm_md_ids a t : ids a (norm_md t) = ids a t.
Proof. destruct a; reflexivity. Qed.

Lemma norm_md_cell t o s : cell (norm_md t) o s = cell t o s.
Proof. reflexivity. Qed.

Lemma norm_md_mds a t : mds a (norm_md t) = ctor_md (mds a t).
Proof. destruct a; reflexivity. Qed.

Lemma wf_norm_md t : wf t -> wf (norm_md t).
Proof.
  intros (H1 & H2 & H3 & H4 & H5 & H6). unfold wf, norm_md, nobs, nsamp in *; simpl.
  repeat split; try assumption; apply md_ok_ctor; assumption.
Qed.

Lemma md_view_norm a t x : md_view a (norm_md t) x = md_view a t x.
Proof.
  rewrite !md_view_entry. rewrite norm_md_ids, norm_md_mds.
  destruct (pos x (ids a t)); [apply entry_view_ctor|reflexivity].
Qed.

Lemma md_view_of_md_of a t t' x : md_of a t' x = md_of a t x -> md_view a t' x = md_view a t x.
Proof. unfold md_view. intros H. rewrite H. reflexivity. Qed.

Lemma wf_filter_table mask a t : wf t -> wf (filter_table mask a t).
Proof. intros W. apply wf_norm_md. apply wf_filter_mask. exact W. Qed.

Lemma filter_table_ids mask a b t : ids b (filter_table mask a t) = ids b (filter_mask mask a t).
Proof. apply norm_md_ids. Qed.

Theorem filter_table_cell mask a t o s :
  wf t -> In o (oids (filter_table mask a t)) -> In s (sids (filter_table mask a t)) ->
  cell (filter_table mask a t) o s = cell t o s.
Proof. intros W Ho Hs. unfold filter_table in *. rewrite norm_md_cell. apply filter_mask_cell; assumption. Qed.

(* metadata travels with its id; None and the empty mapping are the same thing to a reader
   (md_view), which is all that the normalisation "entries all empty -> None" can change *)
Theorem filter_table_md mask a t x :
  wf t -> In x (ids a (filter_table mask a t)) -> md_view a (filter_table mask a t) x = md_view a t x.
Proof.
  intros W Hx. unfold filter_table in *. rewrite md_view_norm. rewrite norm_md_ids in Hx.
  apply md_view_of_md_of. apply filter_mask_md; assumption.
Qed.

Theorem filter_table_other mask a t :
  ids (other a) (filter_table mask a t) = ids (other a) t /\
  mds (other a) (filter_table mask a t) = ctor_md (mds (other a) t) /\
  ttype (filter_table mask a t) = ttype t.
Proof.
  destruct (filter_mask_other mask a t) as (A & B & C). unfold filter_table.
  rewrite norm_md_ids, norm_md_mds, A, B. repeat split. destruct a; exact C.
Qed.

Theorem filter_ids_kept keep invert a t t' :
  filter_ids keep invert a t = ROk t' ->
  ids a t' = filter (fun i => xorb (zmem i keep) invert) (ids a t) /\
  (forall x, In x keep -> In x (ids a t)).
Proof.
  unfold filter_ids. destruct (forallb _ keep) eqn:F; [|discriminate]. intros H. inversion H; subst. split.
  - rewrite filter_table_ids. destruct a; simpl; apply select_map_filter.
  - intros x Hx. rewrite forallb_forall in F. apply zmem_In. apply F. exact Hx.
Qed.

Theorem filter_ids_unknown keep invert a t :
  (exists x, In x keep /\ ~ In x (ids a t)) -> filter_ids keep invert a t = RErr E_KEY.
Proof.
  intros [x [Hx Hn]]. unfold filter_ids. destruct (forallb _ keep) eqn:F; [|reflexivity].
  rewrite forallb_forall in F. specialize (F x Hx). apply zmem_In in F. contradiction.
Qed.

Theorem filter_ids_total keep invert a t :
  (forall x, In x keep -> In x (ids a t)) -> exists t', filter_ids keep invert a t = ROk t'.
Proof.
  intros H. unfold filter_ids. destruct (forallb _ keep) eqn:F; [eexists; reflexivity|].
  exfalso. assert (forallb (fun x => zmem x (ids a t)) keep = true); [|congruence].
  apply forallb_forall. intros x Hx. apply zmem_In. apply H. exact Hx.
Qed.

(* filtering by a predicate = filtering by the list of ids the predicate accepts *)
Theorem filter_pred_eq_ids verdicts a t :
  wf t -> length verdicts = length (ids a t) ->
  filter_ids (accepted verdicts a t) false a t = ROk (filter_pred verdicts false a t).
Proof.
  intros W Hl. unfold filter_ids, accepted, filter_pred.
  assert (F : forallb (fun x => zmem x (ids a t)) (select verdicts (ids a t)) = true).
  { apply forallb_forall. intros x Hx. apply zmem_In. eapply select_In. exact Hx. }
  rewrite F. f_equal. unfold filter_table. f_equal. f_equal.
  assert (Hn : NoDup (ids a t)) by (destruct W as (_ & _ & A & B & _); destruct a; assumption).
  clear F W. revert verdicts Hl. induction (ids a t) as [|y l IH]; intros [|b v] Hl; simpl in *; try discriminate; [reflexivity|].
  inversion Hn as [|? ? Hy Hn']; subst. injection Hl as Hl. f_equal.
  - destruct b; simpl.
    + rewrite Z.eqb_refl. reflexivity.
    + rewrite !xorb_false_r. destruct (zmem y (select v l)) eqn:E; [|reflexivity].
      apply zmem_In in E. exfalso. apply Hy. eapply select_In. exact E.
  - rewrite <- (IH Hn' v Hl). apply map_ext_in. intros x Hx. rewrite !xorb_false_r.
    destruct b; simpl; [|reflexivity].
    destruct (Z.eqb x y) eqn:E; [|reflexivity]. apply Z.eqb_eq in E. subst. contradiction.
Qed.

(* the predicate is called once per id, in order, with the id's vector and metadata *)
Theorem pred_calls_spec a t :
  length (pred_calls a t) = length (ids a t) /\
  forall i, i < length (ids a t) ->
    nth i (pred_calls a t) ([], 0%Z, None) = (vec a t i, nth i (ids a t) 0%Z, md_at a t i).
Proof.
  unfold pred_calls. split; [rewrite map_length, seq_length; reflexivity|].
  intros i Hi.
  rewrite (nth_indep _ _ ((fun i => (vec a t i, nth i (ids a t) 0%Z, md_at a t i)) 0))
    by (rewrite map_length, seq_length; exact Hi).
  rewrite (map_nth (fun i => (vec a t i, nth i (ids a t) 0%Z, md_at a t i))).
  rewrite seq_nth by exact Hi. reflexivity.
Qed.

(* ---- remove_empty ---- *)
Lemma select_seq_In (f : nat -> bool) (l : list Z) s x :
  In x (select (map f (seq s (length l))) l) <->
  exists i, i < length l /\ nth i l 0%Z = x /\ f (s + i) = true.
Proof.
  revert s. induction l as [|y l IH]; intros s; simpl.
  - split; [intros []|intros [i [Hi _]]; lia].
  - destruct (f s) eqn:F; simpl.
    + split.
      * intros [H|H]; [exists 0; rewrite Nat.add_0_r; repeat split; [lia|exact H|exact F]|].
        apply IH in H. destruct H as [i [Hi [Hx Hf]]]. exists (S i). repeat split; [lia|exact Hx|].
        rewrite <- Hf. f_equal. lia.
      * intros [[|i] [Hi [Hx Hf]]]; [left; exact Hx|right]. apply IH. exists i. repeat split; [lia|exact Hx|].
        rewrite <- Hf. f_equal. lia.
    + split.
      * intros H. apply IH in H. destruct H as [i [Hi [Hx Hf]]]. exists (S i). repeat split; [lia|exact Hx|].
        rewrite <- Hf. f_equal. lia.
      * intros [[|i] [Hi [Hx Hf]]]; [rewrite Nat.add_0_r in Hf; congruence|]. apply IH. exists i.
        repeat split; [lia|exact Hx|]. rewrite <- Hf. f_equal. lia.
Qed.

(* remove_empty keeps exactly the ids whose vector has a non-zero entry *)
Theorem remove_empty_ids a t x :
  In x (ids a (remove_empty_axis a t)) <->
  exists i, i < length (ids a t) /\ nth i (ids a t) 0%Z = x /\ all_zero (vec a t i) = false.
Proof.
  unfold remove_empty_axis, nonempty_mask. rewrite filter_table_ids.
  assert (E : ids a (filter_mask (map (fun i => negb (all_zero (vec a t i))) (seq 0 (length (ids a t)))) a t)
              = select (map (fun i => negb (all_zero (vec a t i))) (seq 0 (length (ids a t)))) (ids a t))
    by (destruct a; reflexivity).
  rewrite E. rewrite select_seq_In. simpl.
  split; intros [i [Hi [Hx Hf]]]; exists i; repeat split; try assumption.
  - apply negb_true_iff in Hf. exact Hf.
  - apply negb_true_iff. exact Hf.
Qed.

(* ---- head ---- *)
Lemma In_firstn {A} n (l : list A) x : In x (firstn n l) -> In x l.
Proof. revert l. induction n as [|n IH]; intros [|y l] H; simpl in *; try contradiction.
  destruct H as [H|H]; [left; exact H|right; apply IH; exact H]. Qed.

Lemma select_head_mask {A} n s (l : list A) :
  select (map (fun i => Nat.ltb i n) (seq s (length l))) l = firstn (n - s) l.
Proof.
  revert s. induction l as [|y l IH]; intros s; simpl.
  - destruct (n - s); reflexivity.
  - destruct (Nat.ltb_spec s n) as [H|H].
    + destruct (n - s) eqn:E; [lia|]. simpl. f_equal. rewrite IH. f_equal. lia.
    + replace (n - s) with 0 by lia. simpl. rewrite IH. replace (n - S s) with 0 by lia. reflexivity.
Qed.

Lemma filter_table_md_any mask a b t x :
  wf t -> In x (ids b (filter_table mask a t)) -> md_view b (filter_table mask a t) x = md_view b t x.
Proof.
  intros W Hx. destruct (filter_table_other mask a t) as (A & B & _).
  assert (O : forall y, In y (ids (other a) (filter_table mask a t)) ->
              md_view (other a) (filter_table mask a t) y = md_view (other a) t y).
  { intros y _. rewrite !md_view_entry. rewrite A, B.
    destruct (pos y (ids (other a) t)); [apply entry_view_ctor|reflexivity]. }
  destruct a, b; simpl in *; try (apply filter_table_md; assumption); apply O; exact Hx.
Qed.

Lemma filter_table_sub mask a b t x : In x (ids b (filter_table mask a t)) -> In x (ids b t).
Proof.
  rewrite filter_table_ids. destruct a, b; simpl; intros H; try exact H; eapply select_In; exact H.
Qed.

Lemma ft_oids_obs mask t : oids (filter_table mask Obs t) = select mask (oids t). Proof. reflexivity. Qed.
Lemma ft_sids_obs mask t : sids (filter_table mask Obs t) = sids t. Proof. reflexivity. Qed.
Lemma ft_mat_obs mask t : mat (filter_table mask Obs t) = sel_rows mask (mat t). Proof. reflexivity. Qed.
Lemma ft_oids_samp mask t : oids (filter_table mask Samp t) = oids t. Proof. reflexivity. Qed.
Lemma ft_sids_samp mask t : sids (filter_table mask Samp t) = select mask (sids t). Proof. reflexivity. Qed.
Lemma ft_mat_samp mask t : mat (filter_table mask Samp t) = sel_cols mask (mat t). Proof. reflexivity. Qed.
Lemma ft_ttype mask a t : ttype (filter_table mask a t) = ttype t. Proof. destruct a; reflexivity. Qed.

Theorem head_spec n m t t' :
  wf t -> head n m t = ROk t' ->
  (0 < n)%Z /\ (0 < m)%Z /\
  oids t' = firstn (Z.to_nat n) (oids t) /\ sids t' = firstn (Z.to_nat m) (sids t) /\
  mat t' = map (firstn (Z.to_nat m)) (firstn (Z.to_nat n) (mat t)) /\
  (forall a x, In x (ids a t') -> md_view a t' x = md_view a t x) /\
  ttype t' = ttype t /\ wf t'.
Proof.
  intros W. unfold head. destruct ((n <=? 0)%Z || (m <=? 0)%Z) eqn:E; [discriminate|].
  apply orb_false_iff in E. destruct E as [E1 E2]. apply Z.leb_gt in E1, E2.
  intros H.
  assert (Et : t' = filter_table (head_mask (Z.to_nat m) (nsamp t)) Samp
                      (filter_table (head_mask (Z.to_nat n) (nobs t)) Obs t)) by congruence.
  clear H. set (t1 := filter_table (head_mask (Z.to_nat n) (nobs t)) Obs t) in *.
  assert (W1 : wf t1) by (apply wf_filter_table; exact W).
  pose proof W as (H1 & H2 & H3 & H4 & H5 & H6).
  assert (Eo : oids t1 = firstn (Z.to_nat n) (oids t)).
  { unfold t1. rewrite ft_oids_obs. unfold head_mask, nobs. rewrite select_head_mask. f_equal. lia. }
  assert (Es : sids t1 = sids t) by reflexivity.
  assert (Em : mat t1 = firstn (Z.to_nat n) (mat t)).
  { unfold t1. rewrite ft_mat_obs. unfold head_mask, nobs, sel_rows. unfold nobs in H1. rewrite <- H1.
    rewrite select_head_mask. f_equal. lia. }
  split; [lia|]. split; [lia|]. subst t'.
  split; [rewrite ft_oids_samp; exact Eo|]. split.
  { rewrite ft_sids_samp, Es. unfold head_mask, nsamp. rewrite select_head_mask. f_equal. lia. }
  split.
  { rewrite ft_mat_samp, Em. unfold head_mask, nsamp, sel_cols.
    apply map_ext_in. intros r Hr. apply In_firstn in Hr.
    unfold rect in H2. rewrite Forall_forall in H2. unfold nsamp in H2. rewrite <- (H2 r Hr).
    rewrite select_head_mask. f_equal. lia. }
  split.
  { intros a x Hx. rewrite filter_table_md_any by assumption.
    apply filter_table_md_any; [exact W|]. eapply filter_table_sub. exact Hx. }
  split; [rewrite !ft_ttype; reflexivity|]. apply wf_filter_table. exact W1.
Qed.

Theorem head_refuses n m t : (n <= 0)%Z \/ (m <= 0)%Z -> exists c, head n m t = RErr c.
Proof.
  intros H. unfold head. destruct ((n <=? 0)%Z || (m <=? 0)%Z) eqn:E; [eexists; reflexivity|].
  apply orb_false_iff in E. destruct E as [E1 E2]. apply Z.leb_gt in E1, E2. lia.
Qed.
