(* Bridges for C16: the definitions that tools/py2v_eq regenerates from biom/table.py on every
   run (Gen/EqualityGen.v: _data_equality, __eq__, descriptive_equality, __ne__ over the
   vocabulary of Gen/EqPrelude.v) equal the hand-written model of Model/Equality.v, for all
   inputs.  A change of the order of the tests, of what a test compares, of a returned value or
   of an assignment changes the generated text and breaks the bridge of the method it touches. *)
From Coq Require Import List Arith ZArith Lia Bool.
From BiomV Require Import Base.Tree Base.ListUtil Base.Matrix Model.Table Model.Sparse Model.Equality.
From BiomV Require Import Gen.EqPrelude Gen.EqualityGen.
Import ListNotations.

(* what a comparison leaves behind in the two operands *)
Definition eq_after (a b : state) : state * state := let '(_, a', b') := eq_step a b in (a', b').

Lemma tb_data_any (m : spm) (t : table) : tb_data (mkS t (mrep m) (mdt m)) = m.
Proof. destruct m; reflexivity. Qed.

(* ------------------------------------------------------------------ _data_equality *)
Lemma data_equality_bridge : forall a b,
  gen_data_equality a (tb_data b) =
  ROk (let '(v, ra, rb) := data_eq a b in (v, with_rep a ra, mkM rb (dtype b))).
Proof.
  intros [ca ra da] [cb rb db].
  unfold gen_data_equality, data_eq, data_eq_gen, with_rep, tb_data, tb_set_data, sp_shape, shape_eqb, sp_dtype,
    dtype_eqb, sp_count_nonzero, sp_tocsr, sp_differ.
  cbn [rep dtype cont mrep mdt fst snd].
  destruct (Nat.eqb (rep_rows ra) (rep_rows rb) && Nat.eqb (rep_cols ra) (rep_cols rb)); cbn [negb]; [|reflexivity].
  destruct (Z.eqb da db); cbn [negb]; [|reflexivity].
  destruct (Nat.eqb (r_count_nonzero (r_sort ra)) (r_count_nonzero (r_sort rb))); cbn [negb]; [|reflexivity].
  destruct (mat_eqb (rep_matrix (r_tocsr (r_sort ra))) (rep_matrix (r_tocsr (r_sort rb)))); reflexivity.
Qed.

(* any matrix object is the _data of some table: the bridge covers every argument *)
Lemma data_equality_bridge_any : forall a (m : spm) (t : table),
  gen_data_equality a m =
  ROk (let '(v, ra, rb) := data_eq a (mkS t (mrep m) (mdt m)) in (v, with_rep a ra, mkM rb (mdt m))).
Proof. intros a m t. rewrite <- (tb_data_any m t) at 1. apply data_equality_bridge. Qed.

(* ------------------------------------------------------------------ __eq__ *)
Lemma set_data_with_rep b rb : tb_set_data b (mkM rb (dtype b)) = with_rep b rb.
Proof. reflexivity. Qed.

Lemma eq_bridge : forall a b,
  gen_eq a (PTable b) = ROk (let '(v, a', b') := eq_step a b in (v, a', PTable b')).
Proof.
  intros a b. unfold gen_eq, eq_step, eq_step_gen, head_eqb, type_eqb, np_array_equal_ids, np_array_equal_md,
    tb_type, tb_ids_obs, tb_ids_samp, tb_md_obs, tb_md_samp. cbn [py_isinstance_table].
  destruct (Z.eqb (ttype (cont a)) (ttype (cont b))); cbn [negb andb]; [|reflexivity].
  destruct (list_eqb Z.eqb (oids (cont a)) (oids (cont b))); cbn [negb andb]; [|reflexivity].
  destruct (list_eqb Z.eqb (sids (cont a)) (sids (cont b))); cbn [negb andb]; [|reflexivity].
  destruct (md_eqb (omd (cont a)) (omd (cont b))); cbn [negb andb]; [|reflexivity].
  destruct (md_eqb (smd (cont a)) (smd (cont b))); cbn [negb andb]; [|reflexivity].
  rewrite data_equality_bridge. cbn [rbind].
  destruct (data_eq a b) as [[v ra] rb]. rewrite set_data_with_rep.
  destruct v; reflexivity.
Qed.

Lemma eq_foreign_bridge : forall a, gen_eq a PForeign = ROk (false, a, PForeign).
Proof. reflexivity. Qed.

(* ------------------------------------------------------------------ descriptive_equality *)
Lemma desc_bridge : forall a b,
  gen_descriptive_equality a (PTable b) =
  ROk (desc_impl a b, fst (eq_after a b), PTable (snd (eq_after a b))).
Proof.
  intros a b. unfold gen_descriptive_equality, desc_impl, head_code, eq_after, eq_step, eq_step_gen, head_eqb,
    type_eqb, np_array_equal_ids, np_array_equal_md, tb_type, tb_ids_obs, tb_ids_samp, tb_md_obs, tb_md_samp,
    MSG_TYPE, MSG_OBS_IDS, MSG_SAMP_IDS, MSG_OBS_MD, MSG_SAMP_MD, MSG_DATA, MSG_EQUAL.
  cbn [py_isinstance_table].
  destruct (Z.eqb (ttype (cont a)) (ttype (cont b))); cbn [negb andb]; [|reflexivity].
  destruct (list_eqb Z.eqb (oids (cont a)) (oids (cont b))); cbn [negb andb]; [|reflexivity].
  destruct (list_eqb Z.eqb (sids (cont a)) (sids (cont b))); cbn [negb andb]; [|reflexivity].
  destruct (md_eqb (omd (cont a)) (omd (cont b))); cbn [negb andb]; [|reflexivity].
  destruct (md_eqb (smd (cont a)) (smd (cont b))); cbn [negb andb]; [|reflexivity].
  rewrite data_equality_bridge. cbn [rbind].
  destruct (data_eq a b) as [[v ra] rb]. rewrite set_data_with_rep.
  destruct v; reflexivity.
Qed.

Lemma desc_foreign_bridge : forall a, gen_descriptive_equality a PForeign = ROk (MSG_CLASS, a, PForeign).
Proof. reflexivity. Qed.

(* ------------------------------------------------------------------ __ne__ *)
Lemma ne_bridge : forall a b,
  gen_ne a (PTable b) = ROk (ne_impl a b, fst (eq_after a b), PTable (snd (eq_after a b))).
Proof.
  intros a b. unfold gen_ne, ne_impl, eq_impl, eq_after. rewrite eq_bridge. cbn [rbind].
  destruct (eq_step a b) as [[v a'] b']. reflexivity.
Qed.

Lemma ne_foreign_bridge : forall a, gen_ne a PForeign = ROk (true, a, PForeign).
Proof. reflexivity. Qed.
