(* Proofs about the JSON model: COO triples <-> dense matrix, tree-level round trip of
   Table.to_json / Table.from_json, the two writers emit the same object, string literals. *)
From Coq Require Import String.
From Coq Require Import List Arith ZArith Lia Bool Permutation.
From BiomV Require Import Base.Tree Base.ListUtil Base.Matrix Base.TreeStr Model.Table Model.Json.
Import ListNotations.
Open Scope Z_scope.

(* ------------------------------------------------------------------ strings *)
Lemma str_eqb_eq a b : str_eqb a b = true <-> a = b.
Proof. apply list_eqb_Z_eq. Qed.
Lemma str_eqb_refl a : str_eqb a a = true.
Proof. apply str_eqb_eq. reflexivity. Qed.
Lemma str_eqb_neq a b : str_eqb a b = false <-> a <> b.
Proof.
  split.
  - intros H E. apply str_eqb_eq in E. congruence.
  - intros H. destruct (str_eqb a b) eqn:E; [|reflexivity]. apply str_eqb_eq in E. contradiction.
Qed.

Lemma str_mem_In s l : str_mem s l = true <-> In s l.
Proof.
  unfold str_mem. rewrite existsb_exists. split.
  - intros [y [Hy He]]. apply str_eqb_eq in He. subst. exact Hy.
  - intros H. exists s. split; [exact H|apply str_eqb_refl].
Qed.

Lemma str_dup_false_NoDup l : str_dup l = false <-> NoDup l.
Proof.
  induction l as [|x t IH]; simpl.
  - split; [constructor|reflexivity].
  - rewrite orb_false_iff. split.
    + intros [A B]. constructor; [|apply IH; exact B].
      intros Hin. apply str_mem_In in Hin. congruence.
    + intros H. inversion H as [|? ? Hn Hd]; subst. split; [|apply IH; exact Hd].
      destruct (str_mem x t) eqn:E; [|reflexivity]. apply str_mem_In in E. contradiction.
Qed.

(* ------------------------------------------------------------------ matrices *)
Lemma zeros_length nr nc : length (zeros nr nc) = nr.
Proof. unfold zeros. apply repeat_length. Qed.

Lemma zeros_rect nr nc : rect nc (zeros nr nc).
Proof.
  unfold rect, zeros. apply Forall_forall. intros r Hr. apply repeat_spec in Hr. subst.
  apply repeat_length.
Qed.

Lemma nth_repeat_Z n i : nth i (repeat 0 n) 0 = 0.
Proof. revert i. induction n as [|n IH]; intros [|i]; simpl; auto. Qed.

Lemma get_zeros nr nc i j : get (zeros nr nc) i j = 0.
Proof.
  unfold get, zeros. destruct (Nat.lt_ge_cases i nr) as [H|H].
  - rewrite (nth_indep _ [] (repeat 0 nc)) by (rewrite repeat_length; exact H).
    assert (E : nth i (repeat (repeat 0 nc) nr) (repeat 0 nc) = repeat 0 nc).
    { clear H. revert i. induction nr as [|n IH]; intros [|i]; simpl; auto. }
    rewrite E. apply nth_repeat_Z.
  - rewrite (nth_overflow (repeat (repeat 0 nc) nr)) by (rewrite repeat_length; exact H).
    destruct j; reflexivity.
Qed.

Lemma upd_overflow {A} (l : list A) i v : (length l <= i)%nat -> upd l i v = l.
Proof.
  intros H. unfold upd. rewrite skipn_all2 by exact H. rewrite firstn_all2 by exact H.
  apply app_nil_r.
Qed.

Lemma mset_length m i j v : length (mset m i j v) = length m.
Proof. unfold mset. apply upd_length. Qed.

Lemma mset_rect nc m i j v : rect nc m -> rect nc (mset m i j v).
Proof.
  intros R. unfold mset. destruct (Nat.lt_ge_cases i (length m)) as [H|H].
  - unfold rect in *. rewrite Forall_forall in *. intros r Hr.
    destruct (In_nth _ _ [] Hr) as [k [Hk Ek]]. rewrite upd_length in Hk.
    destruct (Nat.eq_dec k i) as [->|Hne].
    + rewrite nth_upd_eq in Ek by exact H. subst r. rewrite upd_length.
      apply R. apply nth_In. exact H.
    + rewrite nth_upd_neq in Ek by congruence. subst r. apply R. apply nth_In. exact Hk.
  - rewrite upd_overflow by exact H. exact R.
Qed.

Lemma get_mset_same m i j v :
  (i < length m)%nat -> (j < length (nth i m []))%nat -> get (mset m i j v) i j = v.
Proof.
  intros Hi Hj. unfold get, mset. rewrite nth_upd_eq by exact Hi. apply nth_upd_eq. exact Hj.
Qed.

Lemma get_mset_other m i j v i' j' :
  (i <> i' \/ j <> j') -> get (mset m i j v) i' j' = get m i' j'.
Proof.
  intros H. unfold get, mset. destruct (Nat.eq_dec i i') as [->|Hne].
  - destruct (Nat.lt_ge_cases i' (length m)) as [Hi|Hi].
    + rewrite nth_upd_eq by exact Hi. apply nth_upd_neq. destruct H; congruence.
    + rewrite upd_overflow by exact Hi. reflexivity.
  - rewrite nth_upd_neq by exact Hne. reflexivity.
Qed.

(* the value accumulated at one coordinate *)
Definition hit (i j : nat) (t : nat * nat * Z) : Z :=
  let '(a, b, v) := t in if (a =? i)%nat && (b =? j)%nat then v else 0.
Definition sum_at (i j : nat) (ts : list (nat * nat * Z)) : Z := zsum (map (hit i j) ts).
Definition in_range (nr nc : nat) (t : nat * nat * Z) : Prop :=
  let '(a, b, _) := t in (a < nr)%nat /\ (b < nc)%nat.

Lemma sum_at_app i j a b : sum_at i j (a ++ b) = sum_at i j a + sum_at i j b.
Proof. unfold sum_at. rewrite map_app. apply zsum_app. Qed.

Lemma fold_add_triple nc ts : forall m i j,
  rect nc m -> Forall (in_range (length m) nc) ts ->
  length (fold_left add_triple ts m) = length m /\ rect nc (fold_left add_triple ts m)
  /\ get (fold_left add_triple ts m) i j = get m i j + sum_at i j ts.
Proof.
  induction ts as [|[[a b] v] ts IH]; intros m i j R F; simpl.
  - repeat split; [exact R|unfold sum_at; simpl; lia].
  - inversion F as [|? ? Hab F']; subst. destruct Hab as [Ha Hb].
    assert (R' : rect nc (mset m a b (get m a b + v))) by (apply mset_rect; exact R).
    assert (L' : length (mset m a b (get m a b + v)) = length m) by apply mset_length.
    destruct (IH (mset m a b (get m a b + v)) i j R') as (H1 & H2 & H3).
    { rewrite L'. exact F'. }
    split; [rewrite H1; exact L'|]. split; [exact H2|].
    rewrite H3. unfold sum_at. simpl. fold (sum_at i j ts).
    destruct ((a =? i)%nat && (b =? j)%nat) eqn:E.
    + apply andb_true_iff in E. destruct E as [E1 E2].
      apply Nat.eqb_eq in E1. apply Nat.eqb_eq in E2. subst.
      rewrite get_mset_same; [lia|exact Ha|]. rewrite (rect_nth_length nc m i R Ha). exact Hb.
    + rewrite get_mset_other; [lia|].
      apply andb_false_iff in E. destruct E as [E|E]; apply Nat.eqb_neq in E; auto.
Qed.

Lemma sum_at_cons i j t ts : sum_at i j (t :: ts) = hit i j t + sum_at i j ts.
Proof. reflexivity. Qed.

Lemma sum_at_row i j i' r : forall j0,
  sum_at i j (row_triples i' j0 r) =
  if (i' =? i)%nat && (j0 <=? j)%nat && (j <? j0 + length r)%nat then nth (j - j0) r 0 else 0.
Proof.
  induction r as [|v t IH]; intros j0.
  - cbn [row_triples length]. unfold sum_at. cbn [map zsum fold_right].
    destruct (Nat.eqb_spec i' i), (Nat.leb_spec j0 j), (Nat.ltb_spec j (j0 + 0)); cbn [andb];
      try reflexivity; lia.
  - assert (S1 : sum_at i j (row_triples i' j0 (v :: t)) =
                 (if (i' =? i)%nat && (j0 =? j)%nat then v else 0) + sum_at i j (row_triples i' (S j0) t)).
    { cbn [row_triples]. destruct (v =? 0) eqn:Ev.
      - apply Z.eqb_eq in Ev. subst. destruct ((i' =? i)%nat && (j0 =? j)%nat); lia.
      - rewrite sum_at_cons. reflexivity. }
    rewrite S1, IH. cbn [length].
    destruct (Nat.eqb_spec i' i) as [Ei|Ei]; cbn [andb]; [|lia].
    destruct (Nat.eqb_spec j0 j) as [Ej|Ej].
    + subst j. destruct (Nat.leb_spec j0 j0); [|lia].
      destruct (Nat.leb_spec (S j0) j0); [lia|].
      destruct (Nat.ltb_spec j0 (j0 + S (length t))); [|lia].
      cbn [andb]. replace (j0 - j0)%nat with 0%nat by lia. cbn [nth]. lia.
    + destruct (Nat.leb_spec j0 j) as [L1|L1]; destruct (Nat.leb_spec (S j0) j) as [L2|L2]; try lia;
        cbn [andb]; [|lia].
      destruct (Nat.ltb_spec j (S j0 + length t)) as [L3|L3];
        destruct (Nat.ltb_spec j (j0 + S (length t))) as [L4|L4]; try lia.
      destruct (j - j0)%nat as [|d] eqn:Ed; [lia|].
      replace (j - S j0)%nat with d by lia. cbn [nth]. lia.
Qed.

Lemma sum_at_triples_from i j m : forall i0,
  sum_at i j (triples_from i0 m) =
  if (i0 <=? i)%nat && (i <? i0 + length m)%nat then get m (i - i0) j else 0.
Proof.
  induction m as [|r t IH]; intros i0.
  - cbn [triples_from length]. unfold sum_at. cbn [map zsum fold_right].
    destruct (Nat.leb_spec i0 i), (Nat.ltb_spec i (i0 + 0)); cbn [andb]; try reflexivity; lia.
  - cbn [triples_from length]. rewrite sum_at_app, sum_at_row, IH. unfold get.
    destruct (Nat.eqb_spec i0 i) as [Ei|Ei].
    + subst i. destruct (Nat.leb_spec i0 i0); [|lia].
      destruct (Nat.leb_spec (S i0) i0); [lia|].
      destruct (Nat.ltb_spec i0 (i0 + S (length t))); [|lia].
      destruct (Nat.leb_spec 0 j); [|lia].
      cbn [andb]. replace (i0 - i0)%nat with 0%nat by lia. cbn [nth].
      replace (j - 0)%nat with j by lia.
      destruct (Nat.ltb_spec j (0 + length r)) as [Lj|Lj]; [lia|].
      rewrite nth_overflow by lia. lia.
    + cbn [andb].
      destruct (Nat.leb_spec i0 i) as [L1|L1]; destruct (Nat.leb_spec (S i0) i) as [L2|L2]; try lia;
        cbn [andb]; [|lia].
      destruct (Nat.ltb_spec i (S i0 + length t)) as [L3|L3];
        destruct (Nat.ltb_spec i (i0 + S (length t))) as [L4|L4]; try lia.
      destruct (i - i0)%nat as [|d] eqn:Ed; [lia|].
      replace (i - S i0)%nat with d by lia. cbn [nth]. lia.
Qed.

Lemma row_triples_range i nc r : forall j0,
  (j0 + length r <= nc)%nat -> Forall (fun t => let '(a, b, _) := t in a = i /\ (b < nc)%nat) (row_triples i j0 r).
Proof.
  induction r as [|v t IH]; intros j0 H; simpl; [constructor|].
  simpl in H. destruct (v =? 0).
  - apply IH. lia.
  - constructor; [split; [reflexivity|lia]|]. apply IH. lia.
Qed.

Lemma triples_from_range nc m : forall i0,
  rect nc m -> Forall (in_range (i0 + length m) nc) (triples_from i0 m).
Proof.
  induction m as [|r t IH]; intros i0 R; simpl; [constructor|].
  inversion R as [|? ? Hr R']; subst. apply Forall_app. split.
  - pose proof (row_triples_range i0 (length r) r 0%nat (Nat.le_refl _)) as H.
    eapply Forall_impl; [|exact H]. intros [[a b] v] [Ha Hb]. unfold in_range. lia.
  - specialize (IH (S i0) R'). eapply Forall_impl; [|exact IH].
    intros [[a b] v]. unfold in_range. lia.
Qed.

Lemma triples_range nc m : rect nc m -> Forall (in_range (length m) nc) (triples m).
Proof. intros R. exact (triples_from_range nc m 0%nat R). Qed.

Lemma sum_at_triples i j m : sum_at i j (triples m) = get m i j.
Proof.
  unfold triples. rewrite sum_at_triples_from. simpl. replace (i - 0)%nat with i by lia.
  destruct (i <? length m)%nat eqn:E; [reflexivity|].
  apply Nat.ltb_ge in E. unfold get. rewrite (nth_overflow m) by exact E. destruct j; reflexivity.
Qed.

(* C02 core: the sparse entries the writer emits rebuild the matrix, whatever its sparsity
   (all-zero rows, columns and matrices included) *)
Theorem triples_roundtrip nc m : rect nc m -> dense_of_triples (length m) nc (triples m) = m.
Proof.
  intros R. unfold dense_of_triples.
  assert (F : Forall (in_range (length (zeros (length m) nc)) nc) (triples m)).
  { rewrite zeros_length. apply triples_range. exact R. }
  pose proof (fun i j => fold_add_triple nc (triples m) (zeros (length m) nc) i j (zeros_rect _ _) F) as H.
  apply (mat_ext nc).
  - destruct (H 0%nat 0%nat) as [H1 _]. rewrite H1. apply zeros_length.
  - destruct (H 0%nat 0%nat) as (_ & H2 & _). exact H2.
  - exact R.
  - intros i j _ _. destruct (H i j) as (_ & _ & H3). rewrite H3, get_zeros, sum_at_triples. lia.
Qed.

(* every emitted value is non-zero: nothing but zeros is dropped, no zero is written *)
Lemma row_triples_nonzero i r : forall j0, Forall (fun t => snd t <> 0) (row_triples i j0 r).
Proof.
  induction r as [|v t IH]; intros j0; simpl; [constructor|].
  destruct (v =? 0) eqn:E; [apply IH|]. constructor; [simpl; apply Z.eqb_neq; exact E|apply IH].
Qed.
Lemma triples_nonzero m : Forall (fun t => snd t <> 0) (triples m).
Proof.
  unfold triples. generalize 0%nat. induction m as [|r t IH]; intros i0; simpl; [constructor|].
  apply Forall_app. split; [apply row_triples_nonzero|apply IH].
Qed.

(* ------------------------------------------------------------------ reading the data entries back *)
Lemma mapM_ok {A B} (f : A -> result B) (g : A -> B) l :
  (forall x, In x l -> f x = ROk (g x)) -> mapM f l = ROk (map g l).
Proof.
  induction l as [|x t IH]; intros H; simpl; [reflexivity|].
  rewrite (H x (or_introl eq_refl)). simpl. rewrite IH by (intros y Hy; apply H; right; exact Hy).
  reflexivity.
Qed.

Lemma sparse_entries_jtriples nr nc ts :
  ts <> [] -> Forall (in_range nr nc) ts ->
  sparse_entries nr nc (map jtriple ts) = ROk ts.
Proof.
  intros Hne F. unfold sparse_entries.
  rewrite (mapM_ok py_iter (fun j => match j with JArr l => l | _ => [] end)).
  2:{ intros x Hx. apply in_map_iff in Hx. destruct Hx as [[[a b] v] [E _]]. subst. reflexivity. }
  rewrite map_map. cbn [bind].
  assert (A : forallb (fun l => (3 <=? length l)%nat)
                (map (fun x => match jtriple x with JArr l => l | _ => [] end) ts) = true).
  { apply forallb_forall. intros l Hl. apply in_map_iff in Hl. destruct Hl as [[[a b] v] [E _]]. subst. reflexivity. }
  assert (B : existsb (fun l => (length l =? 3)%nat)
                (map (fun x => match jtriple x with JArr l => l | _ => [] end) ts) = true).
  { destruct ts as [|[[a b] v] ts']; [contradiction|]. reflexivity. }
  rewrite A, B. cbn [andb].
  rewrite (mapM_ok _ (fun l => match l with
                               | [JInt a; JInt b; JFlt v] => (Z.to_nat a, Z.to_nat b, v)
                               | _ => (0%nat, 0%nat, 0) end)).
  - rewrite map_map. f_equal. rewrite <- (map_id ts) at 2. apply map_ext.
    intros [[a b] v]. simpl. rewrite !Nat2Z.id. reflexivity.
  - intros l Hl. apply in_map_iff in Hl. destruct Hl as [[[a b] v] [E Hin]]. subst. simpl.
    rewrite Forall_forall in F. specialize (F _ Hin). destruct F as [Ha Hb].
    unfold coord.
    assert (C1 : (Z.of_nat a <? 0) = false) by (apply Z.ltb_ge; lia).
    assert (C2 : (Z.of_nat nr <=? Z.of_nat a) = false) by (apply Z.leb_gt; lia).
    assert (C3 : (Z.of_nat b <? 0) = false) by (apply Z.ltb_ge; lia).
    assert (C4 : (Z.of_nat nc <=? Z.of_nat b) = false) by (apply Z.leb_gt; lia).
    rewrite C1, C2, C3, C4. reflexivity.
Qed.

(* what the reader makes of the "data" list of the writer *)
Lemma to_sparse_written nc m :
  rect nc m -> to_sparse (JArr (map jtriple (triples m))) false (length m) nc = ROk m.
Proof.
  intros R. pose proof (triples_roundtrip nc m R) as RT.
  destruct (triples m) as [|[[a b] v] ts] eqn:E.
  - simpl. f_equal. exact RT.
  - assert (S : sparse_entries (length m) nc (map jtriple ((a, b, v) :: ts)) = ROk ((a, b, v) :: ts)).
    { apply sparse_entries_jtriples; [discriminate|]. rewrite <- E. apply triples_range. exact R. }
    change (to_sparse (JArr (map jtriple ((a, b, v) :: ts))) false (length m) nc)
      with (bind (sparse_entries (length m) nc (map jtriple ((a, b, v) :: ts)))
                 (fun ts0 => ROk (dense_of_triples (length m) nc ts0))).
    rewrite S. simpl. f_equal. exact RT.
Qed.

(* ------------------------------------------------------------------ tree-level round trip *)
Lemma ids_of_records ids : forall mdl, length mdl = length ids ->
  mapM (fun r => py_getitem r (K "id")) (map (fun p => jrecord (fst p) (snd p)) (combine ids mdl))
  = ROk (map JStr ids).
Proof.
  induction ids as [|x t IH]; intros [|m mdl] H; simpl in H; try discriminate; [reflexivity|].
  cbn [combine map mapM fst snd]. rewrite IH by lia.
  reflexivity.
Qed.

Lemma mds_of_records ids : forall mdl, length mdl = length ids ->
  mapM (fun r => py_getitem r (K "metadata")) (map (fun p => jrecord (fst p) (snd p)) (combine ids mdl))
  = ROk mdl.
Proof.
  induction ids as [|x t IH]; intros [|m mdl] H; simpl in H; try discriminate; [reflexivity|].
  cbn [combine map mapM fst snd]. rewrite IH by lia.
  reflexivity.
Qed.

Lemma md_list_length n md : md_len md n -> length (md_list n md) = n.
Proof. destruct md; simpl; intros H; [exact H|apply repeat_length]. Qed.

Lemma nothing_nulls n : forallb holds_nothing (repeat JNull n) = true.
Proof. induction n; simpl; auto. Qed.

Lemma cast_md_written n md : md_objs md -> cast_md (md_list n md) = ROk (md_canon md).
Proof.
  destruct md as [l|]; simpl; intros H.
  - unfold cast_md. destruct (forallb holds_nothing l) eqn:E; [reflexivity|].
    rewrite (mapM_ok _ (fun x => x)).
    + rewrite map_id. reflexivity.
    + intros x Hx. rewrite Forall_forall in H. specialize (H x Hx). destruct x; try discriminate. reflexivity.
  - unfold cast_md. rewrite nothing_nulls. reflexivity.
Qed.

Lemma as_str_strs ids : mapM as_str (map JStr ids) = ROk ids.
Proof. induction ids as [|x t IH]; simpl; [reflexivity|]. rewrite IH. reflexivity. Qed.

Lemma element_type_known c :
  existsb (fun t => py_eq (JStr (element_type c)) (JStr t)) ELEMENT_TYPES_TABLE = true.
Proof. unfold element_type. destruct ((0 <? jnobs c)%nat && (0 <? jnsamp c)%nat); reflexivity. Qed.

(* C02 core: reading back the tree the writer produces gives the table it was written from *)
Theorem json_tree_roundtrip c tid :
  wfj c -> from_json (to_json_tree c tid) = ROk (canon_jt c).
Proof.
  intros (W1 & W2 & W3 & W4 & W5 & W6 & W7 & W8).
  unfold from_json, to_json_tree.
  change (py_getitem (JObj (to_json_fields c tid)) (K "columns")) with (ROk (A := json) (w_columns c)).
  unfold w_columns. cbn [bind py_iter].
  unfold jrecords.
  rewrite ids_of_records by (apply md_list_length; exact W6). cbn [bind].
  rewrite mds_of_records by (apply md_list_length; exact W6). cbn [bind].
  change (py_getitem (JObj (to_json_fields c tid)) (K "rows")) with (ROk (A := json) (w_rows c)).
  unfold w_rows, jrecords. cbn [bind py_iter].
  rewrite ids_of_records by (apply md_list_length; exact W5). cbn [bind].
  rewrite mds_of_records by (apply md_list_length; exact W5). cbn [bind].
  change (py_getitem (JObj (to_json_fields c tid)) (K "matrix_element_type"))
    with (ROk (A := json) (JStr (element_type c))).
  cbn [bind py_hashable]. rewrite element_type_known. cbn [bind].
  change (py_in (K "matrix_type") (JObj (to_json_fields c tid))) with (ROk (A := bool) true).
  cbn [bind].
  change (py_getitem (JObj (to_json_fields c tid)) (K "matrix_type")) with (ROk (A := json) (JStr (K "sparse"))).
  cbn [bind].
  change (py_eq (JStr (K "sparse")) (JStr (K "dense"))) with false.
  change (py_getitem (JObj (to_json_fields c tid)) (K "type")) with (ROk (A := json) (j_type c)).
  change (py_getitem (JObj (to_json_fields c tid)) (K "data"))
    with (ROk (A := json) (JArr (map jtriple (triples (j_mat c))))).
  change (py_getitem (JObj (to_json_fields c tid)) (K "date")) with (ROk (A := json) (j_date c)).
  change (py_getitem (JObj (to_json_fields c tid)) (K "shape"))
    with (ROk (A := json) (JArr [JInt (Z.of_nat (jnobs c)); JInt (Z.of_nat (jnsamp c))])).
  change (py_getitem (JObj (to_json_fields c tid)) (K "generated_by")) with (ROk (A := json) (j_genby c)).
  cbn [bind]. rewrite !map_length.
  fold (jnobs c). fold (jnsamp c). rewrite <- W1.
  rewrite (to_sparse_written (jnsamp c) (j_mat c) W2). cbn [bind].
  rewrite !as_str_strs. cbn [bind].
  assert (D1 : str_dup (j_oids c) = false) by (apply str_dup_false_NoDup; exact W3).
  assert (D2 : str_dup (j_sids c) = false) by (apply str_dup_false_NoDup; exact W4).
  rewrite D1, D2. cbn [orb bind].
  rewrite (cast_md_written _ _ W8). cbn [bind].
  rewrite (cast_md_written _ _ W7). cbn [bind].
  reflexivity.
Qed.

Corollary json_tree_roundtrip_normal c tid :
  wfj c -> md_normal (j_omd c) -> md_normal (j_smd c) ->
  from_json (to_json_tree c tid) = ROk c.
Proof.
  intros W N1 N2. rewrite json_tree_roundtrip by assumption. f_equal.
  unfold canon_jt. destruct c as [o s m omd smd ty gb dt]; simpl in *.
  f_equal.
  - destruct omd as [l|]; simpl in *; [rewrite N1|]; reflexivity.
  - destruct smd as [l|]; simpl in *; [rewrite N2|]; reflexivity.
Qed.

(* ------------------------------------------------------------------ the two writers *)
Lemma jget_In kv : forall k v, NoDup (map fst kv) -> (jget kv k = Some v <-> In (k, v) kv).
Proof.
  induction kv as [|[k' v'] t IH]; intros k v N; simpl.
  - split; [discriminate|tauto].
  - inversion N as [|? ? Hn N']; subst. destruct (str_eqb k k') eqn:E.
    + apply str_eqb_eq in E. subst k'. split.
      * intros H. inversion H; subst. left; reflexivity.
      * intros [H|H]; [inversion H; reflexivity|].
        exfalso. apply Hn. apply in_map_iff. exists (k, v). split; [reflexivity|exact H].
    + apply str_eqb_neq in E. rewrite (IH k v N'). split.
      * intros H; right; exact H.
      * intros [H|H]; [inversion H; congruence|exact H].
Qed.

Lemma jget_same_entries a b k :
  NoDup (map fst a) -> NoDup (map fst b) -> (forall p, In p a <-> In p b) -> jget a k = jget b k.
Proof.
  intros Na Nb H. destruct (jget a k) as [v|] eqn:Ea.
  - apply (jget_In a k v Na) in Ea. apply H in Ea. apply (jget_In b k v Nb) in Ea. symmetry. exact Ea.
  - destruct (jget b k) as [v|] eqn:Eb; [|reflexivity].
    apply (jget_In b k v Nb) in Eb. apply H in Eb. apply (jget_In a k v Na) in Eb. congruence.
Qed.

Definition KEYS12 : list str :=
  [K "id"; K "format"; K "format_url"; K "matrix_type"; K "generated_by"; K "date"; K "type";
   K "matrix_element_type"; K "shape"; K "data"; K "rows"; K "columns"].

Lemma fields_keys c tid : map fst (to_json_fields c tid) = KEYS12.
Proof. reflexivity. Qed.
Lemma fields_direct_keys c tid :
  map fst (to_json_fields_direct c tid) =
  [K "id"; K "format"; K "format_url"; K "generated_by"; K "date"; K "matrix_element_type"; K "shape";
   K "type"; K "matrix_type"; K "data"; K "rows"; K "columns"].
Proof. reflexivity. Qed.

Lemma keys12_nodup : NoDup KEYS12.
Proof. apply str_dup_false_NoDup. vm_compute. reflexivity. Qed.

Lemma fields_same_entries c tid p : In p (to_json_fields_direct c tid) <-> In p (to_json_fields c tid).
Proof. unfold to_json_fields, to_json_fields_direct. cbn [In]. tauto. Qed.

Lemma fields_perm c tid : Permutation (to_json_fields_direct c tid) (to_json_fields c tid).
Proof.
  apply NoDup_Permutation.
  - apply (NoDup_map_inv fst). rewrite fields_direct_keys. apply str_dup_false_NoDup. vm_compute. reflexivity.
  - apply (NoDup_map_inv fst). rewrite fields_keys. apply keys12_nodup.
  - apply fields_same_entries.
Qed.

(* C02: the streamed writer and the string writer emit the same object: the same twelve
   keys, each once, with the same value under every key (the order of keys differs) *)
Theorem direct_io_same_doc c tid :
  Permutation (to_json_fields_direct c tid) (to_json_fields c tid)
  /\ NoDup (map fst (to_json_fields c tid)) /\ NoDup (map fst (to_json_fields_direct c tid))
  /\ (forall k, jget (to_json_fields_direct c tid) k = jget (to_json_fields c tid) k)
  /\ from_json (to_json_tree_direct c tid) = from_json (to_json_tree c tid).
Proof.
  pose proof (fields_perm c tid) as P.
  assert (N1 : NoDup (map fst (to_json_fields c tid))) by (rewrite fields_keys; apply keys12_nodup).
  assert (N2 : NoDup (map fst (to_json_fields_direct c tid))).
  { eapply Permutation_NoDup; [|exact N1]. apply Permutation_map. apply Permutation_sym. exact P. }
  assert (G : forall k, jget (to_json_fields_direct c tid) k = jget (to_json_fields c tid) k).
  { intros k. apply jget_same_entries; try assumption.
    intros p. split; apply Permutation_in; [exact P|apply Permutation_sym; exact P]. }
  split; [exact P|]. split; [exact N1|]. split; [exact N2|]. split; [exact G|].
  unfold from_json, to_json_tree, to_json_tree_direct, py_getitem, py_in. rewrite !G. reflexivity.
Qed.

(* ------------------------------------------------------------------ witnesses *)
Ltac solve_wfj :=
  unfold wfj, rect, jnobs, jnsamp, md_len, md_objs; cbn [j_oids j_sids j_mat j_omd j_smd length];
  repeat split;
  try reflexivity;
  try (apply str_dup_false_NoDup; vm_compute; reflexivity);
  repeat (constructor; try reflexivity).

(* tables with an empty axis (outside the 1..N x 1..M domain of the property, inside "any table") *)
Definition empty_obs_table : jtable :=
  mkJT [] [K "a"; K "b"] [] None None JNull (JStr (K "g")) (JStr (K "d")).
Definition empty_samp_table : jtable :=
  mkJT [K "a"; K "b"] [] [[]; []] None None JNull (JStr (K "g")) (JStr (K "d")).
Lemma empty_axis_tables_ok : wfj empty_obs_table /\ wfj empty_samp_table.
Proof. split; [unfold empty_obs_table|unfold empty_samp_table]; solve_wfj. Qed.

Definition witness_table : jtable :=
  mkJT [K "o""1"; K "o\2"] [K "s1"; K "s2"; K "s3"] [[0; 5; 0]; [-7; 0; 9]]
       (Some [JObj [(K "k", JArr [JInt 1; JNull])]; JObj []]) None
       (JStr (K "OTU table")) (JStr (K "gen ""by""")) (JStr (K "2020-01-02T03:04:05")).
Lemma witness_table_ok :
  wfj witness_table /\ md_normal (j_omd witness_table) /\ md_normal (j_smd witness_table).
Proof.
  split; [unfold witness_table; solve_wfj|]. split; reflexivity.
Qed.
